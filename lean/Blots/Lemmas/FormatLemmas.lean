import Blots.Model.Format
/-
  Lemmas about the formatter model (`Model/Format.lean`, mirror of `formatter.rs`).

  * `hasNewline` algebra;
  * `cfm` : an expression that `containsComments` never has a newline-free `fmtSingle`
    (mutual structural induction over Expr / Item / Entry / Key and their lists);
  * `hasDo`, `anyComment` : the same for do-blocks (whose statement comments
    `contains_comments` does not count, but which never print on one line);
  * `joinStatementsWithSpacing` : structure of the output, the gaps, stability.

  The width-driven layout functions (`fmtImplP`, …: total, piece lists) are treated in
  `Lemmas/FormatPieces.lean`.
-/
namespace Blots
namespace FormatL

theorem hasNewline_append (a b : String) : hasNewline (a ++ b) = (hasNewline a || hasNewline b) := by
  simp [hasNewline, String.toList_append]

theorem mem_intercalate {α} (sep : List α) (c : α) :
    ∀ (l : List (List α)) (x : List α), x ∈ l → c ∈ x → c ∈ sep.intercalate l
  | [], _, h, _ => by cases h
  | [y], x, h, hc => by
    rw [List.mem_singleton] at h; subst h
    simpa [List.intercalate] using hc
  | y :: z :: r, x, h, hc => by
    have ih := mem_intercalate sep c (z :: r) x
    simp only [List.intercalate, List.intersperse_cons_cons, List.flatten_cons, List.mem_append] at ih ⊢
    rcases List.mem_cons.mp h with rfl | h
    · exact Or.inl hc
    · exact Or.inr (Or.inr (ih h hc))

theorem hasNewline_intercalate (sep : String) (l : List String) (x : String) (hx : x ∈ l)
    (h : hasNewline x = true) : hasNewline (sep.intercalate l) = true := by
  unfold hasNewline at *
  rw [String.toList_intercalate]
  rw [List.contains_iff_mem] at *
  exact mem_intercalate _ _ _ x.toList (List.mem_map.mpr ⟨x, hx, rfl⟩) h

theorem hasNewline_parenIf (b : Bool) (s : String) : hasNewline (parenIf b s) = hasNewline s := by
  cases b
  · rfl
  · simp only [parenIf, if_true, hasNewline_append]
    have : hasNewline "(" = false := by decide
    have h2 : hasNewline ")" = false := by decide
    simp [this, h2]

theorem hasNewline_nl : hasNewline "\n" = true := by decide

mutual
theorem cfm : ∀ e : Expr, containsComments e = true → hasNewline (fmtSingle e) = true
  | .assign n v, h => by
    simp only [containsComments] at h
    simp only [fmtSingle, hasNewline_append, cfm v h, Bool.or_true]
  | .output e, h => by
    simp only [containsComments] at h
    simp only [fmtSingle, hasNewline_append, cfm e h, Bool.or_true]
  | .lambda args body, h => by
    simp only [containsComments] at h
    have ih := cfm body h
    simp only [fmtSingle]
    split <;> simp [hasNewline_append, ih]
  | .call f args, h => by
    simp only [containsComments, Bool.or_eq_true] at h
    simp only [fmtSingle, hasNewline_append, hasNewline_parenIf]
    rcases h with h | h
    · simp [cfm f h]
    · obtain ⟨s, hs, hn⟩ := cfm_list args h
      simp [hasNewline_intercalate _ _ s hs hn]
  | .list items, h => by
    simp only [containsComments] at h
    simp only [fmtSingle]
    split
    · decide
    · rename_i hany
      obtain ⟨s, hs, hn⟩ := cfm_items items h (by simpa using hany)
      simp [hasNewline_append, hasNewline_intercalate _ _ s hs hn]
  | .record es, h => by
    simp only [containsComments] at h
    simp only [fmtSingle]
    split
    · decide
    · rename_i hany
      obtain ⟨s, hs, hn⟩ := cfm_entries es h (by simpa using hany)
      simp [hasNewline_append, hasNewline_intercalate _ _ s hs hn]
  | .num _, h | .str _, h | .bool _, h | .null, h | .ident _, h | .inref _, h | .builtin _, h
  | .cond _ _ _, h | .doBlock _ _, h | .access _ _, h | .dot _ _, h | .bin _ _ _, h | .un _ _, h
  | .fact _, h | .spread _, h => by
    simp only [fmtSingle, h, if_true, hasNewline_nl]
theorem cfm_list : ∀ es : List Expr, exprsContainComments es = true →
    ∃ s ∈ fmtSingleList es, hasNewline s = true
  | [], h => by simp [exprsContainComments] at h
  | e :: es, h => by
    simp only [exprsContainComments, Bool.or_eq_true] at h
    simp only [fmtSingleList, List.mem_cons, exists_eq_or_imp]
    rcases h with h | h
    · exact Or.inl (cfm e h)
    · exact Or.inr (cfm_list es h)
theorem cfm_item : ∀ i : Item, itemContainsComments i = true → hasNewline (fmtSingleItem i) = true
  | .mk _ e _, h => by
    simp only [itemContainsComments] at h
    simp only [fmtSingleItem, cfm e h]
theorem cfm_items : ∀ is : List Item, itemsHaveComments is = true →
    is.any Item.hasComments = false → ∃ s ∈ fmtSingleItems is, hasNewline s = true
  | [], h, _ => by simp [itemsHaveComments] at h
  | (.mk l e t) :: is, h, hany => by
    simp only [itemsHaveComments, itemHasOrContains, Bool.or_eq_true] at h
    simp only [List.any_cons, Item.hasComments, Item.leading, Item.trailing, Bool.or_eq_false_iff] at hany
    simp only [fmtSingleItems, List.mem_cons, exists_eq_or_imp]
    rcases h with ((h | h) | h) | h
    · rw [hany.1.1] at h; cases h
    · rw [hany.1.2] at h; cases h
    · exact Or.inl (cfm_item (.mk l e t) (by simpa [itemContainsComments] using h))
    · exact Or.inr (cfm_items is h hany.2)
theorem cfm_entry : ∀ en : Entry, (match en with | .mk _ k v _ => keyContains k (containsComments v)) = true →
    hasNewline (fmtSingleEntry en) = true
  | .mk _ k v _, h => by
    simp only [fmtSingleEntry]
    exact cfm_key k (containsComments v) (fmtSingle v) (cfm v) h
theorem cfm_entries : ∀ es : List Entry, entriesHaveComments es = true →
    es.any Entry.hasComments = false → ∃ s ∈ fmtSingleEntries es, hasNewline s = true
  | [], h, _ => by simp [entriesHaveComments] at h
  | (.mk l k v t) :: es, h, hany => by
    simp only [entriesHaveComments, entryHasOrContains, Bool.or_eq_true] at h
    simp only [List.any_cons, Entry.hasComments, Entry.leading, Entry.trailing, Bool.or_eq_false_iff] at hany
    simp only [fmtSingleEntries, List.mem_cons, exists_eq_or_imp]
    rcases h with ((h | h) | h) | h
    · rw [hany.1.1] at h; cases h
    · rw [hany.1.2] at h; cases h
    · exact Or.inl (cfm_entry (.mk l k v t) h)
    · exact Or.inr (cfm_entries es h hany.2)
theorem cfm_key : ∀ (k : Key) (vc : Bool) (vs : String), (vc = true → hasNewline vs = true) →
    keyContains k vc = true → hasNewline (fmtSingleKeyed k vs) = true
  | .static _, vc, vs, hv, h => by
    simp only [keyContains] at h
    simp only [fmtSingleKeyed, hasNewline_append, hv h, Bool.or_true]
  | .dyn ke, vc, vs, hv, h => by
    simp only [keyContains, Bool.or_eq_true] at h
    simp only [fmtSingleKeyed, hasNewline_append]
    rcases h with h | h
    · simp [cfm ke h]
    · simp [hv h]
  | .short _, _, _, _, h => by simp [keyContains] at h
  | .spread e, _, _, _, h => by
    simp only [keyContains] at h
    simp only [fmtSingleKeyed, cfm e h]
end


/-! ### statements and blank lines -/

/-- number of `'\n'` the joiner puts between two consecutive statements -/
def gapOf (a b : String × Nat × Nat) : Nat := min ((b.2.1 - a.2.2 - 1) + 1) 3

/-- … for every consecutive pair, in order -/
def gapsOf (stmts : List (String × Nat × Nat)) : List Nat := List.zipWith gapOf stmts stmts.tail

/-- `s₁ ++ '\n'^g₁ ++ s₂ ++ '\n'^g₂ ++ … ++ sₙ` -/
def weave : List String → List Nat → String
  | [], _ => ""
  | [s], _ => s
  | s :: t :: rest, g :: gs => s ++ String.ofList (List.replicate g '\n') ++ weave (t :: rest) gs
  | s :: t :: rest, [] => s ++ weave (t :: rest) []

theorem join_nil : joinStatementsWithSpacing [] = "" := rfl
theorem join_single (s : String) (a b : Nat) : joinStatementsWithSpacing [(s, a, b)] = s := rfl
theorem join_cons_cons (x y : String × Nat × Nat) (rest : List (String × Nat × Nat)) :
    joinStatementsWithSpacing (x :: y :: rest) =
      x.1 ++ String.ofList (List.replicate (gapOf x y) '\n') ++ joinStatementsWithSpacing (y :: rest) := by
  obtain ⟨s, a, b⟩ := x
  obtain ⟨s2, a2, b2⟩ := y
  simp only [joinStatementsWithSpacing, gapOf]

theorem gapsOf_cons_cons (x y : String × Nat × Nat) (rest : List (String × Nat × Nat)) :
    gapsOf (x :: y :: rest) = gapOf x y :: gapsOf (y :: rest) := by
  simp [gapsOf]

theorem join_eq_weave : ∀ stmts : List (String × Nat × Nat),
    joinStatementsWithSpacing stmts = weave (stmts.map (·.1)) (gapsOf stmts)
  | [] => rfl
  | [(s, a, b)] => rfl
  | x :: y :: rest => by
    rw [join_cons_cons, gapsOf_cons_cons, join_eq_weave (y :: rest)]
    simp only [List.map_cons, weave]

theorem gapOf_bounds (a b : String × Nat × Nat) : 1 ≤ gapOf a b ∧ gapOf a b ≤ 3 := by
  unfold gapOf; omega

theorem gapsOf_bounds : ∀ (stmts : List (String × Nat × Nat)), ∀ g ∈ gapsOf stmts, 1 ≤ g ∧ g ≤ 3
  | [], g, h => by simp [gapsOf] at h
  | [x], g, h => by simp [gapsOf] at h
  | x :: y :: rest, g, h => by
    rw [gapsOf_cons_cons] at h
    rcases List.mem_cons.mp h with rfl | h
    · exact gapOf_bounds x y
    · exact gapsOf_bounds (y :: rest) g h

theorem gapsOf_length (stmts : List (String × Nat × Nat)) :
    (gapsOf stmts).length = stmts.length - 1 := by
  simp [gapsOf]

/-- number of line breaks inside a statement's text -/
def countNl (s : String) : Nat := s.toList.count '\n'

/-- where the statements sit in the joined output: the first starts on line `line`, a
    statement ends `countNl` lines after its start, the next one starts `gap` lines after
    that end -/
def relayout (line : Nat) : List (String × Nat × Nat) → List (String × Nat × Nat)
  | [] => []
  | [(s, _, _)] => [(s, line, line + countNl s)]
  | (s, a, e) :: (s2, st2, e2) :: rest =>
    (s, line, line + countNl s) ::
      relayout (line + countNl s + gapOf (s, a, e) (s2, st2, e2)) ((s2, st2, e2) :: rest)

theorem relayout_head (line : Nat) (y : String × Nat × Nat) (rest : List (String × Nat × Nat)) :
    ∃ e' tl, relayout line (y :: rest) = (y.1, line, e') :: tl := by
  obtain ⟨s, a, b⟩ := y
  cases rest with
  | nil => exact ⟨_, _, rfl⟩
  | cons z rest => obtain ⟨s2, a2, b2⟩ := z; exact ⟨_, _, rfl⟩

theorem join_relayout : ∀ (stmts : List (String × Nat × Nat)) (line : Nat),
    joinStatementsWithSpacing (relayout line stmts) = joinStatementsWithSpacing stmts
  | [], _ => rfl
  | [(s, a, b)], _ => rfl
  | (s, a, e) :: (s2, st2, e2) :: rest, line => by
    have ih := join_relayout ((s2, st2, e2) :: rest) (line + countNl s + gapOf (s, a, e) (s2, st2, e2))
    obtain ⟨e', tl, hr⟩ := relayout_head (line + countNl s + gapOf (s, a, e) (s2, st2, e2)) (s2, st2, e2) rest
    simp only [relayout]
    rw [hr] at ih ⊢
    rw [join_cons_cons, join_cons_cons, ih]
    have hb := gapOf_bounds (s, a, e) (s2, st2, e2)
    have : gapOf (s, line, line + countNl s) (s2, line + countNl s + gapOf (s, a, e) (s2, st2, e2), e') =
        gapOf (s, a, e) (s2, st2, e2) := by
      simp only [gapOf] at hb ⊢
      omega
    rw [this]


/-- a program: expressions with their first / last source line; its formatted text -/
def formatProgram (w : Option Nat) (prog : List (Expr × Nat × Nat)) : String :=
  joinStatementsWithSpacing (prog.map fun x => (formatExpr x.1 w, x.2.1, x.2.2))

/-! ### do-blocks never print on one line -/

mutual
/-- a do-block occurs somewhere in the printed part of the tree -/
def hasDo : Expr → Bool
  | .list items => itemsHaveDo items
  | .record es => entriesHaveDo es
  | .lambda _ b => hasDo b
  | .cond c t e => hasDo c || hasDo t || hasDo e
  | .doBlock _ _ => true
  | .assign _ v => hasDo v
  | .output e => hasDo e
  | .call f as => hasDo f || exprsHaveDo as
  | .access e i => hasDo e || hasDo i
  | .dot e _ => hasDo e
  | .bin _ l r => hasDo l || hasDo r
  | .un _ e => hasDo e
  | .fact e => hasDo e
  | .spread e => hasDo e
  | _ => false
def exprsHaveDo : List Expr → Bool
  | [] => false
  | e :: es => hasDo e || exprsHaveDo es
def itemHasDo : Item → Bool
  | .mk _ e _ => hasDo e
def itemsHaveDo : List Item → Bool
  | [] => false
  | i :: is => itemHasDo i || itemsHaveDo is
def entryHasDo : Entry → Bool
  | .mk _ k v _ => keyHasDo k (hasDo v)
def entriesHaveDo : List Entry → Bool
  | [] => false
  | e :: es => entryHasDo e || entriesHaveDo es
/-- like `keyContains`: the value of a shorthand entry is not printed -/
def keyHasDo : Key → Bool → Bool
  | .static _, vd => vd
  | .dyn k, vd => hasDo k || vd
  | .short _, _ => false
  | .spread e, _ => hasDo e
end

theorem hasNewline_retSrc (sc : Scope) (r : Item) : hasNewline (retSrc sc r) = true := by
  obtain ⟨lead, e, t⟩ := r
  have : hasNewline "\n  return " = true := by decide
  simp only [retSrc, hasNewline_append, this, Bool.or_true, Bool.true_or]

mutual
theorem doSrc : ∀ (e : Expr), hasDo e = true → ∀ sc, hasNewline (exprSrc sc e) = true
  | .list items, h, sc => by
    simp only [hasDo] at h
    obtain ⟨s, hs, hn⟩ := doSrc_items items h sc
    simp [exprSrc, hasNewline_append, hasNewline_intercalate _ _ s hs hn]
  | .record es, h, sc => by
    simp only [hasDo] at h
    obtain ⟨s, hs, hn⟩ := doSrc_entries es h sc
    simp [exprSrc, hasNewline_append, hasNewline_intercalate _ _ s hs hn]
  | .lambda args b, h, sc => by
    simp only [hasDo] at h
    simp [exprSrc, hasNewline_append, hasNewline_parenIf, doSrc b h]
  | .cond c t e, h, sc => by
    simp only [hasDo, Bool.or_eq_true] at h
    simp only [exprSrc, hasNewline_append]
    rcases h with (h | h) | h
    · simp [doSrc c h]
    · simp [doSrc t h]
    · simp [doSrc e h]
  | .doBlock ss r, _, sc => by
    simp only [exprSrc, hasNewline_append, hasNewline_retSrc, Bool.or_true]
  | .assign n v, h, sc => by
    simp only [hasDo] at h
    simp [exprSrc, hasNewline_append, doSrc v h]
  | .output e, h, sc => by
    simp only [hasDo] at h
    simp [exprSrc, hasNewline_append, doSrc e h]
  | .call f as, h, sc => by
    simp only [hasDo, Bool.or_eq_true] at h
    simp only [exprSrc, hasNewline_append, hasNewline_parenIf]
    rcases h with h | h
    · simp [doSrc f h]
    · obtain ⟨s, hs, hn⟩ := doSrc_list as h sc
      simp [hasNewline_intercalate _ _ s hs hn]
  | .access e i, h, sc => by
    simp only [hasDo, Bool.or_eq_true] at h
    simp only [exprSrc, hasNewline_append, hasNewline_parenIf]
    rcases h with h | h
    · simp [doSrc e h]
    · simp [doSrc i h]
  | .dot e f, h, sc => by
    simp only [hasDo] at h
    simp [exprSrc, hasNewline_append, hasNewline_parenIf, doSrc e h]
  | .bin op l r, h, sc => by
    simp only [hasDo, Bool.or_eq_true] at h
    simp only [exprSrc, hasNewline_append, hasNewline_parenIf]
    rcases h with h | h
    · simp [doSrc l h]
    · simp [doSrc r h]
  | .un op e, h, sc => by
    simp only [hasDo] at h
    simp [exprSrc, hasNewline_append, hasNewline_parenIf, doSrc e h]
  | .fact e, h, sc => by
    simp only [hasDo] at h
    simp [exprSrc, hasNewline_append, hasNewline_parenIf, doSrc e h]
  | .spread e, h, sc => by
    simp only [hasDo] at h
    simp [exprSrc, hasNewline_append, doSrc e h]
  | .num _, h, _ | .str _, h, _ | .bool _, h, _ | .null, h, _ | .ident _, h, _ | .inref _, h, _
  | .builtin _, h, _ => by simp [hasDo] at h
theorem doSrc_list : ∀ (es : List Expr), exprsHaveDo es = true → ∀ sc,
    ∃ s ∈ exprsSrc sc es, hasNewline s = true
  | [], h, _ => by simp [exprsHaveDo] at h
  | e :: es, h, sc => by
    simp only [exprsHaveDo, Bool.or_eq_true] at h
    simp only [exprsSrc, List.mem_cons, exists_eq_or_imp]
    rcases h with h | h
    · exact Or.inl (doSrc e h sc)
    · exact Or.inr (doSrc_list es h sc)
theorem doSrc_item : ∀ (i : Item), itemHasDo i = true → ∀ sc, hasNewline (itemSrc sc i) = true
  | .mk _ e _, h, sc => by
    simp only [itemHasDo] at h
    simp only [itemSrc, doSrc e h]
theorem doSrc_items : ∀ (is : List Item), itemsHaveDo is = true → ∀ sc,
    ∃ s ∈ itemsSrc sc is, hasNewline s = true
  | [], h, _ => by simp [itemsHaveDo] at h
  | i :: is, h, sc => by
    simp only [itemsHaveDo, Bool.or_eq_true] at h
    simp only [itemsSrc, List.mem_cons, exists_eq_or_imp]
    rcases h with h | h
    · exact Or.inl (doSrc_item i h sc)
    · exact Or.inr (doSrc_items is h sc)
theorem doSrc_entry : ∀ (en : Entry), entryHasDo en = true → ∀ sc, hasNewline (entrySrc sc en) = true
  | .mk _ k v _, h, sc => by
    simp only [entryHasDo] at h
    simp only [entrySrc]
    exact doSrc_key k (hasDo v) (exprSrc sc v) (fun hv => doSrc v hv sc) h sc
theorem doSrc_entries : ∀ (es : List Entry), entriesHaveDo es = true → ∀ sc,
    ∃ s ∈ entriesSrc sc es, hasNewline s = true
  | [], h, _ => by simp [entriesHaveDo] at h
  | e :: es, h, sc => by
    simp only [entriesHaveDo, Bool.or_eq_true] at h
    simp only [entriesSrc, List.mem_cons, exists_eq_or_imp]
    rcases h with h | h
    · exact Or.inl (doSrc_entry e h sc)
    · exact Or.inr (doSrc_entries es h sc)
theorem doSrc_key : ∀ (k : Key) (vd : Bool) (vs : String), (vd = true → hasNewline vs = true) →
    keyHasDo k vd = true → ∀ sc, hasNewline (keyedSrc sc k vs) = true
  | .static _, vd, vs, hv, h, sc => by
    simp only [keyHasDo] at h
    simp only [keyedSrc, hasNewline_append, hv h, Bool.or_true]
  | .dyn ke, vd, vs, hv, h, sc => by
    simp only [keyHasDo, Bool.or_eq_true] at h
    simp only [keyedSrc, hasNewline_append]
    rcases h with h | h
    · simp [doSrc ke h]
    · simp [hv h]
  | .short _, _, _, _, h, _ => by simp [keyHasDo] at h
  | .spread e, _, _, _, h, sc => by
    simp only [keyHasDo] at h
    simp only [keyedSrc, doSrc e h]
end


theorem fmtSingle_default_newline (e : Expr) (h : hasDo e = true) :
    hasNewline (if containsComments e = true then "\n" else exprToSource e) = true := by
  split
  · decide
  · exact doSrc e h []

mutual
theorem doFmt : ∀ (e : Expr), hasDo e = true → hasNewline (fmtSingle e) = true
  | .assign n v, h => by
    simp only [hasDo] at h
    simp only [fmtSingle, hasNewline_append, doFmt v h, Bool.or_true]
  | .output e, h => by
    simp only [hasDo] at h
    simp only [fmtSingle, hasNewline_append, doFmt e h, Bool.or_true]
  | .lambda args body, h => by
    simp only [hasDo] at h
    have ih := doFmt body h
    simp only [fmtSingle]
    split <;> simp [hasNewline_append, ih]
  | .call f args, h => by
    simp only [hasDo, Bool.or_eq_true] at h
    simp only [fmtSingle, hasNewline_append, hasNewline_parenIf]
    rcases h with h | h
    · simp [doFmt f h]
    · obtain ⟨s, hs, hn⟩ := doFmt_list args h
      simp [hasNewline_intercalate _ _ s hs hn]
  | .list items, h => by
    simp only [hasDo] at h
    simp only [fmtSingle]
    split
    · decide
    · obtain ⟨s, hs, hn⟩ := doFmt_items items h
      simp [hasNewline_append, hasNewline_intercalate _ _ s hs hn]
  | .record es, h => by
    simp only [hasDo] at h
    simp only [fmtSingle]
    split
    · decide
    · obtain ⟨s, hs, hn⟩ := doFmt_entries es h
      simp [hasNewline_append, hasNewline_intercalate _ _ s hs hn]
  | .cond c t e, h => by simp only [fmtSingle]; exact fmtSingle_default_newline _ h
  | .doBlock ss r, h => by simp only [fmtSingle]; exact fmtSingle_default_newline _ h
  | .access e i, h => by simp only [fmtSingle]; exact fmtSingle_default_newline _ h
  | .dot e f, h => by simp only [fmtSingle]; exact fmtSingle_default_newline _ h
  | .bin op l r, h => by simp only [fmtSingle]; exact fmtSingle_default_newline _ h
  | .un op e, h => by simp only [fmtSingle]; exact fmtSingle_default_newline _ h
  | .fact e, h => by simp only [fmtSingle]; exact fmtSingle_default_newline _ h
  | .spread e, h => by simp only [fmtSingle]; exact fmtSingle_default_newline _ h
  | .num _, h | .str _, h | .bool _, h | .null, h | .ident _, h | .inref _, h
  | .builtin _, h => by simp [hasDo] at h
theorem doFmt_list : ∀ (es : List Expr), exprsHaveDo es = true →
    ∃ s ∈ fmtSingleList es, hasNewline s = true
  | [], h => by simp [exprsHaveDo] at h
  | e :: es, h => by
    simp only [exprsHaveDo, Bool.or_eq_true] at h
    simp only [fmtSingleList, List.mem_cons, exists_eq_or_imp]
    rcases h with h | h
    · exact Or.inl (doFmt e h)
    · exact Or.inr (doFmt_list es h)
theorem doFmt_item : ∀ (i : Item), itemHasDo i = true → hasNewline (fmtSingleItem i) = true
  | .mk _ e _, h => by
    simp only [itemHasDo] at h
    simp only [fmtSingleItem, doFmt e h]
theorem doFmt_items : ∀ (is : List Item), itemsHaveDo is = true →
    ∃ s ∈ fmtSingleItems is, hasNewline s = true
  | [], h => by simp [itemsHaveDo] at h
  | i :: is, h => by
    simp only [itemsHaveDo, Bool.or_eq_true] at h
    simp only [fmtSingleItems, List.mem_cons, exists_eq_or_imp]
    rcases h with h | h
    · exact Or.inl (doFmt_item i h)
    · exact Or.inr (doFmt_items is h)
theorem doFmt_entry : ∀ (en : Entry), entryHasDo en = true → hasNewline (fmtSingleEntry en) = true
  | .mk _ k v _, h => by
    simp only [entryHasDo] at h
    simp only [fmtSingleEntry]
    exact doFmt_key k (hasDo v) (fmtSingle v) (doFmt v) h
theorem doFmt_entries : ∀ (es : List Entry), entriesHaveDo es = true →
    ∃ s ∈ fmtSingleEntries es, hasNewline s = true
  | [], h => by simp [entriesHaveDo] at h
  | e :: es, h => by
    simp only [entriesHaveDo, Bool.or_eq_true] at h
    simp only [fmtSingleEntries, List.mem_cons, exists_eq_or_imp]
    rcases h with h | h
    · exact Or.inl (doFmt_entry e h)
    · exact Or.inr (doFmt_entries es h)
theorem doFmt_key : ∀ (k : Key) (vd : Bool) (vs : String), (vd = true → hasNewline vs = true) →
    keyHasDo k vd = true → hasNewline (fmtSingleKeyed k vs) = true
  | .static _, vd, vs, hv, h => by
    simp only [keyHasDo] at h
    simp only [fmtSingleKeyed, hasNewline_append, hv h, Bool.or_true]
  | .dyn ke, vd, vs, hv, h => by
    simp only [keyHasDo, Bool.or_eq_true] at h
    simp only [fmtSingleKeyed, hasNewline_append]
    rcases h with h | h
    · simp [doFmt ke h]
    · simp [hv h]
  | .short _, _, _, _, h => by simp [keyHasDo] at h
  | .spread e, _, _, _, h => by
    simp only [keyHasDo] at h
    simp only [fmtSingleKeyed, doFmt e h]
end

/-! ### every comment in the tree -/

mutual
/-- some `Commented` node anywhere in the printed part of the tree carries a comment —
    including the statements of do-blocks, which `contains_comments` does not look at -/
def anyComment : Expr → Bool
  | .list items => itemsAnyComment items
  | .record es => entriesAnyComment es
  | .lambda _ b => anyComment b
  | .cond c t e => anyComment c || anyComment t || anyComment e
  | .doBlock ss r => itemsAnyComment ss || itemAnyComment r
  | .assign _ v => anyComment v
  | .output e => anyComment e
  | .call f as => anyComment f || exprsAnyComment as
  | .access e i => anyComment e || anyComment i
  | .dot e _ => anyComment e
  | .bin _ l r => anyComment l || anyComment r
  | .un _ e => anyComment e
  | .fact e => anyComment e
  | .spread e => anyComment e
  | _ => false
def exprsAnyComment : List Expr → Bool
  | [] => false
  | e :: es => anyComment e || exprsAnyComment es
def itemAnyComment : Item → Bool
  | .mk l e t => !l.isEmpty || t.isSome || anyComment e
def itemsAnyComment : List Item → Bool
  | [] => false
  | i :: is => itemAnyComment i || itemsAnyComment is
def entryAnyComment : Entry → Bool
  | .mk l k v t => !l.isEmpty || t.isSome || keyAnyComment k (anyComment v)
def entriesAnyComment : List Entry → Bool
  | [] => false
  | e :: es => entryAnyComment e || entriesAnyComment es
def keyAnyComment : Key → Bool → Bool
  | .static _, vc => vc
  | .dyn k, vc => anyComment k || vc
  | .short _, _ => false
  | .spread e, _ => anyComment e
end

/-- "counted by `contains_comments`, or inside a do-block" -/
abbrev CD (c d : Bool) : Prop := c = true ∨ d = true

theorem CD.or {a b c d : Bool} : CD a b ∨ CD c d → CD (a || c) (b || d) := by
  unfold CD; cases a <;> cases b <;> cases c <;> cases d <;> simp

mutual
theorem anyC : ∀ (e : Expr), anyComment e = true → CD (containsComments e) (hasDo e)
  | .list items, h => by
    simp only [anyComment] at h
    simpa only [containsComments, hasDo] using anyC_items items h
  | .record es, h => by
    simp only [anyComment] at h
    simpa only [containsComments, hasDo] using anyC_entries es h
  | .lambda _ b, h => by
    simp only [anyComment] at h
    simpa only [containsComments, hasDo] using anyC b h
  | .cond c t e, h => by
    simp only [anyComment, Bool.or_eq_true] at h
    simp only [containsComments, hasDo]
    apply CD.or
    rcases h with (h | h) | h
    · exact Or.inl (CD.or (Or.inl (anyC c h)))
    · exact Or.inl (CD.or (Or.inr (anyC t h)))
    · exact Or.inr (anyC e h)
  | .doBlock _ _, _ => Or.inr (by simp only [hasDo])
  | .assign _ v, h => by
    simp only [anyComment] at h
    simpa only [containsComments, hasDo] using anyC v h
  | .output e, h => by
    simp only [anyComment] at h
    simpa only [containsComments, hasDo] using anyC e h
  | .call f as, h => by
    simp only [anyComment, Bool.or_eq_true] at h
    simp only [containsComments, hasDo]
    apply CD.or
    rcases h with h | h
    · exact Or.inl (anyC f h)
    · exact Or.inr (anyC_list as h)
  | .access e i, h => by
    simp only [anyComment, Bool.or_eq_true] at h
    simp only [containsComments, hasDo]
    apply CD.or
    rcases h with h | h
    · exact Or.inl (anyC e h)
    · exact Or.inr (anyC i h)
  | .dot e _, h => by
    simp only [anyComment] at h
    simpa only [containsComments, hasDo] using anyC e h
  | .bin _ l r, h => by
    simp only [anyComment, Bool.or_eq_true] at h
    simp only [containsComments, hasDo]
    apply CD.or
    rcases h with h | h
    · exact Or.inl (anyC l h)
    · exact Or.inr (anyC r h)
  | .un _ e, h => by
    simp only [anyComment] at h
    simpa only [containsComments, hasDo] using anyC e h
  | .fact e, h => by
    simp only [anyComment] at h
    simpa only [containsComments, hasDo] using anyC e h
  | .spread e, h => by
    simp only [anyComment] at h
    simpa only [containsComments, hasDo] using anyC e h
  | .num _, h | .str _, h | .bool _, h | .null, h | .ident _, h | .inref _, h
  | .builtin _, h => by simp [anyComment] at h
theorem anyC_list : ∀ (es : List Expr), exprsAnyComment es = true →
    CD (exprsContainComments es) (exprsHaveDo es)
  | [], h => by simp [exprsAnyComment] at h
  | e :: es, h => by
    simp only [exprsAnyComment, Bool.or_eq_true] at h
    simp only [exprsContainComments, exprsHaveDo]
    apply CD.or
    rcases h with h | h
    · exact Or.inl (anyC e h)
    · exact Or.inr (anyC_list es h)
theorem anyC_item : ∀ (i : Item), itemAnyComment i = true → CD (itemHasOrContains i) (itemHasDo i)
  | .mk l e t, h => by
    simp only [itemAnyComment, Bool.or_eq_true] at h
    simp only [itemHasOrContains, itemHasDo]
    rcases h with (h | h) | h
    · exact Or.inl (by simp [h])
    · exact Or.inl (by simp [h])
    · rcases anyC e h with h | h
      · exact Or.inl (by simp [h])
      · exact Or.inr h
theorem anyC_items : ∀ (is : List Item), itemsAnyComment is = true →
    CD (itemsHaveComments is) (itemsHaveDo is)
  | [], h => by simp [itemsAnyComment] at h
  | i :: is, h => by
    simp only [itemsAnyComment, Bool.or_eq_true] at h
    simp only [itemsHaveComments, itemsHaveDo]
    apply CD.or
    rcases h with h | h
    · exact Or.inl (anyC_item i h)
    · exact Or.inr (anyC_items is h)
theorem anyC_entry : ∀ (en : Entry), entryAnyComment en = true →
    CD (entryHasOrContains en) (entryHasDo en)
  | .mk l k v t, h => by
    simp only [entryAnyComment, Bool.or_eq_true] at h
    simp only [entryHasOrContains, entryHasDo]
    rcases h with (h | h) | h
    · exact Or.inl (by simp [h])
    · exact Or.inl (by simp [h])
    · rcases anyC_key k _ _ _ (anyC v) h with h | h
      · exact Or.inl (by simp [h])
      · exact Or.inr h
theorem anyC_entries : ∀ (es : List Entry), entriesAnyComment es = true →
    CD (entriesHaveComments es) (entriesHaveDo es)
  | [], h => by simp [entriesAnyComment] at h
  | e :: es, h => by
    simp only [entriesAnyComment, Bool.or_eq_true] at h
    simp only [entriesHaveComments, entriesHaveDo]
    apply CD.or
    rcases h with h | h
    · exact Or.inl (anyC_entry e h)
    · exact Or.inr (anyC_entries es h)
theorem anyC_key : ∀ (k : Key) (va vc vd : Bool), (va = true → CD vc vd) →
    keyAnyComment k va = true → CD (keyContains k vc) (keyHasDo k vd)
  | .static _, va, vc, vd, hv, h => by
    simp only [keyAnyComment] at h
    simpa only [keyContains, keyHasDo] using hv h
  | .dyn ke, va, vc, vd, hv, h => by
    simp only [keyAnyComment, Bool.or_eq_true] at h
    simp only [keyContains, keyHasDo]
    apply CD.or
    rcases h with h | h
    · exact Or.inl (anyC ke h)
    · exact Or.inr (hv h)
  | .short _, _, _, _, _, h => by simp [keyAnyComment] at h
  | .spread e, _, _, _, _, h => by
    simp only [keyAnyComment] at h
    simpa only [keyContains, keyHasDo] using anyC e h
end

/-- no comment anywhere in a tree whose single-line form is really a single line -/
theorem anyComment_forces_multiline (e : Expr) (h : anyComment e = true) :
    hasNewline (fmtSingle e) = true := by
  rcases anyC e h with h | h
  · exact cfm e h
  · exact doFmt e h


end FormatL
end Blots
