import Blots.Lemmas.EvalDepth
/-
  Depth antitonicity on `sort_by`-free inputs: a run that does not end in the depth error is the
  same run (outcome and state) when started at any smaller call depth.  For the six functions
  that evaluate expressions at the given depth itself the smaller depth must stay positive,
  because an assignment consults `alreadyDefined depth …` (top level versus inside a call);
  the call-level functions evaluate bodies at `depth + 1` and need no such condition.
-/
namespace Blots

structure Anti (ops : NumOps) (n : Nat) : Prop where
  eval : ∀ (d d' : Nat) (e : Expr) (s : ES), d' ≤ d → 0 < d' → e.nsb = true → nsbEnv s.env = true →
    ND (eval ops n d e s) → eval ops n d' e s = eval ops n d e s
  evalList : ∀ (d d' : Nat) (es : List Expr) (s : ES), d' ≤ d → 0 < d' → Expr.nsbList es = true →
    nsbEnv s.env = true → ND (evalList ops n d es s) → evalList ops n d' es s = evalList ops n d es s
  evalItems : ∀ (d d' : Nat) (es : List Item) (s : ES), d' ≤ d → 0 < d' → Item.nsbList es = true →
    nsbEnv s.env = true → ND (evalItems ops n d es s) → evalItems ops n d' es s = evalItems ops n d es s
  evalEntries : ∀ (d d' : Nat) (es : List Entry) (acc : Frame) (s : ES), d' ≤ d → 0 < d' →
    Entry.nsbList es = true → Value.nsbRec acc = true → nsbEnv s.env = true →
    ND (evalEntries ops n d es acc s) → evalEntries ops n d' es acc s = evalEntries ops n d es acc s
  evalDoStmt : ∀ (d d' : Nat) (e : Expr) (s : ES), d' ≤ d → 0 < d' → e.nsb = true →
    nsbEnv s.env = true → ND (evalDoStmt ops n d e s) → evalDoStmt ops n d' e s = evalDoStmt ops n d e s
  evalDo : ∀ (d d' : Nat) (st : List Item) (ret : Item) (s : ES), d' ≤ d → 0 < d' →
    Item.nsbList st = true → ret.nsb = true → nsbEnv s.env = true →
    ND (evalDo ops n d st ret s) → evalDo ops n d' st ret s = evalDo ops n d st ret s
  callFn : ∀ (d d' : Nat) (fv this : Value) (args : List Value) (s : ES), d' ≤ d → fv.nsb = true →
    this.nsb = true → Value.nsbList args = true → nsbEnv s.env = true →
    ND (callFn ops n fv this args d s) → callFn ops n fv this args d' s = callFn ops n fv this args d s
  mapCalls : ∀ (d d' : Nat) (f : Value) (w : Bool) (L : List Value) (i : Nat) (s : ES), d' ≤ d →
    f.nsb = true → Value.nsbList L = true → nsbEnv s.env = true →
    ND (mapCalls ops n f w L i d s) → mapCalls ops n f w L i d' s = mapCalls ops n f w L i d s
  quantCalls : ∀ (d d' : Nat) (f : Value) (w q : Bool) (L : List Value) (i : Nat) (s : ES), d' ≤ d →
    f.nsb = true → Value.nsbList L = true → nsbEnv s.env = true →
    ND (quantCalls ops n f w q L i d s) → quantCalls ops n f w q L i d' s = quantCalls ops n f w q L i d s
  foldCalls : ∀ (d d' : Nat) (f : Value) (w : Bool) (acc : Value) (L : List Value) (i : Nat) (s : ES),
    d' ≤ d → f.nsb = true → acc.nsb = true → Value.nsbList L = true → nsbEnv s.env = true →
    ND (foldCalls ops n f w acc L i d s) →
    foldCalls ops n f w acc L i d' s = foldCalls ops n f w acc L i d s
  callHof : ∀ (d d' : Nat) (name : String) (args : List Value) (s : ES), d' ≤ d → name ≠ "sort_by" →
    Value.nsbList args = true → nsbEnv s.env = true →
    ND (callHof ops n name args d s) → callHof ops n name args d' s = callHof ops n name args d s
  evalBin : ∀ (d d' : Nat) (op : BinOp) (a b : Value) (s : ES), d' ≤ d → a.nsb = true → b.nsb = true →
    nsbEnv s.env = true → ND (evalBin ops n d op a b s) → evalBin ops n d' op a b s = evalBin ops n d op a b s
  viaPairs : ∀ (d d' : Nat) (la lb : List Value) (s : ES), d' ≤ d → Value.nsbList la = true →
    Value.nsbList lb = true → nsbEnv s.env = true →
    ND (viaPairs ops n la lb d s) → viaPairs ops n la lb d' s = viaPairs ops n la lb d s
  whereCalls : ∀ (d d' : Nat) (f : Value) (w : Bool) (L : List Value) (i : Nat) (s : ES), d' ≤ d →
    f.nsb = true → Value.nsbList L = true → nsbEnv s.env = true →
    ND (whereCalls ops n f w L i d s) → whereCalls ops n f w L i d' s = whereCalls ops n f w L i d s

theorem anti_zero (ops : NumOps) : Anti ops 0 := by
  constructor <;> intros <;>
    simp [eval.eq_1, evalList.eq_1, evalItems.eq_1, evalEntries.eq_1, evalDoStmt.eq_1, evalDo.eq_1,
      callFn.eq_1, mapCalls.eq_1, quantCalls.eq_1, foldCalls.eq_1, callHof.eq_1, evalBin.eq_1,
      viaPairs.eq_1, whereCalls.eq_1]

section antiStep
variable {ops : NumOps} {n : Nat} (hp : CallPureKeepsNSB ops)
include hp

/- at a leaf of the run at depth `d` (`h : ND leaf`, the equations of the run in the context):
   collect the invariant for the intermediate results, then replay the run at depth `d'` -/
set_option hygiene false in
macro "anti_leaf" : tactic => `(tactic|
  ((try simp at h) <;>
   (fwd [gEval, gList, gItems, gEntries, gStmt, gDo, gCall, gMap, gQuant, gFold, gHof, gBin, gVia,
         gWhere, hpf, fwd_envGet, fwd_lookupAL, fwd_getElem?, fwd_bindParams, fwd_groupByKeys,
         fwd_countByKeys, fwd_compareOp, fwd_scalarOp, fwd_mapScalar, fwd_zipScalar]) <;>
   (try (have hdmax : ¬ d' > MAX_DEPTH := by omega)) <;>
   (try clear gEval) <;> (try clear gList) <;> (try clear gItems) <;> (try clear gEntries) <;>
   (try clear gStmt) <;> (try clear gDo) <;> (try clear gCall) <;> (try clear gMap) <;>
   (try clear gQuant) <;> (try clear gFold) <;> (try clear gHof) <;> (try clear gBin) <;>
   (try clear gVia) <;> (try clear gWhere) <;> (try clear hpf) <;>
   (simp_all [-Bool.forall_bool, Value.nsb, Value.nsbList, Value.nsbRec, Expr.nsb, Expr.nsbList, Item.nsb, Item.nsbList,
      Entry.nsb, Entry.nsbList, Key.nsb, nsbEnv, nsb_lookupAL_getD, nsb_insertAL, nsb_envInsert,
      nsbEnv_drop, nsb_captureScope, nsb_flattenSpreads, nsb_spreadIntoRecord, nsb_foldl_insertAL,
      nsb_listGetD, nsb_constants, nsbRec_constants, setNameIfLambda_env, nsbList_drop,
      apply_ite Value.nsbList, apply_ite Value.nsb, apply_ite Value.nsbRec, apply_ite nsbEnv]) <;>
   (try ((repeat' split) <;> simp_all [-Bool.forall_bool] <;> (try omega)))))

theorem mapCalls_anti (ih : Anti ops n) (d d' : Nat) (f : Value) (w : Bool) (L : List Value) (i : Nat)
    (s : ES) (hdd : d' ≤ d) (hf : f.nsb = true) (hL : Value.nsbList L = true) (hs : nsbEnv s.env = true)
    (h : ND (mapCalls ops (n+1) f w L i d s)) :
    mapCalls ops (n+1) f w L i d' s = mapCalls ops (n+1) f w L i d s := by
  have gCall := @(pres hp n).callFn; have gMap := @(pres hp n).mapCalls
  have aCall := fun fv this args s => ih.callFn d d' fv this args s hdd
  have aMap := fun f w L i s => ih.mapCalls d d' f w L i s hdd
  clear ih
  cases L with
  | nil => simp [mapCalls]
  | cons x xs =>
    rw [mapCalls.eq_3] at h
    conv => lhs; rw [mapCalls.eq_3]
    conv => rhs; rw [mapCalls.eq_3]
    (repeat' split at h) <;> anti_leaf

theorem whereCalls_anti (ih : Anti ops n) (d d' : Nat) (f : Value) (w : Bool) (L : List Value) (i : Nat) (s : ES) (hdd : d' ≤ d)
    (hf : f.nsb = true) (hL : Value.nsbList L = true) (hs : nsbEnv s.env = true)
    (h : ND (whereCalls ops (n+1) f w L i d s)) : whereCalls ops (n+1) f w L i d' s = whereCalls ops (n+1) f w L i d s := by
  have gEval := @(pres hp n).eval; have gList := @(pres hp n).evalList
  have gItems := @(pres hp n).evalItems; have gEntries := @(pres hp n).evalEntries
  have gStmt := @(pres hp n).evalDoStmt; have gDo := @(pres hp n).evalDo
  have gCall := @(pres hp n).callFn; have gMap := @(pres hp n).mapCalls
  have gQuant := @(pres hp n).quantCalls; have gFold := @(pres hp n).foldCalls
  have gHof := @(pres hp n).callHof; have gBin := @(pres hp n).evalBin
  have gVia := @(pres hp n).viaPairs; have gWhere := @(pres hp n).whereCalls
  have aCall := fun fv this args s => ih.callFn d d' fv this args s hdd
  have aWhere := fun f w L i s => ih.whereCalls d d' f w L i s hdd
  clear ih
  cases L with
  | nil => simp [whereCalls]
  | cons x xs =>
    rw [whereCalls.eq_3] at h
    conv => lhs; rw [whereCalls.eq_3]
    conv => rhs; rw [whereCalls.eq_3]
    (repeat' split at h) <;> anti_leaf

theorem quantCalls_anti (ih : Anti ops n) (d d' : Nat) (f : Value) (w q : Bool) (L : List Value) (i : Nat) (s : ES) (hdd : d' ≤ d)
    (hf : f.nsb = true) (hL : Value.nsbList L = true) (hs : nsbEnv s.env = true)
    (h : ND (quantCalls ops (n+1) f w q L i d s)) : quantCalls ops (n+1) f w q L i d' s = quantCalls ops (n+1) f w q L i d s := by
  have gEval := @(pres hp n).eval; have gList := @(pres hp n).evalList
  have gItems := @(pres hp n).evalItems; have gEntries := @(pres hp n).evalEntries
  have gStmt := @(pres hp n).evalDoStmt; have gDo := @(pres hp n).evalDo
  have gCall := @(pres hp n).callFn; have gMap := @(pres hp n).mapCalls
  have gQuant := @(pres hp n).quantCalls; have gFold := @(pres hp n).foldCalls
  have gHof := @(pres hp n).callHof; have gBin := @(pres hp n).evalBin
  have gVia := @(pres hp n).viaPairs; have gWhere := @(pres hp n).whereCalls
  have aCall := fun fv this args s => ih.callFn d d' fv this args s hdd
  have aQuant := fun f w q L i s => ih.quantCalls d d' f w q L i s hdd
  clear ih
  cases L with
  | nil => simp [quantCalls]
  | cons x xs =>
    rw [quantCalls.eq_3] at h
    conv => lhs; rw [quantCalls.eq_3]
    conv => rhs; rw [quantCalls.eq_3]
    (repeat' split at h) <;> anti_leaf

theorem foldCalls_anti (ih : Anti ops n) (d d' : Nat) (f : Value) (w : Bool) (acc : Value) (L : List Value) (i : Nat) (s : ES) (hdd : d' ≤ d)
    (hf : f.nsb = true) (ha : acc.nsb = true) (hL : Value.nsbList L = true) (hs : nsbEnv s.env = true)
    (h : ND (foldCalls ops (n+1) f w acc L i d s)) : foldCalls ops (n+1) f w acc L i d' s = foldCalls ops (n+1) f w acc L i d s := by
  have gEval := @(pres hp n).eval; have gList := @(pres hp n).evalList
  have gItems := @(pres hp n).evalItems; have gEntries := @(pres hp n).evalEntries
  have gStmt := @(pres hp n).evalDoStmt; have gDo := @(pres hp n).evalDo
  have gCall := @(pres hp n).callFn; have gMap := @(pres hp n).mapCalls
  have gQuant := @(pres hp n).quantCalls; have gFold := @(pres hp n).foldCalls
  have gHof := @(pres hp n).callHof; have gBin := @(pres hp n).evalBin
  have gVia := @(pres hp n).viaPairs; have gWhere := @(pres hp n).whereCalls
  have aCall := fun fv this args s => ih.callFn d d' fv this args s hdd
  have aFold := fun f w acc L i s => ih.foldCalls d d' f w acc L i s hdd
  clear ih
  cases L with
  | nil => simp [foldCalls]
  | cons x xs =>
    rw [foldCalls.eq_3] at h
    conv => lhs; rw [foldCalls.eq_3]
    conv => rhs; rw [foldCalls.eq_3]
    (repeat' split at h) <;> anti_leaf

theorem viaPairs_anti (ih : Anti ops n) (d d' : Nat) (la lb : List Value) (s : ES) (hdd : d' ≤ d)
    (ha : Value.nsbList la = true) (hb : Value.nsbList lb = true) (hs : nsbEnv s.env = true)
    (h : ND (viaPairs ops (n+1) la lb d s)) : viaPairs ops (n+1) la lb d' s = viaPairs ops (n+1) la lb d s := by
  have gEval := @(pres hp n).eval; have gList := @(pres hp n).evalList
  have gItems := @(pres hp n).evalItems; have gEntries := @(pres hp n).evalEntries
  have gStmt := @(pres hp n).evalDoStmt; have gDo := @(pres hp n).evalDo
  have gCall := @(pres hp n).callFn; have gMap := @(pres hp n).mapCalls
  have gQuant := @(pres hp n).quantCalls; have gFold := @(pres hp n).foldCalls
  have gHof := @(pres hp n).callHof; have gBin := @(pres hp n).evalBin
  have gVia := @(pres hp n).viaPairs; have gWhere := @(pres hp n).whereCalls
  have aCall := fun fv this args s => ih.callFn d d' fv this args s hdd
  have aVia := fun la lb s => ih.viaPairs d d' la lb s hdd
  clear ih
  rw [viaPairs.eq_def] at h; dsimp only at h
  conv => lhs; rw [viaPairs.eq_def]
  conv => rhs; rw [viaPairs.eq_def]
  dsimp only
  (repeat' split at h) <;> anti_leaf

theorem evalList_anti (ih : Anti ops n) (d d' : Nat) (L : List Expr) (s : ES) (hdd : d' ≤ d) (hd0 : 0 < d')
    (he : Expr.nsbList L = true) (hs : nsbEnv s.env = true)
    (h : ND (evalList ops (n+1) d L s)) : evalList ops (n+1) d' L s = evalList ops (n+1) d L s := by
  have gEval := @(pres hp n).eval; have gList := @(pres hp n).evalList
  have gItems := @(pres hp n).evalItems; have gEntries := @(pres hp n).evalEntries
  have gStmt := @(pres hp n).evalDoStmt; have gDo := @(pres hp n).evalDo
  have gCall := @(pres hp n).callFn; have gMap := @(pres hp n).mapCalls
  have gQuant := @(pres hp n).quantCalls; have gFold := @(pres hp n).foldCalls
  have gHof := @(pres hp n).callHof; have gBin := @(pres hp n).evalBin
  have gVia := @(pres hp n).viaPairs; have gWhere := @(pres hp n).whereCalls
  have aEval := fun e s => ih.eval d d' e s hdd hd0
  have aList := fun es s => ih.evalList d d' es s hdd hd0
  clear ih
  cases L with
  | nil => simp [evalList]
  | cons x xs =>
    rw [evalList.eq_3] at h
    conv => lhs; rw [evalList.eq_3]
    conv => rhs; rw [evalList.eq_3]
    (repeat' split at h) <;> anti_leaf

theorem evalItems_anti (ih : Anti ops n) (d d' : Nat) (L : List Item) (s : ES) (hdd : d' ≤ d) (hd0 : 0 < d')
    (he : Item.nsbList L = true) (hs : nsbEnv s.env = true)
    (h : ND (evalItems ops (n+1) d L s)) : evalItems ops (n+1) d' L s = evalItems ops (n+1) d L s := by
  have gEval := @(pres hp n).eval; have gList := @(pres hp n).evalList
  have gItems := @(pres hp n).evalItems; have gEntries := @(pres hp n).evalEntries
  have gStmt := @(pres hp n).evalDoStmt; have gDo := @(pres hp n).evalDo
  have gCall := @(pres hp n).callFn; have gMap := @(pres hp n).mapCalls
  have gQuant := @(pres hp n).quantCalls; have gFold := @(pres hp n).foldCalls
  have gHof := @(pres hp n).callHof; have gBin := @(pres hp n).evalBin
  have gVia := @(pres hp n).viaPairs; have gWhere := @(pres hp n).whereCalls
  have aEval := fun e s => ih.eval d d' e s hdd hd0
  have aItems := fun es s => ih.evalItems d d' es s hdd hd0
  clear ih
  cases L with
  | nil => simp [evalItems]
  | cons x xs =>
    cases x
    rw [evalItems.eq_3] at h
    conv => lhs; rw [evalItems.eq_3]
    conv => rhs; rw [evalItems.eq_3]
    (repeat' split at h) <;> anti_leaf

theorem evalEntries_anti (ih : Anti ops n) (d d' : Nat) (L : List Entry) (acc : Frame) (s : ES)
    (hdd : d' ≤ d) (hd0 : 0 < d') (he : Entry.nsbList L = true) (ha : Value.nsbRec acc = true)
    (hs : nsbEnv s.env = true) (h : ND (evalEntries ops (n+1) d L acc s)) :
    evalEntries ops (n+1) d' L acc s = evalEntries ops (n+1) d L acc s := by
  have gEval := @(pres hp n).eval; have gList := @(pres hp n).evalList
  have gItems := @(pres hp n).evalItems; have gEntries := @(pres hp n).evalEntries
  have gStmt := @(pres hp n).evalDoStmt; have gDo := @(pres hp n).evalDo
  have gCall := @(pres hp n).callFn; have gMap := @(pres hp n).mapCalls
  have gQuant := @(pres hp n).quantCalls; have gFold := @(pres hp n).foldCalls
  have gHof := @(pres hp n).callHof; have gBin := @(pres hp n).evalBin
  have gVia := @(pres hp n).viaPairs; have gWhere := @(pres hp n).whereCalls
  have aEval := fun e s => ih.eval d d' e s hdd hd0
  have aEntries := fun es acc s => ih.evalEntries d d' es acc s hdd hd0
  clear ih
  cases L with
  | nil => simp [evalEntries]
  | cons x xs =>
    obtain ⟨l, k, v, t⟩ := x
    cases k
    · rw [evalEntries.eq_3] at h
      conv => lhs; rw [evalEntries.eq_3]
      conv => rhs; rw [evalEntries.eq_3]
      (repeat' split at h) <;> anti_leaf
    · rw [evalEntries.eq_4] at h
      conv => lhs; rw [evalEntries.eq_4]
      conv => rhs; rw [evalEntries.eq_4]
      (repeat' split at h) <;> anti_leaf
    · rw [evalEntries.eq_5] at h
      conv => lhs; rw [evalEntries.eq_5]
      conv => rhs; rw [evalEntries.eq_5]
      (repeat' split at h) <;> anti_leaf
    · rw [evalEntries.eq_6] at h
      conv => lhs; rw [evalEntries.eq_6]
      conv => rhs; rw [evalEntries.eq_6]
      (repeat' split at h) <;> anti_leaf

theorem evalDoStmt_anti (ih : Anti ops n) (d d' : Nat) (e : Expr) (s : ES) (hdd : d' ≤ d) (hd0 : 0 < d')
    (he : e.nsb = true) (hs : nsbEnv s.env = true)
    (h : ND (evalDoStmt ops (n+1) d e s)) : evalDoStmt ops (n+1) d' e s = evalDoStmt ops (n+1) d e s := by
  have gEval := @(pres hp n).eval; have gList := @(pres hp n).evalList
  have gItems := @(pres hp n).evalItems; have gEntries := @(pres hp n).evalEntries
  have gStmt := @(pres hp n).evalDoStmt; have gDo := @(pres hp n).evalDo
  have gCall := @(pres hp n).callFn; have gMap := @(pres hp n).mapCalls
  have gQuant := @(pres hp n).quantCalls; have gFold := @(pres hp n).foldCalls
  have gHof := @(pres hp n).callHof; have gBin := @(pres hp n).evalBin
  have gVia := @(pres hp n).viaPairs; have gWhere := @(pres hp n).whereCalls
  have aEval := fun e s => ih.eval d d' e s hdd hd0
  clear ih
  rw [evalDoStmt.eq_def] at h; dsimp only at h
  conv => lhs; rw [evalDoStmt.eq_def]
  conv => rhs; rw [evalDoStmt.eq_def]
  dsimp only
  (repeat' split at h) <;> anti_leaf

theorem evalDo_anti (ih : Anti ops n) (d d' : Nat) (L : List Item) (ret : Item) (s : ES) (hdd : d' ≤ d)
    (hd0 : 0 < d') (hst : Item.nsbList L = true) (hr : ret.nsb = true) (hs : nsbEnv s.env = true)
    (h : ND (evalDo ops (n+1) d L ret s)) : evalDo ops (n+1) d' L ret s = evalDo ops (n+1) d L ret s := by
  have gEval := @(pres hp n).eval; have gList := @(pres hp n).evalList
  have gItems := @(pres hp n).evalItems; have gEntries := @(pres hp n).evalEntries
  have gStmt := @(pres hp n).evalDoStmt; have gDo := @(pres hp n).evalDo
  have gCall := @(pres hp n).callFn; have gMap := @(pres hp n).mapCalls
  have gQuant := @(pres hp n).quantCalls; have gFold := @(pres hp n).foldCalls
  have gHof := @(pres hp n).callHof; have gBin := @(pres hp n).evalBin
  have gVia := @(pres hp n).viaPairs; have gWhere := @(pres hp n).whereCalls
  have aStmt := fun e s => ih.evalDoStmt d d' e s hdd hd0
  have aDo := fun st ret s => ih.evalDo d d' st ret s hdd hd0
  clear ih
  cases L with
  | nil =>
    cases ret
    rw [evalDo.eq_2] at h
    conv => lhs; rw [evalDo.eq_2]
    conv => rhs; rw [evalDo.eq_2]
    anti_leaf
  | cons x xs =>
    cases x
    rw [evalDo.eq_3] at h
    conv => lhs; rw [evalDo.eq_3]
    conv => rhs; rw [evalDo.eq_3]
    (repeat' split at h) <;> anti_leaf

theorem evalBin_anti (ih : Anti ops n) (d d' : Nat) (op : BinOp) (a b : Value) (s : ES) (hdd : d' ≤ d)
    (ha : a.nsb = true) (hb : b.nsb = true) (hs : nsbEnv s.env = true)
    (h : ND (evalBin ops (n+1) d op a b s)) : evalBin ops (n+1) d' op a b s = evalBin ops (n+1) d op a b s := by
  have gEval := @(pres hp n).eval; have gList := @(pres hp n).evalList
  have gItems := @(pres hp n).evalItems; have gEntries := @(pres hp n).evalEntries
  have gStmt := @(pres hp n).evalDoStmt; have gDo := @(pres hp n).evalDo
  have gCall := @(pres hp n).callFn; have gMap := @(pres hp n).mapCalls
  have gQuant := @(pres hp n).quantCalls; have gFold := @(pres hp n).foldCalls
  have gHof := @(pres hp n).callHof; have gBin := @(pres hp n).evalBin
  have gVia := @(pres hp n).viaPairs; have gWhere := @(pres hp n).whereCalls
  have aCall := fun fv this args s => ih.callFn d d' fv this args s hdd
  have aMap := fun f w L i s => ih.mapCalls d d' f w L i s hdd
  have aVia := fun la lb s => ih.viaPairs d d' la lb s hdd
  have aWhere := fun f w L i s => ih.whereCalls d d' f w L i s hdd
  clear ih
  rw [evalBin_succ] at h
  conv => lhs; rw [evalBin_succ]
  conv => rhs; rw [evalBin_succ]
  (repeat' split at h) <;> anti_leaf

theorem callHof_anti (ih : Anti ops n) (d d' : Nat) (name : String) (args : List Value) (s : ES)
    (hdd : d' ≤ d) (hn : name ≠ "sort_by") (ha : Value.nsbList args = true) (hs : nsbEnv s.env = true)
    (h : ND (callHof ops (n+1) name args d s)) :
    callHof ops (n+1) name args d' s = callHof ops (n+1) name args d s := by
  have gEval := @(pres hp n).eval; have gList := @(pres hp n).evalList
  have gItems := @(pres hp n).evalItems; have gEntries := @(pres hp n).evalEntries
  have gStmt := @(pres hp n).evalDoStmt; have gDo := @(pres hp n).evalDo
  have gCall := @(pres hp n).callFn; have gMap := @(pres hp n).mapCalls
  have gQuant := @(pres hp n).quantCalls; have gFold := @(pres hp n).foldCalls
  have gHof := @(pres hp n).callHof; have gBin := @(pres hp n).evalBin
  have gVia := @(pres hp n).viaPairs; have gWhere := @(pres hp n).whereCalls
  have aMap := fun f w L i s => ih.mapCalls (d+1) (d'+1) f w L i s (by omega)
  have aQuant := fun f w q L i s => ih.quantCalls (d+1) (d'+1) f w q L i s (by omega)
  have aFold := fun f w acc L i s => ih.foldCalls (d+1) (d'+1) f w acc L i s (by omega)
  have aWhere := fun f w L i s => ih.whereCalls (d+1) (d'+1) f w L i s (by omega)
  clear ih
  rw [callHof.eq_2] at h
  conv => lhs; rw [callHof.eq_2]
  conv => rhs; rw [callHof.eq_2]
  (repeat' split at h) <;> anti_leaf

theorem callFn_anti (ih : Anti ops n) (d d' : Nat) (fv this : Value) (args : List Value) (s : ES)
    (hdd : d' ≤ d) (hf : fv.nsb = true) (ht : this.nsb = true) (ha : Value.nsbList args = true)
    (hs : nsbEnv s.env = true) (h : ND (callFn ops (n+1) fv this args d s)) :
    callFn ops (n+1) fv this args d' s = callFn ops (n+1) fv this args d s := by
  have aEval := fun e s => ih.eval (d+1) (d'+1) e s (by omega) (by omega)
  have aHof := fun name args s => ih.callHof (d+1) (d'+1) name args s (by omega)
  clear ih
  cases fv with
  | lambda id params body scope =>
    rw [callFn.eq_2] at h
    conv => lhs; rw [callFn.eq_2]
    conv => rhs; rw [callFn.eq_2]
    simp only [Value.nsb, Bool.and_eq_true] at hf
    split at h
    · split at h
      · simp at h
      · rename_i hdm
        have hdmax : ¬ d' > MAX_DEPTH := by omega
        simp only [hdm, hdmax, if_false] at h ⊢
        cases hpf : bindParams params args with
        | ok pf =>
          rw [hpf] at h
          simp only [] at h ⊢
          have hpfn := nsb_bindParams ha hpf
          generalize hS : ({ env := _ :: _, nextId := s.nextId, names := s.names } : ES) = S at h ⊢
          have hSn : nsbEnv S.env = true := by
            subst hS
            simp only [nsbEnv, Bool.and_eq_true]
            refine ⟨nsb_foldl_insertAL _ _ hpfn ?_, ?_⟩
            · split
              · rename_i w hw
                apply nsb_insertAL (nsb_envGet hs hw)
                split
                · split <;> simp [Value.nsbRec, ht]
                · rfl
              · split
                · split <;> simp [Value.nsbRec, ht]
                · rfl
            · split
              · exact hs
              · simp [nsbEnv, hf.2, hs]
          have hnd : ND (eval ops n (d + 1) body S) := by
            intro hc
            cases he : eval ops n (d + 1) body S with
            | mk r s1 => rw [he] at hc h; simp at hc; subst hc; simp at h
          rw [aEval body S hf.1 hSn hnd]
        | err k => simp
        | panic p => simp
        | fuel => simp
    · rfl
    · rfl
    · rfl
  | builtin name =>
    have hpf : ∀ {name args v}, callPure ops name args = some (.ok v) → Value.nsbList args = true →
      v.nsb = true := fun h => hp _ _ _ h
    rw [callFn.eq_3] at h
    conv => lhs; rw [callFn.eq_3]
    conv => rhs; rw [callFn.eq_3]
    simp only [Value.nsb, bne_iff_ne, ne_eq] at hf
    (repeat' split at h) <;> anti_leaf
  | _ => simp [callFn]

set_option maxHeartbeats 4000000 in
theorem eval_anti (ih : Anti ops n) (d d' : Nat) (e : Expr) (s : ES) (hdd : d' ≤ d) (hd0 : 0 < d')
    (he : e.nsb = true) (hs : nsbEnv s.env = true)
    (h : ND (eval ops (n+1) d e s)) : eval ops (n+1) d' e s = eval ops (n+1) d e s := by
  have gEval := @(pres hp n).eval; have gList := @(pres hp n).evalList
  have gItems := @(pres hp n).evalItems; have gEntries := @(pres hp n).evalEntries
  have gStmt := @(pres hp n).evalDoStmt; have gDo := @(pres hp n).evalDo
  have gCall := @(pres hp n).callFn; have gMap := @(pres hp n).mapCalls
  have gQuant := @(pres hp n).quantCalls; have gFold := @(pres hp n).foldCalls
  have gHof := @(pres hp n).callHof; have gBin := @(pres hp n).evalBin
  have gVia := @(pres hp n).viaPairs; have gWhere := @(pres hp n).whereCalls
  have aEval := fun e s => ih.eval d d' e s hdd hd0
  have aList := fun es s => ih.evalList d d' es s hdd hd0
  have aItems := fun es s => ih.evalItems d d' es s hdd hd0
  have aEntries := fun es s h1 => ih.evalEntries d d' es [] s hdd hd0 h1 rfl
  have aDo := fun st ret s => ih.evalDo d d' st ret s hdd hd0
  have aCall := fun fv this args s => ih.callFn d d' fv this args s hdd
  have aBin := fun op a b s => ih.evalBin d d' op a b s hdd
  have hd0' : 0 < d := by omega
  have hAD : ∀ env k, alreadyDefined d' env k = alreadyDefined d env k := by
    intro env k; simp [alreadyDefined, hd0, hd0']
  clear ih
  cases e <;> (rw [eval] at h; conv => lhs; rw [eval]) <;> (conv => rhs; rw [eval]) <;>
    (repeat' split at h) <;> anti_leaf

theorem anti_succ (ih : Anti ops n) : Anti ops (n+1) :=
  ⟨fun d d' e s h1 h2 h3 h4 h5 => eval_anti hp ih d d' e s h1 h2 h3 h4 h5,
   fun d d' es s h1 h2 h3 h4 h5 => evalList_anti hp ih d d' es s h1 h2 h3 h4 h5,
   fun d d' es s h1 h2 h3 h4 h5 => evalItems_anti hp ih d d' es s h1 h2 h3 h4 h5,
   fun d d' es acc s h1 h2 h3 h4 h5 h6 => evalEntries_anti hp ih d d' es acc s h1 h2 h3 h4 h5 h6,
   fun d d' e s h1 h2 h3 h4 h5 => evalDoStmt_anti hp ih d d' e s h1 h2 h3 h4 h5,
   fun d d' st ret s h1 h2 h3 h4 h5 h6 => evalDo_anti hp ih d d' st ret s h1 h2 h3 h4 h5 h6,
   fun d d' fv this args s h1 h2 h3 h4 h5 h6 => callFn_anti hp ih d d' fv this args s h1 h2 h3 h4 h5 h6,
   fun d d' f w L i s h1 h2 h3 h4 h5 => mapCalls_anti hp ih d d' f w L i s h1 h2 h3 h4 h5,
   fun d d' f w q L i s h1 h2 h3 h4 h5 => quantCalls_anti hp ih d d' f w q L i s h1 h2 h3 h4 h5,
   fun d d' f w acc L i s h1 h2 h3 h4 h5 h6 => foldCalls_anti hp ih d d' f w acc L i s h1 h2 h3 h4 h5 h6,
   fun d d' name args s h1 h2 h3 h4 h5 => callHof_anti hp ih d d' name args s h1 h2 h3 h4 h5,
   fun d d' op a b s h1 h2 h3 h4 h5 => evalBin_anti hp ih d d' op a b s h1 h2 h3 h4 h5,
   fun d d' la lb s h1 h2 h3 h4 h5 => viaPairs_anti hp ih d d' la lb s h1 h2 h3 h4 h5,
   fun d d' f w L i s h1 h2 h3 h4 h5 => whereCalls_anti hp ih d d' f w L i s h1 h2 h3 h4 h5⟩

end antiStep

/-- depth antitonicity, all fourteen functions, every fuel -/
theorem anti {ops : NumOps} (hp : CallPureKeepsNSB ops) : ∀ n, Anti ops n
  | 0 => anti_zero ops
  | n + 1 => anti_succ hp (anti hp n)

@[simp] theorem wrapList_fst_ne_depth (x : R (List Value)) :
    (wrapList x).1 ≠ Outcome.err ErrKind.depth ↔ x.1 ≠ Outcome.err ErrKind.depth := by
  obtain ⟨r, s⟩ := x; cases r <;> simp [wrapList]

/-- `ES`-level spelling of the invariant -/
theorem ES.nsb_iff (s : ES) : s.nsb = true ↔ nsbEnv s.env = true := Iff.rfl

end Blots
