import Blots.Lemmas.FormatPieces
import Blots.Lemmas.PrintLemmas
/-
  `squash`: the characters of a program text that are NOT layout.

  Outside string literals `squash` deletes
    * spaces, tabs, `'\n'`, `'\r'`;
    * a comma that is followed — after deleted layout (and further such commas) — by a
      closing bracket `]`, `}` or `)`  (the trailing comma of the multi-line layouts);
  inside a string literal (from an opening `"` or `'` to the next occurrence of the same
  quote character: the language has no escapes) it deletes nothing.

  It is a small state machine (`step`): the state is "outside, with `n` commas held back"
  or "inside a literal opened by `q`"; `outp st a` is what is emitted while reading `a`
  from state `st`, `fin st a` the state afterwards, so that texts compose:

      outp st (a ++ b) = outp st a ++ outp (fin st a) b        (`outp_append`)
      fin  st (a ++ b) = fin (fin st a) b                      (`fin_append`)

  `Eqv a b` : from every outside state `a` and `b` emit the same characters and end in the
  same outside state ("equal up to layout, both balanced").  `Eqv` is a congruence for `++`;
  `Eqv a b → squashL a = squashL b`.

  Second half of the file: every text the printers emit for a leaf is balanced (ends outside
  a literal): string literals in all three branches of `string_to_source`, record keys,
  numbers, operator spellings, and names without quote characters.
-/
namespace Blots
namespace Squash

/-! ### the machine -/

inductive St where
  /-- outside a string literal; `n` commas have been read and not yet emitted -/
  | out (n : Nat)
  /-- inside a string literal opened by `q` -/
  | inq (q : Char)
  deriving DecidableEq, Repr

def isLayout (c : Char) : Bool := c == ' ' || c == '\t' || c == '\n' || c == '\r'
def isClose (c : Char) : Bool := c == ']' || c == '}' || c == ')'
def isQuote (c : Char) : Bool := c == '"' || c == '\''

def commas (n : Nat) : List Char := List.replicate n ','

/-- one character: what is emitted, and the next state -/
def step : St → Char → List Char × St
  | .out n, c =>
    if isLayout c then ([], .out n)
    else if c == ',' then ([], .out (n + 1))
    else if isClose c then ([c], .out 0)
    else if isQuote c then (commas n ++ [c], .inq c)
    else (commas n ++ [c], .out 0)
  | .inq q, c => ([c], if c == q then .out 0 else .inq q)

/-- the characters emitted while reading `cs` from state `st` -/
def outp : St → List Char → List Char
  | _, [] => []
  | st, c :: cs => (step st c).1 ++ outp (step st c).2 cs

/-- the state after reading `cs` from state `st` -/
def fin : St → List Char → St
  | st, [] => st
  | st, c :: cs => fin (step st c).2 cs

/-- at the end of the text the commas held back are not followed by a bracket: emitted -/
def flush : St → List Char
  | .out n => commas n
  | .inq _ => []

def squashL (cs : List Char) : List Char := outp (.out 0) cs ++ flush (fin (.out 0) cs)

end Squash

/-- the non-layout characters of a text (see the head of `Lemmas/FormatSquash.lean`) -/
def squash (s : String) : String := String.ofList (Squash.squashL s.toList)

namespace Squash

theorem outp_append : ∀ (st : St) (a b : List Char), outp st (a ++ b) = outp st a ++ outp (fin st a) b
  | _, [], _ => rfl
  | st, c :: a, b => by
    simp only [List.cons_append, outp, fin, outp_append (step st c).2 a b, List.append_assoc]

theorem fin_append : ∀ (st : St) (a b : List Char), fin st (a ++ b) = fin (fin st a) b
  | _, [], _ => rfl
  | st, c :: a, b => by
    simp only [List.cons_append, fin, fin_append (step st c).2 a b]

/-- `squash (a ++ b)` from what `a` leaves behind -/
theorem squashL_append (a b : List Char) :
    squashL (a ++ b) =
      outp (.out 0) a ++ (outp (fin (.out 0) a) b ++ flush (fin (fin (.out 0) a) b)) := by
  simp only [squashL, outp_append, fin_append, List.append_assoc]

/-- … in particular after a balanced text that holds no comma back, squash distributes -/
theorem squashL_append_of_fin (a b : List Char) (h : fin (.out 0) a = .out 0) :
    squashL (a ++ b) = outp (.out 0) a ++ squashL b := by
  rw [squashL_append, h]; rfl

/-! ### equal up to layout -/

/-- `a` read from any outside state ends outside a literal -/
def Bal (a : List Char) : Prop := ∀ n, ∃ m, fin (.out n) a = .out m

/-- from every outside state: same emitted characters, same outside end state -/
def Eqv (a b : List Char) : Prop :=
  ∀ n, ∃ m, fin (.out n) a = .out m ∧ fin (.out n) b = .out m ∧ outp (.out n) a = outp (.out n) b

theorem Eqv.refl {a : List Char} (h : Bal a) : Eqv a a := fun n => by
  obtain ⟨m, hm⟩ := h n
  exact ⟨m, hm, hm, rfl⟩

theorem Eqv.symm {a b : List Char} (h : Eqv a b) : Eqv b a := fun n => by
  obtain ⟨m, h1, h2, h3⟩ := h n
  exact ⟨m, h2, h1, h3.symm⟩

theorem Eqv.trans {a b c : List Char} (h : Eqv a b) (h' : Eqv b c) : Eqv a c := fun n => by
  obtain ⟨m, h1, h2, h3⟩ := h n
  obtain ⟨m', h1', h2', h3'⟩ := h' n
  rw [h2] at h1'
  cases h1'
  exact ⟨m, h1, h2', h3.trans h3'⟩

theorem Eqv.balL {a b : List Char} (h : Eqv a b) : Bal a := fun n => by
  obtain ⟨m, h1, _, _⟩ := h n
  exact ⟨m, h1⟩

theorem Eqv.balR {a b : List Char} (h : Eqv a b) : Bal b := h.symm.balL

theorem Eqv.nil : Eqv [] [] := fun n => ⟨n, rfl, rfl, rfl⟩

theorem Eqv.app {a b c d : List Char} (h : Eqv a b) (h' : Eqv c d) : Eqv (a ++ c) (b ++ d) := fun n => by
  obtain ⟨m, h1, h2, h3⟩ := h n
  obtain ⟨m', h1', h2', h3'⟩ := h' m
  refine ⟨m', ?_, ?_, ?_⟩
  · rw [fin_append, h1, h1']
  · rw [fin_append, h2, h2']
  · rw [outp_append, outp_append, h1, h2, h3, h3']

theorem Bal.app {a b : List Char} (h : Bal a) (h' : Bal b) : Bal (a ++ b) :=
  (Eqv.app (Eqv.refl h) (Eqv.refl h')).balL

theorem Bal.nil : Bal [] := Eqv.nil.balL

/-- THE POINT: texts equal up to layout have the same squash -/
theorem Eqv.squashL_eq {a b : List Char} (h : Eqv a b) : squashL a = squashL b := by
  obtain ⟨m, h1, h2, h3⟩ := h 0
  simp only [squashL, h1, h2, h3]

/-! #### single characters -/

theorem step_out_noQuote (n : Nat) (c : Char) (h : isQuote c = false) :
    ∃ m, (step (.out n) c).2 = .out m := by
  simp only [step]
  split
  · exact ⟨_, rfl⟩
  · split
    · exact ⟨_, rfl⟩
    · split
      · exact ⟨_, rfl⟩
      · simp only [h, Bool.false_eq_true, if_false]
        exact ⟨_, rfl⟩

/-- the same non-quote character in front of both texts -/
theorem Eqv.cons_same {c : Char} {a b : List Char} (hc : isQuote c = false) (h : Eqv a b) :
    Eqv (c :: a) (c :: b) := fun n => by
  obtain ⟨m, hm⟩ := step_out_noQuote n c hc
  obtain ⟨m', h1, h2, h3⟩ := h m
  refine ⟨m', ?_, ?_, ?_⟩
  · simp only [fin, hm, h1]
  · simp only [fin, hm, h2]
  · simp only [outp, hm, h3]

theorem step_layout (n : Nat) (c : Char) (h : isLayout c = true) : step (.out n) c = ([], .out n) := by
  simp only [step, h, if_true]

/-- a layout character on the left … -/
theorem Eqv.skipL {c : Char} {a b : List Char} (hc : isLayout c = true) (h : Eqv a b) :
    Eqv (c :: a) b := fun n => by
  obtain ⟨m, h1, h2, h3⟩ := h n
  refine ⟨m, ?_, h2, ?_⟩
  · simp only [fin, step_layout n c hc, h1]
  · simp only [outp, step_layout n c hc, List.nil_append, h3]

/-- … or on the right is invisible -/
theorem Eqv.skipR {c : Char} {a b : List Char} (hc : isLayout c = true) (h : Eqv a b) :
    Eqv a (c :: b) := (Eqv.skipL hc h.symm).symm

/-- an indentation on the left -/
theorem Eqv.skipIndentL {a b : List Char} : ∀ (k : Nat), Eqv a b → Eqv (List.replicate k ' ' ++ a) b
  | 0, h => h
  | k + 1, h => by
    rw [List.replicate_succ, List.cons_append]
    exact Eqv.skipL (by decide) (Eqv.skipIndentL k h)

theorem Eqv.skipIndentL' {b : List Char} (k : Nat) (h : Eqv [] b) : Eqv (List.replicate k ' ') b := by
  have := Eqv.skipIndentL k h
  rwa [List.append_nil] at this

theorem Eqv.skipIndentR {a b : List Char} (k : Nat) (h : Eqv a b) : Eqv a (List.replicate k ' ' ++ b) :=
  (Eqv.skipIndentL k h.symm).symm

theorem step_comma (n : Nat) : step (.out n) ',' = ([], .out (n + 1)) := by
  simp only [step]
  rw [if_neg (by decide), if_pos (by decide)]

theorem step_close (n : Nat) (c : Char) (h : isClose c = true) : step (.out n) c = ([c], .out 0) := by
  have h1 : isLayout c = false := by
    simp only [isClose, Bool.or_eq_true, beq_iff_eq] at h
    rcases h with (h | h) | h <;> subst h <;> decide
  have h2 : (c == ',') = false := by
    simp only [isClose, Bool.or_eq_true, beq_iff_eq] at h
    rcases h with (h | h) | h <;> subst h <;> decide
  simp only [step, h1, h2, h, Bool.false_eq_true, if_false, if_true]

/-- the trailing comma of a multi-line layout: `,` line break, indentation, closing bracket
    against the bare closing bracket -/
theorem Eqv.trailing {c : Char} {a b : List Char} (k : Nat) (hc : isClose c = true) (h : Eqv a b) :
    Eqv (',' :: '\n' :: (List.replicate k ' ' ++ c :: a)) (c :: b) := fun n => by
  obtain ⟨m, h1, h2, h3⟩ := h 0
  have hI : ∀ (k j : Nat) (x : List Char), fin (.out j) (List.replicate k ' ' ++ x) = fin (.out j) x ∧
      outp (.out j) (List.replicate k ' ' ++ x) = outp (.out j) x := by
    intro k
    induction k with
    | zero => intro j x; exact ⟨rfl, rfl⟩
    | succ k ih =>
      intro j x
      rw [List.replicate_succ, List.cons_append]
      simp only [fin, outp, step_layout j ' ' (by decide), List.nil_append]
      exact ih j x
  refine ⟨m, ?_, ?_, ?_⟩
  · simp only [fin, step_comma, step_layout (n + 1) '\n' (by decide), (hI k (n + 1) (c :: a)).1,
      step_close _ c hc, h1]
  · simp only [fin, step_close _ c hc, h2]
  · simp only [outp, step_comma, step_layout (n + 1) '\n' (by decide), (hI k (n + 1) (c :: a)).2,
      step_close _ c hc, List.nil_append, h3]

/-! #### balanced texts -/

theorem Bal.of_noQuote : ∀ (a : List Char), (∀ c ∈ a, isQuote c = false) → Bal a
  | [], _ => Bal.nil
  | c :: a, h => by
    have hc := h c (List.mem_cons_self)
    have ha := Bal.of_noQuote a (fun d hd => h d (List.mem_cons_of_mem _ hd))
    exact (Eqv.cons_same hc (Eqv.refl ha)).balL

theorem fin_inq (q : Char) : ∀ (s : List Char), q ∉ s → fin (.inq q) s = .inq q
  | [], _ => rfl
  | c :: s, h => by
    have hc : (c == q) = false := by
      simp only [beq_eq_false_iff_ne, ne_eq]
      exact fun e => h (by simp [e])
    simp only [fin, step, hc, Bool.false_eq_true, if_false]
    exact fin_inq q s (fun m => h (List.mem_cons_of_mem _ m))

theorem step_quote (n : Nat) (q : Char) (hq : isQuote q = true) : (step (.out n) q).2 = .inq q := by
  have h1 : isLayout q = false := by
    simp only [isQuote, Bool.or_eq_true, beq_iff_eq] at hq
    rcases hq with h | h <;> subst h <;> decide
  have h2 : (q == ',') = false := by
    simp only [isQuote, Bool.or_eq_true, beq_iff_eq] at hq
    rcases hq with h | h <;> subst h <;> decide
  have h3 : isClose q = false := by
    simp only [isQuote, Bool.or_eq_true, beq_iff_eq] at hq
    rcases hq with h | h <;> subst h <;> decide
  simp only [step, h1, h2, h3, hq, Bool.false_eq_true, if_false, if_true]

/-- a literal `q s q` whose content is free of `q` -/
theorem Bal.quoted (q : Char) (hq : isQuote q = true) (s : List Char) (h : q ∉ s) :
    Bal (q :: (s ++ [q])) := fun n => by
  refine ⟨0, ?_⟩
  have hlast : fin (.inq q) [q] = .out 0 := by
    simp only [fin, step, beq_self_eq_true, if_true]
  show fin (step (.out n) q).2 (s ++ [q]) = .out 0
  rw [step_quote n q hq, fin_append, fin_inq q s h, hlast]

/-! ### on strings -/

def EqvS (a b : String) : Prop := Eqv a.toList b.toList
def BalS (a : String) : Prop := Bal a.toList

theorem EqvS.refl {a : String} (h : BalS a) : EqvS a a := Eqv.refl h
theorem EqvS.symm {a b : String} (h : EqvS a b) : EqvS b a := Eqv.symm h
theorem EqvS.trans {a b c : String} (h : EqvS a b) (h' : EqvS b c) : EqvS a c := Eqv.trans h h'
theorem EqvS.balL {a b : String} (h : EqvS a b) : BalS a := Eqv.balL h
theorem EqvS.balR {a b : String} (h : EqvS a b) : BalS b := Eqv.balR h
theorem EqvS.app {a b c d : String} (h : EqvS a b) (h' : EqvS c d) : EqvS (a ++ c) (b ++ d) := by
  unfold EqvS
  rw [String.toList_append, String.toList_append]
  exact Eqv.app h h'
theorem BalS.app {a b : String} (h : BalS a) (h' : BalS b) : BalS (a ++ b) := (EqvS.app (EqvS.refl h) (EqvS.refl h')).balL

theorem EqvS.squash_eq {a b : String} (h : EqvS a b) : squash a = squash b := by
  unfold squash
  rw [Eqv.squashL_eq h]

/-- a name (identifier, field, parameter, …) without quote characters -/
def nameOk (s : String) : Bool := s.toList.all fun c => !isQuote c

theorem BalS.of_nameOk {s : String} (h : nameOk s = true) : BalS s := by
  apply Bal.of_noQuote
  intro c hc
  have := List.all_eq_true.mp h c hc
  simpa using this

theorem BalS.of_noQuote (s : String) (h : (s.toList.all fun c => !isQuote c) = true) : BalS s :=
  BalS.of_nameOk h

/-! ### the leaf texts of the printers are balanced -/

theorem balS_intercalate (sep : String) (hs : BalS sep) :
    ∀ (l : List String), (∀ x ∈ l, BalS x) → BalS (sep.intercalate l)
  | [], _ => by
    show Bal (String.toList (String.intercalate sep []))
    rw [String.toList_intercalate]; exact Bal.nil
  | [x], h => by
    show Bal (String.toList (String.intercalate sep [x]))
    rw [String.toList_intercalate]
    have := h x (List.mem_singleton.mpr rfl)
    unfold BalS at this
    simpa [List.intercalate] using this
  | x :: y :: r, h => by
    have ih := balS_intercalate sep hs (y :: r) (fun z hz => h z (List.mem_cons_of_mem _ hz))
    unfold BalS at ih ⊢
    rw [String.toList_intercalate] at ih ⊢
    simp only [List.map_cons, List.intercalate, List.intersperse_cons_cons, List.flatten_cons] at ih ⊢
    exact Bal.app (h x List.mem_cons_self) (Bal.app hs ih)

theorem balS_litOf (qc : Char × List Char) (hq : qc.1 = '"' ∨ qc.1 = '\'') (hf : qc.1 ∉ qc.2) :
    BalS (PrintL.litOf qc) := by
  unfold BalS PrintL.litOf
  rw [String.toList_ofList]
  refine Bal.quoted qc.1 ?_ qc.2 hf
  rcases hq with h | h <;> rw [h] <;> decide

/-- `string_to_source`, all three branches -/
theorem balS_stringToSource (s : String) : BalS (stringToSource s) := by
  by_cases h1 : '"' ∈ s.toList
  · by_cases h2 : '\'' ∈ s.toList
    · rw [PrintL.stringToSource_both s h1 h2]
      refine BalS.app (BalS.app (BalS.of_noQuote "(" (by decide)) ?_) (BalS.of_noQuote ")" (by decide))
      refine balS_intercalate _ (BalS.of_noQuote " + " (by decide)) _ ?_
      intro x hx
      obtain ⟨qc, hqc, rfl⟩ := List.mem_map.mp hx
      obtain ⟨hq, hf⟩ := PrintL.quotedPieces_ok _ qc hqc
      exact balS_litOf qc hq hf
    · rw [PrintL.stringToSource_sq s h1 h2]
      unfold BalS
      simp only [String.toList_append, PrintL.sq_toList, List.cons_append, List.nil_append]
      exact Bal.quoted '\'' (by decide) s.toList h2
  · rw [PrintL.stringToSource_dq s h1]
    unfold BalS
    simp only [String.toList_append, PrintL.dq_toList, List.cons_append, List.nil_append]
    exact Bal.quoted '"' (by decide) s.toList h1

theorem isQuote_false_of_ident (d : Char)
    (h : isAsciiAlpha d = true ∨ isAsciiDigit d = true ∨ d = '_') : isQuote d = false := by
  cases hq : isQuote d
  · rfl
  · exfalso
    simp only [isQuote, Bool.or_eq_true, beq_iff_eq] at hq
    rcases hq with hq | hq <;> subst hq <;> revert h <;> decide

/-- `format_record_key` -/
theorem balS_formatRecordKey (k : String) : BalS (formatRecordKey k) := by
  unfold formatRecordKey
  split
  · rename_i hv
    obtain ⟨_, c, rest, hk, hc, hr⟩ := PrintL.isValidIdentifier_spec k hv
    apply Bal.of_noQuote
    intro d hd
    rw [hk] at hd
    rcases List.mem_cons.mp hd with rfl | hd
    · exact isQuote_false_of_ident _ (hc.elim Or.inl (fun h => Or.inr (Or.inr h)))
    · exact isQuote_false_of_ident _ (hr d hd)
  · split
    · exact balS_stringToSource k
    · exact BalS.app (BalS.app (BalS.of_noQuote "[" (by decide)) (balS_stringToSource k))
        (BalS.of_noQuote "]" (by decide))

/-! numbers: digits, `.`, `-`, `inf`, `NaN`, `1e999` -/

def numChar (c : Char) : Bool := isAsciiDigit c || "-.einfNa".toList.contains c

theorem natDigits_numChar (n : Nat) : ∀ c ∈ (F64.natDigits n).toList, numChar c = true := by
  intro c h
  simp only [F64.natDigits, Nat.toString_eq_repr, Nat.repr_eq_ofList_toDigits, String.toList_ofList] at h
  have := Nat.isDigit_of_mem_toDigits (by decide) (by decide) h
  simp only [Char.isDigit, Bool.and_eq_true, decide_eq_true_eq] at this
  simp only [numChar, isAsciiDigit, Bool.or_eq_true, Bool.and_eq_true, decide_eq_true_eq]
  exact Or.inl ⟨this.1, this.2⟩

theorem zeros_numChar (n : Nat) : ∀ c ∈ (F64.zeros n).toList, numChar c = true := by
  intro c h
  simp only [F64.zeros, String.toList_ofList, List.mem_replicate] at h
  rw [h.2]; decide

theorem positional_numChar (ds : String) (e : Int) (h : ∀ c ∈ ds.toList, numChar c = true) :
    ∀ c ∈ (F64.positional ds e).toList, numChar c = true := by
  unfold F64.positional
  intro c
  split
  · simp only [String.toList_append, List.mem_append]
    rintro (hc | hc)
    · exact h c hc
    · exact zeros_numChar _ c hc
  · simp only []
    split
    · simp only [String.toList_append, String.toList_ofList, List.mem_append]
      rintro ((hc | hc) | hc)
      · exact h c (List.mem_of_mem_take hc)
      · revert hc; revert c; decide
      · exact h c (List.mem_of_mem_drop hc)
    · simp only [String.toList_append, List.mem_append]
      rintro ((hc | hc) | hc)
      · revert hc; revert c; decide
      · exact zeros_numChar _ c hc
      · exact h c hc

theorem lit_numChar (s : String) (hs : s.toList.all numChar = true) :
    ∀ c ∈ s.toList, numChar c = true := fun c hc => List.all_eq_true.mp hs c hc

theorem toDisplay_numChar (x : F64) : ∀ c ∈ x.toDisplay.toList, numChar c = true := by
  unfold F64.toDisplay
  split
  · exact lit_numChar "NaN" (by decide)
  · split
    · split
      · exact lit_numChar "-inf" (by decide)
      · exact lit_numChar "inf" (by decide)
    · have hsign : ∀ c ∈ (if x.neg = true then "-" else "").toList, numChar c = true := by
        split
        · exact lit_numChar "-" (by decide)
        · intro c hc; cases hc
      simp only []
      split
      · intro c
        simp only [String.toList_append, List.mem_append]
        rintro (hc | hc)
        · exact hsign c hc
        · exact lit_numChar "0" (by decide) c hc
      · intro c
        simp only [String.toList_append, List.mem_append]
        rintro (hc | hc)
        · exact hsign c hc
        · exact positional_numChar _ _ (natDigits_numChar _) c hc

theorem toFixed0_numChar (x : F64) : ∀ c ∈ (x.toFixed 0).toList, numChar c = true := by
  unfold F64.toFixed
  split
  · exact lit_numChar "NaN" (by decide)
  · split
    · split
      · exact lit_numChar "-inf" (by decide)
      · exact lit_numChar "inf" (by decide)
    · have hsign : ∀ c ∈ (if x.neg = true then "-" else "").toList, numChar c = true := by
        split
        · exact lit_numChar "-" (by decide)
        · intro c hc; cases hc
      simp only [if_true]
      intro c
      simp only [String.toList_append, List.mem_append]
      rintro (hc | hc)
      · exact hsign c hc
      · revert hc
        split
        · simp only [String.toList_append, List.mem_append]
          rintro (hc | hc)
          · exact zeros_numChar _ c hc
          · exact natDigits_numChar _ c hc
        · exact natDigits_numChar _ c

theorem numberToSource_numChar (x : F64) : ∀ c ∈ (numberToSource x).toList, numChar c = true := by
  unfold numberToSource
  split
  · exact lit_numChar "1e999" (by decide)
  · split
    · exact toFixed0_numChar x
    · exact toDisplay_numChar x

theorem isQuote_false_of_numChar (c : Char) (h : numChar c = true) : isQuote c = false := by
  cases hq : isQuote c
  · rfl
  · exfalso
    simp only [isQuote, Bool.or_eq_true, beq_iff_eq] at hq
    rcases hq with hq | hq <;> subst hq <;> revert h <;> decide

/-- `number_to_source` -/
theorem balS_numberToSource (x : F64) : BalS (numberToSource x) :=
  Bal.of_noQuote _ fun c hc => isQuote_false_of_numChar c (numberToSource_numChar x c hc)

/-- the operator spellings (over the generated tables) -/
theorem fmtSpelling_eq_opSpelling (op : BinOp) : fmtSpelling op = opSpelling op := by
  cases op <;> decide

theorem balS_opSpelling (op : BinOp) : BalS (opSpelling op) := by
  apply BalS.of_noQuote
  cases op <;> decide

theorem balS_unaryOp (op : UnOp) : BalS (unaryOpToSource op) := by
  apply BalS.of_noQuote
  cases op <;> decide

theorem balS_parenIf (b : Bool) {s : String} (h : BalS s) : BalS (parenIf b s) := by
  cases b
  · exact h
  · exact BalS.app (BalS.app (BalS.of_noQuote "(" (by decide)) h) (BalS.of_noQuote ")" (by decide))

theorem balS_protect {s : String} (h : BalS s) : BalS (protectStatementStart s) := by
  unfold protectStatementStart
  split
  · exact BalS.app (BalS.app (BalS.of_noQuote "(" (by decide)) h) (BalS.of_noQuote ")" (by decide))
  · exact h

theorem balS_lambdaArg (a : LArg) (h : nameOk a.name = true) : BalS (lambdaArgToSource a) := by
  cases a with
  | req n => exact BalS.of_nameOk h
  | opt n => exact BalS.app (BalS.of_nameOk h) (BalS.of_noQuote "?" (by decide))
  | rest n => exact BalS.app (BalS.of_noQuote "..." (by decide)) (BalS.of_nameOk h)

/-- the parameter list as the formatter prints it -/
theorem balS_lambdaArgsPart (args : List LArg) (h : (args.all fun a => nameOk a.name) = true) :
    BalS (lambdaArgsPart args) := by
  have hall : ∀ a ∈ args, BalS (lambdaArgToSource a) := fun a ha =>
    balS_lambdaArg a (List.all_eq_true.mp h a ha)
  have hgen : BalS ("(" ++ ", ".intercalate (args.map lambdaArgToSource) ++ ")") := by
    refine BalS.app (BalS.app (BalS.of_noQuote "(" (by decide)) ?_) (BalS.of_noQuote ")" (by decide))
    refine balS_intercalate _ (BalS.of_noQuote ", " (by decide)) _ ?_
    intro x hx
    obtain ⟨a, ha, rfl⟩ := List.mem_map.mp hx
    exact hall a ha
  unfold lambdaArgsPart
  split
  · rename_i n
    exact hall (.req n) (List.mem_singleton.mpr rfl)
  · exact hgen

end Squash
end Blots
