import Blots.Lemmas.EvalEnvClosedCoin
import Blots.Lemmas.EvalFresh
/-
  C02 (4), weakening through arbitrary function application.

  `Weak ops t w fuel`: for the six expression-level functions of the evaluator, at this fuel and
  at ANY call depth (0 included): the run from the state with the extra binding `(t, w)` at the
  head of the frame at depth `k` (`addT t w k s`) is the same run — same outcome, same final
  state with the same extra binding — provided
    * every value bound in the environment is hereditarily closed (`ClosedE`),
    * the expression does not touch `t` (`touches`: read, assigned, or free in a function it
      creates; in particular if `t` is not mentioned at all), has no nested `output`, and each
      of its free names is `inputs` or bound (`FOK n`: in the first `n` frames, `n` arbitrary),
  and the result (value, environment) is closed again w.r.t. the display names of the final
  state, which only grew.  NOTHING is assumed of the new value `w`.

  The expression itself is handled by the `addT` induction of `weak_group`; every call it makes
  (call expressions, `via` / `into` / `where`, the higher-order built-ins) is delegated to the
  closed-coincidence invariant `Coin` at `n = 0`, whose replaced tail is the whole caller chain:
  a closed callee never looks at it.
-/
namespace Blots

/-! ### the call group: `Coin` at `n = 0` with the whole chain replaced -/

theorem retail_zero_addAt (t : String) (w : Value) (k : Nat) (s : ES) :
    retail 0 (addAt t w k s.env) s = addT t w k s := by
  simp [retail, retailE, addT]

theorem sok_addT {t : String} (w : Value) (ht : t ≠ "inputs") (k : Nat) (s : ES)
    (hE : ClosedE s.names s.env) : SOK 0 (addAt t w k s.env) s := by
  refine ⟨Nat.zero_le _, ?_, hE⟩
  unfold Agree retailE
  simp only [List.take_zero, List.nil_append]
  exact envGet_addAt t w (Ne.symm ht) k s.env

/-- the run with the extra binding is the same run, and the result keeps the invariant -/
abbrev WSim {α} (t : String) (w : Value) (k : Nat) (C : List (Nat × String) → α → Prop) (s : ES)
    (p p' : R α) : Prop :=
  p' = (p.1, addT t w k p.2) ∧ Post C s p

abbrev WSimC {α} (t : String) (w : Value) (k : Nat) (C : List (Nat × String) → α → Prop) (s : ES)
    (p p' : R α) : Prop :=
  p' = (p.1, addT t w k p.2) ∧ PostC C s p

theorem wsimC_of_simC {α} {C : List (Nat × String) → α → Prop} {t : String} {w : Value} {k : Nat} {s : ES}
    {p p' : R α} (h : SimC 0 (addAt t w k s.env) C s p p') : WSimC t w k C s p p' := by
  obtain ⟨e, P⟩ := h
  refine ⟨?_, P⟩
  rw [e]
  simp [retail, retailE, addT, P.env]

/-- calling a closed function value with closed arguments from a closed caller: the extra
    binding in the caller's chain is not seen -/
theorem callFn_addT (ops : NumOps) {t : String} (w : Value) (ht : t ≠ "inputs") (fuel : Nat) (fv this : Value)
    (args : List Value) (depth k : Nat) (s : ES) (hE : ClosedE s.names s.env) (hf : ClosedV s.names fv)
    (hth : ClosedV s.names this) (ha : ClosedL s.names args) :
    WSimC t w k ClosedV s (callFn ops fuel fv this args depth s)
      (callFn ops fuel fv this args depth (addT t w k s)) := by
  have h := (coin ops (addAt t w k s.env) fuel).callFn fv this args depth 0 s (sok_addT w ht k s hE) hf hth ha
  rw [retail_zero_addAt] at h
  exact wsimC_of_simC h

theorem evalBin_addT (ops : NumOps) {t : String} (w : Value) (ht : t ≠ "inputs") (fuel depth : Nat) (op : BinOp)
    (a b : Value) (k : Nat) (s : ES) (hE : ClosedE s.names s.env) (ha : ClosedV s.names a)
    (hb : ClosedV s.names b) :
    WSimC t w k ClosedV s (evalBin ops fuel depth op a b s) (evalBin ops fuel depth op a b (addT t w k s)) := by
  have h := (coin ops (addAt t w k s.env) fuel).evalBin depth op a b 0 s (sok_addT w ht k s hE) ha hb
  rw [retail_zero_addAt] at h
  exact wsimC_of_simC h

/-! ### what "the expression does not use the name" has to mean -/

mutual
/-- `t` is used by `e` at the level `e` itself is evaluated: read as an identifier or shorthand
    key, assigned, or free in a function created by `e` (then it would be captured).  Unlike
    `mentions`, parameters and the inside of function bodies do not count: `(t) => t + 1` and
    `(x) => do { t = x; return t }` do not touch `t`. (`#field` counts as `inputs`.) -/
def touches (t : String) : Expr → Bool
  | .ident n => n == t
  | .inref _ => t == "inputs"
  | .lambda args body => (freeVars (args.map LArg.name) body).contains t
  | .assign n v => n == t || touches t v
  | .bin _ l r => touches t l || touches t r
  | .un _ e => touches t e
  | .fact e => touches t e
  | .spread e => touches t e
  | .output e => touches t e
  | .call f args => touches t f || touchesList t args
  | .access e i => touches t e || touches t i
  | .dot e _ => touches t e
  | .cond c a b => touches t c || touches t a || touches t b
  | .list items => touchesItems t items
  | .record es => touchesEntries t es
  | .doBlock stmts ret => touchesItems t stmts || touchesItem t ret
  | _ => false
def touchesList (t : String) : List Expr → Bool
  | [] => false
  | e :: es => touches t e || touchesList t es
def touchesItem (t : String) : Item → Bool
  | .mk _ e _ => touches t e
def touchesItems (t : String) : List Item → Bool
  | [] => false
  | i :: is => touchesItem t i || touchesItems t is
def touchesEntry (t : String) : Entry → Bool
  | .mk _ k v _ => touchesKey t k || touches t v
def touchesEntries (t : String) : List Entry → Bool
  | [] => false
  | e :: es => touchesEntry t e || touchesEntries t es
def touchesKey (t : String) : Key → Bool
  | .static _ => false
  | .dyn e => touches t e
  | .short n => n == t
  | .spread e => touches t e
end

mutual
/-- a name that is not mentioned at all is not touched -/
theorem touches_of_mentions (t : String) : ∀ (e : Expr), mentions t e = false → touches t e = false
  | .num _, _ | .str _, _ | .bool _, _ | .null, _ | .builtin _, _ => by simp [touches]
  | .ident n, h => by simpa [mentions, touches] using h
  | .inref _, h => by simpa [mentions, touches] using h
  | .lambda args body, h => by
    simp only [mentions, Bool.or_eq_false_iff] at h
    simp only [touches]
    cases hc : (freeVars (args.map LArg.name) body).contains t with
    | false => rfl
    | true =>
      have := freeVars_mentions body _ t (by simpa using hc)
      rw [h.2] at this; cases this
  | .assign n v, h => by
    simp only [mentions, Bool.or_eq_false_iff] at h
    simp [touches, h.1, touches_of_mentions t v h.2]
  | .bin _ l r, h => by
    simp only [mentions, Bool.or_eq_false_iff] at h
    simp [touches, touches_of_mentions t l h.1, touches_of_mentions t r h.2]
  | .un _ e, h => by simp only [mentions] at h; simp [touches, touches_of_mentions t e h]
  | .fact e, h => by simp only [mentions] at h; simp [touches, touches_of_mentions t e h]
  | .spread e, h => by simp only [mentions] at h; simp [touches, touches_of_mentions t e h]
  | .output e, h => by simp only [mentions] at h; simp [touches, touches_of_mentions t e h]
  | .dot e _, h => by simp only [mentions] at h; simp [touches, touches_of_mentions t e h]
  | .call f args, h => by
    simp only [mentions, Bool.or_eq_false_iff] at h
    simp [touches, touches_of_mentions t f h.1, touchesList_of_mentions t args h.2]
  | .access e i, h => by
    simp only [mentions, Bool.or_eq_false_iff] at h
    simp [touches, touches_of_mentions t e h.1, touches_of_mentions t i h.2]
  | .cond c a b, h => by
    simp only [mentions, Bool.or_eq_false_iff] at h
    simp [touches, touches_of_mentions t c h.1.1, touches_of_mentions t a h.1.2, touches_of_mentions t b h.2]
  | .list items, h => by simp only [mentions] at h; simp [touches, touchesItems_of_mentions t items h]
  | .record es, h => by simp only [mentions] at h; simp [touches, touchesEntries_of_mentions t es h]
  | .doBlock stmts (.mk _ re _), h => by
    simp only [mentions, mentionsItem, Bool.or_eq_false_iff] at h
    simp [touches, touchesItem, touchesItems_of_mentions t stmts h.1, touches_of_mentions t re h.2]
theorem touchesList_of_mentions (t : String) : ∀ (es : List Expr), mentionsList t es = false →
    touchesList t es = false
  | [], _ => rfl
  | e :: es, h => by
    simp only [mentionsList, Bool.or_eq_false_iff] at h
    simp [touchesList, touches_of_mentions t e h.1, touchesList_of_mentions t es h.2]
theorem touchesItems_of_mentions (t : String) : ∀ (is : List Item), mentionsItems t is = false →
    touchesItems t is = false
  | [], _ => rfl
  | .mk _ e _ :: is, h => by
    simp only [mentionsItems, mentionsItem, Bool.or_eq_false_iff] at h
    simp [touchesItems, touchesItem, touches_of_mentions t e h.1, touchesItems_of_mentions t is h.2]
theorem touchesEntries_of_mentions (t : String) : ∀ (es : List Entry), mentionsEntries t es = false →
    touchesEntries t es = false
  | [], _ => rfl
  | .mk _ k v _ :: es, h => by
    simp only [mentionsEntries, mentionsEntry, Bool.or_eq_false_iff] at h
    have hk : touchesKey t k = false := by
      cases k with
      | static _ => rfl
      | short n => simpa [mentionsKey, touchesKey] using h.1.1
      | dyn ke => exact touches_of_mentions t ke (by simpa [mentionsKey] using h.1.1)
      | spread se => exact touches_of_mentions t se (by simpa [mentionsKey] using h.1.1)
    simp [touchesEntries, touchesEntry, hk, touches_of_mentions t v h.1.2, touchesEntries_of_mentions t es h.2]
end

/-! ### the invariant of the weakening induction -/

/-- what is assumed of a state: the frame that gets the extra binding exists, every value bound
    in the environment is closed -/
structure WOK (k : Nat) (s : ES) : Prop where
  len : k < s.env.length
  cl : ClosedE s.names s.env

theorem WOK.ne {k : Nat} {s : ES} (h : WOK k s) : s.env ≠ [] := by
  intro e; have := h.len; rw [e] at this; simp at this

theorem WOK.next {α} {C : List (Nat × String) → α → Prop} {k : Nat} {s : ES} {p : R α}
    (h : WOK k s) (hp : Post C s p) : WOK k p.2 :=
  ⟨by rw [hp.keys.below.length h.ne]; exact h.len, hp.cl⟩

structure Weak (ops : NumOps) (t : String) (w : Value) (fuel : Nat) : Prop where
  eval : ∀ depth e n k s, 0 < n → WOK k s → noOutput e = true → touches t e = false →
    FOK n s.env (FreeIn · e) →
    WSim t w k ClosedV s (eval ops fuel depth e s) (eval ops fuel depth e (addT t w k s))
  evalList : ∀ depth es n k s, 0 < n → WOK k s → noOutputList es = true → touchesList t es = false →
    FOK n s.env (FreeInList · es) →
    WSim t w k ClosedL s (evalList ops fuel depth es s) (evalList ops fuel depth es (addT t w k s))
  evalItems : ∀ depth is n k s, 0 < n → WOK k s → noOutputItems is = true → touchesItems t is = false →
    FOK n s.env (FreeInItems · is) →
    WSim t w k ClosedL s (evalItems ops fuel depth is s) (evalItems ops fuel depth is (addT t w k s))
  evalEntries : ∀ depth es acc n k s, 0 < n → WOK k s → noOutputEntries es = true →
    touchesEntries t es = false → FOK n s.env (FreeInEntries · es) → ClosedR s.names acc →
    WSim t w k ClosedR s (evalEntries ops fuel depth es acc s) (evalEntries ops fuel depth es acc (addT t w k s))
  evalDoStmt : ∀ depth e n k s, 0 < n → WOK k s → noOutput e = true → touches t e = false →
    FOK n s.env (FreeIn · e) →
    WSim t w k ClosedV s (evalDoStmt ops fuel depth e s) (evalDoStmt ops fuel depth e (addT t w k s))
  evalDo : ∀ depth stmts ret n k s, 0 < n → WOK k s → noOutputItems stmts = true → noOutputItem ret = true →
    touchesItems t stmts = false → touchesItem t ret = false → FOK n s.env (FreeInDo · stmts ret) →
    WSim t w k ClosedV s (evalDo ops fuel depth stmts ret s) (evalDo ops fuel depth stmts ret (addT t w k s))

section
variable {ops : NumOps} {t : String} {w : Value}

theorem wsim_fuel {α} {C : List (Nat × String) → α → Prop} {k : Nat} {s : ES} (hS : WOK k s) :
    WSim t w k C s (.fuel, s) (.fuel, addT t w k s) :=
  ⟨rfl, Post.same hS.cl (by intro _ h; cases h)⟩

theorem weak_zero : Weak ops t w 0 := by
  refine ⟨?_, ?_, ?_, ?_, ?_, ?_⟩
  · intro depth e n k s _ hS _ _ _; rw [eval, eval]; exact wsim_fuel hS
  · intro depth es n k s _ hS _ _ _; rw [evalList, evalList]; exact wsim_fuel hS
  · intro depth es n k s _ hS _ _ _; rw [evalItems, evalItems]; exact wsim_fuel hS
  · intro depth es acc n k s _ hS _ _ _ _; rw [evalEntries, evalEntries]; exact wsim_fuel hS
  · intro depth e n k s _ hS _ _ _; rw [evalDoStmt, evalDoStmt]; exact wsim_fuel hS
  · intro depth st ret n k s _ hS _ _ _ _ _; rw [evalDo, evalDo]; exact wsim_fuel hS

/-! ### lists of expressions, record entries -/

theorem weak_evalList {fuel : Nat} (ih : Weak ops t w fuel) (depth : Nat) (es : List Expr) (n k : Nat) (s : ES)
    (hn : 0 < n) (hS : WOK k s) (hw : noOutputList es = true) (hm : touchesList t es = false)
    (hF : FOK n s.env (FreeInList · es)) :
    WSim t w k ClosedL s (evalList ops (fuel + 1) depth es s) (evalList ops (fuel + 1) depth es (addT t w k s)) := by
  cases es with
  | nil => rw [evalList, evalList]; exact ⟨rfl, Post.same hS.cl (by intro v h; cases h; simp)⟩
  | cons e es =>
    simp only [noOutputList, Bool.and_eq_true] at hw
    simp only [touchesList, Bool.or_eq_false_iff] at hm
    rw [evalList, evalList]
    obtain ⟨e1, P1⟩ := ih.eval depth e n k s hn hS hw.1 hm.1 (hF.imp fun x hx => .head hx)
    rw [e1]; clear e1
    generalize eval ops fuel depth e s = p at P1 ⊢
    obtain ⟨r1, s1⟩ := p
    cases r1 with
    | ok v =>
      dsimp only
      obtain ⟨e2, P2⟩ := ih.evalList depth es n k s1 hn (hS.next P1) hw.2 hm.2
        ((hF.imp fun x hx => .tail hx).step hn hS.ne P1.keys)
      rw [e2]; clear e2
      generalize evalList ops fuel depth es s1 = q at P2 ⊢
      obtain ⟨r2, s2⟩ := q
      cases r2 with
      | ok vs =>
        refine ⟨rfl, (P1.trans P2).re ?_⟩
        intro v' hv'
        cases hv'
        exact closedL_cons.mpr ⟨(P1.val v rfl).mono P2.names, P2.val vs rfl⟩
      | _ => exact ⟨rfl, (P1.trans P2).re (by intro _ h; cases h)⟩
    | _ => exact ⟨rfl, P1.re (by intro _ h; cases h)⟩

theorem weak_evalItems {fuel : Nat} (ih : Weak ops t w fuel) (depth : Nat) (is : List Item) (n k : Nat) (s : ES)
    (hn : 0 < n) (hS : WOK k s) (hw : noOutputItems is = true) (hm : touchesItems t is = false)
    (hF : FOK n s.env (FreeInItems · is)) :
    WSim t w k ClosedL s (evalItems ops (fuel + 1) depth is s)
      (evalItems ops (fuel + 1) depth is (addT t w k s)) := by
  cases is with
  | nil => rw [evalItems, evalItems]; exact ⟨rfl, Post.same hS.cl (by intro v h; cases h; simp)⟩
  | cons i is =>
    obtain ⟨_, e, _⟩ := i
    simp only [noOutputItems, noOutputItem, Bool.and_eq_true] at hw
    simp only [touchesItems, touchesItem, Bool.or_eq_false_iff] at hm
    rw [evalItems, evalItems]
    obtain ⟨e1, P1⟩ := ih.eval depth e n k s hn hS hw.1 hm.1 (hF.imp fun x hx => .head hx)
    rw [e1]; clear e1
    generalize eval ops fuel depth e s = p at P1 ⊢
    obtain ⟨r1, s1⟩ := p
    cases r1 with
    | ok v =>
      dsimp only
      obtain ⟨e2, P2⟩ := ih.evalItems depth is n k s1 hn (hS.next P1) hw.2 hm.2
        ((hF.imp fun x hx => .tail hx).step hn hS.ne P1.keys)
      rw [e2]; clear e2
      generalize evalItems ops fuel depth is s1 = q at P2 ⊢
      obtain ⟨r2, s2⟩ := q
      cases r2 with
      | ok vs =>
        refine ⟨rfl, (P1.trans P2).re ?_⟩
        intro v' hv'
        cases hv'
        exact closedL_cons.mpr ⟨(P1.val v rfl).mono P2.names, P2.val vs rfl⟩
      | _ => exact ⟨rfl, (P1.trans P2).re (by intro _ h; cases h)⟩
    | _ => exact ⟨rfl, P1.re (by intro _ h; cases h)⟩

theorem weak_evalEntries {fuel : Nat} (ih : Weak ops t w fuel) (depth : Nat) (es : List Entry) (acc : Frame)
    (n k : Nat) (s : ES) (hn : 0 < n) (hS : WOK k s) (hw : noOutputEntries es = true)
    (hm : touchesEntries t es = false) (hF : FOK n s.env (FreeInEntries · es)) (hacc : ClosedR s.names acc) :
    WSim t w k ClosedR s (evalEntries ops (fuel + 1) depth es acc s)
      (evalEntries ops (fuel + 1) depth es acc (addT t w k s)) := by
  cases es with
  | nil => rw [evalEntries, evalEntries]; exact ⟨rfl, Post.same hS.cl (by intro v h; cases h; exact hacc)⟩
  | cons en es =>
    obtain ⟨_, key, value, _⟩ := en
    simp only [noOutputEntries, noOutputEntry, Bool.and_eq_true] at hw
    simp only [touchesEntries, touchesEntry, Bool.or_eq_false_iff] at hm
    have hFt : FOK n s.env (FreeInEntries · es) := hF.imp fun x hx => .tail hx
    cases key with
    | static kk =>
      rw [evalEntries, evalEntries]
      obtain ⟨e1, P1⟩ := ih.eval depth value n k s hn hS hw.1.2 hm.1.2 (hF.imp fun x hx => .head (.static hx))
      rw [e1]; clear e1
      generalize eval ops fuel depth value s = p at P1 ⊢
      obtain ⟨r1, s1⟩ := p
      cases r1 with
      | ok v =>
        dsimp only
        obtain ⟨e2, P2⟩ := ih.evalEntries depth es (insertAL kk v acc) n k s1 hn (hS.next P1) hw.2 hm.2
          (hFt.step hn hS.ne P1.keys) (closedR_insertAL (P1.val v rfl) (hacc.mono P1.names))
        rw [e2]
        exact ⟨rfl, P1.trans P2⟩
      | _ => exact ⟨rfl, P1.re (by intro _ h; cases h)⟩
    | dyn ke =>
      simp only [noOutputKey] at hw
      simp only [touchesKey] at hm
      rw [evalEntries, evalEntries]
      obtain ⟨e1, P1⟩ := ih.eval depth ke n k s hn hS hw.1.1 hm.1.1 (hF.imp fun x hx => .head (.dynK hx))
      rw [e1]; clear e1
      generalize eval ops fuel depth ke s = p at P1 ⊢
      obtain ⟨r1, s1⟩ := p
      cases r1 with
      | ok kv =>
        cases kv with
        | str ks =>
          dsimp only
          have hS1 := hS.next P1
          obtain ⟨e2, P2⟩ := ih.eval depth value n k s1 hn hS1 hw.1.2 hm.1.2
            ((hF.imp fun x hx => .head (.dynV hx)).step hn hS.ne P1.keys)
          rw [e2]; clear e2
          generalize eval ops fuel depth value s1 = q at P2 ⊢
          obtain ⟨r2, s2⟩ := q
          cases r2 with
          | ok v =>
            dsimp only
            have P12 := P1.trans P2
            obtain ⟨e3, P3⟩ := ih.evalEntries depth es (insertAL ks v acc) n k s2 hn (hS.next P12) hw.2 hm.2
              (hFt.step hn hS.ne P12.keys) (closedR_insertAL (P2.val v rfl) (hacc.mono P12.names))
            rw [e3]
            exact ⟨rfl, P12.trans P3⟩
          | _ => exact ⟨rfl, (P1.trans P2).re (by intro _ h; cases h)⟩
        | _ => exact ⟨rfl, P1.re (by intro _ h; cases h)⟩
      | _ => exact ⟨rfl, P1.re (by intro _ h; cases h)⟩
    | short nm =>
      simp only [touchesKey, beq_eq_false_iff_ne] at hm
      rw [evalEntries, evalEntries]
      have hg' : envGet (addT t w k s).env nm = envGet s.env nm := envGet_addAt t w hm.1.1 k s.env
      rw [hg']
      cases hg : envGet s.env nm with
      | none => exact ⟨rfl, Post.same hS.cl (by intro _ h; cases h)⟩
      | some v =>
        exact ih.evalEntries depth es (insertAL nm v acc) n k s hn hS hw.2 hm.2 hFt
          (closedR_insertAL (closed_envGet hS.cl hg) hacc)
    | spread se =>
      simp only [noOutputKey] at hw
      simp only [touchesKey] at hm
      rw [evalEntries, evalEntries]
      obtain ⟨e1, P1⟩ := ih.eval depth se n k s hn hS hw.1.1 hm.1.1 (hF.imp fun x hx => .head (.spread hx))
      rw [e1]; clear e1
      generalize eval ops fuel depth se s = p at P1 ⊢
      obtain ⟨r1, s1⟩ := p
      cases r1 with
      | ok sv =>
        have hS1 := hS.next P1
        have hF1 := hFt.step hn hS.ne P1.keys
        have hacc1 := hacc.mono P1.names
        cases sv with
        | spread inner =>
          obtain ⟨e2, P2⟩ := ih.evalEntries depth es (spreadIntoRecord acc inner) n k s1 hn hS1 hw.2 hm.2 hF1
            (closedR_spreadIntoRecord hacc1 (by simpa using P1.val _ rfl))
          dsimp only
          rw [e2]
          exact ⟨rfl, P1.trans P2⟩
        | _ =>
          obtain ⟨e2, P2⟩ := ih.evalEntries depth es acc n k s1 hn hS1 hw.2 hm.2 hF1 hacc1
          dsimp only
          rw [e2]
          exact ⟨rfl, P1.trans P2⟩
      | _ => exact ⟨rfl, P1.re (by intro _ h; cases h)⟩

/-! ### expressions -/

/-- the final state of an assignment, with the extra binding -/
theorem eq_assign_addT (k : Nat) (s1 : ES) (val : Value) (nm : String) (cv : Value) (hnt : nm ≠ t)
    (hk : k < s1.env.length) :
    ({ setNameIfLambda (addT t w k s1) nm cv with
        env := envInsert (setNameIfLambda (addT t w k s1) nm cv).env nm val } : ES) =
      addT t w k { setNameIfLambda s1 nm cv with env := envInsert (setNameIfLambda s1 nm cv).env nm val } := by
  rw [setNameIfLambda_addT]
  have hk2 : k < (setNameIfLambda s1 nm cv).env.length := by rw [setNameIfLambda_env]; exact hk
  generalize setNameIfLambda s1 nm cv = s2 at hk2
  simp only [addT, envInsert_addAt t w val hnt k s2.env hk2]

theorem weak_eval (ht : t ≠ "inputs") {fuel : Nat} (ih : Weak ops t w fuel) (depth : Nat) (e : Expr) (n k : Nat)
    (s : ES) (hn : 0 < n) (hS : WOK k s) (hw : noOutput e = true) (hm : touches t e = false)
    (hF : FOK n s.env (FreeIn · e)) :
    WSim t w k ClosedV s (eval ops (fuel + 1) depth e s) (eval ops (fuel + 1) depth e (addT t w k s)) := by
  have hE := hS.ne
  cases e with
  | num x => rw [eval, eval]; exact ⟨rfl, Post.same hS.cl (by intro v h; cases h; simp)⟩
  | str x => rw [eval, eval]; exact ⟨rfl, Post.same hS.cl (by intro v h; cases h; simp)⟩
  | bool x => rw [eval, eval]; exact ⟨rfl, Post.same hS.cl (by intro v h; cases h; simp)⟩
  | null => rw [eval, eval]; exact ⟨rfl, Post.same hS.cl (by intro v h; cases h; simp)⟩
  | builtin nm => rw [eval, eval]; exact ⟨rfl, Post.same hS.cl (by intro v h; cases h; simp)⟩
  | output inner => simp [noOutput] at hw
  | ident nm =>
    have hnt : nm ≠ t := by simpa [touches] using hm
    rw [eval, eval]
    split
    · exact ⟨rfl, Post.same hS.cl (by intro v h; cases h; simp)⟩
    split
    · exact ⟨rfl, Post.same hS.cl (by intro v h; cases h; simpa using closedR_constants)⟩
    have hg' : envGet (addT t w k s).env nm = envGet s.env nm := envGet_addAt t w hnt k s.env
    rw [hg']
    cases hg : envGet s.env nm with
    | none => exact ⟨rfl, Post.same hS.cl (by intro _ h; cases h)⟩
    | some v => exact ⟨rfl, Post.same hS.cl (by intro v' h; cases h; exact closed_envGet hS.cl hg)⟩
  | inref field =>
    rw [eval, eval]
    have hg' : envGet (addT t w k s).env "inputs" = envGet s.env "inputs" :=
      envGet_addAt t w (Ne.symm ht) k s.env
    rw [hg']
    cases hg : envGet s.env "inputs" with
    | none => exact ⟨rfl, Post.same hS.cl (by intro _ h; cases h)⟩
    | some v =>
      have hv := closed_envGet hS.cl hg
      cases v with
      | record r =>
        exact ⟨rfl, Post.same hS.cl (by intro v' h; cases h; exact closed_lookupAL_getD (by simpa using hv))⟩
      | _ => exact ⟨rfl, Post.same hS.cl (by intro _ h; cases h)⟩
  | un op inner =>
    simp only [noOutput] at hw
    simp only [touches] at hm
    rw [eval, eval]
    obtain ⟨e1, P1⟩ := ih.eval depth inner n k s hn hS hw hm (hF.imp fun x hx => .un hx)
    rw [e1]; clear e1
    generalize eval ops fuel depth inner s = p at P1 ⊢
    obtain ⟨r, s1⟩ := p
    cases r with
    | ok v =>
      dsimp only
      split <;> exact ⟨rfl, P1.re (by intro v h; cases h <;> simp)⟩
    | _ => exact ⟨rfl, P1.re (by intro _ h; cases h)⟩
  | fact inner =>
    simp only [noOutput] at hw
    simp only [touches] at hm
    rw [eval, eval]
    obtain ⟨e1, P1⟩ := ih.eval depth inner n k s hn hS hw hm (hF.imp fun x hx => .fact hx)
    rw [e1]; clear e1
    generalize eval ops fuel depth inner s = p at P1 ⊢
    obtain ⟨r, s1⟩ := p
    cases r with
    | ok v =>
      cases v with
      | num x =>
        dsimp only
        split <;> exact ⟨rfl, P1.re (by intro v h; cases h <;> simp)⟩
      | _ => exact ⟨rfl, P1.re (by intro _ h; cases h)⟩
    | _ => exact ⟨rfl, P1.re (by intro _ h; cases h)⟩
  | spread inner =>
    simp only [noOutput] at hw
    simp only [touches] at hm
    rw [eval, eval]
    obtain ⟨e1, P1⟩ := ih.eval depth inner n k s hn hS hw hm (hF.imp fun x hx => .spread hx)
    rw [e1]; clear e1
    generalize eval ops fuel depth inner s = p at P1 ⊢
    obtain ⟨r, s1⟩ := p
    cases r with
    | ok v =>
      have hv := P1.val v rfl
      cases v with
      | list l => exact ⟨rfl, P1.re (by intro v h; cases h; simpa using hv)⟩
      | str l => exact ⟨rfl, P1.re (by intro v h; cases h; simp)⟩
      | record l => exact ⟨rfl, P1.re (by intro v h; cases h; simpa using hv)⟩
      | _ => exact ⟨rfl, P1.re (by intro _ h; cases h)⟩
    | _ => exact ⟨rfl, P1.re (by intro _ h; cases h)⟩
  | dot inner field =>
    simp only [noOutput] at hw
    simp only [touches] at hm
    rw [eval, eval]
    obtain ⟨e1, P1⟩ := ih.eval depth inner n k s hn hS hw hm (hF.imp fun x hx => .dot hx)
    rw [e1]; clear e1
    generalize eval ops fuel depth inner s = p at P1 ⊢
    obtain ⟨r, s1⟩ := p
    cases r with
    | ok v =>
      have hv := P1.val v rfl
      cases v with
      | record l =>
        exact ⟨rfl, P1.re (by intro v h; cases h; exact closed_lookupAL_getD (by simpa using hv))⟩
      | _ => exact ⟨rfl, P1.re (by intro _ h; cases h)⟩
    | _ => exact ⟨rfl, P1.re (by intro _ h; cases h)⟩
  | cond c a b =>
    simp only [noOutput, Bool.and_eq_true] at hw
    simp only [touches, Bool.or_eq_false_iff] at hm
    rw [eval, eval]
    obtain ⟨e1, P1⟩ := ih.eval depth c n k s hn hS hw.1.1 hm.1.1 (hF.imp fun x hx => .condC hx)
    rw [e1]; clear e1
    generalize eval ops fuel depth c s = p at P1 ⊢
    obtain ⟨r, s1⟩ := p
    cases r with
    | ok v =>
      cases v with
      | bool bv =>
        cases bv
        · obtain ⟨e2, P2⟩ := ih.eval depth b n k s1 hn (hS.next P1) hw.2 hm.2
            ((hF.imp fun x hx => .condE hx).step hn hE P1.keys)
          dsimp only
          rw [e2]
          exact ⟨rfl, P1.trans P2⟩
        · obtain ⟨e2, P2⟩ := ih.eval depth a n k s1 hn (hS.next P1) hw.1.2 hm.1.2
            ((hF.imp fun x hx => .condT hx).step hn hE P1.keys)
          dsimp only
          rw [e2]
          exact ⟨rfl, P1.trans P2⟩
      | _ => exact ⟨rfl, P1.re (by intro _ h; cases h)⟩
    | _ => exact ⟨rfl, P1.re (by intro _ h; cases h)⟩
  | access e i =>
    simp only [noOutput, Bool.and_eq_true] at hw
    simp only [touches, Bool.or_eq_false_iff] at hm
    rw [eval, eval]
    obtain ⟨e1, P1⟩ := ih.eval depth e n k s hn hS hw.1 hm.1 (hF.imp fun x hx => .accessE hx)
    rw [e1]; clear e1
    generalize eval ops fuel depth e s = p at P1 ⊢
    obtain ⟨r1, s1⟩ := p
    cases r1 with
    | ok v =>
      dsimp only
      obtain ⟨e2, P2⟩ := ih.eval depth i n k s1 hn (hS.next P1) hw.2 hm.2
        ((hF.imp fun x hx => .accessI hx).step hn hE P1.keys)
      rw [e2]; clear e2
      generalize eval ops fuel depth i s1 = q at P2 ⊢
      obtain ⟨r2, s2⟩ := q
      cases r2 with
      | ok iv =>
        have hv := (P1.val v rfl).mono P2.names
        have P12 := P1.trans P2
        dsimp only
        repeat' split
        all_goals (
          refine ⟨rfl, P12.re ?_⟩
          intro _ h
          cases h
          all_goals first
            | (simp; done)
            | exact closed_lookupAL_getD (by simpa using hv)
            | exact closed_listGetD (by simpa using hv) _)
      | _ => exact ⟨rfl, (P1.trans P2).re (by intro _ h; cases h)⟩
    | _ => exact ⟨rfl, P1.re (by intro _ h; cases h)⟩
  | bin op l r =>
    simp only [noOutput, Bool.and_eq_true] at hw
    simp only [touches, Bool.or_eq_false_iff] at hm
    rw [eval, eval]
    obtain ⟨e1, P1⟩ := ih.eval depth l n k s hn hS hw.1 hm.1 (hF.imp fun x hx => .binL hx)
    rw [e1]; clear e1
    generalize eval ops fuel depth l s = p at P1 ⊢
    obtain ⟨r1, s1⟩ := p
    cases r1 with
    | ok a =>
      dsimp only
      have hS1 := hS.next P1
      obtain ⟨e2, P2⟩ := ih.eval depth r n k s1 hn hS1 hw.2 hm.2
        ((hF.imp fun x hx => .binR hx).step hn hE P1.keys)
      rw [e2]; clear e2
      generalize eval ops fuel depth r s1 = q at P2 ⊢
      obtain ⟨r2, s2⟩ := q
      cases r2 with
      | ok b =>
        dsimp only
        have P12 := P1.trans P2
        obtain ⟨e3, P3⟩ := evalBin_addT ops w ht fuel depth op a b k s2 (hS.next P12).cl
          ((P1.val a rfl).mono P2.names) (P2.val b rfl)
        rw [e3]
        exact ⟨rfl, P12.trans P3.toPost⟩
      | _ => exact ⟨rfl, (P1.trans P2).re (by intro _ h; cases h)⟩
    | _ => exact ⟨rfl, P1.re (by intro _ h; cases h)⟩
  | list items =>
    simp only [noOutput] at hw
    simp only [touches] at hm
    rw [eval, eval]
    obtain ⟨e1, P1⟩ := ih.evalItems depth items n k s hn hS hw hm (hF.imp fun x hx => .list hx)
    rw [e1]; clear e1
    generalize evalItems ops fuel depth items s = p at P1 ⊢
    obtain ⟨r, s1⟩ := p
    cases r with
    | ok vs =>
      exact ⟨rfl, P1.re (by intro v h; cases h; simpa using closedL_flattenSpreads (P1.val vs rfl))⟩
    | _ => exact ⟨rfl, P1.re (by intro _ h; cases h)⟩
  | record es =>
    simp only [noOutput] at hw
    simp only [touches] at hm
    rw [eval, eval]
    obtain ⟨e1, P1⟩ := ih.evalEntries depth es [] n k s hn hS hw hm (hF.imp fun x hx => .record hx) (by simp)
    rw [e1]; clear e1
    generalize evalEntries ops fuel depth es [] s = p at P1 ⊢
    obtain ⟨r, s1⟩ := p
    cases r with
    | ok vs => exact ⟨rfl, P1.re (by intro v h; cases h; simpa using P1.val vs rfl)⟩
    | _ => exact ⟨rfl, P1.re (by intro _ h; cases h)⟩
  | assign nm v =>
    simp only [noOutput] at hw
    simp only [touches, Bool.or_eq_false_iff, beq_eq_false_iff_ne] at hm
    have hcont : ∀ s : ES, alreadyDefined depth (addT t w k s).env nm = alreadyDefined depth s.env nm :=
      fun s => alreadyDefined_addAt t w hm.1 depth k s.env
    rw [eval, eval, hcont s]
    split
    · exact ⟨rfl, Post.same hS.cl (by intro _ h; cases h)⟩
    split
    · exact ⟨rfl, Post.same hS.cl (by intro _ h; cases h)⟩
    split
    · exact ⟨rfl, Post.same hS.cl (by intro _ h; cases h)⟩
    obtain ⟨e1, P1⟩ := ih.eval depth v n k s hn hS hw hm.2 (hF.imp fun x hx => .assign hx)
    rw [e1]; clear e1
    generalize eval ops fuel depth v s = p at P1 ⊢
    obtain ⟨r, s1⟩ := p
    cases r with
    | ok val =>
      dsimp only
      rw [hcont s1]
      split
      · exact ⟨rfl, P1.re (by intro _ h; cases h)⟩
      · simp only [show (addT t w k s).nextId = s.nextId from rfl]
        exact ⟨by rw [eq_assign_addT k s1 val nm _ hm.1 (hS.next P1).len], post_assign nm _ P1⟩
    | _ => exact ⟨rfl, P1.re (by intro _ h; cases h)⟩
  | lambda args body =>
    simp only [noOutput] at hw
    simp only [touches] at hm
    rw [eval, eval]
    split
    · exact ⟨rfl, Post.same hS.cl (by intro _ h; cases h)⟩
    have hcap : captureScope (addT t w k s).env (freeVars (args.map LArg.name) body) =
        captureScope s.env (freeVars (args.map LArg.name) body) := by
      unfold captureScope
      apply captureScope_congr
      intro y hy
      have hyt : y ≠ t := by
        intro e; subst e
        have : (freeVars (args.map LArg.name) body).contains y = true := by simpa using hy
        rw [hm] at this; cases this
      exact envGet_addAt t w hyt k s.env
    simp only [hcap]
    refine ⟨rfl, KeysExt.refl _, NamesLe.refl _, hS.cl, ?_⟩
    intro v hv
    cases hv
    rw [closedV_lambda]
    refine ⟨?_, hw, closedR_captureScope hS.cl _⟩
    intro x hx
    by_cases hxa : x ∈ args.map LArg.name
    · exact Or.inl hxa
    · rcases hF x (.lambda hx hxa) with h | h
      · exact Or.inr (Or.inr (Or.inr h))
      · refine Or.inr (Or.inl ?_)
        have hfv : x ∈ freeVars (args.map LArg.name) body :=
          (freeVars_iff body _ x hw).mpr ⟨hx, hxa⟩
        show (lookupAL x (captureScope s.env (freeVars (args.map LArg.name) body))).isSome
        rw [captureScope_lookup, if_pos hfv]
        exact h.get
  | doBlock stmts ret =>
    simp only [noOutput, Bool.and_eq_true] at hw
    simp only [touches, Bool.or_eq_false_iff] at hm
    rw [eval, eval]
    have hS1 : WOK (k + 1) { s with env := [] :: s.env } :=
      ⟨by simp; exact hS.len, closedE_cons.mpr ⟨by simp, hS.cl⟩⟩
    obtain ⟨e1, P1⟩ := ih.evalDo depth stmts ret (n + 1) (k + 1) { s with env := [] :: s.env } (by omega) hS1
      hw.1 hw.2 hm.1 hm.2 ((hF.imp fun x hx => .doBlock hx).push [])
    have e0 : ({ addT t w k s with env := [] :: (addT t w k s).env } : ES) =
        addT t w (k + 1) { s with env := [] :: s.env } := rfl
    rw [e0, e1]; clear e1
    have hsb := (evalDo_keys ops fuel depth stmts ret { s with env := [] :: s.env }).below
    have hdrop := hsb.drop_push
    generalize evalDo ops fuel depth stmts ret { s with env := [] :: s.env } = p at P1 hdrop ⊢
    obtain ⟨r, s1⟩ := p
    refine ⟨by simp only [addT, addAt_drop], ?_, P1.names, closedE_drop P1.cl 1, P1.val⟩
    show KeysExt s.env (s1.env.drop 1)
    rw [hdrop]
    exact KeysExt.refl _
  | call f args =>
    simp only [noOutput, Bool.and_eq_true] at hw
    simp only [touches, Bool.or_eq_false_iff] at hm
    rw [eval, eval]
    obtain ⟨e1, P1⟩ := ih.eval depth f n k s hn hS hw.1 hm.1 (hF.imp fun x hx => .callF hx)
    rw [e1]; clear e1
    generalize eval ops fuel depth f s = p at P1 ⊢
    obtain ⟨r1, s1⟩ := p
    cases r1 with
    | ok fv =>
      dsimp only
      obtain ⟨e2, P2⟩ := ih.evalList depth args n k s1 hn (hS.next P1) hw.2 hm.2
        ((hF.imp fun x hx => .callA hx).step hn hE P1.keys)
      rw [e2]; clear e2
      generalize evalList ops fuel depth args s1 = q at P2 ⊢
      obtain ⟨r2, s2⟩ := q
      cases r2 with
      | ok raw =>
        dsimp only
        have P12 := P1.trans P2
        split
        · exact ⟨rfl, P12.re (by intro _ h; cases h)⟩
        · have hfv := (P1.val fv rfl).mono P2.names
          obtain ⟨e3, P3⟩ := callFn_addT ops w ht fuel fv fv (flattenSpreads raw) depth k s2 (hS.next P12).cl
            hfv hfv (closedL_flattenSpreads (P2.val raw rfl))
          rw [e3]
          exact ⟨rfl, P12.trans P3.toPost⟩
      | _ => exact ⟨rfl, (P1.trans P2).re (by intro _ h; cases h)⟩
    | _ => exact ⟨rfl, P1.re (by intro _ h; cases h)⟩

/-! ### do-blocks -/

theorem weak_evalDoStmt {fuel : Nat} (ih : Weak ops t w fuel) (depth : Nat) (e : Expr) (n k : Nat) (s : ES)
    (hn : 0 < n) (hS : WOK k s) (hw : noOutput e = true) (hm : touches t e = false)
    (hF : FOK n s.env (FreeIn · e)) :
    WSim t w k ClosedV s (evalDoStmt ops (fuel + 1) depth e s)
      (evalDoStmt ops (fuel + 1) depth e (addT t w k s)) := by
  rw [evalDoStmt.eq_def, evalDoStmt.eq_def]
  dsimp only
  cases e with
  | assign nm v =>
    simp only [noOutput] at hw
    simp only [touches, Bool.or_eq_false_iff, beq_eq_false_iff_ne] at hm
    dsimp only
    split
    · exact ⟨rfl, Post.same hS.cl (by intro _ h; cases h)⟩
    obtain ⟨e1, P1⟩ := ih.eval depth v n k s hn hS hw hm.2 (hF.imp fun x hx => .assign hx)
    rw [e1]; clear e1
    generalize eval ops fuel depth v s = p at P1 ⊢
    obtain ⟨r, s1⟩ := p
    cases r with
    | ok val =>
      dsimp only
      simp only [show (addT t w k s).nextId = s.nextId from rfl]
      exact ⟨by rw [eq_assign_addT k s1 val nm _ hm.1 (hS.next P1).len], post_assign nm _ P1⟩
    | _ => exact ⟨rfl, P1.re (by intro _ h; cases h)⟩
  | _ => exact ih.eval depth _ n k s hn hS hw hm hF

theorem weak_evalDo {fuel : Nat} (ih : Weak ops t w fuel) (depth : Nat) (stmts : List Item) (ret : Item)
    (n k : Nat) (s : ES) (hn : 0 < n) (hS : WOK k s) (hw1 : noOutputItems stmts = true)
    (hw2 : noOutputItem ret = true) (hm1 : touchesItems t stmts = false) (hm2 : touchesItem t ret = false)
    (hF : FOK n s.env (FreeInDo · stmts ret)) :
    WSim t w k ClosedV s (evalDo ops (fuel + 1) depth stmts ret s)
      (evalDo ops (fuel + 1) depth stmts ret (addT t w k s)) := by
  cases stmts with
  | nil =>
    obtain ⟨_, e, _⟩ := ret
    rw [evalDo, evalDo]
    exact ih.evalDoStmt depth e n k s hn hS hw2 hm2 (hF.imp fun x hx => .ret hx)
  | cons i rest =>
    obtain ⟨_, e, _⟩ := i
    simp only [noOutputItems, noOutputItem, Bool.and_eq_true] at hw1
    simp only [touchesItems, touchesItem, Bool.or_eq_false_iff] at hm1
    rw [evalDo, evalDo]
    obtain ⟨e1, P1⟩ := ih.evalDoStmt depth e n k s hn hS hw1.1 hm1.1 (hF.imp fun x hx => .here hx)
    rw [e1]; clear e1
    have hb : ∀ val s1, evalDoStmt ops fuel depth e s = (.ok val, s1) →
        ∀ x v, e = .assign x v → (lookupAL x (s1.env.headD [])).isSome := by
      intro val s1 h x v he
      subst he
      exact evalDoStmt_assign_binds ops fuel depth x v s s1 val h
    generalize evalDoStmt ops fuel depth e s = p at P1 hb ⊢
    obtain ⟨r, s1⟩ := p
    cases r with
    | ok val =>
      dsimp only
      have hS1 := hS.next P1
      obtain ⟨e2, P2⟩ := ih.evalDo depth rest ret n k s1 hn hS1 hw1.2 hw2 hm1.2 hm2 (by
        intro x hx
        by_cases hbx : ∃ v, e = .assign x v
        · obtain ⟨v, hv⟩ := hbx
          have h1 := hb val s1 rfl x v hv
          have hne := hS1.ne
          obtain ⟨m, rfl⟩ : ∃ m, n = m + 1 := ⟨n - 1, by omega⟩
          cases hs1 : s1.env with
          | nil => exact absurd hs1 hne
          | cons f1 R =>
            rw [hs1] at h1
            exact Or.inr (InTop.of_top h1)
        · exact (hF x (.later hx (fun v hv => hbx ⟨v, hv⟩))).imp_right
            (InTop.mono hn hS.ne P1.keys))
      rw [e2]
      exact ⟨rfl, P1.trans P2⟩
    | _ => exact ⟨rfl, P1.re (by intro _ h; cases h)⟩

/-! ### the induction -/

theorem weak_succ (ht : t ≠ "inputs") {fuel : Nat} (ih : Weak ops t w fuel) : Weak ops t w (fuel + 1) :=
  ⟨weak_eval ht ih, weak_evalList ih, weak_evalItems ih, weak_evalEntries ih, weak_evalDoStmt ih, weak_evalDo ih⟩

theorem weak (ops : NumOps) {t : String} (w : Value) (ht : t ≠ "inputs") : ∀ fuel, Weak ops t w fuel
  | 0 => weak_zero
  | fuel + 1 => weak_succ ht (weak ops w ht fuel)

end

/-! ### "every free name is bound": `FOK` at the length of the chain -/

theorem fok_of_bound {E : List Frame} {P : String → Prop}
    (h : ∀ x, P x → x = "inputs" ∨ (envGet E x).isSome) : FOK E.length E P := by
  intro x hx
  refine (h x hx).imp_right ?_
  intro hb
  unfold InTop
  rw [List.take_length]
  exact hb

/-! ### definitions: creating a function evaluates nothing -/

theorem weak_lambda (ops : NumOps) {t : String} (w : Value) (fuel depth : Nat) (args : List LArg) (body : Expr)
    (k : Nat) (s : ES) (hm : touches t (.lambda args body) = false) :
    eval ops fuel depth (.lambda args body) (addT t w k s) =
      ((eval ops fuel depth (.lambda args body) s).1, addT t w k (eval ops fuel depth (.lambda args body) s).2) := by
  cases fuel with
  | zero => simp [eval]
  | succ fuel =>
    simp only [touches] at hm
    rw [eval, eval]
    split
    · rfl
    have : captureScope (addT t w k s).env (freeVars (args.map LArg.name) body) =
        captureScope s.env (freeVars (args.map LArg.name) body) := by
      unfold captureScope
      apply captureScope_congr
      intro y hy
      have hyt : y ≠ t := by
        intro e; subst e
        have : (freeVars (args.map LArg.name) body).contains y = true := by simpa using hy
        rw [hm] at this; cases this
      exact envGet_addAt t w hyt k s.env
    simp only [this]
    rfl

theorem weak_definition (ops : NumOps) {t : String} (w : Value) (fuel depth : Nat) (nm : String)
    (args : List LArg) (body : Expr) (k : Nat) (s : ES) (hk : k < s.env.length)
    (hm : touches t (.assign nm (.lambda args body)) = false) :
    eval ops fuel depth (.assign nm (.lambda args body)) (addT t w k s) =
      ((eval ops fuel depth (.assign nm (.lambda args body)) s).1,
       addT t w k (eval ops fuel depth (.assign nm (.lambda args body)) s).2) := by
  cases fuel with
  | zero => simp [eval]
  | succ fuel =>
    rw [touches, Bool.or_eq_false_iff, beq_eq_false_iff_ne] at hm
    have hcont : ∀ s : ES, alreadyDefined depth (addT t w k s).env nm = alreadyDefined depth s.env nm :=
      fun s => alreadyDefined_addAt t w hm.1 depth k s.env
    rw [eval, eval, hcont]
    split
    · rfl
    split
    · rfl
    split
    · rfl
    rw [weak_lambda ops w fuel depth args body k s hm.2]
    have hk1 : k < (eval ops fuel depth (.lambda args body) s).2.env.length :=
      len_of_ext (eval_topExt ops fuel depth _ s).below hk
    generalize eval ops fuel depth (.lambda args body) s = p at hk1 ⊢
    obtain ⟨r, s1⟩ := p
    cases r <;> try rfl
    dsimp only
    rw [hcont]
    split
    · rfl
    · rename_i val _
      simp only [show (addT t w k s).nextId = s.nextId from rfl]
      rw [eq_assign_addT k s1 val nm _ hm.1 hk1]

/-! ### evaluating twice: an evaluation that allocates no function cell leaves the state as it was -/

mutual
/-- no assignment that could write the current frame: `.assign` only inside function bodies
    (run in the call's own frames) or do-blocks (whose frame is dropped afterwards) -/
def assignFree : Expr → Bool
  | .assign _ _ => false
  | .lambda _ _ => true
  | .doBlock _ _ => true
  | .bin _ l r => assignFree l && assignFree r
  | .un _ e => assignFree e
  | .fact e => assignFree e
  | .spread e => assignFree e
  | .output e => assignFree e
  | .call f args => assignFree f && assignFreeList args
  | .access e i => assignFree e && assignFree i
  | .dot e _ => assignFree e
  | .cond c a b => assignFree c && assignFree a && assignFree b
  | .list items => assignFreeItems items
  | .record es => assignFreeEntries es
  | _ => true
def assignFreeList : List Expr → Bool
  | [] => true
  | e :: es => assignFree e && assignFreeList es
def assignFreeItem : Item → Bool
  | .mk _ e _ => assignFree e
def assignFreeItems : List Item → Bool
  | [] => true
  | i :: is => assignFreeItem i && assignFreeItems is
def assignFreeEntry : Entry → Bool
  | .mk _ k v _ => assignFreeKey k && assignFree v
def assignFreeEntries : List Entry → Bool
  | [] => true
  | e :: es => assignFreeEntry e && assignFreeEntries es
def assignFreeKey : Key → Bool
  | .dyn e => assignFree e
  | .spread e => assignFree e
  | _ => true
end

/-- without such an assignment the environment is returned exactly as it was, whatever the
    outcome -/
theorem env_same_group (ops : NumOps) : ∀ fuel : Nat,
    (∀ depth e s, assignFree e = true → (eval ops fuel depth e s).2.env = s.env) ∧
    (∀ depth es s, assignFreeList es = true → (evalList ops fuel depth es s).2.env = s.env) ∧
    (∀ depth is s, assignFreeItems is = true → (evalItems ops fuel depth is s).2.env = s.env) ∧
    (∀ depth es acc s, assignFreeEntries es = true → (evalEntries ops fuel depth es acc s).2.env = s.env) := by
  intro fuel
  induction fuel with
  | zero => refine ⟨?_, ?_, ?_, ?_⟩ <;> intros <;> simp [eval, evalList, evalItems, evalEntries]
  | succ fuel ih =>
    obtain ⟨ihE, ihL, ihI, ihR⟩ := ih
    refine ⟨?_, ?_, ?_, ?_⟩
    · intro depth e s ha
      cases e with
      | assign n v => simp [assignFree] at ha
      | doBlock stmts ret =>
        rw [eval]
        have hsb := (evalDo_keys ops fuel depth stmts ret { s with env := [] :: s.env }).below
        have hdrop := hsb.drop_push
        generalize evalDo ops fuel depth stmts ret { s with env := [] :: s.env } = p at hdrop ⊢
        obtain ⟨r, s1⟩ := p
        exact hdrop
      | call f args =>
        simp only [assignFree, Bool.and_eq_true] at ha
        rw [eval]
        have h1 := ihE depth f s ha.1
        generalize eval ops fuel depth f s = p at h1 ⊢
        obtain ⟨r1, s1⟩ := p
        cases r1 with
        | ok fv =>
          dsimp only
          have h2 := ihL depth args s1 ha.2
          generalize evalList ops fuel depth args s1 = q at h2 ⊢
          obtain ⟨r2, s2⟩ := q
          cases r2 with
          | ok raw =>
            dsimp only
            split
            · exact h2.trans h1
            · rw [callFn_env]; exact h2.trans h1
          | _ => exact h2.trans h1
        | _ => exact h1
      | bin op l r =>
        simp only [assignFree, Bool.and_eq_true] at ha
        rw [eval]
        have h1 := ihE depth l s ha.1
        generalize eval ops fuel depth l s = p at h1 ⊢
        obtain ⟨r1, s1⟩ := p
        cases r1 with
        | ok a =>
          dsimp only
          have h2 := ihE depth r s1 ha.2
          generalize eval ops fuel depth r s1 = q at h2 ⊢
          obtain ⟨r2, s2⟩ := q
          cases r2 with
          | ok b => dsimp only; rw [evalBin_env]; exact h2.trans h1
          | _ => exact h2.trans h1
        | _ => exact h1
      | _ =>
        simp only [assignFree, Bool.and_eq_true] at ha
        rw [eval]
        repeat' split
        all_goals grind
    · intro depth es s ha
      cases es with
      | nil => simp [evalList]
      | cons e es =>
        simp only [assignFreeList, Bool.and_eq_true] at ha
        rw [evalList]
        repeat' split
        all_goals grind
    · intro depth is s ha
      cases is with
      | nil => simp [evalItems]
      | cons i is =>
        obtain ⟨_, e, _⟩ := i
        simp only [assignFreeItems, assignFreeItem, Bool.and_eq_true] at ha
        rw [evalItems]
        repeat' split
        all_goals grind
    · intro depth es acc s ha
      cases es with
      | nil => simp [evalEntries]
      | cons en es =>
        obtain ⟨_, key, value, _⟩ := en
        simp only [assignFreeEntries, assignFreeEntry, Bool.and_eq_true] at ha
        cases key <;> simp only [assignFreeKey] at ha <;> rw [evalEntries] <;> repeat' split
        all_goals grind

theorem eval_env_same (ops : NumOps) (fuel depth : Nat) (e : Expr) (s : ES) (ha : assignFree e = true) :
    (eval ops fuel depth e s).2.env = s.env := (env_same_group ops fuel).1 depth e s ha

/-- in a well-formed state (`StateOk`: every function cell in use and every named cell is below
    the counter) an evaluation that allocates no cell gives no name -/
theorem names_same_of_no_cell {s s' : ES} (hn : NamesExt s s') (hs' : StateOk s') (hid : s'.nextId = s.nextId) :
    s'.names = s.names := by
  obtain ⟨_, new, e, f⟩ := hn
  have : new = [] := by
    rw [List.eq_nil_iff_forall_not_mem]
    intro p hp
    have h1 := (f p hp).1
    have h2 := hs'.names p (by rw [e]; exact List.mem_append_left _ hp)
    omega
  rw [e, this]; rfl

/-- evaluation without a frame-level assignment that allocates no function cell returns the
    state exactly as it was -/
theorem eval_state_same (ops : NumOps) (fuel depth : Nat) (e : Expr) (s : ES) (hs : StateOk s)
    (ha : assignFree e = true) (hid : (eval ops fuel depth e s).2.nextId = s.nextId) :
    (eval ops fuel depth e s).2 = s := by
  have h1 := eval_env_same ops fuel depth e s ha
  have h3 := names_same_of_no_cell (eval_names ops fuel depth e s) (eval_fresh ops fuel depth e s hs).1 hid
  generalize (eval ops fuel depth e s).2 = s1 at h1 h3 hid
  cases s1; cases s
  simp only at h1 h3 hid
  subst h1 h3 hid
  rfl

/-! ### let-abstraction of the subexpression that is evaluated first -/

section letabs
variable {ops : NumOps} {t : String} {v : Value}

/-- `e2`, evaluated with the extra binding `t ↦ v` in the innermost frame, runs as `e1` evaluated
    without it: same outcome, same final state up to the extra binding; and the result of `e1`
    keeps the closedness invariant -/
abbrev LSim (ops : NumOps) (t : String) (v : Value) (fuel depth : Nat) (s : ES) (e1 e2 : Expr) : Prop :=
  WSim t v 0 ClosedV s (eval ops fuel depth e1 s) (eval ops fuel depth e2 (addT t v 0 s))

/-- the hole: `e'` evaluates to `v` and leaves the state as it was; the name `t`, bound to `v`,
    evaluates to `v` -/
theorem lsim_hole (ht : t ≠ "inputs") (hsp : t ∉ Gen.specialIdents) {fuel depth n : Nat} {s : ES} {e' : Expr}
    (hn : 0 < n) (hS : WOK 0 s) (hw : noOutput e' = true) (hm : touches t e' = false)
    (hF : FOK n s.env (FreeIn · e')) (h0 : eval ops fuel depth e' s = (.ok v, s)) :
    LSim ops t v fuel depth s e' (.ident t) := by
  have P := ((weak ops v ht fuel).eval depth e' n 0 s hn hS hw hm hF).2
  refine ⟨?_, P⟩
  rw [h0]
  cases fuel with
  | zero => simp [eval] at h0
  | succ fuel =>
    simp only [Gen.specialIdents, List.mem_cons, List.not_mem_nil, or_false, not_or] at hsp
    have hg : envGet (addT t v 0 s).env t = some v := by
      cases hs : s.env with
      | nil => exact absurd hs hS.ne
      | cons f r => simp [addT, hs, addAt, envGet, lookupAL]
    rw [eval]
    simp [hsp.1, hsp.2.1, hsp.2.2, hg]

section congr
variable (ht : t ≠ "inputs") {f depth n : Nat} {s : ES} {p1 p2 : Expr} (hn : 0 < n) (hS : WOK 0 s)
  (ih : LSim ops t v f depth s p1 p2)
include ht hn hS ih

omit ht hn hS in
theorem lsim_un (op : UnOp) : LSim ops t v (f + 1) depth s (.un op p1) (.un op p2) := by
  show WSim _ _ _ _ _ _ _
  rw [eval, eval]
  obtain ⟨e1, P1⟩ := ih
  rw [e1]; clear e1
  generalize eval ops f depth p1 s = p at P1 ⊢
  obtain ⟨r, s1⟩ := p
  cases r with
  | ok v =>
    dsimp only
    split <;> exact ⟨rfl, P1.re (by intro v h; cases h <;> simp)⟩
  | _ => exact ⟨rfl, P1.re (by intro _ h; cases h)⟩

omit ht hn hS in
theorem lsim_fact : LSim ops t v (f + 1) depth s (.fact p1) (.fact p2) := by
  show WSim _ _ _ _ _ _ _
  rw [eval, eval]
  obtain ⟨e1, P1⟩ := ih
  rw [e1]; clear e1
  generalize eval ops f depth p1 s = p at P1 ⊢
  obtain ⟨r, s1⟩ := p
  cases r with
  | ok v =>
    cases v with
    | num x =>
      dsimp only
      split <;> exact ⟨rfl, P1.re (by intro v h; cases h <;> simp)⟩
    | _ => exact ⟨rfl, P1.re (by intro _ h; cases h)⟩
  | _ => exact ⟨rfl, P1.re (by intro _ h; cases h)⟩

omit ht hn hS in
theorem lsim_dot (field : String) : LSim ops t v (f + 1) depth s (.dot p1 field) (.dot p2 field) := by
  show WSim _ _ _ _ _ _ _
  rw [eval, eval]
  obtain ⟨e1, P1⟩ := ih
  rw [e1]; clear e1
  generalize eval ops f depth p1 s = p at P1 ⊢
  obtain ⟨r, s1⟩ := p
  cases r with
  | ok v =>
    have hv := P1.val v rfl
    cases v with
    | record l =>
      exact ⟨rfl, P1.re (by intro v h; cases h; exact closed_lookupAL_getD (by simpa using hv))⟩
    | _ => exact ⟨rfl, P1.re (by intro _ h; cases h)⟩
  | _ => exact ⟨rfl, P1.re (by intro _ h; cases h)⟩

theorem lsim_binL (op : BinOp) {r : Expr} (hw : noOutput r = true) (hm : touches t r = false)
    (hF : FOK n s.env (FreeIn · r)) : LSim ops t v (f + 1) depth s (.bin op p1 r) (.bin op p2 r) := by
  have W := weak ops v ht f
  have hE := hS.ne
  show WSim _ _ _ _ _ _ _
  rw [eval, eval]
  obtain ⟨e1, P1⟩ := ih
  rw [e1]; clear e1
  generalize eval ops f depth p1 s = p at P1 ⊢
  obtain ⟨r1, s1⟩ := p
  cases r1 with
  | ok a =>
    dsimp only
    have hS1 := hS.next P1
    obtain ⟨e2, P2⟩ := W.eval depth r n 0 s1 hn hS1 hw hm (hF.step hn hE P1.keys)
    rw [e2]; clear e2
    generalize eval ops f depth r s1 = q at P2 ⊢
    obtain ⟨r2, s2⟩ := q
    cases r2 with
    | ok b =>
      dsimp only
      have P12 := P1.trans P2
      obtain ⟨e3, P3⟩ := evalBin_addT ops v ht f depth op a b 0 s2 (hS.next P12).cl
        ((P1.val a rfl).mono P2.names) (P2.val b rfl)
      rw [e3]
      exact ⟨rfl, P12.trans P3.toPost⟩
    | _ => exact ⟨rfl, (P1.trans P2).re (by intro _ h; cases h)⟩
  | _ => exact ⟨rfl, P1.re (by intro _ h; cases h)⟩

theorem lsim_access {i : Expr} (hw : noOutput i = true) (hm : touches t i = false)
    (hF : FOK n s.env (FreeIn · i)) : LSim ops t v (f + 1) depth s (.access p1 i) (.access p2 i) := by
  have W := weak ops v ht f
  have hE := hS.ne
  show WSim _ _ _ _ _ _ _
  rw [eval, eval]
  obtain ⟨e1, P1⟩ := ih
  rw [e1]; clear e1
  generalize eval ops f depth p1 s = p at P1 ⊢
  obtain ⟨r1, s1⟩ := p
  cases r1 with
  | ok v =>
    dsimp only
    obtain ⟨e2, P2⟩ := W.eval depth i n 0 s1 hn (hS.next P1) hw hm (hF.step hn hE P1.keys)
    rw [e2]; clear e2
    generalize eval ops f depth i s1 = q at P2 ⊢
    obtain ⟨r2, s2⟩ := q
    cases r2 with
    | ok iv =>
      have hv := (P1.val v rfl).mono P2.names
      have P12 := P1.trans P2
      dsimp only
      repeat' split
      all_goals (
        refine ⟨rfl, P12.re ?_⟩
        intro _ h
        cases h
        all_goals first
          | (simp; done)
          | exact closed_lookupAL_getD (by simpa using hv)
          | exact closed_listGetD (by simpa using hv) _)
    | _ => exact ⟨rfl, (P1.trans P2).re (by intro _ h; cases h)⟩
  | _ => exact ⟨rfl, P1.re (by intro _ h; cases h)⟩

theorem lsim_cond {a b : Expr} (hwa : noOutput a = true) (hwb : noOutput b = true)
    (hma : touches t a = false) (hmb : touches t b = false)
    (hFa : FOK n s.env (FreeIn · a)) (hFb : FOK n s.env (FreeIn · b)) :
    LSim ops t v (f + 1) depth s (.cond p1 a b) (.cond p2 a b) := by
  have W := weak ops v ht f
  have hE := hS.ne
  show WSim _ _ _ _ _ _ _
  rw [eval, eval]
  obtain ⟨e1, P1⟩ := ih
  rw [e1]; clear e1
  generalize eval ops f depth p1 s = p at P1 ⊢
  obtain ⟨r, s1⟩ := p
  cases r with
  | ok cv =>
    cases cv with
    | bool bv =>
      cases bv
      · obtain ⟨e2, P2⟩ := W.eval depth b n 0 s1 hn (hS.next P1) hwb hmb (hFb.step hn hE P1.keys)
        dsimp only
        rw [e2]
        exact ⟨rfl, P1.trans P2⟩
      · obtain ⟨e2, P2⟩ := W.eval depth a n 0 s1 hn (hS.next P1) hwa hma (hFa.step hn hE P1.keys)
        dsimp only
        rw [e2]
        exact ⟨rfl, P1.trans P2⟩
    | _ => exact ⟨rfl, P1.re (by intro _ h; cases h)⟩
  | _ => exact ⟨rfl, P1.re (by intro _ h; cases h)⟩

omit ht hn in
theorem lsim_assign {nm : String} (hnt : nm ≠ t) :
    LSim ops t v (f + 1) depth s (.assign nm p1) (.assign nm p2) := by
  have hcont : ∀ s : ES, alreadyDefined depth (addT t v 0 s).env nm = alreadyDefined depth s.env nm :=
    fun s => alreadyDefined_addAt t v hnt depth 0 s.env
  show WSim _ _ _ _ _ _ _
  rw [eval, eval, hcont s]
  split
  · exact ⟨rfl, Post.same hS.cl (by intro _ h; cases h)⟩
  split
  · exact ⟨rfl, Post.same hS.cl (by intro _ h; cases h)⟩
  split
  · exact ⟨rfl, Post.same hS.cl (by intro _ h; cases h)⟩
  obtain ⟨e1, P1⟩ := ih
  rw [e1]; clear e1
  generalize eval ops f depth p1 s = p at P1 ⊢
  obtain ⟨r, s1⟩ := p
  cases r with
  | ok val =>
    dsimp only
    rw [hcont s1]
    split
    · exact ⟨rfl, P1.re (by intro _ h; cases h)⟩
    · simp only [show (addT t v 0 s).nextId = s.nextId from rfl]
      exact ⟨by rw [eq_assign_addT 0 s1 val nm _ hnt (hS.next P1).len], post_assign nm _ P1⟩
  | _ => exact ⟨rfl, P1.re (by intro _ h; cases h)⟩

theorem lsim_callF {args : List Expr} (hw : noOutputList args = true) (hm : touchesList t args = false)
    (hF : FOK n s.env (FreeInList · args)) : LSim ops t v (f + 1) depth s (.call p1 args) (.call p2 args) := by
  have W := weak ops v ht f
  have hE := hS.ne
  show WSim _ _ _ _ _ _ _
  rw [eval, eval]
  obtain ⟨e1, P1⟩ := ih
  rw [e1]; clear e1
  generalize eval ops f depth p1 s = p at P1 ⊢
  obtain ⟨r1, s1⟩ := p
  cases r1 with
  | ok fv =>
    dsimp only
    obtain ⟨e2, P2⟩ := W.evalList depth args n 0 s1 hn (hS.next P1) hw hm (hF.step hn hE P1.keys)
    rw [e2]; clear e2
    generalize evalList ops f depth args s1 = q at P2 ⊢
    obtain ⟨r2, s2⟩ := q
    cases r2 with
    | ok raw =>
      dsimp only
      have P12 := P1.trans P2
      split
      · exact ⟨rfl, P12.re (by intro _ h; cases h)⟩
      · have hfv := (P1.val fv rfl).mono P2.names
        obtain ⟨e3, P3⟩ := callFn_addT ops v ht f fv fv (flattenSpreads raw) depth 0 s2 (hS.next P12).cl
          hfv hfv (closedL_flattenSpreads (P2.val raw rfl))
        rw [e3]
        exact ⟨rfl, P12.trans P3.toPost⟩
    | _ => exact ⟨rfl, (P1.trans P2).re (by intro _ h; cases h)⟩
  | _ => exact ⟨rfl, P1.re (by intro _ h; cases h)⟩

/-- the first argument of a call whose function expression leaves the state as it is (a
    built-in, an identifier, a literal): `fn(□, rest…)` -/
theorem lsim_callArg {fn : Expr} {rest : List Expr} (hwf : noOutput fn = true) (hmf : touches t fn = false)
    (hFf : FOK n s.env (FreeIn · fn)) (hfn : (eval ops (f + 1) depth fn s).2 = s)
    (hw : noOutputList rest = true) (hm : touchesList t rest = false)
    (hF : FOK n s.env (FreeInList · rest)) :
    LSim ops t v (f + 2) depth s (.call fn (p1 :: rest)) (.call fn (p2 :: rest)) := by
  have W := weak ops v ht f
  have hE := hS.ne
  show WSim _ _ _ _ _ _ _
  rw [eval, eval]
  obtain ⟨e0, P0⟩ := (weak ops v ht (f + 1)).eval depth fn n 0 s hn hS hwf hmf hFf
  rw [e0]; clear e0
  generalize eval ops (f + 1) depth fn s = p0 at P0 hfn ⊢
  obtain ⟨r0, s0⟩ := p0
  simp only at hfn
  subst hfn
  cases r0 with
  | ok fv =>
    dsimp only
    rw [evalList, evalList]
    obtain ⟨e1, P1⟩ := ih
    rw [e1]; clear e1
    generalize eval ops f depth p1 s0 = p at P1 ⊢
    obtain ⟨r1, s1⟩ := p
    cases r1 with
    | ok a =>
      dsimp only
      obtain ⟨e2, P2⟩ := W.evalList depth rest n 0 s1 hn (hS.next P1) hw hm (hF.step hn hE P1.keys)
      rw [e2]; clear e2
      generalize evalList ops f depth rest s1 = q at P2 ⊢
      obtain ⟨r2, s2⟩ := q
      cases r2 with
      | ok raw =>
        dsimp only
        have P12 := P1.trans P2
        split
        · exact ⟨rfl, P12.re (by intro _ h; cases h)⟩
        · have hfv := ((P0.val fv rfl).mono P1.names).mono P2.names
          have hargs : ClosedL s2.names (a :: raw) :=
            closedL_cons.mpr ⟨(P1.val a rfl).mono P2.names, P2.val raw rfl⟩
          obtain ⟨e3, P3⟩ := callFn_addT ops v ht (f + 1) fv fv (flattenSpreads (a :: raw)) depth 0 s2
            (hS.next P12).cl hfv hfv (closedL_flattenSpreads hargs)
          rw [e3]
          exact ⟨rfl, P12.trans P3.toPost⟩
      | _ => exact ⟨rfl, (P1.trans P2).re (by intro _ h; cases h)⟩
    | _ => exact ⟨rfl, P1.re (by intro _ h; cases h)⟩
  | _ => exact ⟨rfl, P0.re (by intro _ h; cases h)⟩

/-- the first item of a list literal: `[□, rest…]` -/
theorem lsim_listHead {l : List String} {tr : Option String} {rest : List Item}
    (hw : noOutputItems rest = true) (hm : touchesItems t rest = false)
    (hF : FOK n s.env (FreeInItems · rest)) :
    LSim ops t v (f + 2) depth s (.list (.mk l p1 tr :: rest)) (.list (.mk l p2 tr :: rest)) := by
  have W := weak ops v ht f
  have hE := hS.ne
  show WSim _ _ _ _ _ _ _
  rw [eval, eval, evalItems, evalItems]
  obtain ⟨e1, P1⟩ := ih
  rw [e1]; clear e1
  generalize eval ops f depth p1 s = p at P1 ⊢
  obtain ⟨r1, s1⟩ := p
  cases r1 with
  | ok a =>
    dsimp only
    obtain ⟨e2, P2⟩ := W.evalItems depth rest n 0 s1 hn (hS.next P1) hw hm (hF.step hn hE P1.keys)
    rw [e2]; clear e2
    generalize evalItems ops f depth rest s1 = q at P2 ⊢
    obtain ⟨r2, s2⟩ := q
    cases r2 with
    | ok vs =>
      refine ⟨rfl, (P1.trans P2).re ?_⟩
      intro v' hv'
      cases hv'
      have : ClosedL s2.names (a :: vs) := closedL_cons.mpr ⟨(P1.val a rfl).mono P2.names, P2.val vs rfl⟩
      simpa using closedL_flattenSpreads this
    | _ => exact ⟨rfl, (P1.trans P2).re (by intro _ h; cases h)⟩
  | _ => exact ⟨rfl, P1.re (by intro _ h; cases h)⟩

end congr

/-- running on with more fuel than needed is not covered: fuel is part of the statement -/
theorem lsim_eq {fuel depth : Nat} {s : ES} {e1 e2 : Expr} (h : LSim ops t v fuel depth s e1 e2) :
    eval ops fuel depth e2 (addT t v 0 s) =
      ((eval ops fuel depth e1 s).1, addT t v 0 (eval ops fuel depth e1 s).2) := h.1

end letabs

/-! #### contexts whose hole is evaluated first, exactly once, before anything else -/

/-- `□`, `op □`, `□!`, `□.f`, `□ op r`, `□[i]`, `if □ then a else b`, `x = □`, `□(args…)`,
    `fn(□, rest…)` with `fn` a built-in / identifier / literal, `[□, rest…]` — nested -/
inductive LCtx where
  | hole
  | un (op : UnOp) (c : LCtx)
  | fact (c : LCtx)
  | dot (c : LCtx) (field : String)
  | binL (op : BinOp) (c : LCtx) (r : Expr)
  | access (c : LCtx) (i : Expr)
  | cond (c : LCtx) (a b : Expr)
  | assign (nm : String) (c : LCtx)
  | callF (c : LCtx) (args : List Expr)
  | callArg (fn : Expr) (c : LCtx) (rest : List Expr)
  | listHead (l : List String) (c : LCtx) (tr : Option String) (rest : List Item)

/-- the context with the hole filled -/
def LCtx.plug : LCtx → Expr → Expr
  | .hole, e => e
  | .un op c, e => .un op (c.plug e)
  | .fact c, e => .fact (c.plug e)
  | .dot c field, e => .dot (c.plug e) field
  | .binL op c r, e => .bin op (c.plug e) r
  | .access c i, e => .access (c.plug e) i
  | .cond c a b, e => .cond (c.plug e) a b
  | .assign nm c, e => .assign nm (c.plug e)
  | .callF c args, e => .call (c.plug e) args
  | .callArg fn c rest, e => .call fn (c.plug e :: rest)
  | .listHead l c tr rest, e => .list (.mk l (c.plug e) tr :: rest)

/-- how many evaluator steps lie above the hole (the fuel they use) -/
def LCtx.depth : LCtx → Nat
  | .hole => 0
  | .un _ c => c.depth + 1
  | .fact c => c.depth + 1
  | .dot c _ => c.depth + 1
  | .binL _ c _ => c.depth + 1
  | .access c _ => c.depth + 1
  | .cond c _ _ => c.depth + 1
  | .assign _ c => c.depth + 1
  | .callF c _ => c.depth + 1
  | .callArg _ c _ => c.depth + 2
  | .listHead _ c _ _ => c.depth + 2

/-- expressions whose evaluation never changes the state: literals, built-ins, identifiers -/
def simpleHead : Expr → Bool
  | .num _ | .str _ | .bool _ | .null | .builtin _ | .ident _ | .inref _ => true
  | _ => false

/-- in `fn(□, …)` the function expression is evaluated before the hole: it has to be simple -/
def LCtx.simpleHeads : LCtx → Bool
  | .hole => true
  | .un _ c => c.simpleHeads
  | .fact c => c.simpleHeads
  | .dot c _ => c.simpleHeads
  | .binL _ c _ => c.simpleHeads
  | .access c _ => c.simpleHeads
  | .cond c _ _ => c.simpleHeads
  | .assign _ c => c.simpleHeads
  | .callF c _ => c.simpleHeads
  | .callArg fn c _ => simpleHead fn && c.simpleHeads
  | .listHead _ c _ _ => c.simpleHeads

theorem simpleHead_state (ops : NumOps) (fuel depth : Nat) (e : Expr) (s : ES) (h : simpleHead e = true) :
    (eval ops fuel depth e s).2 = s := by
  cases fuel with
  | zero => simp [eval]
  | succ fuel =>
    cases e <;> simp only [simpleHead, Bool.false_eq_true] at h <;> rw [eval]
    all_goals repeat' split
    all_goals rfl

/-- LET-ABSTRACTION of the subexpression that is evaluated first: `C[e']` evaluated in `s`, and
    `C[t]` evaluated in `s` with `t ↦ v` added to the innermost frame, where `v` is the value of
    `e'` in `s` and evaluating `e'` left the state as it was -/
theorem let_abstraction_ctx (ops : NumOps) {t : String} {v : Value} (ht : t ≠ "inputs")
    (hsp : t ∉ Gen.specialIdents) {fuel0 depth n : Nat} {s : ES} {e' : Expr} (hn : 0 < n) (hS : WOK 0 s)
    (h0 : eval ops fuel0 depth e' s = (.ok v, s)) :
    ∀ (c : LCtx), c.simpleHeads = true → noOutput (c.plug e') = true → touches t (c.plug e') = false →
      FOK n s.env (FreeIn · (c.plug e')) →
      LSim ops t v (fuel0 + c.depth) depth s (c.plug e') (c.plug (.ident t))
  | .hole, _, hw, hm, hF => lsim_hole ht hsp hn hS hw hm hF h0
  | .un op c, hc, hw, hm, hF => by
    simp only [LCtx.plug, noOutput, touches, LCtx.simpleHeads] at hw hm hc ⊢
    exact lsim_un (let_abstraction_ctx ops ht hsp hn hS h0 c hc hw hm (hF.imp fun x hx => .un hx)) op
  | .fact c, hc, hw, hm, hF => by
    simp only [LCtx.plug, noOutput, touches, LCtx.simpleHeads] at hw hm hc ⊢
    exact lsim_fact (let_abstraction_ctx ops ht hsp hn hS h0 c hc hw hm (hF.imp fun x hx => .fact hx))
  | .dot c field, hc, hw, hm, hF => by
    simp only [LCtx.plug, noOutput, touches, LCtx.simpleHeads] at hw hm hc ⊢
    exact lsim_dot (let_abstraction_ctx ops ht hsp hn hS h0 c hc hw hm (hF.imp fun x hx => .dot hx)) field
  | .binL op c r, hc, hw, hm, hF => by
    simp only [LCtx.plug, noOutput, touches, LCtx.simpleHeads, Bool.and_eq_true, Bool.or_eq_false_iff]
      at hw hm hc ⊢
    exact lsim_binL ht hn hS
      (let_abstraction_ctx ops ht hsp hn hS h0 c hc hw.1 hm.1 (hF.imp fun x hx => .binL hx)) op hw.2 hm.2
      (hF.imp fun x hx => .binR hx)
  | .access c i, hc, hw, hm, hF => by
    simp only [LCtx.plug, noOutput, touches, LCtx.simpleHeads, Bool.and_eq_true, Bool.or_eq_false_iff]
      at hw hm hc ⊢
    exact lsim_access ht hn hS
      (let_abstraction_ctx ops ht hsp hn hS h0 c hc hw.1 hm.1 (hF.imp fun x hx => .accessE hx)) hw.2 hm.2
      (hF.imp fun x hx => .accessI hx)
  | .cond c a b, hc, hw, hm, hF => by
    simp only [LCtx.plug, noOutput, touches, LCtx.simpleHeads, Bool.and_eq_true, Bool.or_eq_false_iff]
      at hw hm hc ⊢
    exact lsim_cond ht hn hS
      (let_abstraction_ctx ops ht hsp hn hS h0 c hc hw.1.1 hm.1.1 (hF.imp fun x hx => .condC hx))
      hw.1.2 hw.2 hm.1.2 hm.2 (hF.imp fun x hx => .condT hx) (hF.imp fun x hx => .condE hx)
  | .assign nm c, hc, hw, hm, hF => by
    simp only [LCtx.plug, noOutput, touches, LCtx.simpleHeads, Bool.or_eq_false_iff, beq_eq_false_iff_ne]
      at hw hm hc ⊢
    exact lsim_assign hS
      (let_abstraction_ctx ops ht hsp hn hS h0 c hc hw hm.2 (hF.imp fun x hx => .assign hx)) hm.1
  | .callF c args, hc, hw, hm, hF => by
    simp only [LCtx.plug, noOutput, touches, LCtx.simpleHeads, Bool.and_eq_true, Bool.or_eq_false_iff]
      at hw hm hc ⊢
    exact lsim_callF ht hn hS
      (let_abstraction_ctx ops ht hsp hn hS h0 c hc hw.1 hm.1 (hF.imp fun x hx => .callF hx)) hw.2 hm.2
      (hF.imp fun x hx => .callA hx)
  | .callArg fn c rest, hc, hw, hm, hF => by
    simp only [LCtx.plug, noOutput, noOutputList, touches, touchesList, LCtx.simpleHeads, Bool.and_eq_true,
      Bool.or_eq_false_iff] at hw hm hc ⊢
    exact lsim_callArg ht hn hS
      (let_abstraction_ctx ops ht hsp hn hS h0 c hc.2 hw.2.1 hm.2.1 (hF.imp fun x hx => .callA (.head hx)))
      hw.1 hm.1 (hF.imp fun x hx => .callF hx) (simpleHead_state ops _ depth fn s hc.1) hw.2.2 hm.2.2
      (hF.imp fun x hx => .callA (.tail hx))
  | .listHead l c tr rest, hc, hw, hm, hF => by
    simp only [LCtx.plug, noOutput, noOutputItems, noOutputItem, touches, touchesItems, touchesItem,
      LCtx.simpleHeads, Bool.and_eq_true, Bool.or_eq_false_iff] at hw hm hc ⊢
    exact lsim_listHead ht hn hS
      (let_abstraction_ctx ops ht hsp hn hS h0 c hc hw.1 hm.1 (hF.imp fun x hx => .list (.head hx)))
      hw.2 hm.2 (hF.imp fun x hx => .list (.tail hx))

/-! ### concrete values for the examples of Props/C02.lean -/

namespace C02Ex

/-- `g = (t) => [t, y]` which captured `y ↦ 1` (C04's closed example function; its parameter is
    called `t`), and `a ↦ "arg"` -/
def exS : ES := { env := [[("g", C04Ex.exG), ("a", .str "arg")]], nextId := 3, names := [] }

/-- `[g(a), map([a], (x) => g(x))]`: calls a captured closure, and the higher-order built-in
    `map` with a lambda callback that calls the closure again -/
def exE : Expr :=
  .list [it (.call (.ident "g") [.ident "a"]),
         it (.call (.builtin "map") [.list [it (.ident "a")],
               .lambda [.req "x"] (.call (.ident "g") [.ident "x"])])]

end C02Ex

end Blots
