import Blots.Lemmas.EvalEnvClosedCoin
/-
  C02 (4), weakening through arbitrary function application.

  `Weak ops t w fuel`: for the six expression-level functions of the evaluator, at this fuel and
  at ANY call depth (0 included): the run from the state with the extra binding `(t, w)` at the
  head of the frame at depth `k` (`addT t w k s`) is the same run — same outcome, same final
  state with the same extra binding — provided
    * every value bound in the environment is hereditarily closed (`ClosedE`),
    * the expression does not mention `t`, has no nested `output`, and each of its free names is
      `inputs` or bound (`FOK n`: in the first `n` frames, `n` arbitrary),
  and the result (value, environment) is closed again w.r.t. the display names of the final
  state, which only grew.  NOTHING is assumed of the new value `w`.

  The expression itself is handled by the `addT` induction of `weak_group`; every call it makes
  (call expressions, `via` / `into` / `where`, the higher-order built-ins) is delegated to the
  closed-coincidence invariant `Coin` at `n = 0`, whose replaced tail is the whole caller chain:
  a closed callee never looks at it.
-/
namespace Blots

/-! ### the call group: `Coin` at `n = 0` with the whole chain replaced -/

theorem retail_zero_addAt (t : String) (w : Value) (k : Nat) (s : ES) :
    retail 0 (addAt t w k s.env) s = addT t w k s := by
  simp [retail, retailE, addT]

theorem sok_addT {t : String} (w : Value) (ht : t ≠ "inputs") (k : Nat) (s : ES)
    (hE : ClosedE s.names s.env) : SOK 0 (addAt t w k s.env) s := by
  refine ⟨Nat.zero_le _, ?_, hE⟩
  unfold Agree retailE
  simp only [List.take_zero, List.nil_append]
  exact envGet_addAt t w (Ne.symm ht) k s.env

/-- the run with the extra binding is the same run, and the result keeps the invariant -/
abbrev WSim {α} (t : String) (w : Value) (k : Nat) (C : List (Nat × String) → α → Prop) (s : ES)
    (p p' : R α) : Prop :=
  p' = (p.1, addT t w k p.2) ∧ Post C s p

abbrev WSimC {α} (t : String) (w : Value) (k : Nat) (C : List (Nat × String) → α → Prop) (s : ES)
    (p p' : R α) : Prop :=
  p' = (p.1, addT t w k p.2) ∧ PostC C s p

theorem wsimC_of_simC {α} {C : List (Nat × String) → α → Prop} {t : String} {w : Value} {k : Nat} {s : ES}
    {p p' : R α} (h : SimC 0 (addAt t w k s.env) C s p p') : WSimC t w k C s p p' := by
  obtain ⟨e, P⟩ := h
  refine ⟨?_, P⟩
  rw [e]
  simp [retail, retailE, addT, P.env]

/-- calling a closed function value with closed arguments from a closed caller: the extra
    binding in the caller's chain is not seen -/
theorem callFn_addT (ops : NumOps) {t : String} (w : Value) (ht : t ≠ "inputs") (fuel : Nat) (fv this : Value)
    (args : List Value) (depth k : Nat) (s : ES) (hE : ClosedE s.names s.env) (hf : ClosedV s.names fv)
    (hth : ClosedV s.names this) (ha : ClosedL s.names args) :
    WSimC t w k ClosedV s (callFn ops fuel fv this args depth s)
      (callFn ops fuel fv this args depth (addT t w k s)) := by
  have h := (coin ops (addAt t w k s.env) fuel).callFn fv this args depth 0 s (sok_addT w ht k s hE) hf hth ha
  rw [retail_zero_addAt] at h
  exact wsimC_of_simC h

theorem evalBin_addT (ops : NumOps) {t : String} (w : Value) (ht : t ≠ "inputs") (fuel depth : Nat) (op : BinOp)
    (a b : Value) (k : Nat) (s : ES) (hE : ClosedE s.names s.env) (ha : ClosedV s.names a)
    (hb : ClosedV s.names b) :
    WSimC t w k ClosedV s (evalBin ops fuel depth op a b s) (evalBin ops fuel depth op a b (addT t w k s)) := by
  have h := (coin ops (addAt t w k s.env) fuel).evalBin depth op a b 0 s (sok_addT w ht k s hE) ha hb
  rw [retail_zero_addAt] at h
  exact wsimC_of_simC h

/-! ### the invariant of the weakening induction -/

/-- what is assumed of a state: the frame that gets the extra binding exists, every value bound
    in the environment is closed -/
structure WOK (k : Nat) (s : ES) : Prop where
  len : k < s.env.length
  cl : ClosedE s.names s.env

theorem WOK.ne {k : Nat} {s : ES} (h : WOK k s) : s.env ≠ [] := by
  intro e; have := h.len; rw [e] at this; simp at this

theorem WOK.next {α} {C : List (Nat × String) → α → Prop} {k : Nat} {s : ES} {p : R α}
    (h : WOK k s) (hp : Post C s p) : WOK k p.2 :=
  ⟨by rw [hp.keys.below.length h.ne]; exact h.len, hp.cl⟩

structure Weak (ops : NumOps) (t : String) (w : Value) (fuel : Nat) : Prop where
  eval : ∀ depth e n k s, 0 < n → WOK k s → noOutput e = true → mentions t e = false →
    FOK n s.env (FreeIn · e) →
    WSim t w k ClosedV s (eval ops fuel depth e s) (eval ops fuel depth e (addT t w k s))
  evalList : ∀ depth es n k s, 0 < n → WOK k s → noOutputList es = true → mentionsList t es = false →
    FOK n s.env (FreeInList · es) →
    WSim t w k ClosedL s (evalList ops fuel depth es s) (evalList ops fuel depth es (addT t w k s))
  evalItems : ∀ depth is n k s, 0 < n → WOK k s → noOutputItems is = true → mentionsItems t is = false →
    FOK n s.env (FreeInItems · is) →
    WSim t w k ClosedL s (evalItems ops fuel depth is s) (evalItems ops fuel depth is (addT t w k s))
  evalEntries : ∀ depth es acc n k s, 0 < n → WOK k s → noOutputEntries es = true →
    mentionsEntries t es = false → FOK n s.env (FreeInEntries · es) → ClosedR s.names acc →
    WSim t w k ClosedR s (evalEntries ops fuel depth es acc s) (evalEntries ops fuel depth es acc (addT t w k s))
  evalDoStmt : ∀ depth e n k s, 0 < n → WOK k s → noOutput e = true → mentions t e = false →
    FOK n s.env (FreeIn · e) →
    WSim t w k ClosedV s (evalDoStmt ops fuel depth e s) (evalDoStmt ops fuel depth e (addT t w k s))
  evalDo : ∀ depth stmts ret n k s, 0 < n → WOK k s → noOutputItems stmts = true → noOutputItem ret = true →
    mentionsItems t stmts = false → mentionsItem t ret = false → FOK n s.env (FreeInDo · stmts ret) →
    WSim t w k ClosedV s (evalDo ops fuel depth stmts ret s) (evalDo ops fuel depth stmts ret (addT t w k s))

section
variable {ops : NumOps} {t : String} {w : Value}

theorem wsim_fuel {α} {C : List (Nat × String) → α → Prop} {k : Nat} {s : ES} (hS : WOK k s) :
    WSim t w k C s (.fuel, s) (.fuel, addT t w k s) :=
  ⟨rfl, Post.same hS.cl (by intro _ h; cases h)⟩

theorem weak_zero : Weak ops t w 0 := by
  refine ⟨?_, ?_, ?_, ?_, ?_, ?_⟩
  · intro depth e n k s _ hS _ _ _; rw [eval, eval]; exact wsim_fuel hS
  · intro depth es n k s _ hS _ _ _; rw [evalList, evalList]; exact wsim_fuel hS
  · intro depth es n k s _ hS _ _ _; rw [evalItems, evalItems]; exact wsim_fuel hS
  · intro depth es acc n k s _ hS _ _ _ _; rw [evalEntries, evalEntries]; exact wsim_fuel hS
  · intro depth e n k s _ hS _ _ _; rw [evalDoStmt, evalDoStmt]; exact wsim_fuel hS
  · intro depth st ret n k s _ hS _ _ _ _ _; rw [evalDo, evalDo]; exact wsim_fuel hS

/-! ### lists of expressions, record entries -/

theorem weak_evalList {fuel : Nat} (ih : Weak ops t w fuel) (depth : Nat) (es : List Expr) (n k : Nat) (s : ES)
    (hn : 0 < n) (hS : WOK k s) (hw : noOutputList es = true) (hm : mentionsList t es = false)
    (hF : FOK n s.env (FreeInList · es)) :
    WSim t w k ClosedL s (evalList ops (fuel + 1) depth es s) (evalList ops (fuel + 1) depth es (addT t w k s)) := by
  cases es with
  | nil => rw [evalList, evalList]; exact ⟨rfl, Post.same hS.cl (by intro v h; cases h; simp)⟩
  | cons e es =>
    simp only [noOutputList, Bool.and_eq_true] at hw
    simp only [mentionsList, Bool.or_eq_false_iff] at hm
    rw [evalList, evalList]
    obtain ⟨e1, P1⟩ := ih.eval depth e n k s hn hS hw.1 hm.1 (hF.imp fun x hx => .head hx)
    rw [e1]; clear e1
    generalize eval ops fuel depth e s = p at P1 ⊢
    obtain ⟨r1, s1⟩ := p
    cases r1 with
    | ok v =>
      dsimp only
      obtain ⟨e2, P2⟩ := ih.evalList depth es n k s1 hn (hS.next P1) hw.2 hm.2
        ((hF.imp fun x hx => .tail hx).step hn hS.ne P1.keys)
      rw [e2]; clear e2
      generalize evalList ops fuel depth es s1 = q at P2 ⊢
      obtain ⟨r2, s2⟩ := q
      cases r2 with
      | ok vs =>
        refine ⟨rfl, (P1.trans P2).re ?_⟩
        intro v' hv'
        cases hv'
        exact closedL_cons.mpr ⟨(P1.val v rfl).mono P2.names, P2.val vs rfl⟩
      | _ => exact ⟨rfl, (P1.trans P2).re (by intro _ h; cases h)⟩
    | _ => exact ⟨rfl, P1.re (by intro _ h; cases h)⟩

theorem weak_evalItems {fuel : Nat} (ih : Weak ops t w fuel) (depth : Nat) (is : List Item) (n k : Nat) (s : ES)
    (hn : 0 < n) (hS : WOK k s) (hw : noOutputItems is = true) (hm : mentionsItems t is = false)
    (hF : FOK n s.env (FreeInItems · is)) :
    WSim t w k ClosedL s (evalItems ops (fuel + 1) depth is s)
      (evalItems ops (fuel + 1) depth is (addT t w k s)) := by
  cases is with
  | nil => rw [evalItems, evalItems]; exact ⟨rfl, Post.same hS.cl (by intro v h; cases h; simp)⟩
  | cons i is =>
    obtain ⟨_, e, _⟩ := i
    simp only [noOutputItems, noOutputItem, Bool.and_eq_true] at hw
    simp only [mentionsItems, mentionsItem, Bool.or_eq_false_iff] at hm
    rw [evalItems, evalItems]
    obtain ⟨e1, P1⟩ := ih.eval depth e n k s hn hS hw.1 hm.1 (hF.imp fun x hx => .head hx)
    rw [e1]; clear e1
    generalize eval ops fuel depth e s = p at P1 ⊢
    obtain ⟨r1, s1⟩ := p
    cases r1 with
    | ok v =>
      dsimp only
      obtain ⟨e2, P2⟩ := ih.evalItems depth is n k s1 hn (hS.next P1) hw.2 hm.2
        ((hF.imp fun x hx => .tail hx).step hn hS.ne P1.keys)
      rw [e2]; clear e2
      generalize evalItems ops fuel depth is s1 = q at P2 ⊢
      obtain ⟨r2, s2⟩ := q
      cases r2 with
      | ok vs =>
        refine ⟨rfl, (P1.trans P2).re ?_⟩
        intro v' hv'
        cases hv'
        exact closedL_cons.mpr ⟨(P1.val v rfl).mono P2.names, P2.val vs rfl⟩
      | _ => exact ⟨rfl, (P1.trans P2).re (by intro _ h; cases h)⟩
    | _ => exact ⟨rfl, P1.re (by intro _ h; cases h)⟩

theorem weak_evalEntries {fuel : Nat} (ih : Weak ops t w fuel) (depth : Nat) (es : List Entry) (acc : Frame)
    (n k : Nat) (s : ES) (hn : 0 < n) (hS : WOK k s) (hw : noOutputEntries es = true)
    (hm : mentionsEntries t es = false) (hF : FOK n s.env (FreeInEntries · es)) (hacc : ClosedR s.names acc) :
    WSim t w k ClosedR s (evalEntries ops (fuel + 1) depth es acc s)
      (evalEntries ops (fuel + 1) depth es acc (addT t w k s)) := by
  cases es with
  | nil => rw [evalEntries, evalEntries]; exact ⟨rfl, Post.same hS.cl (by intro v h; cases h; exact hacc)⟩
  | cons en es =>
    obtain ⟨_, key, value, _⟩ := en
    simp only [noOutputEntries, noOutputEntry, Bool.and_eq_true] at hw
    simp only [mentionsEntries, mentionsEntry, Bool.or_eq_false_iff] at hm
    have hFt : FOK n s.env (FreeInEntries · es) := hF.imp fun x hx => .tail hx
    cases key with
    | static kk =>
      rw [evalEntries, evalEntries]
      obtain ⟨e1, P1⟩ := ih.eval depth value n k s hn hS hw.1.2 hm.1.2 (hF.imp fun x hx => .head (.static hx))
      rw [e1]; clear e1
      generalize eval ops fuel depth value s = p at P1 ⊢
      obtain ⟨r1, s1⟩ := p
      cases r1 with
      | ok v =>
        dsimp only
        obtain ⟨e2, P2⟩ := ih.evalEntries depth es (insertAL kk v acc) n k s1 hn (hS.next P1) hw.2 hm.2
          (hFt.step hn hS.ne P1.keys) (closedR_insertAL (P1.val v rfl) (hacc.mono P1.names))
        rw [e2]
        exact ⟨rfl, P1.trans P2⟩
      | _ => exact ⟨rfl, P1.re (by intro _ h; cases h)⟩
    | dyn ke =>
      simp only [noOutputKey] at hw
      simp only [mentionsKey] at hm
      rw [evalEntries, evalEntries]
      obtain ⟨e1, P1⟩ := ih.eval depth ke n k s hn hS hw.1.1 hm.1.1 (hF.imp fun x hx => .head (.dynK hx))
      rw [e1]; clear e1
      generalize eval ops fuel depth ke s = p at P1 ⊢
      obtain ⟨r1, s1⟩ := p
      cases r1 with
      | ok kv =>
        cases kv with
        | str ks =>
          dsimp only
          have hS1 := hS.next P1
          obtain ⟨e2, P2⟩ := ih.eval depth value n k s1 hn hS1 hw.1.2 hm.1.2
            ((hF.imp fun x hx => .head (.dynV hx)).step hn hS.ne P1.keys)
          rw [e2]; clear e2
          generalize eval ops fuel depth value s1 = q at P2 ⊢
          obtain ⟨r2, s2⟩ := q
          cases r2 with
          | ok v =>
            dsimp only
            have P12 := P1.trans P2
            obtain ⟨e3, P3⟩ := ih.evalEntries depth es (insertAL ks v acc) n k s2 hn (hS.next P12) hw.2 hm.2
              (hFt.step hn hS.ne P12.keys) (closedR_insertAL (P2.val v rfl) (hacc.mono P12.names))
            rw [e3]
            exact ⟨rfl, P12.trans P3⟩
          | _ => exact ⟨rfl, (P1.trans P2).re (by intro _ h; cases h)⟩
        | _ => exact ⟨rfl, P1.re (by intro _ h; cases h)⟩
      | _ => exact ⟨rfl, P1.re (by intro _ h; cases h)⟩
    | short nm =>
      simp only [mentionsKey, beq_eq_false_iff_ne] at hm
      rw [evalEntries, evalEntries]
      have hg' : envGet (addT t w k s).env nm = envGet s.env nm := envGet_addAt t w hm.1.1 k s.env
      rw [hg']
      cases hg : envGet s.env nm with
      | none => exact ⟨rfl, Post.same hS.cl (by intro _ h; cases h)⟩
      | some v =>
        exact ih.evalEntries depth es (insertAL nm v acc) n k s hn hS hw.2 hm.2 hFt
          (closedR_insertAL (closed_envGet hS.cl hg) hacc)
    | spread se =>
      simp only [noOutputKey] at hw
      simp only [mentionsKey] at hm
      rw [evalEntries, evalEntries]
      obtain ⟨e1, P1⟩ := ih.eval depth se n k s hn hS hw.1.1 hm.1.1 (hF.imp fun x hx => .head (.spread hx))
      rw [e1]; clear e1
      generalize eval ops fuel depth se s = p at P1 ⊢
      obtain ⟨r1, s1⟩ := p
      cases r1 with
      | ok sv =>
        have hS1 := hS.next P1
        have hF1 := hFt.step hn hS.ne P1.keys
        have hacc1 := hacc.mono P1.names
        cases sv with
        | spread inner =>
          obtain ⟨e2, P2⟩ := ih.evalEntries depth es (spreadIntoRecord acc inner) n k s1 hn hS1 hw.2 hm.2 hF1
            (closedR_spreadIntoRecord hacc1 (by simpa using P1.val _ rfl))
          dsimp only
          rw [e2]
          exact ⟨rfl, P1.trans P2⟩
        | _ =>
          obtain ⟨e2, P2⟩ := ih.evalEntries depth es acc n k s1 hn hS1 hw.2 hm.2 hF1 hacc1
          dsimp only
          rw [e2]
          exact ⟨rfl, P1.trans P2⟩
      | _ => exact ⟨rfl, P1.re (by intro _ h; cases h)⟩

/-! ### expressions -/

/-- the final state of an assignment, with the extra binding -/
theorem eq_assign_addT (k : Nat) (s1 : ES) (val : Value) (nm : String) (cv : Value) (hnt : nm ≠ t)
    (hk : k < s1.env.length) :
    ({ setNameIfLambda (addT t w k s1) nm cv with
        env := envInsert (setNameIfLambda (addT t w k s1) nm cv).env nm val } : ES) =
      addT t w k { setNameIfLambda s1 nm cv with env := envInsert (setNameIfLambda s1 nm cv).env nm val } := by
  rw [setNameIfLambda_addT]
  have hk2 : k < (setNameIfLambda s1 nm cv).env.length := by rw [setNameIfLambda_env]; exact hk
  generalize setNameIfLambda s1 nm cv = s2 at hk2
  simp only [addT, envInsert_addAt t w val hnt k s2.env hk2]

theorem weak_eval (ht : t ≠ "inputs") {fuel : Nat} (ih : Weak ops t w fuel) (depth : Nat) (e : Expr) (n k : Nat)
    (s : ES) (hn : 0 < n) (hS : WOK k s) (hw : noOutput e = true) (hm : mentions t e = false)
    (hF : FOK n s.env (FreeIn · e)) :
    WSim t w k ClosedV s (eval ops (fuel + 1) depth e s) (eval ops (fuel + 1) depth e (addT t w k s)) := by
  have hE := hS.ne
  cases e with
  | num x => rw [eval, eval]; exact ⟨rfl, Post.same hS.cl (by intro v h; cases h; simp)⟩
  | str x => rw [eval, eval]; exact ⟨rfl, Post.same hS.cl (by intro v h; cases h; simp)⟩
  | bool x => rw [eval, eval]; exact ⟨rfl, Post.same hS.cl (by intro v h; cases h; simp)⟩
  | null => rw [eval, eval]; exact ⟨rfl, Post.same hS.cl (by intro v h; cases h; simp)⟩
  | builtin nm => rw [eval, eval]; exact ⟨rfl, Post.same hS.cl (by intro v h; cases h; simp)⟩
  | output inner => simp [noOutput] at hw
  | ident nm =>
    have hnt : nm ≠ t := by simpa [mentions] using hm
    rw [eval, eval]
    split
    · exact ⟨rfl, Post.same hS.cl (by intro v h; cases h; simp)⟩
    split
    · exact ⟨rfl, Post.same hS.cl (by intro v h; cases h; simpa using closedR_constants)⟩
    have hg' : envGet (addT t w k s).env nm = envGet s.env nm := envGet_addAt t w hnt k s.env
    rw [hg']
    cases hg : envGet s.env nm with
    | none => exact ⟨rfl, Post.same hS.cl (by intro _ h; cases h)⟩
    | some v => exact ⟨rfl, Post.same hS.cl (by intro v' h; cases h; exact closed_envGet hS.cl hg)⟩
  | inref field =>
    rw [eval, eval]
    have hg' : envGet (addT t w k s).env "inputs" = envGet s.env "inputs" :=
      envGet_addAt t w (Ne.symm ht) k s.env
    rw [hg']
    cases hg : envGet s.env "inputs" with
    | none => exact ⟨rfl, Post.same hS.cl (by intro _ h; cases h)⟩
    | some v =>
      have hv := closed_envGet hS.cl hg
      cases v with
      | record r =>
        exact ⟨rfl, Post.same hS.cl (by intro v' h; cases h; exact closed_lookupAL_getD (by simpa using hv))⟩
      | _ => exact ⟨rfl, Post.same hS.cl (by intro _ h; cases h)⟩
  | un op inner =>
    simp only [noOutput] at hw
    simp only [mentions] at hm
    rw [eval, eval]
    obtain ⟨e1, P1⟩ := ih.eval depth inner n k s hn hS hw hm (hF.imp fun x hx => .un hx)
    rw [e1]; clear e1
    generalize eval ops fuel depth inner s = p at P1 ⊢
    obtain ⟨r, s1⟩ := p
    cases r with
    | ok v =>
      dsimp only
      split <;> exact ⟨rfl, P1.re (by intro v h; cases h <;> simp)⟩
    | _ => exact ⟨rfl, P1.re (by intro _ h; cases h)⟩
  | fact inner =>
    simp only [noOutput] at hw
    simp only [mentions] at hm
    rw [eval, eval]
    obtain ⟨e1, P1⟩ := ih.eval depth inner n k s hn hS hw hm (hF.imp fun x hx => .fact hx)
    rw [e1]; clear e1
    generalize eval ops fuel depth inner s = p at P1 ⊢
    obtain ⟨r, s1⟩ := p
    cases r with
    | ok v =>
      cases v with
      | num x =>
        dsimp only
        split <;> exact ⟨rfl, P1.re (by intro v h; cases h <;> simp)⟩
      | _ => exact ⟨rfl, P1.re (by intro _ h; cases h)⟩
    | _ => exact ⟨rfl, P1.re (by intro _ h; cases h)⟩
  | spread inner =>
    simp only [noOutput] at hw
    simp only [mentions] at hm
    rw [eval, eval]
    obtain ⟨e1, P1⟩ := ih.eval depth inner n k s hn hS hw hm (hF.imp fun x hx => .spread hx)
    rw [e1]; clear e1
    generalize eval ops fuel depth inner s = p at P1 ⊢
    obtain ⟨r, s1⟩ := p
    cases r with
    | ok v =>
      have hv := P1.val v rfl
      cases v with
      | list l => exact ⟨rfl, P1.re (by intro v h; cases h; simpa using hv)⟩
      | str l => exact ⟨rfl, P1.re (by intro v h; cases h; simp)⟩
      | record l => exact ⟨rfl, P1.re (by intro v h; cases h; simpa using hv)⟩
      | _ => exact ⟨rfl, P1.re (by intro _ h; cases h)⟩
    | _ => exact ⟨rfl, P1.re (by intro _ h; cases h)⟩
  | dot inner field =>
    simp only [noOutput] at hw
    simp only [mentions] at hm
    rw [eval, eval]
    obtain ⟨e1, P1⟩ := ih.eval depth inner n k s hn hS hw hm (hF.imp fun x hx => .dot hx)
    rw [e1]; clear e1
    generalize eval ops fuel depth inner s = p at P1 ⊢
    obtain ⟨r, s1⟩ := p
    cases r with
    | ok v =>
      have hv := P1.val v rfl
      cases v with
      | record l =>
        exact ⟨rfl, P1.re (by intro v h; cases h; exact closed_lookupAL_getD (by simpa using hv))⟩
      | _ => exact ⟨rfl, P1.re (by intro _ h; cases h)⟩
    | _ => exact ⟨rfl, P1.re (by intro _ h; cases h)⟩
  | cond c a b =>
    simp only [noOutput, Bool.and_eq_true] at hw
    simp only [mentions, Bool.or_eq_false_iff] at hm
    rw [eval, eval]
    obtain ⟨e1, P1⟩ := ih.eval depth c n k s hn hS hw.1.1 hm.1.1 (hF.imp fun x hx => .condC hx)
    rw [e1]; clear e1
    generalize eval ops fuel depth c s = p at P1 ⊢
    obtain ⟨r, s1⟩ := p
    cases r with
    | ok v =>
      cases v with
      | bool bv =>
        cases bv
        · obtain ⟨e2, P2⟩ := ih.eval depth b n k s1 hn (hS.next P1) hw.2 hm.2
            ((hF.imp fun x hx => .condE hx).step hn hE P1.keys)
          dsimp only
          rw [e2]
          exact ⟨rfl, P1.trans P2⟩
        · obtain ⟨e2, P2⟩ := ih.eval depth a n k s1 hn (hS.next P1) hw.1.2 hm.1.2
            ((hF.imp fun x hx => .condT hx).step hn hE P1.keys)
          dsimp only
          rw [e2]
          exact ⟨rfl, P1.trans P2⟩
      | _ => exact ⟨rfl, P1.re (by intro _ h; cases h)⟩
    | _ => exact ⟨rfl, P1.re (by intro _ h; cases h)⟩
  | access e i =>
    simp only [noOutput, Bool.and_eq_true] at hw
    simp only [mentions, Bool.or_eq_false_iff] at hm
    rw [eval, eval]
    obtain ⟨e1, P1⟩ := ih.eval depth e n k s hn hS hw.1 hm.1 (hF.imp fun x hx => .accessE hx)
    rw [e1]; clear e1
    generalize eval ops fuel depth e s = p at P1 ⊢
    obtain ⟨r1, s1⟩ := p
    cases r1 with
    | ok v =>
      dsimp only
      obtain ⟨e2, P2⟩ := ih.eval depth i n k s1 hn (hS.next P1) hw.2 hm.2
        ((hF.imp fun x hx => .accessI hx).step hn hE P1.keys)
      rw [e2]; clear e2
      generalize eval ops fuel depth i s1 = q at P2 ⊢
      obtain ⟨r2, s2⟩ := q
      cases r2 with
      | ok iv =>
        have hv := (P1.val v rfl).mono P2.names
        have P12 := P1.trans P2
        dsimp only
        repeat' split
        all_goals (
          refine ⟨rfl, P12.re ?_⟩
          intro _ h
          cases h
          all_goals first
            | (simp; done)
            | exact closed_lookupAL_getD (by simpa using hv)
            | exact closed_listGetD (by simpa using hv) _)
      | _ => exact ⟨rfl, (P1.trans P2).re (by intro _ h; cases h)⟩
    | _ => exact ⟨rfl, P1.re (by intro _ h; cases h)⟩
  | bin op l r =>
    simp only [noOutput, Bool.and_eq_true] at hw
    simp only [mentions, Bool.or_eq_false_iff] at hm
    rw [eval, eval]
    obtain ⟨e1, P1⟩ := ih.eval depth l n k s hn hS hw.1 hm.1 (hF.imp fun x hx => .binL hx)
    rw [e1]; clear e1
    generalize eval ops fuel depth l s = p at P1 ⊢
    obtain ⟨r1, s1⟩ := p
    cases r1 with
    | ok a =>
      dsimp only
      have hS1 := hS.next P1
      obtain ⟨e2, P2⟩ := ih.eval depth r n k s1 hn hS1 hw.2 hm.2
        ((hF.imp fun x hx => .binR hx).step hn hE P1.keys)
      rw [e2]; clear e2
      generalize eval ops fuel depth r s1 = q at P2 ⊢
      obtain ⟨r2, s2⟩ := q
      cases r2 with
      | ok b =>
        dsimp only
        have P12 := P1.trans P2
        obtain ⟨e3, P3⟩ := evalBin_addT ops w ht fuel depth op a b k s2 (hS.next P12).cl
          ((P1.val a rfl).mono P2.names) (P2.val b rfl)
        rw [e3]
        exact ⟨rfl, P12.trans P3.toPost⟩
      | _ => exact ⟨rfl, (P1.trans P2).re (by intro _ h; cases h)⟩
    | _ => exact ⟨rfl, P1.re (by intro _ h; cases h)⟩
  | list items =>
    simp only [noOutput] at hw
    simp only [mentions] at hm
    rw [eval, eval]
    obtain ⟨e1, P1⟩ := ih.evalItems depth items n k s hn hS hw hm (hF.imp fun x hx => .list hx)
    rw [e1]; clear e1
    generalize evalItems ops fuel depth items s = p at P1 ⊢
    obtain ⟨r, s1⟩ := p
    cases r with
    | ok vs =>
      exact ⟨rfl, P1.re (by intro v h; cases h; simpa using closedL_flattenSpreads (P1.val vs rfl))⟩
    | _ => exact ⟨rfl, P1.re (by intro _ h; cases h)⟩
  | record es =>
    simp only [noOutput] at hw
    simp only [mentions] at hm
    rw [eval, eval]
    obtain ⟨e1, P1⟩ := ih.evalEntries depth es [] n k s hn hS hw hm (hF.imp fun x hx => .record hx) (by simp)
    rw [e1]; clear e1
    generalize evalEntries ops fuel depth es [] s = p at P1 ⊢
    obtain ⟨r, s1⟩ := p
    cases r with
    | ok vs => exact ⟨rfl, P1.re (by intro v h; cases h; simpa using P1.val vs rfl)⟩
    | _ => exact ⟨rfl, P1.re (by intro _ h; cases h)⟩
  | assign nm v =>
    simp only [noOutput] at hw
    simp only [mentions, Bool.or_eq_false_iff, beq_eq_false_iff_ne] at hm
    have hcont : ∀ s : ES, alreadyDefined depth (addT t w k s).env nm = alreadyDefined depth s.env nm :=
      fun s => alreadyDefined_addAt t w hm.1 depth k s.env
    rw [eval, eval, hcont s]
    split
    · exact ⟨rfl, Post.same hS.cl (by intro _ h; cases h)⟩
    split
    · exact ⟨rfl, Post.same hS.cl (by intro _ h; cases h)⟩
    split
    · exact ⟨rfl, Post.same hS.cl (by intro _ h; cases h)⟩
    obtain ⟨e1, P1⟩ := ih.eval depth v n k s hn hS hw hm.2 (hF.imp fun x hx => .assign hx)
    rw [e1]; clear e1
    generalize eval ops fuel depth v s = p at P1 ⊢
    obtain ⟨r, s1⟩ := p
    cases r with
    | ok val =>
      dsimp only
      rw [hcont s1]
      split
      · exact ⟨rfl, P1.re (by intro _ h; cases h)⟩
      · simp only [show (addT t w k s).nextId = s.nextId from rfl]
        exact ⟨by rw [eq_assign_addT k s1 val nm _ hm.1 (hS.next P1).len], post_assign nm _ P1⟩
    | _ => exact ⟨rfl, P1.re (by intro _ h; cases h)⟩
  | lambda args body =>
    simp only [noOutput] at hw
    simp only [mentions, Bool.or_eq_false_iff] at hm
    rw [eval, eval]
    split
    · exact ⟨rfl, Post.same hS.cl (by intro _ h; cases h)⟩
    have hcap : captureScope (addT t w k s).env (freeVars (args.map LArg.name) body) =
        captureScope s.env (freeVars (args.map LArg.name) body) := by
      unfold captureScope
      apply captureScope_congr
      intro y hy
      have hyt : y ≠ t := by
        intro e; subst e
        have := freeVars_mentions body _ y hy
        rw [hm.2] at this; cases this
      exact envGet_addAt t w hyt k s.env
    simp only [hcap]
    refine ⟨rfl, KeysExt.refl _, NamesLe.refl _, hS.cl, ?_⟩
    intro v hv
    cases hv
    rw [closedV_lambda]
    refine ⟨?_, hw, closedR_captureScope hS.cl _⟩
    intro x hx
    by_cases hxa : x ∈ args.map LArg.name
    · exact Or.inl hxa
    · rcases hF x (.lambda hx hxa) with h | h
      · exact Or.inr (Or.inr (Or.inr h))
      · refine Or.inr (Or.inl ?_)
        have hfv : x ∈ freeVars (args.map LArg.name) body :=
          (freeVars_iff body _ x hw).mpr ⟨hx, hxa⟩
        show (lookupAL x (captureScope s.env (freeVars (args.map LArg.name) body))).isSome
        rw [captureScope_lookup, if_pos hfv]
        exact h.get
  | doBlock stmts ret =>
    simp only [noOutput, Bool.and_eq_true] at hw
    simp only [mentions, Bool.or_eq_false_iff] at hm
    rw [eval, eval]
    have hS1 : WOK (k + 1) { s with env := [] :: s.env } :=
      ⟨by simp; exact hS.len, closedE_cons.mpr ⟨by simp, hS.cl⟩⟩
    obtain ⟨e1, P1⟩ := ih.evalDo depth stmts ret (n + 1) (k + 1) { s with env := [] :: s.env } (by omega) hS1
      hw.1 hw.2 hm.1 hm.2 ((hF.imp fun x hx => .doBlock hx).push [])
    have e0 : ({ addT t w k s with env := [] :: (addT t w k s).env } : ES) =
        addT t w (k + 1) { s with env := [] :: s.env } := rfl
    rw [e0, e1]; clear e1
    have hsb := (evalDo_keys ops fuel depth stmts ret { s with env := [] :: s.env }).below
    have hdrop := hsb.drop_push
    generalize evalDo ops fuel depth stmts ret { s with env := [] :: s.env } = p at P1 hdrop ⊢
    obtain ⟨r, s1⟩ := p
    refine ⟨by simp only [addT, addAt_drop], ?_, P1.names, closedE_drop P1.cl 1, P1.val⟩
    show KeysExt s.env (s1.env.drop 1)
    rw [hdrop]
    exact KeysExt.refl _
  | call f args =>
    simp only [noOutput, Bool.and_eq_true] at hw
    simp only [mentions, Bool.or_eq_false_iff] at hm
    rw [eval, eval]
    obtain ⟨e1, P1⟩ := ih.eval depth f n k s hn hS hw.1 hm.1 (hF.imp fun x hx => .callF hx)
    rw [e1]; clear e1
    generalize eval ops fuel depth f s = p at P1 ⊢
    obtain ⟨r1, s1⟩ := p
    cases r1 with
    | ok fv =>
      dsimp only
      obtain ⟨e2, P2⟩ := ih.evalList depth args n k s1 hn (hS.next P1) hw.2 hm.2
        ((hF.imp fun x hx => .callA hx).step hn hE P1.keys)
      rw [e2]; clear e2
      generalize evalList ops fuel depth args s1 = q at P2 ⊢
      obtain ⟨r2, s2⟩ := q
      cases r2 with
      | ok raw =>
        dsimp only
        have P12 := P1.trans P2
        split
        · exact ⟨rfl, P12.re (by intro _ h; cases h)⟩
        · have hfv := (P1.val fv rfl).mono P2.names
          obtain ⟨e3, P3⟩ := callFn_addT ops w ht fuel fv fv (flattenSpreads raw) depth k s2 (hS.next P12).cl
            hfv hfv (closedL_flattenSpreads (P2.val raw rfl))
          rw [e3]
          exact ⟨rfl, P12.trans P3.toPost⟩
      | _ => exact ⟨rfl, (P1.trans P2).re (by intro _ h; cases h)⟩
    | _ => exact ⟨rfl, P1.re (by intro _ h; cases h)⟩

/-! ### do-blocks -/

theorem weak_evalDoStmt {fuel : Nat} (ih : Weak ops t w fuel) (depth : Nat) (e : Expr) (n k : Nat) (s : ES)
    (hn : 0 < n) (hS : WOK k s) (hw : noOutput e = true) (hm : mentions t e = false)
    (hF : FOK n s.env (FreeIn · e)) :
    WSim t w k ClosedV s (evalDoStmt ops (fuel + 1) depth e s)
      (evalDoStmt ops (fuel + 1) depth e (addT t w k s)) := by
  rw [evalDoStmt.eq_def, evalDoStmt.eq_def]
  dsimp only
  cases e with
  | assign nm v =>
    simp only [noOutput] at hw
    simp only [mentions, Bool.or_eq_false_iff, beq_eq_false_iff_ne] at hm
    dsimp only
    split
    · exact ⟨rfl, Post.same hS.cl (by intro _ h; cases h)⟩
    obtain ⟨e1, P1⟩ := ih.eval depth v n k s hn hS hw hm.2 (hF.imp fun x hx => .assign hx)
    rw [e1]; clear e1
    generalize eval ops fuel depth v s = p at P1 ⊢
    obtain ⟨r, s1⟩ := p
    cases r with
    | ok val =>
      dsimp only
      simp only [show (addT t w k s).nextId = s.nextId from rfl]
      exact ⟨by rw [eq_assign_addT k s1 val nm _ hm.1 (hS.next P1).len], post_assign nm _ P1⟩
    | _ => exact ⟨rfl, P1.re (by intro _ h; cases h)⟩
  | _ => exact ih.eval depth _ n k s hn hS hw hm hF

theorem weak_evalDo {fuel : Nat} (ih : Weak ops t w fuel) (depth : Nat) (stmts : List Item) (ret : Item)
    (n k : Nat) (s : ES) (hn : 0 < n) (hS : WOK k s) (hw1 : noOutputItems stmts = true)
    (hw2 : noOutputItem ret = true) (hm1 : mentionsItems t stmts = false) (hm2 : mentionsItem t ret = false)
    (hF : FOK n s.env (FreeInDo · stmts ret)) :
    WSim t w k ClosedV s (evalDo ops (fuel + 1) depth stmts ret s)
      (evalDo ops (fuel + 1) depth stmts ret (addT t w k s)) := by
  cases stmts with
  | nil =>
    obtain ⟨_, e, _⟩ := ret
    rw [evalDo, evalDo]
    exact ih.evalDoStmt depth e n k s hn hS hw2 hm2 (hF.imp fun x hx => .ret hx)
  | cons i rest =>
    obtain ⟨_, e, _⟩ := i
    simp only [noOutputItems, noOutputItem, Bool.and_eq_true] at hw1
    simp only [mentionsItems, mentionsItem, Bool.or_eq_false_iff] at hm1
    rw [evalDo, evalDo]
    obtain ⟨e1, P1⟩ := ih.evalDoStmt depth e n k s hn hS hw1.1 hm1.1 (hF.imp fun x hx => .here hx)
    rw [e1]; clear e1
    have hb : ∀ val s1, evalDoStmt ops fuel depth e s = (.ok val, s1) →
        ∀ x v, e = .assign x v → (lookupAL x (s1.env.headD [])).isSome := by
      intro val s1 h x v he
      subst he
      exact evalDoStmt_assign_binds ops fuel depth x v s s1 val h
    generalize evalDoStmt ops fuel depth e s = p at P1 hb ⊢
    obtain ⟨r, s1⟩ := p
    cases r with
    | ok val =>
      dsimp only
      have hS1 := hS.next P1
      obtain ⟨e2, P2⟩ := ih.evalDo depth rest ret n k s1 hn hS1 hw1.2 hw2 hm1.2 hm2 (by
        intro x hx
        by_cases hbx : ∃ v, e = .assign x v
        · obtain ⟨v, hv⟩ := hbx
          have h1 := hb val s1 rfl x v hv
          have hne := hS1.ne
          obtain ⟨m, rfl⟩ : ∃ m, n = m + 1 := ⟨n - 1, by omega⟩
          cases hs1 : s1.env with
          | nil => exact absurd hs1 hne
          | cons f1 R =>
            rw [hs1] at h1
            exact Or.inr (InTop.of_top h1)
        · exact (hF x (.later hx (fun v hv => hbx ⟨v, hv⟩))).imp_right
            (InTop.mono hn hS.ne P1.keys))
      rw [e2]
      exact ⟨rfl, P1.trans P2⟩
    | _ => exact ⟨rfl, P1.re (by intro _ h; cases h)⟩

/-! ### the induction -/

theorem weak_succ (ht : t ≠ "inputs") {fuel : Nat} (ih : Weak ops t w fuel) : Weak ops t w (fuel + 1) :=
  ⟨weak_eval ht ih, weak_evalList ih, weak_evalItems ih, weak_evalEntries ih, weak_evalDoStmt ih, weak_evalDo ih⟩

theorem weak (ops : NumOps) {t : String} (w : Value) (ht : t ≠ "inputs") : ∀ fuel, Weak ops t w fuel
  | 0 => weak_zero
  | fuel + 1 => weak_succ ht (weak ops w ht fuel)

end

/-! ### "every free name is bound": `FOK` at the length of the chain -/

theorem fok_of_bound {E : List Frame} {P : String → Prop}
    (h : ∀ x, P x → x = "inputs" ∨ (envGet E x).isSome) : FOK E.length E P := by
  intro x hx
  refine (h x hx).imp_right ?_
  intro hb
  unfold InTop
  rw [List.take_length]
  exact hb

/-! ### definitions: creating a function evaluates nothing -/

theorem weak_lambda (ops : NumOps) {t : String} (w : Value) (fuel depth : Nat) (args : List LArg) (body : Expr)
    (k : Nat) (s : ES) (hm : mentions t (.lambda args body) = false) :
    eval ops fuel depth (.lambda args body) (addT t w k s) =
      ((eval ops fuel depth (.lambda args body) s).1, addT t w k (eval ops fuel depth (.lambda args body) s).2) := by
  cases fuel with
  | zero => simp [eval]
  | succ fuel =>
    simp only [mentions, Bool.or_eq_false_iff] at hm
    rw [eval, eval]
    split
    · rfl
    have : captureScope (addT t w k s).env (freeVars (args.map LArg.name) body) =
        captureScope s.env (freeVars (args.map LArg.name) body) := by
      unfold captureScope
      apply captureScope_congr
      intro y hy
      have hyt : y ≠ t := by
        intro e; subst e
        have := freeVars_mentions body _ y hy
        rw [hm.2] at this; cases this
      exact envGet_addAt t w hyt k s.env
    simp only [this]
    rfl

theorem weak_definition (ops : NumOps) {t : String} (w : Value) (fuel depth : Nat) (nm : String)
    (args : List LArg) (body : Expr) (k : Nat) (s : ES) (hk : k < s.env.length)
    (hm : mentions t (.assign nm (.lambda args body)) = false) :
    eval ops fuel depth (.assign nm (.lambda args body)) (addT t w k s) =
      ((eval ops fuel depth (.assign nm (.lambda args body)) s).1,
       addT t w k (eval ops fuel depth (.assign nm (.lambda args body)) s).2) := by
  cases fuel with
  | zero => simp [eval]
  | succ fuel =>
    rw [mentions, Bool.or_eq_false_iff, beq_eq_false_iff_ne] at hm
    have hcont : ∀ s : ES, alreadyDefined depth (addT t w k s).env nm = alreadyDefined depth s.env nm :=
      fun s => alreadyDefined_addAt t w hm.1 depth k s.env
    rw [eval, eval, hcont]
    split
    · rfl
    split
    · rfl
    split
    · rfl
    rw [weak_lambda ops w fuel depth args body k s hm.2]
    have hk1 : k < (eval ops fuel depth (.lambda args body) s).2.env.length :=
      len_of_ext (eval_topExt ops fuel depth _ s).below hk
    generalize eval ops fuel depth (.lambda args body) s = p at hk1 ⊢
    obtain ⟨r, s1⟩ := p
    cases r <;> try rfl
    dsimp only
    rw [hcont]
    split
    · rfl
    · rename_i val _
      simp only [show (addT t w k s).nextId = s.nextId from rfl]
      rw [eq_assign_addT k s1 val nm _ hm.1 hk1]

end Blots
