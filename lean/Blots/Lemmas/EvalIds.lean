import Blots.Lemmas.EvalNames
import Lean.Elab.Tactic
/-
  Freshness of function cells: every function value reachable from the state (environment,
  captured scopes, arguments, results) lives in a cell `< nextId`, and so does every cell that
  has a name.  Preserved by all fifteen functions of the evaluator, whatever the outcome.

  * `Value.idsLt N v`  : every function value inside `v` (captured scopes included) has `id < N`.
  * `envLt N env`      : the same for every binding of every frame.
  * `NamesFresh s`     : every entry of `s.names` is for a cell `< s.nextId`.
  * `StateOk s`        : `envLt s.nextId s.env ∧ NamesFresh s`.
  * `callPure_keeps_idsLt` : the callback-free built-ins only return function values taken
    from their arguments.
  * `fresh_group`      : the invariant for the fifteen functions (structure `FreshStep`).

  The data lemmas follow those of `Lemmas/EvalDepth.lean` / `Lemmas/CallPureNSB.lean` (`nsb`) for a
  different predicate; that chain cannot be imported here (`Lemmas/EvalBin.lean` and
  `Lemmas/EvalEnv.lean` both define `Blots.toyOps`), so the few generic helpers are repeated
  under other names.
-/
namespace Blots

/-! ### "every function cell inside is `< N`" -/

mutual
def Value.idsLt (N : Nat) : Value → Bool
  | .list xs => Value.idsLtList N xs
  | .record r => Value.idsLtRec N r
  | .lambda id _ _ scope => decide (id < N) && Value.idsLtRec N scope
  | .spread v => Value.idsLt N v
  | .builtin _ => true
  | .num _ => true
  | .bool _ => true
  | .null => true
  | .str _ => true
def Value.idsLtList (N : Nat) : List Value → Bool
  | [] => true
  | x :: xs => Value.idsLt N x && Value.idsLtList N xs
def Value.idsLtRec (N : Nat) : List (String × Value) → Bool
  | [] => true
  | (_, v) :: r => Value.idsLt N v && Value.idsLtRec N r
end

def envLt (N : Nat) : List Frame → Bool
  | [] => true
  | f :: fs => Value.idsLtRec N f && envLt N fs

section data
variable {N : Nat}

/-! ### data lemmas -/

theorem idsLtList_iff : ∀ (xs : List Value), Value.idsLtList N xs = true ↔ ∀ x ∈ xs, x.idsLt N = true
  | [] => by simp [Value.idsLtList]
  | x :: xs => by simp [Value.idsLtList, idsLtList_iff xs]

theorem idsLtRec_iff : ∀ (r : List (String × Value)), Value.idsLtRec N r = true ↔ ∀ kv ∈ r, kv.2.idsLt N = true
  | [] => by simp [Value.idsLtRec]
  | (k, v) :: r => by simp [Value.idsLtRec, idsLtRec_iff r]

theorem envLt_iff : ∀ (e : List Frame), envLt N e = true ↔ ∀ f ∈ e, Value.idsLtRec N f = true
  | [] => by simp [envLt]
  | f :: fs => by simp [envLt, envLt_iff fs]

theorem idsLt_of_mem_list {xs : List Value} {x : Value} (h : Value.idsLtList N xs = true) (hx : x ∈ xs) :
    x.idsLt N = true := (idsLtList_iff xs).mp h x hx

theorem idsLt_getElem? {xs : List Value} {i : Nat} {x : Value} (h : Value.idsLtList N xs = true)
    (hx : xs[i]? = some x) : x.idsLt N = true :=
  idsLt_of_mem_list h (List.mem_of_getElem? hx)

theorem idsLtList_drop {xs : List Value} (h : Value.idsLtList N xs = true) (k : Nat) :
    Value.idsLtList N (xs.drop k) = true :=
  (idsLtList_iff _).mpr fun _ hx => idsLt_of_mem_list h (List.mem_of_mem_drop hx)

theorem idsLtList_append {xs ys : List Value} :
    Value.idsLtList N (xs ++ ys) = true ↔ Value.idsLtList N xs = true ∧ Value.idsLtList N ys = true := by
  simp only [idsLtList_iff, List.mem_append]
  constructor
  · intro h; exact ⟨fun x hx => h x (Or.inl hx), fun x hx => h x (Or.inr hx)⟩
  · rintro ⟨h1, h2⟩ x (hx | hx); exact h1 x hx; exact h2 x hx

theorem idsLt_lookupAL {k : String} {v : Value} : ∀ {r : List (String × Value)},
    Value.idsLtRec N r = true → lookupAL k r = some v → v.idsLt N = true
  | [], _, h => by simp [lookupAL] at h
  | (k', v') :: r, hr, h => by
    simp only [Value.idsLtRec, Bool.and_eq_true] at hr
    simp only [lookupAL] at h
    split at h
    · injection h with h; subst h; exact hr.1
    · exact idsLt_lookupAL hr.2 h

theorem idsLt_lookupAL_getD {k : String} {r : List (String × Value)} (hr : Value.idsLtRec N r = true) :
    ((lookupAL k r).getD .null).idsLt N = true := by
  cases h : lookupAL k r with
  | none => rfl
  | some v => exact idsLt_lookupAL hr h

theorem idsLt_insertAL {k : String} {v : Value} (hv : v.idsLt N = true) : ∀ {r : List (String × Value)},
    Value.idsLtRec N r = true → Value.idsLtRec N (insertAL k v r) = true
  | [], _ => by simp [insertAL, Value.idsLtRec, hv]
  | (k', v') :: r, hr => by
    simp only [Value.idsLtRec, Bool.and_eq_true] at hr
    simp only [insertAL]
    split
    · simp [Value.idsLtRec, hv, hr.2]
    · simp [Value.idsLtRec, hr.1, idsLt_insertAL hv hr.2]

theorem idsLt_envGet {k : String} {v : Value} : ∀ {env : List Frame},
    envLt N env = true → envGet env k = some v → v.idsLt N = true
  | [], _, h => by simp [envGet] at h
  | f :: rest, he, h => by
    simp only [envLt, Bool.and_eq_true] at he
    simp only [envGet] at h
    split at h
    · rename_i w hw; injection h with h; subst h; exact idsLt_lookupAL he.1 hw
    · exact idsLt_envGet he.2 h

theorem idsLt_envInsert {k : String} {v : Value} {env : List Frame} (he : envLt N env = true)
    (hv : v.idsLt N = true) : envLt N (envInsert env k v) = true := by
  cases env with
  | nil => simp [envInsert, envLt, Value.idsLtRec, hv]
  | cons f rest =>
    simp only [envLt, Bool.and_eq_true] at he
    simp [envInsert, envLt, idsLt_insertAL hv he.1, he.2]

theorem envLt_drop {env : List Frame} (he : envLt N env = true) (k : Nat) :
    envLt N (env.drop k) = true :=
  (envLt_iff _).mpr fun f hf => (envLt_iff _).mp he f (List.mem_of_mem_drop hf)

theorem idsLt_captureScope {env : List Frame} (he : envLt N env = true) (vars : List String) :
    Value.idsLtRec N (captureScope env vars) = true := by
  unfold captureScope
  suffices h : ∀ (acc : Frame), Value.idsLtRec N acc = true →
      Value.idsLtRec N (vars.foldl (fun sc x =>
        match envGet env x with
        | some v => insertAL x v sc
        | none => sc) acc) = true from h [] rfl
  induction vars with
  | nil => intro acc h; exact h
  | cons x xs ih =>
    intro acc h
    simp only [List.foldl_cons]
    apply ih
    split
    · rename_i v hv
      exact idsLt_insertAL (idsLt_envGet he hv) h
    · exact h

theorem idsLt_spreadValues {v : Value} (hv : v.idsLt N = true) : Value.idsLtList N (spreadValues v) = true := by
  cases v with
  | list l => simpa [spreadValues, Value.idsLt] using hv
  | str s => simp [spreadValues, idsLtList_iff, Value.idsLt]
  | record r =>
    simp only [Value.idsLt] at hv
    simp only [spreadValues, idsLtList_iff, List.mem_map]
    rintro x ⟨kv, hkv, rfl⟩
    simp [Value.idsLt, Value.idsLtList, (idsLtRec_iff r).mp hv kv hkv]
  | _ => rfl

theorem idsLt_flattenSpreads : ∀ {vs : List Value}, Value.idsLtList N vs = true →
    Value.idsLtList N (flattenSpreads vs) = true
  | [], _ => rfl
  | v :: vs, h => by
    simp only [Value.idsLtList, Bool.and_eq_true] at h
    have ih := idsLt_flattenSpreads h.2
    unfold flattenSpreads at ih ⊢
    simp only [List.flatMap_cons]
    rw [idsLtList_append]
    refine ⟨?_, ih⟩
    split
    · rename_i inner; exact idsLt_spreadValues (by simpa [Value.idsLt] using h.1)
    · simp [Value.idsLtList, h.1]

theorem idsLt_foldl_insertAL_idx {α} (g : α → Value) (hg : ∀ a, (g a).idsLt N = true) :
    ∀ (xs : List (α × Nat)) (acc : Frame), Value.idsLtRec N acc = true →
      Value.idsLtRec N (xs.foldl (fun r (p : α × Nat) => insertAL (toString p.2) (g p.1) r) acc) = true
  | [], acc, h => h
  | x :: xs, acc, h => by
    simp only [List.foldl_cons]
    exact idsLt_foldl_insertAL_idx g hg xs _ (idsLt_insertAL (hg _) h)

theorem idsLt_spreadIntoRecord {rec : Frame} {v : Value} (hr : Value.idsLtRec N rec = true)
    (hv : v.idsLt N = true) : Value.idsLtRec N (spreadIntoRecord rec v) = true := by
  cases v with
  | list l =>
    simp only [Value.idsLt] at hv
    simp only [spreadIntoRecord]
    suffices h : ∀ (xs : List (Value × Nat)) (acc : Frame), (∀ p ∈ xs, p.1.idsLt N = true) →
        Value.idsLtRec N acc = true →
        Value.idsLtRec N (xs.foldl (fun r (x : Value × Nat) => insertAL (toString x.2) x.1 r) acc) = true by
      apply h _ _ _ hr
      intro p hp
      exact idsLt_of_mem_list hv (List.fst_mem_of_mem_zipIdx hp)
    intro xs
    induction xs with
    | nil => intro acc _ h; exact h
    | cons x xs ih =>
      intro acc hx h
      simp only [List.foldl_cons]
      exact ih _ (fun p hp => hx p (by simp [hp])) (idsLt_insertAL (hx x (by simp)) h)
  | str s =>
    simp only [spreadIntoRecord]
    exact idsLt_foldl_insertAL_idx (fun c => .str (String.singleton c)) (fun _ => rfl) _ _ hr
  | record r2 =>
    simp only [Value.idsLt] at hv
    simp only [spreadIntoRecord]
    suffices h : ∀ (xs : List (String × Value)) (acc : Frame), Value.idsLtRec N xs = true →
        Value.idsLtRec N acc = true →
        Value.idsLtRec N (xs.foldl (fun r kv => insertAL kv.1 kv.2 r) acc) = true from h _ _ hv hr
    intro xs
    induction xs with
    | nil => intro acc _ h; exact h
    | cons x xs ih =>
      intro acc hx h
      obtain ⟨k, v⟩ := x
      simp only [Value.idsLtRec, Bool.and_eq_true] at hx
      simp only [List.foldl_cons]
      exact ih _ hx.2 (idsLt_insertAL hx.1 h)
  | _ => exact hr

theorem idsLt_foldl_insertAL : ∀ (pf : Frame) (acc : Frame), Value.idsLtRec N pf = true →
    Value.idsLtRec N acc = true →
    Value.idsLtRec N (pf.foldl (fun f kv => insertAL kv.1 kv.2 f) acc) = true
  | [], _, _, h => h
  | (k, v) :: pf, acc, hp, h => by
    simp only [Value.idsLtRec, Bool.and_eq_true] at hp
    simp only [List.foldl_cons]
    exact idsLt_foldl_insertAL pf _ hp.2 (idsLt_insertAL hp.1 h)

theorem idsLt_listGetD {l : List Value} (h : Value.idsLtList N l = true) (k : Nat) :
    (listGetD l k).idsLt N = true := by
  unfold listGetD
  cases hk : l[k]? with
  | none => rfl
  | some v => exact idsLt_getElem? h hk

theorem idsLt_bindParams_go {args : List Value} (ha : Value.idsLtList N args = true) :
    ∀ (ps : List LArg) (idx : Nat) (frame pf : Frame), Value.idsLtRec N frame = true →
      bindParams.go args ps idx frame = .ok pf → Value.idsLtRec N pf = true
  | [], _, frame, pf, hf, h => by
    simp only [bindParams.go, Outcome.ok.injEq] at h; subst h; exact hf
  | .req n :: rest, idx, frame, pf, hf, h => by
    simp only [bindParams.go] at h
    split at h
    · rename_i v hv
      exact idsLt_bindParams_go ha rest _ _ pf (idsLt_insertAL (idsLt_getElem? ha hv) hf) h
    · simp at h
  | .opt n :: rest, idx, frame, pf, hf, h => by
    simp only [bindParams.go] at h
    refine idsLt_bindParams_go ha rest _ _ pf (idsLt_insertAL ?_ hf) h
    cases hv : args[idx]? with
    | none => rfl
    | some v => exact idsLt_getElem? ha hv
  | .rest n :: rest, idx, frame, pf, hf, h => by
    simp only [bindParams.go] at h
    exact idsLt_bindParams_go ha rest _ _ pf
      (idsLt_insertAL (by simpa [Value.idsLt] using idsLtList_drop ha idx) hf) h

theorem idsLt_bindParams {params : List LArg} {args : List Value} {pf : Frame}
    (ha : Value.idsLtList N args = true) (h : bindParams params args = .ok pf) :
    Value.idsLtRec N pf = true :=
  idsLt_bindParams_go ha params 0 [] pf rfl h

theorem idsLt_compareOp {op : BinOp} {a b v : Value} (h : compareOp op a b = .ok v) : v.idsLt N = true := by
  cases hv : vcmp a b <;> cases op <;>
    simp [compareOp, orderingsOf, checkOrdering, Outcome.bind, hv] at h <;> (subst h; rfl)

theorem idsLt_scalarOp {ops : NumOps} {ew : Bool} {op : BinOp} {a b v : Value}
    (ha : a.idsLt N = true) (hb : b.idsLt N = true) (h : scalarOp ops ew op a b = .ok v) : v.idsLt N = true := by
  cases op
  case coalesce =>
    simp only [scalarOp, Outcome.ok.injEq] at h
    subst h; split <;> assumption
  case via => simp [scalarOp] at h
  case into => simp [scalarOp] at h
  case where_ => simp [scalarOp] at h
  case eq => exact idsLt_compareOp (op := .eq) h
  case ne => exact idsLt_compareOp (op := .ne) h
  case lt => exact idsLt_compareOp (op := .lt) h
  case le => exact idsLt_compareOp (op := .le) h
  case gt => exact idsLt_compareOp (op := .gt) h
  case ge => exact idsLt_compareOp (op := .ge) h
  case deq => exact idsLt_compareOp (op := .deq) h
  case dne => exact idsLt_compareOp (op := .dne) h
  case dlt => exact idsLt_compareOp (op := .dlt) h
  case dle => exact idsLt_compareOp (op := .dle) h
  case dgt => exact idsLt_compareOp (op := .dgt) h
  case dge => exact idsLt_compareOp (op := .dge) h
  all_goals
    cases ew <;> cases a <;> cases b <;>
      simp [scalarOp, logicalOperands, asBool, asNumber, asString, Outcome.bind, bind, pure] at h <;>
      (subst h; rfl)

theorem idsLt_mapScalar {ops : NumOps} {op : BinOp} {lf : Bool} {sc : Value} (hs : sc.idsLt N = true) :
    ∀ {L : List Value} {v : Value}, Value.idsLtList N L = true → mapScalar ops op lf L sc = .ok v →
      v.idsLt N = true
  | [], v, _, h => by simp only [mapScalar, Outcome.ok.injEq] at h; subst h; rfl
  | x :: xs, v, hL, h => by
    simp only [Value.idsLtList, Bool.and_eq_true] at hL
    simp only [mapScalar] at h
    split at h
    · rename_i r hr
      have hrn : r.idsLt N = true := by
        unfold elemScalar at hr
        split at hr
        · exact idsLt_scalarOp hL.1 hs hr
        · exact idsLt_scalarOp hL.1 hs hr
        · exact idsLt_scalarOp hL.1 hs hr
        · split at hr
          · exact idsLt_scalarOp hL.1 hs hr
          · exact idsLt_scalarOp hs hL.1 hr
      split at h
      · rename_i rs hrs
        have := idsLt_mapScalar hs hL.2 hrs
        simp only [Outcome.ok.injEq] at h; subst h
        simp only [Value.idsLt] at this
        simp [Value.idsLt, Value.idsLtList, hrn, this]
      · rename_i hne
        exact idsLt_mapScalar hs hL.2 h
    · rename_i hne
      exact absurd h (hne _)

theorem idsLt_zipScalar {ops : NumOps} {op : BinOp} :
    ∀ {la lb : List Value} {v : Value}, Value.idsLtList N la = true → Value.idsLtList N lb = true →
      zipScalar ops op la lb = .ok v → v.idsLt N = true
  | [], _, v, _, _, h => by simp only [zipScalar, Outcome.ok.injEq] at h; subst h; rfl
  | _ :: _, [], v, _, _, h => by simp only [zipScalar, Outcome.ok.injEq] at h; subst h; rfl
  | x :: xs, y :: ys, v, ha, hb, h => by
    simp only [Value.idsLtList, Bool.and_eq_true] at ha hb
    simp only [zipScalar] at h
    split at h
    · rename_i r hr
      have hrn := idsLt_scalarOp ha.1 hb.1 hr
      split at h
      · rename_i rs hrs
        have := idsLt_zipScalar ha.2 hb.2 hrs
        simp only [Outcome.ok.injEq] at h; subst h
        simp only [Value.idsLt] at this
        simp [Value.idsLt, Value.idsLtList, hrn, this]
      · exact idsLt_zipScalar ha.2 hb.2 h
    · rename_i hne
      exact absurd h (hne _)

theorem idsLtRec_filter {r : List (String × Value)} (h : Value.idsLtRec N r = true)
    (p : String × Value → Bool) : Value.idsLtRec N (r.filter p) = true :=
  (idsLtRec_iff _).mpr fun kv hkv => (idsLtRec_iff _).mp h kv (List.mem_filter.mp hkv).1

theorem idsLt_groupByKeys : ∀ {xs ks : List Value} {r : Frame}, Value.idsLtList N xs = true →
    groupByKeys xs ks = some r → Value.idsLtRec N r = true
  | [], [], r, _, h => by simp [groupByKeys] at h; subst h; rfl
  | [], _ :: _, r, _, h => by simp [groupByKeys] at h
  | _ :: _, [], r, _, h => by simp [groupByKeys] at h
  | x :: xs, k :: ks, r, hx, h => by
    simp only [Value.idsLtList, Bool.and_eq_true] at hx
    cases k <;> simp only [groupByKeys, reduceCtorEq] at h
    rename_i key
    simp only [Option.map_eq_some_iff] at h
    obtain ⟨rest, hrest, rfl⟩ := h
    have ih := idsLt_groupByKeys hx.2 hrest
    split
    · rename_i g hg
      have hgn := idsLt_lookupAL ih hg
      simp only [Value.idsLt] at hgn
      simp [Value.idsLtRec, Value.idsLt, Value.idsLtList, hx.1, hgn, idsLtRec_filter ih]
    · simp [Value.idsLtRec, Value.idsLt, Value.idsLtList, hx.1, ih]

theorem idsLt_countByKeys {ops : NumOps} : ∀ {ks : List Value} {r : Frame},
    countByKeys ops ks = some r → Value.idsLtRec N r = true
  | [], r, h => by simp [countByKeys] at h; subst h; rfl
  | k :: ks, r, h => by
    cases k <;> simp only [countByKeys, reduceCtorEq] at h
    simp only [Option.map_eq_some_iff] at h
    obtain ⟨rest, hrest, rfl⟩ := h
    have ih := idsLt_countByKeys hrest
    split <;> simp [Value.idsLtRec, Value.idsLt, ih, idsLtRec_filter ih]

theorem idsLt_constants : Value.idsLt N (.record constantsRecord) = true := by
  simp [constantsRecord, Value.idsLt, Value.idsLtRec]
theorem idsLtRec_constants : Value.idsLtRec N constantsRecord = true := by
  simp [constantsRecord, Value.idsLt, Value.idsLtRec]

/-! ### monotonicity in the bound -/

mutual
theorem idsLt_mono {n m : Nat} (h : n ≤ m) : ∀ (v : Value), v.idsLt n = true → v.idsLt m = true
  | .list xs, hv => by
    simp only [Value.idsLt] at hv ⊢; exact idsLtList_mono h xs hv
  | .record r, hv => by
    simp only [Value.idsLt] at hv ⊢; exact idsLtRec_mono h r hv
  | .lambda id _ _ scope, hv => by
    simp only [Value.idsLt, Bool.and_eq_true, decide_eq_true_eq] at hv ⊢
    exact ⟨Nat.lt_of_lt_of_le hv.1 h, idsLtRec_mono h scope hv.2⟩
  | .spread v, hv => by
    simp only [Value.idsLt] at hv ⊢; exact idsLt_mono h v hv
  | .builtin _, _ => rfl
  | .num _, _ => rfl
  | .bool _, _ => rfl
  | .null, _ => rfl
  | .str _, _ => rfl
theorem idsLtList_mono {n m : Nat} (h : n ≤ m) : ∀ (xs : List Value),
    Value.idsLtList n xs = true → Value.idsLtList m xs = true
  | [], _ => rfl
  | x :: xs, hv => by
    simp only [Value.idsLtList, Bool.and_eq_true] at hv ⊢
    exact ⟨idsLt_mono h x hv.1, idsLtList_mono h xs hv.2⟩
theorem idsLtRec_mono {n m : Nat} (h : n ≤ m) : ∀ (r : List (String × Value)),
    Value.idsLtRec n r = true → Value.idsLtRec m r = true
  | [], _ => rfl
  | (_, v) :: r, hv => by
    simp only [Value.idsLtRec, Bool.and_eq_true] at hv ⊢
    exact ⟨idsLt_mono h v hv.1, idsLtRec_mono h r hv.2⟩
end

theorem envLt_mono {n m : Nat} (h : n ≤ m) : ∀ (e : List Frame), envLt n e = true → envLt m e = true
  | [], _ => rfl
  | f :: fs, hv => by
    simp only [envLt, Bool.and_eq_true] at hv ⊢
    exact ⟨idsLtRec_mono h f hv.1, envLt_mono h fs hv.2⟩

/-! ### the cells occurring inside a value -/

mutual
/-- the function cell `i` occurs inside the value (captured scopes included) -/
def Value.hasId (i : Nat) : Value → Bool
  | .list xs => Value.hasIdList i xs
  | .record r => Value.hasIdRec i r
  | .lambda id _ _ scope => id == i || Value.hasIdRec i scope
  | .spread v => Value.hasId i v
  | .builtin _ => false
  | .num _ => false
  | .bool _ => false
  | .null => false
  | .str _ => false
def Value.hasIdList (i : Nat) : List Value → Bool
  | [] => false
  | x :: xs => Value.hasId i x || Value.hasIdList i xs
def Value.hasIdRec (i : Nat) : List (String × Value) → Bool
  | [] => false
  | (_, v) :: r => Value.hasId i v || Value.hasIdRec i r
end

mutual
theorem lt_of_hasId {N i : Nat} : ∀ (v : Value), v.idsLt N = true → v.hasId i = true → i < N
  | .list xs, hv, hi => by
    simp only [Value.idsLt, Value.hasId] at hv hi; exact lt_of_hasIdList xs hv hi
  | .record r, hv, hi => by
    simp only [Value.idsLt, Value.hasId] at hv hi; exact lt_of_hasIdRec r hv hi
  | .lambda id _ _ scope, hv, hi => by
    simp only [Value.idsLt, Value.hasId, Bool.and_eq_true, decide_eq_true_eq, Bool.or_eq_true, beq_iff_eq] at hv hi
    rcases hi with rfl | hi
    · exact hv.1
    · exact lt_of_hasIdRec scope hv.2 hi
  | .spread v, hv, hi => by
    simp only [Value.idsLt, Value.hasId] at hv hi; exact lt_of_hasId v hv hi
  | .builtin _, _, hi => by simp [Value.hasId] at hi
  | .num _, _, hi => by simp [Value.hasId] at hi
  | .bool _, _, hi => by simp [Value.hasId] at hi
  | .null, _, hi => by simp [Value.hasId] at hi
  | .str _, _, hi => by simp [Value.hasId] at hi
theorem lt_of_hasIdList {N i : Nat} : ∀ (xs : List Value),
    Value.idsLtList N xs = true → Value.hasIdList i xs = true → i < N
  | [], _, hi => by simp [Value.hasIdList] at hi
  | x :: xs, hv, hi => by
    simp only [Value.idsLtList, Value.hasIdList, Bool.and_eq_true, Bool.or_eq_true] at hv hi
    rcases hi with hi | hi
    · exact lt_of_hasId x hv.1 hi
    · exact lt_of_hasIdList xs hv.2 hi
theorem lt_of_hasIdRec {N i : Nat} : ∀ (r : List (String × Value)),
    Value.idsLtRec N r = true → Value.hasIdRec i r = true → i < N
  | [], _, hi => by simp [Value.hasIdRec] at hi
  | (_, v) :: r, hv, hi => by
    simp only [Value.idsLtRec, Value.hasIdRec, Bool.and_eq_true, Bool.or_eq_true] at hv hi
    rcases hi with hi | hi
    · exact lt_of_hasId v hv.1 hi
    · exact lt_of_hasIdRec r hv.2 hi
end


/-! ### the state invariant -/

/-- every named cell has been created -/
def NamesFresh (s : ES) : Prop := ∀ p ∈ s.names, p.1 < s.nextId

/-- every function value reachable from the environment and every named cell is `< nextId` -/
structure StateOk (s : ES) : Prop where
  env : envLt s.nextId s.env = true
  names : NamesFresh s

theorem StateOk.alloc {s : ES} (h : StateOk s) (e : List Frame) (he : envLt (s.nextId + 1) e = true) :
    StateOk { env := e, nextId := s.nextId + 1, names := s.names } :=
  ⟨he, fun p hp => Nat.lt_succ_of_lt (h.names p hp)⟩

/-- same cells and names, another environment -/
theorem StateOk.withEnv {s : ES} (h : StateOk s) (e : List Frame) (he : envLt s.nextId e = true) :
    StateOk { env := e, nextId := s.nextId, names := s.names } := ⟨he, h.names⟩

/-- the assignment step -/
theorem StateOk.assign {s1 : ES} (h : StateOk s1) (x : String) (k : Nat) (val : Value)
    (hv : val.idsLt s1.nextId = true) :
    StateOk { env := envInsert (setNameIfLambda s1 x (createdSince k val)).env x val,
              nextId := (setNameIfLambda s1 x (createdSince k val)).nextId,
              names := (setNameIfLambda s1 x (createdSince k val)).names } := by
  rw [setNameIfLambda_env, setNameIfLambda_nextId]
  refine ⟨idsLt_envInsert h.env hv, ?_⟩
  intro p hp
  simp only at hp ⊢
  unfold createdSince at hp
  split at hp
  · rename_i id ps body sc
    split at hp
    · unfold setNameIfLambda at hp
      simp only at hp
      split at hp
      · rcases List.mem_cons.mp hp with rfl | hp
        · simp only [Value.idsLt, Bool.and_eq_true, decide_eq_true_eq] at hv
          exact hv.1
        · exact h.names p hp
      · exact h.names p hp
    · exact h.names p hp
  · rename_i hnl
    unfold setNameIfLambda at hp
    split at hp
    · exact absurd rfl (hnl _ _ _ _)
    · exact h.names p hp


/-! ### the callback-free built-ins -/

open Lean Elab Tactic Meta in
/-- `fwdAllI [g₁, …]`: for every hypothesis `h` that is an equation add `gᵢ h` for each lemma
    that applies (no filtering: the lemmas are matched up to unfolding of `match` auxiliaries) -/
elab "fwdAllI " "[" gs:ident,* "]" : tactic => withMainContext do
  let lctx ← getLCtx
  for d in lctx do
    if d.isImplementationDetail then continue
    let ty ← instantiateMVars d.type
    let some _ := ty.eq? | continue
    for g in gs.getElems do
      try
        let hstx ← Term.exprToSyntax d.toExpr
        evalTactic (← `(tactic| have := $g:ident $hstx))
      catch _ => pure ()

theorem argI_some {args : List Value} {i : Nat} {msg : String} {x : Value}
    (h : (match args[i]? with
          | some v => Outcome.ok v
          | none => Outcome.panic msg) = Outcome.ok x) : args[i]? = some x := by
  split at h
  · rename_i v hv; injection h with h; subst h; exact hv
  · simp at h

theorem asListI_ok {v : Value} {l : List Value} (h : asList v = .ok l) : v = .list l := by
  cases v <;> simp [asList] at h; subst h; rfl

theorem asRecordI_ok {v : Value} {r : List (String × Value)} (h : asRecord v = .ok r) : v = .record r := by
  cases v <;> simp [asRecord] at h; subst h; rfl

theorem idsLtList_of_subset {xs ys : List Value} (hx : Value.idsLtList N xs = true)
    (h : ∀ y ∈ ys, y ∈ xs) : Value.idsLtList N ys = true :=
  (idsLtList_iff ys).mpr fun y hy => idsLt_of_mem_list hx (h y hy)

theorem memI_mergeBy {α} (lt : α → α → Bool) (x : α) : ∀ (l r : List α), x ∈ mergeBy lt l r → x ∈ l ∨ x ∈ r := by
  intro l r
  fun_induction mergeBy lt l r with
  | case1 r => intro h; exact Or.inr h
  | case2 l _ => intro h; exact Or.inl h
  | case3 a l b r hlt ih =>
    intro h
    simp only [List.mem_cons] at h ⊢
    rcases h with h | h
    · exact Or.inr (Or.inl h)
    · rcases ih h with h | h
      · exact Or.inl (by simpa using h)
      · exact Or.inr (Or.inr h)
  | case4 a l b r hlt ih =>
    intro h
    simp only [List.mem_cons] at h ⊢
    rcases h with h | h
    · exact Or.inl (Or.inl h)
    · rcases ih h with h | h
      · exact Or.inl (Or.inr h)
      · exact Or.inr (by simpa using h)

theorem memI_mergeSortBy {α} (lt : α → α → Bool) (x : α) : ∀ (fuel : Nat) (xs : List α),
    x ∈ mergeSortBy lt fuel xs → x ∈ xs
  | 0, xs, h => by simpa [mergeSortBy] using h
  | fuel + 1, xs, h => by
    simp only [mergeSortBy] at h
    split at h
    · exact h
    · rcases memI_mergeBy lt x _ _ h with h | h
      · exact List.mem_of_mem_take (memI_mergeSortBy lt x fuel _ h)
      · exact List.mem_of_mem_drop (memI_mergeSortBy lt x fuel _ h)

theorem memI_uniqueBy (x : Value) (xs : List Value) (h : x ∈ uniqueBy xs) : x ∈ xs := by
  unfold uniqueBy at h
  suffices hs : ∀ (ys acc : List Value), x ∈ ys.foldl (fun acc x => if acc.any (fun y => veq x y) then acc
      else acc ++ [x]) acc → x ∈ acc ∨ x ∈ ys by
    rcases hs xs [] h with h | h
    · simp at h
    · exact h
  intro ys
  induction ys with
  | nil => intro acc h; exact Or.inl h
  | cons y ys ih =>
    intro acc h
    simp only [List.foldl_cons] at h
    rcases ih _ h with h | h
    · split at h
      · exact Or.inl h
      · simp only [List.mem_append, List.mem_singleton] at h
        rcases h with h | h
        · exact Or.inl h
        · exact Or.inr (by simp [h])
    · exact Or.inr (by simp [h])

theorem idsLt_chunkList (k : Nat) : ∀ (fuel : Nat) (xs : List Value), Value.idsLtList N xs = true →
    Value.idsLtList N (chunkList k fuel xs) = true
  | 0, _, _ => rfl
  | fuel + 1, xs, h => by
    simp only [chunkList]
    split
    · rfl
    · simp only [Value.idsLtList, Value.idsLt, Bool.and_eq_true]
      exact ⟨idsLtList_of_subset h fun y hy => List.mem_of_mem_take hy,
        idsLt_chunkList k fuel _ (idsLtList_drop h k)⟩

theorem idsLt_zipRows (lists : List (List Value)) (n : Nat)
    (h : ∀ l ∈ lists, Value.idsLtList N l = true) : Value.idsLtList N (zipRows lists n) = true := by
  unfold zipRows
  rw [idsLtList_iff]
  intro x hx
  simp only [List.mem_map, List.mem_range] at hx
  obtain ⟨i, _, rfl⟩ := hx
  simp only [Value.idsLt, idsLtList_iff, List.mem_map]
  rintro y ⟨l, hl, rfl⟩
  exact idsLt_listGetD (h l hl) i

theorem idsLt_uncheckedCmp {name : String} {a b v : Value} (h : uncheckedCmp name a b = .ok v) :
    v.idsLt N = true := by
  unfold uncheckedCmp at h
  split at h <;> simp at h <;> (subst h; rfl)

theorem arg_idsLt {args : List Value} {i : Nat} {msg : String} {x : Value}
    (h : (match args[i]? with
          | some v => Outcome.ok v
          | none => Outcome.panic msg) = Outcome.ok x) (ha : Value.idsLtList N args = true) :
    x.idsLt N = true := idsLt_getElem? ha (argI_some h)

theorem idsLt_headD {l : List Value} (h : Value.idsLtList N l = true) : (l.head?.getD .null).idsLt N = true := by
  cases l with
  | nil => rfl
  | cons x xs => simp only [Value.idsLtList, Bool.and_eq_true] at h; simpa using h.1

theorem idsLt_concat {args : List Value} (ha : Value.idsLtList N args = true) :
    Value.idsLtList N (args.flatMap fun
      | .list l => l
      | .spread (.list l) => l
      | .spread (.str s) => (chars s).map fun c => .str (String.singleton c)
      | v => [v]) = true := by
  rw [idsLtList_iff]
  intro x hx
  simp only [List.mem_flatMap] at hx
  obtain ⟨a, ha', hx⟩ := hx
  have han := idsLt_of_mem_list ha ha'
  split at hx
  · exact idsLt_of_mem_list (by simpa [Value.idsLt] using han) hx
  · exact idsLt_of_mem_list (by simpa [Value.idsLt] using han) hx
  · simp only [List.mem_map] at hx; obtain ⟨c, _, rfl⟩ := hx; rfl
  · simp only [List.mem_singleton] at hx; subst hx; exact han

theorem idsLt_flatten {l : List Value} (hl : Value.idsLtList N l = true) :
    Value.idsLtList N (l.flatMap fun
      | .list inner => inner
      | v => [v]) = true := by
  rw [idsLtList_iff]
  intro x hx
  simp only [List.mem_flatMap] at hx
  obtain ⟨a, ha', hx⟩ := hx
  have han := idsLt_of_mem_list hl ha'
  split at hx
  · exact idsLt_of_mem_list (by simpa [Value.idsLt] using han) hx
  · simp only [List.mem_singleton] at hx; subst hx; exact han

theorem idsLt_zip_lists : ∀ {args : List Value} {lists : List (List Value)}, Value.idsLtList N args = true →
    Outcome.mapM' (fun v => match v with
          | Value.list l => Outcome.ok l
          | _ => Outcome.err ErrKind.type_) args = .ok lists →
    ∀ l ∈ lists, Value.idsLtList N l = true
  | [], lists, _, h => by
    simp only [Outcome.mapM', Outcome.ok.injEq] at h; subst h; intro l hl; cases hl
  | a :: args, lists, ha, h => by
    simp only [Value.idsLtList, Bool.and_eq_true] at ha
    simp only [Outcome.mapM'] at h
    split at h
    · rename_i y hy
      split at h
      · rename_i ys hys
        simp only [Outcome.ok.injEq] at h; subst h
        intro l hl
        rcases List.mem_cons.mp hl with rfl | hl
        · split at hy
          · simp only [Outcome.ok.injEq] at hy; subst hy
            simpa [Value.idsLt] using ha.1
          · simp at hy
        · exact idsLt_zip_lists ha.2 hys l hl
      all_goals simp at h
    all_goals simp at h

set_option maxHeartbeats 8000000 in
/-- the callback-free built-ins keep the invariant -/
theorem callPure_keeps_idsLt (ops : NumOps) (name : String) (args : List Value) (v : Value)
    (h : callPure ops name args = some (.ok v)) (ha : Value.idsLtList N args = true) : v.idsLt N = true := by
  have argN := @arg_idsLt N
  have cmpN := @idsLt_uncheckedCmp N
  unfold callPure at h
  simp only [] at h
  split at h
  all_goals (try (simp only [Option.some.injEq, reduceCtorEq] at h))
  all_goals (try (
    (try simp only [bind, pure, Outcome.bind] at h)
    (repeat' split at h) <;> (try simp at h) <;> (try (subst h)) <;> (try (simp [Value.idsLt]; done))))
  all_goals (
    fwdAllI [argN, asListI_ok, asRecordI_ok, cmpN]
    (try subst_vars)
    simp_all [Value.idsLt]
    first
      | done
      | (simp [idsLtList_iff, Value.idsLt]; done)
      | exact idsLt_headD ‹_›
      | exact idsLtList_of_subset ‹_› fun y hy => List.mem_of_mem_tail hy
      | exact idsLtList_of_subset ‹_› fun y hy => List.mem_of_mem_take (List.mem_of_mem_drop hy)
      | exact idsLt_concat ‹_›
      | exact idsLtList_of_subset ‹_› fun y hy => memI_uniqueBy y _ hy
      | exact idsLtList_of_subset ‹_› fun y hy => memI_mergeSortBy _ y _ _ hy
      | exact idsLtList_of_subset ‹_› fun y hy => List.mem_reverse.mp hy
      | exact idsLt_flatten ‹_›
      | exact idsLt_zipRows _ _ (idsLt_zip_lists ‹_› ‹_›)
      | exact idsLt_chunkList _ _ _ ‹_›
      | (rw [idsLtList_iff]; intro x hx; simp only [List.mem_map] at hx; obtain ⟨kv, hkv, rfl⟩ := hx
         simp [Value.idsLt, Value.idsLtList, (idsLtRec_iff _).mp ‹_› kv hkv]))


end data

end Blots
