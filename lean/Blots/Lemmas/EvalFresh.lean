import Blots.Lemmas.EvalIds
/-
  Evaluation keeps the freshness invariant `StateOk` (Lemmas/EvalIds.lean), for all fifteen
  functions of the evaluator and every outcome: if every function value reachable from the
  environment (and from the value arguments) lives in a cell `< nextId` and every named cell is
  `< nextId`, the same holds afterwards, and a successful result only contains cells `< nextId`
  of the final state.
-/
namespace Blots

/-- what an evaluation guarantees about the final state and a successful result -/
def FreshV (p : Outcome Value × ES) : Prop :=
  StateOk p.2 ∧ ∀ v, p.1 = .ok v → v.idsLt p.2.nextId = true
def FreshL (p : Outcome (List Value) × ES) : Prop :=
  StateOk p.2 ∧ ∀ vs, p.1 = .ok vs → Value.idsLtList p.2.nextId vs = true
def FreshR (p : Outcome Frame × ES) : Prop :=
  StateOk p.2 ∧ ∀ r, p.1 = .ok r → Value.idsLtRec p.2.nextId r = true

structure FreshStep (ops : NumOps) (n : Nat) : Prop where
  eval : ∀ d e s, StateOk s → FreshV (eval ops n d e s)
  evalList : ∀ d es s, StateOk s → FreshL (evalList ops n d es s)
  evalItems : ∀ d es s, StateOk s → FreshL (evalItems ops n d es s)
  evalEntries : ∀ d es acc s, StateOk s → Value.idsLtRec s.nextId acc = true →
    FreshR (evalEntries ops n d es acc s)
  evalDoStmt : ∀ d e s, StateOk s → FreshV (evalDoStmt ops n d e s)
  evalDo : ∀ d st ret s, StateOk s → FreshV (evalDo ops n d st ret s)
  callFn : ∀ fv this args d s, StateOk s → fv.idsLt s.nextId = true → this.idsLt s.nextId = true →
    Value.idsLtList s.nextId args = true → FreshV (callFn ops n fv this args d s)
  mapCalls : ∀ f w L i d s, StateOk s → f.idsLt s.nextId = true → Value.idsLtList s.nextId L = true →
    FreshL (mapCalls ops n f w L i d s)
  quantCalls : ∀ f w q L i d s, StateOk s → f.idsLt s.nextId = true → Value.idsLtList s.nextId L = true →
    FreshV (quantCalls ops n f w q L i d s)
  foldCalls : ∀ f w acc L i d s, StateOk s → f.idsLt s.nextId = true → acc.idsLt s.nextId = true →
    Value.idsLtList s.nextId L = true → FreshV (foldCalls ops n f w acc L i d s)
  keyCalls : ∀ f L d s, StateOk s → f.idsLt s.nextId = true → Value.idsLtList s.nextId L = true →
    StateOk (keyCalls ops n f L d s).2 ∧ ∀ kr ∈ (keyCalls ops n f L d s).1, kr.1 ∈ L
  callHof : ∀ name args d s, StateOk s → Value.idsLtList s.nextId args = true →
    FreshV (callHof ops n name args d s)
  evalBin : ∀ d op a b s, StateOk s → a.idsLt s.nextId = true → b.idsLt s.nextId = true →
    FreshV (evalBin ops n d op a b s)
  viaPairs : ∀ la lb d s, StateOk s → Value.idsLtList s.nextId la = true →
    Value.idsLtList s.nextId lb = true → FreshV (viaPairs ops n la lb d s)
  whereCalls : ∀ f w L i d s, StateOk s → f.idsLt s.nextId = true → Value.idsLtList s.nextId L = true →
    FreshV (whereCalls ops n f w L i d s)

theorem freshStep_zero (ops : NumOps) : FreshStep ops 0 := by
  constructor <;> intros <;>
    simp_all [eval, evalList, evalItems, evalEntries, evalDoStmt, evalDo, callFn, mapCalls, quantCalls,
      foldCalls, keyCalls, callHof, evalBin, viaPairs, whereCalls, FreshV, FreshL, FreshR]

theorem idsLt_mono' {n m : Nat} {v : Value} (h1 : v.idsLt n = true) (h2 : n ≤ m) : v.idsLt m = true :=
  idsLt_mono h2 v h1
theorem idsLtList_mono' {n m : Nat} {v : List Value} (h1 : Value.idsLtList n v = true) (h2 : n ≤ m) :
    Value.idsLtList m v = true := idsLtList_mono h2 v h1
theorem idsLtRec_mono' {n m : Nat} {v : List (String × Value)} (h1 : Value.idsLtRec n v = true) (h2 : n ≤ m) :
    Value.idsLtRec m v = true := idsLtRec_mono h2 v h1
grind_pattern idsLt_mono' => Value.idsLt n v, Value.idsLt m v
grind_pattern idsLtList_mono' => Value.idsLtList n v, Value.idsLtList m v
grind_pattern idsLtRec_mono' => Value.idsLtRec n v, Value.idsLtRec m v

theorem idsLt_groupByKeys' {N : Nat} {xs ks : List Value} {r : Frame} (h : groupByKeys xs ks = some r)
    (hx : Value.idsLtList N xs = true) : Value.idsLtRec N r = true := idsLt_groupByKeys hx h
grind_pattern idsLt_groupByKeys' => groupByKeys xs ks, Value.idsLtRec N r

section step
variable {ops : NumOps} {n : Nat}

theorem fresh_evalList (ih : FreshStep ops n) (d : Nat) (es : List Expr) (s : ES) (hs : StateOk s) :
    FreshL (evalList ops (n+1) d es s) := by
  have gE := ih.eval; have gL := ih.evalList
  have nE := fun d e s => ((names_group ops n).eval d e s).next
  have nL := fun d es s => ((names_group ops n).evalList d es s).next
  clear ih
  cases es with
  | nil => rw [evalList]; exact ⟨hs, fun vs h => by cases h; rfl⟩
  | cons e es =>
    rw [evalList]
    unfold FreshV FreshL at *
    repeat' split
    all_goals grind [Value.idsLtList]

theorem fresh_evalItems (ih : FreshStep ops n) (d : Nat) (es : List Item) (s : ES) (hs : StateOk s) :
    FreshL (evalItems ops (n+1) d es s) := by
  have gE := ih.eval; have gI := ih.evalItems
  have nE := fun d e s => ((names_group ops n).eval d e s).next
  have nI := fun d es s => ((names_group ops n).evalItems d es s).next
  clear ih
  cases es with
  | nil => rw [evalItems]; exact ⟨hs, fun vs h => by cases h; rfl⟩
  | cons e es =>
    cases e
    rw [evalItems]
    unfold FreshV FreshL at *
    repeat' split
    all_goals grind [Value.idsLtList]

theorem fresh_evalEntries (ih : FreshStep ops n) (d : Nat) (es : List Entry) (acc : Frame) (s : ES)
    (hs : StateOk s) (ha : Value.idsLtRec s.nextId acc = true) :
    FreshR (evalEntries ops (n+1) d es acc s) := by
  have gE := ih.eval; have gR := ih.evalEntries
  have nE := fun d e s => ((names_group ops n).eval d e s).next
  have nR := fun d es acc s => ((names_group ops n).evalEntries d es acc s).next
  clear ih
  cases es with
  | nil => rw [evalEntries]; exact ⟨hs, fun vs h => by cases h; exact ha⟩
  | cons e es =>
    obtain ⟨_, key, value, _⟩ := e
    have hse := hs.env
    unfold FreshV FreshR at *
    cases key <;> rw [evalEntries] <;> repeat' split
    all_goals grind [Value.idsLt, idsLt_insertAL, idsLt_spreadIntoRecord, idsLt_envGet]

theorem FreshV.of_eq {p : Outcome Value × ES} {r : Outcome Value} {s1 : ES} (h : p = (r, s1)) (hf : FreshV p) :
    StateOk s1 ∧ ∀ v, r = .ok v → v.idsLt s1.nextId = true := by
  subst h; exact hf

theorem FreshV.notOk {k : Outcome Value} {s : ES} (hs : StateOk s) (hk : ∀ v, k ≠ .ok v) : FreshV (k, s) :=
  ⟨hs, fun v h => absurd h (hk v)⟩
theorem FreshV.err {k : ErrKind} {s : ES} (hs : StateOk s) : FreshV (.err k, s) :=
  FreshV.notOk hs (fun _ h => nomatch h)
theorem FreshV.panic {k : String} {s : ES} (hs : StateOk s) : FreshV (.panic k, s) :=
  FreshV.notOk hs (fun _ h => nomatch h)
theorem FreshV.fuel {s : ES} (hs : StateOk s) : FreshV (.fuel, s) :=
  FreshV.notOk hs (fun _ h => nomatch h)

theorem fresh_evalDoStmt (ih : FreshStep ops n) (d : Nat) (e : Expr) (s : ES) (hs : StateOk s) :
    FreshV (evalDoStmt ops (n+1) d e s) := by
  have gE := ih.eval
  clear ih
  rw [evalDoStmt.eq_def]; dsimp only
  split
  · split
    · exact ⟨hs, fun v h => by cases h⟩
    · split
      · rename_i val s1 h1
        obtain ⟨hs1, hv⟩ := FreshV.of_eq h1 (gE _ _ _ hs)
        have hv := hv val rfl
        refine ⟨hs1.assign _ _ val hv, ?_⟩
        intro v h; cases h
        simp only [setNameIfLambda_nextId]; exact hv
      · exact gE _ _ _ hs
  · exact gE _ _ _ hs

theorem fresh_evalDo (ih : FreshStep ops n) (d : Nat) (st : List Item) (ret : Item) (s : ES) (hs : StateOk s) :
    FreshV (evalDo ops (n+1) d st ret s) := by
  have gS := ih.evalDoStmt; have gD := ih.evalDo
  clear ih
  cases st with
  | nil => cases ret; rw [evalDo]; exact gS _ _ _ hs
  | cons i rest =>
    obtain ⟨_, e, _⟩ := i
    rw [evalDo]
    split
    · rename_i v1 s1 h1
      exact gD _ _ _ _ (FreshV.of_eq h1 (gS _ _ _ hs)).1
    · exact gS _ _ _ hs

theorem fresh_mapCalls (ih : FreshStep ops n) (f : Value) (w : Bool) (L : List Value) (i d : Nat) (s : ES)
    (hs : StateOk s) (hf : f.idsLt s.nextId = true) (hL : Value.idsLtList s.nextId L = true) :
    FreshL (mapCalls ops (n+1) f w L i d s) := by
  have gC := ih.callFn; have gM := ih.mapCalls
  have nC := fun fv this args d s => ((names_group ops n).callFn fv this args d s).next
  have nM := fun f w L i d s => ((names_group ops n).mapCalls f w L i d s).next
  clear ih
  cases L with
  | nil => rw [mapCalls]; exact ⟨hs, fun vs h => by cases h; rfl⟩
  | cons x xs =>
    rw [mapCalls]
    unfold FreshV FreshL at *
    repeat' split
    all_goals grind [Value.idsLtList, Value.idsLt]

theorem fresh_whereCalls (ih : FreshStep ops n) (f : Value) (w : Bool) (L : List Value) (i d : Nat) (s : ES)
    (hs : StateOk s) (hf : f.idsLt s.nextId = true) (hL : Value.idsLtList s.nextId L = true) :
    FreshV (whereCalls ops (n+1) f w L i d s) := by
  have gC := ih.callFn; have gW := ih.whereCalls
  have nC := fun fv this args d s => ((names_group ops n).callFn fv this args d s).next
  have nW := fun f w L i d s => ((names_group ops n).whereCalls f w L i d s).next
  clear ih
  cases L with
  | nil => rw [whereCalls]; exact ⟨hs, fun vs h => by cases h; rfl⟩
  | cons x xs =>
    rw [whereCalls]
    unfold FreshV at *
    repeat' split
    all_goals grind [Value.idsLtList, Value.idsLt]

theorem fresh_quantCalls (ih : FreshStep ops n) (f : Value) (w q : Bool) (L : List Value) (i d : Nat) (s : ES)
    (hs : StateOk s) (hf : f.idsLt s.nextId = true) (hL : Value.idsLtList s.nextId L = true) :
    FreshV (quantCalls ops (n+1) f w q L i d s) := by
  have gC := ih.callFn; have gQ := ih.quantCalls
  have nC := fun fv this args d s => ((names_group ops n).callFn fv this args d s).next
  clear ih
  cases L with
  | nil => rw [quantCalls]; exact ⟨hs, fun vs h => by cases h; rfl⟩
  | cons x xs =>
    rw [quantCalls]
    unfold FreshV at *
    repeat' split
    all_goals grind [Value.idsLtList, Value.idsLt]

theorem fresh_foldCalls (ih : FreshStep ops n) (f : Value) (w : Bool) (acc : Value) (L : List Value) (i d : Nat)
    (s : ES) (hs : StateOk s) (hf : f.idsLt s.nextId = true) (ha : acc.idsLt s.nextId = true)
    (hL : Value.idsLtList s.nextId L = true) : FreshV (foldCalls ops (n+1) f w acc L i d s) := by
  have gC := ih.callFn; have gF := ih.foldCalls
  have nC := fun fv this args d s => ((names_group ops n).callFn fv this args d s).next
  clear ih
  cases L with
  | nil => rw [foldCalls]; exact ⟨hs, fun vs h => by cases h; exact ha⟩
  | cons x xs =>
    rw [foldCalls]
    unfold FreshV at *
    repeat' split
    all_goals grind [Value.idsLtList, Value.idsLt]

theorem fresh_viaPairs (ih : FreshStep ops n) (la lb : List Value) (d : Nat) (s : ES)
    (hs : StateOk s) (ha : Value.idsLtList s.nextId la = true) (hb : Value.idsLtList s.nextId lb = true) :
    FreshV (viaPairs ops (n+1) la lb d s) := by
  have gC := ih.callFn; have gV := ih.viaPairs
  have nC := fun fv this args d s => ((names_group ops n).callFn fv this args d s).next
  have nV := fun la lb d s => ((names_group ops n).viaPairs la lb d s).next
  clear ih
  rw [viaPairs.eq_def]; dsimp only
  unfold FreshV at *
  repeat' split
  all_goals grind [Value.idsLtList, Value.idsLt]

theorem fresh_keyCalls (ih : FreshStep ops n) (f : Value) (L : List Value) (d : Nat) (s : ES)
    (hs : StateOk s) (hf : f.idsLt s.nextId = true) (hL : Value.idsLtList s.nextId L = true) :
    StateOk (keyCalls ops (n+1) f L d s).2 ∧ ∀ kr ∈ (keyCalls ops (n+1) f L d s).1, kr.1 ∈ L := by
  have gC := ih.callFn; have gK := ih.keyCalls
  have nC := fun fv this args d s => ((names_group ops n).callFn fv this args d s).next
  clear ih
  cases L with
  | nil => rw [keyCalls]; exact ⟨hs, fun kr h => by cases h⟩
  | cons x xs =>
    rw [keyCalls]
    simp only [Value.idsLtList, Bool.and_eq_true] at hL
    have h1 := gC f f [x] d s hs hf hf (by simp [Value.idsLtList, hL.1])
    have n1 := nC f f [x] d s
    generalize callFn ops n f f _ d s = p at h1 n1 ⊢
    obtain ⟨r, s1⟩ := p
    dsimp only
    have h2 := gK f xs d s1 h1.1 (idsLt_mono n1 _ hf) (idsLtList_mono n1 _ hL.2)
    generalize keyCalls ops n f xs d s1 = q at h2 ⊢
    obtain ⟨r2, s2⟩ := q
    refine ⟨h2.1, ?_⟩
    intro kr hkr
    rcases List.mem_cons.mp hkr with rfl | hkr
    · exact List.mem_cons_self
    · exact List.mem_cons_of_mem _ (h2.2 kr hkr)

theorem fresh_evalBin (ih : FreshStep ops n) (d : Nat) (op : BinOp) (a b : Value) (s : ES)
    (hs : StateOk s) (ha : a.idsLt s.nextId = true) (hb : b.idsLt s.nextId = true) :
    FreshV (evalBin ops (n+1) d op a b s) := by
  have gC := ih.callFn; have gM := ih.mapCalls; have gV := ih.viaPairs; have gW := ih.whereCalls
  clear ih
  rw [evalBin.eq_def]; dsimp only
  unfold FreshV FreshL at *
  split
  · exact ⟨hs, fun v h => idsLt_compareOp h⟩
  split
  · exact ⟨hs, fun v h => by cases h⟩
  split
  all_goals repeat' split
  all_goals grind [Value.idsLtList, Value.idsLt, idsLt_zipScalar, idsLt_mapScalar, idsLt_scalarOp]

theorem fresh_callHof (ih : FreshStep ops n) (name : String) (args : List Value) (d : Nat) (s : ES)
    (hs : StateOk s) (ha : Value.idsLtList s.nextId args = true) :
    FreshV (callHof ops (n+1) name args d s) := by
  have gM := ih.mapCalls; have gQ := ih.quantCalls; have gF := ih.foldCalls; have gK := ih.keyCalls
  have gW := ih.whereCalls
  have nK := fun f L d s => ((names_group ops n).keyCalls f L d s).next
  have nM := fun f w L i d s => ((names_group ops n).mapCalls f w L i d s).next
  clear ih
  rw [callHof]
  have g0 : ∀ v, args[0]? = some v → v.idsLt s.nextId = true := fun v h => idsLt_getElem? ha h
  have g1 : ∀ v, args[1]? = some v → v.idsLt s.nextId = true := fun v h => idsLt_getElem? ha h
  have g2 : ∀ v, args[2]? = some v → v.idsLt s.nextId = true := fun v h => idsLt_getElem? ha h
  split
  · rename_i lv f h0 h1
    have hlv := g0 _ h0
    have hf := g1 _ h1
    split
    · -- sort_by
      split
      · rename_i l
        simp only [Value.idsLt] at hlv
        split
        · exact ⟨hs, fun v h => by cases h; simpa [Value.idsLt] using hlv⟩
        · have hk := gK f l (d + 1) s hs hf hlv
          have hn := nK f l (d + 1) s
          generalize keyCalls ops n f l (d + 1) s = p at hk hn ⊢
          obtain ⟨keyed, s1⟩ := p
          dsimp only
          split
          · exact ⟨hk.1, fun v h => by cases h⟩
          · refine ⟨hk.1, ?_⟩
            intro v h; cases h
            simp only [Value.idsLt]
            rw [idsLtList_iff]
            intro x hx
            simp only [List.mem_map] at hx
            obtain ⟨kr, hkr, rfl⟩ := hx
            have := hk.2 kr (memI_mergeSortBy _ _ _ _ hkr)
            exact idsLt_mono hn _ (idsLt_of_mem_list hlv this)
      · exact ⟨hs, fun v h => by cases h⟩
    · unfold FreshV FreshL at *
      repeat' split
      all_goals grind [Value.idsLtList, Value.idsLt, idsLt_countByKeys]
  · exact ⟨hs, fun v h => by cases h⟩

theorem fresh_callFn (ih : FreshStep ops n) (fv this : Value) (args : List Value) (d : Nat) (s : ES)
    (hs : StateOk s) (hf : fv.idsLt s.nextId = true) (ht : this.idsLt s.nextId = true)
    (ha : Value.idsLtList s.nextId args = true) : FreshV (callFn ops (n+1) fv this args d s) := by
  have gE := ih.eval; have gH := ih.callHof
  have nE := fun d e s => ((names_group ops n).eval d e s).next
  clear ih
  cases fv with
  | lambda id params body scope =>
    rw [callFn.eq_2]
    simp only [Value.idsLt, Bool.and_eq_true, decide_eq_true_eq] at hf
    split
    · split
      · exact FreshV.notOk hs (by intro v h; cases h)
      · cases hpf : bindParams params args with
        | ok pf =>
          simp only []
          have hpfn := idsLt_bindParams ha hpf
          generalize hS : ({ env := _ :: _, nextId := s.nextId, names := s.names } : ES) = S
          have hSn : StateOk S := by
            subst hS
            refine hs.withEnv _ ?_
            simp only [envLt, Bool.and_eq_true]
            refine ⟨idsLt_foldl_insertAL _ _ hpfn ?_, ?_⟩
            · split
              · rename_i w hw
                apply idsLt_insertAL (idsLt_envGet hs.env hw)
                split
                · split <;> simp [Value.idsLtRec, ht]
                · rfl
              · split
                · split <;> simp [Value.idsLtRec, ht]
                · rfl
            · split
              · exact hs.env
              · simp [envLt, hf.2, hs.env]
          have h1 := gE (d + 1) body S hSn
          have n1 := nE (d + 1) body S
          have hSid : S.nextId = s.nextId := by subst hS; rfl
          generalize eval ops n (d + 1) body S = p at h1 n1 ⊢
          obtain ⟨r, s1⟩ := p
          rw [hSid] at n1
          exact ⟨h1.1.withEnv _ (envLt_mono n1 _ hs.env), h1.2⟩
        | err k => exact FreshV.notOk hs (by intro v h; cases h)
        | panic p => exact FreshV.notOk hs (by intro v h; cases h)
        | fuel => exact FreshV.notOk hs (by intro v h; cases h)
    · exact FreshV.notOk hs (by intro v h; cases h)
    · exact FreshV.notOk hs (by intro v h; cases h)
    · exact FreshV.notOk hs (by intro v h; cases h)
  | builtin name =>
    rw [callFn.eq_3]
    repeat' split
    all_goals first
      | exact FreshV.err hs
      | exact FreshV.panic hs
      | exact FreshV.fuel hs
      | exact gH _ _ _ _ hs ha
      | (rename_i r hr
         refine ⟨hs, fun v h => ?_⟩
         simp only at h
         subst h
         exact callPure_keeps_idsLt ops _ _ _ hr ha)
  | _ => simp only [callFn]; exact FreshV.notOk hs (by intro v h; cases h)

theorem fresh_eval (ih : FreshStep ops n) (d : Nat) (e : Expr) (s : ES) (hs : StateOk s) :
    FreshV (eval ops (n+1) d e s) := by
  have gE := ih.eval; have gL := ih.evalList; have gI := ih.evalItems; have gR := ih.evalEntries
  have gD := ih.evalDo; have gC := ih.callFn; have gB := ih.evalBin
  have nE := fun d e s => ((names_group ops n).eval d e s).next
  have nL := fun d es s => ((names_group ops n).evalList d es s).next
  clear ih
  have hse := hs.env
  cases e with
  | assign x v =>
    rw [eval]
    split
    · exact FreshV.err hs
    split
    · exact FreshV.err hs
    split
    · exact FreshV.err hs
    split
    · rename_i val s1 h1
      obtain ⟨hs1, hv⟩ := FreshV.of_eq h1 (gE _ _ _ hs)
      have hv := hv val rfl
      split
      · exact FreshV.err hs1
      · refine ⟨hs1.assign _ _ val hv, ?_⟩
        intro v h; cases h
        simp only [setNameIfLambda_nextId]; exact hv
    · exact gE _ _ _ hs
  | doBlock stmts ret =>
    rw [eval]
    have h := gD d stmts ret { s with env := [] :: s.env }
      (hs.withEnv _ (by simp [envLt, Value.idsLtRec, hs.env]))
    generalize evalDo ops n d stmts ret _ = p at h ⊢
    obtain ⟨r, s1⟩ := p
    exact ⟨h.1.withEnv _ (envLt_drop h.1.env 1), h.2⟩
  | lambda args body =>
    rw [eval]
    split
    · exact FreshV.err hs
    · refine ⟨hs.alloc _ (envLt_mono (Nat.le_succ _) _ hs.env), ?_⟩
      intro v h; cases h
      simp only [Value.idsLt, Bool.and_eq_true, decide_eq_true_eq]
      exact ⟨Nat.lt_succ_self _, idsLtRec_mono (Nat.le_succ _) _ (idsLt_captureScope hs.env _)⟩
  | inref field =>
    rw [eval]
    split
    · exact FreshV.err hs
    · rename_i r heq
      have := idsLt_envGet hs.env heq
      simp only [Value.idsLt] at this
      exact ⟨hs, fun v h => by cases h; exact idsLt_lookupAL_getD this⟩
    · exact FreshV.err hs
  | ident x =>
    rw [eval]
    split
    · exact ⟨hs, fun v h => by cases h; rfl⟩
    split
    · exact ⟨hs, fun v h => by cases h; exact idsLt_constants⟩
    split
    · rename_i w heq
      exact ⟨hs, fun v h => by cases h; exact idsLt_envGet hs.env heq⟩
    · exact FreshV.err hs
  | _ =>
    rw [eval]
    unfold FreshV FreshL FreshR at *
    repeat' split
    all_goals grind [Value.idsLtList, Value.idsLt, Value.idsLtRec, idsLt_lookupAL_getD,
      idsLt_flattenSpreads, idsLt_listGetD]

theorem freshStep_succ (ih : FreshStep ops n) : FreshStep ops (n+1) :=
  ⟨fresh_eval ih, fresh_evalList ih, fresh_evalItems ih, fresh_evalEntries ih, fresh_evalDoStmt ih,
   fresh_evalDo ih, fresh_callFn ih, fresh_mapCalls ih, fresh_quantCalls ih, fresh_foldCalls ih,
   fresh_keyCalls ih, fresh_callHof ih, fresh_evalBin ih, fresh_viaPairs ih, fresh_whereCalls ih⟩

end step

/-- all fifteen functions, every fuel -/
theorem fresh_group (ops : NumOps) : ∀ n, FreshStep ops n
  | 0 => freshStep_zero ops
  | n + 1 => freshStep_succ (fresh_group ops n)

theorem eval_fresh (ops : NumOps) (fuel d e s) (hs : StateOk s) : FreshV (eval ops fuel d e s) :=
  (fresh_group ops fuel).eval d e s hs

theorem runStmts_stateOk (ops : NumOps) (fuel : Nat) : ∀ (stmts : List Expr) (s : ES), StateOk s →
    StateOk (runStmts ops fuel s stmts).2
  | [], _, hs => hs
  | e :: es, s, hs => runStmts_stateOk ops fuel es _ (eval_fresh ops fuel 0 e s hs).1

/-- the root state of a session -/
theorem root0_stateOk : StateOk root0 :=
  ⟨by simp [root0, envLt, Value.idsLtRec], fun p hp => by simp [root0] at hp⟩

end Blots
