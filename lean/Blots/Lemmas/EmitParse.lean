import Blots.Lemmas.Emit
import Blots.Lemmas.ExprPegLemmas
/-
  C05 — the parse-back interface of `Props/C05.lean` discharged with the MODEL PARSER
  (`ExprPeg.parseText`, the character-level PEG model of `Model/ExprPeg.lean`).

  The emitter writes TEXT (`exprSrc sc body`): the print of the body with every captured name
  replaced by the literal text of its value.  That text is NOT in general the print of the
  substituted tree (`Emit.emit_is_substitution_statement_false`): a captured negative number is
  written `(-4)` wherever it occurs, the printer would write `-4` where no parentheses are
  needed.  So the text is described here as a CONCRETE SYNTAX TREE (`emitCst sc body`, the type
  `ExprPeg.CST` of the C10 development: a tree with every parenthesis and blank written out),
  which is shown to
    * have the emitted text as its text            (`emitCst_text`),
    * have the substituted tree as its tree         (`emitCst_tree`),
    * be well-formed                                (`emitCst_shaped`, `emitCst_layout`),
  and `ExprPeg.cst_roundtrip` (every well-formed CST is parsed to its tree) does the rest.

  Class covered (`bodyOk`, `litOk`): the intersection of the C05 fragment `Emit.frag` and the
  PEG fragment `ExprPeg.Frag`, see `Props/C05.lean`.
-/
namespace Blots
namespace EmitParse
open Emit PrintL
open ExprPeg (CST atomOk nameOk wrap mkList isSpread unSpread argT argS headOf)

/-! ### the class -/

mutual
/-- captured values whose literal text is in the PEG fragment: integers of magnitude below
    10^15 of either sign (`-0.0` included; a negative one is written `(-n)`), booleans, `null`,
    built-in functions, and lists of such values -/
def litOk : SV → Bool
  | .num x => !x.isNaN && atomOk (.num (if x.neg then x.negate else x))
  | .bool _ => true
  | .null => true
  | .builtin n => atomOk (.builtin n)
  | .list xs => litOkList xs
  | _ => false
def litOkList : List SV → Bool
  | [] => true
  | x :: xs => litOk x && litOkList xs
end

mutual
/-- bodies in the intersection of the C05 fragment (`Emit.frag`: no call, no `via` / `into` /
    `where`, no lambda, no `output`, no nested assignment) and the PEG fragment (`ExprPeg.Frag`:
    no string, record, do-block, `#field`, `~`; atoms = identifiers that are neither reserved
    nor built-in names, built-in names, `true` `false` `null`, integers `0 ≤ n < 10^15`; field
    names that are identifiers; list items without comments, possibly spread).  The flag says
    whether a spread `...e` is admitted here (list items only). -/
def bodyOkB : Bool → Expr → Bool
  | _, .bin op l r => op != .via && op != .into && op != .where_ && bodyOkB false l && bodyOkB false r
  | _, .un op e => op != .invert && bodyOkB false e
  | _, .fact e => bodyOkB false e
  | _, .access e i => bodyOkB false e && bodyOkB false i
  | _, .dot e n => bodyOkB false e && CST.fieldOk n
  | sp, .spread e => sp && bodyOkB false e
  | _, .list items => bodyOkItems items
  | _, .cond c t e => bodyOkB false c && bodyOkB false t && bodyOkB false e
  | _, .ident n => atomOk (.ident n)
  | _, .builtin n => atomOk (.builtin n)
  | _, .bool b => atomOk (.bool b)
  | _, .null => atomOk .null
  | _, .num x => atomOk (.num x)
  | _, _ => false
def bodyOkItems : List Item → Bool
  | [] => true
  | (.mk lead e tr) :: rest => lead.isEmpty && tr.isNone && bodyOkB true e && bodyOkItems rest
end

def bodyOk (e : Expr) : Bool := bodyOkB false e

/-- every captured value is in `litOk` -/
def scopeOk (sc : Scope) : Bool := sc.all fun kv => litOk kv.2

theorem scopeOk_lookup {sc : Scope} (h : scopeOk sc = true) {n : String} {v : SV}
    (hl : lookupAL n sc = some v) : litOk v = true := by
  have := List.all_eq_true.mp h (n, v) (lookupAL_mem hl)
  exact this

/-! ### the body class is inside both fragments -/

mutual
theorem bodyOkB_emitFrag : ∀ (sp : Bool) (e : Expr), bodyOkB sp e = true → Emit.frag e = true
  | _, .bin op l r, h => by
    simp only [bodyOkB, Bool.and_eq_true] at h
    simp only [Emit.frag, Bool.and_eq_true]
    exact ⟨⟨⟨⟨h.1.1.1.1, h.1.1.1.2⟩, h.1.1.2⟩, bodyOkB_emitFrag false l h.1.2⟩, bodyOkB_emitFrag false r h.2⟩
  | _, .un op e, h => by
    simp only [bodyOkB, Bool.and_eq_true] at h
    simp only [Emit.frag]; exact bodyOkB_emitFrag false e h.2
  | _, .fact e, h => by
    simp only [bodyOkB] at h
    simp only [Emit.frag]; exact bodyOkB_emitFrag false e h
  | _, .access e i, h => by
    simp only [bodyOkB, Bool.and_eq_true] at h
    simp only [Emit.frag, Bool.and_eq_true]
    exact ⟨bodyOkB_emitFrag false e h.1, bodyOkB_emitFrag false i h.2⟩
  | _, .dot e n, h => by
    simp only [bodyOkB, Bool.and_eq_true] at h
    simp only [Emit.frag]; exact bodyOkB_emitFrag false e h.1
  | sp, .spread e, h => by
    simp only [bodyOkB, Bool.and_eq_true] at h
    simp only [Emit.frag]; exact bodyOkB_emitFrag false e h.2
  | _, .list items, h => by
    simp only [bodyOkB] at h
    simp only [Emit.frag]; exact bodyOkItems_emitFrag items h
  | _, .cond c t e, h => by
    simp only [bodyOkB, Bool.and_eq_true] at h
    simp only [Emit.frag, Bool.and_eq_true]
    exact ⟨⟨bodyOkB_emitFrag false c h.1.1, bodyOkB_emitFrag false t h.1.2⟩, bodyOkB_emitFrag false e h.2⟩
  | _, .ident _, _ | _, .builtin _, _ | _, .bool _, _ | _, .null, _ | _, .num _, _ => rfl
  | _, .str _, h | _, .inref _, h | _, .record _, h | _, .lambda _ _, h | _, .call _ _, h
  | _, .doBlock _ _, h | _, .assign _ _, h | _, .output _, h => by
    simp [bodyOkB] at h
theorem bodyOkItems_emitFrag : ∀ (items : List Item), bodyOkItems items = true →
    Emit.fragItems items = true
  | [], _ => rfl
  | (.mk lead e tr) :: rest, h => by
    simp only [bodyOkItems, Bool.and_eq_true] at h
    simp only [Emit.fragItems, Bool.and_eq_true]
    exact ⟨bodyOkB_emitFrag true e h.1.2, bodyOkItems_emitFrag rest h.2⟩
end

mutual
theorem bodyOkB_pegFrag : ∀ (sp : Bool) (e : Expr), bodyOkB sp e = true → ExprPeg.fragB sp e = true
  | _, .bin op l r, h => by
    simp only [bodyOkB, Bool.and_eq_true] at h
    simp only [ExprPeg.fragB, Bool.and_eq_true]
    exact ⟨bodyOkB_pegFrag false l h.1.2, bodyOkB_pegFrag false r h.2⟩
  | _, .un op e, h => by
    simp only [bodyOkB, Bool.and_eq_true] at h
    simp only [ExprPeg.fragB, Bool.and_eq_true]
    exact ⟨h.1, bodyOkB_pegFrag false e h.2⟩
  | _, .fact e, h => by
    simp only [bodyOkB] at h
    simp only [ExprPeg.fragB]
    exact bodyOkB_pegFrag false e h
  | _, .access e i, h => by
    simp only [bodyOkB, Bool.and_eq_true] at h
    simp only [ExprPeg.fragB, Bool.and_eq_true]
    exact ⟨bodyOkB_pegFrag false e h.1, bodyOkB_pegFrag false i h.2⟩
  | _, .dot e n, h => by
    simp only [bodyOkB, Bool.and_eq_true] at h
    simp only [ExprPeg.fragB, Bool.and_eq_true]
    exact ⟨bodyOkB_pegFrag false e h.1, h.2⟩
  | sp, .spread e, h => by
    simp only [bodyOkB, Bool.and_eq_true] at h
    simp only [ExprPeg.fragB, Bool.and_eq_true]
    exact ⟨h.1, bodyOkB_pegFrag false e h.2⟩
  | _, .list items, h => by
    simp only [bodyOkB] at h
    simp only [ExprPeg.fragB]
    exact bodyOkItems_pegFrag items h
  | _, .cond c t e, h => by
    simp only [bodyOkB, Bool.and_eq_true] at h
    simp only [ExprPeg.fragB, Bool.and_eq_true]
    exact ⟨⟨bodyOkB_pegFrag false c h.1.1, bodyOkB_pegFrag false t h.1.2⟩, bodyOkB_pegFrag false e h.2⟩
  | _, .ident _, h | _, .builtin _, h | _, .bool _, h | _, .null, h | _, .num _, h => by
    simp only [bodyOkB] at h
    simpa [ExprPeg.fragB] using h
  | _, .str _, h | _, .inref _, h | _, .record _, h | _, .lambda _ _, h | _, .call _ _, h
  | _, .doBlock _ _, h | _, .assign _ _, h | _, .output _, h => by
    simp [bodyOkB] at h
theorem bodyOkItems_pegFrag : ∀ (items : List Item), bodyOkItems items = true →
    ExprPeg.fragItems items = true
  | [], _ => rfl
  | (.mk lead e tr) :: rest, h => by
    simp only [bodyOkItems, Bool.and_eq_true] at h
    simp only [ExprPeg.fragItems, Bool.and_eq_true]
    exact ⟨⟨h.1.1, bodyOkB_pegFrag true e h.1.2⟩, bodyOkItems_pegFrag rest h.2⟩
end

/-! ### literals -/

theorem fragB_of_frag {t : Expr} (h : ExprPeg.Frag t) (sp : Bool) : ExprPeg.fragB sp t = true := by
  cases t <;> first | exact h | simp [ExprPeg.Frag, ExprPeg.frag, ExprPeg.fragB] at h

mutual
/-- the expression a literal of the class denotes is in the PEG fragment -/
theorem litOk_frag (pb : String → Option Expr) : ∀ (v : SV), litOk v = true →
    ExprPeg.Frag (svToExpr pb v)
  | .num x, h => by
    simp only [litOk, Bool.and_eq_true, Bool.not_eq_true'] at h
    cases hn : x.neg
    · simpa [svToExpr, numToExpr, h.1, hn, ExprPeg.Frag, ExprPeg.frag, ExprPeg.fragB] using h.2
    · simpa [svToExpr, numToExpr, h.1, hn, ExprPeg.Frag, ExprPeg.frag, ExprPeg.fragB] using h.2
  | .bool b, _ => rfl
  | .null, _ => rfl
  | .builtin n, h => by
    simp only [litOk] at h
    simpa [svToExpr, ExprPeg.Frag, ExprPeg.frag, ExprPeg.fragB] using h
  | .list xs, h => by
    simp only [litOk] at h
    simp only [svToExpr, ExprPeg.Frag, ExprPeg.frag, ExprPeg.fragB]
    exact litOkList_frag pb xs h
  | .str _, h | .record _, h | .lambda _ _, h => by simp [litOk] at h
theorem litOkList_frag (pb : String → Option Expr) : ∀ (xs : List SV), litOkList xs = true →
    ExprPeg.fragItems (svToItems pb xs) = true
  | [], _ => rfl
  | x :: xs, h => by
    simp only [litOkList, Bool.and_eq_true] at h
    simp only [svToItems, Item.plain, ExprPeg.fragItems, List.isEmpty_nil, Option.isNone_none,
      Bool.true_and, Bool.and_eq_true]
    exact ⟨fragB_of_frag (litOk_frag pb x h.1) true, litOkList_frag pb xs h.2⟩
end

mutual
/-- the literal text `svToSource v` as a concrete syntax tree: a negative number is
    `( - magnitude )`, a list is `[a, b, …]`, everything else one atom -/
def litCst : SV → CST
  | .num x => if x.neg then .paren [] (.un .negate (.atom (.num x.negate))) [] else .atom (.num x)
  | .bool b => .atom (.bool b)
  | .null => .atom .null
  | .builtin n => .atom (.builtin n)
  | .list xs => mkList (litCstList xs)
  | _ => .atom .null
def litCstList : List SV → List (Bool × CST)
  | [] => []
  | x :: xs => (false, litCst x) :: litCstList xs
end

theorem paren_minus (s : String) : ("(-" ++ s ++ ")").toList = '(' :: ('-' :: s.toList ++ [')']) := by
  simp only [String.toList_append]; rfl

mutual
theorem litCst_text : ∀ (v : SV), litOk v = true → (litCst v).text = (svToSource v).toList
  | .num x, h => by
    simp only [litOk, Bool.and_eq_true, Bool.not_eq_true'] at h
    cases hn : x.neg
    · simp [litCst, svToSource, h.1, hn, CST.text, ExprPeg.atomText, exprToSource, exprSrc]
    · simp only [litCst, svToSource, h.1, hn, if_true, Bool.false_eq_true, if_false, CST.text,
        ExprPeg.atomText, exprToSource, exprSrc, paren_minus, ExprPeg.layChars, unaryOpToSource]
      rfl
  | .bool b, _ => by cases b <;> rfl
  | .null, _ => rfl
  | .builtin n, _ => rfl
  | .list xs, h => by
    simp only [litOk] at h
    simp only [litCst, svToSource, ExprPeg.mkList_text, litCstList_text xs h, String.toList_append,
      String.toList_intercalate, ExprPeg.commaSp, List.append_assoc]
    rfl
  | .str _, h | .record _, h | .lambda _ _, h => by simp [litOk] at h
theorem litCstList_text : ∀ (xs : List SV), litOkList xs = true →
    (litCstList xs).map argS = (svListToSource xs).map String.toList
  | [], _ => rfl
  | x :: xs, h => by
    simp only [litOkList, Bool.and_eq_true] at h
    simp only [litCstList, List.map_cons, argS, ExprPeg.spreadChars, Bool.false_eq_true, if_false,
      List.nil_append, litCst_text x h.1, litCstList_text xs h.2, svListToSource]
end

mutual
theorem litCst_tree (pb : String → Option Expr) : ∀ (v : SV), litOk v = true →
    (litCst v).tree = svToExpr pb v
  | .num x, h => by
    simp only [litOk, Bool.and_eq_true, Bool.not_eq_true'] at h
    cases hn : x.neg <;> simp [litCst, svToExpr, numToExpr, h.1, hn, CST.tree]
  | .bool b, _ => rfl
  | .null, _ => rfl
  | .builtin n, _ => rfl
  | .list xs, h => by
    simp only [litOk] at h
    simp only [litCst, svToExpr, ExprPeg.mkList_tree, litCstList_tree pb xs h]
  | .str _, h | .record _, h | .lambda _ _, h => by simp [litOk] at h
theorem litCstList_tree (pb : String → Option Expr) : ∀ (xs : List SV), litOkList xs = true →
    ExprPeg.mkItems ((litCstList xs).map argT) = svToItems pb xs
  | [], _ => rfl
  | x :: xs, h => by
    simp only [litOkList, Bool.and_eq_true] at h
    have ih := litCstList_tree pb xs h.2
    simp only [ExprPeg.mkItems] at ih ⊢
    simp only [litCstList, List.map_cons, argT, ExprPeg.argTree, Bool.false_eq_true, if_false,
      litCst_tree pb x h.1, ih, svToItems, Item.plain]
end

mutual
theorem litCst_wf : ∀ (v : SV), litOk v = true → (litCst v).Shaped ∧ (litCst v).LayoutOk
  | .num x, h => by
    simp only [litOk, Bool.and_eq_true, Bool.not_eq_true'] at h
    cases hn : x.neg
    · simp only [litCst, hn, Bool.false_eq_true, if_false, CST.Shaped, CST.LayoutOk, and_true]
      simpa [hn] using h.2
    · simp only [litCst, hn, if_true, CST.Shaped, CST.LayoutOk, and_true]
      refine ⟨by decide, by simpa [hn] using h.2, fun _ => rfl⟩
  | .bool b, _ => ⟨rfl, trivial⟩
  | .null, _ => ⟨rfl, trivial⟩
  | .builtin n, h => by
    simp only [litOk] at h
    exact ⟨h, trivial⟩
  | .list xs, h => by
    simp only [litOk] at h
    have := litCstList_wf xs h
    exact ⟨ExprPeg.mkList_shaped fun q hq => (this q hq).1,
      ExprPeg.mkList_layout fun q hq => (this q hq).2⟩
  | .str _, h | .record _, h | .lambda _ _, h => by simp [litOk] at h
theorem litCstList_wf : ∀ (xs : List SV), litOkList xs = true →
    ∀ q ∈ litCstList xs, q.2.Shaped ∧ q.2.LayoutOk
  | [], _ => by intro q hq; cases hq
  | x :: xs, h => by
    simp only [litOkList, Bool.and_eq_true] at h
    intro q hq
    simp only [litCstList, List.mem_cons] at hq
    rcases hq with rfl | hq
    · exact litCst_wf x h.1
    · exact litCstList_wf xs h.2 q hq
end

/-- a literal is one primary for the operator-precedence parser -/
theorem litCst_items (v : SV) : (litCst v).items = [.prim (litCst v).tree] := by
  cases v with
  | num x => cases hn : x.neg <;> simp [litCst, hn, CST.items, CST.tree]
  | list xs => simp only [litCst, ExprPeg.mkList_items, ExprPeg.mkList_tree]
  | bool _ | null | builtin _ | str _ | record _ | lambda _ _ => rfl

/-- a literal that is not parenthesised has a literal head (number, boolean, `null`, list,
    built-in name): it needs no parentheses anywhere -/
theorem litCst_head (pb : String → Option Expr) (v : SV) (h : litOk v = true)
    (hp : (litCst v).isParen = false) : atomHead (svToExpr pb v) = true := by
  cases v with
  | num x =>
    simp only [litOk, Bool.and_eq_true, Bool.not_eq_true'] at h
    cases hn : x.neg
    · simp [svToExpr, numToExpr, h.1, hn, atomHead]
    · simp [litCst, hn, CST.isParen] at hp
  | str _ | record _ | lambda _ _ => simp [litOk] at h
  | bool _ | null | list _ | builtin _ => simp [svToExpr, atomHead]

/-- the tree of a literal never ends open, is no `via` / `into` / `where` chain, no spread -/
theorem litOk_closed (pb : String → Option Expr) (v : SV) (h : litOk v = true) :
    endsOpen (svToExpr pb v) = false ∧ lambdaBodyNeedsParens (svToExpr pb v) = false ∧
      unSpread (svToExpr pb v) = svToExpr pb v := by
  cases v with
  | num x =>
    simp only [litOk, Bool.and_eq_true, Bool.not_eq_true'] at h
    cases hn : x.neg <;>
      simp [svToExpr, numToExpr, h.1, hn, endsOpen, lambdaBodyNeedsParens, unSpread]
  | str _ | record _ | lambda _ _ => simp [litOk] at h
  | bool _ | null | list _ | builtin _ => simp [svToExpr, endsOpen, lambdaBodyNeedsParens, unSpread]

/-! ### the emitted body text as a concrete syntax tree -/

mutual
/-- what `exprSrc sc` writes, as a CST: the printer's layout, the printer's parentheses (decided
    on the ORIGINAL body, where a captured name is an identifier and never parenthesised), and
    at every captured name the literal with the parentheses of its own -/
def emitCst (sc : Scope) : Expr → CST
  | .bin op l r =>
    .bin op (wrap (needsParens l (.binLeft op)) (emitCst sc l)) [.sp] [.sp]
      (wrap (needsParens r (.binRight op)) (emitCst sc r))
  | .un op e => .un op (wrap (needsParens e .prefix_) (emitCst sc e))
  | .fact e => .fact (wrap (needsParens e .postfix_) (emitCst sc e))
  | .access e i => .access (wrap (needsParens e .postfix_) (emitCst sc e)) [] (emitCst sc i) []
  | .dot e n => .dot (wrap (needsParens e .postfix_) (emitCst sc e)) n
  | .list items => mkList (emitCstItems sc items)
  | .cond c t e => .cond [.sp] (emitCst sc c) [.sp] [.sp] (emitCst sc t) [.sp] [.sp] (emitCst sc e)
  | .ident n =>
    (match lookupAL n sc with
     | some v => litCst v
     | none => .atom (.ident n))
  /- only reached from `emitCstItems`: the operand of a spread item -/
  | .spread e => emitCst sc e
  | e => .atom e
def emitCstItems (sc : Scope) : List Item → List (Bool × CST)
  | [] => []
  | (.mk _ e _) :: rest => (isSpread e, emitCst sc e) :: emitCstItems sc rest
end

section subst
variable (pb : String → Option Expr) (sc : Scope) (hsc : scopeOk sc = true)
include hsc

theorem endsOpen_subst' : ∀ (e : Expr), endsOpen (substExpr pb sc e) = endsOpen e
  | .ident n => by
    simp only [substExpr]
    split
    · rename_i v hv
      rw [(litOk_closed pb v (scopeOk_lookup hsc hv)).1]; rfl
    · rfl
  | .bin op l r => by simp only [substExpr, endsOpen]; exact endsOpen_subst' r
  | .un op e => by simp only [substExpr, endsOpen]; exact endsOpen_subst' e
  | .num _ | .str _ | .bool _ | .null | .inref _ | .builtin _
  | .list _ | .record _ | .lambda _ _ | .cond _ _ _ | .doBlock _ _
  | .assign _ _ | .output _ | .call _ _ | .access _ _ | .dot _ _
  | .fact _ | .spread _ => by simp [substExpr, endsOpen]

theorem lbnp_subst' : ∀ (e : Expr),
    lambdaBodyNeedsParens (substExpr pb sc e) = lambdaBodyNeedsParens e
  | .ident n => by
    simp only [substExpr]
    split
    · rename_i v hv
      rw [(litOk_closed pb v (scopeOk_lookup hsc hv)).2.1]; rfl
    · rfl
  | .bin op l r => by
    simp only [substExpr, lambdaBodyNeedsParens_bin, lbnp_subst' l]
  | .num _ | .str _ | .bool _ | .null | .inref _ | .builtin _
  | .list _ | .record _ | .lambda _ _ | .cond _ _ _ | .doBlock _ _
  | .assign _ _ | .output _ | .call _ _ | .access _ _ | .dot _ _
  | .un _ _ | .fact _ | .spread _ => by simp [substExpr, lambdaBodyNeedsParens]

/-- where the emitted text has no parentheses of a literal's own, the printer's decision on the
    original body is the printer's decision on the substituted tree -/
theorem needsParens_subst' (e : Expr) (pos : Pos) (hp : (emitCst sc e).isParen = false) :
    needsParens (substExpr pb sc e) pos = needsParens e pos := by
  cases e with
  | ident n =>
    simp only [substExpr]
    split
    · rename_i v hv
      simp only [emitCst, hv] at hp
      rw [(atomHead_shape _ (litCst_head pb v (scopeOk_lookup hsc hv) hp)).1 pos]
      unfold needsParens; cases pos <;> simp [endsOpen]
    · rfl
  | bin op l r =>
    have := endsOpen_subst' pb sc hsc (.bin op l r)
    simp only [substExpr] at this ⊢
    unfold needsParens
    rw [this]
  | un op e =>
    have := endsOpen_subst' pb sc hsc (.un op e)
    simp only [substExpr] at this ⊢
    unfold needsParens
    rw [this]
  | lambda _ _ | cond _ _ _ | assign _ _ | output _ =>
    simp only [substExpr]; unfold needsParens; simp [endsOpen]
  | num _ | str _ | bool _ | null | inref _ | builtin _ | list _ | record _ | doBlock _ _
  | call _ _ | access _ _ | dot _ _ | fact _ | spread _ =>
    simp only [substExpr] <;> (unfold needsParens; simp [endsOpen])

end subst

section main
set_option linter.unusedSectionVars false
variable (pb : String → Option Expr) (sc : Scope) (hsc : scopeOk sc = true)
include hsc

theorem unSpread_subst (e : Expr) (h : bodyOkB false e = true) :
    unSpread (substExpr pb sc e) = substExpr pb sc e := by
  cases e with
  | ident n =>
    simp only [substExpr]
    split
    · rename_i v hv
      exact (litOk_closed pb v (scopeOk_lookup hsc hv)).2.2
    · rfl
  | spread e => simp [bodyOkB] at h
  | _ => simp [substExpr, unSpread]

theorem argTree_subst (e : Expr) (h : bodyOkB true e = true) :
    ExprPeg.argTree (isSpread e) (unSpread (substExpr pb sc e)) = substExpr pb sc e := by
  cases e with
  | ident n =>
    simp only [isSpread, ExprPeg.argTree, Bool.false_eq_true, if_false]
    exact unSpread_subst pb sc hsc (.ident n) h
  | spread e => simp [substExpr, isSpread, unSpread, ExprPeg.argTree]
  | _ => simp [substExpr, isSpread, unSpread, ExprPeg.argTree]

/-! #### tree -/

mutual
theorem emitCst_tree : ∀ (sp : Bool) (e : Expr), bodyOkB sp e = true →
    (emitCst sc e).tree = unSpread (substExpr pb sc e)
  | _, .bin op l r, h => by
    simp only [bodyOkB, Bool.and_eq_true] at h
    have hl := (emitCst_tree false l h.1.2).trans (unSpread_subst pb sc hsc l h.1.2)
    have hr := (emitCst_tree false r h.2).trans (unSpread_subst pb sc hsc r h.2)
    simp only [emitCst, CST.tree, ExprPeg.wrap_tree, hl, hr, substExpr]; rfl
  | _, .un op e, h => by
    simp only [bodyOkB, Bool.and_eq_true] at h
    have he := (emitCst_tree false e h.2).trans (unSpread_subst pb sc hsc e h.2)
    simp only [emitCst, CST.tree, ExprPeg.wrap_tree, he, substExpr]; rfl
  | _, .fact e, h => by
    simp only [bodyOkB] at h
    have he := (emitCst_tree false e h).trans (unSpread_subst pb sc hsc e h)
    simp only [emitCst, CST.tree, ExprPeg.wrap_tree, he, substExpr]; rfl
  | _, .access e i, h => by
    simp only [bodyOkB, Bool.and_eq_true] at h
    have he := (emitCst_tree false e h.1).trans (unSpread_subst pb sc hsc e h.1)
    have hi := (emitCst_tree false i h.2).trans (unSpread_subst pb sc hsc i h.2)
    simp only [emitCst, CST.tree, ExprPeg.wrap_tree, he, hi, substExpr]; rfl
  | _, .dot e n, h => by
    simp only [bodyOkB, Bool.and_eq_true] at h
    have he := (emitCst_tree false e h.1).trans (unSpread_subst pb sc hsc e h.1)
    simp only [emitCst, CST.tree, ExprPeg.wrap_tree, he, substExpr]; rfl
  | sp, .spread e, h => by
    simp only [bodyOkB, Bool.and_eq_true] at h
    have he := (emitCst_tree false e h.2).trans (unSpread_subst pb sc hsc e h.2)
    simp only [emitCst, he, substExpr, unSpread]
  | _, .list items, h => by
    simp only [bodyOkB] at h
    simp only [emitCst, ExprPeg.mkList_tree, emitCstItems_tree items h, substExpr]; rfl
  | _, .cond c t e, h => by
    simp only [bodyOkB, Bool.and_eq_true] at h
    have hc := (emitCst_tree false c h.1.1).trans (unSpread_subst pb sc hsc c h.1.1)
    have ht := (emitCst_tree false t h.1.2).trans (unSpread_subst pb sc hsc t h.1.2)
    have he := (emitCst_tree false e h.2).trans (unSpread_subst pb sc hsc e h.2)
    simp only [emitCst, CST.tree, hc, ht, he, substExpr]; rfl
  | _, .ident n, _ => by
    simp only [emitCst, substExpr]
    cases hv : lookupAL n sc with
    | some v =>
      have hl := scopeOk_lookup hsc hv
      simp only [litCst_tree pb v hl, (litOk_closed pb v hl).2.2]
    | none => rfl
  | _, .builtin _, _ | _, .bool _, _ | _, .null, _ | _, .num _, _ => rfl
  | _, .str _, h | _, .inref _, h | _, .record _, h | _, .lambda _ _, h | _, .call _ _, h
  | _, .doBlock _ _, h | _, .assign _ _, h | _, .output _, h => by
    simp [bodyOkB] at h
theorem emitCstItems_tree : ∀ (items : List Item), bodyOkItems items = true →
    ExprPeg.mkItems ((emitCstItems sc items).map argT) = substItems pb sc items
  | [], _ => rfl
  | (.mk lead e tr) :: rest, h => by
    simp only [bodyOkItems, Bool.and_eq_true, List.isEmpty_iff, Option.isNone_iff_eq_none] at h
    obtain ⟨⟨⟨rfl, rfl⟩, he⟩, hr⟩ := h
    have ih := emitCstItems_tree rest hr
    simp only [ExprPeg.mkItems] at ih ⊢
    simp only [emitCstItems, List.map_cons, argT, emitCst_tree true e he, ih,
      argTree_subst pb sc hsc e he, substItems, substItem]
end

theorem emitCst_tree0 (e : Expr) (h : bodyOkB false e = true) :
    (emitCst sc e).tree = substExpr pb sc e :=
  (emitCst_tree pb sc hsc false e h).trans (unSpread_subst pb sc hsc e h)

/-! #### text -/

omit hsc in
theorem argS_srcSc (a : Expr) :
    ExprPeg.spreadChars (isSpread a) ++ (exprSrc sc (unSpread a)).toList = (exprSrc sc a).toList := by
  cases a <;> simp [isSpread, unSpread, ExprPeg.spreadChars, ExprPeg.spreadLit_eq, exprSrc]

mutual
theorem emitCst_text : ∀ (sp : Bool) (e : Expr), bodyOkB sp e = true →
    (emitCst sc e).text = (exprSrc sc (unSpread e)).toList
  | _, .bin op l r, h => by
    simp only [bodyOkB, Bool.and_eq_true] at h
    have hl := emitCst_text false l h.1.2
    have hr := emitCst_text false r h.2
    rw [show unSpread l = l from by cases l <;> first | rfl | simp [bodyOkB] at h] at hl
    rw [show unSpread r = r from by cases r <;> first | rfl | simp [bodyOkB] at h] at hr
    simp only [unSpread, emitCst, CST.text, ExprPeg.wrap_text, hl, hr, exprSrc, String.toList_append,
      ExprPeg.parenIf_toList, ExprPeg.layChars, ExprPeg.LayAtom.chars, ExprPeg.spell,
      List.append_assoc, List.cons_append, List.nil_append]
    rfl
  | _, .un op e, h => by
    simp only [bodyOkB, Bool.and_eq_true] at h
    have he := emitCst_text false e h.2
    rw [show unSpread e = e from by cases e <;> first | rfl | simp [bodyOkB] at h] at he
    simp only [unSpread, emitCst, CST.text, ExprPeg.wrap_text, he, exprSrc, String.toList_append,
      ExprPeg.parenIf_toList]
  | _, .fact e, h => by
    simp only [bodyOkB] at h
    have he := emitCst_text false e h
    rw [show unSpread e = e from by cases e <;> first | rfl | simp [bodyOkB] at h] at he
    simp only [unSpread, emitCst, CST.text, ExprPeg.wrap_text, he, exprSrc, String.toList_append,
      ExprPeg.parenIf_toList]
    rfl
  | _, .access e i, h => by
    simp only [bodyOkB, Bool.and_eq_true] at h
    have he := emitCst_text false e h.1
    have hi := emitCst_text false i h.2
    rw [show unSpread e = e from by cases e <;> first | rfl | simp [bodyOkB] at h] at he
    rw [show unSpread i = i from by cases i <;> first | rfl | simp [bodyOkB] at h] at hi
    simp only [unSpread, emitCst, CST.text, ExprPeg.wrap_text, he, hi, exprSrc, String.toList_append,
      ExprPeg.parenIf_toList, ExprPeg.layChars, List.append_assoc, List.nil_append]
    rfl
  | _, .dot e n, h => by
    simp only [bodyOkB, Bool.and_eq_true] at h
    have he := emitCst_text false e h.1
    rw [show unSpread e = e from by cases e <;> first | rfl | simp [bodyOkB] at h] at he
    simp only [unSpread, emitCst, CST.text, ExprPeg.wrap_text, he, exprSrc, String.toList_append,
      ExprPeg.parenIf_toList, List.append_assoc]
    rfl
  | sp, .spread e, h => by
    simp only [bodyOkB, Bool.and_eq_true] at h
    have he := emitCst_text false e h.2
    rw [show unSpread e = e from by cases e <;> first | rfl | simp [bodyOkB] at h] at he
    simp only [emitCst, he, unSpread]
  | _, .list items, h => by
    simp only [bodyOkB] at h
    have ha := emitCstItems_text items h
    simp only [unSpread, emitCst, ExprPeg.mkList_text, ha, exprSrc, String.toList_append,
      String.toList_intercalate, ExprPeg.commaSp, List.append_assoc]
    rfl
  | _, .cond c t e, h => by
    simp only [bodyOkB, Bool.and_eq_true] at h
    have hc := emitCst_text false c h.1.1
    have ht := emitCst_text false t h.1.2
    have he := emitCst_text false e h.2
    rw [show unSpread c = c from by cases c <;> first | rfl | simp [bodyOkB] at h] at hc
    rw [show unSpread t = t from by cases t <;> first | rfl | simp [bodyOkB] at h] at ht
    rw [show unSpread e = e from by cases e <;> first | rfl | simp [bodyOkB] at h] at he
    simp only [unSpread, emitCst, CST.text, hc, ht, he, exprSrc, String.toList_append,
      ExprPeg.layChars, ExprPeg.LayAtom.chars, ExprPeg.thenLit, ExprPeg.elseLit, List.append_assoc,
      List.cons_append, List.nil_append]
    rfl
  | _, .ident n, _ => by
    simp only [emitCst, unSpread, exprSrc]
    cases hv : lookupAL n sc with
    | some v => exact litCst_text v (scopeOk_lookup hsc hv)
    | none => rfl
  | _, .builtin _, _ | _, .bool _, _ | _, .null, _ | _, .num _, _ => rfl
  | _, .str _, h | _, .inref _, h | _, .record _, h | _, .lambda _ _, h | _, .call _ _, h
  | _, .doBlock _ _, h | _, .assign _ _, h | _, .output _, h => by
    simp [bodyOkB] at h
theorem emitCstItems_text : ∀ (items : List Item), bodyOkItems items = true →
    (emitCstItems sc items).map argS = (itemsSrc sc items).map String.toList
  | [], _ => rfl
  | (.mk lead e tr) :: rest, h => by
    simp only [bodyOkItems, Bool.and_eq_true] at h
    simp only [emitCstItems, List.map_cons, argS, emitCst_text true e h.1.2, argS_srcSc sc e,
      emitCstItems_text rest h.2, itemsSrc, itemSrc]
end

theorem emitCst_text0 (e : Expr) (h : bodyOkB false e = true) :
    (emitCst sc e).text = (exprSrc sc e).toList := by
  rw [emitCst_text sc hsc false e h]
  cases e <;> first | rfl | simp [bodyOkB] at h

/-! #### well-formedness -/

/-- the obligation of `CST.Shaped` at an operand: not parenthesised in the emitted text means
    the printer saw no need on the original body, the operand is not a parenthesised literal,
    and then the substituted tree needs none either -/
theorem wrap_np (e : Expr) (pos : Pos) (h : bodyOkB false e = true)
    (hp : (wrap (needsParens e pos) (emitCst sc e)).isParen = false) :
    needsParens (wrap (needsParens e pos) (emitCst sc e)).tree pos = false := by
  rw [ExprPeg.wrap_tree, emitCst_tree0 (fun _ => none) sc hsc e h]
  cases hb : needsParens e pos
  · rw [hb] at hp
    rw [needsParens_subst' (fun _ => none) sc hsc e pos hp]; exact hb
  · rw [hb] at hp; simp [wrap, CST.isParen] at hp

mutual
theorem emitCst_shaped : ∀ (sp : Bool) (e : Expr), bodyOkB sp e = true → (emitCst sc e).Shaped
  | _, .bin op l r, h => by
    simp only [bodyOkB, Bool.and_eq_true] at h
    exact ⟨ExprPeg.wrap_shaped (emitCst_shaped false l h.1.2),
      ExprPeg.wrap_shaped (emitCst_shaped false r h.2),
      wrap_np sc hsc l _ h.1.2, wrap_np sc hsc r _ h.2⟩
  | _, .un op e, h => by
    simp only [bodyOkB, Bool.and_eq_true, bne_iff_ne, ne_eq] at h
    exact ⟨h.1, ExprPeg.wrap_shaped (emitCst_shaped false e h.2), wrap_np sc hsc e _ h.2⟩
  | _, .fact e, h => by
    simp only [bodyOkB] at h
    exact ⟨ExprPeg.wrap_shaped (emitCst_shaped false e h), wrap_np sc hsc e _ h⟩
  | _, .access e i, h => by
    simp only [bodyOkB, Bool.and_eq_true] at h
    exact ⟨ExprPeg.wrap_shaped (emitCst_shaped false e h.1), wrap_np sc hsc e _ h.1,
      emitCst_shaped false i h.2⟩
  | _, .dot e n, h => by
    simp only [bodyOkB, Bool.and_eq_true] at h
    exact ⟨ExprPeg.wrap_shaped (emitCst_shaped false e h.1), wrap_np sc hsc e _ h.1, h.2⟩
  | sp, .spread e, h => by
    simp only [bodyOkB, Bool.and_eq_true] at h
    exact emitCst_shaped false e h.2
  | _, .list items, h => by
    simp only [bodyOkB] at h
    exact ExprPeg.mkList_shaped (emitCstItems_shaped items h)
  | _, .cond c t e, h => by
    simp only [bodyOkB, Bool.and_eq_true] at h
    exact ⟨emitCst_shaped false c h.1.1, emitCst_shaped false t h.1.2, emitCst_shaped false e h.2⟩
  | _, .ident n, h => by
    simp only [bodyOkB] at h
    simp only [emitCst]
    cases hv : lookupAL n sc with
    | some v => exact (litCst_wf v (scopeOk_lookup hsc hv)).1
    | none => exact h
  | _, .builtin _, h | _, .bool _, h | _, .null, h | _, .num _, h => by
    simp only [bodyOkB] at h; exact h
  | _, .str _, h | _, .inref _, h | _, .record _, h | _, .lambda _ _, h | _, .call _ _, h
  | _, .doBlock _ _, h | _, .assign _ _, h | _, .output _, h => by
    simp [bodyOkB] at h
theorem emitCstItems_shaped : ∀ (items : List Item), bodyOkItems items = true →
    ∀ q ∈ emitCstItems sc items, q.2.Shaped
  | [], _ => by intro q hq; cases hq
  | (.mk lead e tr) :: rest, h => by
    simp only [bodyOkItems, Bool.and_eq_true] at h
    intro q hq
    simp only [emitCstItems, List.mem_cons] at hq
    rcases hq with rfl | hq
    · exact emitCst_shaped true e h.1.2
    · exact emitCstItems_shaped rest h.2 q hq
end

mutual
theorem emitCst_layout : ∀ e : Expr, (emitCst sc e).LayoutOk
  | .bin op l r =>
    ⟨ExprPeg.wrap_layout (emitCst_layout l), ExprPeg.wrap_layout (emitCst_layout r), ExprPeg.layOk_sp op⟩
  | .un _ e => ExprPeg.wrap_layout (emitCst_layout e)
  | .fact e => ExprPeg.wrap_layout (emitCst_layout e)
  | .access e i => ⟨ExprPeg.wrap_layout (emitCst_layout e), emitCst_layout i, rfl, rfl⟩
  | .dot e _ => ExprPeg.wrap_layout (emitCst_layout e)
  | .spread e => emitCst_layout e
  | .list items => ExprPeg.mkList_layout (emitCstItems_layout items)
  | .cond c t e =>
    ⟨⟨by simp, rfl, by simp, by simp, by simp, by simp⟩, emitCst_layout c, emitCst_layout t,
      emitCst_layout e⟩
  | .ident n => by
    simp only [emitCst]
    cases hv : lookupAL n sc with
    | some v => exact (litCst_wf v (scopeOk_lookup hsc hv)).2
    | none => trivial
  | .builtin _ | .bool _ | .null | .num _ => trivial
  | .str _ | .inref _ | .record _ | .lambda _ _ | .call _ _
  | .doBlock _ _ | .assign _ _ | .output _ => trivial
theorem emitCstItems_layout : ∀ (items : List Item), ∀ q ∈ emitCstItems sc items, q.2.LayoutOk
  | [] => by intro q hq; cases hq
  | (.mk lead e tr) :: rest => by
    intro q hq
    simp only [emitCstItems, List.mem_cons] at hq
    rcases hq with rfl | hq
    · exact emitCst_layout e
    · exact emitCstItems_layout rest q hq
end

/-! #### no `via` / `into` / `where` at the top level of the emitted body -/

omit hsc in
theorem noChain_wrap {b : Bool} {c : CST} (h : ExprPeg.NoChain c.items) :
    ExprPeg.NoChain (wrap b c).items := by
  rw [ExprPeg.wrap_items]
  cases b
  · exact h
  · exact ExprPeg.noChain_single_noninf (fun r hr => by cases hr)

omit hsc in
theorem noChain_snoc {a : List PItem} {x : PItem} (ha : ExprPeg.NoChain a)
    (h : ∀ r, x ≠ .inf r) : ExprPeg.NoChain (a ++ [x]) :=
  ExprPeg.noChain_append ha (ExprPeg.noChain_single_noninf h)

theorem emitCst_noChain : ∀ (sp : Bool) (e : Expr), bodyOkB sp e = true →
    ExprPeg.NoChain (emitCst sc e).items
  | _, .bin op l r, h => by
    simp only [bodyOkB, Bool.and_eq_true, bne_iff_ne, ne_eq] at h
    have hl := noChain_wrap (b := needsParens l (.binLeft op)) (emitCst_noChain false l h.1.2)
    have hr := noChain_wrap (b := needsParens r (.binRight op)) (emitCst_noChain false r h.2)
    intro rule hm
    simp only [emitCst, CST.items, List.mem_append, List.mem_cons] at hm
    rcases hm with hm | hm | hm
    · exact hl rule hm
    · cases hm
      rw [(ExprPeg.chain_fact op).1]
      cases op <;> simp_all [ExprPeg.isChain]
    · exact hr rule hm
  | _, .un op e, h => by
    simp only [bodyOkB, Bool.and_eq_true] at h
    exact ExprPeg.noChain_cons_noninf (fun r hr => by cases hr)
      (noChain_wrap (emitCst_noChain false e h.2))
  | _, .fact e, h => by
    simp only [bodyOkB] at h
    exact noChain_snoc (noChain_wrap (emitCst_noChain false e h)) (fun r hr => by cases hr)
  | _, .access e i, h => by
    simp only [bodyOkB, Bool.and_eq_true] at h
    exact noChain_snoc (noChain_wrap (emitCst_noChain false e h.1)) (fun r hr => by cases hr)
  | _, .dot e n, h => by
    simp only [bodyOkB, Bool.and_eq_true] at h
    exact noChain_snoc (noChain_wrap (emitCst_noChain false e h.1)) (fun r hr => by cases hr)
  | sp, .spread e, h => by
    simp only [bodyOkB, Bool.and_eq_true] at h
    exact emitCst_noChain false e h.2
  | _, .list items, _ => by
    simp only [emitCst, ExprPeg.mkList_items]
    exact ExprPeg.noChain_single_noninf (fun r hr => by cases hr)
  | _, .cond c t e, _ => ExprPeg.noChain_single_noninf (fun r hr => by cases hr)
  | _, .ident n, _ => by
    simp only [emitCst]
    cases hv : lookupAL n sc with
    | some v =>
      simp only [litCst_items]
      exact ExprPeg.noChain_single_noninf (fun r hr => by cases hr)
    | none => exact ExprPeg.noChain_single_noninf (fun r hr => by cases hr)
  | _, .builtin _, _ | _, .bool _, _ | _, .null, _ | _, .num _, _ =>
    ExprPeg.noChain_single_noninf (fun r hr => by cases hr)
  | _, .str _, h | _, .inref _, h | _, .record _, h | _, .lambda _ _, h | _, .call _ _, h
  | _, .doBlock _ _, h | _, .assign _ _, h | _, .output _, h => by
    simp [bodyOkB] at h

omit hsc in
/-- a body of the class is no `via` / `into` / `where` chain: the emitter writes the top
    function without parentheses around the body and `extend_lambda_body` has nothing to repair -/
theorem bodyOk_lbnp : ∀ (sp : Bool) (e : Expr), bodyOkB sp e = true → lambdaBodyNeedsParens e = false
  | _, .bin op l r, h => by
    simp only [bodyOkB, Bool.and_eq_true, bne_iff_ne, ne_eq] at h
    rw [lambdaBodyNeedsParens_bin, bodyOk_lbnp false l h.1.2]
    cases op <;> simp_all
  | _, .un _ _, _ | _, .fact _, _ | _, .access _ _, _ | _, .dot _ _, _ | _, .spread _, _
  | _, .list _, _ | _, .cond _ _ _, _ | _, .ident _, _ | _, .builtin _, _ | _, .bool _, _
  | _, .null, _ | _, .num _, _ | _, .str _, _ | _, .inref _, _ | _, .record _, _
  | _, .lambda _ _, _ | _, .call _ _, _ | _, .doBlock _ _, _ | _, .assign _ _, _
  | _, .output _, _ => rfl

/-! #### the substituted body is in the PEG fragment -/

mutual
theorem subst_fragB : ∀ (sp : Bool) (e : Expr), bodyOkB sp e = true →
    ExprPeg.fragB sp (substExpr pb sc e) = true
  | _, .bin op l r, h => by
    simp only [bodyOkB, Bool.and_eq_true] at h
    simp only [substExpr, ExprPeg.fragB, Bool.and_eq_true]
    exact ⟨subst_fragB false l h.1.2, subst_fragB false r h.2⟩
  | _, .un op e, h => by
    simp only [bodyOkB, Bool.and_eq_true] at h
    simp only [substExpr, ExprPeg.fragB, Bool.and_eq_true]
    exact ⟨h.1, subst_fragB false e h.2⟩
  | _, .fact e, h => by
    simp only [bodyOkB] at h
    simp only [substExpr, ExprPeg.fragB]
    exact subst_fragB false e h
  | _, .access e i, h => by
    simp only [bodyOkB, Bool.and_eq_true] at h
    simp only [substExpr, ExprPeg.fragB, Bool.and_eq_true]
    exact ⟨subst_fragB false e h.1, subst_fragB false i h.2⟩
  | _, .dot e n, h => by
    simp only [bodyOkB, Bool.and_eq_true] at h
    simp only [substExpr, ExprPeg.fragB, Bool.and_eq_true]
    exact ⟨subst_fragB false e h.1, h.2⟩
  | sp, .spread e, h => by
    simp only [bodyOkB, Bool.and_eq_true] at h
    simp only [substExpr, ExprPeg.fragB, Bool.and_eq_true]
    exact ⟨h.1, subst_fragB false e h.2⟩
  | _, .list items, h => by
    simp only [bodyOkB] at h
    simp only [substExpr, ExprPeg.fragB]
    exact subst_fragItems items h
  | _, .cond c t e, h => by
    simp only [bodyOkB, Bool.and_eq_true] at h
    simp only [substExpr, ExprPeg.fragB, Bool.and_eq_true]
    exact ⟨⟨subst_fragB false c h.1.1, subst_fragB false t h.1.2⟩, subst_fragB false e h.2⟩
  | sp, .ident n, h => by
    simp only [bodyOkB] at h
    simp only [substExpr]
    cases hv : lookupAL n sc with
    | some v => exact fragB_of_frag (litOk_frag pb v (scopeOk_lookup hsc hv)) sp
    | none => simpa [ExprPeg.fragB] using h
  | _, .builtin _, h | _, .bool _, h | _, .null, h | _, .num _, h => by
    simp only [bodyOkB] at h
    simpa [substExpr, ExprPeg.fragB] using h
  | _, .str _, h | _, .inref _, h | _, .record _, h | _, .lambda _ _, h | _, .call _ _, h
  | _, .doBlock _ _, h | _, .assign _ _, h | _, .output _, h => by
    simp [bodyOkB] at h
theorem subst_fragItems : ∀ (items : List Item), bodyOkItems items = true →
    ExprPeg.fragItems (substItems pb sc items) = true
  | [], _ => rfl
  | (.mk lead e tr) :: rest, h => by
    simp only [bodyOkItems, Bool.and_eq_true] at h
    simp only [substItems, substItem, ExprPeg.fragItems, Bool.and_eq_true]
    exact ⟨⟨h.1.1, subst_fragB true e h.1.2⟩, subst_fragItems rest h.2⟩
end

/-! ### the emitted function text -/

/-- the text `to_json` stores for the function, as a CST: `(args) => body`, the body not
    parenthesised (it is no chain, `bodyOk_lbnp`) -/
def fnCst (ps : List LArg) (body : Expr) : CST :=
  .lambda (headOf ps) [.sp] [.sp] (emitCst sc body)

omit hsc in
theorem fnCst_tree_eq (ps : List LArg) (body : Expr) :
    (fnCst sc ps body).tree = .lambda ps (emitCst sc body).tree := by
  simp only [fnCst, CST.tree, ExprPeg.headOf_args]

theorem fnCst_text (ps : List LArg) (body : Expr) (hb : bodyOk body = true) :
    (fnCst sc ps body).text = (lambdaSource ps (exprSrc sc body)).toList := by
  simp only [fnCst, CST.text, ExprPeg.headOf_text, emitCst_text0 sc hsc body hb, lambdaSource,
    String.toList_append, String.toList_intercalate, ExprPeg.commaSp, List.map_map,
    Function.comp_def, ExprPeg.argText_src, ExprPeg.layChars, ExprPeg.LayAtom.chars,
    List.append_assoc, List.cons_append, List.nil_append]
  rfl

theorem fnCst_wf (ps : List LArg) (body : Expr)
    (hps : (ps.all fun a => nameOk a.name) = true) (hb : bodyOk body = true) :
    (fnCst sc ps body).WF := by
  refine ⟨⟨ExprPeg.headOf_namesOk hps, emitCst_shaped sc hsc false body hb, fun _ => ?_,
    (emitCst_noChain sc hsc false body hb).lamSafe⟩,
    ⟨ExprPeg.headOf_ok ps, rfl, emitCst_layout sc hsc body⟩⟩
  rw [emitCst_tree0 (fun _ => none) sc hsc body hb, lbnp_subst' (fun _ => none) sc hsc body]
  exact bodyOk_lbnp false body hb

/-- THE EMITTED TEXT IS READ BACK BY THE MODEL PARSER to the function over the substituted body:
    `(args) => <body with the captured literals inlined>` parses, as a whole, to
    `.lambda args (substExpr sc body)`. -/
theorem emitted_text_parses (ps : List LArg) (body : Expr)
    (hps : (ps.all fun a => nameOk a.name) = true) (hb : bodyOk body = true) :
    ExprPeg.parseText (lambdaSource ps (exprSrc sc body)) = some (.lambda ps (substExpr pb sc body)) := by
  have h := ExprPeg.cst_roundtrip (fnCst sc ps body) (fnCst_wf sc hsc ps body hps hb)
  rwa [fnCst_text sc hsc ps body hb, String.ofList_toList, fnCst_tree_eq,
    emitCst_tree0 pb sc hsc body hb] at h

/-- … and the print of the substituted body is read back to the substituted body -/
theorem subst_body_reparses (body : Expr) (hb : bodyOk body = true) :
    ExprPeg.parseText (exprSrc [] (substExpr pb sc body)) = some (substExpr pb sc body) := by
  have hf : ExprPeg.Frag (substExpr pb sc body) := subst_fragB pb sc hsc false body hb
  have h := ExprPeg.cst_roundtrip (ExprPeg.canon _) (ExprPeg.canon_wf _ hf)
  rwa [ExprPeg.canon_text_frag _ hf, String.ofList_toList, ExprPeg.canon_tree_frag _ hf] at h

end main

/-! ### the model instance of the text interface of `Props/C05.lean` -/

/-- `ParseBody` := the model parser -/
def pbModel : ParseBody := ExprPeg.parseText

/-- `ParseFn` := `parse_function_source` over the model parser: parse the text (one expression
    statement), give the operators behind a lambda back to its body (`extend_lambda_body`),
    answer the parameter list and `expr_to_source` of the body -/
def pfModel : ParseFn := fun s => (ExprPeg.parseText s).bind fun e => parseFunctionSource [e]

theorem pfModel_emitted (pb : String → Option Expr) (sc : Scope) (hsc : scopeOk sc = true)
    (ps : List LArg) (body : Expr) (hps : (ps.all fun a => nameOk a.name) = true)
    (hb : bodyOk body = true) :
    pfModel (lambdaSource ps (exprSrc sc body)) = some (ps, exprSrc [] (substExpr pb sc body)) := by
  simp only [pfModel, emitted_text_parses pb sc hsc ps body hps hb, Option.bind_some,
    parseFunctionSource, extendLambdaBody, exprToSource]

/-! ### the class of functions -/

mutual
theorem litOk_isLit : ∀ (v : SV), litOk v = true → isLit v = true
  | .num x, h => by
    simp only [litOk, Bool.and_eq_true] at h
    simpa [isLit] using h.1
  | .bool _, _ | .null, _ | .builtin _, _ => rfl
  | .list xs, h => by
    simp only [litOk] at h
    simp only [isLit]; exact litOkList_isLit xs h
  | .str _, h | .record _, h | .lambda _ _, h => by simp [litOk] at h
theorem litOkList_isLit : ∀ (xs : List SV), litOkList xs = true → isLitList xs = true
  | [], _ => rfl
  | x :: xs, h => by
    simp only [litOkList, Bool.and_eq_true] at h
    simp only [isLitList, Bool.and_eq_true]
    exact ⟨litOk_isLit x h.1, litOkList_isLit xs h.2⟩
end

/-- fuel that evaluates every literal of the scope -/
def scopeFuel (sc : Scope) : Nat := (sc.map fun kv => litFuel kv.2).foldl max 0

theorem le_foldl_max : ∀ (l : List Nat) (a : Nat), a ≤ l.foldl max a ∧ ∀ x ∈ l, x ≤ l.foldl max a
  | [], a => ⟨Nat.le_refl a, fun _ h => by cases h⟩
  | y :: l, a => by
    obtain ⟨h1, h2⟩ := le_foldl_max l (max a y)
    refine ⟨Nat.le_trans (Nat.le_max_left a y) h1, fun x hx => ?_⟩
    rcases List.mem_cons.mp hx with rfl | hx
    · exact Nat.le_trans (Nat.le_max_right a x) h1
    · exact h2 x hx

theorem litFuel_le_scopeFuel {sc : Scope} {n : String} {v : SV} (hl : lookupAL n sc = some v) :
    litFuel v ≤ scopeFuel sc :=
  (le_foldl_max _ 0).2 _ (List.mem_map.mpr ⟨(n, v), lookupAL_mem hl, rfl⟩)

/-- captured names are not `inf` / `infinity` / `constants`, parameters or `inputs` (what
    `captureScope` produces: the free names of the body, which exclude the parameters) -/
def capturedNamesOk (ps : List LArg) (sc : Scope) : Bool :=
  sc.all fun kv => !Gen.specialIdents.contains kv.1 && !(ps.map LArg.name).contains kv.1 && kv.1 != "inputs"

/-- CLOSED AFTER CAPTURE: every name the body reads is a parameter or captured -/
def closedAfterCapture (ps : List LArg) (body : Expr) (sc : Scope) : Bool :=
  (freeVars (ps.map LArg.name) body).all fun n => (lookupAL n sc).isSome

/-- THE CLASS (decidable): parameter names that are identifiers; body in `bodyOk`; captured
    values in `litOk` under admissible names -/
def portable (ps : List LArg) (body : Expr) (sc : Scope) : Bool :=
  (ps.all fun a => nameOk a.name) && bodyOk body && scopeOk sc && capturedNamesOk ps sc

structure Portable (ps : List LArg) (body : Expr) (sc : Scope) : Prop where
  params : (ps.all fun a => nameOk a.name) = true
  body : bodyOk body = true
  scope : scopeOk sc = true
  names : capturedNamesOk ps sc = true

theorem portable_iff (ps : List LArg) (body : Expr) (sc : Scope) :
    portable ps body sc = true ↔ Portable ps body sc := by
  simp only [portable, Bool.and_eq_true]
  exact ⟨fun h => ⟨h.1.1.1, h.1.1.2, h.1.2, h.2⟩, fun h => ⟨⟨⟨h.1, h.2⟩, h.3⟩, h.4⟩⟩

/-- the captured-value hypothesis of `reload_equiv_partial` -/
theorem Portable.captured {ps : List LArg} {body : Expr} {sc : Scope} (h : Portable ps body sc)
    (n : String) (sv : SV) (hl : lookupAL n sc = some sv) :
    isLit sv = true ∧ litFuel sv ≤ scopeFuel sc ∧ n ∉ Gen.specialIdents ∧ n ∉ ps.map LArg.name ∧
      n ≠ "inputs" := by
  have hn := List.all_eq_true.mp h.names (n, sv) (lookupAL_mem hl)
  simp only [Bool.and_eq_true, Bool.not_eq_true', List.contains_eq_mem, decide_eq_false_iff_not,
    bne_iff_ne, ne_eq] at hn
  exact ⟨litOk_isLit sv (scopeOk_lookup h.scope hl), litFuel_le_scopeFuel hl, hn.1.1, hn.1.2, hn.2⟩

mutual
theorem bodyOkB_noOutput : ∀ (sp : Bool) (e : Expr), bodyOkB sp e = true → noOutput e = true
  | _, .bin op l r, h => by
    simp only [bodyOkB, Bool.and_eq_true] at h
    simp only [noOutput, Bool.and_eq_true]
    exact ⟨bodyOkB_noOutput false l h.1.2, bodyOkB_noOutput false r h.2⟩
  | _, .un op e, h => by
    simp only [bodyOkB, Bool.and_eq_true] at h
    simp only [noOutput]; exact bodyOkB_noOutput false e h.2
  | _, .fact e, h => by
    simp only [bodyOkB] at h
    simp only [noOutput]; exact bodyOkB_noOutput false e h
  | _, .access e i, h => by
    simp only [bodyOkB, Bool.and_eq_true] at h
    simp only [noOutput, Bool.and_eq_true]
    exact ⟨bodyOkB_noOutput false e h.1, bodyOkB_noOutput false i h.2⟩
  | _, .dot e n, h => by
    simp only [bodyOkB, Bool.and_eq_true] at h
    simp only [noOutput]; exact bodyOkB_noOutput false e h.1
  | sp, .spread e, h => by
    simp only [bodyOkB, Bool.and_eq_true] at h
    simp only [noOutput]; exact bodyOkB_noOutput false e h.2
  | _, .list items, h => by
    simp only [bodyOkB] at h
    simp only [noOutput]; exact bodyOkItems_noOutput items h
  | _, .cond c t e, h => by
    simp only [bodyOkB, Bool.and_eq_true] at h
    simp only [noOutput, Bool.and_eq_true]
    exact ⟨⟨bodyOkB_noOutput false c h.1.1, bodyOkB_noOutput false t h.1.2⟩, bodyOkB_noOutput false e h.2⟩
  | _, .ident _, _ | _, .builtin _, _ | _, .bool _, _ | _, .null, _ | _, .num _, _ => rfl
  | _, .str _, h | _, .inref _, h | _, .record _, h | _, .lambda _ _, h | _, .call _ _, h
  | _, .doBlock _ _, h | _, .assign _ _, h | _, .output _, h => by
    simp [bodyOkB] at h
theorem bodyOkItems_noOutput : ∀ (items : List Item), bodyOkItems items = true →
    noOutputItems items = true
  | [], _ => rfl
  | (.mk lead e tr) :: rest, h => by
    simp only [bodyOkItems, Bool.and_eq_true] at h
    simp only [noOutputItems, noOutputItem, Bool.and_eq_true]
    exact ⟨bodyOkB_noOutput true e h.1.2, bodyOkItems_noOutput rest h.2⟩
end

/-- for a function that is closed after capture no name is left to the environment -/
theorem closed_no_free {ps : List LArg} {body : Expr} {sc : Scope} (hb : bodyOk body = true)
    (hc : closedAfterCapture ps body sc = true) (n : String) (hf : FreeIn n body)
    (hp : n ∉ ps.map LArg.name) (hl : lookupAL n sc = none) : False := by
  have hm := (freeVars_iff body (ps.map LArg.name) n (bodyOkB_noOutput false body hb)).mpr ⟨hf, hp⟩
  have := List.all_eq_true.mp hc n hm
  rw [hl] at this
  cases this

end EmitParse
end Blots

