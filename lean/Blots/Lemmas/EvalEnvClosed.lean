import Blots.Lemmas.EvalEnvCoin
import Lean.Elab.Tactic
/-
  C04, call-site independence through arbitrary nested calls: definitions and data lemmas.

  * `ClosedV N v` : every function value inside `v` (also inside captured scopes, lists, records)
                    is closed after capture w.r.t. the display names `N`: every free name of its
                    body is a parameter, captured, its own display name, or `inputs`; its body has no nested
                    `output` (`noOutput`: the grammar only produces `output` as a whole statement).
  * `NamesLe`     : display names only grow (a cell is named once).
  * data lemmas   : every value operation of the evaluator and every callback-free built-in keeps
                    `ClosedV` (they only rearrange the function values they are given).
-/
namespace Blots

/-! ### display names only grow -/

def NamesLe (N N' : List (Nat × String)) : Prop := ∀ id x, nameOf N id = some x → nameOf N' id = some x

theorem NamesLe.refl (N : List (Nat × String)) : NamesLe N N := fun _ _ h => h
theorem NamesLe.trans {A B C : List (Nat × String)} (h1 : NamesLe A B) (h2 : NamesLe B C) : NamesLe A C :=
  fun id x h => h2 id x (h1 id x h)

theorem setNameIfLambda_namesLe (s : ES) (n : String) (v : Value) :
    NamesLe s.names (setNameIfLambda s n v).names := by
  unfold setNameIfLambda
  split
  · rename_i id _ _ _
    split
    · rename_i hnone
      intro id' x hx
      have hne : (id == id') = false := by
        cases hid : id == id' with
        | false => rfl
        | true =>
          have : id = id' := by simpa using hid
          subst this; rw [hnone] at hx; cases hx
      simp only [nameOf, List.find?_cons, hne] at hx ⊢
      exact hx
    · exact NamesLe.refl _
  · exact NamesLe.refl _

/-! ### hereditarily closed values -/

mutual
/-- every function value inside the value is closed after capture (`ClosedFn`: each free name
    of its body is a parameter, captured, its own display name, or `inputs`), has a body
    without nested `output`,
    and captured only values that are closed in the same sense -/
def ClosedV (N : List (Nat × String)) : Value → Prop
  | .list xs => ClosedL N xs
  | .record r => ClosedR N r
  | .lambda id ps body scope => ClosedFn N id ps body scope ∧ noOutput body = true ∧ ClosedR N scope
  | .spread v => ClosedV N v
  | _ => True
def ClosedL (N : List (Nat × String)) : List Value → Prop
  | [] => True
  | x :: xs => ClosedV N x ∧ ClosedL N xs
def ClosedR (N : List (Nat × String)) : List (String × Value) → Prop
  | [] => True
  | (_, v) :: r => ClosedV N v ∧ ClosedR N r
end

/-- every value bound anywhere in the environment is closed -/
def ClosedE (N : List (Nat × String)) (E : List Frame) : Prop := ∀ f ∈ E, ClosedR N f

section
variable {N : List (Nat × String)}

@[simp] theorem closedV_num (x : F64) : ClosedV N (.num x) := by simp [ClosedV]
@[simp] theorem closedV_bool (x : Bool) : ClosedV N (.bool x) := by simp [ClosedV]
@[simp] theorem closedV_null : ClosedV N .null := by simp [ClosedV]
@[simp] theorem closedV_str (x : String) : ClosedV N (.str x) := by simp [ClosedV]
@[simp] theorem closedV_builtin (x : String) : ClosedV N (.builtin x) := by simp [ClosedV]
@[simp] theorem closedV_list (xs : List Value) : ClosedV N (.list xs) ↔ ClosedL N xs := by simp [ClosedV]
@[simp] theorem closedV_record (r : List (String × Value)) : ClosedV N (.record r) ↔ ClosedR N r := by
  simp [ClosedV]
@[simp] theorem closedV_spread (v : Value) : ClosedV N (.spread v) ↔ ClosedV N v := by simp [ClosedV]
theorem closedV_lambda (id : Nat) (ps : List LArg) (body : Expr) (scope : List (String × Value)) :
    ClosedV N (.lambda id ps body scope) ↔
      ClosedFn N id ps body scope ∧ noOutput body = true ∧ ClosedR N scope := by simp [ClosedV]
@[simp] theorem closedL_nil : ClosedL N [] := by simp [ClosedL]
@[simp] theorem closedR_nil : ClosedR N [] := by simp [ClosedR]
@[simp] theorem closedE_nil : ClosedE N [] := by simp [ClosedE]

theorem closedL_iff : ∀ (xs : List Value), ClosedL N xs ↔ ∀ x ∈ xs, ClosedV N x
  | [] => by simp
  | x :: xs => by simp [ClosedL, closedL_iff xs]

theorem closedR_iff : ∀ (r : List (String × Value)), ClosedR N r ↔ ∀ kv ∈ r, ClosedV N kv.2
  | [] => by simp
  | (k, v) :: r => by simp [ClosedR, closedR_iff r]

theorem closedL_cons {x : Value} {xs : List Value} : ClosedL N (x :: xs) ↔ ClosedV N x ∧ ClosedL N xs := by
  simp [ClosedL]

theorem closedE_cons {f : Frame} {E : List Frame} : ClosedE N (f :: E) ↔ ClosedR N f ∧ ClosedE N E := by
  simp [ClosedE]

theorem ClosedL.mem {xs : List Value} {x : Value} (h : ClosedL N xs) (hx : x ∈ xs) : ClosedV N x :=
  (closedL_iff xs).mp h x hx

theorem ClosedL.subset {xs ys : List Value} (h : ClosedL N xs) (hs : ∀ y ∈ ys, y ∈ xs) : ClosedL N ys :=
  (closedL_iff ys).mpr fun y hy => h.mem (hs y hy)

theorem ClosedL.getElem? {xs : List Value} {i : Nat} {x : Value} (h : ClosedL N xs) (hx : xs[i]? = some x) :
    ClosedV N x := h.mem (List.mem_of_getElem? hx)

theorem ClosedL.append {xs ys : List Value} (h1 : ClosedL N xs) (h2 : ClosedL N ys) : ClosedL N (xs ++ ys) :=
  (closedL_iff _).mpr fun _ hx => (List.mem_append.mp hx).elim h1.mem h2.mem

end

theorem ClosedFn.mono {N N' : List (Nat × String)} (h : NamesLe N N') {id : Nat} {ps : List LArg} {body : Expr}
    {scope : Frame} (hc : ClosedFn N id ps body scope) : ClosedFn N' id ps body scope := by
  intro x hx
  rcases hc x hx with h1 | h1 | h1 | h1
  · exact Or.inl h1
  · exact Or.inr (Or.inl h1)
  · exact Or.inr (Or.inr (Or.inl (h id x h1)))
  · exact Or.inr (Or.inr (Or.inr h1))

mutual
theorem ClosedV.mono {N N' : List (Nat × String)} (h : NamesLe N N') : ∀ (v : Value), ClosedV N v → ClosedV N' v
  | .num _, _ | .bool _, _ | .null, _ | .str _, _ | .builtin _, _ => by simp
  | .list xs, hv => by
    simp only [closedV_list] at hv ⊢
    exact ClosedL.mono h xs hv
  | .record r, hv => by
    simp only [closedV_record] at hv ⊢
    exact ClosedR.mono h r hv
  | .spread v, hv => by
    simp only [closedV_spread] at hv ⊢
    exact ClosedV.mono h v hv
  | .lambda id ps body scope, hv => by
    rw [closedV_lambda] at hv ⊢
    exact ⟨hv.1.mono h, hv.2.1, ClosedR.mono h scope hv.2.2⟩
theorem ClosedL.mono {N N' : List (Nat × String)} (h : NamesLe N N') : ∀ (xs : List Value), ClosedL N xs → ClosedL N' xs
  | [], _ => by simp
  | x :: xs, hv => by
    simp only [ClosedL] at hv ⊢
    exact ⟨ClosedV.mono h x hv.1, ClosedL.mono h xs hv.2⟩
theorem ClosedR.mono {N N' : List (Nat × String)} (h : NamesLe N N') : ∀ (r : List (String × Value)),
    ClosedR N r → ClosedR N' r
  | [], _ => by simp
  | (k, v) :: r, hv => by
    simp only [ClosedR] at hv ⊢
    exact ⟨ClosedV.mono h v hv.1, ClosedR.mono h r hv.2⟩
end

theorem ClosedE.mono {N N' : List (Nat × String)} (h : NamesLe N N') {E : List Frame} (hE : ClosedE N E) :
    ClosedE N' E := fun f hf => ClosedR.mono h f (hE f hf)

/-! ### data lemmas: the value operations of the evaluator keep `ClosedV` -/

section data
variable {N : List (Nat × String)}

theorem closed_lookupAL {k : String} {v : Value} {r : List (String × Value)} (hr : ClosedR N r)
    (h : lookupAL k r = some v) : ClosedV N v :=
  (closedR_iff r).mp hr _ (lookupAL_mem h)

theorem closed_lookupAL_getD {k : String} {r : List (String × Value)} (hr : ClosedR N r) :
    ClosedV N ((lookupAL k r).getD .null) := by
  cases h : lookupAL k r with
  | none => simp
  | some v => exact closed_lookupAL hr h

theorem mem_insertAL {α} {k : String} {v : α} {kv : String × α} : ∀ {r : List (String × α)},
    kv ∈ insertAL k v r → kv = (k, v) ∨ kv ∈ r
  | [], h => by simp [insertAL] at h; exact Or.inl h
  | (k', v') :: r, h => by
    simp only [insertAL] at h
    split at h
    · simp only [List.mem_cons] at h ⊢
      rcases h with h | h
      · exact Or.inl h
      · exact Or.inr (Or.inr h)
    · simp only [List.mem_cons] at h ⊢
      rcases h with h | h
      · exact Or.inr (Or.inl h)
      · rcases mem_insertAL h with h | h
        · exact Or.inl h
        · exact Or.inr (Or.inr h)

theorem closedR_insertAL {k : String} {v : Value} {r : List (String × Value)} (hv : ClosedV N v)
    (hr : ClosedR N r) : ClosedR N (insertAL k v r) := by
  rw [closedR_iff] at hr ⊢
  intro kv hkv
  rcases mem_insertAL hkv with h | h
  · subst h; exact hv
  · exact hr kv h

theorem closed_envGet {k : String} {v : Value} : ∀ {E : List Frame}, ClosedE N E → envGet E k = some v →
    ClosedV N v
  | [], _, h => by simp [envGet] at h
  | f :: rest, he, h => by
    rw [closedE_cons] at he
    simp only [envGet] at h
    split at h
    · rename_i w hw; injection h with h; subst h; exact closed_lookupAL he.1 hw
    · exact closed_envGet he.2 h

theorem closedE_envInsert {k : String} {v : Value} {E : List Frame} (he : ClosedE N E) (hv : ClosedV N v) :
    ClosedE N (envInsert E k v) := by
  cases E with
  | nil =>
    simp only [envInsert, closedE_cons]
    exact ⟨by simp [ClosedR, hv], by simp⟩
  | cons f rest =>
    rw [closedE_cons] at he
    simp only [envInsert, closedE_cons]
    exact ⟨closedR_insertAL hv he.1, he.2⟩

theorem closedE_drop {E : List Frame} (he : ClosedE N E) (k : Nat) : ClosedE N (E.drop k) :=
  fun f hf => he f (List.mem_of_mem_drop hf)

theorem closedR_insertAll : ∀ (kvs : List (String × Value)) (f : Frame), ClosedR N kvs → ClosedR N f →
    ClosedR N (insertAll f kvs)
  | [], _, _, h => h
  | (k, v) :: kvs, f, hk, h => by
    simp only [ClosedR] at hk
    exact closedR_insertAll kvs _ hk.2 (closedR_insertAL hk.1 h)

theorem closedR_captureScope {E : List Frame} (he : ClosedE N E) (vars : List String) :
    ClosedR N (captureScope E vars) := by
  rw [captureScope_eq]
  suffices h : ∀ (vars : List String) (acc : Frame), ClosedR N acc →
      ClosedR N (vars.foldl (captureStep E) acc) from h vars [] (by simp)
  intro vars
  induction vars with
  | nil => intro acc h; exact h
  | cons x xs ih =>
    intro acc h
    simp only [List.foldl_cons]
    apply ih
    unfold captureStep
    split
    · rename_i v hv
      exact closedR_insertAL (closed_envGet he hv) h
    · exact h

theorem closedL_spreadValues {v : Value} (hv : ClosedV N v) : ClosedL N (spreadValues v) := by
  cases v with
  | list l => simpa [spreadValues] using hv
  | str s => simp [spreadValues, closedL_iff]
  | record r =>
    simp only [closedV_record] at hv
    simp only [spreadValues, closedL_iff, List.mem_map]
    rintro x ⟨kv, hkv, rfl⟩
    simp [ClosedL, (closedR_iff r).mp hv kv hkv]
  | _ => simp [spreadValues]

theorem closedL_flattenSpreads : ∀ {vs : List Value}, ClosedL N vs → ClosedL N (flattenSpreads vs)
  | [], _ => by simp [flattenSpreads]
  | v :: vs, h => by
    simp only [ClosedL] at h
    have ih := closedL_flattenSpreads h.2
    unfold flattenSpreads at ih ⊢
    simp only [List.flatMap_cons]
    refine ClosedL.append ?_ ih
    split
    · rename_i inner; exact closedL_spreadValues (by simpa using h.1)
    · simp [ClosedL, h.1]

theorem closedR_foldl_insertAL_idx {α} (g : α → Value) (hg : ∀ a, ClosedV N (g a)) :
    ∀ (xs : List (α × Nat)) (acc : Frame), ClosedR N acc →
      ClosedR N (xs.foldl (fun r (p : α × Nat) => insertAL (toString p.2) (g p.1) r) acc)
  | [], _, h => h
  | x :: xs, acc, h => by
    simp only [List.foldl_cons]
    exact closedR_foldl_insertAL_idx g hg xs _ (closedR_insertAL (hg _) h)

theorem closedR_spreadIntoRecord {rec : Frame} {v : Value} (hr : ClosedR N rec) (hv : ClosedV N v) :
    ClosedR N (spreadIntoRecord rec v) := by
  cases v with
  | list l =>
    simp only [closedV_list] at hv
    simp only [spreadIntoRecord]
    suffices h : ∀ (xs : List (Value × Nat)) (acc : Frame), (∀ p ∈ xs, ClosedV N p.1) → ClosedR N acc →
        ClosedR N (xs.foldl (fun r (x : Value × Nat) => insertAL (toString x.2) x.1 r) acc) by
      apply h _ _ _ hr
      intro p hp
      exact hv.mem (List.fst_mem_of_mem_zipIdx hp)
    intro xs
    induction xs with
    | nil => intro acc _ h; exact h
    | cons x xs ih =>
      intro acc hx h
      simp only [List.foldl_cons]
      exact ih _ (fun p hp => hx p (by simp [hp])) (closedR_insertAL (hx x (by simp)) h)
  | str s =>
    simp only [spreadIntoRecord]
    exact closedR_foldl_insertAL_idx (fun c => .str (String.singleton c)) (fun _ => by simp) _ _ hr
  | record r2 =>
    simp only [closedV_record] at hv
    simp only [spreadIntoRecord]
    exact closedR_insertAll r2 rec hv hr
  | _ => exact hr

theorem closed_listGetD {l : List Value} (h : ClosedL N l) (k : Nat) : ClosedV N (listGetD l k) := by
  unfold listGetD
  cases hk : l[k]? with
  | none => simp
  | some v => exact h.getElem? hk

theorem closedR_bindParams_go {args : List Value} (ha : ClosedL N args) :
    ∀ (ps : List LArg) (idx : Nat) (frame pf : Frame), ClosedR N frame →
      bindParams.go args ps idx frame = .ok pf → ClosedR N pf
  | [], _, frame, pf, hf, h => by
    simp only [bindParams.go, Outcome.ok.injEq] at h; subst h; exact hf
  | .req n :: rest, idx, frame, pf, hf, h => by
    simp only [bindParams.go] at h
    split at h
    · rename_i v hv
      exact closedR_bindParams_go ha rest _ _ pf (closedR_insertAL (ha.getElem? hv) hf) h
    · simp at h
  | .opt n :: rest, idx, frame, pf, hf, h => by
    simp only [bindParams.go] at h
    refine closedR_bindParams_go ha rest _ _ pf (closedR_insertAL ?_ hf) h
    cases hv : args[idx]? with
    | none => simp
    | some v => exact ha.getElem? hv
  | .rest n :: rest, idx, frame, pf, hf, h => by
    simp only [bindParams.go] at h
    exact closedR_bindParams_go ha rest _ _ pf
      (closedR_insertAL (by simpa using ha.subset fun y hy => List.mem_of_mem_drop hy) hf) h

theorem closedR_bindParams {params : List LArg} {args : List Value} {pf : Frame}
    (ha : ClosedL N args) (h : bindParams params args = .ok pf) : ClosedR N pf :=
  closedR_bindParams_go ha params 0 [] pf (by simp) h

theorem closed_compareOp {op : BinOp} {a b v : Value} (h : compareOp op a b = .ok v) : ClosedV N v := by
  cases hv : vcmp a b <;> cases op <;>
    simp [compareOp, orderingsOf, checkOrdering, Outcome.bind, hv] at h <;> (subst h; simp)

theorem closed_scalarOp {ops : NumOps} {ew : Bool} {op : BinOp} {a b v : Value}
    (ha : ClosedV N a) (hb : ClosedV N b) (h : scalarOp ops ew op a b = .ok v) : ClosedV N v := by
  cases op
  case coalesce =>
    simp only [scalarOp, Outcome.ok.injEq] at h
    subst h; split <;> assumption
  case via => simp [scalarOp] at h
  case into => simp [scalarOp] at h
  case where_ => simp [scalarOp] at h
  case eq => exact closed_compareOp (op := .eq) h
  case ne => exact closed_compareOp (op := .ne) h
  case lt => exact closed_compareOp (op := .lt) h
  case le => exact closed_compareOp (op := .le) h
  case gt => exact closed_compareOp (op := .gt) h
  case ge => exact closed_compareOp (op := .ge) h
  case deq => exact closed_compareOp (op := .deq) h
  case dne => exact closed_compareOp (op := .dne) h
  case dlt => exact closed_compareOp (op := .dlt) h
  case dle => exact closed_compareOp (op := .dle) h
  case dgt => exact closed_compareOp (op := .dgt) h
  case dge => exact closed_compareOp (op := .dge) h
  all_goals
    cases ew <;> cases a <;> cases b <;>
      simp [scalarOp, logicalOperands, asBool, asNumber, asString, Outcome.bind, bind, pure] at h <;>
      (subst h; simp)

theorem closed_elemScalar {ops : NumOps} {op : BinOp} {lf : Bool} {x sc v : Value}
    (hx : ClosedV N x) (hs : ClosedV N sc) (h : elemScalar ops op lf x sc = .ok v) : ClosedV N v := by
  unfold elemScalar at h
  split at h
  · exact closed_scalarOp hx hs h
  · exact closed_scalarOp hx hs h
  · exact closed_scalarOp hx hs h
  · split at h
    · exact closed_scalarOp hx hs h
    · exact closed_scalarOp hs hx h

theorem closed_mapScalar {ops : NumOps} {op : BinOp} {lf : Bool} {sc : Value} (hs : ClosedV N sc) :
    ∀ {L : List Value} {v : Value}, ClosedL N L → mapScalar ops op lf L sc = .ok v → ClosedV N v
  | [], v, _, h => by simp [mapScalar] at h; subst h; simp
  | x :: xs, v, hL, h => by
    simp only [ClosedL] at hL
    simp only [mapScalar] at h
    split at h
    · rename_i r hr
      have hrc := closed_elemScalar hL.1 hs hr
      split at h
      · rename_i rs hrs
        have := closed_mapScalar hs hL.2 hrs
        simp only [closedV_list] at this
        injection h with h; subst h
        simp [ClosedL, hrc, this]
      · exact closed_mapScalar hs hL.2 h
    · rename_i hne
      exact absurd h (by intro h'; exact hne v h')

theorem closed_zipScalar {ops : NumOps} {op : BinOp} :
    ∀ {la lb : List Value} {v : Value}, ClosedL N la → ClosedL N lb → zipScalar ops op la lb = .ok v →
      ClosedV N v
  | [], _, v, _, _, h => by simp [zipScalar] at h; subst h; simp
  | _ :: _, [], v, _, _, h => by simp [zipScalar] at h; subst h; simp
  | x :: xs, y :: ys, v, ha, hb, h => by
    simp only [ClosedL] at ha hb
    simp only [zipScalar] at h
    split at h
    · rename_i r hr
      have hrc := closed_scalarOp ha.1 hb.1 hr
      split at h
      · rename_i rs hrs
        have := closed_zipScalar ha.2 hb.2 hrs
        simp only [closedV_list] at this
        injection h with h; subst h
        simp [ClosedL, hrc, this]
      · exact closed_zipScalar ha.2 hb.2 h
    · rename_i hne
      exact absurd h (by intro h'; exact hne v h')

theorem closedR_filter {r : List (String × Value)} (h : ClosedR N r) (p : String × Value → Bool) :
    ClosedR N (r.filter p) :=
  (closedR_iff _).mpr fun kv hkv => (closedR_iff _).mp h kv (List.mem_filter.mp hkv).1

theorem closedR_groupByKeys : ∀ {xs ks : List Value} {r : Frame}, ClosedL N xs →
    groupByKeys xs ks = some r → ClosedR N r
  | [], [], r, _, h => by simp [groupByKeys] at h; subst h; simp
  | [], _ :: _, r, _, h => by simp [groupByKeys] at h
  | _ :: _, [], r, _, h => by simp [groupByKeys] at h
  | x :: xs, k :: ks, r, hx, h => by
    simp only [ClosedL] at hx
    cases k <;> simp only [groupByKeys, reduceCtorEq] at h
    rename_i key
    simp only [Option.map_eq_some_iff] at h
    obtain ⟨rest, hrest, rfl⟩ := h
    have ih := closedR_groupByKeys hx.2 hrest
    split
    · rename_i g hg
      have hgn := closed_lookupAL ih hg
      simp only [closedV_list] at hgn
      simp [ClosedR, ClosedL, hx.1, hgn, closedR_filter ih]
    · simp [ClosedR, ClosedL, hx.1, ih]

theorem closedR_countByKeys {ops : NumOps} : ∀ {ks : List Value} {r : Frame},
    countByKeys ops ks = some r → ClosedR N r
  | [], r, h => by simp [countByKeys] at h; subst h; simp
  | k :: ks, r, h => by
    cases k <;> simp only [countByKeys, reduceCtorEq] at h
    simp only [Option.map_eq_some_iff] at h
    obtain ⟨rest, hrest, rfl⟩ := h
    have ih := closedR_countByKeys hrest
    split <;> simp [ClosedR, ih, closedR_filter ih]

theorem closedR_constants : ClosedR N constantsRecord := by simp [constantsRecord, ClosedR]

/-! ### the callback-free built-ins -/

theorem mem_mergeBy' {α} (lt : α → α → Bool) (x : α) : ∀ (l r : List α), x ∈ mergeBy lt l r → x ∈ l ∨ x ∈ r := by
  intro l r
  fun_induction mergeBy lt l r with
  | case1 r => intro h; exact Or.inr h
  | case2 l _ => intro h; exact Or.inl h
  | case3 a l b r hlt ih =>
    intro h
    simp only [List.mem_cons] at h ⊢
    rcases h with h | h
    · exact Or.inr (Or.inl h)
    · rcases ih h with h | h
      · exact Or.inl (by simpa using h)
      · exact Or.inr (Or.inr h)
  | case4 a l b r hlt ih =>
    intro h
    simp only [List.mem_cons] at h ⊢
    rcases h with h | h
    · exact Or.inl (Or.inl h)
    · rcases ih h with h | h
      · exact Or.inl (Or.inr h)
      · exact Or.inr (by simpa using h)

theorem mem_mergeSortBy' {α} (lt : α → α → Bool) (x : α) : ∀ (fuel : Nat) (xs : List α),
    x ∈ mergeSortBy lt fuel xs → x ∈ xs
  | 0, xs, h => by simpa [mergeSortBy] using h
  | fuel + 1, xs, h => by
    simp only [mergeSortBy] at h
    split at h
    · exact h
    · rcases mem_mergeBy' lt x _ _ h with h | h
      · exact List.mem_of_mem_take (mem_mergeSortBy' lt x fuel _ h)
      · exact List.mem_of_mem_drop (mem_mergeSortBy' lt x fuel _ h)

theorem mem_uniqueBy' (x : Value) (xs : List Value) (h : x ∈ uniqueBy xs) : x ∈ xs := by
  unfold uniqueBy at h
  suffices hs : ∀ (ys acc : List Value), x ∈ ys.foldl (fun acc x => if acc.any (fun y => veq x y) then acc
      else acc ++ [x]) acc → x ∈ acc ∨ x ∈ ys by
    rcases hs xs [] h with h | h
    · simp at h
    · exact h
  intro ys
  induction ys with
  | nil => intro acc h; exact Or.inl h
  | cons y ys ih =>
    intro acc h
    simp only [List.foldl_cons] at h
    rcases ih _ h with h | h
    · split at h
      · exact Or.inl h
      · simp only [List.mem_append, List.mem_singleton] at h
        rcases h with h | h
        · exact Or.inl h
        · exact Or.inr (by simp [h])
    · exact Or.inr (by simp [h])

theorem closedL_chunkList (k : Nat) : ∀ (fuel : Nat) (xs : List Value), ClosedL N xs →
    ClosedL N (chunkList k fuel xs)
  | 0, _, _ => by simp [chunkList]
  | fuel + 1, xs, h => by
    simp only [chunkList]
    split
    · simp
    · simp only [ClosedL, closedV_list]
      exact ⟨h.subset fun y hy => List.mem_of_mem_take hy,
        closedL_chunkList k fuel _ (h.subset fun y hy => List.mem_of_mem_drop hy)⟩

theorem closedL_zipRows (lists : List (List Value)) (n : Nat) (h : ∀ l ∈ lists, ClosedL N l) :
    ClosedL N (zipRows lists n) := by
  unfold zipRows
  rw [closedL_iff]
  intro x hx
  simp only [List.mem_map, List.mem_range] at hx
  obtain ⟨i, _, rfl⟩ := hx
  simp only [closedV_list, closedL_iff, List.mem_map]
  rintro y ⟨l, hl, rfl⟩
  exact closed_listGetD (h l hl) i

theorem closed_uncheckedCmp {name : String} {a b v : Value} (h : uncheckedCmp name a b = .ok v) :
    ClosedV N v := by
  unfold uncheckedCmp at h
  split at h <;> simp at h <;> (subst h; simp)

theorem arg_some' {args : List Value} {i : Nat} {msg : String} {x : Value}
    (h : (match args[i]? with
          | some v => Outcome.ok v
          | none => Outcome.panic msg) = Outcome.ok x) : args[i]? = some x := by
  split at h
  · rename_i v hv; injection h with h; subst h; exact hv
  · simp at h

theorem arg_closed {args : List Value} {i : Nat} {msg : String} {x : Value}
    (h : (match args[i]? with
          | some v => Outcome.ok v
          | none => Outcome.panic msg) = Outcome.ok x) (ha : ClosedL N args) : ClosedV N x :=
  ha.getElem? (arg_some' h)

theorem asList_ok' {v : Value} {l : List Value} (h : asList v = .ok l) : v = .list l := by
  cases v <;> simp [asList] at h; subst h; rfl

theorem asRecord_ok' {v : Value} {r : List (String × Value)} (h : asRecord v = .ok r) : v = .record r := by
  cases v <;> simp [asRecord] at h; subst h; rfl

theorem closed_headD {l : List Value} (h : ClosedL N l) : ClosedV N (l.head?.getD .null) := by
  cases l with
  | nil => simp
  | cons x xs => simp only [ClosedL] at h; simpa using h.1

theorem closedL_concat {args : List Value} (ha : ClosedL N args) :
    ClosedL N (args.flatMap fun
      | .list l => l
      | .spread (.list l) => l
      | .spread (.str s) => (chars s).map fun c => .str (String.singleton c)
      | v => [v]) := by
  rw [closedL_iff]
  intro x hx
  simp only [List.mem_flatMap] at hx
  obtain ⟨a, ha', hx⟩ := hx
  have han := ha.mem ha'
  split at hx
  · exact ClosedL.mem (by simpa using han) hx
  · exact ClosedL.mem (by simpa using han) hx
  · simp only [List.mem_map] at hx; obtain ⟨c, _, rfl⟩ := hx; simp
  · simp only [List.mem_singleton] at hx; subst hx; exact han

theorem closedL_flatten {l : List Value} (hl : ClosedL N l) :
    ClosedL N (l.flatMap fun
      | .list inner => inner
      | v => [v]) := by
  rw [closedL_iff]
  intro x hx
  simp only [List.mem_flatMap] at hx
  obtain ⟨a, ha', hx⟩ := hx
  have han := hl.mem ha'
  split at hx
  · exact ClosedL.mem (by simpa using han) hx
  · simp only [List.mem_singleton] at hx; subst hx; exact han

theorem mapM'_ok_mem {α β} (f : α → Outcome β) : ∀ (L : List α) (ys : List β),
    Outcome.mapM' f L = .ok ys → ∀ y ∈ ys, ∃ x ∈ L, f x = .ok y
  | [], ys, h => by simp [Outcome.mapM'] at h; subst h; simp
  | x :: xs, ys, h => by
    simp only [Outcome.mapM'] at h
    split at h
    · rename_i y hy
      split at h
      · rename_i ys' hys
        injection h with h; subst h
        intro z hz
        simp only [List.mem_cons] at hz
        rcases hz with rfl | hz
        · exact ⟨x, by simp, hy⟩
        · obtain ⟨w, hw, hf⟩ := mapM'_ok_mem f xs ys' hys z hz
          exact ⟨w, by simp [hw], hf⟩
      all_goals cases h
    all_goals cases h

theorem closed_zip_lists {args : List Value} {lists : List (List Value)} (ha : ClosedL N args)
    (h : Outcome.mapM' (fun v => match v with
          | Value.list l => Outcome.ok l
          | _ => Outcome.err ErrKind.type_) args = .ok lists) :
    ∀ l ∈ lists, ClosedL N l := by
  intro l hl
  obtain ⟨a, ha', hf⟩ := mapM'_ok_mem _ args lists h l hl
  split at hf
  · injection hf with hf; subst hf
    simpa using ha.mem ha'
  · cases hf

end data

open Lean Elab Tactic Meta in
/-- `fwdc_all [g₁, …]`: for every hypothesis `h` that is an equation add `gᵢ h` for each lemma
    that applies -/
elab "fwdc_all " "[" gs:ident,* "]" : tactic => withMainContext do
  let lctx ← getLCtx
  for d in lctx do
    if d.isImplementationDetail then continue
    let ty ← instantiateMVars d.type
    let some _ := ty.eq? | continue
    for g in gs.getElems do
      try
        let hstx ← Term.exprToSyntax d.toExpr
        evalTactic (← `(tactic| have := $g:ident $hstx))
      catch _ => pure ()

set_option maxHeartbeats 8000000 in
/-- the callback-free built-ins do not conjure function values: a result only contains
    function values taken from the arguments, so closed arguments give a closed result -/
theorem callPure_closed (ops : NumOps) {N : List (Nat × String)} {name : String} {args : List Value} {v : Value}
    (h : callPure ops name args = some (.ok v)) (ha : ClosedL N args) : ClosedV N v := by
  unfold callPure at h
  simp only [] at h
  split at h
  all_goals (try (simp only [Option.some.injEq, reduceCtorEq] at h))
  all_goals (try (
    (try simp only [bind, pure, Outcome.bind] at h)
    (repeat' split at h) <;> (try simp at h) <;> (try (subst h)) <;> (try (simp; done))))
  all_goals (
    fwdc_all [arg_some', asList_ok', asRecord_ok']
    (try subst_vars)
    have hg : ∀ {i : Nat} {x : Value}, args[i]? = some x → ClosedV N x := fun h => ha.getElem? h
    fwdc_all [hg]
    clear hg
    (try simp_all)
    first
      | done
      | exact closed_headD ‹_›
      | exact ClosedL.subset ‹_› fun y hy => List.mem_of_mem_tail hy
      | exact ClosedL.subset ‹_› fun y hy => List.mem_of_mem_take (List.mem_of_mem_drop hy)
      | exact closedL_concat ‹_›
      | exact ClosedL.subset ‹_› fun y hy => mem_uniqueBy' y _ hy
      | exact ClosedL.subset ‹_› fun y hy => mem_mergeSortBy' _ y _ _ hy
      | exact ClosedL.subset ‹_› fun y hy => List.mem_reverse.mp hy
      | exact closedL_flatten ‹_›
      | exact closedL_zipRows _ _ (closed_zip_lists ‹_› ‹_›)
      | exact closedL_chunkList _ _ _ ‹_›
      | (rw [closedL_iff]; intro x hx; simp only [List.mem_map] at hx; obtain ⟨kv, hkv, rfl⟩ := hx
         simp [ClosedL, (closedR_iff _).mp ‹_› kv hkv])
      | exact closed_uncheckedCmp ‹_›
      | (rw [closedL_iff]; intro x hx; simp only [List.mem_map] at hx; obtain ⟨_, _, rfl⟩ := hx; simp))

/-! ### names resolved in the frames a call pushed -/

theorem envGet_append (A B : List Frame) (x : String) :
    envGet (A ++ B) x = match envGet A x with | some v => some v | none => envGet B x := by
  induction A with
  | nil => rfl
  | cons f A ih =>
    simp only [List.cons_append, envGet]
    cases lookupAL x f with
    | some v => rfl
    | none => exact ih

/-- `x` is bound in one of the first `n` frames -/
def InTop (n : Nat) (E : List Frame) (x : String) : Prop := (envGet (E.take n) x).isSome

theorem InTop.agree {n : Nat} {tl' E : List Frame} {x : String} (h : InTop n E x) : Agree n tl' E x := by
  unfold Agree retailE
  rw [envGet_append]
  conv => rhs; rw [← List.take_append_drop n E, envGet_append]
  unfold InTop at h
  cases hg : envGet (E.take n) x with
  | none => rw [hg] at h; cases h
  | some v => rfl

theorem InTop.get {n : Nat} {E : List Frame} {x : String} (h : InTop n E x) : (envGet E x).isSome := by
  rw [← List.take_append_drop n E, envGet_append]
  unfold InTop at h
  cases hg : envGet (E.take n) x with
  | none => rw [hg] at h; cases h
  | some v => rfl

theorem InTop.push {n : Nat} {E : List Frame} {x : String} (g : Frame) (h : InTop n E x) :
    InTop (n + 1) (g :: E) x := by
  unfold InTop at h ⊢
  simp only [List.take_succ_cons, envGet]
  cases lookupAL x g with
  | some v => rfl
  | none => exact h

theorem InTop.of_top {n : Nat} {f : Frame} {R : List Frame} {x : String} (h : (lookupAL x f).isSome) :
    InTop (n + 1) (f :: R) x := by
  unfold InTop
  simp only [List.take_succ_cons, envGet]
  cases hl : lookupAL x f with
  | none => rw [hl] at h; cases h
  | some v => rfl

theorem InTop.mono {n : Nat} {E E1 : List Frame} {x : String} (hn : 0 < n) (hE : E ≠ [])
    (hk : KeysExt E E1) (h : InTop n E x) : InTop n E1 x := by
  obtain ⟨n, rfl⟩ : ∃ m, n = m + 1 := ⟨n - 1, by omega⟩
  cases E with
  | nil => exact absurd rfl hE
  | cons f R =>
    have hkeys := hk.keys x
    rcases hk.below with he | ⟨f1, he⟩
    · rw [he]; exact h
    · rw [he] at hkeys ⊢
      simp only [List.tail_cons, List.headD_cons] at hkeys ⊢
      unfold InTop at h ⊢
      simp only [List.take_succ_cons, envGet] at h ⊢
      cases h1 : lookupAL x f1 with
      | some v1 => rfl
      | none =>
        cases h0 : lookupAL x f with
        | some v0 => rw [h0, h1] at hkeys; exact absurd (hkeys rfl) (by simp)
        | none => rw [h0] at h; exact h

/-- agreement survives pushing the same frame on both sides -/
theorem Agree.push' {n : Nat} {tl' E : List Frame} {x : String} (g : Frame) (ha : Agree n tl' E x) :
    Agree (n + 1) tl' (g :: E) x := by
  unfold Agree at ha ⊢
  rw [retailE_cons, envGet_cons, envGet_cons]
  cases lookupAL x g with
  | some v => rfl
  | none => exact ha

/-- the names with property `P` are `inputs` or resolved in the first `n` frames -/
def FOK (n : Nat) (E : List Frame) (P : String → Prop) : Prop := ∀ x, P x → x = "inputs" ∨ InTop n E x

theorem FOK.imp {n : Nat} {E : List Frame} {P Q : String → Prop} (h : FOK n E P) (hq : ∀ x, Q x → P x) :
    FOK n E Q := fun x hx => h x (hq x hx)

theorem FOK.step {n : Nat} {E E1 : List Frame} {P : String → Prop} (h : FOK n E P) (hn : 0 < n) (hE : E ≠ [])
    (hk : KeysExt E E1) : FOK n E1 P := fun x hx => (h x hx).imp_right (InTop.mono hn hE hk)

theorem FOK.push {n : Nat} {E : List Frame} {P : String → Prop} (g : Frame) (h : FOK n E P) :
    FOK (n + 1) (g :: E) P := fun x hx => (h x hx).imp_right (InTop.push g)

/-! ### the invariant of the coincidence induction -/

/-- what is assumed of a state: the prefix exists, `inputs` is resolved identically with the
    replaced lower frames, every value bound in the environment is closed -/
structure SOK (n : Nat) (tl' : List Frame) (s : ES) : Prop where
  len : n ≤ s.env.length
  inp : Agree n tl' s.env "inputs"
  cl : ClosedE s.names s.env

/-- what an evaluation step guarantees of its result `p` from state `s`: innermost frame keeps
    its keys and the frames below are the same, names only grow, the environment is closed, a
    successful result is closed -/
structure Post {α} (C : List (Nat × String) → α → Prop) (s : ES) (p : R α) : Prop where
  keys : KeysExt s.env p.2.env
  names : NamesLe s.names p.2.names
  cl : ClosedE p.2.names p.2.env
  val : ∀ v, p.1 = .ok v → C p.2.names v

/-- the same for the call group, which returns the caller's environment exactly -/
structure PostC {α} (C : List (Nat × String) → α → Prop) (s : ES) (p : R α) : Prop where
  env : p.2.env = s.env
  names : NamesLe s.names p.2.names
  cl : ClosedE p.2.names p.2.env
  val : ∀ v, p.1 = .ok v → C p.2.names v

theorem PostC.toPost {α} {C : List (Nat × String) → α → Prop} {s : ES} {p : R α} (h : PostC C s p) : Post C s p :=
  ⟨by rw [h.env]; exact KeysExt.refl _, h.names, h.cl, h.val⟩

theorem Post.same {α} {C : List (Nat × String) → α → Prop} {s : ES} {r : Outcome α} (hc : ClosedE s.names s.env)
    (hv : ∀ v, r = .ok v → C s.names v) : Post C s (r, s) :=
  ⟨KeysExt.refl _, NamesLe.refl _, hc, hv⟩

theorem PostC.same {α} {C : List (Nat × String) → α → Prop} {s : ES} {r : Outcome α} (hc : ClosedE s.names s.env)
    (hv : ∀ v, r = .ok v → C s.names v) : PostC C s (r, s) :=
  ⟨rfl, NamesLe.refl _, hc, hv⟩

/-- same state, another outcome -/
theorem Post.re {α β} {C : List (Nat × String) → α → Prop} {C' : List (Nat × String) → β → Prop} {s s1 : ES}
    {r : Outcome α} {r' : Outcome β} (h : Post C s (r, s1)) (hv : ∀ v, r' = .ok v → C' s1.names v) :
    Post C' s (r', s1) := ⟨h.keys, h.names, h.cl, hv⟩

theorem PostC.re {α β} {C : List (Nat × String) → α → Prop} {C' : List (Nat × String) → β → Prop} {s s1 : ES}
    {r : Outcome α} {r' : Outcome β} (h : PostC C s (r, s1)) (hv : ∀ v, r' = .ok v → C' s1.names v) :
    PostC C' s (r', s1) := ⟨h.env, h.names, h.cl, hv⟩

theorem Post.trans {α β} {C : List (Nat × String) → α → Prop} {C' : List (Nat × String) → β → Prop} {s : ES}
    {p : R α} {q : R β} (h1 : Post C s p) (h2 : Post C' p.2 q) : Post C' s q :=
  ⟨h1.keys.trans h2.keys, h1.names.trans h2.names, h2.cl, h2.val⟩

theorem PostC.trans {α β} {C : List (Nat × String) → α → Prop} {C' : List (Nat × String) → β → Prop} {s : ES}
    {p : R α} {q : R β} (h1 : PostC C s p) (h2 : PostC C' p.2 q) : PostC C' s q :=
  ⟨h2.env.trans h1.env, h1.names.trans h2.names, h2.cl, h2.val⟩

theorem SOK.ne {n : Nat} {tl' : List Frame} {s : ES} (h : SOK n tl' s) (hn : 0 < n) : s.env ≠ [] :=
  ne_nil_of_le hn h.len

theorem SOK.next {α} {C : List (Nat × String) → α → Prop} {n : Nat} {tl' : List Frame} {s : ES} {p : R α}
    (h : SOK n tl' s) (hn : 0 < n) (hp : Post C s p) : SOK n tl' p.2 :=
  ⟨by rw [hp.keys.below.length (h.ne hn)]; exact h.len, h.inp.mono hn (h.ne hn) hp.keys, hp.cl⟩

theorem SOK.nextC {α} {C : List (Nat × String) → α → Prop} {n : Nat} {tl' : List Frame} {s : ES} {p : R α}
    (h : SOK n tl' s) (hp : PostC C s p) : SOK n tl' p.2 :=
  ⟨by rw [hp.env]; exact h.len, by rw [hp.env]; exact h.inp, hp.cl⟩

/-- the statement proved of each function of the evaluator: the run with the lower frames
    replaced is the same run, and the result keeps the invariant -/
abbrev Sim {α} (n : Nat) (tl' : List Frame) (C : List (Nat × String) → α → Prop) (s : ES) (p p' : R α) : Prop :=
  p' = (p.1, retail n tl' p.2) ∧ Post C s p

abbrev SimC {α} (n : Nat) (tl' : List Frame) (C : List (Nat × String) → α → Prop) (s : ES) (p p' : R α) : Prop :=
  p' = (p.1, retail n tl' p.2) ∧ PostC C s p

/-! ### the frames of a call -/

/-- how many frames a call pushes -/
def pushed (scope : Frame) : Nat := if scope.isEmpty then 1 else 2

theorem callEnv_retail' (names : List (Nat × String)) (id : Nat) (scope : Frame) (this : Value) (pf : Frame)
    (n : Nat) (tl' E : List Frame) (hin : Agree n tl' E "inputs") :
    callEnv names id scope this pf (retailE n tl' E) =
      retailE (n + pushed scope) tl' (callEnv names id scope this pf E) := by
  unfold callEnv pushed
  unfold Agree at hin
  rw [hin]
  cases scope with
  | nil => simp [retailE]
  | cons a b => simp [retailE]

theorem callEnv_length (names : List (Nat × String)) (id : Nat) (scope : Frame) (this : Value) (pf : Frame)
    (E : List Frame) : (callEnv names id scope this pf E).length = E.length + pushed scope := by
  unfold callEnv pushed
  cases scope <;> simp

theorem agree_callEnv (names : List (Nat × String)) (id : Nat) (scope : Frame) (this : Value) (pf : Frame)
    (n : Nat) (tl' E : List Frame) (x : String) (h : Agree n tl' E x) :
    Agree (n + pushed scope) tl' (callEnv names id scope this pf E) x := by
  unfold callEnv pushed
  cases scope with
  | nil => exact h.push' _
  | cons a b => exact (h.push' _).push' _

theorem closedR_callFrame {N : List (Nat × String)} (names : List (Nat × String)) (id : Nat) (scope : Frame)
    (this : Value) (inputs : Option Value) (pf : Frame) (ht : ClosedV N this)
    (hi : ∀ v, inputs = some v → ClosedV N v) (hp : ClosedR N pf) :
    ClosedR N (callFrame names id scope this inputs pf) := by
  unfold callFrame
  apply closedR_insertAll pf _ hp
  have hself : ClosedR N (selfFrame names id scope this) := by
    unfold selfFrame
    split
    · split
      · simp
      · simp [ClosedR, ht]
    · simp
  unfold baseFrame
  cases inputs with
  | none => exact hself
  | some v => exact closedR_insertAL (hi v rfl) hself

theorem closedE_callEnv {N : List (Nat × String)} (names : List (Nat × String)) (id : Nat) (scope : Frame)
    (this : Value) (pf : Frame) (E : List Frame) (ht : ClosedV N this) (hs : ClosedR N scope)
    (hp : ClosedR N pf) (hE : ClosedE N E) : ClosedE N (callEnv names id scope this pf E) := by
  unfold callEnv
  rw [closedE_cons]
  refine ⟨closedR_callFrame names id scope this _ pf ht (fun v hv => closed_envGet hE hv) hp, ?_⟩
  split
  · exact hE
  · rw [closedE_cons]; exact ⟨hs, hE⟩

theorem lookup_callFrame_isSome (names : List (Nat × String)) (id : Nat) (scope : Frame) (this : Value)
    (inputs : Option Value) (pf : Frame) (x : String)
    (h : (lookupAL x pf.reverse).isSome ∨ (nameOf names id = some x ∧ lookupAL x scope = none)) :
    (lookupAL x (callFrame names id scope this inputs pf)).isSome := by
  unfold callFrame
  rw [lookupAL_insertAll]
  cases hp : lookupAL x pf.reverse with
  | some v => rfl
  | none =>
    rw [hp] at h
    rcases h with h | h
    · cases h
    · simp only
      have hself : (lookupAL x (selfFrame names id scope this)).isSome := by
        rw [lookup_selfFrame, if_pos h]; rfl
      unfold baseFrame
      cases inputs with
      | none => exact hself
      | some v => exact lookupAL_insertAL_isSome "inputs" x v _ hself

/-- every free name of a closed function's body is `inputs` or bound in the frames the call
    pushes -/
theorem fok_callEnv (names : List (Nat × String)) (id : Nat) (ps : List LArg) (body : Expr) (scope : Frame)
    (this : Value) (args : List Value) (pf : Frame) (E : List Frame) (n : Nat)
    (hc : ClosedFn names id ps body scope) (hb : bindParams ps args = .ok pf) :
    FOK (n + pushed scope) (callEnv names id scope this pf E) (FreeIn · body) := by
  intro x hx
  have hscope : (lookupAL x scope).isSome →
      InTop (n + pushed scope) (callEnv names id scope this pf E) x := by
    intro h
    unfold callEnv pushed
    cases scope with
    | nil => simp [lookupAL] at h
    | cons a b => exact InTop.push _ (InTop.of_top h)
  have htop : (lookupAL x pf.reverse).isSome ∨ (nameOf names id = some x ∧ lookupAL x scope = none) →
      InTop (n + pushed scope) (callEnv names id scope this pf E) x := by
    intro h
    have := lookup_callFrame_isSome names id scope this (envGet E "inputs") pf x h
    unfold callEnv pushed
    cases scope with
    | nil => exact InTop.of_top this
    | cons a b => exact InTop.of_top this
  rcases hc x hx with h | h | h | h
  · exact Or.inr (htop (Or.inl (bindParams_lookup_isSome ps args pf hb x h)))
  · exact Or.inr (hscope h)
  · cases hs : lookupAL x scope with
    | some v => exact Or.inr (hscope (by rw [hs]; rfl))
    | none => exact Or.inr (htop (Or.inr ⟨h, hs⟩))
  · exact Or.inl h

/-- `ClosedFn` is checkable: the free names are the finite list `freeVars [] body` -/
theorem closedFn_of_freeVars {names : List (Nat × String)} {id : Nat} {ps : List LArg} {body : Expr} {scope : Frame}
    (hno : noOutput body = true)
    (hall : ∀ x ∈ freeVars [] body, x ∈ ps.map LArg.name ∨ (lookupAL x scope).isSome ∨ nameOf names id = some x ∨
      x = "inputs") : ClosedFn names id ps body scope :=
  fun x hx => hall x ((freeVars_iff body [] x hno).mpr ⟨hx, by simp⟩)

end Blots
