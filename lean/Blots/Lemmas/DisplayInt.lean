import Blots.Lemmas.NumText
import Blots.Lemmas.OfRatio
/-
  Lemmas about the integer path of `format_display_number`: which bit patterns take it, and
  that `as i64` is then the exact value.
-/

namespace Blots.Display

theorem nbits_ofNatBits (n : Nat) (h : n < 2 ^ 64) : (F64.ofNatBits n).nbits = n := by
  simp [F64.ofNatBits, F64.nbits, Nat.mod_eq_of_lt h]

theorem mag_lt (x : F64) : x.mag < 2 ^ 63 := Nat.mod_lt _ (by decide)

theorem abs_key (x : F64) : x.abs.key = Int.ofNat x.mag := by
  have h := mag_lt x
  have hn : x.abs.nbits = x.mag := nbits_ofNatBits _ (by omega)
  have h2 : x.mag / 2 ^ 63 % 2 = 0 := by omega
  have h3 : x.mag % 2 ^ 63 = x.mag := Nat.mod_eq_of_lt h
  simp only [F64.key, F64.neg, F64.mag, F64.abs] at *
  simp [hn, h3]

/-- magnitude bits below those of 2^53 bound the integer part -/
theorem intPart_lt_of_mag_lt (x : F64) (h : x.mag < 0x4340000000000000) :
    x.ratio.1 / x.ratio.2 < 2 ^ 53 := by
  have hE : x.expField ≤ 1075 := by
    simp only [F64.expField, F64.mag] at *
    omega
  have hf := F64.frac_lt x
  by_cases h0 : x.expField = 0
  · rw [F64.ratio_subnormal x h0]
    calc x.frac / 2 ^ 1074 ≤ x.frac := Nat.div_le_self _ _
      _ < 2 ^ 53 := by omega
  · by_cases h1 : x.expField = 1075
    · rw [F64.ratio_normal_nonneg x (by omega)]
      simp [h1]
      omega
    · rw [F64.ratio_normal_neg x (by omega) (by omega)]
      calc (x.frac + 2 ^ 52) / 2 ^ (1075 - x.expField) ≤ x.frac + 2 ^ 52 := Nat.div_le_self _ _
        _ < 2 ^ 53 := by omega


theorem twoPow53_key : twoPow53.key = 0x4340000000000000 := by decide

theorem mag_lt_of_flt_twoPow53 (x : F64) (h : F64.flt x.abs twoPow53 = true) :
    x.mag < 0x4340000000000000 := by
  simp only [F64.flt, Bool.and_eq_true, decide_eq_true_eq] at h
  have := h.2
  rw [abs_key, twoPow53_key] at this
  simp only [Int.ofNat_eq_natCast] at this
  omega

theorem path_integer_facts (x : F64) (h : path x = .integer) :
    x.isNaN = false ∧ x.isInf = false ∧ F64.feq x F64.zero = false ∧ x.isIntegral = true ∧
      F64.flt x.abs twoPow53 = true := by
  unfold path at h
  split at h
  · cases h
  · split at h
    · cases h
    · split at h
      · cases h
      · split at h
        · cases h
        · split at h
          · rename_i h1 h2 h3 h4 h5
            simp only [Bool.and_eq_true] at h5
            simp_all
          · cases h

theorem isFinite_of_not_nan_inf (x : F64) (h1 : x.isNaN = false) (h2 : x.isInf = false) :
    x.isFinite = true := by
  simp only [F64.isNaN, F64.isInf, F64.isFinite] at *
  by_cases he : x.expField = 2047
  · by_cases hf : x.frac = 0 <;> simp_all
  · simp [he]

theorem truncInt_eq (x : F64) :
    x.truncInt = if x.neg then - Int.ofNat (x.ratio.1 / x.ratio.2) else Int.ofNat (x.ratio.1 / x.ratio.2) := by
  unfold F64.truncInt
  rfl

theorem toI64_eq_truncInt (x : F64) (h1 : x.isNaN = false) (h2 : x.isInf = false)
    (hq : x.ratio.1 / x.ratio.2 < 2 ^ 63) : x.toI64 = x.truncInt := by
  unfold F64.toI64
  simp only [h1, h2, Bool.false_eq_true, ↓reduceIte]
  rw [truncInt_eq]
  generalize x.ratio.1 / x.ratio.2 = q at *
  cases x.neg <;> simp only [Int.ofNat_eq_natCast, Bool.false_eq_true, ↓reduceIte] <;>
    (repeat' split) <;> omega

/-- a non-zero integral value has integer part ≥ 1 -/
theorem intPart_pos (x : F64) (hz : F64.feq x F64.zero = false) (hn : x.isNaN = false)
    (hi : x.ratio.1 % x.ratio.2 = 0) : 0 < x.ratio.1 / x.ratio.2 := by
  have hmag : x.mag ≠ 0 := by
    intro h0
    have hk : x.key = 0 := by
      simp only [F64.key, h0]
      split <;> rfl
    have hzk : F64.zero.key = 0 := by decide
    have hzn : F64.zero.isNaN = false := by decide
    simp [F64.feq, hn, hzn, hk, hzk] at hz
  obtain ⟨k, hk⟩ := F64.ratio_snd_two_pow x
  have hden : 0 < x.ratio.2 := by rw [hk]; exact Nat.two_pow_pos k
  have hnum : x.ratio.1 ≠ 0 := by
    have hf := F64.frac_lt x
    by_cases h0 : x.expField = 0
    · rw [F64.ratio_subnormal x h0]
      simp only [F64.mag, F64.expField, F64.frac] at *
      omega
    · by_cases h1 : 1075 ≤ x.expField
      · rw [F64.ratio_normal_nonneg x h1]
        exact Nat.ne_of_gt (Nat.mul_pos (by omega) (Nat.two_pow_pos _))
      · rw [F64.ratio_normal_neg x (by omega) (by omega)]
        simp only []
        omega
  have : x.ratio.2 ≤ x.ratio.1 := by
    have := Nat.div_add_mod x.ratio.1 x.ratio.2
    rw [hi] at this
    have hq : x.ratio.1 / x.ratio.2 ≠ 0 := by
      intro h0
      rw [h0] at this
      simp at this
      exact hnum this.symm
    have : 1 ≤ x.ratio.1 / x.ratio.2 := Nat.one_le_iff_ne_zero.mpr hq
    calc x.ratio.2 = x.ratio.2 * 1 := (Nat.mul_one _).symm
      _ ≤ x.ratio.2 * (x.ratio.1 / x.ratio.2) := Nat.mul_le_mul_left _ this
      _ ≤ x.ratio.1 := Nat.mul_div_le _ _
  exact Nat.div_pos this hden

end Blots.Display
