import Blots.Model.Eval
import Blots.Model.Data
import Blots.Lemmas.Num
import Blots.Lemmas.ValueEq
import Blots.Lemmas.ValueOrder
import Blots.Lemmas.ToyOps
/-
  Laws of the list / string / record helpers used by the built-ins (`mergeBy`, `mergeSortBy`,
  `sortLt`, `uniqueBy`, `chunkList`, `zipRows`, `indexOf`, `splitOnL`, …).  Used by
  `Props/C14.lean`.
-/
namespace Blots

/-! ### merge sort: permutation (no assumption on `lt`) -/

theorem mergeBy_perm {α} (lt : α → α → Bool) : ∀ (l r : List α), (mergeBy lt l r).Perm (l ++ r)
  | [], r => by simp [mergeBy]
  | a :: l, [] => by simp [mergeBy]
  | a :: l, b :: r => by
    rw [mergeBy]
    split
    · have h := mergeBy_perm lt (a :: l) r
      exact (h.cons b).trans List.perm_middle.symm
    · exact (mergeBy_perm lt l (b :: r)).cons a
termination_by l r => l.length + r.length

theorem mergeSortBy_perm {α} (lt : α → α → Bool) : ∀ (n : Nat) (xs : List α), (mergeSortBy lt n xs).Perm xs
  | 0, xs => by simp [mergeSortBy]
  | n + 1, xs => by
    rw [mergeSortBy]
    split
    · exact List.Perm.refl _
    · refine (mergeBy_perm lt _ _).trans ?_
      have h1 := mergeSortBy_perm lt n (xs.take (xs.length / 2))
      have h2 := mergeSortBy_perm lt n (xs.drop (xs.length / 2))
      exact (h1.append h2).trans (by rw [List.take_append_drop])

theorem mergeSortBy_length {α} (lt : α → α → Bool) (n : Nat) (xs : List α) :
    (mergeSortBy lt n xs).length = xs.length := (mergeSortBy_perm lt n xs).length_eq

theorem mem_mergeSortBy {α} (lt : α → α → Bool) (n : Nat) (xs : List α) (a : α) :
    a ∈ mergeSortBy lt n xs ↔ a ∈ xs := (mergeSortBy_perm lt n xs).mem_iff

/-! ### merge sort: sortedness and stability for a strict weak order on the elements

  `lt b a` is the question the Rust code asks ("is the right head strictly smaller?").
  `P` singles out the elements on which `lt` behaves like a strict weak order:
  asymmetric, and `b < a`, `¬ c < a` imply `b < c`. -/

structure WeakOrderOn {α} (lt : α → α → Bool) (P : α → Prop) : Prop where
  asym : ∀ a b, P a → P b → lt a b = true → lt b a = false
  ntrans : ∀ a b c, P a → P b → P c → lt b a = true → lt c a = false → lt b c = true

theorem WeakOrderOn.le_trans {α} {lt : α → α → Bool} {P : α → Prop} (h : WeakOrderOn lt P)
    {a b c : α} (ha : P a) (hb : P b) (hc : P c) (h1 : lt b a = false) (h2 : lt c b = false) :
    lt c a = false := by
  cases hca : lt c a with
  | false => rfl
  | true =>
    have := h.ntrans a c b ha hc hb hca h1
    rw [this] at h2; exact h2

/-- non-decreasing: no later element is strictly smaller than an earlier one -/
def SortedBy {α} (lt : α → α → Bool) (xs : List α) : Prop :=
  xs.Pairwise (fun a b => lt b a = false)

theorem mergeBy_sorted {α} {lt : α → α → Bool} {P : α → Prop} (h : WeakOrderOn lt P) :
    ∀ (l r : List α), (∀ x ∈ l, P x) → (∀ x ∈ r, P x) → SortedBy lt l → SortedBy lt r →
      SortedBy lt (mergeBy lt l r)
  | [], r => by intro _ _ _ hr; simpa [mergeBy] using hr
  | a :: l, [] => by intro _ _ hl _; simpa [mergeBy] using hl
  | a :: l, b :: r => by
    intro hPl hPr hl hr
    have hPa : P a := hPl a (by simp)
    have hPb : P b := hPr b (by simp)
    rw [mergeBy]
    split
    · rename_i hba
      have hl' := hl
      have hr' := hr
      simp only [SortedBy, List.pairwise_cons] at hl' hr'
      have ih := mergeBy_sorted h (a :: l) r hPl (fun x hx => hPr x (by simp [hx])) hl hr'.2
      simp only [SortedBy, List.pairwise_cons]
      refine ⟨?_, ih⟩
      intro x hx
      have hx' : x ∈ (a :: l) ++ r := (mergeBy_perm lt (a :: l) r).mem_iff.mp hx
      rcases List.mem_append.mp hx' with hx' | hx'
      · have hab : lt a b = false := h.asym b a hPb hPa hba
        rcases List.mem_cons.mp hx' with rfl | hxl
        · exact hab
        · exact h.le_trans hPb hPa (hPl x (by simp [hxl])) hab (hl'.1 x hxl)
      · exact hr'.1 x hx'
    · rename_i hba
      have hba : lt b a = false := by simpa using hba
      have hl' := hl
      have hr' := hr
      simp only [SortedBy, List.pairwise_cons] at hl' hr'
      have ih := mergeBy_sorted h l (b :: r) (fun x hx => hPl x (by simp [hx])) hPr hl'.2 hr
      simp only [SortedBy, List.pairwise_cons]
      refine ⟨?_, ih⟩
      intro x hx
      have hx' : x ∈ l ++ (b :: r) := (mergeBy_perm lt l (b :: r)).mem_iff.mp hx
      rcases List.mem_append.mp hx' with hx' | hx'
      · exact hl'.1 x hx'
      · rcases List.mem_cons.mp hx' with rfl | hxr
        · exact hba
        · exact h.le_trans hPa hPb (hPr x (by simp [hxr])) hba (hr'.1 x hxr)
termination_by l r => l.length + r.length

theorem mergeSortBy_sorted {α} {lt : α → α → Bool} {P : α → Prop} (h : WeakOrderOn lt P) :
    ∀ (n : Nat) (xs : List α), xs.length ≤ n → (∀ x ∈ xs, P x) → SortedBy lt (mergeSortBy lt n xs)
  | 0, xs => by
    intro hn _
    have : xs = [] := List.length_eq_zero_iff.mp (by omega)
    subst this; simp [mergeSortBy, SortedBy]
  | n + 1, xs => by
    intro hn hP
    rw [mergeSortBy]
    split
    · rename_i hlen
      match xs, hlen with
      | [], _ => simp [SortedBy]
      | [a], _ => simp [SortedBy]
      | _ :: _ :: _, hlen => simp at hlen; omega
    · rename_i hlen
      have hlen : 2 ≤ xs.length := by omega
      have hPt : ∀ x ∈ xs.take (xs.length / 2), P x := fun x hx => hP x (List.mem_of_mem_take hx)
      have hPd : ∀ x ∈ xs.drop (xs.length / 2), P x := fun x hx => hP x (List.mem_of_mem_drop hx)
      refine mergeBy_sorted h _ _ ?_ ?_ ?_ ?_
      · intro x hx; exact hPt x ((mem_mergeSortBy lt n _ x).mp hx)
      · intro x hx; exact hPd x ((mem_mergeSortBy lt n _ x).mp hx)
      · exact mergeSortBy_sorted h n _ (by rw [List.length_take]; omega) hPt
      · exact mergeSortBy_sorted h n _ (by rw [List.length_drop]; omega) hPd

/-! ### stability: the members of a class of mutually equal elements keep their order -/

theorem mergeBy_filter {α} {lt : α → α → Bool} {P : α → Prop} (h : WeakOrderOn lt P)
    (p : α → Bool) (hp : ∀ x y, p x = true → p y = true → lt x y = false) :
    ∀ (l r : List α), (∀ x ∈ l, P x) → (∀ x ∈ r, P x) → SortedBy lt l →
      (mergeBy lt l r).filter p = l.filter p ++ r.filter p
  | [], r => by intros; simp [mergeBy]
  | a :: l, [] => by intros; simp [mergeBy]
  | a :: l, b :: r => by
    intro hPl hPr hl
    have hPa : P a := hPl a (by simp)
    have hPb : P b := hPr b (by simp)
    have hl' := hl
    simp only [SortedBy, List.pairwise_cons] at hl'
    rw [mergeBy]
    split
    · rename_i hba
      have ih := mergeBy_filter h p hp (a :: l) r hPl (fun x hx => hPr x (by simp [hx])) hl
      cases hpb : p b with
      | false => simp [List.filter_cons, hpb, ih]
      | true =>
        have hnil : (a :: l).filter p = [] := by
          rw [List.filter_eq_nil_iff]
          intro c hc hpc
          have hca : lt c a = false := by
            rcases List.mem_cons.mp hc with rfl | hcl
            · cases hcc : lt c c with
              | false => rfl
              | true => have := h.asym c c hPa hPa hcc; rw [hcc] at this; exact this
            · exact hl'.1 c hcl
          have hbc := h.ntrans a b c hPa hPb (hPl c hc) hba hca
          have := hp b c hpb hpc
          rw [hbc] at this; exact absurd this (by decide)
        rw [List.filter_cons_of_pos hpb, ih, hnil, List.filter_cons_of_pos hpb]
        simp
    · have ih := mergeBy_filter h p hp l (b :: r) (fun x hx => hPl x (by simp [hx])) hPr hl'.2
      cases hpa : p a <;> simp [List.filter_cons, hpa, ih]
termination_by l r => l.length + r.length

/-- merge sort is stable: for every class `p` of mutually non-smaller elements the
    subsequence of its members is unchanged -/
theorem mergeSortBy_stable {α} {lt : α → α → Bool} {P : α → Prop} (h : WeakOrderOn lt P)
    (p : α → Bool) (hp : ∀ x y, p x = true → p y = true → lt x y = false) :
    ∀ (n : Nat) (xs : List α), xs.length ≤ n → (∀ x ∈ xs, P x) →
      (mergeSortBy lt n xs).filter p = xs.filter p
  | 0, xs => by intros; simp [mergeSortBy]
  | n + 1, xs => by
    intro hn hP
    rw [mergeSortBy]
    split
    · rfl
    · have hPt : ∀ x ∈ xs.take (xs.length / 2), P x := fun x hx => hP x (List.mem_of_mem_take hx)
      have hPd : ∀ x ∈ xs.drop (xs.length / 2), P x := fun x hx => hP x (List.mem_of_mem_drop hx)
      have hlt : (xs.take (xs.length / 2)).length ≤ n := by rw [List.length_take]; omega
      have hld : (xs.drop (xs.length / 2)).length ≤ n := by rw [List.length_drop]; omega
      rw [mergeBy_filter h p hp _ _
        (fun x hx => hPt x ((mem_mergeSortBy lt n _ x).mp hx))
        (fun x hx => hPd x ((mem_mergeSortBy lt n _ x).mp hx))
        (mergeSortBy_sorted h n _ hlt hPt)]
      rw [mergeSortBy_stable h p hp n _ hlt hPt, mergeSortBy_stable h p hp n _ hld hPd]
      rw [← List.filter_append, List.take_append_drop]

/-! ### the reference stable sort (insertion from the right) and uniqueness -/

/-- insert before the first element that is not strictly smaller -/
def orderedInsertBy {α} (lt : α → α → Bool) (x : α) : List α → List α
  | [] => [x]
  | y :: ys => if lt y x then y :: orderedInsertBy lt x ys else x :: y :: ys

/-- the textbook stable sort -/
def stableRef {α} (lt : α → α → Bool) (xs : List α) : List α := xs.foldr (orderedInsertBy lt) []

theorem orderedInsertBy_perm {α} (lt : α → α → Bool) (x : α) :
    ∀ ys : List α, (orderedInsertBy lt x ys).Perm (x :: ys)
  | [] => by simp [orderedInsertBy]
  | y :: ys => by
    rw [orderedInsertBy]
    split
    · exact ((orderedInsertBy_perm lt x ys).cons y).trans (List.Perm.swap x y ys)
    · exact List.Perm.refl _

theorem stableRef_perm {α} (lt : α → α → Bool) : ∀ xs : List α, (stableRef lt xs).Perm xs
  | [] => by simp [stableRef]
  | x :: xs => by
    have ih := stableRef_perm lt xs
    simp only [stableRef, List.foldr_cons] at ih ⊢
    exact (orderedInsertBy_perm lt x _).trans (ih.cons x)

theorem mergeBy_nil_right {α} (lt : α → α → Bool) (l : List α) : mergeBy lt l [] = l := by
  cases l <;> simp [mergeBy]

/-- the reference sort leaves an ordered list alone (no assumption on `lt`) -/
theorem stableRef_of_sorted {α} (lt : α → α → Bool) :
    ∀ xs : List α, SortedBy lt xs → stableRef lt xs = xs
  | [], _ => rfl
  | x :: ys, h => by
    have hp := List.pairwise_cons.mp h
    have ih := stableRef_of_sorted lt ys hp.2
    show orderedInsertBy lt x (stableRef lt ys) = x :: ys
    rw [ih]
    cases ys with
    | nil => rfl
    | cons y ys' =>
      have : lt y x = false := hp.1 y (by simp)
      simp [orderedInsertBy, this]

theorem orderedInsertBy_mergeBy {α} {lt : α → α → Bool} {P : α → Prop} (h : WeakOrderOn lt P)
    (x : α) (hx : P x) :
    ∀ (l r : List α), (∀ y ∈ l, P y) → (∀ y ∈ r, P y) →
      orderedInsertBy lt x (mergeBy lt l r) = mergeBy lt (orderedInsertBy lt x l) r
  | [], [] => by intros; simp [mergeBy, orderedInsertBy]
  | [], b :: r => by
    intro hl hr
    have ih := orderedInsertBy_mergeBy h x hx [] r hl (fun y hy => hr y (by simp [hy]))
    simp only [mergeBy, orderedInsertBy] at ih ⊢
    cases hbx : lt b x <;> simp [ih]
  | a :: l, [] => by intros; simp [mergeBy_nil_right]
  | a :: l, b :: r => by
    intro hl hr
    have hPa : P a := hl a (by simp)
    have hPb : P b := hr b (by simp)
    have ih1 := orderedInsertBy_mergeBy h x hx (a :: l) r hl (fun y hy => hr y (by simp [hy]))
    have ih2 := orderedInsertBy_mergeBy h x hx l (b :: r) (fun y hy => hl y (by simp [hy])) hr
    cases hba : lt b a with
    | true =>
      cases hax : lt a x with
      | true =>
        have hxa : lt x a = false := h.asym a x hPa hx hax
        have hbx : lt b x = true := h.ntrans a b x hPa hPb hx hba hxa
        simp only [orderedInsertBy, hax, if_true] at ih1 ⊢
        simp only [mergeBy, hba, if_true, orderedInsertBy, hbx]
        rw [ih1]
      | false =>
        simp only [orderedInsertBy, hax] at ih1 ⊢
        cases hbx : lt b x with
        | true =>
          simp only [mergeBy, hba, if_true, orderedInsertBy, hbx]
          rw [ih1]; simp [mergeBy, hbx]
        | false =>
          simp [mergeBy, hba, orderedInsertBy, hbx]
    | false =>
      cases hax : lt a x with
      | true =>
        simp [mergeBy, hba, orderedInsertBy, hax, ih2]
      | false =>
        have hbx : lt b x = false := h.le_trans hx hPa hPb hax hba
        simp [mergeBy, hba, orderedInsertBy, hax, hbx]
termination_by l r => l.length + r.length

theorem stableRef_append {α} {lt : α → α → Bool} {P : α → Prop} (h : WeakOrderOn lt P) :
    ∀ (l r : List α), (∀ y ∈ l, P y) → (∀ y ∈ r, P y) →
      stableRef lt (l ++ r) = mergeBy lt (stableRef lt l) (stableRef lt r)
  | [], r => by
    intros
    show stableRef lt r = mergeBy lt [] (stableRef lt r)
    cases stableRef lt r <;> simp [mergeBy]
  | x :: l, r => by
    intro hl hr
    have ih := stableRef_append h l r (fun y hy => hl y (by simp [hy])) hr
    have e1 : stableRef lt (x :: l ++ r) = orderedInsertBy lt x (stableRef lt (l ++ r)) := rfl
    have e2 : stableRef lt (x :: l) = orderedInsertBy lt x (stableRef lt l) := rfl
    rw [e1, e2, ih]
    exact orderedInsertBy_mergeBy h x (hl x (by simp)) _ _
      (fun y hy => hl y (by simp [(stableRef_perm lt l).mem_iff.mp hy]))
      (fun y hy => hr y ((stableRef_perm lt r).mem_iff.mp hy))

/-- with enough fuel the merge sort computes exactly the textbook stable sort -/
theorem mergeSortBy_eq_stableRef {α} {lt : α → α → Bool} {P : α → Prop} (h : WeakOrderOn lt P) :
    ∀ (n : Nat) (xs : List α), xs.length ≤ n → (∀ x ∈ xs, P x) →
      mergeSortBy lt n xs = stableRef lt xs
  | 0, xs => by
    intro hn _
    have : xs = [] := List.length_eq_zero_iff.mp (by omega)
    subst this; rfl
  | n + 1, xs => by
    intro hn hP
    rw [mergeSortBy]
    split
    · rename_i hlen
      match xs, hlen with
      | [], _ => rfl
      | [a], _ => rfl
      | _ :: _ :: _, hlen => simp at hlen; omega
    · have hPt : ∀ x ∈ xs.take (xs.length / 2), P x := fun x hx => hP x (List.mem_of_mem_take hx)
      have hPd : ∀ x ∈ xs.drop (xs.length / 2), P x := fun x hx => hP x (List.mem_of_mem_drop hx)
      show mergeBy lt (mergeSortBy lt n (xs.take (xs.length / 2)))
        (mergeSortBy lt n (xs.drop (xs.length / 2))) = _
      rw [mergeSortBy_eq_stableRef h n _ (by rw [List.length_take]; omega) hPt,
        mergeSortBy_eq_stableRef h n _ (by rw [List.length_drop]; omega) hPd,
        ← stableRef_append h _ _ hPt hPd, List.take_append_drop]

/-! ### `sort`: `sortLt` on pairwise comparable values -/

/-- the elements of `xs` are mutually comparable (in particular no NaN: NaN is not comparable
    with itself) -/
def Comparable (xs : List Value) : Prop := ∀ a ∈ xs, ∀ b ∈ xs, vcmp a b ≠ none

theorem sortLt_weakOrder (xs : List Value) (hc : Comparable xs) :
    WeakOrderOn sortLt (fun v => v ∈ xs) where
  asym := by
    intro a b _ _ hab
    simp only [sortLt, beq_iff_eq] at hab
    simp [sortLt, vcmp_lt_gt hab]
  ntrans := by
    intro a b c ha _ hc' hba hca
    simp only [sortLt, beq_iff_eq] at hba
    simp only [sortLt, beq_eq_false_iff_ne, ne_eq] at hca
    simp only [sortLt, beq_iff_eq]
    cases hcmp : vcmp c a with
    | none => exact absurd hcmp (hc c hc' a ha)
    | some o =>
      cases o with
      | lt => exact absurd hcmp hca
      | eq => rw [vcmp_congr c a hcmp b]; exact hba
      | gt => exact vcmp_lt_trans b a c hba (vcmp_gt_lt hcmp)

theorem sort_sorted (l : List Value) (hc : Comparable l) :
    SortedBy sortLt (mergeSortBy sortLt l.length l) :=
  mergeSortBy_sorted (sortLt_weakOrder l hc) l.length l (Nat.le_refl _) (fun _ h => h)

/-- sortedness in terms of `vcmp`: every earlier element is `<` or `==` every later one -/
theorem sort_sorted_vcmp (l : List Value) (hc : Comparable l) :
    (mergeSortBy sortLt l.length l).Pairwise
      (fun a b => vcmp a b = some .lt ∨ vcmp a b = some .eq) := by
  have hs := sort_sorted l hc
  have hmem := mem_mergeSortBy sortLt l.length l
  generalize mergeSortBy sortLt l.length l = out at hs hmem
  refine List.Pairwise.imp_of_mem ?_ hs
  intro a b ha hb hba
  have ha' := (hmem a).mp ha
  have hb' := (hmem b).mp hb
  simp only [sortLt, beq_eq_false_iff_ne, ne_eq] at hba
  cases hcmp : vcmp a b with
  | none => exact absurd hcmp (hc a ha' b hb')
  | some o =>
    cases o with
    | lt => simp
    | eq => simp
    | gt => exact absurd (vcmp_gt_lt hcmp) hba

theorem sort_stable (l : List Value) (hc : Comparable l) (v : Value) :
    (mergeSortBy sortLt l.length l).filter (fun x => vcmp x v == some .eq) =
      l.filter (fun x => vcmp x v == some .eq) := by
  refine mergeSortBy_stable (sortLt_weakOrder l hc) _ ?_ l.length l (Nat.le_refl _) (fun _ h => h)
  intro x y hx hy
  simp only [beq_iff_eq] at hx hy
  have : vcmp x y = some .eq := by rw [vcmp_congr y v hy x]; exact hx
  simp [sortLt, this]

/-! ### `unique` -/

/-- one step of `uniqueBy` -/
def uniqStep (acc : List Value) (x : Value) : List Value :=
  if acc.any (fun y => veq x y) then acc else acc ++ [x]

theorem uniqueBy_eq (xs : List Value) : uniqueBy xs = xs.foldl uniqStep [] := rfl

theorem uniqFold_sublist : ∀ (xs acc : List Value), (xs.foldl uniqStep acc).Sublist (acc ++ xs)
  | [], acc => by simp
  | x :: xs, acc => by
    simp only [List.foldl_cons]
    refine (uniqFold_sublist xs (uniqStep acc x)).trans ?_
    unfold uniqStep
    split
    · exact List.Sublist.append_left (List.sublist_cons_self x xs) acc
    · simp

theorem uniqFold_prefix : ∀ (xs acc : List Value), ∀ a ∈ acc, a ∈ xs.foldl uniqStep acc
  | [], _ => by simp
  | x :: xs, acc => by
    intro a ha
    simp only [List.foldl_cons]
    refine uniqFold_prefix xs _ a ?_
    unfold uniqStep; split
    · exact ha
    · simp [ha]

/-- every element of the input is kept or is `.==` to a kept one -/
theorem uniqFold_covers : ∀ (xs acc : List Value), ∀ x ∈ xs,
    x ∈ xs.foldl uniqStep acc ∨ ∃ y ∈ xs.foldl uniqStep acc, veq x y = true
  | [], _ => by simp
  | x :: xs, acc => by
    intro z hz
    simp only [List.foldl_cons]
    rcases List.mem_cons.mp hz with rfl | hz
    · by_cases h : acc.any (fun y => veq z y) = true
      · right
        obtain ⟨y, hy, hzy⟩ := List.any_eq_true.mp h
        exact ⟨y, uniqFold_prefix xs _ y (by simp [uniqStep, h, hy]), hzy⟩
      · left
        exact uniqFold_prefix xs _ z (by simp [uniqStep, h])
    · exact uniqFold_covers xs _ z hz

theorem uniqFold_pairwise : ∀ (xs acc : List Value), acc.Pairwise (fun a b => veq b a = false) →
    (xs.foldl uniqStep acc).Pairwise (fun a b => veq b a = false)
  | [], _ => by simp
  | x :: xs, acc => by
    intro h
    simp only [List.foldl_cons]
    refine uniqFold_pairwise xs _ ?_
    unfold uniqStep; split
    · exact h
    · rename_i hany
      rw [List.pairwise_append]
      refine ⟨h, by simp, ?_⟩
      intro a ha b hb
      have : b = x := by simpa using hb
      subst this
      cases hv : veq b a with
      | false => rfl
      | true => exact absurd (List.any_eq_true.mpr ⟨a, ha, hv⟩) hany

/-- a kept element was not `.==` to anything kept from the part of the list before it -/
theorem uniqFold_first : ∀ (xs acc : List Value), ∀ y ∈ xs.foldl uniqStep acc,
    y ∈ acc ∨ ∃ pre post, xs = pre ++ y :: post ∧ (pre.foldl uniqStep acc).any (fun w => veq y w) = false
  | [], _ => by simp
  | x :: xs, acc => by
    intro y hy
    simp only [List.foldl_cons] at hy
    rcases uniqFold_first xs _ y hy with h | ⟨pre, post, hxs, hany⟩
    · unfold uniqStep at h
      split at h
      · exact Or.inl h
      · rename_i hacc
        rcases List.mem_append.mp h with h | h
        · exact Or.inl h
        · have : y = x := by simpa using h
          subst this
          exact Or.inr ⟨[], xs, rfl, by simpa using hacc⟩
    · exact Or.inr ⟨x :: pre, post, by simp [hxs], by simpa using hany⟩

/-! ### `chunk` / `flatten` -/

/-- what `flatten` does to one element -/
def flattenOne : Value → List Value
  | .list inner => inner
  | v => [v]

theorem chunkList_flatten (n : Nat) (hn : 0 < n) : ∀ (fuel : Nat) (l : List Value), l.length < fuel →
    (chunkList n fuel l).flatMap flattenOne = l
  | 0, _ => by intro h; omega
  | fuel + 1, l => by
    intro h
    rw [chunkList]
    split
    · rename_i he
      simp only [List.isEmpty_iff] at he
      simp [he]
    · rename_i he
      have hne : l ≠ [] := by simpa using he
      have hpos : 0 < l.length := List.length_pos_iff.mpr hne
      rw [List.flatMap_cons, chunkList_flatten n hn fuel (l.drop n) (by rw [List.length_drop]; omega)]
      simp [flattenOne]

/-- every chunk is a non-empty list of at most `n` elements -/
theorem chunkList_sizes (n : Nat) (hn : 0 < n) : ∀ (fuel : Nat) (l : List Value),
    ∀ c ∈ chunkList n fuel l, ∃ xs, c = .list xs ∧ 0 < xs.length ∧ xs.length ≤ n
  | 0, _ => by simp [chunkList]
  | fuel + 1, l => by
    intro c hc
    rw [chunkList] at hc
    split at hc
    · simp at hc
    · rename_i he
      have hne : l ≠ [] := by simpa using he
      have hpos : 0 < l.length := List.length_pos_iff.mpr hne
      rcases List.mem_cons.mp hc with rfl | hc
      · exact ⟨l.take n, rfl, by rw [List.length_take]; omega, by rw [List.length_take]; omega⟩
      · exact chunkList_sizes n hn fuel _ c hc

/-- the i-th chunk is elements `i*n … i*n+n-1` -/
theorem chunkList_getElem? (n : Nat) (hn : 0 < n) : ∀ (fuel : Nat) (l : List Value) (i : Nat),
    l.length < fuel → i * n < l.length →
    (chunkList n fuel l)[i]? = some (.list ((l.drop (i * n)).take n))
  | 0, _, _ => by intro h; omega
  | fuel + 1, l, i => by
    intro h hi
    rw [chunkList]
    have hne : l.isEmpty = false := by
      cases l with
      | nil => simp at hi
      | cons _ _ => rfl
    simp only [hne]
    cases i with
    | zero => simp
    | succ i =>
      have hlt : n ≤ l.length := by
        have : n ≤ (i + 1) * n := Nat.le_mul_of_pos_left n (by omega)
        omega
      have hi' : i * n < (l.drop n).length := by
        rw [List.length_drop, Nat.add_mul] at *; omega
      have := chunkList_getElem? n hn fuel (l.drop n) i (by rw [List.length_drop]; omega) hi'
      simp only [Bool.false_eq_true, if_false, List.getElem?_cons_succ, this, List.drop_drop]
      rw [Nat.add_mul, Nat.one_mul, Nat.add_comm]

/-! ### `split` / `join` on character lists -/

/-- `join` on character lists: the parts separated by `d` -/
def joinL (d : List Char) : List (List Char) → List Char
  | [] => []
  | [p] => p
  | p :: q :: ps => p ++ d ++ joinL d (q :: ps)

theorem intercalate_eq_joinL (d : List Char) : ∀ ps : List (List Char), d.intercalate ps = joinL d ps
  | [] => by simp [List.intercalate, joinL]
  | [p] => by simp [List.intercalate, joinL]
  | p :: q :: ps => by
    have ih := intercalate_eq_joinL d (q :: ps)
    simp only [List.intercalate] at ih ⊢
    simp [joinL, ← ih, List.intersperse]

theorem joinL_snoc2 (d : List Char) : ∀ (A : List (List Char)) (x y : List Char),
    joinL d (A ++ [x, y]) = joinL d (A ++ [x ++ d ++ y])
  | [], x, y => by simp [joinL]
  | [a], x, y => by simp [joinL]
  | a :: b :: A, x, y => by
    have ih := joinL_snoc2 d (b :: A) x y
    simp only [List.cons_append, joinL] at ih ⊢
    rw [ih]

theorem isPrefixL_iff : ∀ (p s : List Char), isPrefixL p s = true → s = p ++ s.drop p.length
  | [], _ => by simp
  | _ :: _, [] => by simp [isPrefixL]
  | a :: p, b :: s => by
    intro h
    simp only [isPrefixL, Bool.and_eq_true, beq_iff_eq] at h
    obtain ⟨rfl, h⟩ := h
    have := isPrefixL_iff p s h
    simp only [List.length_cons, List.drop_succ_cons, List.cons_append]
    rw [← this]

theorem splitOnL_go_join (d : List Char) (hd : d ≠ []) : ∀ (fuel : Nat) (s cur : List Char) (acc : List (List Char)),
    s.length < fuel → joinL d (splitOnL.go d fuel s cur acc) = joinL d (acc.reverse ++ [cur.reverse ++ s])
  | 0, _, _, _ => by intro h; omega
  | fuel + 1, [], cur, acc => by intro _; simp [splitOnL.go]
  | fuel + 1, c :: rest, cur, acc => by
    intro h
    rw [splitOnL.go]
    split
    · rename_i hp
      have hs := isPrefixL_iff d (c :: rest) hp
      have hdl : 0 < d.length := List.length_pos_iff.mpr hd
      rw [splitOnL_go_join d hd fuel _ [] (cur.reverse :: acc)
        (by rw [List.length_drop]; simp only [List.length_cons] at h ⊢; omega)]
      simp only [List.reverse_cons, List.reverse_nil, List.nil_append, List.append_assoc]
      have := joinL_snoc2 d acc.reverse cur.reverse ((c :: rest).drop d.length)
      have e : acc.reverse ++ ([cur.reverse] ++ [List.drop d.length (c :: rest)]) =
          acc.reverse ++ [cur.reverse, List.drop d.length (c :: rest)] := by simp
      rw [e, this]
      conv => rhs; rw [hs]
      simp
    · rw [splitOnL_go_join d hd fuel rest (c :: cur) acc (by simp only [List.length_cons] at h; omega)]
      simp

theorem joinL_nil_singletons : ∀ (s : List Char), joinL [] (s.map (fun c => [c]) ++ [[]]) = s
  | [] => by simp [joinL]
  | [c] => by simp [joinL]
  | c :: c' :: s => by
    have := joinL_nil_singletons (c' :: s)
    simp only [List.map_cons, List.cons_append, joinL] at this ⊢
    simp [this]

/-- join(split(s, d), d) = s, for every delimiter (also the empty one) -/
theorem join_splitOnL (d s : List Char) : joinL d (splitOnL d s) = s := by
  unfold splitOnL
  split
  · rename_i h
    have : d = [] := by simpa using h
    subst this
    cases s with
    | nil => simp [joinL]
    | cons c s =>
      have := joinL_nil_singletons (c :: s)
      simp only [List.map_cons, List.cons_append, joinL, List.nil_append] at this ⊢
      exact this
  · rename_i h
    have hd : d ≠ [] := by simpa using h
    rw [splitOnL_go_join d hd _ s [] [] (by omega)]
    simp [joinL]



/-! ### `join(split(s, d), d)` at the level of the built-ins -/

theorem stringifyInternal_str (ops : NumOps) (p : String) : stringifyInternal ops (.str p) = p := by
  simp [stringifyInternal, stringify]

theorem callPure_split (ops : NumOps) (s d : String) :
    callPure ops "split" [.str s, .str d] =
      some (.ok (.list ((splitOnL (chars d) (chars s)).map fun p => .str (strOfChars p)))) := rfl

theorem callPure_join (ops : NumOps) (l : List Value) (d : String) :
    callPure ops "join" [.list l, .str d] =
      some (.ok (.str (d.intercalate (l.map (stringifyInternal ops))))) := rfl

theorem join_split_builtin (ops : NumOps) (s d : String) :
    callPure ops "join" [.list ((splitOnL (chars d) (chars s)).map fun p => .str (strOfChars p)), .str d] =
      some (.ok (.str s)) := by
  rw [callPure_join]
  congr 3
  apply String.ext
  rw [String.toList_intercalate, intercalate_eq_joinL]
  simp only [List.map_map]
  have : (String.toList ∘ stringifyInternal ops ∘ fun p => Value.str (strOfChars p)) = id := by
    funext p; simp [stringifyInternal_str, strOfChars]
  rw [this, List.map_id]
  exact join_splitOnL (chars d) (chars s)

/-! ### `zip` -/

theorem zipRows_length (lists : List (List Value)) (n : Nat) : (zipRows lists n).length = n := by
  simp [zipRows]

theorem zipRows_getElem? (lists : List (List Value)) (n i : Nat) (h : i < n) :
    (zipRows lists n)[i]? = some (.list (lists.map fun l => (l[i]?).getD .null)) := by
  simp [zipRows, List.getElem?_map, List.getElem?_range h, listGetD]

theorem foldl_max_ge (lists : List (List Value)) : ∀ (m : Nat), 
    m ≤ lists.foldl (fun m l => max m l.length) m ∧
    ∀ l ∈ lists, l.length ≤ lists.foldl (fun m l => max m l.length) m := by
  induction lists with
  | nil => intro m; simp
  | cons a rest ih =>
    intro m
    simp only [List.foldl_cons]
    have := ih (max m a.length)
    refine ⟨by omega, ?_⟩
    intro l hl
    rcases List.mem_cons.mp hl with rfl | hl
    · omega
    · exact this.2 l hl

theorem foldl_max_attained (lists : List (List Value)) : ∀ (m : Nat),
    lists.foldl (fun m l => max m l.length) m = m ∨
    ∃ l ∈ lists, lists.foldl (fun m l => max m l.length) m = l.length := by
  induction lists with
  | nil => intro m; simp
  | cons a rest ih =>
    intro m
    simp only [List.foldl_cons]
    rcases ih (max m a.length) with h | ⟨l, hl, h⟩
    · rw [h]
      by_cases hm : a.length ≤ m
      · left; omega
      · right; exact ⟨a, by simp, by omega⟩
    · right; exact ⟨l, by simp [hl], h⟩

/-! ### indexing -/

theorem indexOf_nonneg (len : Nat) (x : F64) (h : 0 ≤ x.toI64) : indexOf len x = some x.toI64.toNat := by
  simp [indexOf]; omega

theorem indexOf_neg_in (len : Nat) (x : F64) (h : x.toI64 < 0) (h2 : 0 ≤ (len : Int) + x.toI64) :
    indexOf len x = some ((len : Int) + x.toI64).toNat := by
  simp [indexOf, h]; omega

theorem indexOf_neg_out (len : Nat) (x : F64) (h2 : (len : Int) + x.toI64 < 0) :
    indexOf len x = none := by
  have : x.toI64 < 0 := by omega
  simp [indexOf, this, h2]

theorem listGetD_lt (l : List Value) (k : Nat) (h : k < l.length) : listGetD l k = l[k] := by
  simp [listGetD, h]

theorem listGetD_ge (l : List Value) (k : Nat) (h : l.length ≤ k) : listGetD l k = .null := by
  simp [listGetD, h]

/-! ### spreading -/

theorem flattenSpreads_two_lists (a b : List Value) :
    flattenSpreads [.spread (.list a), .spread (.list b)] = a ++ b := by
  simp [flattenSpreads, spreadValues]

theorem flattenSpreads_plain (vs : List Value) (h : ∀ v ∈ vs, ∀ w, v ≠ .spread w) :
    flattenSpreads vs = vs := by
  induction vs with
  | nil => rfl
  | cons v vs ih =>
    have hv := h v (by simp)
    have := ih (fun v hv => h v (by simp [hv]))
    simp only [flattenSpreads, List.flatMap_cons] at this ⊢
    rw [this]
    cases v <;> simp at hv ⊢

theorem flattenSpreads_append (xs ys : List Value) :
    flattenSpreads (xs ++ ys) = flattenSpreads xs ++ flattenSpreads ys := by
  simp [flattenSpreads]



/-! ### `sort_by` -/

theorem WeakOrderOn.of_key {α β} {lt : β → β → Bool} {P : β → Prop} (h : WeakOrderOn lt P)
    (lt' : α → α → Bool) (P' : α → Prop) (key : α → β) (hk : ∀ a, P' a → P (key a))
    (hlt : ∀ a b, P' a → P' b → lt' a b = lt (key a) (key b)) : WeakOrderOn lt' P' where
  asym := by
    intro a b ha hb hab
    rw [hlt a b ha hb] at hab
    rw [hlt b a hb ha]
    exact h.asym _ _ (hk a ha) (hk b hb) hab
  ntrans := by
    intro a b c ha hb hc hba hca
    rw [hlt b a hb ha] at hba
    rw [hlt c a hc ha] at hca
    rw [hlt b c hb hc]
    exact h.ntrans _ _ _ (hk a ha) (hk b hb) (hk c hc) hba hca

/-- the key of a keyed element (`null` when the callback failed) -/
def keyOf (kv : Value × Outcome Value) : Value :=
  match kv.2 with
  | .ok k => k
  | _ => .null

/-- every key was computed successfully -/
def KeysOk (keyed : List (Value × Outcome Value)) : Prop := ∀ kv ∈ keyed, ∃ k, kv.2 = .ok k

theorem sortByLt_eq (a b : Value × Outcome Value) (ha : ∃ k, a.2 = .ok k) (hb : ∃ k, b.2 = .ok k) :
    sortByLt a b = sortLt (keyOf a) (keyOf b) := by
  obtain ⟨ka, hka⟩ := ha
  obtain ⟨kb, hkb⟩ := hb
  simp [sortByLt, sortLt, keyOf, hka, hkb]

theorem sortByLt_weakOrder (keyed : List (Value × Outcome Value)) (hok : KeysOk keyed)
    (hc : Comparable (keyed.map keyOf)) : WeakOrderOn sortByLt (fun kv => kv ∈ keyed) :=
  (sortLt_weakOrder _ hc).of_key sortByLt _ keyOf
    (fun a ha => List.mem_map.mpr ⟨a, ha, rfl⟩)
    (fun a b ha hb => sortByLt_eq a b (hok a ha) (hok b hb))

theorem keyCalls_fst (ops : NumOps) : ∀ (fuel : Nat) (f : Value) (l : List Value) (d : Nat) (s : ES),
    (keyCalls ops fuel f l d s).1.map (·.1) = l
  | 0, _, l, _, _ => by
    simp only [keyCalls, List.map_map]
    induction l <;> simp_all
  | _ + 1, _, [], _, _ => by simp [keyCalls]
  | fuel + 1, f, x :: xs, d, s => by
    simp only [keyCalls, List.map_cons]
    rw [keyCalls_fst ops fuel f xs d]

/-! ### `group_by` / `count_by` -/

def isStrKey (k : String) : Value → Bool
  | .str k' => k' == k
  | _ => false

/-- the elements whose key is the string `k`, in list order -/
def groupOf (k : String) (xs ks : List Value) : List Value :=
  ((xs.zip ks).filter (fun p => isStrKey k p.2)).map (·.1)

theorem lookupAL_filter_ne {α} (k k0 : String) (h : k ≠ k0) : ∀ (r : List (String × α)),
    lookupAL k (r.filter (fun kv => kv.1 != k0)) = lookupAL k r
  | [] => rfl
  | (k', v) :: r => by
    by_cases h1 : k' = k0
    · subst h1
      have : ¬ k' = k := fun e => h e.symm
      simp [lookupAL, this, lookupAL_filter_ne k k' h r]
    · simp [h1, lookupAL, lookupAL_filter_ne k k0 h r]

theorem lookupAL_none_iff {α} (k : String) (r : List (String × α)) :
    lookupAL k r = none ↔ k ∉ r.map Prod.fst := by
  rw [← lookupAL_isSome_iff]
  cases lookupAL k r <;> simp

theorem groupByKeys_lookup : ∀ (xs ks : List Value) (r : Frame), groupByKeys xs ks = some r →
    ∀ k, lookupAL k r = (if groupOf k xs ks = [] then none else some (.list (groupOf k xs ks)))
  | [], [], r => by
    intro h k
    simp [groupByKeys] at h; subst h
    simp [lookupAL, groupOf]
  | [], _ :: _, r => by intro h; simp [groupByKeys] at h
  | x :: xs, [], r => by intro h; simp [groupByKeys] at h
  | x :: xs, kv :: ks, r => by
    intro h k
    cases kv with
    | str k0 =>
      simp only [groupByKeys, Option.map_eq_some_iff] at h
      obtain ⟨rest, hrest, hr⟩ := h
      have ih := groupByKeys_lookup xs ks rest hrest
      have ih0 := ih k0
      by_cases hk : k0 = k
      · subst hk
        have hg : groupOf k0 (x :: xs) (Value.str k0 :: ks) = x :: groupOf k0 xs ks := by
          simp [groupOf, isStrKey]
        rw [hg]
        by_cases hnil : groupOf k0 xs ks = []
        · rw [hnil] at ih0 ⊢
          simp only [if_true] at ih0
          rw [ih0] at hr
          subst hr
          simp [lookupAL]
        · simp only [hnil, if_false] at ih0
          rw [ih0] at hr
          subst hr
          simp [lookupAL]
      · have hg : groupOf k (x :: xs) (Value.str k0 :: ks) = groupOf k xs ks := by
          simp [groupOf, isStrKey, hk]
        rw [hg, ← ih k]
        have hk' : k ≠ k0 := fun e => hk e.symm
        by_cases hnil : groupOf k0 xs ks = []
        · simp only [hnil, if_true] at ih0
          rw [ih0] at hr
          subst hr
          simp [lookupAL, hk]
        · simp only [hnil, if_false] at ih0
          rw [ih0] at hr
          subst hr
          simp [lookupAL, hk, lookupAL_filter_ne k k0 hk']
    | _ => simp [groupByKeys] at h

theorem groupByKeys_nodup : ∀ (xs ks : List Value) (r : Frame), groupByKeys xs ks = some r →
    (r.map Prod.fst).Nodup
  | [], [], r => by intro h; simp [groupByKeys] at h; subst h; simp
  | [], _ :: _, r => by intro h; simp [groupByKeys] at h
  | x :: xs, [], r => by intro h; simp [groupByKeys] at h
  | x :: xs, kv :: ks, r => by
    intro h
    cases kv with
    | str k0 =>
      simp only [groupByKeys, Option.map_eq_some_iff] at h
      obtain ⟨rest, hrest, hr⟩ := h
      have ih := groupByKeys_nodup xs ks rest hrest
      have hl := groupByKeys_lookup xs ks rest hrest k0
      have hfilt : ((rest.filter (fun kv => kv.1 != k0)).map Prod.fst).Nodup ∧
          k0 ∉ (rest.filter (fun kv => kv.1 != k0)).map Prod.fst := by
        refine ⟨(List.Sublist.map _ List.filter_sublist).nodup ih, ?_⟩
        simp
      by_cases hnil : groupOf k0 xs ks = []
      · simp only [hnil, if_true] at hl
        rw [hl] at hr; subst hr
        simp only [List.map_cons, List.nodup_cons]
        exact ⟨(lookupAL_none_iff k0 rest).mp hl, ih⟩
      · simp only [hnil, if_false] at hl
        rw [hl] at hr; subst hr
        simp only [List.map_cons, List.nodup_cons]
        exact ⟨hfilt.2, hfilt.1⟩
    | _ => simp [groupByKeys] at h

/-- `groupByKeys` succeeds exactly when there is one string key per element -/
theorem groupByKeys_isSome : ∀ (xs ks : List Value),
    (groupByKeys xs ks).isSome = true ↔ (xs.length = ks.length ∧ ∀ v ∈ ks, ∃ k, v = .str k)
  | [], [] => by simp [groupByKeys]
  | [], _ :: _ => by simp [groupByKeys]
  | x :: xs, [] => by simp [groupByKeys]
  | x :: xs, kv :: ks => by
    cases kv with
    | str k0 =>
      have ih := groupByKeys_isSome xs ks
      simp only [groupByKeys, Option.isSome_map, ih]
      simp
    | _ => simp [groupByKeys]

/-- the value of a count: `1 + 1 + … + 1` (n ones, added with `ops.add` from the left) -/
def countF (ops : NumOps) : Nat → F64
  | 0 => F64.zero
  | 1 => F64.one
  | n + 1 => ops.add (countF ops n) F64.one

def countOf (k : String) (ks : List Value) : Nat := (ks.filter (isStrKey k)).length

theorem countByKeys_lookup (ops : NumOps) : ∀ (ks : List Value) (r : Frame), countByKeys ops ks = some r →
    ∀ k, lookupAL k r = (if countOf k ks = 0 then none else some (.num (countF ops (countOf k ks))))
  | [], r => by
    intro h k
    simp [countByKeys] at h; subst h
    simp [lookupAL, countOf]
  | kv :: ks, r => by
    intro h k
    cases kv with
    | str k0 =>
      simp only [countByKeys, Option.map_eq_some_iff] at h
      obtain ⟨rest, hrest, hr⟩ := h
      have ih := countByKeys_lookup ops ks rest hrest
      have ih0 := ih k0
      by_cases hk : k0 = k
      · subst hk
        have hg : countOf k0 (Value.str k0 :: ks) = countOf k0 ks + 1 := by
          simp [countOf, isStrKey]
        rw [hg]
        by_cases hnil : countOf k0 ks = 0
        · rw [hnil] at ih0 ⊢
          simp only [if_true] at ih0
          rw [ih0] at hr
          subst hr
          simp [lookupAL, countF]
        · simp only [hnil, if_false] at ih0
          rw [ih0] at hr
          subst hr
          obtain ⟨m, hm⟩ : ∃ m, countOf k0 ks = m + 1 := ⟨countOf k0 ks - 1, by omega⟩
          simp [lookupAL, hm, countF]
      · have hg : countOf k (Value.str k0 :: ks) = countOf k ks := by
          simp [countOf, isStrKey, hk]
        rw [hg, ← ih k]
        have hk' : k ≠ k0 := fun e => hk e.symm
        by_cases hnil : countOf k0 ks = 0
        · simp only [hnil, if_true] at ih0
          rw [ih0] at hr
          subst hr
          simp [lookupAL, hk]
        · simp only [hnil, if_false] at ih0
          rw [ih0] at hr
          subst hr
          simp [lookupAL, hk, lookupAL_filter_ne k k0 hk']
    | _ => simp [countByKeys] at h


/-! ### shapes of `range` and `sort_by` -/

/-- the body of `range` after its bounds have been read -/
def rangeOf (start stop : F64) : Outcome Value :=
  if F64.flt stop start then .err .domain
  else if !start.isFinite || !stop.isFinite then .err .domain
  else
    let s := start.toI64
    let e := stop.toI64
    let diff := e - s
    let len : Int := if diff > 2 ^ 63 - 1 || diff < -(2 ^ 63) then 2 ^ 63 - 1 else diff
    if len > u32Max then .err .domain
    else .ok (.list ((List.range (e - s).toNat).map fun i => .num (F64.ofInt (s + Int.ofNat i))))

theorem callPure_range2 (ops : NumOps) (a b : F64) :
    callPure ops "range" [.num a, .num b] = some (rangeOf a b) := rfl

theorem callPure_range1 (ops : NumOps) (a : F64) :
    callPure ops "range" [.num a] = some (rangeOf F64.zero a) := rfl

theorem rangeOf_exact (a b : F64) :
    rangeOf a b =
      if F64.flt b a then .err .domain
      else if !a.isFinite || !b.isFinite then .err .domain
      else if b.toI64 - a.toI64 > u32Max ∨ b.toI64 - a.toI64 < -(2 ^ 63) then .err .domain
      else .ok (.list ((List.range (b.toI64 - a.toI64).toNat).map fun i =>
        .num (F64.ofInt (a.toI64 + Int.ofNat i)))) := by
  unfold rangeOf
  by_cases h1 : F64.flt b a = true
  · simp [h1]
  · by_cases h2 : (!a.isFinite || !b.isFinite) = true
    · simp only [h1, h2, if_true]
    · simp only [h1, h2]
      by_cases h3 : b.toI64 - a.toI64 > u32Max ∨ b.toI64 - a.toI64 < -(2 ^ 63)
      · simp only [h3, if_true]
        have : (if (decide (b.toI64 - a.toI64 > 2 ^ 63 - 1) || decide (b.toI64 - a.toI64 < -(2 ^ 63))) = true
            then (2 ^ 63 - 1 : Int) else b.toI64 - a.toI64) > u32Max := by
          simp only [u32Max] at h3 ⊢
          split
          · omega
          · rename_i hc
            simp only [Bool.or_eq_true, decide_eq_true_eq] at hc
            omega
        simp only [this, if_true]
      · simp only [h3, if_false]
        have : ¬ (if (decide (b.toI64 - a.toI64 > 2 ^ 63 - 1) || decide (b.toI64 - a.toI64 < -(2 ^ 63))) = true
            then (2 ^ 63 - 1 : Int) else b.toI64 - a.toI64) > u32Max := by
          simp only [u32Max] at h3 ⊢
          split
          · rename_i hc
            simp only [Bool.or_eq_true, decide_eq_true_eq] at hc
            omega
          · omega
        simp only [this, if_false]

/-- did some key call run out of model fuel -/
def anyKeyFuel (keyed : List (Value × Outcome Value)) : Bool :=
  keyed.any (fun kr => match kr.2 with | .fuel => true | _ => false)

theorem callHof_sort_by (ops : NumOps) (fuel : Nat) (l : List Value) (f : Value) (depth : Nat) (s : ES) :
    callHof ops (fuel + 1) "sort_by" [.list l, f] depth s =
      if !f.isCallable then (.ok (.list l), s)
      else if anyKeyFuel (keyCalls ops fuel f l (depth + 1) s).1 then
        (.fuel, (keyCalls ops fuel f l (depth + 1) s).2)
      else
        (.ok (.list ((mergeSortBy sortByLt (keyCalls ops fuel f l (depth + 1) s).1.length
            (keyCalls ops fuel f l (depth + 1) s).1).map (·.1))),
          (keyCalls ops fuel f l (depth + 1) s).2) := by
  rw [callHof]
  simp only [List.getElem?_cons_zero, List.getElem?_cons_succ]
  cases f.isCallable <;> rfl

theorem anyKeyFuel_of_keysOk (keyed : List (Value × Outcome Value)) (h : KeysOk keyed) :
    anyKeyFuel keyed = false := by
  unfold anyKeyFuel
  rw [List.any_eq_false]
  intro kr hkr
  obtain ⟨k, hk⟩ := h kr hkr
  simp [hk]


/-! ### definitions and shapes used by `Props/C14.lean` -/

/-- what `concat` contributes for one argument -/
def concatPiece : Value → List Value
  | .list l => l
  | .spread (.list l) => l
  | .spread (.str s) => (chars s).map fun c => .str (String.singleton c)
  | v => [v]

theorem mapM_lists (f : Value → Outcome (List Value)) (hf : ∀ l, f (.list l) = .ok l)
    (ls : List (List Value)) : Outcome.mapM' f (ls.map Value.list) = .ok ls := by
  induction ls with
  | nil => rfl
  | cons a r ih => simp [Outcome.mapM', ih, hf]

theorem group_by_shape (ops : NumOps) (fuel : Nat) (l : List Value) (f : Value)
    (depth : Nat) (s : ES) :
    callHof ops (fuel + 1) "group_by" [.list l, f] depth s =
      (match arityOf f with
       | none => (.err .type_, s)
       | some _ =>
         (match mapCalls ops fuel f false l 0 (depth + 1) s with
          | (.ok ks, s1) =>
            (match groupByKeys l ks with
             | some r => (.ok (.record r), s1)
             | none => (.err .type_, s1))
          | (.err k, s1) => (.err k, s1)
          | (.panic p, s1) => (.panic p, s1)
          | (.fuel, s1) => (.fuel, s1))) := by
  rw [callHof]; rfl

theorem count_by_shape (ops : NumOps) (fuel : Nat) (l : List Value) (f : Value)
    (depth : Nat) (s : ES) :
    callHof ops (fuel + 1) "count_by" [.list l, f] depth s =
      (match arityOf f with
       | none => (.err .type_, s)
       | some _ =>
         (match mapCalls ops fuel f false l 0 (depth + 1) s with
          | (.ok ks, s1) =>
            (match countByKeys ops ks with
             | some r => (.ok (.record r), s1)
             | none => (.err .type_, s1))
          | (.err k, s1) => (.err k, s1)
          | (.panic p, s1) => (.panic p, s1)
          | (.fuel, s1) => (.fuel, s1))) := by
  rw [callHof]; rfl

/-- what `l[x]` yields -/
def indexValue (l : List Value) (x : F64) : Value :=
  match indexOf l.length x with
  | some k => listGetD l k
  | none => .null

theorem spread_strOfChars (cs : List Char) :
    spreadValues (.str (strOfChars cs)) = cs.map fun c => .str (String.singleton c) := by
  simp [spreadValues, chars, strOfChars]


end Blots
