import Blots.Lemmas.FormatSquash
/-
  Definitions for "the layouts change only layout" (`Lemmas/FormatSquashLayouts.lean`,
  `Props/C07.lean`), and their elementary relations:

  * `textOnly`       : the pieces of a layout that are not comments;
  * `eraseComments`  : the tree without any leading / trailing comment;
  * `flat`           : the single-line print of the tree, comments ignored, with the parameter
                       list of a lambda printed as `formatter.rs` prints it (`x => …` for one
                       required parameter, `(…) => …` otherwise);
  * `noBare`         : no lambda of the tree has exactly one required parameter — then
                       `flat e = exprToSource (eraseComments e)` (`src_erase`);
  * `lamOk`          : no such lambda below a node that `format_single_line` hands to
                       `expr_to_source` (conditional, binary / unary / postfix operation, index,
                       field, spread) — then `fmtSingle e = flat e` for a comment-free tree
                       whose single-line text is one line (`single_flat`);
  * `namesOk`        : no identifier-like string of the tree (name, `#input`, built-in, field,
                       assignment target, parameter, shorthand key) contains a quote character.
-/
namespace Blots

def Piece.isText : Piece → Bool
  | .text _ => true
  | .comment _ => false

/-- the pieces that are not comments -/
def textOnly (ps : List Piece) : List Piece := ps.filter Piece.isText

mutual
/-- the tree with every leading and trailing comment removed -/
def eraseComments : Expr → Expr
  | .list items => .list (eraseItems items)
  | .record es => .record (eraseEntries es)
  | .lambda a b => .lambda a (eraseComments b)
  | .cond c t e => .cond (eraseComments c) (eraseComments t) (eraseComments e)
  | .doBlock ss r => .doBlock (eraseItems ss) (eraseItem r)
  | .assign n v => .assign n (eraseComments v)
  | .output e => .output (eraseComments e)
  | .call f as => .call (eraseComments f) (eraseExprs as)
  | .access e i => .access (eraseComments e) (eraseComments i)
  | .dot e f => .dot (eraseComments e) f
  | .bin op l r => .bin op (eraseComments l) (eraseComments r)
  | .un op e => .un op (eraseComments e)
  | .fact e => .fact (eraseComments e)
  | .spread e => .spread (eraseComments e)
  | .num x => .num x
  | .str s => .str s
  | .bool b => .bool b
  | .null => .null
  | .ident n => .ident n
  | .inref f => .inref f
  | .builtin n => .builtin n
def eraseExprs : List Expr → List Expr
  | [] => []
  | e :: es => eraseComments e :: eraseExprs es
def eraseItem : Item → Item
  | .mk _ e _ => .mk [] (eraseComments e) none
def eraseItems : List Item → List Item
  | [] => []
  | i :: is => eraseItem i :: eraseItems is
/-- the `value` of a shorthand or spread entry is not part of the printed tree (the parser puts
    a dummy `Null` there): it is left alone -/
def eraseEntry : Entry → Entry
  | .mk _ (.static k) v _ => .mk [] (.static k) (eraseComments v) none
  | .mk _ (.dyn ke) v _ => .mk [] (.dyn (eraseComments ke)) (eraseComments v) none
  | .mk _ (.short n) v _ => .mk [] (.short n) v none
  | .mk _ (.spread e) v _ => .mk [] (.spread (eraseComments e)) v none
def eraseEntries : List Entry → List Entry
  | [] => []
  | e :: es => eraseEntry e :: eraseEntries es
end

mutual
/-- the single-line print, comments ignored, parameter lists as `formatter.rs` prints them -/
def flat : Expr → String
  | .ident n => n
  | .inref f => "#" ++ f
  | .num x => numberToSource x
  | .str s => stringToSource s
  | .bool b => if b then "true" else "false"
  | .null => "null"
  | .builtin n => n
  | .list items => "[" ++ ", ".intercalate (flatItems items) ++ "]"
  | .record es => "{" ++ ", ".intercalate (flatEntries es) ++ "}"
  | .lambda args body =>
    lambdaArgsPart args ++ " => " ++ parenIf (lambdaBodyNeedsParens body) (flat body)
  | .cond c t e => "if " ++ flat c ++ " then " ++ flat t ++ " else " ++ flat e
  | .doBlock stmts ret => "do {" ++ flatStmts stmts ++ flatRet ret
  | .assign n v => n ++ " = " ++ flat v
  | .output e => "output " ++ flat e
  | .call f args =>
    parenIf (needsParens f .postfix_) (flat f) ++ "(" ++ ", ".intercalate (flatExprs args) ++ ")"
  | .access e i => parenIf (needsParens e .postfix_) (flat e) ++ "[" ++ flat i ++ "]"
  | .dot e f => parenIf (needsParens e .postfix_) (flat e) ++ "." ++ f
  | .bin op l r =>
    parenIf (needsParens l (.binLeft op)) (flat l) ++ " " ++ opSpelling op ++ " " ++
      parenIf (needsParens r (.binRight op)) (flat r)
  | .un op e => unaryOpToSource op ++ parenIf (needsParens e .prefix_) (flat e)
  | .fact e => parenIf (needsParens e .postfix_) (flat e) ++ "!"
  | .spread e => "..." ++ flat e
def flatExprs : List Expr → List String
  | [] => []
  | e :: es => flat e :: flatExprs es
def flatItem : Item → String
  | .mk _ e _ => flat e
def flatItems : List Item → List String
  | [] => []
  | i :: is => flatItem i :: flatItems is
def flatEntry : Entry → String
  | .mk _ k v _ => flatKeyed k (flat v)
def flatEntries : List Entry → List String
  | [] => []
  | e :: es => flatEntry e :: flatEntries es
def flatKeyed : Key → String → String
  | .static k, vs => formatRecordKey k ++ ": " ++ vs
  | .dyn ke, vs => "[" ++ flat ke ++ "]: " ++ vs
  | .short n, _ => n
  | .spread e, _ => flat e
/-- a do-block statement, as `expr_to_source` prints it without its comments -/
def flatStmt : Item → String
  | .mk _ e _ => "\n  " ++ protectStatementStart (flat e)
def flatStmts : List Item → String
  | [] => ""
  | i :: rest => flatStmt i ++ flatStmts rest
def flatRet : Item → String
  | .mk _ e _ => "\n  return " ++ flat e ++ "\n}"
end

/-- exactly one required parameter: the list `format_lambda` prints without parentheses -/
def bareArgs : List LArg → Bool
  | [.req _] => true
  | _ => false

mutual
/-- no lambda with exactly one required parameter anywhere in the printed tree -/
def noBare : Expr → Bool
  | .list items => itemsNoBare items
  | .record es => entriesNoBare es
  | .lambda args b => !bareArgs args && noBare b
  | .cond c t e => noBare c && (noBare t && noBare e)
  | .doBlock ss r => itemsNoBare ss && itemNoBare r
  | .assign _ v => noBare v
  | .output e => noBare e
  | .call f as => noBare f && exprsNoBare as
  | .access e i => noBare e && noBare i
  | .dot e _ => noBare e
  | .bin _ l r => noBare l && noBare r
  | .un _ e => noBare e
  | .fact e => noBare e
  | .spread e => noBare e
  | _ => true
def exprsNoBare : List Expr → Bool
  | [] => true
  | e :: es => noBare e && exprsNoBare es
def itemNoBare : Item → Bool
  | .mk _ e _ => noBare e
def itemsNoBare : List Item → Bool
  | [] => true
  | i :: is => itemNoBare i && itemsNoBare is
def entryNoBare : Entry → Bool
  | .mk _ k v _ => keyNoBare k (noBare v)
def entriesNoBare : List Entry → Bool
  | [] => true
  | e :: es => entryNoBare e && entriesNoBare es
def keyNoBare : Key → Bool → Bool
  | .static _, vb => vb
  | .dyn k, vb => noBare k && vb
  | .short _, _ => true
  | .spread e, _ => noBare e
end

mutual
/-- no lambda with exactly one required parameter below a node whose single-line text is
    `expr_to_source` (the last arm of `format_single_line`): there `expr_to_source` prints
    `(x) => …` where every layout of `formatter.rs` prints `x => …` -/
def lamOk : Expr → Bool
  | .list items => itemsLamOk items
  | .record es => entriesLamOk es
  | .lambda _ b => lamOk b
  | .cond c t e => noBare c && (noBare t && noBare e)
  | .doBlock ss r => itemsLamOk ss && itemLamOk r
  | .assign _ v => lamOk v
  | .output e => lamOk e
  | .call f as => lamOk f && exprsLamOk as
  | .access e i => noBare e && noBare i
  | .dot e _ => noBare e
  | .bin _ l r => noBare l && noBare r
  | .un _ e => noBare e
  | .fact e => noBare e
  | .spread e => noBare e
  | _ => true
def exprsLamOk : List Expr → Bool
  | [] => true
  | e :: es => lamOk e && exprsLamOk es
def itemLamOk : Item → Bool
  | .mk _ e _ => lamOk e
def itemsLamOk : List Item → Bool
  | [] => true
  | i :: is => itemLamOk i && itemsLamOk is
def entryLamOk : Entry → Bool
  | .mk _ k v _ => keyLamOk k (lamOk v)
def entriesLamOk : List Entry → Bool
  | [] => true
  | e :: es => entryLamOk e && entriesLamOk es
def keyLamOk : Key → Bool → Bool
  | .static _, vb => vb
  | .dyn k, vb => lamOk k && vb
  | .short _, _ => true
  | .spread e, _ => lamOk e
end

/-- a name at the start of a statement that `protect_statement_start` treats alike on every
    layout: it is not spelled `via` / `into` / `where`, and does not itself start with one of
    them followed by a blank (no name the parser builds does) -/
def headNameOk (n : String) : Bool :=
  !(n == "via" || n == "into" || n == "where") && !wordOperatorStart n.toList

/-- THE LEFTMOST NAME OF THE PRINTED TEXT IS NOT `via` / `into` / `where`.  For a statement of a
    do-block that starts with such a name `protect_statement_start` decides by the character
    behind it: `via + b` is parenthesised on one line, and is not when the layout breaks the
    line behind `via` (`via` ⏎ `+ b` cannot continue the line before it) — there the formatter
    and the single-line printer differ by a pair of parentheses, not only in layout. -/
def headSafe : Expr → Bool
  | .ident n => headNameOk n
  | .builtin n => headNameOk n
  | .assign n _ => headNameOk n
  | .bin op l _ => needsParens l (.binLeft op) || headSafe l
  | .fact e => needsParens e .postfix_ || headSafe e
  | .call e _ => needsParens e .postfix_ || headSafe e
  | .access e _ => needsParens e .postfix_ || headSafe e
  | .dot e _ => needsParens e .postfix_ || headSafe e
  | .lambda args _ => (match args with | [.req n] => headNameOk n | _ => true)
  | .num x => (match (numberToSource x).toList with | c :: _ => c != 'v' && c != 'i' && c != 'w' | [] => true)
  | _ => true

open Blots.Squash in
mutual
/-- no identifier-like string of the tree contains a quote character (every tree the parser
    builds: identifiers, field names and parameters are `[A-Za-z_][A-Za-z0-9_]*`), and no
    statement of a do-block starts with a name spelled `via` / `into` / `where` (`headSafe`) -/
def namesOk : Expr → Bool
  | .ident n => nameOk n
  | .inref f => nameOk f
  | .builtin n => nameOk n
  | .list items => itemsNamesOk items
  | .record es => entriesNamesOk es
  | .lambda args b => (args.all fun a => nameOk a.name) && namesOk b
  | .cond c t e => namesOk c && (namesOk t && namesOk e)
  | .doBlock ss r => stmtsNamesOk ss && itemNamesOk r
  | .assign n v => nameOk n && namesOk v
  | .output e => namesOk e
  | .call f as => namesOk f && exprsNamesOk as
  | .access e i => namesOk e && namesOk i
  | .dot e f => namesOk e && nameOk f
  | .bin _ l r => namesOk l && namesOk r
  | .un _ e => namesOk e
  | .fact e => namesOk e
  | .spread e => namesOk e
  | .num _ => true
  | .str _ => true
  | .bool _ => true
  | .null => true
def exprsNamesOk : List Expr → Bool
  | [] => true
  | e :: es => namesOk e && exprsNamesOk es
def itemNamesOk : Item → Bool
  | .mk _ e _ => namesOk e
def itemsNamesOk : List Item → Bool
  | [] => true
  | i :: is => itemNamesOk i && itemsNamesOk is
def stmtsNamesOk : List Item → Bool
  | [] => true
  | (.mk _ e _) :: is => (namesOk e && headSafe e) && stmtsNamesOk is
def entryNamesOk : Entry → Bool
  | .mk _ k v _ => keyNamesOk k (namesOk v)
def entriesNamesOk : List Entry → Bool
  | [] => true
  | e :: es => entryNamesOk e && entriesNamesOk es
def keyNamesOk : Key → Bool → Bool
  | .static _, vb => vb
  | .dyn k, vb => namesOk k && vb
  | .short n, _ => nameOk n
  | .spread e, _ => namesOk e
end

namespace Squash
open FormatL

/-! ### `eraseComments` is the identity on a tree without comments -/

mutual
theorem erase_id : ∀ e : Expr, anyComment e = false → eraseComments e = e
  | .list items, h => by
    simp only [anyComment] at h; simp only [eraseComments, erase_id_items items h]
  | .record es, h => by
    simp only [anyComment] at h; simp only [eraseComments, erase_id_entries es h]
  | .lambda _ b, h => by
    simp only [anyComment] at h; simp only [eraseComments, erase_id b h]
  | .cond c t e, h => by
    simp only [anyComment, Bool.or_eq_false_iff] at h
    simp only [eraseComments, erase_id c h.1.1, erase_id t h.1.2, erase_id e h.2]
  | .doBlock ss r, h => by
    simp only [anyComment, Bool.or_eq_false_iff] at h
    simp only [eraseComments, erase_id_items ss h.1, erase_id_item r h.2]
  | .assign _ v, h => by
    simp only [anyComment] at h; simp only [eraseComments, erase_id v h]
  | .output e, h => by
    simp only [anyComment] at h; simp only [eraseComments, erase_id e h]
  | .call f as, h => by
    simp only [anyComment, Bool.or_eq_false_iff] at h
    simp only [eraseComments, erase_id f h.1, erase_id_exprs as h.2]
  | .access e i, h => by
    simp only [anyComment, Bool.or_eq_false_iff] at h
    simp only [eraseComments, erase_id e h.1, erase_id i h.2]
  | .dot e _, h => by
    simp only [anyComment] at h; simp only [eraseComments, erase_id e h]
  | .bin _ l r, h => by
    simp only [anyComment, Bool.or_eq_false_iff] at h
    simp only [eraseComments, erase_id l h.1, erase_id r h.2]
  | .un _ e, h => by
    simp only [anyComment] at h; simp only [eraseComments, erase_id e h]
  | .fact e, h => by
    simp only [anyComment] at h; simp only [eraseComments, erase_id e h]
  | .spread e, h => by
    simp only [anyComment] at h; simp only [eraseComments, erase_id e h]
  | .num _, _ | .str _, _ | .bool _, _ | .null, _ | .ident _, _ | .inref _, _
  | .builtin _, _ => by simp only [eraseComments]
theorem erase_id_exprs : ∀ es : List Expr, exprsAnyComment es = false → eraseExprs es = es
  | [], _ => rfl
  | e :: es, h => by
    simp only [exprsAnyComment, Bool.or_eq_false_iff] at h
    simp only [eraseExprs, erase_id e h.1, erase_id_exprs es h.2]
theorem erase_id_item : ∀ i : Item, itemAnyComment i = false → eraseItem i = i
  | .mk l e t, h => by
    simp only [itemAnyComment, Bool.or_eq_false_iff, Bool.not_eq_false', List.isEmpty_iff,
      Option.isSome_eq_false_iff, Option.isNone_iff_eq_none] at h
    simp only [eraseItem, erase_id e h.2, h.1.1, h.1.2]
theorem erase_id_items : ∀ is : List Item, itemsAnyComment is = false → eraseItems is = is
  | [], _ => rfl
  | i :: is, h => by
    simp only [itemsAnyComment, Bool.or_eq_false_iff] at h
    simp only [eraseItems, erase_id_item i h.1, erase_id_items is h.2]
theorem erase_id_entry : ∀ en : Entry, entryAnyComment en = false → eraseEntry en = en
  | .mk l (.static k) v t, h => by
    simp only [entryAnyComment, keyAnyComment, Bool.or_eq_false_iff, Bool.not_eq_false',
      List.isEmpty_iff, Option.isSome_eq_false_iff, Option.isNone_iff_eq_none] at h
    simp only [eraseEntry, erase_id v h.2, h.1.1, h.1.2]
  | .mk l (.dyn ke) v t, h => by
    simp only [entryAnyComment, keyAnyComment, Bool.or_eq_false_iff, Bool.not_eq_false',
      List.isEmpty_iff, Option.isSome_eq_false_iff, Option.isNone_iff_eq_none] at h
    simp only [eraseEntry, erase_id ke h.2.1, erase_id v h.2.2, h.1.1, h.1.2]
  | .mk l (.short n) v t, h => by
    simp only [entryAnyComment, keyAnyComment, Bool.or_eq_false_iff, Bool.not_eq_false',
      List.isEmpty_iff, Option.isSome_eq_false_iff, Option.isNone_iff_eq_none] at h
    simp only [eraseEntry, h.1.1, h.1.2]
  | .mk l (.spread e) v t, h => by
    simp only [entryAnyComment, keyAnyComment, Bool.or_eq_false_iff, Bool.not_eq_false',
      List.isEmpty_iff, Option.isSome_eq_false_iff, Option.isNone_iff_eq_none] at h
    simp only [eraseEntry, erase_id e h.2, h.1.1, h.1.2]
theorem erase_id_entries : ∀ es : List Entry, entriesAnyComment es = false → eraseEntries es = es
  | [], _ => rfl
  | e :: es, h => by
    simp only [entriesAnyComment, Bool.or_eq_false_iff] at h
    simp only [eraseEntries, erase_id_entry e h.1, erase_id_entries es h.2]
end

end Squash
end Blots
