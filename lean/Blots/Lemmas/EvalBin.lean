import Blots.Model.Eval
import Blots.Lemmas.ValueEq
/-
  Helpers for C11 (scalar operators, broadcasting) and C13 (via / where / into versus
  map / filter / application): one-step unfoldings of the mutually recursive evaluator on a
  successor fuel, the `Outcome.mapM'` calculus ("in order, first failure wins"), and the
  reduction of the list arms of `evalBin` (`mapScalar`, `zipScalar`) to it.
-/
namespace Blots

/-! ### `Outcome.mapM'`: in order, first failure wins -/

namespace Outcome

/-- the value, if the outcome is `ok` -/
def ok? {α} : Outcome α → Option α
  | ok a => some a
  | _ => none

theorem isOk_iff {α} (r : Outcome α) : r.isOk = true ↔ ∃ a, r = ok a := by
  cases r <;> simp [isOk]

theorem isErr_iff {α} (r : Outcome α) : r.isErr = true ↔ ∃ k, r = err k := by
  cases r <;> simp [isErr]

@[simp] theorem mapM'_nil {α β} (f : α → Outcome β) : mapM' f [] = ok [] := rfl

theorem mapM'_cons {α β} (f : α → Outcome β) (x : α) (xs : List α) :
    mapM' f (x :: xs) = (f x).bind fun y => (mapM' f xs).bind fun ys => ok (y :: ys) := by
  simp only [mapM', bind]
  cases f x <;> simp only []
  cases mapM' f xs <;> rfl

/-- success, by positions: same length and the i-th result is the result on the i-th element -/
theorem mapM'_ok_iff_get {α β} (f : α → Outcome β) : ∀ (L : List α) (ys : List β),
    mapM' f L = ok ys ↔
      ys.length = L.length ∧ ∀ (i : Nat) (h1 : i < L.length) (h2 : i < ys.length), f L[i] = ok ys[i]
  | [], ys => by
    cases ys <;> simp [mapM']
  | x :: xs, [] => by
    rw [mapM'_cons]
    cases f x <;> simp [bind]
    cases mapM' f xs <;> simp
  | x :: xs, y :: ys => by
    rw [mapM'_cons]
    have ih := mapM'_ok_iff_get f xs ys
    constructor
    · intro h
      cases hx : f x with
      | ok y' =>
        rw [hx] at h
        cases hxs : mapM' f xs with
        | ok zs =>
          rw [hxs] at h
          simp only [bind, ok.injEq, List.cons.injEq] at h
          obtain ⟨rfl, rfl⟩ := h
          obtain ⟨hl, hg⟩ := ih.mp hxs
          refine ⟨by simp [hl], fun i h1 h2 => ?_⟩
          cases i with
          | zero => simpa using hx
          | succ j => simpa using hg j (by simpa using h1) (by simpa using h2)
        | err k => rw [hxs] at h; simp [bind] at h
        | panic p => rw [hxs] at h; simp [bind] at h
        | fuel => rw [hxs] at h; simp [bind] at h
      | err k => rw [hx] at h; simp [bind] at h
      | panic p => rw [hx] at h; simp [bind] at h
      | fuel => rw [hx] at h; simp [bind] at h
    · rintro ⟨hl, hg⟩
      have h0 : f x = ok y := hg 0 (by simp) (by simp)
      have hrest : mapM' f xs = ok ys := ih.mpr ⟨by simpa using hl, fun i h1 h2 =>
        hg (i + 1) (by simpa using h1) (by simpa using h2)⟩
      simp [h0, hrest, bind]

/-- first failure wins: after a prefix of successes the first non-`ok` element result is the
    result of the whole -/
theorem mapM'_first_failure {α β} (f : α → Outcome β) (pre : List α) (x : α) (post : List α)
    (hpre : ∀ y ∈ pre, (f y).isOk = true) (hx : (f x).isOk = false) :
    (mapM' f (pre ++ x :: post)).ok? = none ∧
    (∀ k, f x = err k → mapM' f (pre ++ x :: post) = err k) ∧
    (∀ p, f x = panic p → mapM' f (pre ++ x :: post) = panic p) ∧
    (f x = fuel → mapM' f (pre ++ x :: post) = fuel) := by
  induction pre with
  | nil =>
    simp only [List.nil_append, mapM'_cons]
    cases h : f x <;> simp_all [bind, isOk, ok?]
  | cons y ys ih =>
    have hy := hpre y (by simp)
    obtain ⟨v, hv⟩ := (isOk_iff _).mp hy
    have ih' := ih (fun z hz => hpre z (by simp [hz]))
    simp only [List.cons_append, mapM'_cons, hv, bind]
    cases h : mapM' f (ys ++ x :: post) with
    | ok zs => simp [h, ok?] at ih'
    | err k =>
      refine ⟨rfl, fun k' hk' => ?_, fun p hp => ?_, fun hf => ?_⟩
      · exact h.symm.trans (ih'.2.1 k' hk')
      · exact h.symm.trans (ih'.2.2.1 p hp)
      · exact h.symm.trans (ih'.2.2.2 hf)
    | panic q =>
      refine ⟨rfl, fun k' hk' => ?_, fun p hp => ?_, fun hf => ?_⟩
      · exact h.symm.trans (ih'.2.1 k' hk')
      · exact h.symm.trans (ih'.2.2.1 p hp)
      · exact h.symm.trans (ih'.2.2.2 hf)
    | fuel =>
      refine ⟨rfl, fun k' hk' => ?_, fun p hp => ?_, fun hf => ?_⟩
      · exact h.symm.trans (ih'.2.1 k' hk')
      · exact h.symm.trans (ih'.2.2.1 p hp)
      · exact h.symm.trans (ih'.2.2.2 hf)

/-- the whole fails (is not `ok`) exactly when some element operation fails -/
theorem mapM'_isOk_eq_all {α β} (f : α → Outcome β) : ∀ (L : List α),
    (mapM' f L).isOk = L.all fun x => (f x).isOk
  | [] => rfl
  | x :: xs => by
    rw [mapM'_cons, List.all_cons, ← mapM'_isOk_eq_all f xs]
    cases f x <;> simp [bind, isOk]
    cases mapM' f xs <;> simp

/-- if element operations only ever return `ok` or `err` (no panic, no fuel), so does the whole,
    and it is an error exactly when some element operation is an error -/
theorem mapM'_isErr_iff {α β} (f : α → Outcome β) (L : List α)
    (h : ∀ x ∈ L, (f x).isOk = true ∨ (f x).isErr = true) :
    ((mapM' f L).isOk = true ∨ (mapM' f L).isErr = true) ∧
    ((mapM' f L).isErr = true ↔ ∃ x ∈ L, (f x).isErr = true) := by
  induction L with
  | nil => simp [isOk, isErr]
  | cons x xs ih =>
    have ih' := ih (fun y hy => h y (by simp [hy]))
    rw [mapM'_cons]
    rcases h x (by simp) with hx | hx
    · obtain ⟨v, hv⟩ := (isOk_iff _).mp hx
      simp only [hv, bind, List.mem_cons, exists_eq_or_imp, isErr, Bool.false_eq_true, false_or]
      cases hm : mapM' f xs with
      | ok zs => simp [hm, isOk, isErr] at ih' ⊢; exact ih'
      | err k => simp [hm, isOk, isErr] at ih' ⊢; exact ih'
      | panic p => simp [hm, isOk, isErr] at ih'
      | fuel => simp [hm, isOk, isErr] at ih'
    · obtain ⟨k, hk⟩ := (isErr_iff _).mp hx
      simp [hk, bind, isErr, isOk]

end Outcome

/-! ### one-step unfoldings on a successor fuel -/

theorem evalBin_succ (ops : NumOps) (fuel depth : Nat) (op : BinOp) (a b : Value) (s : ES) :
    evalBin ops (fuel+1) depth op a b s =
    if isDot op then (compareOp op a b, s)
    else if op == .into && isListV b then (.err .type_, s)
    else
      match a, b with
      | .list la, .list lb =>
        if la.length != lb.length then (.err .length, s)
        else
          (match op with
           | .via => viaPairs ops fuel la lb depth s
           | .where_ => (.err .type_, s)
           | .into => (.err .type_, s)
           | _ => (zipScalar ops op la lb, s))
      | .list la, sc =>
        (match op with
         | .via =>
           if !sc.isCallable then (.err .notCallable, s)
           else
             (match arityOf sc with
              | none => (.err .other, s)
              | some ar =>
                (match mapCalls ops fuel sc (ar.canAccept 2) la 0 depth s with
                 | (.ok vs, s1) => (.ok (.list vs), s1)
                 | (.err k, s1) => (.err k, s1)
                 | (.panic p, s1) => (.panic p, s1)
                 | (.fuel, s1) => (.fuel, s1)))
         | .into =>
           if !sc.isCallable then (.err .notCallable, s)
           else callFn ops fuel sc sc [.list la] depth s
         | .where_ =>
           if !sc.isCallable then (.err .notCallable, s)
           else
             (match arityOf sc with
              | none => (.err .other, s)
              | some ar => whereCalls ops fuel sc (ar.canAccept 2) la 0 depth s)
         | _ => (mapScalar ops op true la sc, s))
      | sc, .list lb =>
        (match op with
         | .via | .into | .where_ => (.err .type_, s)
         | _ => (mapScalar ops op false lb sc, s))
      | x, y =>
        (match op with
         | .via | .into =>
           if !y.isCallable then (.err .notCallable, s)
           else callFn ops fuel y y [x] depth s
         | .where_ => (.err .type_, s)
         | _ => (scalarOp ops false op x y, s)) := by
  rw [evalBin.eq_def]
  rfl

/-! ### the broadcasting operators -/

/-- the 17 operators that broadcast over lists -/
def bcast : List BinOp :=
  [.add, .sub, .mul, .div, .mod, .pow, .eq, .ne, .lt, .le, .gt, .ge, .and, .nand, .or, .nor,
   .coalesce]

/-- the six dot-prefixed comparisons -/
def dotOps : List BinOp := [.deq, .dne, .dlt, .dle, .dgt, .dge]

/-- the three operators that call a function -/
def callOps : List BinOp := [.via, .into, .where_]

theorem binOp_trichotomy (op : BinOp) : op ∈ bcast ∨ op ∈ dotOps ∨ op ∈ callOps := by
  cases op <;> simp [bcast, dotOps, callOps]

theorem mem_dotOps_iff (op : BinOp) : op ∈ dotOps ↔ isDot op = true := by
  cases op <;> simp [dotOps, isDot]

theorem bcast_not_dot {op : BinOp} (h : op ∈ bcast) : isDot op = false := by
  cases op <;> simp_all [bcast, isDot]

/-- `Outcome (List Value)` to `Outcome Value`: wrap the results in a list value -/
def listOf (r : Outcome (List Value)) : Outcome Value := r.bind fun vs => .ok (.list vs)

@[simp] theorem listOf_ok (vs : List Value) : listOf (.ok vs) = .ok (.list vs) := rfl
@[simp] theorem listOf_err (k : ErrKind) : listOf (.err k) = .err k := rfl
@[simp] theorem listOf_panic (p : String) : listOf (.panic p) = .panic p := rfl
@[simp] theorem listOf_fuel : listOf .fuel = .fuel := rfl

theorem listOf_eq_ok_iff (r : Outcome (List Value)) (v : Value) :
    listOf r = .ok v ↔ ∃ vs, r = .ok vs ∧ v = .list vs := by
  cases r <;> simp [listOf, Outcome.bind, eq_comm]

theorem listOf_isErr (r : Outcome (List Value)) : (listOf r).isErr = r.isErr := by
  cases r <;> rfl

theorem listOf_isOk (r : Outcome (List Value)) : (listOf r).isOk = r.isOk := by
  cases r <;> rfl

/-- list ∘ scalar: `mapScalar` is `mapM'` of the element rule -/
theorem mapScalar_eq (ops : NumOps) (op : BinOp) (lf : Bool) (sc : Value) : ∀ (L : List Value),
    mapScalar ops op lf L sc = listOf (Outcome.mapM' (fun x => elemScalar ops op lf x sc) L)
  | [] => rfl
  | x :: xs => by
    rw [mapScalar, Outcome.mapM'_cons, mapScalar_eq ops op lf sc xs]
    cases elemScalar ops op lf x sc <;> simp only [Outcome.bind, listOf]
    cases Outcome.mapM' (fun x => elemScalar ops op lf x sc) xs <;> rfl

/-- list ∘ list: `zipScalar` is `mapM'` of the scalar rule over the zipped pairs -/
theorem zipScalar_eq (ops : NumOps) (op : BinOp) : ∀ (la lb : List Value),
    zipScalar ops op la lb =
      listOf (Outcome.mapM' (fun p : Value × Value => scalarOp ops true op p.1 p.2) (la.zip lb))
  | [], _ => by simp [zipScalar]
  | _ :: _, [] => by simp [zipScalar]
  | x :: xs, y :: ys => by
    rw [zipScalar, List.zip_cons_cons, Outcome.mapM'_cons, zipScalar_eq ops op xs ys]
    cases scalarOp ops true op x y <;> simp only [Outcome.bind, listOf]
    cases Outcome.mapM' (fun p : Value × Value => scalarOp ops true op p.1 p.2) (xs.zip ys) <;> rfl

/-! ### `evalBin` on the broadcasting and the dot operators -/

/-- what `evalBin` computes for a broadcasting operator (no call, no state) -/
def binPure (ops : NumOps) (op : BinOp) (a b : Value) : Outcome Value :=
  match a, b with
  | .list la, .list lb => if la.length != lb.length then .err .length else zipScalar ops op la lb
  | .list la, sc => mapScalar ops op true la sc
  | sc, .list lb => mapScalar ops op false lb sc
  | x, y => scalarOp ops false op x y

theorem evalBin_bcast (ops : NumOps) (fuel depth : Nat) (op : BinOp) (a b : Value) (s : ES)
    (h : op ∈ bcast) : evalBin ops (fuel+1) depth op a b s = (binPure ops op a b, s) := by
  rw [evalBin_succ]
  unfold binPure
  simp only [bcast, List.mem_cons, List.not_mem_nil, or_false] at h
  rcases h with h | h | h | h | h | h | h | h | h | h | h | h | h | h | h | h | h <;> subst h <;>
    simp only [isDot, Bool.false_eq_true, if_false, reduceCtorEq, beq_iff_eq,
      Bool.and_eq_true, false_and] <;>
    split <;> (try split) <;> rfl

theorem evalBin_dot (ops : NumOps) (fuel depth : Nat) (op : BinOp) (a b : Value) (s : ES)
    (h : op ∈ dotOps) : evalBin ops (fuel+1) depth op a b s = (compareOp op a b, s) := by
  rw [evalBin_succ, if_pos ((mem_dotOps_iff op).mp h)]

theorem binPure_scalar_scalar (ops : NumOps) (op : BinOp) (a b : Value)
    (ha : isListV a = false) (hb : isListV b = false) :
    binPure ops op a b = scalarOp ops false op a b := by
  unfold binPure
  split <;> simp_all [isListV]

theorem binPure_list_scalar (ops : NumOps) (op : BinOp) (L : List Value) (sc : Value)
    (hs : isListV sc = false) : binPure ops op (.list L) sc = mapScalar ops op true L sc := by
  unfold binPure
  split <;> simp_all [isListV]

theorem binPure_scalar_list (ops : NumOps) (op : BinOp) (sc : Value) (L : List Value)
    (hs : isListV sc = false) : binPure ops op sc (.list L) = mapScalar ops op false L sc := by
  unfold binPure
  split <;> simp_all [isListV]

theorem binPure_list_list (ops : NumOps) (op : BinOp) (la lb : List Value) :
    binPure ops op (.list la) (.list lb) =
      if la.length = lb.length then zipScalar ops op la lb else .err .length := by
  unfold binPure
  by_cases h : la.length = lb.length <;> simp [h]

theorem listOf_mapM'_ok_iff {α} (f : α → Outcome Value) (L : List α) (v : Value) :
    listOf (Outcome.mapM' f L) = .ok v ↔
      ∃ vs : List Value, v = .list vs ∧ vs.length = L.length ∧
        ∀ (i : Nat) (h1 : i < L.length) (h2 : i < vs.length), f L[i] = .ok vs[i] := by
  rw [listOf_eq_ok_iff]
  constructor
  · rintro ⟨vs, h, rfl⟩
    exact ⟨vs, rfl, (Outcome.mapM'_ok_iff_get f L vs).mp h⟩
  · rintro ⟨vs, rfl, h⟩
    exact ⟨vs, (Outcome.mapM'_ok_iff_get f L vs).mpr h, rfl⟩

theorem listOf_mapM'_isErr_iff {α} (f : α → Outcome Value) (L : List α)
    (h : ∀ x, (f x).isOk = true ∨ (f x).isErr = true) :
    ((listOf (Outcome.mapM' f L)).isOk = true ∨ (listOf (Outcome.mapM' f L)).isErr = true) ∧
    ((listOf (Outcome.mapM' f L)).isErr = true ↔ ∃ x ∈ L, (f x).isErr = true) := by
  rw [listOf_isErr, listOf_isOk]
  exact Outcome.mapM'_isErr_iff f L (fun x _ => h x)

/-- the dot spelling of a plain comparison -/
def dotted : BinOp → BinOp
  | .eq => .deq | .ne => .dne | .lt => .dlt | .le => .dle | .gt => .dgt | .ge => .dge
  | op => op

/-- what the model does for `sc op L`: the scalar is the LEFT operand of each element operation,
    except that `*`, `==`, `!=` are written with the list element first -/
def scalarLeftRule (ops : NumOps) (op : BinOp) (sc x : Value) : Outcome Value :=
  if op = .mul ∨ op = .eq ∨ op = .ne then scalarOp ops false op x sc else scalarOp ops false op sc x

/-! ### a toy float unit and a small state, to run examples -/

/-- operations that are total functions on bit patterns (`mul` returns its second argument,
    every other binary operation its first): enough to run the evaluator in `example`s; all
    theorems hold for every `NumOps` -/
def toyOps : NumOps :=
  { add := fun x _ => x, sub := fun x _ => x, mul := fun _ y => y, div := fun x _ => x,
    rem := fun x _ => x, powf := fun x _ => x, sqrt := id, sin := id, cos := id, tan := id,
    asin := id, acos := id, atan := id, ln := id, log10 := id, exp := id, floor := id,
    ceil := id, round := id, trunc := id }
def demoState : ES := { env := [[("x", .null)]], nextId := 3, names := [] }
def vOne : Value := .num F64.one
def vTwo : Value := .num (F64.ofNat 2)

/-! ### the scalar rule never panics and never runs out of fuel -/

theorem compareOp_ok_or_err (op : BinOp) (a b : Value) :
    (compareOp op a b).isOk = true ∨ (compareOp op a b).isErr = true := by
  unfold compareOp
  cases op <;> simp [Outcome.isOk, Outcome.isErr, orderingsOf, checkOrdering] <;>
    cases vcmp a b <;> simp [Outcome.bind]

theorem scalarOp_ok_or_err (ops : NumOps) (ew : Bool) (op : BinOp) (a b : Value) :
    (scalarOp ops ew op a b).isOk = true ∨ (scalarOp ops ew op a b).isErr = true := by
  have hc := compareOp_ok_or_err op a b
  cases op <;> try (simpa [scalarOp] using hc)
  all_goals
    cases a <;> cases b <;> cases ew <;>
      simp [scalarOp, logicalOperands, asBool, asNumber, asString, Outcome.bind, Outcome.isOk,
        Outcome.isErr, bind, pure]

theorem elemScalar_ok_or_err (ops : NumOps) (op : BinOp) (lf : Bool) (v sc : Value) :
    (elemScalar ops op lf v sc).isOk = true ∨ (elemScalar ops op lf v sc).isErr = true := by
  unfold elemScalar
  cases op <;> cases lf <;> simp only [if_true, if_false, Bool.false_eq_true] <;>
    exact scalarOp_ok_or_err ..

/-- C11(7): the per-element rule of the list arms and the scalar rule are THE SAME function:
    the two spellings of `+` in the Rust code ((string,string) | (number,number) | error, versus
    "left is a string: right must be one; otherwise both must be numbers") accept the same pairs,
    give the same results and fail with the same kind on all the others.  No pair of values
    distinguishes them. -/
theorem scalarOp_elementwise_irrelevant (ops : NumOps) (op : BinOp) (a b : Value) :
    scalarOp ops true op a b = scalarOp ops false op a b := by
  cases op <;> try rfl
  cases a <;> cases b <;> rfl

end Blots
