import Blots.Lemmas.FormatSquashFlat
/-
  The width-driven layouts differ from the single-line printer only in layout.

  * `rt ps`        : the characters of the text pieces of `ps` (comment pieces dropped);
  * `HM` / `hm_impl` : a layout starts with `-` exactly when `flat` does (the decision of
                     `protect_statement_start` is the same on both sides);
  * `eqv_…Layout`  : every per-kind layout, given its formatted children, is `Eqv` to the
                     single-line form — through each of its branches;
  * `sq_impl` …    : THE MAIN INDUCTION — `Eqv (rt (fmtImplP w indent e)) (flat e).toList` for
                     every tree (with `namesOk`, `lamOk`), width and indent, by mutual
                     structural induction over Expr / Item / Entry and their lists.
-/
namespace Blots
namespace Squash
open FormatL FormatP

/-! ### text pieces -/

/-- the characters of the pieces that are not comments -/
def rt (ps : List Piece) : List Char := (render (textOnly ps)).toList

theorem textOnly_nil : textOnly [] = [] := rfl
theorem textOnly_text (s : String) (l : List Piece) : textOnly (.text s :: l) = .text s :: textOnly l :=
  List.filter_cons_of_pos rfl
theorem textOnly_comment (s : String) (l : List Piece) : textOnly (.comment s :: l) = textOnly l :=
  List.filter_cons_of_neg (by simp [Piece.isText])
theorem textOnly_append (a b : List Piece) : textOnly (a ++ b) = textOnly a ++ textOnly b := by
  simp [textOnly]

theorem rt_nil : rt [] = [] := rfl
theorem rt_text (s : String) (l : List Piece) : rt (.text s :: l) = s.toList ++ rt l := by
  simp only [rt, textOnly_text, render_text, String.toList_append]
theorem rt_comment (s : String) (l : List Piece) : rt (.comment s :: l) = rt l := by
  simp only [rt, textOnly_comment]
theorem rt_append (a b : List Piece) : rt (a ++ b) = rt a ++ rt b := by
  simp only [rt, textOnly_append, render_append, String.toList_append]

theorem makeIndent_toList (k : Nat) : (makeIndent k).toList = List.replicate k ' ' := by
  simp [makeIndent]

/-- a layout without comment pieces is its own text part -/
theorem textOnly_of_noComments : ∀ ps : List Piece, commentPieces ps = [] → textOnly ps = ps
  | [], _ => rfl
  | .text s :: l, h => by
    rw [shown_text] at h
    rw [textOnly_text, textOnly_of_noComments l h]
  | .comment s :: l, h => by
    rw [shown_comment] at h; cases h

/-- normal form: characters, right-nested -/
macro "rt_norm" : tactic => `(tactic| simp only [rt_nil, rt_text, rt_comment, rt_append,
  String.toList_append, String.reduceToList, makeIndent_toList, List.append_assoc,
  List.cons_append, List.nil_append, List.append_nil])
macro "rt_norm" " at " h:ident : tactic => `(tactic| simp only [rt_nil, rt_text, rt_comment, rt_append,
  String.toList_append, String.reduceToList, makeIndent_toList, List.append_assoc,
  List.cons_append, List.nil_append, List.append_nil] at $h:ident)

theorem Eqv.dropL {a c d : List Char} (h : Eqv a []) (h' : Eqv c d) : Eqv (a ++ c) d :=
  Eqv.app h h'

theorem Eqv.dropEndL {a b c : List Char} (h : Eqv a b) (h' : Eqv c []) : Eqv (a ++ c) b := by
  have := Eqv.app h h'
  rwa [List.append_nil] at this

/-- one step of the comparison of two normal forms (the shapes are matched syntactically:
    `with_reducible`, so that no text is unfolded) -/
macro "eqv_step" : tactic => `(tactic| first
  | with_reducible assumption
  | exact Eqv.nil
  | (with_reducible refine Eqv.cons_same ?hc ?_; case hc => decide)
  | (with_reducible refine Eqv.skipL ?hc ?_; case hc => decide)
  | (with_reducible refine Eqv.skipR ?hc ?_; case hc => decide)
  | with_reducible refine Eqv.skipIndentL _ ?_
  | with_reducible exact Eqv.skipIndentL' _ Eqv.nil
  | with_reducible refine Eqv.app (by with_reducible assumption) ?_
  | with_reducible refine Eqv.app (Eqv.refl (by with_reducible assumption)) ?_
  | with_reducible refine Eqv.dropL (by with_reducible assumption) ?_
  | with_reducible exact Eqv.refl (by with_reducible assumption))

macro "eqv_auto" : tactic => `(tactic| repeat eqv_step)

/-! ### `-` at the start -/

/-- the text starts with `-` -/
def hm (s : List Char) : Bool := s.head? == some '-'

/-- in front of anything that agrees on "starts with `-`", `R` and `F` agree on it -/
def HM (R F : List Char) : Prop := ∀ x y, hm x = hm y → hm (R ++ x) = hm (F ++ y)

theorem HM.same (t : List Char) : HM t t := fun x y h => by
  cases t with
  | nil => simpa using h
  | cons c t => rfl

theorem HM.cons (c : Char) (R F : List Char) : HM (c :: R) (c :: F) := fun _ _ _ => rfl

theorem HM.neither {c d : Char} (R F : List Char) (hc : (c == '-') = false) (hd : (d == '-') = false) :
    HM (c :: R) (d :: F) := fun _ _ _ => by
  simp only [hm, List.cons_append, List.head?_cons]
  have e1 : (some c == some '-') = (c == '-') := rfl
  have e2 : (some d == some '-') = (d == '-') := rfl
  rw [e1, e2, hc, hd]

theorem HM.app {R1 F1 R2 F2 : List Char} (h1 : HM R1 F1) (h2 : HM R2 F2) :
    HM (R1 ++ R2) (F1 ++ F2) := fun x y h => by
  rw [List.append_assoc, List.append_assoc]
  exact h1 _ _ (h2 x y h)

theorem HM.pre {t : List Char} (hne : t ≠ []) (R F : List Char) : HM (t ++ R) (t ++ F) := by
  cases t with
  | nil => exact absurd rfl hne
  | cons c t => exact HM.cons c _ _

theorem HM.head {R F : List Char} (h : HM R F) : hm R = hm F := by
  have := h [] [] rfl
  rwa [List.append_nil, List.append_nil] at this

theorem hm_orSingle (w indent : Nat) (e : Expr) (multi : Unit → List Piece) (f : String)
    (hs : hasNewline (fmtSingle e) = false → fmtSingle e = f)
    (h : HM (render (multi ())).toList f.toList) :
    HM (render (orSingle w indent e multi)).toList f.toList := by
  unfold orSingle
  simp only
  split
  · rename_i hc
    simp only [Bool.and_eq_true, Bool.not_eq_true', decide_eq_true_eq] at hc
    rw [render_single, hs hc.1]
    exact HM.same _
  · exact h

theorem hm_paren (b : Bool) {ps : List Piece} {f : String} (h : HM (render ps).toList f.toList) :
    HM (render (parenP b ps)).toList (parenIf b f).toList := by
  cases b
  · simpa only [parenP, parenIf, Bool.false_eq_true, if_false] using h
  · simp only [parenP, parenIf, if_true, render_text, render_append, String.toList_append,
      String.reduceToList, List.cons_append, List.nil_append]
    exact HM.cons _ _ _

theorem unaryOp_ne (op : UnOp) : (unaryOpToSource op).toList ≠ [] := by
  cases op <;> decide

macro "hm_norm" : tactic => `(tactic| simp only [render_nil, render_text, render_append,
  String.toList_append, String.reduceToList, String.toList_empty, makeIndent_toList,
  List.append_assoc, List.cons_append, List.nil_append, List.append_nil])

theorem leaf_flat (e : Expr) (h : ∀ x, fmtSingle e = (if containsComments e then x else exprToSource e))
    (hc : containsComments e = false) (hf : exprToSource e = flat e) (w indent : Nat) :
    render (leafP w indent e) = flat e := by
  unfold leafP orSingle
  simp only
  split
  · rw [render_single, h "\n", hc]; simpa using hf
  · rw [render_single, hf]

/-- a layout starts with `-` exactly when the single-line form does: along the left spine -/
theorem hm_impl : ∀ (e : Expr) (w indent : Nat), lamOk e = true →
    HM (render (fmtImplP w indent e)).toList (flat e).toList
  | .lambda args body, w, indent, _ => by
    simp only [fmtImplP, flat]
    unfold lambdaLayout
    simp only
    split
    · hm_norm
      exact HM.app (HM.same _) (HM.cons _ _ _)
    · split
      · hm_norm
        exact HM.app (HM.same _) (HM.cons _ _ _)
      · split
        · hm_norm
          exact HM.app (HM.same _) (HM.cons _ _ _)
        · hm_norm
          exact HM.app (HM.same _) (HM.cons _ _ _)
  | .doBlock ss r, w, indent, _ => by
    simp only [fmtImplP, flat]
    hm_norm
    exact HM.cons _ _ _
  | .output e, w, indent, hl => by
    simp only [fmtImplP]
    refine hm_orSingle _ _ _ _ _ (single_flat _ hl) ?_
    simp only [flat]
    hm_norm
    exact HM.cons _ _ _
  | .assign n v, w, indent, hl => by
    simp only [fmtImplP]
    refine hm_orSingle _ _ _ _ _ (single_flat _ hl) ?_
    simp only [flat]
    hm_norm
    exact HM.app (HM.same _) (HM.cons _ _ _)
  | .list items, w, indent, hl => by
    simp only [fmtImplP]
    refine hm_orSingle _ _ _ _ _ (single_flat _ hl) ?_
    simp only [flat]
    split <;> (hm_norm; exact HM.cons _ _ _)
  | .record es, w, indent, hl => by
    simp only [fmtImplP]
    refine hm_orSingle _ _ _ _ _ (single_flat _ hl) ?_
    simp only [flat]
    split <;> (hm_norm; exact HM.cons _ _ _)
  | .cond c t e, w, indent, hl => by
    simp only [fmtImplP]
    refine hm_orSingle _ _ _ _ _ (single_flat _ hl) ?_
    simp only [flat]
    unfold condLayout
    simp only
    split <;> (hm_norm; exact HM.cons _ _ _)
  | .call f args, w, indent, hl => by
    have hl' := hl
    simp only [lamOk, Bool.and_eq_true] at hl'
    have ih := hm_paren (needsParens f .postfix_) (hm_impl f w indent hl'.1)
    simp only [fmtImplP]
    refine hm_orSingle _ _ _ _ _ (single_flat _ hl) ?_
    simp only [flat]
    split
    · hm_norm
      exact HM.app ih (HM.cons _ _ _)
    · hm_norm
      exact HM.app ih (HM.cons _ _ _)
  | .bin op l r, w, indent, hl => by
    have hl' := hl
    simp only [lamOk, Bool.and_eq_true] at hl'
    have ih := hm_paren (needsParens l (.binLeft op)) (hm_impl l w indent (lamOk_of_noBare l hl'.1))
    simp only [fmtImplP]
    refine hm_orSingle _ _ _ _ _ (single_flat _ hl) ?_
    simp only [flat]
    unfold binLayout
    simp only
    split
    · split
      · hm_norm
        exact HM.app ih (HM.cons _ _ _)
      · hm_norm
        exact HM.app ih (HM.neither _ _ (by decide) (by decide))
    · hm_norm
      exact HM.app ih (HM.neither _ _ (by decide) (by decide))
  | .un op e, w, indent, hl => by
    simp only [fmtImplP]
    refine hm_orSingle _ _ _ _ _ (single_flat _ hl) ?_
    simp only [flat]
    hm_norm
    exact HM.pre (unaryOp_ne op) _ _
  | .fact e, w, indent, hl => by
    have hl' := hl
    simp only [lamOk] at hl'
    have ih := hm_paren (needsParens e .postfix_) (hm_impl e w indent (lamOk_of_noBare e hl'))
    simp only [fmtImplP]
    refine hm_orSingle _ _ _ _ _ (single_flat _ hl) ?_
    simp only [flat]
    hm_norm
    exact HM.app ih (HM.cons _ _ _)
  | .access e i, w, indent, hl => by
    have hl' := hl
    simp only [lamOk, Bool.and_eq_true] at hl'
    have ih := hm_paren (needsParens e .postfix_) (hm_impl e w indent (lamOk_of_noBare e hl'.1))
    simp only [fmtImplP]
    refine hm_orSingle _ _ _ _ _ (single_flat _ hl) ?_
    simp only [flat]
    hm_norm
    exact HM.app ih (HM.cons _ _ _)
  | .dot e f, w, indent, hl => by
    have hl' := hl
    simp only [lamOk] at hl'
    have ih := hm_paren (needsParens e .postfix_) (hm_impl e w indent (lamOk_of_noBare e hl'))
    simp only [fmtImplP]
    refine hm_orSingle _ _ _ _ _ (single_flat _ hl) ?_
    simp only [flat]
    hm_norm
    exact HM.app ih (HM.cons _ _ _)
  | .spread e, w, indent, hl => by
    simp only [fmtImplP]
    refine hm_orSingle _ _ _ _ _ (single_flat _ hl) ?_
    simp only [flat]
    hm_norm
    exact HM.cons _ _ _
  | .num x, w, indent, _ => by
    simp only [fmtImplP]
    rw [leaf_flat _ (fun _ => by simp only [fmtSingle, containsComments, Bool.false_eq_true, if_false])
      (by simp only [containsComments]) (by simp only [exprToSource, exprSrc, flat])]
    exact HM.same _
  | .str s, w, indent, _ => by
    simp only [fmtImplP]
    rw [leaf_flat _ (fun _ => by simp only [fmtSingle, containsComments, Bool.false_eq_true, if_false])
      (by simp only [containsComments]) (by simp only [exprToSource, exprSrc, flat])]
    exact HM.same _
  | .bool b, w, indent, _ => by
    simp only [fmtImplP]
    rw [leaf_flat _ (fun _ => by simp only [fmtSingle, containsComments, Bool.false_eq_true, if_false])
      (by simp only [containsComments]) (by simp only [exprToSource, exprSrc, flat])]
    exact HM.same _
  | .null, w, indent, _ => by
    simp only [fmtImplP]
    rw [leaf_flat _ (fun _ => by simp only [fmtSingle, containsComments, Bool.false_eq_true, if_false])
      (by simp only [containsComments]) (by simp only [exprToSource, exprSrc, flat])]
    exact HM.same _
  | .ident n, w, indent, _ => by
    simp only [fmtImplP]
    rw [leaf_flat _ (fun _ => by simp only [fmtSingle, containsComments, Bool.false_eq_true, if_false])
      (by simp only [containsComments]) (by simp only [exprToSource, exprSrc, lookupAL, flat])]
    exact HM.same _
  | .inref f, w, indent, _ => by
    simp only [fmtImplP]
    rw [leaf_flat _ (fun _ => by simp only [fmtSingle, containsComments, Bool.false_eq_true, if_false])
      (by simp only [containsComments]) (by simp only [exprToSource, exprSrc, flat])]
    exact HM.same _
  | .builtin n, w, indent, _ => by
    simp only [fmtImplP]
    rw [leaf_flat _ (fun _ => by simp only [fmtSingle, containsComments, Bool.false_eq_true, if_false])
      (by simp only [containsComments]) (by simp only [exprToSource, exprSrc, flat])]
    exact HM.same _

/-! ### the per-kind layouts, given their formatted children -/

theorem eqv_orSingle (w indent : Nat) (e : Expr) (multi : Unit → List Piece) (f : String)
    (hs : hasNewline (fmtSingle e) = false → fmtSingle e = f)
    (h : Eqv (rt (multi ())) f.toList) : Eqv (rt (orSingle w indent e multi)) f.toList := by
  unfold orSingle
  simp only
  split
  · rename_i hc
    simp only [Bool.and_eq_true, Bool.not_eq_true', decide_eq_true_eq] at hc
    rw [hs hc.1]
    rt_norm
    exact Eqv.refl h.balR
  · exact h

theorem eqv_paren (b : Bool) {ps : List Piece} {f : String} (h : Eqv (rt ps) f.toList) :
    Eqv (rt (parenP b ps)) (parenIf b f).toList := by
  cases b
  · simpa only [parenP, parenIf, Bool.false_eq_true, if_false] using h
  · simp only [parenP, parenIf, if_true]
    rt_norm
    eqv_auto

theorem hm_true_iff (s : List Char) : hm s = true ↔ ∃ t, s = '-' :: t := by
  cases s with
  | nil => simp [hm]
  | cons c t =>
    have e1 : hm (c :: t) = (c == '-') := rfl
    rw [e1]
    simp

theorem rt_protectP (ps : List Piece) :
    rt (protectP ps) =
      if protectDecide (render ps).toList then '(' :: (rt ps ++ [')']) else rt ps := by
  unfold protectP
  split
  · rt_norm
  · rfl

theorem toList_protect (s : String) :
    (protectStatementStart s).toList =
      if protectDecide s.toList then '(' :: (s.toList ++ [')']) else s.toList := by
  unfold protectStatementStart
  split
  · simp only [String.toList_append, String.reduceToList, List.cons_append, List.nil_append]
  · rfl

theorem protectDecide_eq (s : List Char) : protectDecide s = (hm s || wordOperatorStart s) := rfl

/-- `protect_statement_start` makes the same decision on a layout and on the single-line form
    when neither starts with `via` / `into` / `where` followed by a blank -/
theorem eqv_protect (ps : List Piece) (f : String) (hh : HM (render ps).toList f.toList)
    (hw1 : wordOperatorStart (render ps).toList = false) (hw2 : wordOperatorStart f.toList = false)
    (h : Eqv (rt ps) f.toList) : Eqv (rt (protectP ps)) (protectStatementStart f).toList := by
  rw [rt_protectP, toList_protect, protectDecide_eq, protectDecide_eq, hh.head, hw1, hw2]
  split
  · eqv_auto
  · exact h

/-! #### a text that cannot become a `via` / `into` / `where` start, whatever follows it

  `NW R`: in front of anything that does not start with a letter, `R` does not start with one
  of the three words followed by a blank.  It holds for the single-line text and for every
  layout of a tree whose leftmost name is none of the three (`headSafe`). -/

/-- ends a name: nothing, or a character that is no letter -/
def ctxOk : List Char → Bool
  | [] => true
  | c :: _ => !isAsciiAlpha c

def NW (R : List Char) : Prop := ∀ x, ctxOk x = true → wordOperatorStart (R ++ x) = false

theorem wos_head {c : Char} (t : List Char) (h1 : c ≠ 'v') (h2 : c ≠ 'i') (h3 : c ≠ 'w') :
    wordOperatorStart (c :: t) = false := by
  have e1 : ¬ ('v' = c) := fun e => h1 e.symm
  have e2 : ¬ ('i' = c) := fun e => h2 e.symm
  have e3 : ¬ ('w' = c) := fun e => h3 e.symm
  simp [wordOperatorStart, List.isPrefixOf, e1, e2, e3]

theorem NW.nil : NW [] := by
  intro x hx
  cases x with
  | nil => simp [wordOperatorStart, List.isPrefixOf]
  | cons c t =>
    simp only [ctxOk, Bool.not_eq_true'] at hx
    refine wos_head t ?_ ?_ ?_ <;> (intro e; subst e; revert hx; decide)

macro "nw_norm" : tactic => `(tactic| simp only [flat, String.toList_append, String.reduceToList,
  List.append_assoc, List.cons_append, List.nil_append])

theorem NW.head {c : Char} (R : List Char) (h1 : c ≠ 'v') (h2 : c ≠ 'i') (h3 : c ≠ 'w') :
    NW (c :: R) := fun _ _ => wos_head _ h1 h2 h3

theorem ctxOk_append {S : List Char} (hne : S ≠ []) (x : List Char) : ctxOk (S ++ x) = ctxOk S := by
  cases S with
  | nil => exact absurd rfl hne
  | cons c S => rfl

theorem NW.app {R S : List Char} (h : NW R) (hne : S ≠ []) (hS : ctxOk S = true) : NW (R ++ S) := by
  intro x _
  rw [List.append_assoc]
  exact h _ (by rw [ctxOk_append hne]; exact hS)

/-- where a prefix test on `n ++ x` succeeds: inside `n`, or `n` is used up first -/
theorem isPrefixOf_append_cases : ∀ (p n x : List Char), p.isPrefixOf (n ++ x) = true →
    p.isPrefixOf n = true ∨ ∃ k, k < p.length ∧ n = p.take k ∧ (p.drop k).isPrefixOf x = true
  | [], n, x, _ => Or.inl (by simp [List.isPrefixOf])
  | d :: p', [], x, h => Or.inr ⟨0, by simp, by simp, by simpa using h⟩
  | d :: p', c :: n', x, h => by
    simp only [List.cons_append, List.isPrefixOf, Bool.and_eq_true, beq_iff_eq] at h
    obtain ⟨rfl, h'⟩ := h
    rcases isPrefixOf_append_cases p' n' x h' with hl | ⟨k, hk, hn, hd⟩
    · exact Or.inl (by simp [List.isPrefixOf, hl])
    · exact Or.inr ⟨k + 1, by simp only [List.length_cons]; omega, by simp [hn], by simpa using hd⟩

/-- one of the three words, a blank behind it -/
theorem wos_iff (cs : List Char) : wordOperatorStart cs = true ↔
    ∃ w ∈ ["via", "into", "where"], ∃ b ∈ [' ', '\t'], (w.toList ++ [b]).isPrefixOf cs = true := by
  simp only [wordOperatorStart, List.any_eq_true, Bool.or_eq_true]
  constructor
  · rintro ⟨w, hw, h | h⟩
    · exact ⟨w, hw, ' ', by simp, h⟩
    · exact ⟨w, hw, '\t', by simp, h⟩
  · rintro ⟨w, hw, b, hb, h⟩
    simp only [List.mem_cons, List.not_mem_nil, or_false] at hb
    rcases hb with rfl | rfl
    · exact ⟨w, hw, Or.inl h⟩
    · exact ⟨w, hw, Or.inr h⟩

theorem word_letters : ∀ w ∈ ["via", "into", "where"], ∀ c ∈ w.toList, isAsciiAlpha c = true := by
  decide

theorem NW.name {n : String} (h : headNameOk n = true) : NW n.toList := by
  intro x hx
  simp only [headNameOk, Bool.and_eq_true, Bool.not_eq_true', Bool.or_eq_false_iff,
    beq_eq_false_iff_ne, ne_eq] at h
  obtain ⟨⟨⟨h1, h2⟩, h3⟩, h4⟩ := h
  cases hw : wordOperatorStart (n.toList ++ x) with
  | false => rfl
  | true =>
    exfalso
    obtain ⟨w, hwm, b, hb, hp⟩ := (wos_iff _).mp hw
    rcases isPrefixOf_append_cases _ _ _ hp with hl | ⟨k, hk, hn, hd⟩
    · have : wordOperatorStart n.toList = true := (wos_iff _).mpr ⟨w, hwm, b, hb, hl⟩
      rw [h4] at this; cases this
    · simp only [List.length_append, List.length_cons, List.length_nil] at hk
      by_cases hkw : k = w.toList.length
      · -- `n` is the word itself
        subst hkw
        have : n.toList = w.toList := by rw [hn]; simp
        have : n = w := String.toList_inj.mp this
        subst this
        simp only [List.mem_cons, List.not_mem_nil, or_false] at hwm
        rcases hwm with rfl | rfl | rfl
        · exact h1 rfl
        · exact h2 rfl
        · exact h3 rfl
      · -- `x` continues the word with a letter
        have hlt : k < w.toList.length := by omega
        have hdrop : (w.toList ++ [b]).drop k = w.toList[k] :: ((w.toList ++ [b]).drop (k + 1)) := by
          rw [List.drop_eq_getElem_cons (by simp; omega)]
          congr 1
          exact List.getElem_append_left hlt
        rw [hdrop] at hd
        cases x with
        | nil => simp [List.isPrefixOf] at hd
        | cons c x' =>
          simp only [List.isPrefixOf, Bool.and_eq_true, beq_iff_eq] at hd
          have hc : isAsciiAlpha (w.toList[k]) = true := word_letters w hwm _ (List.getElem_mem hlt)
          rw [hd.1] at hc
          simp only [ctxOk, Bool.not_eq_true'] at hx
          rw [hx] at hc; cases hc

theorem NW.parenIf (b : Bool) {f : List Char} (h : NW f) :
    NW (if b then '(' :: (f ++ [')']) else f) := by
  cases b
  · exact h
  · exact NW.head _ (by decide) (by decide) (by decide)

theorem parenIf_toList' (b : Bool) (s : String) :
    (parenIf b s).toList = if b then '(' :: (s.toList ++ [')']) else s.toList := by
  cases b <;> simp [parenIf]

theorem nw_argsPart (args : List LArg)
    (h : (match args with | [.req n] => headNameOk n | _ => true) = true) :
    NW (lambdaArgsPart args).toList := by
  unfold lambdaArgsPart
  split
  · rename_i n
    exact NW.name h
  · simp only [String.toList_append, String.reduceToList, List.cons_append, List.nil_append,
      List.append_assoc]
    exact NW.head _ (by decide) (by decide) (by decide)

/-- the single-line text of a tree whose leftmost name is none of the three words -/
theorem nw_flat : ∀ e : Expr, headSafe e = true → NW (flat e).toList
  | .ident n, h => NW.name h
  | .builtin n, h => NW.name h
  | .assign n v, h => by
    simp only [flat, String.toList_append]
    rw [List.append_assoc]
    exact NW.app (NW.name h) (by simp) (by rfl)
  | .bin op l r, h => by
    simp only [headSafe, Bool.or_eq_true] at h
    have hl : NW (parenIf (needsParens l (.binLeft op)) (flat l)).toList := by
      rw [parenIf_toList']
      cases hp : needsParens l (.binLeft op) with
      | true => exact NW.head _ (by decide) (by decide) (by decide)
      | false =>
        rw [hp] at h
        exact nw_flat l (by simpa using h)
    simp only [flat, String.toList_append, List.append_assoc]
    exact NW.app hl (by simp) (by rfl)
  | .fact e, h => by
    simp only [headSafe, Bool.or_eq_true] at h
    have hl : NW (parenIf (needsParens e .postfix_) (flat e)).toList := by
      rw [parenIf_toList']
      cases hp : needsParens e .postfix_ with
      | true => exact NW.head _ (by decide) (by decide) (by decide)
      | false =>
        rw [hp] at h
        exact nw_flat e (by simpa using h)
    simp only [flat, String.toList_append]
    exact NW.app hl (by decide) (by rfl)
  | .call e as, h => by
    simp only [headSafe, Bool.or_eq_true] at h
    have hl : NW (parenIf (needsParens e .postfix_) (flat e)).toList := by
      rw [parenIf_toList']
      cases hp : needsParens e .postfix_ with
      | true => exact NW.head _ (by decide) (by decide) (by decide)
      | false =>
        rw [hp] at h
        exact nw_flat e (by simpa using h)
    simp only [flat, String.toList_append, List.append_assoc]
    exact NW.app hl (by simp) (by rfl)
  | .access e i, h => by
    simp only [headSafe, Bool.or_eq_true] at h
    have hl : NW (parenIf (needsParens e .postfix_) (flat e)).toList := by
      rw [parenIf_toList']
      cases hp : needsParens e .postfix_ with
      | true => exact NW.head _ (by decide) (by decide) (by decide)
      | false =>
        rw [hp] at h
        exact nw_flat e (by simpa using h)
    simp only [flat, String.toList_append, List.append_assoc]
    exact NW.app hl (by simp) (by rfl)
  | .dot e f, h => by
    simp only [headSafe, Bool.or_eq_true] at h
    have hl : NW (parenIf (needsParens e .postfix_) (flat e)).toList := by
      rw [parenIf_toList']
      cases hp : needsParens e .postfix_ with
      | true => exact NW.head _ (by decide) (by decide) (by decide)
      | false =>
        rw [hp] at h
        exact nw_flat e (by simpa using h)
    simp only [flat, String.toList_append, List.append_assoc]
    exact NW.app hl (by simp) (by rfl)
  | .lambda args body, h => by
    simp only [headSafe] at h
    simp only [flat, String.toList_append, List.append_assoc]
    exact NW.app (nw_argsPart args h) (by simp) (by rfl)
  | .inref f, _ => by nw_norm; exact NW.head _ (by decide) (by decide) (by decide)
  | .num x, h => by
    simp only [headSafe] at h
    simp only [flat]
    cases hn : (numberToSource x).toList with
    | nil => exact NW.nil
    | cons c t =>
      rw [hn] at h
      simp only [Bool.and_eq_true, bne_iff_ne, ne_eq] at h
      exact NW.head (c := c) _ h.1.1 h.1.2 h.2
  | .str s, _ => by
    simp only [flat, stringToSource]
    split
    · nw_norm; exact NW.head _ (by decide) (by decide) (by decide)
    · split
      · nw_norm; exact NW.head _ (by decide) (by decide) (by decide)
      · nw_norm; exact NW.head _ (by decide) (by decide) (by decide)
  | .bool b, _ => by
    cases b
    · nw_norm; exact NW.head _ (by decide) (by decide) (by decide)
    · nw_norm; exact NW.head _ (by decide) (by decide) (by decide)
  | .null, _ => by nw_norm; exact NW.head _ (by decide) (by decide) (by decide)
  | .list items, _ => by nw_norm; exact NW.head _ (by decide) (by decide) (by decide)
  | .record es, _ => by nw_norm; exact NW.head _ (by decide) (by decide) (by decide)
  | .cond c t e, _ => by
    intro x _
    nw_norm
    simp [wordOperatorStart, List.isPrefixOf]
  | .doBlock ss r, _ => by nw_norm; exact NW.head _ (by decide) (by decide) (by decide)
  | .output e, _ => by nw_norm; exact NW.head _ (by decide) (by decide) (by decide)
  | .un op e, _ => by
    cases op
    · simp only [flat, unaryOpToSource]; nw_norm; exact NW.head _ (by decide) (by decide) (by decide)
    · simp only [flat, unaryOpToSource]; nw_norm; exact NW.head _ (by decide) (by decide) (by decide)
    · simp only [flat, unaryOpToSource]; nw_norm; exact NW.head _ (by decide) (by decide) (by decide)
  | .spread e, _ => by nw_norm; exact NW.head _ (by decide) (by decide) (by decide)

theorem nw_orSingle (w indent : Nat) (e : Expr) (multi : Unit → List Piece)
    (hs : hasNewline (fmtSingle e) = false → fmtSingle e = flat e) (hf : NW (flat e).toList)
    (h : NW (render (multi ())).toList) : NW (render (orSingle w indent e multi)).toList := by
  unfold orSingle
  simp only
  split
  · rename_i hc
    simp only [Bool.and_eq_true, Bool.not_eq_true', decide_eq_true_eq] at hc
    rw [render_single, hs hc.1]
    exact hf
  · exact h

theorem nw_parenP (b : Bool) {ps : List Piece} (h : NW (render ps).toList) :
    NW (render (parenP b ps)).toList := by
  cases b
  · simpa only [parenP, Bool.false_eq_true, if_false] using h
  · simp only [parenP, if_true, render_text, render_append, String.toList_append,
      String.reduceToList, List.cons_append, List.nil_append]
    exact NW.head _ (by decide) (by decide) (by decide)

/-- a spine child: parenthesised, or itself safe -/
theorem nw_child (b : Bool) {c : Expr} (w indent : Nat)
    (ih : headSafe c = true → NW (render (fmtImplP w indent c)).toList)
    (h : (b || headSafe c) = true) : NW (render (parenP b (fmtImplP w indent c))).toList := by
  cases b
  · exact nw_parenP false (ih (by simpa using h))
  · simp only [parenP, if_true, render_text, render_append, String.toList_append,
      String.reduceToList, List.cons_append, List.nil_append]
    exact NW.head _ (by decide) (by decide) (by decide)

/-- … and so is every layout of it -/
theorem nw_impl : ∀ (e : Expr) (w indent : Nat), lamOk e = true → headSafe e = true →
    NW (render (fmtImplP w indent e)).toList
  | .lambda args body, w, indent, _, h => by
    simp only [headSafe] at h
    have ha := nw_argsPart args h
    simp only [fmtImplP]
    unfold lambdaLayout
    simp only
    split
    · hm_norm
      exact NW.app ha (by simp) (by rfl)
    · split
      · hm_norm
        exact NW.app ha (by simp) (by rfl)
      · split
        · hm_norm
          exact NW.app ha (by simp) (by rfl)
        · hm_norm
          exact NW.app ha (by simp) (by rfl)
  | .doBlock ss r, w, indent, _, _ => by
    simp only [fmtImplP]
    hm_norm
    exact NW.head _ (by decide) (by decide) (by decide)
  | .output e, w, indent, hl, h => by
    simp only [fmtImplP]
    refine nw_orSingle _ _ _ _ (single_flat _ hl) (nw_flat _ h) ?_
    hm_norm
    exact NW.head _ (by decide) (by decide) (by decide)
  | .assign n v, w, indent, hl, h => by
    simp only [fmtImplP]
    refine nw_orSingle _ _ _ _ (single_flat _ hl) (nw_flat _ h) ?_
    simp only [headSafe] at h
    hm_norm
    exact NW.app (NW.name h) (by simp) (by rfl)
  | .list items, w, indent, hl, h => by
    simp only [fmtImplP]
    refine nw_orSingle _ _ _ _ (single_flat _ hl) (nw_flat _ h) ?_
    split <;> (hm_norm; exact NW.head _ (by decide) (by decide) (by decide))
  | .record es, w, indent, hl, h => by
    simp only [fmtImplP]
    refine nw_orSingle _ _ _ _ (single_flat _ hl) (nw_flat _ h) ?_
    split <;> (hm_norm; exact NW.head _ (by decide) (by decide) (by decide))
  | .cond c t e, w, indent, hl, h => by
    simp only [fmtImplP]
    refine nw_orSingle _ _ _ _ (single_flat _ hl) (nw_flat _ h) ?_
    unfold condLayout
    simp only
    split <;> (hm_norm; intro x _; simp [wordOperatorStart, List.isPrefixOf])
  | .call f args, w, indent, hl, h => by
    have hl' := hl
    simp only [lamOk, Bool.and_eq_true] at hl'
    have h' := h
    simp only [headSafe] at h'
    have ih := nw_child (needsParens f .postfix_) w indent (nw_impl f w indent hl'.1) h'
    simp only [fmtImplP]
    refine nw_orSingle _ _ _ _ (single_flat _ hl) (nw_flat _ h) ?_
    split
    · hm_norm
      exact NW.app ih (by simp) (by rfl)
    · hm_norm
      exact NW.app ih (by simp) (by rfl)
  | .bin op l r, w, indent, hl, h => by
    have hl' := hl
    simp only [lamOk, Bool.and_eq_true] at hl'
    have h' := h
    simp only [headSafe] at h'
    have ih := nw_child (needsParens l (.binLeft op)) w indent
      (nw_impl l w indent (lamOk_of_noBare l hl'.1)) h'
    simp only [fmtImplP]
    refine nw_orSingle _ _ _ _ (single_flat _ hl) (nw_flat _ h) ?_
    unfold binLayout
    simp only
    split
    · split
      · hm_norm
        exact NW.app ih (by simp) (by rfl)
      · hm_norm
        exact NW.app ih (by simp) (by rfl)
    · hm_norm
      exact NW.app ih (by simp) (by rfl)
  | .un op e, w, indent, hl, h => by
    simp only [fmtImplP]
    refine nw_orSingle _ _ _ _ (single_flat _ hl) (nw_flat _ h) ?_
    cases op
    · simp only [unaryOpToSource]; hm_norm; exact NW.head _ (by decide) (by decide) (by decide)
    · simp only [unaryOpToSource]; hm_norm; exact NW.head _ (by decide) (by decide) (by decide)
    · simp only [unaryOpToSource]; hm_norm; exact NW.head _ (by decide) (by decide) (by decide)
  | .fact e, w, indent, hl, h => by
    have hl' := hl
    simp only [lamOk] at hl'
    have h' := h
    simp only [headSafe] at h'
    have ih := nw_child (needsParens e .postfix_) w indent
      (nw_impl e w indent (lamOk_of_noBare e hl')) h'
    simp only [fmtImplP]
    refine nw_orSingle _ _ _ _ (single_flat _ hl) (nw_flat _ h) ?_
    hm_norm
    exact NW.app ih (by simp) (by rfl)
  | .access e i, w, indent, hl, h => by
    have hl' := hl
    simp only [lamOk, Bool.and_eq_true] at hl'
    have h' := h
    simp only [headSafe] at h'
    have ih := nw_child (needsParens e .postfix_) w indent
      (nw_impl e w indent (lamOk_of_noBare e hl'.1)) h'
    simp only [fmtImplP]
    refine nw_orSingle _ _ _ _ (single_flat _ hl) (nw_flat _ h) ?_
    hm_norm
    exact NW.app ih (by simp) (by rfl)
  | .dot e f, w, indent, hl, h => by
    have hl' := hl
    simp only [lamOk] at hl'
    have h' := h
    simp only [headSafe] at h'
    have ih := nw_child (needsParens e .postfix_) w indent
      (nw_impl e w indent (lamOk_of_noBare e hl')) h'
    simp only [fmtImplP]
    refine nw_orSingle _ _ _ _ (single_flat _ hl) (nw_flat _ h) ?_
    hm_norm
    exact NW.app ih (by simp) (by rfl)
  | .spread e, w, indent, hl, h => by
    simp only [fmtImplP]
    refine nw_orSingle _ _ _ _ (single_flat _ hl) (nw_flat _ h) ?_
    hm_norm
    exact NW.head _ (by decide) (by decide) (by decide)
  | .num x, w, indent, _, h => by
    simp only [fmtImplP]
    rw [leaf_flat _ (fun _ => by simp only [fmtSingle, containsComments, Bool.false_eq_true, if_false])
      (by simp only [containsComments]) (by simp only [exprToSource, exprSrc, flat])]
    exact nw_flat _ h
  | .str s, w, indent, _, h => by
    simp only [fmtImplP]
    rw [leaf_flat _ (fun _ => by simp only [fmtSingle, containsComments, Bool.false_eq_true, if_false])
      (by simp only [containsComments]) (by simp only [exprToSource, exprSrc, flat])]
    exact nw_flat _ h
  | .bool b, w, indent, _, h => by
    simp only [fmtImplP]
    rw [leaf_flat _ (fun _ => by simp only [fmtSingle, containsComments, Bool.false_eq_true, if_false])
      (by simp only [containsComments]) (by simp only [exprToSource, exprSrc, flat])]
    exact nw_flat _ h
  | .null, w, indent, _, h => by
    simp only [fmtImplP]
    rw [leaf_flat _ (fun _ => by simp only [fmtSingle, containsComments, Bool.false_eq_true, if_false])
      (by simp only [containsComments]) (by simp only [exprToSource, exprSrc, flat])]
    exact nw_flat _ h
  | .ident n, w, indent, _, h => by
    simp only [fmtImplP]
    rw [leaf_flat _ (fun _ => by simp only [fmtSingle, containsComments, Bool.false_eq_true, if_false])
      (by simp only [containsComments]) (by simp only [exprToSource, exprSrc, lookupAL, flat])]
    exact nw_flat _ h
  | .inref f, w, indent, _, h => by
    simp only [fmtImplP]
    rw [leaf_flat _ (fun _ => by simp only [fmtSingle, containsComments, Bool.false_eq_true, if_false])
      (by simp only [containsComments]) (by simp only [exprToSource, exprSrc, flat])]
    exact nw_flat _ h
  | .builtin n, w, indent, _, h => by
    simp only [fmtImplP]
    rw [leaf_flat _ (fun _ => by simp only [fmtSingle, containsComments, Bool.false_eq_true, if_false])
      (by simp only [containsComments]) (by simp only [exprToSource, exprSrc, flat])]
    exact nw_flat _ h

theorem NW.wos {R : List Char} (h : NW R) : wordOperatorStart R = false := by
  have := h [] rfl
  rwa [List.append_nil] at this

theorem eqv_lead (k : Nat) : ∀ cs : List String, Eqv (rt (leadP (makeIndent k) cs)) []
  | [] => Eqv.nil
  | c :: cs => by
    have ih := eqv_lead k cs
    simp only [leadP]
    rt_norm
    eqv_auto

theorem eqv_trail : ∀ t : Option String, Eqv (rt (trailP t)) []
  | none => Eqv.nil
  | some t => by
    simp only [trailP]
    rt_norm
    eqv_auto

/-- `format_lambda`, all four branches -/
theorem eqv_lambdaLayout (w indent : Nat) (args : List LArg) (body : Expr) (b : List Piece)
    (bIn : Unit → List Piece) (fb : String) (hA : Bal (lambdaArgsPart args).toList)
    (hb : Eqv (rt b) fb.toList) (hbIn : Eqv (rt (bIn ())) fb.toList) :
    Eqv (rt (lambdaLayout w indent args body b bIn))
      (lambdaArgsPart args ++ " => " ++ parenIf (lambdaBodyNeedsParens body) fb).toList := by
  unfold lambdaLayout
  simp only
  cases hp : lambdaBodyNeedsParens body
  · simp only [Bool.false_eq_true, if_false, parenIf]
    split
    · rt_norm; eqv_auto
    · split
      · rt_norm; eqv_auto
      · rt_norm; eqv_auto
  · simp only [if_true, parenIf]
    rt_norm; eqv_auto

theorem eqv_elseLayout (indent : Nat) (chain : Option (List Piece)) (plain : Unit → List Piece)
    (fe : String) (hchain : ∀ ps, chain = some ps → Eqv (rt ps) fe.toList)
    (hplain : Eqv (rt (plain ())) fe.toList) :
    Eqv (rt (elseLayout indent chain plain)) ("else " ++ fe).toList := by
  unfold elseLayout
  split
  · rename_i ps
    have := hchain ps rfl
    rt_norm; eqv_auto
  · rt_norm; eqv_auto

/-- `format_conditional_multiline`, both branches -/
theorem eqv_condLayout (w indent : Nat) (cP : List Piece) (cIn : Unit → List Piece)
    (tIn elseP : List Piece) (fc ft fe : String) (hc : Eqv (rt cP) fc.toList)
    (hcIn : Eqv (rt (cIn ())) fc.toList) (ht : Eqv (rt tIn) ft.toList)
    (he : Eqv (rt elseP) ("else " ++ fe).toList) :
    Eqv (rt (condLayout w indent cP cIn tIn elseP))
      ("if " ++ fc ++ " then " ++ ft ++ " else " ++ fe).toList := by
  have he' : Eqv (rt elseP) ('e' :: 'l' :: 's' :: 'e' :: ' ' :: fe.toList) := by
    simpa only [String.toList_append, String.reduceToList, List.cons_append, List.nil_append] using he
  unfold condLayout
  simp only
  split
  · rt_norm; eqv_auto
  · rt_norm; eqv_auto

/-- `format_binary_op_multiline`, all three branches -/
theorem eqv_binLayout (w indent : Nat) (op : BinOp) (l r : Expr) (lP : List Piece)
    (rSame rIn : Unit → List Piece) (fl fr : String) (hl : Eqv (rt lP) fl.toList)
    (hrS : Eqv (rt (rSame ())) fr.toList) (hrI : Eqv (rt (rIn ())) fr.toList) :
    Eqv (rt (binLayout w indent op l r lP rSame rIn))
      (parenIf (needsParens l (.binLeft op)) fl ++ " " ++ opSpelling op ++ " " ++
        parenIf (needsParens r (.binRight op)) fr).toList := by
  have hL := eqv_paren (needsParens l (.binLeft op)) hl
  have hS := eqv_paren (needsParens r (.binRight op)) hrS
  have hI := eqv_paren (needsParens r (.binRight op)) hrI
  have hop : Bal (opSpelling op).toList := balS_opSpelling op
  unfold binLayout
  simp only [fmtSpelling_eq_opSpelling]
  split
  · split
    · rt_norm; eqv_auto
    · rt_norm; eqv_auto
  · rt_norm; eqv_auto

/-! ### bracketed sequences: the trailing comma -/

/-- every element followed by a comma (the multi-line layouts of lists, records, arguments) -/
def trailAll : List String → String
  | [] => ""
  | s :: r => s ++ "," ++ trailAll r

theorem intercalate_cons_cons (sep x y : String) (r : List String) :
    (sep.intercalate (x :: y :: r)).toList = x.toList ++ (sep.toList ++ (sep.intercalate (y :: r)).toList) := by
  simp only [String.toList_intercalate, List.map_cons, List.intercalate, List.intersperse_cons_cons,
    List.flatten_cons]

theorem intercalate_single (sep x : String) : (sep.intercalate [x]).toList = x.toList := by
  simp

theorem intercalate_nil (sep : String) : (sep.intercalate []).toList = [] := by
  simp

theorem trail_close : ∀ (Fs : List String), Fs ≠ [] → (∀ F ∈ Fs, Bal F.toList) →
    ∀ (k : Nat) (c : Char), isClose c = true →
    Eqv ((trailAll Fs).toList ++ '\n' :: (List.replicate k ' ' ++ [c]))
      ((", ".intercalate Fs).toList ++ [c])
  | [], h, _, _, _, _ => absurd rfl h
  | [F], _, hB, k, c, hc => by
    have hF := hB F (List.mem_singleton.mpr rfl)
    rw [intercalate_single]
    simp only [trailAll]
    rt_norm
    exact Eqv.app (Eqv.refl hF) (Eqv.trailing k hc Eqv.nil)
  | F :: G :: r, _, hB, k, c, hc => by
    have hF := hB F List.mem_cons_self
    have ih := trail_close (G :: r) (by simp) (fun X hX => hB X (List.mem_cons_of_mem _ hX)) k c hc
    rw [intercalate_cons_cons]
    simp only [trailAll] at ih ⊢
    rt_norm at ih
    rt_norm
    eqv_auto

/-- `o` items `c` over several lines against `o` items `c` on one line -/
theorem eqv_bracketed (o c : Char) (ho : isQuote o = false) (hc : isClose c = true)
    (R : List Char) (Fs : List String) (k : Nat) (hne : Fs ≠ [])
    (hR : Eqv R (trailAll Fs).toList) (hB : ∀ F ∈ Fs, Bal F.toList) :
    Eqv (o :: (R ++ '\n' :: (List.replicate k ' ' ++ [c])))
      (o :: ((", ".intercalate Fs).toList ++ [c])) := by
  refine Eqv.cons_same ho ?_
  refine Eqv.trans (Eqv.app hR (Eqv.refl ?_)) (trail_close Fs hne hB k c hc)
  have hcq : isQuote c = false := by
    simp only [isClose, Bool.or_eq_true, beq_iff_eq] at hc
    rcases hc with (h | h) | h <;> subst h <;> decide
  exact (Eqv.skipL (c := '\n') (by decide)
    (Eqv.skipIndentL k (Eqv.cons_same hcq Eqv.nil))).balL

theorem flatItems_ne : ∀ items : List Item, items.isEmpty = false → flatItems items ≠ []
  | [], h => by simp at h
  | i :: is, _ => by simp [flatItems]

theorem flatEntries_ne : ∀ es : List Entry, es.isEmpty = false → flatEntries es ≠ []
  | [], h => by simp at h
  | e :: es, _ => by simp [flatEntries]

theorem flatExprs_ne : ∀ es : List Expr, es.isEmpty = false → flatExprs es ≠ []
  | [], h => by simp at h
  | e :: es, _ => by simp [flatExprs]

/-- an item / entry on its own line with its comments and its trailing comma -/
theorem eqv_commented (k : Nat) (lead : List String) (tr : Option String) (core : List Piece)
    (F : List Char) (h : Eqv (rt core) F) :
    Eqv (rt (leadP (makeIndent k) lead ++ .text ("\n" ++ makeIndent k) :: (core ++ .text "," :: trailP tr)))
      (F ++ [',']) := by
  have h1 := eqv_lead k lead
  have h2 := eqv_trail tr
  rt_norm
  eqv_auto

/-- what is asked of the names below a node -/
abbrev notLambda (e : Expr) : Prop := ∀ args body, e ≠ .lambda args body

theorem eqv_leaf (w indent : Nat) (e : Expr) (hl : lamOk e = true) (hf : exprToSource e = flat e)
    (hB : Bal (flat e).toList) : Eqv (rt (leafP w indent e)) (flat e).toList := by
  unfold leafP
  refine eqv_orSingle _ _ _ _ _ (single_flat _ hl) ?_
  rt_norm
  rw [hf]
  exact Eqv.refl hB

/-! ### THE MAIN INDUCTION -/

mutual
/-- for every node: `format_multiline` (when `format_expr_impl` can reach it: not a lambda) and
    `format_expr_impl` print the single-line form up to layout -/
theorem sq_both : ∀ (e : Expr) (w indent : Nat), namesOk e = true → lamOk e = true →
    (notLambda e → Eqv (rt (fmtMultiP w indent e)) (flat e).toList) ∧
      Eqv (rt (fmtImplP w indent e)) (flat e).toList
  | .lambda args body, w, indent, hn, hl => by
    simp only [namesOk, Bool.and_eq_true] at hn
    simp only [lamOk] at hl
    refine ⟨fun h => absurd rfl (h args body), ?_⟩
    simp only [fmtImplP, flat]
    exact eqv_lambdaLayout _ _ _ _ _ _ _ (balS_lambdaArgsPart args hn.1)
      (sq_both body w indent hn.2 hl).2 (sq_both body w _ hn.2 hl).2
  | .doBlock ss r, w, indent, hn, hl => by
    simp only [namesOk, Bool.and_eq_true] at hn
    simp only [lamOk, Bool.and_eq_true] at hl
    have hs := sq_stmts ss w (indent + INDENT_SIZE) hn.1 hl.1
    have hr := sq_ret r w (indent + INDENT_SIZE) indent hn.2 hl.2
    have hmulti : Eqv (rt (fmtMultiP w indent (.doBlock ss r))) (flat (.doBlock ss r)).toList := by
      simp only [fmtMultiP, flat]
      rt_norm
      eqv_auto
    refine ⟨fun _ => hmulti, ?_⟩
    simp only [fmtImplP]
    simpa only [fmtMultiP] using hmulti
  | .output e, w, indent, hn, hl => by
    have hl' := hl
    simp only [lamOk] at hl'
    simp only [namesOk] at hn
    have ih := (sq_both e w indent hn hl').2
    have hmulti : Eqv (rt (fmtMultiP w indent (.output e))) (flat (.output e)).toList := by
      simp only [fmtMultiP, flat]
      rt_norm
      eqv_auto
    refine ⟨fun _ => hmulti, ?_⟩
    simp only [fmtImplP]
    refine eqv_orSingle _ _ _ _ _ (single_flat _ hl) ?_
    simpa only [fmtMultiP] using hmulti
  | .assign n v, w, indent, hn, hl => by
    have hl' := hl
    simp only [lamOk] at hl'
    simp only [namesOk, Bool.and_eq_true] at hn
    have ih := (sq_both v w indent hn.2 hl').2
    have hN : Bal n.toList := BalS.of_nameOk hn.1
    have hmulti : Eqv (rt (fmtMultiP w indent (.assign n v))) (flat (.assign n v)).toList := by
      simp only [fmtMultiP, flat]
      rt_norm
      eqv_auto
    refine ⟨fun _ => hmulti, ?_⟩
    simp only [fmtImplP]
    refine eqv_orSingle _ _ _ _ _ (single_flat _ hl) ?_
    simpa only [fmtMultiP] using hmulti
  | .list items, w, indent, hn, hl => by
    have hl' := hl
    simp only [lamOk] at hl'
    simp only [namesOk] at hn
    obtain ⟨hR, hB⟩ := sq_items items w (indent + INDENT_SIZE) hn hl'
    have hmulti : Eqv (rt (fmtMultiP w indent (.list items))) (flat (.list items)).toList := by
      simp only [fmtMultiP, flat]
      split
      · rename_i h
        rw [List.isEmpty_iff] at h
        subst h
        rw [String.toList_append, String.toList_append, flatItems, intercalate_nil]
        rt_norm
        eqv_auto
      · rename_i h
        rt_norm
        exact eqv_bracketed '[' ']' (by decide) (by decide) _ _ _
          (flatItems_ne items (by simpa using h)) hR hB
    refine ⟨fun _ => hmulti, ?_⟩
    simp only [fmtImplP]
    refine eqv_orSingle _ _ _ _ _ (single_flat _ hl) ?_
    simpa only [fmtMultiP] using hmulti
  | .record es, w, indent, hn, hl => by
    have hl' := hl
    simp only [lamOk] at hl'
    simp only [namesOk] at hn
    obtain ⟨hR, hB⟩ := sq_entries es w (indent + INDENT_SIZE) hn hl'
    have hmulti : Eqv (rt (fmtMultiP w indent (.record es))) (flat (.record es)).toList := by
      simp only [fmtMultiP, flat]
      split
      · rename_i h
        rw [List.isEmpty_iff] at h
        subst h
        rw [String.toList_append, String.toList_append, flatEntries, intercalate_nil]
        rt_norm
        eqv_auto
      · rename_i h
        rt_norm
        exact eqv_bracketed '{' '}' (by decide) (by decide) _ _ _
          (flatEntries_ne es (by simpa using h)) hR hB
    refine ⟨fun _ => hmulti, ?_⟩
    simp only [fmtImplP]
    refine eqv_orSingle _ _ _ _ _ (single_flat _ hl) ?_
    simpa only [fmtMultiP] using hmulti
  | .cond c t e, w, indent, hn, hl => by
    have hl' := hl
    simp only [lamOk, Bool.and_eq_true] at hl'
    simp only [namesOk, Bool.and_eq_true] at hn
    have lc := lamOk_of_noBare c hl'.1
    have lt := lamOk_of_noBare t hl'.2.1
    have le := lamOk_of_noBare e hl'.2.2
    have hmulti : Eqv (rt (fmtMultiP w indent (.cond c t e))) (flat (.cond c t e)).toList := by
      simp only [fmtMultiP, fmtCondP, flat]
      exact eqv_condLayout _ _ _ _ _ _ _ _ _ (sq_both c w _ hn.1 lc).2 (sq_both c w _ hn.1 lc).2
        (sq_both t w _ hn.2.1 lt).2
        (eqv_elseLayout _ _ _ _ (fun ps h => sq_chain e w indent ps h hn.2.2 le)
          (sq_both e w _ hn.2.2 le).2)
    refine ⟨fun _ => hmulti, ?_⟩
    simp only [fmtImplP]
    refine eqv_orSingle _ _ _ _ _ (single_flat _ hl) ?_
    simpa only [fmtMultiP, fmtCondP] using hmulti
  | .call f args, w, indent, hn, hl => by
    have hl' := hl
    simp only [lamOk, Bool.and_eq_true] at hl'
    simp only [namesOk, Bool.and_eq_true] at hn
    have hf := eqv_paren (needsParens f .postfix_) (sq_both f w indent hn.1 hl'.1).2
    obtain ⟨hR, hB⟩ := sq_args args w (indent + INDENT_SIZE) hn.2 hl'.2
    have hmulti : Eqv (rt (fmtMultiP w indent (.call f args))) (flat (.call f args)).toList := by
      simp only [fmtMultiP, flat]
      split
      · rename_i h
        rw [List.isEmpty_iff] at h
        subst h
        rw [String.toList_append, String.toList_append, String.toList_append, flatExprs,
          intercalate_nil]
        rt_norm
        eqv_auto
      · rename_i h
        rt_norm
        exact Eqv.app hf (eqv_bracketed '(' ')' (by decide) (by decide) _ _ _
          (flatExprs_ne args (by simpa using h)) hR hB)
    refine ⟨fun _ => hmulti, ?_⟩
    simp only [fmtImplP]
    refine eqv_orSingle _ _ _ _ _ (single_flat _ hl) ?_
    simpa only [fmtMultiP] using hmulti
  | .bin op l r, w, indent, hn, hl => by
    have hl' := hl
    simp only [lamOk, Bool.and_eq_true] at hl'
    simp only [namesOk, Bool.and_eq_true] at hn
    have ll := lamOk_of_noBare l hl'.1
    have lr := lamOk_of_noBare r hl'.2
    have hmulti : Eqv (rt (fmtMultiP w indent (.bin op l r))) (flat (.bin op l r)).toList := by
      simp only [fmtMultiP, fmtBinP, flat]
      exact eqv_binLayout _ _ _ _ _ _ _ _ _ _ (sq_both l w _ hn.1 ll).2 (sq_both r w _ hn.2 lr).2
        (sq_both r w _ hn.2 lr).2
    refine ⟨fun _ => hmulti, ?_⟩
    simp only [fmtImplP]
    refine eqv_orSingle _ _ _ _ _ (single_flat _ hl) ?_
    simpa only [fmtMultiP, fmtBinP] using hmulti
  | .un op e, w, indent, hn, hl => by
    have hl' := hl
    simp only [lamOk] at hl'
    simp only [namesOk] at hn
    have ih := eqv_paren (needsParens e .prefix_) (sq_both e w indent hn (lamOk_of_noBare e hl')).2
    have hU : Bal (unaryOpToSource op).toList := balS_unaryOp op
    have hmulti : Eqv (rt (fmtMultiP w indent (.un op e))) (flat (.un op e)).toList := by
      simp only [fmtMultiP, flat]
      rt_norm
      eqv_auto
    refine ⟨fun _ => hmulti, ?_⟩
    simp only [fmtImplP]
    refine eqv_orSingle _ _ _ _ _ (single_flat _ hl) ?_
    simpa only [fmtMultiP] using hmulti
  | .fact e, w, indent, hn, hl => by
    have hl' := hl
    simp only [lamOk] at hl'
    simp only [namesOk] at hn
    have ih := eqv_paren (needsParens e .postfix_) (sq_both e w indent hn (lamOk_of_noBare e hl')).2
    have hmulti : Eqv (rt (fmtMultiP w indent (.fact e))) (flat (.fact e)).toList := by
      simp only [fmtMultiP, flat]
      rt_norm
      eqv_auto
    refine ⟨fun _ => hmulti, ?_⟩
    simp only [fmtImplP]
    refine eqv_orSingle _ _ _ _ _ (single_flat _ hl) ?_
    simpa only [fmtMultiP] using hmulti
  | .access e i, w, indent, hn, hl => by
    have hl' := hl
    simp only [lamOk, Bool.and_eq_true] at hl'
    simp only [namesOk, Bool.and_eq_true] at hn
    have ih := eqv_paren (needsParens e .postfix_)
      (sq_both e w indent hn.1 (lamOk_of_noBare e hl'.1)).2
    have ii := (sq_both i w indent hn.2 (lamOk_of_noBare i hl'.2)).2
    have hmulti : Eqv (rt (fmtMultiP w indent (.access e i))) (flat (.access e i)).toList := by
      simp only [fmtMultiP, flat]
      rt_norm
      eqv_auto
    refine ⟨fun _ => hmulti, ?_⟩
    simp only [fmtImplP]
    refine eqv_orSingle _ _ _ _ _ (single_flat _ hl) ?_
    simpa only [fmtMultiP] using hmulti
  | .dot e f, w, indent, hn, hl => by
    have hl' := hl
    simp only [lamOk] at hl'
    simp only [namesOk, Bool.and_eq_true] at hn
    have ih := eqv_paren (needsParens e .postfix_)
      (sq_both e w indent hn.1 (lamOk_of_noBare e hl')).2
    have hF : Bal f.toList := BalS.of_nameOk hn.2
    have hmulti : Eqv (rt (fmtMultiP w indent (.dot e f))) (flat (.dot e f)).toList := by
      simp only [fmtMultiP, flat]
      rt_norm
      eqv_auto
    refine ⟨fun _ => hmulti, ?_⟩
    simp only [fmtImplP]
    refine eqv_orSingle _ _ _ _ _ (single_flat _ hl) ?_
    simpa only [fmtMultiP] using hmulti
  | .spread e, w, indent, hn, hl => by
    have hl' := hl
    simp only [lamOk] at hl'
    simp only [namesOk] at hn
    have ih := (sq_both e w indent hn (lamOk_of_noBare e hl')).2
    have hmulti : Eqv (rt (fmtMultiP w indent (.spread e))) (flat (.spread e)).toList := by
      simp only [fmtMultiP, flat]
      rt_norm
      eqv_auto
    refine ⟨fun _ => hmulti, ?_⟩
    simp only [fmtImplP]
    refine eqv_orSingle _ _ _ _ _ (single_flat _ hl) ?_
    simpa only [fmtMultiP] using hmulti
  | .num x, w, indent, _, hl => by
    have hf : exprToSource (.num x) = flat (.num x) := by simp only [exprToSource, exprSrc, flat]
    have hB : Bal (flat (.num x)).toList := by simp only [flat]; exact balS_numberToSource x
    refine ⟨fun _ => ?_, ?_⟩
    · simp only [fmtMultiP]; rt_norm; rw [hf]; exact Eqv.refl hB
    · simp only [fmtImplP]; exact eqv_leaf _ _ _ hl hf hB
  | .str s, w, indent, _, hl => by
    have hf : exprToSource (.str s) = flat (.str s) := by simp only [exprToSource, exprSrc, flat]
    have hB : Bal (flat (.str s)).toList := by simp only [flat]; exact balS_stringToSource s
    refine ⟨fun _ => ?_, ?_⟩
    · simp only [fmtMultiP]; rt_norm; rw [hf]; exact Eqv.refl hB
    · simp only [fmtImplP]; exact eqv_leaf _ _ _ hl hf hB
  | .bool b, w, indent, _, hl => by
    have hf : exprToSource (.bool b) = flat (.bool b) := by simp only [exprToSource, exprSrc, flat]
    have hB : Bal (flat (.bool b)).toList := by
      simp only [flat]; cases b <;> exact BalS.of_noQuote _ (by decide)
    refine ⟨fun _ => ?_, ?_⟩
    · simp only [fmtMultiP]; rt_norm; rw [hf]; exact Eqv.refl hB
    · simp only [fmtImplP]; exact eqv_leaf _ _ _ hl hf hB
  | .null, w, indent, _, hl => by
    have hf : exprToSource .null = flat .null := by simp only [exprToSource, exprSrc, flat]
    have hB : Bal (flat .null).toList := by simp only [flat]; exact BalS.of_noQuote _ (by decide)
    refine ⟨fun _ => ?_, ?_⟩
    · simp only [fmtMultiP]; rt_norm; rw [hf]; exact Eqv.refl hB
    · simp only [fmtImplP]; exact eqv_leaf _ _ _ hl hf hB
  | .ident n, w, indent, hn, hl => by
    simp only [namesOk] at hn
    have hf : exprToSource (.ident n) = flat (.ident n) := by
      simp only [exprToSource, exprSrc, lookupAL, flat]
    have hB : Bal (flat (.ident n)).toList := by simp only [flat]; exact BalS.of_nameOk hn
    refine ⟨fun _ => ?_, ?_⟩
    · simp only [fmtMultiP]; rt_norm; rw [hf]; exact Eqv.refl hB
    · simp only [fmtImplP]; exact eqv_leaf _ _ _ hl hf hB
  | .inref f, w, indent, hn, hl => by
    simp only [namesOk] at hn
    have hf : exprToSource (.inref f) = flat (.inref f) := by simp only [exprToSource, exprSrc, flat]
    have hB : Bal (flat (.inref f)).toList := by
      simp only [flat]; exact BalS.app (BalS.of_noQuote "#" (by decide)) (BalS.of_nameOk hn)
    refine ⟨fun _ => ?_, ?_⟩
    · simp only [fmtMultiP]; rt_norm; rw [hf]; exact Eqv.refl hB
    · simp only [fmtImplP]; exact eqv_leaf _ _ _ hl hf hB
  | .builtin n, w, indent, hn, hl => by
    simp only [namesOk] at hn
    have hf : exprToSource (.builtin n) = flat (.builtin n) := by
      simp only [exprToSource, exprSrc, flat]
    have hB : Bal (flat (.builtin n)).toList := by simp only [flat]; exact BalS.of_nameOk hn
    refine ⟨fun _ => ?_, ?_⟩
    · simp only [fmtMultiP]; rt_norm; rw [hf]; exact Eqv.refl hB
    · simp only [fmtImplP]; exact eqv_leaf _ _ _ hl hf hB
/-- the `else if` chain -/
theorem sq_chain : ∀ (e : Expr) (w indent : Nat) (ps : List Piece),
    fmtChainP w indent e = some ps → namesOk e = true → lamOk e = true → Eqv (rt ps) (flat e).toList
  | .cond c t e, w, indent, ps, h, hn, hl => by
    simp only [fmtChainP, Option.some.injEq] at h
    subst h
    simp only [lamOk, Bool.and_eq_true] at hl
    simp only [namesOk, Bool.and_eq_true] at hn
    have lc := lamOk_of_noBare c hl.1
    have lt := lamOk_of_noBare t hl.2.1
    have le := lamOk_of_noBare e hl.2.2
    simp only [flat]
    exact eqv_condLayout _ _ _ _ _ _ _ _ _ (sq_both c w _ hn.1 lc).2 (sq_both c w _ hn.1 lc).2
      (sq_both t w _ hn.2.1 lt).2
      (eqv_elseLayout _ _ _ _ (fun ps h => sq_chain e w indent ps h hn.2.2 le)
        (sq_both e w _ hn.2.2 le).2)
  | .num _, _, _, _, h, _, _ | .str _, _, _, _, h, _, _ | .bool _, _, _, _, h, _, _
  | .null, _, _, _, h, _, _ | .ident _, _, _, _, h, _, _ | .inref _, _, _, _, h, _, _
  | .builtin _, _, _, _, h, _, _ | .list _, _, _, _, h, _, _ | .record _, _, _, _, h, _, _
  | .lambda _ _, _, _, _, h, _, _ | .doBlock _ _, _, _, _, h, _, _ | .assign _ _, _, _, _, h, _, _
  | .output _, _, _, _, h, _, _ | .call _ _, _, _, _, h, _, _ | .access _ _, _, _, _, h, _, _
  | .dot _ _, _, _, _, h, _, _ | .bin _ _ _, _, _, _, h, _, _ | .un _ _, _, _, _, h, _, _
  | .fact _, _, _, _, h, _, _ | .spread _, _, _, _, h, _, _ => by simp [fmtChainP] at h
theorem sq_item : ∀ (i : Item) (w inner : Nat), itemNamesOk i = true → itemLamOk i = true →
    Eqv (rt (fmtItemP w inner i)) ((flatItem i).toList ++ [',']) ∧ Bal (flatItem i).toList
  | .mk lead e tr, w, inner, hn, hl => by
    simp only [itemNamesOk] at hn
    simp only [itemLamOk] at hl
    have ih := (sq_both e w inner hn hl).2
    simp only [fmtItemP, flatItem]
    exact ⟨eqv_commented inner lead tr _ _ ih, ih.balR⟩
theorem sq_items : ∀ (is : List Item) (w inner : Nat), itemsNamesOk is = true →
    itemsLamOk is = true →
    Eqv (rt (fmtItemsP w inner is)) (trailAll (flatItems is)).toList ∧
      ∀ F ∈ flatItems is, Bal F.toList
  | [], _, _, _, _ => ⟨by simp only [fmtItemsP, flatItems, trailAll]; exact Eqv.nil,
      fun F h => by simp [flatItems] at h⟩
  | i :: rest, w, inner, hn, hl => by
    simp only [itemsNamesOk, Bool.and_eq_true] at hn
    simp only [itemsLamOk, Bool.and_eq_true] at hl
    obtain ⟨hi, hBi⟩ := sq_item i w inner hn.1 hl.1
    obtain ⟨hr, hB⟩ := sq_items rest w inner hn.2 hl.2
    refine ⟨?_, ?_⟩
    · simp only [fmtItemsP, flatItems, trailAll]
      have := Eqv.app hi hr
      rt_norm
      simpa only [List.append_assoc, List.cons_append, List.nil_append] using this
    · intro F hF
      simp only [flatItems, List.mem_cons] at hF
      rcases hF with rfl | hF
      · exact hBi
      · exact hB F hF
theorem sq_entry : ∀ (en : Entry) (w inner : Nat), entryNamesOk en = true → entryLamOk en = true →
    Eqv (rt (fmtEntryP w inner en)) ((flatEntry en).toList ++ [',']) ∧ Bal (flatEntry en).toList
  | .mk lead (.static k) v tr, w, inner, hn, hl => by
    simp only [entryNamesOk, keyNamesOk] at hn
    simp only [entryLamOk, keyLamOk] at hl
    have ih := (sq_both v w inner hn hl).2
    have hK : Bal (formatRecordKey k).toList := balS_formatRecordKey k
    have hcore : Eqv (rt (fmtKeyedP w inner (.static k) (fmtImplP w inner v)))
        (flatEntry (.mk lead (.static k) v tr)).toList := by
      simp only [fmtKeyedP, flatEntry, flatKeyed]
      rt_norm
      eqv_auto
    simp only [fmtEntryP]
    exact ⟨eqv_commented inner lead tr _ _ hcore, hcore.balR⟩
  | .mk lead (.dyn ke) v tr, w, inner, hn, hl => by
    simp only [entryNamesOk, keyNamesOk, Bool.and_eq_true] at hn
    simp only [entryLamOk, keyLamOk, Bool.and_eq_true] at hl
    have ih := (sq_both v w inner hn.2 hl.2).2
    have ik := (sq_both ke w inner hn.1 hl.1).2
    have hcore : Eqv (rt (fmtKeyedP w inner (.dyn ke) (fmtImplP w inner v)))
        (flatEntry (.mk lead (.dyn ke) v tr)).toList := by
      simp only [fmtKeyedP, flatEntry, flatKeyed]
      rt_norm
      eqv_auto
    simp only [fmtEntryP]
    exact ⟨eqv_commented inner lead tr _ _ hcore, hcore.balR⟩
  | .mk lead (.short n) v tr, w, inner, hn, _ => by
    simp only [entryNamesOk, keyNamesOk] at hn
    have hN : Bal n.toList := BalS.of_nameOk hn
    have hcore : Eqv (rt (fmtKeyedP w inner (.short n) (fmtImplP w inner v)))
        (flatEntry (.mk lead (.short n) v tr)).toList := by
      simp only [fmtKeyedP, flatEntry, flatKeyed]
      rt_norm
      eqv_auto
    simp only [fmtEntryP]
    exact ⟨eqv_commented inner lead tr _ _ hcore, hcore.balR⟩
  | .mk lead (.spread e) v tr, w, inner, hn, hl => by
    simp only [entryNamesOk, keyNamesOk] at hn
    simp only [entryLamOk, keyLamOk] at hl
    have ih := (sq_both e w inner hn hl).2
    have hcore : Eqv (rt (fmtKeyedP w inner (.spread e) (fmtImplP w inner v)))
        (flatEntry (.mk lead (.spread e) v tr)).toList := by
      simp only [fmtKeyedP, flatEntry, flatKeyed]
      exact ih
    simp only [fmtEntryP]
    exact ⟨eqv_commented inner lead tr _ _ hcore, hcore.balR⟩
theorem sq_entries : ∀ (es : List Entry) (w inner : Nat), entriesNamesOk es = true →
    entriesLamOk es = true →
    Eqv (rt (fmtEntriesP w inner es)) (trailAll (flatEntries es)).toList ∧
      ∀ F ∈ flatEntries es, Bal F.toList
  | [], _, _, _, _ => ⟨by simp only [fmtEntriesP, flatEntries, trailAll]; exact Eqv.nil,
      fun F h => by simp [flatEntries] at h⟩
  | e :: rest, w, inner, hn, hl => by
    simp only [entriesNamesOk, Bool.and_eq_true] at hn
    simp only [entriesLamOk, Bool.and_eq_true] at hl
    obtain ⟨hi, hBi⟩ := sq_entry e w inner hn.1 hl.1
    obtain ⟨hr, hB⟩ := sq_entries rest w inner hn.2 hl.2
    refine ⟨?_, ?_⟩
    · simp only [fmtEntriesP, flatEntries, trailAll]
      have := Eqv.app hi hr
      rt_norm
      simpa only [List.append_assoc, List.cons_append, List.nil_append] using this
    · intro F hF
      simp only [flatEntries, List.mem_cons] at hF
      rcases hF with rfl | hF
      · exact hBi
      · exact hB F hF
theorem sq_args : ∀ (as : List Expr) (w inner : Nat), exprsNamesOk as = true →
    exprsLamOk as = true →
    Eqv (rt (fmtArgsP w inner as)) (trailAll (flatExprs as)).toList ∧
      ∀ F ∈ flatExprs as, Bal F.toList
  | [], _, _, _, _ => ⟨by simp only [fmtArgsP, flatExprs, trailAll]; exact Eqv.nil,
      fun F h => by simp [flatExprs] at h⟩
  | a :: rest, w, inner, hn, hl => by
    simp only [exprsNamesOk, Bool.and_eq_true] at hn
    simp only [exprsLamOk, Bool.and_eq_true] at hl
    have ia := (sq_both a w inner hn.1 hl.1).2
    obtain ⟨hr, hB⟩ := sq_args rest w inner hn.2 hl.2
    refine ⟨?_, ?_⟩
    · simp only [fmtArgsP, flatExprs, trailAll]
      rt_norm
      eqv_auto
    · intro F hF
      simp only [flatExprs, List.mem_cons] at hF
      rcases hF with rfl | hF
      · exact ia.balR
      · exact hB F hF
theorem sq_stmt : ∀ (i : Item) (w inner : Nat), itemNamesOk i = true → headSafe i.node = true →
    itemLamOk i = true → Eqv (rt (fmtStmtP w inner i)) (flatStmt i).toList
  | .mk lead e tr, w, inner, hn, hs, hl => by
    simp only [itemNamesOk] at hn
    simp only [itemLamOk] at hl
    simp only [Item.node] at hs
    have ih := (sq_both e w inner hn hl).2
    have hp := eqv_protect _ _ (hm_impl e w inner hl) (nw_impl e w inner hl hs).wos
      (nw_flat e hs).wos ih
    have h1 := eqv_lead inner lead
    have h2 := eqv_trail tr
    simp only [fmtStmtP, flatStmt]
    rt_norm
    refine Eqv.dropL h1 ?_
    refine Eqv.cons_same (by decide) ?_
    refine Eqv.skipR (by decide) (Eqv.skipR (by decide) ?_)
    refine Eqv.skipIndentL _ ?_
    exact Eqv.dropEndL hp h2
theorem sq_stmts : ∀ (is : List Item) (w inner : Nat), stmtsNamesOk is = true →
    itemsLamOk is = true → Eqv (rt (fmtStmtsP w inner is)) (flatStmts is).toList
  | [], _, _, _, _ => by simp only [fmtStmtsP, flatStmts]; exact Eqv.nil
  | (.mk lead e tr) :: rest, w, inner, hn, hl => by
    simp only [stmtsNamesOk, Bool.and_eq_true] at hn
    simp only [itemsLamOk, Bool.and_eq_true] at hl
    have hi := sq_stmt (.mk lead e tr) w inner (by simpa only [itemNamesOk] using hn.1.1)
      (by simpa only [Item.node] using hn.1.2) hl.1
    have hr := sq_stmts rest w inner hn.2 hl.2
    simp only [fmtStmtsP, flatStmts]
    rt_norm
    exact Eqv.app hi hr
/-- the `return` line and the closing brace at indentation `k` -/
theorem sq_ret : ∀ (i : Item) (w inner k : Nat), itemNamesOk i = true → itemLamOk i = true →
    Eqv (rt (fmtRetP w inner i) ++ '\n' :: (List.replicate k ' ' ++ ['}'])) (flatRet i).toList
  | .mk lead e tr, w, inner, k, hn, hl => by
    simp only [itemNamesOk] at hn
    simp only [itemLamOk] at hl
    have ih := (sq_both e w inner hn hl).2
    have h1 := eqv_lead inner lead
    simp only [fmtRetP, flatRet]
    rt_norm
    eqv_auto
end

theorem sq_impl (e : Expr) (w indent : Nat) (hn : namesOk e = true) (hl : lamOk e = true) :
    Eqv (rt (fmtImplP w indent e)) (flat e).toList := (sq_both e w indent hn hl).2

theorem sq_multi (e : Expr) (w indent : Nat) (hn : namesOk e = true) (hl : lamOk e = true)
    (h : notLambda e) : Eqv (rt (fmtMultiP w indent e)) (flat e).toList :=
  (sq_both e w indent hn hl).1 h

theorem sq_lambda (w indent : Nat) (args : List LArg) (body : Expr)
    (hn : namesOk (.lambda args body) = true) (hl : lamOk (.lambda args body) = true) :
    Eqv (rt (fmtLambdaP w indent args body)) (flat (.lambda args body)).toList := by
  have := sq_impl (.lambda args body) w indent hn hl
  rwa [fmtImplP_eq] at this

theorem sq_cond (w indent : Nat) (c t e : Expr) (hn : namesOk (.cond c t e) = true)
    (hl : lamOk (.cond c t e) = true) :
    Eqv (rt (fmtCondP w indent c t e)) (flat (.cond c t e)).toList :=
  sq_chain (.cond c t e) w indent _ (fmtChainP_cond w indent c t e) hn hl

theorem sq_bin (w indent : Nat) (op : BinOp) (l r : Expr) (hn : namesOk (.bin op l r) = true)
    (hl : lamOk (.bin op l r) = true) :
    Eqv (rt (fmtBinP w indent op l r)) (flat (.bin op l r)).toList := by
  have := sq_multi (.bin op l r) w indent hn hl (fun _ _ h => by cases h)
  simpa only [fmtMultiP] using this

/-! ### to `squash`, `formatExpr`, comment-free trees -/

theorem squash_of_eqv {ps : List Piece} {f : String} (h : Eqv (rt ps) f.toList) :
    squash (render (textOnly ps)) = squash f := EqvS.squash_eq h

/-- `format_expr`: the same `protect_statement_start` decision as on the single-line form -/
theorem eqv_formatExprP (e : Expr) (mw : Option Nat) (hn : namesOk e = true) (hl : lamOk e = true)
    (hs : headSafe e = true) :
    Eqv (rt (formatExprP e mw)) (protectStatementStart (flat e)).toList :=
  eqv_protect _ _ (hm_impl e _ 0 hl) (nw_impl e _ 0 hl hs).wos (nw_flat e hs).wos (sq_impl e _ 0 hn hl)

theorem render_formatExprP (e : Expr) (mw : Option Nat) : render (formatExprP e mw) = formatExpr e mw := by
  simp only [formatExprP, formatExpr, fmtImpl, render_protectP]

/-- a tree without comments is laid out without comment pieces -/
theorem textOnly_impl (e : Expr) (w indent : Nat) (hc : anyComment e = false) :
    textOnly (fmtImplP w indent e) = fmtImplP w indent e := by
  apply textOnly_of_noComments
  have := good_impl e w indent
  unfold Good at this
  rw [this, commentsG_nil e false hc]

theorem textOnly_formatExprP (e : Expr) (mw : Option Nat) (hc : anyComment e = false) :
    textOnly (formatExprP e mw) = formatExprP e mw := by
  apply textOnly_of_noComments
  have := Good.protect (good_impl e (mw.getD DEFAULT_MAX_COLUMNS) 0)
  unfold Good at this
  rw [formatExprP, this, commentsG_nil e false hc]

/-- where `format_expr_impl` returns the single-line text -/
theorem fmtImpl_single (e : Expr) (w indent : Nat) (h1 : ∀ args body, e ≠ .lambda args body)
    (h2 : ∀ ss r, e ≠ .doBlock ss r) (hnl : hasNewline (fmtSingle e) = false)
    (hfit : indent + blen (firstLine (fmtSingle e)) ≤ w) : fmtImpl w indent e = fmtSingle e := by
  have hor : render (orSingle w indent e fun _ => fmtMultiP w indent e) = fmtSingle e := by
    unfold orSingle
    simp only [hnl, Bool.not_false, Bool.true_and, decide_eq_true_eq, hfit, if_true]
    exact render_single _
  unfold fmtImpl
  rw [fmtImplP_eq]
  cases e with
  | lambda args body => exact absurd rfl (h1 args body)
  | doBlock ss r => exact absurd rfl (h2 ss r)
  | _ => exact hor

/-! ### `squash` keeps what is not layout -/

theorem outp_inq (q : Char) : ∀ (s : List Char), q ∉ s → outp (.inq q) s = s
  | [], _ => rfl
  | c :: s, h => by
    have hc : (c == q) = false := by
      simp only [beq_eq_false_iff_ne, ne_eq]
      exact fun e => h (by simp [e])
    simp only [outp, step, hc, Bool.false_eq_true, if_false, List.cons_append, List.nil_append]
    rw [outp_inq q s (fun m => h (List.mem_cons_of_mem _ m))]

theorem step_solid (c : Char) (h1 : isLayout c = false) (h2 : c ≠ ',') (h3 : isQuote c = false) :
    step (.out 0) c = ([c], .out 0) := by
  have h2' : (c == ',') = false := by simpa using h2
  simp only [step, h1, h2', h3, Bool.false_eq_true, if_false, commas, List.replicate_zero,
    List.nil_append]
  split <;> rfl

/-- a text without layout characters, commas and quotes is kept as it is -/
theorem squashL_solid : ∀ (s : List Char),
    (∀ c ∈ s, isLayout c = false ∧ c ≠ ',' ∧ isQuote c = false) →
    outp (.out 0) s = s ∧ fin (.out 0) s = .out 0
  | [], _ => ⟨rfl, rfl⟩
  | c :: s, h => by
    obtain ⟨h1, h2, h3⟩ := h c List.mem_cons_self
    obtain ⟨ih1, ih2⟩ := squashL_solid s (fun d hd => h d (List.mem_cons_of_mem _ hd))
    simp only [outp, fin, step_solid c h1 h2 h3, ih1, ih2, List.cons_append, List.nil_append,
      and_self]

/-- a string literal is kept as it is, whatever it contains, and squashing goes on behind it -/
theorem squashL_literal (q : Char) (hq : isQuote q = true) (s rest : List Char) (h : q ∉ s) :
    squashL (q :: (s ++ q :: rest)) = q :: (s ++ q :: squashL rest) := by
  have e : q :: (s ++ q :: rest) = (q :: (s ++ [q])) ++ rest := by simp
  have hfin : fin (.out 0) (q :: (s ++ [q])) = .out 0 := by
    obtain ⟨m, hm⟩ := Bal.quoted q hq s h 0
    have hlast : fin (.inq q) [q] = .out 0 := by
      simp only [fin, step, beq_self_eq_true, if_true]
    show fin (step (.out 0) q).2 (s ++ [q]) = .out 0
    rw [step_quote 0 q hq, fin_append, fin_inq q s h, hlast]
  have hout : outp (.out 0) (q :: (s ++ [q])) = q :: (s ++ [q]) := by
    have h1 : isLayout q = false := by
      simp only [isQuote, Bool.or_eq_true, beq_iff_eq] at hq
      rcases hq with h | h <;> subst h <;> decide
    have h2 : (q == ',') = false := by
      simp only [isQuote, Bool.or_eq_true, beq_iff_eq] at hq
      rcases hq with h | h <;> subst h <;> decide
    have h3 : isClose q = false := by
      simp only [isQuote, Bool.or_eq_true, beq_iff_eq] at hq
      rcases hq with h | h <;> subst h <;> decide
    have hs : step (.out 0) q = ([q], .inq q) := by
      simp only [step, h1, h2, h3, hq, Bool.false_eq_true, if_false, if_true, commas,
        List.replicate_zero, List.nil_append]
    have hl : outp (.inq q) [q] = [q] := by
      simp only [outp, step, List.append_nil]
    simp only [outp, hs, List.cons_append, List.nil_append]
    rw [outp_append, outp_inq q s h, fin_inq q s h, hl]
  rw [e, squashL_append_of_fin _ _ hfin, hout]
  simp

end Squash
end Blots
