import Blots.Model.Cli
import Blots.Lemmas.ValueEq
import Blots.Lemmas.ValueOrder
/-
  Helper lemmas for C06 / C19: `BTreeMap` / `IndexMap` as association lists, the JSON
  tree mappings, the CLI statement loop.
-/
namespace Blots

theorem strCmp_eq_iff (a b : String) : strCmp a b = .eq ↔ a = b := by
  unfold strCmp
  rw [strCmpL_eq_iff]
  exact String.toList_inj

theorem strCmp_self (a : String) : strCmp a a = .eq := (strCmp_eq_iff a a).mpr rfl

theorem strCmp_swap (a b : String) : strCmp b a = (strCmp a b).swap := strCmpL_swap _ _

theorem strCmp_lt_trans {a b c : String} (h1 : strCmp a b = .lt) (h2 : strCmp b c = .lt) :
    strCmp a c = .lt := strCmpL_lt_trans _ _ _ h1 h2

theorem strCmp_lt_ne {a b : String} (h : strCmp a b = .lt) : a ≠ b := by
  intro e; subst e; rw [strCmp_self] at h; cases h

theorem strCmp_gt_ne {a b : String} (h : strCmp a b = .gt) : a ≠ b := by
  intro e; subst e; rw [strCmp_self] at h; cases h

theorem strCmp_gt_lt {a b : String} (h : strCmp a b = .gt) : strCmp b a = .lt := by
  rw [strCmp_swap, h]; rfl

theorem strCmp_lt_gt {a b : String} (h : strCmp a b = .lt) : strCmp b a = .gt := by
  rw [strCmp_swap, h]; rfl

/-! ### lookups after inserts -/

theorem lookupAL_insertSorted {α} (k k' : String) (v : α) : ∀ (l : List (String × α)),
    lookupAL k (insertSorted k' v l) = if k' = k then some v else lookupAL k l
  | [] => by simp [insertSorted, lookupAL]
  | (k'', v'') :: rest => by
    simp only [insertSorted]
    cases h : strCmp k' k'' with
    | lt => simp [lookupAL]
    | eq =>
      have e : k' = k'' := (strCmp_eq_iff _ _).mp h
      subst e
      by_cases hk : k' = k <;> simp [lookupAL, hk]
    | gt =>
      have hne : k' ≠ k'' := strCmp_gt_ne h
      simp only [lookupAL, lookupAL_insertSorted k k' v rest]
      by_cases hk : k' = k
      · subst hk
        have : ¬ k'' = k' := fun e => hne e.symm
        simp [this]
      · simp [hk]

theorem lookupAL_insertAL {α} (k k' : String) (v : α) : ∀ (l : List (String × α)),
    lookupAL k (insertAL k' v l) = if k' = k then some v else lookupAL k l
  | [] => by simp [insertAL, lookupAL]
  | (k'', v'') :: rest => by
    simp only [insertAL]
    by_cases h : k'' = k'
    · subst h
      by_cases hk : k'' = k <;> simp [lookupAL, hk]
    · simp only [h, if_false, lookupAL, lookupAL_insertAL k k' v rest]
      by_cases hk : k' = k
      · subst hk; simp [h]
      · simp [hk]

theorem lookupLast_cons {α} (k k' : String) (v : α) (rest : List (String × α)) :
    lookupLast k ((k', v) :: rest) = (lookupLast k rest).or (if k' = k then some v else none) := by
  simp only [lookupLast]
  cases lookupLast k rest <;> simp

theorem lookupAL_foldl_insertSorted {α} (k : String) : ∀ (l acc : List (String × α)),
    lookupAL k (l.foldl (fun acc kv => insertSorted kv.1 kv.2 acc) acc) =
      (lookupLast k l).or (lookupAL k acc)
  | [], acc => by simp [lookupLast]
  | (k', v) :: rest, acc => by
    simp only [List.foldl_cons, lookupAL_foldl_insertSorted k rest, lookupAL_insertSorted,
      lookupLast_cons]
    cases lookupLast k rest <;> by_cases hk : k' = k <;> simp [hk]

theorem lookupAL_collectSorted {α} (k : String) (l : List (String × α)) :
    lookupAL k (collectSorted l) = lookupLast k l := by
  simp [collectSorted, lookupAL_foldl_insertSorted, lookupAL]

theorem lookupAL_insertAll {α} (k : String) : ∀ (es m : List (String × α)),
    lookupAL k (insertAll m es) = (lookupLast k es).or (lookupAL k m)
  | [], m => by simp [insertAll, lookupLast]
  | (k', v) :: rest, m => by
    have ih := lookupAL_insertAll k rest (insertAL k' v m)
    simp only [insertAll, List.foldl_cons] at ih ⊢
    rw [ih, lookupAL_insertAL, lookupLast_cons]
    cases lookupLast k rest <;> by_cases hk : k' = k <;> simp [hk]

theorem lookupLast_mem {α} {k : String} {v : α} : ∀ {l : List (String × α)},
    lookupLast k l = some v → (k, v) ∈ l
  | [], h => by simp [lookupLast] at h
  | (k', v') :: rest, h => by
    rw [lookupLast_cons] at h
    cases hr : lookupLast k rest with
    | some w =>
      rw [hr] at h; simp at h; subst h
      exact List.mem_cons_of_mem _ (lookupLast_mem hr)
    | none =>
      rw [hr] at h
      by_cases hk : k' = k
      · simp [hk] at h; subst h; subst hk; exact List.mem_cons_self
      · simp [hk] at h

theorem lookupLast_isSome_iff {α} (k : String) : ∀ (l : List (String × α)),
    (lookupLast k l).isSome = true ↔ k ∈ l.map Prod.fst
  | [] => by simp [lookupLast]
  | (k', v) :: rest => by
    rw [lookupLast_cons]
    have ih := lookupLast_isSome_iff k rest
    cases hr : lookupLast k rest with
    | some w =>
      rw [hr] at ih
      have : k ∈ rest.map Prod.fst := ih.mp rfl
      simp at this
      simp [this]
    | none =>
      rw [hr] at ih
      have : ¬ k ∈ rest.map Prod.fst := fun h => by simpa using ih.mpr h
      simp at this
      by_cases hk : k' = k
      · simp [hk]
      · have hk' : ¬ k = k' := fun e => hk e.symm
        simp [hk, hk']
        intro x hx; exact this x hx

/-! ### mapping the values of an association list -/

def mapVals {α β} (f : α → β) (l : List (String × α)) : List (String × β) :=
  l.map fun kv => (kv.1, f kv.2)

@[simp] theorem mapVals_nil {α β} (f : α → β) : mapVals f [] = [] := rfl
@[simp] theorem mapVals_cons {α β} (f : α → β) (k : String) (v : α) (r : List (String × α)) :
    mapVals f ((k, v) :: r) = (k, f v) :: mapVals f r := rfl

theorem mapVals_keys {α β} (f : α → β) (l : List (String × α)) :
    (mapVals f l).map Prod.fst = l.map Prod.fst := by
  simp [mapVals, List.map_map, Function.comp_def]

theorem mapVals_length {α β} (f : α → β) (l : List (String × α)) : (mapVals f l).length = l.length := by
  simp [mapVals]

theorem mapVals_congr {α β} {f g : α → β} : ∀ {l : List (String × α)},
    (∀ kv ∈ l, f kv.2 = g kv.2) → mapVals f l = mapVals g l
  | [], _ => rfl
  | (k, v) :: r, h => by
    simp only [mapVals_cons]
    rw [h (k, v) List.mem_cons_self, mapVals_congr (fun kv hkv => h kv (List.mem_cons_of_mem _ hkv))]

theorem mapVals_mapVals {α β γ} (f : α → β) (g : β → γ) (l : List (String × α)) :
    mapVals g (mapVals f l) = mapVals (fun x => g (f x)) l := by
  simp [mapVals, List.map_map, Function.comp_def]

theorem mem_mapVals {α β} {f : α → β} {k : String} {w : β} {l : List (String × α)} :
    (k, w) ∈ mapVals f l → ∃ v, (k, v) ∈ l ∧ w = f v := by
  intro h
  obtain ⟨kv, hkv, e⟩ := List.mem_map.mp h
  cases kv with
  | mk k' v =>
    simp only [Prod.mk.injEq] at e
    exact ⟨v, e.1 ▸ hkv, e.2.symm⟩

theorem insertSorted_mapVals {α β} (f : α → β) (k : String) (v : α) : ∀ (l : List (String × α)),
    insertSorted k (f v) (mapVals f l) = mapVals f (insertSorted k v l)
  | [] => rfl
  | (k', v') :: rest => by
    simp only [mapVals_cons, insertSorted]
    cases strCmp k k' with
    | lt => rfl
    | eq => rfl
    | gt => simp only [mapVals_cons, insertSorted_mapVals f k v rest]

theorem foldl_insertSorted_mapVals {α β} (f : α → β) : ∀ (l acc : List (String × α)),
    (mapVals f l).foldl (fun acc kv => insertSorted kv.1 kv.2 acc) (mapVals f acc) =
      mapVals f (l.foldl (fun acc kv => insertSorted kv.1 kv.2 acc) acc)
  | [], _ => rfl
  | (k, v) :: rest, acc => by
    simp only [mapVals_cons, List.foldl_cons, insertSorted_mapVals]
    exact foldl_insertSorted_mapVals f rest _

theorem collectSorted_mapVals {α β} (f : α → β) (l : List (String × α)) :
    collectSorted (mapVals f l) = mapVals f (collectSorted l) :=
  foldl_insertSorted_mapVals f l []

theorem lookupLast_mapVals {α β} (f : α → β) (k : String) : ∀ (l : List (String × α)),
    lookupLast k (mapVals f l) = (lookupLast k l).map f
  | [] => rfl
  | (k', v) :: rest => by
    simp only [mapVals_cons, lookupLast, lookupLast_mapVals f k rest]
    cases lookupLast k rest with
    | some w => rfl
    | none => by_cases hk : k' = k <;> simp [hk]

theorem lookupAL_mapVals {α β} (f : α → β) (k : String) : ∀ (l : List (String × α)),
    lookupAL k (mapVals f l) = (lookupAL k l).map f
  | [] => rfl
  | (k', v) :: rest => by
    simp only [mapVals_cons, lookupAL, lookupAL_mapVals f k rest]
    by_cases hk : k' = k <;> simp [hk]

/-! ### sortedness -/

theorem keysSorted_cons {α} (k : String) (v : α) (rest : List (String × α)) :
    keysSorted ((k, v) :: rest) = true ↔ (∀ kv ∈ rest, strCmp k kv.1 = .lt) ∧ keysSorted rest = true := by
  simp [keysSorted]

theorem mem_insertSorted {α} {k : String} {v : α} {kv : String × α} : ∀ {l : List (String × α)},
    kv ∈ insertSorted k v l → kv = (k, v) ∨ kv ∈ l
  | [], h => by simp [insertSorted] at h; exact Or.inl h
  | (k', v') :: rest, h => by
    simp only [insertSorted] at h
    cases hc : strCmp k k' with
    | lt => rw [hc] at h; simpa using h
    | eq =>
      rw [hc] at h
      rcases List.mem_cons.mp h with h | h
      · exact Or.inl h
      · exact Or.inr (List.mem_cons_of_mem _ h)
    | gt =>
      rw [hc] at h
      rcases List.mem_cons.mp h with h | h
      · exact Or.inr (h ▸ List.mem_cons_self)
      · rcases mem_insertSorted h with h | h
        · exact Or.inl h
        · exact Or.inr (List.mem_cons_of_mem _ h)

theorem insertSorted_sorted {α} (k : String) (v : α) : ∀ (l : List (String × α)),
    keysSorted l = true → keysSorted (insertSorted k v l) = true
  | [], _ => by simp [insertSorted, keysSorted]
  | (k', v') :: rest, hs => by
    rw [keysSorted_cons] at hs
    simp only [insertSorted]
    cases hc : strCmp k k' with
    | lt =>
      simp only
      rw [keysSorted_cons]
      refine ⟨?_, (keysSorted_cons _ _ _).mpr hs⟩
      intro kv hkv
      rcases List.mem_cons.mp hkv with e | hkv
      · subst e; exact hc
      · exact strCmp_lt_trans hc (hs.1 kv hkv)
    | eq =>
      have e : k = k' := (strCmp_eq_iff _ _).mp hc
      subst e
      simp only
      exact (keysSorted_cons _ _ _).mpr hs
    | gt =>
      simp only
      rw [keysSorted_cons]
      refine ⟨?_, insertSorted_sorted k v rest hs.2⟩
      intro kv hkv
      rcases mem_insertSorted hkv with e | hkv
      · subst e; exact strCmp_gt_lt hc
      · exact hs.1 kv hkv

theorem foldl_insertSorted_sorted {α} : ∀ (l acc : List (String × α)), keysSorted acc = true →
    keysSorted (l.foldl (fun acc kv => insertSorted kv.1 kv.2 acc) acc) = true
  | [], _, h => h
  | (k, v) :: rest, acc, h => by
    simp only [List.foldl_cons]
    exact foldl_insertSorted_sorted rest _ (insertSorted_sorted k v acc h)

theorem collectSorted_sorted {α} (l : List (String × α)) : keysSorted (collectSorted l) = true :=
  foldl_insertSorted_sorted l [] rfl

theorem mem_lookupAL_of_sorted {α} {k : String} {v : α} : ∀ {l : List (String × α)},
    keysSorted l = true → (k, v) ∈ l → lookupAL k l = some v
  | [], _, h => by cases h
  | (k', v') :: rest, hs, h => by
    rw [keysSorted_cons] at hs
    rcases List.mem_cons.mp h with e | h
    · cases e; simp [lookupAL]
    · have : k' ≠ k := strCmp_lt_ne (hs.1 (k, v) h)
      simp only [lookupAL, this, if_false]
      exact mem_lookupAL_of_sorted hs.2 h

/-- appending a key larger than all present ones -/
theorem insertSorted_append {α} (k : String) (v : α) : ∀ (l : List (String × α)),
    (∀ kv ∈ l, strCmp kv.1 k = .lt) → insertSorted k v l = l ++ [(k, v)]
  | [], _ => rfl
  | (k', v') :: rest, h => by
    have h1 : strCmp k k' = .gt := strCmp_lt_gt (h (k', v') List.mem_cons_self)
    simp only [insertSorted, h1, List.cons_append]
    rw [insertSorted_append k v rest (fun kv hkv => h kv (List.mem_cons_of_mem _ hkv))]

theorem foldl_insertSorted_of_sorted {α} : ∀ (l acc : List (String × α)),
    keysSorted (acc ++ l) = true →
    l.foldl (fun acc kv => insertSorted kv.1 kv.2 acc) acc = acc ++ l
  | [], acc, _ => by simp
  | (k, v) :: rest, acc, h => by
    simp only [List.foldl_cons]
    have hlt : ∀ kv ∈ acc, strCmp kv.1 k = .lt := by
      intro kv hkv
      -- kv precedes (k, v) in a sorted list
      clear foldl_insertSorted_of_sorted
      induction acc with
      | nil => cases hkv
      | cons a acc ih =>
        cases a with
        | mk ka va =>
          simp only [List.cons_append] at h
          rw [keysSorted_cons] at h
          rcases List.mem_cons.mp hkv with e | hkv
          · subst e; exact h.1 (k, v) (by simp)
          · exact ih h.2 hkv
    rw [insertSorted_append k v acc hlt]
    have := foldl_insertSorted_of_sorted rest (acc ++ [(k, v)]) (by simpa using h)
    simpa using this

theorem collectSorted_of_sorted {α} (l : List (String × α)) (h : keysSorted l = true) :
    collectSorted l = l := by
  have := foldl_insertSorted_of_sorted l [] (by simpa using h)
  simpa [collectSorted] using this

/-! ### sizes -/

theorem length_insertSorted {α} (k : String) (v : α) : ∀ (l : List (String × α)),
    k ∉ l.map Prod.fst → (insertSorted k v l).length = l.length + 1
  | [], _ => rfl
  | (k', v') :: rest, h => by
    simp only [List.map_cons, List.mem_cons, not_or] at h
    simp only [insertSorted]
    cases hc : strCmp k k' with
    | lt => simp
    | eq => exact absurd ((strCmp_eq_iff _ _).mp hc) h.1
    | gt => simp [length_insertSorted k v rest h.2]

theorem keys_insertSorted {α} (k : String) (v : α) (l : List (String × α)) (x : String) :
    x ∈ (insertSorted k v l).map Prod.fst ↔ x = k ∨ x ∈ l.map Prod.fst := by
  rw [← lookupAL_isSome_iff, lookupAL_insertSorted, ← lookupAL_isSome_iff]
  by_cases hk : k = x
  · simp [hk]
  · have : ¬ x = k := fun e => hk e.symm
    simp [hk, this]

theorem length_foldl_insertSorted {α} : ∀ (l acc : List (String × α)),
    (l.map Prod.fst).Nodup → (∀ k ∈ l.map Prod.fst, k ∉ acc.map Prod.fst) →
    (l.foldl (fun acc kv => insertSorted kv.1 kv.2 acc) acc).length = acc.length + l.length
  | [], _, _, _ => rfl
  | (k, v) :: rest, acc, hn, hd => by
    simp only [List.map_cons, List.nodup_cons] at hn
    simp only [List.foldl_cons]
    rw [length_foldl_insertSorted rest _ hn.2, length_insertSorted k v acc (hd k (by simp))]
    · simp; omega
    · intro x hx hmem
      rcases (keys_insertSorted k v acc x).mp hmem with e | hmem
      · subst e; exact hn.1 hx
      · exact hd x (by simp [List.mem_map] at hx ⊢; exact Or.inr hx) hmem

theorem length_collectSorted {α} (l : List (String × α)) (hn : (l.map Prod.fst).Nodup) :
    (collectSorted l).length = l.length := by
  have := length_foldl_insertSorted l [] hn (by simp)
  simpa [collectSorted] using this


/-! ### induction principles for the nested types `SV` and `Json` -/

set_option linter.unusedSectionVars false

section svind
variable {P : SV → Prop}
  (hnum : ∀ x, P (.num x)) (hbool : ∀ b, P (.bool b)) (hnull : P .null) (hstr : ∀ s, P (.str s))
  (hlist : ∀ xs, (∀ x ∈ xs, P x) → P (.list xs))
  (hrecord : ∀ r, (∀ kv ∈ r, P kv.2) → P (.record r))
  (hlambda : ∀ as b, P (.lambda as b))
  (hbuiltin : ∀ n, P (.builtin n))
include hnum hbool hnull hstr hlist hrecord hlambda hbuiltin

mutual
theorem SV.ind : ∀ v, P v
  | .num x => hnum x
  | .bool b => hbool b
  | .null => hnull
  | .str s => hstr s
  | .list xs => hlist xs (SV.ind_list xs)
  | .record r => hrecord r (SV.ind_rec r)
  | .lambda as b => hlambda as b
  | .builtin n => hbuiltin n
theorem SV.ind_list : ∀ (xs : List SV), ∀ x ∈ xs, P x
  | [] => by intro x h; cases h
  | y :: ys => by
    have h1 := SV.ind y
    have h2 := SV.ind_list ys
    intro x h
    rcases List.mem_cons.mp h with h | h
    · exact h ▸ h1
    · exact h2 x h
theorem SV.ind_rec : ∀ (r : List (String × SV)), ∀ kv ∈ r, P kv.2
  | [] => by intro x h; cases h
  | (k, v) :: r => by
    have h1 := SV.ind v
    have h2 := SV.ind_rec r
    intro kv h
    rcases List.mem_cons.mp h with h | h
    · exact h ▸ h1
    · exact h2 kv h
end
end svind

section jind
variable {P : Json → Prop}
  (hnull : P .null) (hbool : ∀ b, P (.bool b)) (hnum : ∀ x, P (.num x)) (hstr : ∀ s, P (.str s))
  (harr : ∀ xs, (∀ x ∈ xs, P x) → P (.arr xs))
  (hobj : ∀ ms, (∀ kv ∈ ms, P kv.2) → P (.obj ms))
include hnull hbool hnum hstr harr hobj

mutual
theorem Json.ind : ∀ j, P j
  | .null => hnull
  | .bool b => hbool b
  | .num x => hnum x
  | .str s => hstr s
  | .arr xs => harr xs (Json.ind_list xs)
  | .obj ms => hobj ms (Json.ind_members ms)
theorem Json.ind_list : ∀ (xs : List Json), ∀ x ∈ xs, P x
  | [] => by intro x h; cases h
  | y :: ys => by
    have h1 := Json.ind y
    have h2 := Json.ind_list ys
    intro x h
    rcases List.mem_cons.mp h with h | h
    · exact h ▸ h1
    · exact h2 x h
theorem Json.ind_members : ∀ (r : List (String × Json)), ∀ kv ∈ r, P kv.2
  | [] => by intro x h; cases h
  | (k, v) :: r => by
    have h1 := Json.ind v
    have h2 := Json.ind_members r
    intro kv h
    rcases List.mem_cons.mp h with h | h
    · exact h ▸ h1
    · exact h2 kv h
end
end jind

/-! ### the list companions of the mutual definitions are maps -/

theorem normList_eq : ∀ xs, Json.normList xs = xs.map Json.norm
  | [] => rfl
  | x :: xs => by simp [Json.normList, normList_eq xs]
theorem normMembers_eq : ∀ ms, Json.normMembers ms = mapVals Json.norm ms
  | [] => rfl
  | (k, v) :: r => by simp [Json.normMembers, normMembers_eq r]
theorem fromJsonList_eq (pf : ParseFn) : ∀ xs, fromJsonList pf xs = xs.map (fromJson pf)
  | [] => rfl
  | x :: xs => by simp [fromJsonList, fromJsonList_eq pf xs]
theorem fromJsonMembers_eq (pf : ParseFn) : ∀ ms, fromJsonMembers pf ms = mapVals (fromJson pf) ms
  | [] => rfl
  | (k, v) :: r => by simp [fromJsonMembers, fromJsonMembers_eq pf r]
theorem toJsonList_eq : ∀ xs, toJsonList xs = xs.map toJson
  | [] => rfl
  | x :: xs => by simp [toJsonList, toJsonList_eq xs]
theorem toJsonMembers_eq : ∀ ms, toJsonMembers ms = mapVals toJson ms
  | [] => rfl
  | (k, v) :: r => by simp [toJsonMembers, toJsonMembers_eq r]
theorem sortKeysList_eq : ∀ xs, SV.sortKeysList xs = xs.map SV.sortKeys
  | [] => rfl
  | x :: xs => by simp [SV.sortKeysList, sortKeysList_eq xs]
theorem sortKeysRec_eq : ∀ ms, SV.sortKeysRec ms = mapVals SV.sortKeys ms
  | [] => rfl
  | (k, v) :: r => by simp [SV.sortKeysRec, sortKeysRec_eq r]

/-! ### the Boolean side conditions, member-wise -/

theorem finiteList_iff : ∀ xs, SV.finiteList xs = true ↔ ∀ x ∈ xs, x.finite = true
  | [] => by simp [SV.finiteList]
  | x :: xs => by simp [SV.finiteList, finiteList_iff xs]
theorem finiteRec_iff : ∀ r, SV.finiteRec r = true ↔ ∀ kv ∈ r, kv.2.finite = true
  | [] => by simp [SV.finiteRec]
  | (k, v) :: r => by simp [SV.finiteRec, finiteRec_iff r]
theorem plainList_iff : ∀ xs, SV.plainList xs = true ↔ ∀ x ∈ xs, x.plain = true
  | [] => by simp [SV.plainList]
  | x :: xs => by simp [SV.plainList, plainList_iff xs]
theorem plainRec_iff : ∀ r, SV.plainRec r = true ↔ ∀ kv ∈ r, kv.2.plain = true
  | [] => by simp [SV.plainRec]
  | (k, v) :: r => by simp [SV.plainRec, plainRec_iff r]
theorem noFnList_iff (pf : ParseFn) : ∀ xs, SV.noFnList pf xs = true ↔ ∀ x ∈ xs, x.noFn pf = true
  | [] => by simp [SV.noFnList]
  | x :: xs => by simp [SV.noFnList, noFnList_iff pf xs]
theorem noFnRec_iff (pf : ParseFn) : ∀ r, SV.noFnRec pf r = true ↔ ∀ kv ∈ r, kv.2.noFn pf = true
  | [] => by simp [SV.noFnRec]
  | (k, v) :: r => by simp [SV.noFnRec, noFnRec_iff pf r]
theorem svCanonicalList_iff : ∀ xs, SV.canonicalList xs = true ↔ ∀ x ∈ xs, x.canonical = true
  | [] => by simp [SV.canonicalList]
  | x :: xs => by simp [SV.canonicalList, svCanonicalList_iff xs]
theorem svCanonicalRec_iff : ∀ r, SV.canonicalRec r = true ↔ ∀ kv ∈ r, kv.2.canonical = true
  | [] => by simp [SV.canonicalRec]
  | (k, v) :: r => by simp [SV.canonicalRec, svCanonicalRec_iff r]
theorem canonicalList_iff : ∀ xs, Json.canonicalList xs = true ↔ ∀ x ∈ xs, x.canonical = true
  | [] => by simp [Json.canonicalList]
  | x :: xs => by simp [Json.canonicalList, canonicalList_iff xs]
theorem canonicalMembers_iff : ∀ r, Json.canonicalMembers r = true ↔ ∀ kv ∈ r, kv.2.canonical = true
  | [] => by simp [Json.canonicalMembers]
  | (k, v) :: r => by simp [Json.canonicalMembers, canonicalMembers_iff r]
theorem jfiniteList_iff : ∀ xs, Json.finiteList xs = true ↔ ∀ x ∈ xs, x.finite = true
  | [] => by simp [Json.finiteList]
  | x :: xs => by simp [Json.finiteList, jfiniteList_iff xs]
theorem jfiniteMembers_iff : ∀ r, Json.finiteMembers r = true ↔ ∀ kv ∈ r, kv.2.finite = true
  | [] => by simp [Json.finiteMembers]
  | (k, v) :: r => by simp [Json.finiteMembers, jfiniteMembers_iff r]
theorem noFnObjList_iff (pf : ParseFn) : ∀ xs, Json.noFnObjList pf xs = true ↔ ∀ x ∈ xs, x.noFnObj pf = true
  | [] => by simp [Json.noFnObjList]
  | x :: xs => by simp [Json.noFnObjList, noFnObjList_iff pf xs]
theorem noFnObjMembers_iff (pf : ParseFn) : ∀ r, Json.noFnObjMembers pf r = true ↔ ∀ kv ∈ r, kv.2.noFnObj pf = true
  | [] => by simp [Json.noFnObjMembers]
  | (k, v) :: r => by simp [Json.noFnObjMembers, noFnObjMembers_iff pf r]

theorem mem_collectSorted {α} {kv : String × α} {l : List (String × α)} (h : kv ∈ collectSorted l) : kv ∈ l := by
  cases kv with
  | mk k v =>
    have h1 := mem_lookupAL_of_sorted (collectSorted_sorted l) h
    rw [lookupAL_collectSorted] at h1
    exact lookupLast_mem h1

/-! ### `from_json ∘ to_json` -/

/-- `to_json` never turns a non-string into a JSON string -/
theorem toJson_eq_str {sv : SV} {s : String} (h : toJson sv = .str s) : sv = .str s := by
  cases sv with
  | num x => simp only [toJson] at h; split at h <;> cases h
  | str t => simp only [toJson] at h; cases h; rfl
  | _ => simp [toJson] at h

theorem fnObject_toJson_none (pf : ParseFn) (r : List (String × SV)) (h : fnShaped pf r = false) :
    fnObject pf (mapVals toJson (collectSorted r)) = none := by
  unfold fnObject
  rw [lookupAL_mapVals, lookupAL_collectSorted]
  unfold fnShaped at h
  cases hl : lookupLast "__blots_function" r with
  | none => rfl
  | some sv =>
    rw [hl] at h
    simp only [Option.map_some]
    cases hj : toJson sv with
    | str s =>
      have := toJson_eq_str hj
      subst this
      simp only [Bool.or_eq_false_iff] at h
      simp only [h.1]
      cases hp : pf s with
      | none => rfl
      | some p => rw [hp] at h; simp at h
    | _ => rfl

theorem fromJson_toJson (pf : ParseFn) : ∀ (sv : SV), sv.plain = true → sv.finite = true →
    sv.noFn pf = true → fromJson pf (toJson sv) = sv.sortKeys := by
  intro sv
  induction sv using SV.ind with
  | hnum x => intro _ hf _; simp only [SV.finite] at hf; simp [toJson, hf, fromJson, SV.sortKeys]
  | hbool b => intros; rfl
  | hnull => intros; rfl
  | hstr s => intros; rfl
  | hlist xs ih =>
    intro hp hf hn
    simp only [SV.plain, SV.finite, SV.noFn, plainList_iff, finiteList_iff, noFnList_iff] at hp hf hn
    simp only [toJson, fromJson, SV.sortKeys, toJsonList_eq, fromJsonList_eq, sortKeysList_eq,
      List.map_map, SV.list.injEq]
    apply List.map_congr_left
    intro x hx
    exact ih x hx (hp x hx) (hf x hx) (hn x hx)
  | hrecord r ih =>
    intro hp hf hn
    simp only [SV.plain, SV.finite, SV.noFn, plainRec_iff, finiteRec_iff, noFnRec_iff,
      Bool.and_eq_true, Bool.not_eq_true'] at hp hf hn
    simp only [toJson, toJsonMembers_eq, collectSorted_mapVals, fromJson,
      fnObject_toJson_none pf r hn.1, fromJsonMembers_eq, SV.sortKeys, sortKeysRec_eq,
      mapVals_mapVals, SV.record.injEq]
    apply mapVals_congr
    intro kv hkv
    have hkv' := mem_collectSorted hkv
    exact ih kv hkv' (hp kv hkv') (hf kv hkv') (hn.2 kv hkv')
  | hlambda => intro h; simp [SV.plain] at h
  | hbuiltin => intro h; simp [SV.plain] at h

theorem sortKeys_of_canonical : ∀ (sv : SV), sv.canonical = true → sv.sortKeys = sv := by
  intro sv
  induction sv using SV.ind with
  | hlist xs ih =>
    intro h
    simp only [SV.canonical, svCanonicalList_iff] at h
    simp only [SV.sortKeys, sortKeysList_eq, SV.list.injEq]
    conv => rhs; rw [← List.map_id xs]
    apply List.map_congr_left
    intro x hx; exact ih x hx (h x hx)
  | hrecord r ih =>
    intro h
    simp only [SV.canonical, svCanonicalRec_iff, Bool.and_eq_true] at h
    simp only [SV.sortKeys, sortKeysRec_eq, SV.record.injEq]
    have : mapVals SV.sortKeys r = r := by
      have h1 : mapVals SV.sortKeys r = mapVals id r := mapVals_congr (fun kv hkv => ih kv hkv (h.2 kv hkv))
      rw [h1]; simp [mapVals]
    rw [this, collectSorted_of_sorted r h.1]
  | _ => intros; rfl


/-! ### `from_value` / `to_value` on data are the obvious tree isomorphism -/

mutual
/-- the `SerializableValue` of a data value (junk on functions and spreads) -/
def svOf : Value → SV
  | .num x => .num x
  | .bool b => .bool b
  | .null => .null
  | .str s => .str s
  | .list xs => .list (svOfList xs)
  | .record r => .record (svOfRec r)
  | _ => .null
def svOfList : List Value → List SV
  | [] => []
  | x :: xs => svOf x :: svOfList xs
def svOfRec : List (String × Value) → List (String × SV)
  | [] => []
  | (k, v) :: r => (k, svOf v) :: svOfRec r
end

mutual
/-- the value of a plain `SerializableValue` (junk on functions) -/
def valOf : SV → Value
  | .num x => .num x
  | .bool b => .bool b
  | .null => .null
  | .str s => .str s
  | .list xs => .list (valOfList xs)
  | .record r => .record (valOfRec r)
  | _ => .null
def valOfList : List SV → List Value
  | [] => []
  | x :: xs => valOf x :: valOfList xs
def valOfRec : List (String × SV) → List (String × Value)
  | [] => []
  | (k, v) :: r => (k, valOf v) :: valOfRec r
end

theorem svOfList_eq : ∀ xs, svOfList xs = xs.map svOf
  | [] => rfl
  | x :: xs => by simp [svOfList, svOfList_eq xs]
theorem svOfRec_eq : ∀ ms, svOfRec ms = mapVals svOf ms
  | [] => rfl
  | (k, v) :: r => by simp [svOfRec, svOfRec_eq r]
theorem valOfList_eq : ∀ xs, valOfList xs = xs.map valOf
  | [] => rfl
  | x :: xs => by simp [valOfList, valOfList_eq xs]
theorem valOfRec_eq : ∀ ms, valOfRec ms = mapVals valOf ms
  | [] => rfl
  | (k, v) :: r => by simp [valOfRec, valOfRec_eq r]

theorem fromValueList_ok : ∀ (xs : List Value), (∀ x ∈ xs, fromValue x = .ok (svOf x)) →
    fromValueList xs = .ok (xs.map svOf)
  | [], _ => rfl
  | x :: xs, h => by
    simp only [fromValueList, h x List.mem_cons_self,
      fromValueList_ok xs (fun y hy => h y (List.mem_cons_of_mem _ hy)), List.map_cons]

theorem fromValueRec_ok : ∀ (r : List (String × Value)), (∀ kv ∈ r, fromValue kv.2 = .ok (svOf kv.2)) →
    fromValueRec r = .ok (mapVals svOf r)
  | [], _ => rfl
  | (k, v) :: r, h => by
    simp only [fromValueRec, h (k, v) List.mem_cons_self,
      fromValueRec_ok r (fun y hy => h y (List.mem_cons_of_mem _ hy)), mapVals_cons]

theorem fromValue_data : ∀ (v : Value), isData v = true → fromValue v = .ok (svOf v) := by
  intro v
  induction v using Value.ind with
  | hlist xs ih =>
    intro h; simp only [isData] at h
    simp only [fromValue, fromValueList_ok xs (fun x hx => ih x hx (isDataList_mem h x hx)), svOf,
      svOfList_eq]
  | hrecord r ih =>
    intro h; simp only [isData, Bool.and_eq_true] at h
    simp only [fromValue, fromValueRec_ok r (fun kv hkv => ih kv hkv (isDataRec_mem h.1 kv hkv)), svOf,
      svOfRec_eq]
  | hlambda => intro h; simp [isData] at h
  | hbuiltin => intro h; simp [isData] at h
  | hspread => intro h; simp [isData] at h
  | _ => intros; rfl

theorem svOf_plain : ∀ (v : Value), isData v = true → (svOf v).plain = true := by
  intro v
  induction v using Value.ind with
  | hlist xs ih =>
    intro h; simp only [isData] at h
    simp only [svOf, SV.plain, plainList_iff, svOfList_eq, List.mem_map]
    rintro _ ⟨x, hx, rfl⟩; exact ih x hx (isDataList_mem h x hx)
  | hrecord r ih =>
    intro h; simp only [isData, Bool.and_eq_true] at h
    simp only [svOf, SV.plain, plainRec_iff, svOfRec_eq]
    intro kv hkv
    obtain ⟨v, hv, e⟩ := mem_mapVals (k := kv.1) (w := kv.2) hkv
    rw [e]; exact ih _ hv (isDataRec_mem h.1 _ hv)
  | hlambda => intro h; simp [isData] at h
  | hbuiltin => intro h; simp [isData] at h
  | hspread => intro h; simp [isData] at h
  | _ => intros; rfl

theorem toValueList_ok (pb : ParseBody) : ∀ (xs : List SV), (∀ x ∈ xs, toValue pb x = .ok (valOf x)) →
    toValueList pb xs = .ok (xs.map valOf)
  | [], _ => rfl
  | x :: xs, h => by
    simp only [toValueList, h x List.mem_cons_self,
      toValueList_ok pb xs (fun y hy => h y (List.mem_cons_of_mem _ hy)), List.map_cons]

theorem toValueRec_ok (pb : ParseBody) : ∀ (r : List (String × SV)), (∀ kv ∈ r, toValue pb kv.2 = .ok (valOf kv.2)) →
    toValueRec pb r = .ok (mapVals valOf r)
  | [], _ => rfl
  | (k, v) :: r, h => by
    simp only [toValueRec, h (k, v) List.mem_cons_self,
      toValueRec_ok pb r (fun y hy => h y (List.mem_cons_of_mem _ hy)), mapVals_cons]

theorem toValue_plain (pb : ParseBody) : ∀ (sv : SV), sv.plain = true → toValue pb sv = .ok (valOf sv) := by
  intro sv
  induction sv using SV.ind with
  | hlist xs ih =>
    intro h; simp only [SV.plain, plainList_iff] at h
    simp only [toValue, toValueList_ok pb xs (fun x hx => ih x hx (h x hx)), valOf, valOfList_eq]
  | hrecord r ih =>
    intro h; simp only [SV.plain, plainRec_iff] at h
    simp only [toValue, toValueRec_ok pb r (fun kv hkv => ih kv hkv (h kv hkv)), valOf, valOfRec_eq]
  | hlambda => intro h; simp [SV.plain] at h
  | hbuiltin => intro h; simp [SV.plain] at h
  | _ => intros; rfl

theorem valOf_svOf : ∀ (v : Value), isData v = true → valOf (svOf v) = v := by
  intro v
  induction v using Value.ind with
  | hlist xs ih =>
    intro h; simp only [isData] at h
    simp only [svOf, valOf, svOfList_eq, valOfList_eq, List.map_map, Value.list.injEq]
    conv => rhs; rw [← List.map_id xs]
    apply List.map_congr_left
    intro x hx; exact ih x hx (isDataList_mem h x hx)
  | hrecord r ih =>
    intro h; simp only [isData, Bool.and_eq_true] at h
    simp only [svOf, valOf, svOfRec_eq, valOfRec_eq, mapVals_mapVals, Value.record.injEq]
    have h1 : mapVals (fun x => valOf (svOf x)) r = mapVals id r :=
      mapVals_congr (fun kv hkv => ih kv hkv (isDataRec_mem h.1 kv hkv))
    rw [h1]; simp [mapVals]
  | hlambda => intro h; simp [isData] at h
  | hbuiltin => intro h; simp [isData] at h
  | hspread => intro h; simp [isData] at h
  | _ => intros; rfl

theorem sortKeys_plain : ∀ (sv : SV), sv.plain = true → sv.sortKeys.plain = true := by
  intro sv
  induction sv using SV.ind with
  | hlist xs ih =>
    intro h; simp only [SV.plain, plainList_iff] at h
    simp only [SV.sortKeys, SV.plain, plainList_iff, sortKeysList_eq, List.mem_map]
    rintro _ ⟨x, hx, rfl⟩; exact ih x hx (h x hx)
  | hrecord r ih =>
    intro h; simp only [SV.plain, plainRec_iff] at h
    simp only [SV.sortKeys, SV.plain, plainRec_iff, sortKeysRec_eq]
    intro kv hkv
    obtain ⟨v, hv, e⟩ := mem_mapVals (k := kv.1) (w := kv.2) (mem_collectSorted hkv)
    rw [e]; exact ih _ hv (h _ hv)
  | _ => intro h; exact h

/-- generic version of `keysNodup_iff` direction used below -/
theorem keysNodup_nodup (r : List (String × Value)) (h : keysNodup r = true) : (r.map Prod.fst).Nodup :=
  (keysNodup_iff r).mp h

/-- re-sorting the keys of every record gives a `.==`-equal value -/
theorem veq_sorted_reload : ∀ (v : Value), isData v = true → veq (valOf (svOf v).sortKeys) v = true := by
  intro v
  induction v using Value.ind with
  | hnum x => intro h; simp only [isData, Bool.not_eq_true'] at h; simp only [svOf, SV.sortKeys, valOf, veq]; exact F64.feq_refl h
  | hbool b => intro _; simp [svOf, SV.sortKeys, valOf, veq]
  | hnull => intro _; rfl
  | hstr s => intro _; simp [svOf, SV.sortKeys, valOf, veq]
  | hlist xs ih =>
    intro h; simp only [isData] at h
    simp only [svOf, SV.sortKeys, valOf, svOfList_eq, sortKeysList_eq, valOfList_eq, List.map_map, veq]
    rw [veqList_iff]
    refine ⟨by simp, ?_⟩
    intro p hp
    rw [List.zip_map_left] at hp
    obtain ⟨q, hq, rfl⟩ := List.mem_map.mp hp
    have hqq : q.1 = q.2 := by
      clear hp ih h
      induction xs with
      | nil => cases hq
      | cons y ys ih2 =>
        simp only [List.zip_cons_cons, List.mem_cons] at hq
        rcases hq with e | hq
        · subst e; rfl
        · exact ih2 hq
    have hmem : q.1 ∈ xs := (List.of_mem_zip hq).1
    simp only [Prod.map_fst, Prod.map_snd, id, Function.comp]
    rw [← hqq]
    exact ih q.1 hmem (isDataList_mem h q.1 hmem)
  | hrecord r ih =>
    intro h; simp only [isData, Bool.and_eq_true] at h
    simp only [svOf, SV.sortKeys, valOf, svOfRec_eq, sortKeysRec_eq, valOfRec_eq, mapVals_mapVals,
      collectSorted_mapVals, veq, Bool.and_eq_true, beq_iff_eq]
    refine ⟨?_, ?_⟩
    · rw [mapVals_length, length_collectSorted r (keysNodup_nodup r h.2)]
    · rw [veqRec_iff]
      intro kv hkv
      obtain ⟨v, hv, e⟩ := mem_mapVals (k := kv.1) (w := kv.2) hkv
      have hv' := mem_collectSorted hv
      refine ⟨v, mem_lookupAL h.2 hv', ?_⟩
      rw [e]; exact ih _ hv' (isDataRec_mem h.1 _ hv')
  | hlambda => intro h; simp [isData] at h
  | hbuiltin => intro h; simp [isData] at h
  | hspread => intro h; simp [isData] at h


/-! ### documents: `Json.norm`, `to_json ∘ from_json`, JSON value equality -/

theorem norm_canonical : ∀ (j : Json), j.finite = true → j.norm.canonical = true := by
  intro j
  induction j using Json.ind with
  | hnum x => intro h; exact h
  | harr xs ih =>
    intro h; simp only [Json.finite, jfiniteList_iff] at h
    simp only [Json.norm, Json.canonical, canonicalList_iff, normList_eq, List.mem_map]
    rintro _ ⟨x, hx, rfl⟩; exact ih x hx (h x hx)
  | hobj ms ih =>
    intro h; simp only [Json.finite, jfiniteMembers_iff] at h
    simp only [Json.norm, Json.canonical, canonicalMembers_iff, normMembers_eq, Bool.and_eq_true]
    refine ⟨collectSorted_sorted _, ?_⟩
    intro kv hkv
    obtain ⟨v, hv, e⟩ := mem_mapVals (k := kv.1) (w := kv.2) (mem_collectSorted hkv)
    rw [e]; exact ih _ hv (h _ hv)
  | _ => intros; rfl

theorem toJson_fromJson_canonical (pf : ParseFn) : ∀ (j : Json), j.canonical = true →
    j.noFnObj pf = true → toJson (fromJson pf j) = j := by
  intro j
  induction j using Json.ind with
  | hnum x => intro h _; simp only [Json.canonical] at h; simp [fromJson, toJson, h]
  | harr xs ih =>
    intro hc hn
    simp only [Json.canonical, canonicalList_iff, Json.noFnObj, noFnObjList_iff] at hc hn
    simp only [fromJson, toJson, fromJsonList_eq, toJsonList_eq, List.map_map, Json.arr.injEq]
    conv => rhs; rw [← List.map_id xs]
    apply List.map_congr_left
    intro x hx; exact ih x hx (hc x hx) (hn x hx)
  | hobj ms ih =>
    intro hc hn
    simp only [Json.canonical, canonicalMembers_iff, Json.noFnObj, noFnObjMembers_iff,
      Bool.and_eq_true, Option.isNone_iff_eq_none] at hc hn
    simp only [fromJson, hn.1, toJson, fromJsonMembers_eq, toJsonMembers_eq, mapVals_mapVals,
      Json.obj.injEq]
    have h1 : mapVals (fun x => toJson (fromJson pf x)) ms = mapVals id ms :=
      mapVals_congr (fun kv hkv => ih kv hkv (hc.2 kv hkv) (hn.2 kv hkv))
    have h2 : mapVals id ms = ms := by simp [mapVals]
    rw [h1, h2, collectSorted_of_sorted ms hc.1]
  | _ => intros; rfl

theorem jeqList_of : ∀ (xs ys : List Json), xs.length = ys.length →
    (∀ p ∈ xs.zip ys, jeq p.1 p.2 = true) → jeqList xs ys = true
  | [], [], _, _ => rfl
  | [], _ :: _, h, _ => by simp at h
  | _ :: _, [], h, _ => by simp at h
  | x :: xs, y :: ys, hl, h => by
    simp only [List.zip_cons_cons, List.mem_cons, forall_eq_or_imp] at h
    simp only [jeqList, Bool.and_eq_true]
    exact ⟨h.1, jeqList_of xs ys (by simpa using hl) h.2⟩

theorem jeqList_map_left (f : Json → Json) : ∀ (xs : List Json), (∀ x ∈ xs, jeq (f x) x = true) →
    jeqList (xs.map f) xs = true
  | [], _ => rfl
  | x :: xs, h => by
    simp only [List.map_cons, jeqList, Bool.and_eq_true]
    exact ⟨h x List.mem_cons_self, jeqList_map_left f xs (fun y hy => h y (List.mem_cons_of_mem _ hy))⟩

theorem jeqMembers_of (b : List (String × Json)) : ∀ (a : List (String × Json)),
    (∀ kv ∈ a, ∃ w, lookupLast kv.1 b = some w ∧ jeq kv.2 w = true) → jeqMembers a b = true
  | [], _ => rfl
  | (k, v) :: rest, h => by
    simp only [jeqMembers, Bool.and_eq_true, Bool.or_eq_true]
    obtain ⟨w, hw, hj⟩ := h (k, v) List.mem_cons_self
    refine ⟨Or.inr (by simp only [hw]; exact hj), jeqMembers_of b rest (fun kv hkv => h kv (List.mem_cons_of_mem _ hkv))⟩

/-- what parsing loses: nothing, up to JSON value equality (member order, shadowed duplicates) -/
theorem jeq_norm : ∀ (j : Json), j.finite = true → jeq j.norm j = true := by
  intro j
  induction j using Json.ind with
  | hnull => intro _; rfl
  | hbool b => intro _; simp [Json.norm, jeq]
  | hnum x =>
    intro h; simp only [Json.finite] at h
    simp only [Json.norm, jeq]
    apply F64.feq_refl
    simp only [F64.isFinite, decide_eq_true_eq] at h
    simp [F64.isNaN, h]
  | hstr s => intro _; simp [Json.norm, jeq]
  | harr xs ih =>
    intro h; simp only [Json.finite, jfiniteList_iff] at h
    simp only [Json.norm, jeq, normList_eq]
    exact jeqList_map_left _ xs (fun x hx => ih x hx (h x hx))
  | hobj ms ih =>
    intro h; simp only [Json.finite, jfiniteMembers_iff] at h
    simp only [Json.norm, jeq, normMembers_eq, Bool.and_eq_true, List.all_eq_true]
    refine ⟨⟨?_, ?_⟩, ?_⟩
    · intro kv hkv
      obtain ⟨v, hv, _⟩ := mem_mapVals (k := kv.1) (w := kv.2) (mem_collectSorted hkv)
      exact (lookupLast_isSome_iff kv.1 ms).mpr (List.mem_map.mpr ⟨(kv.1, v), hv, rfl⟩)
    · intro kv hkv
      rw [lookupLast_isSome_iff, ← lookupAL_isSome_iff, lookupAL_collectSorted, lookupLast_mapVals]
      have : (lookupLast kv.1 ms).isSome = true :=
        (lookupLast_isSome_iff kv.1 ms).mpr (List.mem_map.mpr ⟨kv, hkv, rfl⟩)
      simpa using this
    · apply jeqMembers_of
      intro kv hkv
      have h1 := mem_lookupAL_of_sorted (collectSorted_sorted _) (k := kv.1) (v := kv.2) hkv
      rw [lookupAL_collectSorted, lookupLast_mapVals] at h1
      cases hl : lookupLast kv.1 ms with
      | none => rw [hl] at h1; simp at h1
      | some w =>
        rw [hl] at h1; simp at h1
        have hw := lookupLast_mem hl
        exact ⟨w, rfl, h1 ▸ ih _ hw (h _ hw)⟩


/-! ### `IndexMap` key order -/

theorem keys_insertAL {α} (k : String) (v : α) : ∀ (m : List (String × α)),
    (insertAL k v m).map Prod.fst = addKey (m.map Prod.fst) k
  | [] => by simp [insertAL, addKey]
  | (k', v') :: rest => by
    simp only [insertAL]
    by_cases h : k' = k
    · subst h; simp [addKey]
    · have ih := keys_insertAL k v rest
      have hne : (k == k') = false := by simp; exact fun e => h e.symm
      simp only [h, if_false, List.map_cons, ih, addKey, List.contains_cons, hne, Bool.false_or]
      split <;> simp

theorem keys_insertAll {α} : ∀ (es m : List (String × α)),
    (insertAll m es).map Prod.fst = (es.map Prod.fst).foldl addKey (m.map Prod.fst)
  | [], _ => rfl
  | (k, v) :: rest, m => by
    have ih := keys_insertAll rest (insertAL k v m)
    simp only [insertAll, List.foldl_cons, List.map_cons] at ih ⊢
    rw [ih, keys_insertAL]

theorem lookupLast_append {α} (k : String) : ∀ (a b : List (String × α)),
    lookupLast k (a ++ b) = (lookupLast k b).or (lookupLast k a)
  | [], b => by simp [lookupLast]
  | (k', v) :: rest, b => by
    simp only [List.cons_append, lookupLast_cons, lookupLast_append k rest b]
    cases lookupLast k b <;> simp

theorem insertAll_append {α} (m a b : List (String × α)) :
    insertAll m (a ++ b) = insertAll (insertAll m a) b := by
  simp [insertAll, List.foldl_append]

/-! ### the statement loop -/

theorem failCode_ne_zero {α} (r : Outcome α) : failCode r ≠ 0 := by
  cases r <;> simp [failCode]

theorem stepOutput_of_failed (outs : Outputs) (name : String) (r : Outcome Value) (d : Option Value)
    (p : Bool)
    (h : (r.isOk && (match d with | some v => p && writable v | none => true)) = false) :
    ∃ c, c ≠ 0 ∧ stepOutput outs name r d p = .exit c := by
  cases d with
  | none =>
    simp only [Bool.and_true] at h
    exact ⟨failCode r, failCode_ne_zero r, by simp [stepOutput, h]⟩
  | some v =>
    cases hp : p with
    | false => exact ⟨1, by decide, by simp [stepOutput]⟩
    | true =>
      cases hw : writable v with
      | false => exact ⟨1, by decide, by simp [stepOutput, hw]⟩
      | true =>
        simp only [hp, hw, Bool.and_true] at h
        exact ⟨failCode r, failCode_ne_zero r, by simp [stepOutput, hw, h]⟩

theorem stepEvent_of_succeeded (outs : Outputs) (e : Event) (h : e.succeeded = true) :
    stepEvent outs e = .next (storeEvent outs e) := by
  cases e with
  | expr r => simp only [Event.succeeded] at h; simp [stepEvent, h, storeEvent, Event.stored, Event.declaredValue, Event.declaredName]
  | outIdent n r b p =>
    simp only [Event.succeeded, Bool.and_eq_true] at h
    simp only [stepEvent, storeEvent, Event.stored, Event.declaredValue, Event.declaredName]
    generalize Event.declared (.outIdent n r b p) = d at h ⊢
    cases d with
    | none => simp [stepOutput, h.1]
    | some v =>
      simp only [Bool.and_eq_true] at h
      simp only [stepOutput, h.2.1, h.2.2, h.1, Bool.not_true, Bool.false_eq_true, if_false, if_true, declare]
      cases fromValue v <;> rfl
  | outAssign n r p =>
    simp only [Event.succeeded, Bool.and_eq_true] at h
    simp only [stepEvent, storeEvent, Event.stored, Event.declaredValue, Event.declaredName]
    generalize Event.declared (.outAssign n r p) = d at h ⊢
    cases d with
    | none => simp [stepOutput, h.1]
    | some v =>
      simp only [Bool.and_eq_true] at h
      simp only [stepOutput, h.2.1, h.2.2, h.1, Bool.not_true, Bool.false_eq_true, if_false, if_true, declare]
      cases fromValue v <;> rfl
  | comment => rfl

theorem stepEvent_of_failed (outs : Outputs) (e : Event) (h : e.succeeded = false) :
    ∃ c, c ≠ 0 ∧ stepEvent outs e = .exit c := by
  cases e with
  | expr r =>
    simp only [Event.succeeded] at h
    exact ⟨failCode r, failCode_ne_zero r, by simp [stepEvent, h]⟩
  | outIdent n r b p => exact stepOutput_of_failed outs n r _ p h
  | outAssign n r p => exact stepOutput_of_failed outs n r _ p h
  | comment => simp [Event.succeeded] at h

theorem runEvents_all_ok : ∀ (evs : List Event) (outs : Outputs), (∀ e ∈ evs, e.succeeded = true) →
    runEvents outs evs = ⟨0, some (writeOutputs (evs.foldl storeEvent outs))⟩
  | [], _, _ => rfl
  | e :: rest, outs, h => by
    simp only [runEvents, stepEvent_of_succeeded outs e (h e List.mem_cons_self), List.foldl_cons]
    exact runEvents_all_ok rest _ (fun x hx => h x (List.mem_cons_of_mem _ hx))

theorem runEvents_failed : ∀ (evs : List Event) (outs : Outputs), (∃ e ∈ evs, e.succeeded = false) →
    (runEvents outs evs).exit ≠ 0 ∧ (runEvents outs evs).object = none
  | [], _, h => by obtain ⟨e, he, _⟩ := h; cases he
  | e :: rest, outs, h => by
    cases hs : e.succeeded with
    | false =>
      obtain ⟨c, hc, hstep⟩ := stepEvent_of_failed outs e hs
      simp only [runEvents, hstep]
      exact ⟨hc, trivial⟩
    | true =>
      simp only [runEvents, stepEvent_of_succeeded outs e hs]
      apply runEvents_failed rest
      obtain ⟨x, hx, hxs⟩ := h
      rcases List.mem_cons.mp hx with e1 | hx
      · subst e1; rw [hs] at hxs; cases hxs
      · exact ⟨x, hx, hxs⟩

theorem foldl_storeEvent : ∀ (evs : List Event) (outs : Outputs),
    evs.foldl storeEvent outs = insertAll outs (evs.filterMap Event.stored)
  | [], _ => rfl
  | e :: rest, outs => by
    simp only [List.foldl_cons, foldl_storeEvent rest]
    cases hs : e.stored with
    | none => simp [storeEvent, hs]
    | some p => cases p with
      | mk n sv => simp [storeEvent, hs, insertAll]

theorem runStmts_eq_runEvents {Env Code} (ev : Evaluator Env Code) : ∀ (stmts : List (Stmt Code))
    (env : Env) (outs : Outputs), runStmts ev env outs stmts = runEvents outs (trace ev env stmts)
  | [], _, _ => rfl
  | s :: rest, env, outs => by
    simp only [runStmts, trace, runEvents]
    cases stepEvent outs (observe ev env s).1 with
    | next outs' => exact runStmts_eq_runEvents ev rest _ _
    | exit c => rfl

/-! ### input merging -/

theorem mergeFrom_eq (pf : ParseFn) (pb : ParseBody) : ∀ (docs : List Json) (c : Nat)
    (acc : List (String × Value)),
    mergeFrom pf pb c acc docs = insertAll acc (entriesFrom pf pb c docs)
  | [], _, _ => rfl
  | j :: rest, c, acc => by
    simp only [mergeFrom, entriesFrom, insertAll_append]
    exact mergeFrom_eq pf pb rest _ _

theorem entriesFrom_append (pf : ParseFn) (pb : ParseBody) : ∀ (a b : List Json) (c : Nat),
    entriesFrom pf pb c (a ++ b) = entriesFrom pf pb c a ++ entriesFrom pf pb (counterAfter pf pb c a) b
  | [], _, _ => rfl
  | j :: rest, b, c => by
    simp only [List.cons_append, entriesFrom, counterAfter, List.append_assoc]
    rw [entriesFrom_append pf pb rest b]

theorem norm_isObj (j : Json) : j.norm.isObj = j.isObj := by
  cases j <;> rfl

theorem sourceEntries_counter (pf : ParseFn) (pb : ParseBody) (c : Nat) (j : Json) :
    (sourceEntries pf pb c j.norm).2 = c + (if unnamedSource pf pb j then 1 else 0) := by
  unfold unnamedSource
  rw [← norm_isObj]
  cases hj : j.norm with
  | obj ms => simp [sourceEntries, Json.isObj]
  | _ =>
    simp only [sourceEntries, Json.isObj, Bool.not_false, Bool.true_and]
    split <;> simp_all [Outcome.isOk]

theorem counterAfter_eq (pf : ParseFn) (pb : ParseBody) : ∀ (docs : List Json) (c : Nat),
    counterAfter pf pb c docs = c + (docs.filter (unnamedSource pf pb)).length
  | [], c => by simp [counterAfter]
  | j :: rest, c => by
    simp only [counterAfter, counterAfter_eq pf pb rest, sourceEntries_counter, List.filter_cons]
    split <;> simp <;> omega


theorem keysSorted_singleton {α} (k : String) (v : α) : keysSorted [(k, v)] = true := by
  simp [keysSorted]

theorem toJson_canonical : ∀ (sv : SV), (toJson sv).canonical = true := by
  intro sv
  induction sv using SV.ind with
  | hnum x =>
    simp only [toJson]
    split
    · simpa [Json.canonical]
    · decide
  | hlist xs ih =>
    simp only [toJson, Json.canonical, canonicalList_iff, toJsonList_eq, List.mem_map]
    rintro _ ⟨x, hx, rfl⟩; exact ih x hx
  | hrecord r ih =>
    simp only [toJson, Json.canonical, canonicalMembers_iff, toJsonMembers_eq, Bool.and_eq_true]
    refine ⟨collectSorted_sorted _, ?_⟩
    intro kv hkv
    obtain ⟨v, hv, e⟩ := mem_mapVals (k := kv.1) (w := kv.2) (mem_collectSorted hkv)
    rw [e]; exact ih _ hv
  | hlambda as b => simp [toJson, Json.canonical, keysSorted, Json.canonicalMembers]
  | hbuiltin n => simp [toJson, Json.canonical, keysSorted, Json.canonicalMembers]
  | _ => rfl

theorem norm_of_canonical : ∀ (j : Json), j.canonical = true → j.norm = j := by
  intro j
  induction j using Json.ind with
  | harr xs ih =>
    intro h; simp only [Json.canonical, canonicalList_iff] at h
    simp only [Json.norm, normList_eq, Json.arr.injEq]
    conv => rhs; rw [← List.map_id xs]
    apply List.map_congr_left
    intro x hx; exact ih x hx (h x hx)
  | hobj ms ih =>
    intro h; simp only [Json.canonical, canonicalMembers_iff, Bool.and_eq_true] at h
    simp only [Json.norm, normMembers_eq, Json.obj.injEq]
    have h1 : mapVals Json.norm ms = mapVals id ms := mapVals_congr (fun kv hkv => ih kv hkv (h.2 kv hkv))
    have h2 : mapVals id ms = ms := by simp [mapVals]
    rw [h1, h2, collectSorted_of_sorted ms h.1]
  | _ => intros; rfl

theorem fromJson_plain (pf : ParseFn) : ∀ (j : Json), j.noFnObj pf = true → (fromJson pf j).plain = true := by
  intro j
  induction j using Json.ind with
  | harr xs ih =>
    intro h; simp only [Json.noFnObj, noFnObjList_iff] at h
    simp only [fromJson, SV.plain, plainList_iff, fromJsonList_eq, List.mem_map]
    rintro _ ⟨x, hx, rfl⟩; exact ih x hx (h x hx)
  | hobj ms ih =>
    intro h
    simp only [Json.noFnObj, noFnObjMembers_iff, Bool.and_eq_true, Option.isNone_iff_eq_none] at h
    simp only [fromJson, h.1, SV.plain, plainRec_iff, fromJsonMembers_eq]
    intro kv hkv
    obtain ⟨v, hv, e⟩ := mem_mapVals (k := kv.1) (w := kv.2) hkv
    rw [e]; exact ih _ hv (h.2 _ hv)
  | _ => intros; rfl

theorem fromValueList_valOf : ∀ (xs : List SV), (∀ x ∈ xs, fromValue (valOf x) = .ok x) →
    fromValueList (xs.map valOf) = .ok xs
  | [], _ => rfl
  | x :: xs, h => by
    simp only [List.map_cons, fromValueList, h x List.mem_cons_self,
      fromValueList_valOf xs (fun y hy => h y (List.mem_cons_of_mem _ hy))]

theorem fromValueRec_valOf : ∀ (r : List (String × SV)), (∀ kv ∈ r, fromValue (valOf kv.2) = .ok kv.2) →
    fromValueRec (mapVals valOf r) = .ok r
  | [], _ => rfl
  | (k, v) :: r, h => by
    simp only [mapVals_cons, fromValueRec, h (k, v) List.mem_cons_self,
      fromValueRec_valOf r (fun y hy => h y (List.mem_cons_of_mem _ hy))]

theorem fromValue_valOf : ∀ (sv : SV), sv.plain = true → fromValue (valOf sv) = .ok sv := by
  intro sv
  induction sv using SV.ind with
  | hlist xs ih =>
    intro h; simp only [SV.plain, plainList_iff] at h
    simp only [valOf, valOfList_eq, fromValue, fromValueList_valOf xs (fun x hx => ih x hx (h x hx))]
  | hrecord r ih =>
    intro h; simp only [SV.plain, plainRec_iff] at h
    simp only [valOf, valOfRec_eq, fromValue, fromValueRec_valOf r (fun kv hkv => ih kv hkv (h kv hkv))]
  | hlambda => intro h; simp [SV.plain] at h
  | hbuiltin => intro h; simp [SV.plain] at h
  | _ => intros; rfl

theorem stored_name {e : Event} {n : String} {sv : SV} (h : e.stored = some (n, sv)) :
    e.declaredName = some n := by
  unfold Event.stored Event.declaredValue at h
  cases hn : e.declaredName with
  | none => simp [hn] at h
  | some m =>
    cases hd : e.declared with
    | none => simp [hn, hd] at h
    | some v =>
      simp only [hn, hd] at h
      cases hf : fromValue v <;> simp [hf] at h
      rw [h.1]

theorem stored_names_of_all_stored : ∀ (evs : List Event),
    (∀ e ∈ evs, e.declaredName.isSome = true → e.stored.isSome = true) →
    (evs.filterMap Event.stored).map Prod.fst = evs.filterMap Event.declaredName
  | [], _ => rfl
  | e :: rest, h => by
    have ih := stored_names_of_all_stored rest (fun x hx => h x (List.mem_cons_of_mem _ hx))
    have he := h e List.mem_cons_self
    cases hn : e.declaredName with
    | none =>
      have : e.stored = none := by
        cases hs : e.stored with
        | none => rfl
        | some q => cases q with
          | mk m sv => rw [stored_name hs] at hn; cases hn
      simp [hn, this, ih]
    | some n =>
      rw [hn] at he
      cases hs : e.stored with
      | none => simp [hs] at he
      | some q =>
        cases q with
        | mk m sv =>
          have := stored_name hs
          rw [hn] at this; cases this
          simp [hn, hs, ih]

/-- a successful `output` of a serialisable value is stored -/
theorem stored_of_succeeded {e : Event}
    (hser : ∀ v, e.declared = some v → (fromValue v).isOk = true)
    (hs : e.succeeded = true) (hn : e.declaredName.isSome = true) : e.stored.isSome = true := by
  have hd : e.declared.isSome = true := by
    cases e with
    | expr r => simp [Event.declaredName] at hn
    | comment => simp [Event.declaredName] at hn
    | outIdent n r b p =>
      simp only [Event.succeeded, Bool.and_eq_true] at hs
      cases r with
      | ok v => cases b <;> simp [Event.declared]
      | _ => simp [Outcome.isOk] at hs
    | outAssign n r p =>
      simp only [Event.succeeded, Bool.and_eq_true] at hs
      cases r with
      | ok v => simp [Event.declared]
      | _ => simp [Outcome.isOk] at hs
  cases hdv : e.declared with
  | none => simp [hdv] at hd
  | some v =>
    cases hnn : e.declaredName with
    | none => simp [hnn] at hn
    | some n =>
      have := hser v hdv
      cases hf : fromValue v with
      | ok sv => simp [Event.stored, Event.declaredValue, hnn, hdv, hf]
      | _ => simp [hf, Outcome.isOk] at this

end Blots
