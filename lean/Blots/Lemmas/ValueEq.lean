import Blots.Model.Data
import Blots.Lemmas.Num
/-
  `Value::equals` is an equivalence on data values that ignores record key order.
-/
namespace Blots

/-! ### an induction principle for the nested type `Value` -/

section ind
variable {P : Value → Prop}
  (hnum : ∀ x, P (.num x)) (hbool : ∀ b, P (.bool b)) (hnull : P .null) (hstr : ∀ s, P (.str s))
  (hlist : ∀ xs, (∀ x ∈ xs, P x) → P (.list xs))
  (hrecord : ∀ r, (∀ kv ∈ r, P kv.2) → P (.record r))
  (hlambda : ∀ id as b sc, (∀ kv ∈ sc, P kv.2) → P (.lambda id as b sc))
  (hbuiltin : ∀ n, P (.builtin n))
  (hspread : ∀ v, P v → P (.spread v))
include hnum hbool hnull hstr hlist hrecord hlambda hbuiltin hspread

mutual
theorem Value.ind : ∀ v, P v
  | .num x => hnum x
  | .bool b => hbool b
  | .null => hnull
  | .str s => hstr s
  | .list xs => hlist xs (Value.ind_list xs)
  | .record r => hrecord r (Value.ind_rec r)
  | .lambda id as b sc => hlambda id as b sc (Value.ind_rec sc)
  | .builtin n => hbuiltin n
  | .spread v => hspread v (Value.ind v)
theorem Value.ind_list : ∀ (xs : List Value), ∀ x ∈ xs, P x
  | [] => by intro x h; cases h
  | y :: ys => by
    have h1 := Value.ind y
    have h2 := Value.ind_list ys
    intro x h
    rcases List.mem_cons.mp h with h | h
    · exact h ▸ h1
    · exact h2 x h
theorem Value.ind_rec : ∀ (r : List (String × Value)), ∀ kv ∈ r, P kv.2
  | [] => by intro x h; cases h
  | (k, v) :: r => by
    have h1 := Value.ind v
    have h2 := Value.ind_rec r
    intro kv h
    rcases List.mem_cons.mp h with h | h
    · exact h ▸ h1
    · exact h2 kv h
end
end ind

/-! ### association lists -/

theorem lookupAL_mem {α} {k : String} {v : α} : ∀ {r : List (String × α)}, lookupAL k r = some v → (k, v) ∈ r
  | [], h => by simp [lookupAL] at h
  | (k', v') :: r, h => by
    simp only [lookupAL] at h
    by_cases hk : k' = k
    · simp [hk] at h; subst h; subst hk; exact List.mem_cons_self
    · simp [hk] at h; exact List.mem_cons_of_mem _ (lookupAL_mem h)

theorem lookupAL_isSome_iff {α} (k : String) : ∀ (r : List (String × α)),
    (lookupAL k r).isSome = true ↔ k ∈ r.map Prod.fst
  | [] => by simp [lookupAL]
  | (k', v') :: r => by
    simp only [lookupAL, List.map_cons, List.mem_cons]
    by_cases hk : k' = k
    · simp [hk]
    · have : ¬ k = k' := fun h => hk h.symm
      simp [hk, this, lookupAL_isSome_iff k r]

theorem keysNodup_iff : ∀ (r : List (String × Value)), keysNodup r = true ↔ (r.map Prod.fst).Nodup
  | [] => by simp [keysNodup]
  | (k, v) :: r => by
    simp only [keysNodup, Bool.and_eq_true, List.map_cons, List.nodup_cons]
    rw [keysNodup_iff r]
    have := lookupAL_isSome_iff (α := Value) k r
    constructor
    · rintro ⟨h1, h2⟩
      refine ⟨?_, h2⟩
      intro hmem
      have := this.mpr hmem
      simp [Option.isNone_iff_eq_none] at h1
      simp [h1] at this
    · rintro ⟨h1, h2⟩
      refine ⟨?_, h2⟩
      cases hl : lookupAL k r with
      | none => rfl
      | some w =>
        have : k ∈ r.map Prod.fst := this.mp (by simp [hl])
        exact absurd this h1

theorem mem_lookupAL {k : String} {v : Value} : ∀ {r : List (String × Value)},
    keysNodup r = true → (k, v) ∈ r → lookupAL k r = some v
  | [], _, h => by cases h
  | (k', v') :: r, hn, h => by
    simp only [keysNodup, Bool.and_eq_true] at hn
    rcases List.mem_cons.mp h with h | h
    · cases h; simp [lookupAL]
    · simp only [lookupAL]
      by_cases hk : k' = k
      · subst hk
        have : (lookupAL k' r).isSome = true := (lookupAL_isSome_iff k' r).mpr (List.mem_map.mpr ⟨(k', v), h, rfl⟩)
        have h1 := hn.1
        simp [Option.isNone_iff_eq_none] at h1
        simp [h1] at this
      · simp [hk]; exact mem_lookupAL hn.2 h

theorem veqRec_iff (rb : List (String × Value)) : ∀ (ra : List (String × Value)),
    veqRec ra rb = true ↔ ∀ kv ∈ ra, ∃ w, lookupAL kv.1 rb = some w ∧ veq kv.2 w = true
  | [] => by simp [veqRec]
  | (k, v) :: ra => by
    simp only [veqRec, Bool.and_eq_true, List.mem_cons, forall_eq_or_imp]
    rw [veqRec_iff rb ra]
    constructor
    · rintro ⟨h1, h2⟩
      refine ⟨?_, h2⟩
      cases hl : lookupAL k rb with
      | none => simp [hl] at h1
      | some w => simp [hl] at h1; exact ⟨w, rfl, h1⟩
    · rintro ⟨⟨w, hw, hv⟩, h2⟩
      exact ⟨by simp [hw, hv], h2⟩

/-- pigeonhole: a duplicate-free list contained in a list that is no longer contains it -/
theorem subset_of_subset_of_length_le {α} [DecidableEq α] : ∀ (a b : List α),
    a.Nodup → a ⊆ b → b.length ≤ a.length → b ⊆ a
  | [], b, _, _, hl => by
    have : b = [] := List.eq_nil_of_length_eq_zero (by simpa using hl)
    subst this; exact fun _ h => h
  | x :: a, b, hn, hs, hl => by
    have hx : x ∈ b := hs List.mem_cons_self
    have hn' := List.nodup_cons.mp hn
    have hs' : a ⊆ b.erase x := by
      intro y hy
      have hyb : y ∈ b := hs (List.mem_cons_of_mem _ hy)
      have hne : y ≠ x := by intro h; subst h; exact hn'.1 hy
      exact (List.mem_erase_of_ne hne).mpr hyb
    have hl' : (b.erase x).length ≤ a.length := by
      rw [List.length_erase_of_mem hx]; simp at hl; omega
    have ih := subset_of_subset_of_length_le a (b.erase x) hn'.2 hs' hl'
    intro z hz
    by_cases hzx : z = x
    · subst hzx; exact List.mem_cons_self
    · exact List.mem_cons_of_mem _ (ih ((List.mem_erase_of_ne hzx).mpr hz))

/-! ### lists -/

theorem veqList_iff : ∀ (xs ys : List Value),
    veqList xs ys = true ↔ xs.length = ys.length ∧ ∀ p ∈ xs.zip ys, veq p.1 p.2 = true
  | [], [] => by simp [veqList]
  | [], _ :: _ => by simp [veqList]
  | _ :: _, [] => by simp [veqList]
  | x :: xs, y :: ys => by
    simp only [veqList, Bool.and_eq_true, List.length_cons, List.zip_cons_cons, List.mem_cons,
      forall_eq_or_imp, veqList_iff xs ys]
    constructor
    · rintro ⟨h1, h2, h3⟩; exact ⟨by omega, h1, h3⟩
    · rintro ⟨h1, h2, h3⟩; exact ⟨h2, by omega, h3⟩

/-! ### reflexivity -/

theorem isDataList_mem : ∀ {xs : List Value}, isDataList xs = true → ∀ x ∈ xs, isData x = true
  | [], _, _, h => by cases h
  | y :: ys, hd, x, h => by
    simp only [isDataList, Bool.and_eq_true] at hd
    rcases List.mem_cons.mp h with h | h
    · subst h; exact hd.1
    · exact isDataList_mem hd.2 x h

theorem isDataRec_mem : ∀ {r : List (String × Value)}, isDataRec r = true → ∀ kv ∈ r, isData kv.2 = true
  | [], _, _, h => by cases h
  | (k, v) :: r, hd, kv, h => by
    simp only [isDataRec, Bool.and_eq_true] at hd
    rcases List.mem_cons.mp h with h | h
    · subst h; exact hd.1
    · exact isDataRec_mem hd.2 kv h

theorem veqList_refl_of : ∀ (xs : List Value), (∀ x ∈ xs, veq x x = true) → veqList xs xs = true
  | [], _ => rfl
  | x :: xs, h => by
    simp only [veqList, Bool.and_eq_true]
    exact ⟨h x List.mem_cons_self, veqList_refl_of xs (fun y hy => h y (List.mem_cons_of_mem _ hy))⟩

theorem veq_refl : ∀ (v : Value), isData v = true → veq v v = true := by
  intro v
  induction v using Value.ind with
  | hnum x => intro h; simp only [isData, Bool.not_eq_true'] at h; simp only [veq]; exact F64.feq_refl h
  | hbool b => intro _; simp [veq]
  | hnull => intro _; rfl
  | hstr s => intro _; simp [veq]
  | hlist xs ih =>
    intro h; simp only [isData] at h; simp only [veq]
    exact veqList_refl_of xs (fun x hx => ih x hx (isDataList_mem h x hx))
  | hrecord r ih =>
    intro h; simp only [isData, Bool.and_eq_true] at h
    simp only [veq, beq_self_eq_true, Bool.true_and]
    rw [veqRec_iff]
    intro kv hkv
    exact ⟨kv.2, mem_lookupAL h.2 hkv, ih kv hkv (isDataRec_mem h.1 kv hkv)⟩
  | hlambda => intro h; simp [isData] at h
  | hbuiltin => intro h; simp [isData] at h
  | hspread => intro h; simp [isData] at h

/-! ### symmetry -/

theorem veqList_symm_of : ∀ (xs ys : List Value),
    (∀ x ∈ xs, ∀ b, isData x = true → isData b = true → veq x b = true → veq b x = true) →
    isDataList xs = true → isDataList ys = true → veqList xs ys = true → veqList ys xs = true
  | [], [], _, _, _, _ => rfl
  | [], _ :: _, _, _, _, h => by simp [veqList] at h
  | _ :: _, [], _, _, _, h => by simp [veqList] at h
  | x :: xs, y :: ys, ih, hx, hy, h => by
    simp only [veqList, Bool.and_eq_true, isDataList] at *
    exact ⟨ih x List.mem_cons_self y hx.1 hy.1 h.1,
      veqList_symm_of xs ys (fun z hz => ih z (List.mem_cons_of_mem _ hz)) hx.2 hy.2 h.2⟩

theorem veq_symm_imp : ∀ (a b : Value), isData a = true → isData b = true → veq a b = true → veq b a = true := by
  intro a
  induction a using Value.ind with
  | hnum x => intro b _ _ h; cases b <;> simp [veq] at h ⊢; rw [F64.feq_comm]; exact h
  | hbool x => intro b _ _ h; cases b <;> simp [veq] at h ⊢; exact h.symm
  | hnull => intro b _ _ h; cases b <;> simp [veq] at h ⊢
  | hstr s => intro b _ _ h; cases b <;> simp [veq] at h ⊢; exact h.symm
  | hlist xs ih =>
    intro b ha hb h
    cases b with
    | list ys =>
      simp only [veq, isData] at *
      exact veqList_symm_of xs ys ih ha hb h
    | _ => simp [veq] at h
  | hrecord ra ih =>
    intro b ha hb h
    cases b with
    | record rb =>
      simp only [veq, isData, Bool.and_eq_true, beq_iff_eq] at *
      refine ⟨h.1.symm, ?_⟩
      have hab := (veqRec_iff rb ra).mp h.2
      rw [veqRec_iff]
      -- keys of ra ⊆ keys of rb, same length, no duplicates ⇒ keys of rb ⊆ keys of ra
      have hsub : ra.map Prod.fst ⊆ rb.map Prod.fst := by
        intro k hk
        obtain ⟨kv, hkv, rfl⟩ := List.mem_map.mp hk
        obtain ⟨w, hw, _⟩ := hab kv hkv
        exact (lookupAL_isSome_iff _ rb).mp (by simp [hw])
      have hsub' := subset_of_subset_of_length_le _ _ ((keysNodup_iff ra).mp ha.2) hsub
        (by simp [h.1])
      intro kw hkw
      have hk : kw.1 ∈ ra.map Prod.fst := hsub' (List.mem_map.mpr ⟨kw, hkw, rfl⟩)
      obtain ⟨kv, hkv, hkeq⟩ := List.mem_map.mp hk
      obtain ⟨w, hw, hvw⟩ := hab kv hkv
      have hw' : lookupAL kw.1 rb = some kw.2 := mem_lookupAL hb.2 (by cases kw; exact hkw)
      rw [hkeq] at hw
      have : w = kw.2 := by rw [hw] at hw'; exact Option.some.inj hw'
      subst this
      refine ⟨kv.2, ?_, ?_⟩
      · rw [← hkeq]; exact mem_lookupAL ha.2 (by cases kv; exact hkv)
      · exact ih kv hkv _ (isDataRec_mem ha.1 kv hkv) (isDataRec_mem hb.1 kw hkw) hvw
    | _ => simp [veq] at h
  | hlambda => intro b h; simp [isData] at h
  | hbuiltin => intro b h; simp [isData] at h
  | hspread => intro b h; simp [isData] at h

theorem veq_symm (a b : Value) (ha : isData a = true) (hb : isData b = true) : veq a b = veq b a := by
  cases h1 : veq a b <;> cases h2 : veq b a <;> try rfl
  · have := veq_symm_imp b a hb ha h2; rw [h1] at this; cases this
  · have := veq_symm_imp a b ha hb h1; rw [h2] at this; cases this

/-! ### transitivity -/

theorem veqList_trans_of : ∀ (xs ys zs : List Value),
    (∀ x ∈ xs, ∀ b c, veq x b = true → veq b c = true → veq x c = true) →
    veqList xs ys = true → veqList ys zs = true → veqList xs zs = true
  | [], [], [], _, _, _ => rfl
  | [], [], _ :: _, _, _, h => by simp [veqList] at h
  | [], _ :: _, _, _, h, _ => by simp [veqList] at h
  | _ :: _, [], _, _, h, _ => by simp [veqList] at h
  | _ :: _, _ :: _, [], _, _, h => by simp [veqList] at h
  | x :: xs, y :: ys, z :: zs, ih, h1, h2 => by
    simp only [veqList, Bool.and_eq_true] at *
    exact ⟨ih x List.mem_cons_self y z h1.1 h2.1,
      veqList_trans_of xs ys zs (fun w hw => ih w (List.mem_cons_of_mem _ hw)) h1.2 h2.2⟩

theorem veq_trans : ∀ (a b c : Value), isData a = true → veq a b = true → veq b c = true → veq a c = true := by
  intro a
  induction a using Value.ind with
  | hnum x =>
    intro b c _ h1 h2
    cases b <;> simp [veq] at h1
    cases c <;> simp [veq] at h2
    simp only [veq]; exact F64.feq_trans h1 h2
  | hbool x =>
    intro b c _ h1 h2
    cases b <;> simp [veq] at h1
    cases c <;> simp [veq] at h2
    simp [veq, h1, h2]
  | hnull =>
    intro b c _ h1 h2
    cases b <;> simp [veq] at h1
    cases c <;> simp [veq] at h2
    rfl
  | hstr s =>
    intro b c _ h1 h2
    cases b <;> simp [veq] at h1
    cases c <;> simp [veq] at h2
    simp [veq, h1, h2]
  | hlist xs ih =>
    intro b c ha h1 h2
    cases b <;> simp only [veq] at h1 <;> try (cases h1)
    cases c <;> simp only [veq] at h2 <;> try (cases h2)
    simp only [veq, isData] at *
    exact veqList_trans_of xs _ _
      (fun x hx b c hb hc => ih x hx b c (isDataList_mem ha x hx) hb hc) h1 h2
  | hrecord ra ih =>
    intro b c ha h1 h2
    cases b <;> simp only [veq] at h1 <;> try (cases h1)
    cases c <;> simp only [veq] at h2 <;> try (cases h2)
    rename_i rb rc
    simp only [veq, isData, Bool.and_eq_true, beq_iff_eq] at *
    refine ⟨h1.1.trans h2.1, ?_⟩
    have hab := (veqRec_iff rb ra).mp h1.2
    have hbc := (veqRec_iff rc rb).mp h2.2
    rw [veqRec_iff]
    intro kv hkv
    obtain ⟨w, hw, hvw⟩ := hab kv hkv
    obtain ⟨u, hu, hwu⟩ := hbc (kv.1, w) (lookupAL_mem hw)
    exact ⟨u, hu, ih kv hkv w u (isDataRec_mem ha.1 kv hkv) hvw hwu⟩
  | hlambda => intro b c h; simp [isData] at h
  | hbuiltin => intro b c h; simp [isData] at h
  | hspread => intro b c h; simp [isData] at h

/-! ### record key order is ignored -/

theorem veq_record_perm (ra rb : List (String × Value)) (hd : isData (.record ra) = true)
    (hp : ra.Perm rb) : veq (.record ra) (.record rb) = true := by
  simp only [isData, Bool.and_eq_true] at hd
  simp only [veq, Bool.and_eq_true, beq_iff_eq]
  refine ⟨hp.length_eq, ?_⟩
  rw [veqRec_iff]
  have hnb : keysNodup rb = true :=
    (keysNodup_iff rb).mpr ((hp.map Prod.fst).nodup_iff.mp ((keysNodup_iff ra).mp hd.2))
  intro kv hkv
  exact ⟨kv.2, mem_lookupAL hnb (by cases kv; exact hp.subset hkv),
    veq_refl kv.2 (isDataRec_mem hd.1 kv hkv)⟩

/-! ### values of different types are never equal -/

theorem veq_type_mismatch (a b : Value) (h : a.typeName ≠ b.typeName) : veq a b = false := by
  cases a <;> cases b <;> simp [Value.typeName] at h <;> simp [veq]

end Blots
