import Blots.Lemmas.EvalEnvClosed
/-
  C04, call-site independence through arbitrary nested calls: the induction over the evaluator.

  `Coin ops tl' fuel`: for each of the 15 functions of the mutual block, at this fuel: the run
  from the state whose frames below the first `n` are replaced by `tl'` (`retail n tl' s`) is
  the same run (same outcome, same final state with the same replacement), provided
    * every value bound in the environment, the function called and its arguments are closed
      (`ClosedV`, `ClosedE`),
    * `inputs` resolves identically with the replaced frames,
    * (expression functions) call depth > 0, n > 0, the expression has no nested `output` and each of its free
      names is `inputs` or bound in the first `n` frames;
  and the result (value, environment) is closed again w.r.t. the display names of the final
  state, which only grew.
-/
namespace Blots

structure Coin (ops : NumOps) (tl' : List Frame) (fuel : Nat) : Prop where
  eval : ∀ depth e n s, 0 < depth → 0 < n → SOK n tl' s → noOutput e = true → FOK n s.env (FreeIn · e) →
    Sim n tl' ClosedV s (eval ops fuel depth e s) (eval ops fuel depth e (retail n tl' s))
  evalList : ∀ depth es n s, 0 < depth → 0 < n → SOK n tl' s → noOutputList es = true →
    FOK n s.env (FreeInList · es) →
    Sim n tl' ClosedL s (evalList ops fuel depth es s) (evalList ops fuel depth es (retail n tl' s))
  evalItems : ∀ depth is n s, 0 < depth → 0 < n → SOK n tl' s → noOutputItems is = true →
    FOK n s.env (FreeInItems · is) →
    Sim n tl' ClosedL s (evalItems ops fuel depth is s) (evalItems ops fuel depth is (retail n tl' s))
  evalEntries : ∀ depth es acc n s, 0 < depth → 0 < n → SOK n tl' s → noOutputEntries es = true →
    FOK n s.env (FreeInEntries · es) → ClosedR s.names acc →
    Sim n tl' ClosedR s (evalEntries ops fuel depth es acc s) (evalEntries ops fuel depth es acc (retail n tl' s))
  evalDoStmt : ∀ depth e n s, 0 < depth → 0 < n → SOK n tl' s → noOutput e = true → FOK n s.env (FreeIn · e) →
    Sim n tl' ClosedV s (evalDoStmt ops fuel depth e s) (evalDoStmt ops fuel depth e (retail n tl' s))
  evalDo : ∀ depth stmts ret n s, 0 < depth → 0 < n → SOK n tl' s → noOutputItems stmts = true →
    noOutputItem ret = true → FOK n s.env (FreeInDo · stmts ret) →
    Sim n tl' ClosedV s (evalDo ops fuel depth stmts ret s) (evalDo ops fuel depth stmts ret (retail n tl' s))
  callFn : ∀ fv this args depth n s, SOK n tl' s → ClosedV s.names fv → ClosedV s.names this →
    ClosedL s.names args →
    SimC n tl' ClosedV s (callFn ops fuel fv this args depth s) (callFn ops fuel fv this args depth (retail n tl' s))
  mapCalls : ∀ f w xs st depth n s, SOK n tl' s → ClosedV s.names f → ClosedL s.names xs →
    SimC n tl' ClosedL s (mapCalls ops fuel f w xs st depth s) (mapCalls ops fuel f w xs st depth (retail n tl' s))
  quantCalls : ∀ f w q xs st depth n s, SOK n tl' s → ClosedV s.names f → ClosedL s.names xs →
    SimC n tl' ClosedV s (quantCalls ops fuel f w q xs st depth s)
      (quantCalls ops fuel f w q xs st depth (retail n tl' s))
  foldCalls : ∀ f w acc xs st depth n s, SOK n tl' s → ClosedV s.names f → ClosedV s.names acc →
    ClosedL s.names xs →
    SimC n tl' ClosedV s (foldCalls ops fuel f w acc xs st depth s)
      (foldCalls ops fuel f w acc xs st depth (retail n tl' s))
  keyCalls : ∀ f xs depth n s, SOK n tl' s → ClosedV s.names f → ClosedL s.names xs →
    keyCalls ops fuel f xs depth (retail n tl' s) =
      ((keyCalls ops fuel f xs depth s).1, retail n tl' (keyCalls ops fuel f xs depth s).2) ∧
    (keyCalls ops fuel f xs depth s).2.env = s.env ∧
    NamesLe s.names (keyCalls ops fuel f xs depth s).2.names ∧
    ClosedE (keyCalls ops fuel f xs depth s).2.names (keyCalls ops fuel f xs depth s).2.env ∧
    ∀ kr ∈ (keyCalls ops fuel f xs depth s).1, kr.1 ∈ xs
  callHof : ∀ name args depth n s, SOK n tl' s → ClosedL s.names args →
    SimC n tl' ClosedV s (callHof ops fuel name args depth s) (callHof ops fuel name args depth (retail n tl' s))
  evalBin : ∀ depth op a b n s, SOK n tl' s → ClosedV s.names a → ClosedV s.names b →
    SimC n tl' ClosedV s (evalBin ops fuel depth op a b s) (evalBin ops fuel depth op a b (retail n tl' s))
  viaPairs : ∀ la lb depth n s, SOK n tl' s → ClosedL s.names la → ClosedL s.names lb →
    SimC n tl' ClosedV s (viaPairs ops fuel la lb depth s) (viaPairs ops fuel la lb depth (retail n tl' s))
  whereCalls : ∀ f w xs st depth n s, SOK n tl' s → ClosedV s.names f → ClosedL s.names xs →
    SimC n tl' ClosedV s (whereCalls ops fuel f w xs st depth s)
      (whereCalls ops fuel f w xs st depth (retail n tl' s))

section
variable {ops : NumOps} {tl' : List Frame}

/-- out of fuel: nothing happens -/
theorem sim_fuel {α} {C : List (Nat × String) → α → Prop} {n : Nat} {s : ES} (hS : SOK n tl' s) :
    Sim n tl' C s (.fuel, s) (.fuel, retail n tl' s) :=
  ⟨rfl, Post.same hS.cl (by intro _ h; cases h)⟩

theorem simC_fuel {α} {C : List (Nat × String) → α → Prop} {n : Nat} {s : ES} (hS : SOK n tl' s) :
    SimC n tl' C s (.fuel, s) (.fuel, retail n tl' s) :=
  ⟨rfl, PostC.same hS.cl (by intro _ h; cases h)⟩

theorem coin_zero : Coin ops tl' 0 := by
  refine ⟨?_, ?_, ?_, ?_, ?_, ?_, ?_, ?_, ?_, ?_, ?_, ?_, ?_, ?_, ?_⟩
  · intro depth e n s _ _ hS _ _; rw [eval, eval]; exact sim_fuel hS
  · intro depth es n s _ _ hS _ _; rw [evalList, evalList]; exact sim_fuel hS
  · intro depth es n s _ _ hS _ _; rw [evalItems, evalItems]; exact sim_fuel hS
  · intro depth es acc n s _ _ hS _ _ _; rw [evalEntries, evalEntries]; exact sim_fuel hS
  · intro depth e n s _ _ hS _ _; rw [evalDoStmt, evalDoStmt]; exact sim_fuel hS
  · intro depth st ret n s _ _ hS _ _ _; rw [evalDo, evalDo]; exact sim_fuel hS
  · intro fv this args depth n s hS _ _ _; rw [callFn, callFn]; exact simC_fuel hS
  · intro f w xs st depth n s hS _ _; rw [mapCalls, mapCalls]; exact simC_fuel hS
  · intro f w q xs st depth n s hS _ _; rw [quantCalls, quantCalls]; exact simC_fuel hS
  · intro f w acc xs st depth n s hS _ _ _; rw [foldCalls, foldCalls]; exact simC_fuel hS
  · intro f xs depth n s hS _ _
    rw [keyCalls, keyCalls]
    refine ⟨rfl, rfl, NamesLe.refl _, hS.cl, ?_⟩
    intro kr hkr
    simp only [List.mem_map] at hkr
    obtain ⟨x, hx, rfl⟩ := hkr
    exact hx
  · intro name args depth n s hS _; rw [callHof, callHof]; exact simC_fuel hS
  · intro depth op a b n s hS _ _; rw [evalBin, evalBin]; exact simC_fuel hS
  · intro la lb depth n s hS _ _; rw [viaPairs, viaPairs]; exact simC_fuel hS
  · intro f w xs st depth n s hS _ _; rw [whereCalls, whereCalls]; exact simC_fuel hS

/-! ### the call group -/

theorem coin_callFn {fuel : Nat} (ih : Coin ops tl' fuel) (fv this : Value) (args : List Value) (depth n : Nat)
    (s : ES) (hS : SOK n tl' s) (hf : ClosedV s.names fv) (ht : ClosedV s.names this)
    (ha : ClosedL s.names args) :
    SimC n tl' ClosedV s (callFn ops (fuel + 1) fv this args depth s)
      (callFn ops (fuel + 1) fv this args depth (retail n tl' s)) := by
  have fail : ∀ {r : Outcome Value}, (∀ v, r ≠ .ok v) → SimC n tl' ClosedV s (r, s) (r, retail n tl' s) :=
    fun hr => ⟨rfl, PostC.same hS.cl (fun v hv => absurd hv (hr v))⟩
  cases fv with
  | lambda id ps body scope =>
    rw [closedV_lambda] at hf
    cases hA : checkArity (lambdaArity ps) args.length with
    | err k => rw [callFn, callFn, hA]; exact fail (by intro _ h; cases h)
    | panic p => rw [callFn, callFn, hA]; exact fail (by intro _ h; cases h)
    | fuel => rw [callFn, callFn, hA]; exact fail (by intro _ h; cases h)
    | ok u =>
      by_cases hd : depth > MAX_DEPTH
      · rw [callFn, callFn, hA]; simp only [hd, if_true]; exact fail (by intro _ h; cases h)
      · cases hb : bindParams ps args with
        | err k => rw [callFn, callFn, hA]; simp only [hd, if_false, hb]; exact fail (by intro _ h; cases h)
        | panic p => rw [callFn, callFn, hA]; simp only [hd, if_false, hb]; exact fail (by intro _ h; cases h)
        | fuel => rw [callFn, callFn, hA]; simp only [hd, if_false, hb]; exact fail (by intro _ h; cases h)
        | ok pf =>
          rw [callFn_lambda_eq ops fuel id ps body scope this args depth s pf hA hd hb,
            callFn_lambda_eq ops fuel id ps body scope this args depth (retail n tl' s) pf hA hd hb]
          let S : ES := { s with env := callEnv s.names id scope this pf s.env }
          have hS' : ES.mk (callEnv (retail n tl' s).names id scope this pf (retail n tl' s).env)
              (retail n tl' s).nextId (retail n tl' s).names = retail (n + pushed scope) tl' S := by
            simp only [retail, S]
            rw [callEnv_retail' s.names id scope this pf n tl' s.env hS.inp]
          have hSS : SOK (n + pushed scope) tl' S :=
            ⟨by simp only [S]; rw [callEnv_length]; have := hS.len; omega,
             agree_callEnv s.names id scope this pf n tl' s.env "inputs" hS.inp,
             closedE_callEnv s.names id scope this pf s.env ht hf.2.2 (closedR_bindParams ha hb) hS.cl⟩
          have hpos : 0 < n + pushed scope := by unfold pushed; split <;> omega
          obtain ⟨e1, P1⟩ := ih.eval (depth + 1) body (n + pushed scope) S (by omega) hpos hSS hf.2.1
            (fok_callEnv s.names id ps body scope this args pf s.env n hf.1 hb)
          rw [hS', e1]
          refine ⟨rfl, rfl, P1.names, hS.cl.mono P1.names, P1.val⟩
  | builtin name =>
    rw [callFn, callFn]
    cases builtinArity name with
    | none => exact fail (by intro _ h; cases h)
    | some ar =>
      dsimp only
      cases checkArity ar args.length with
      | ok u =>
        dsimp only
        split
        · exact fail (by intro _ h; cases h)
        · split
          · exact ih.callHof name args (depth + 1) n s hS ha
          · cases hp : callPure ops name args with
            | none => exact fail (by intro _ h; cases h)
            | some r =>
              exact ⟨rfl, PostC.same hS.cl (fun v hv => callPure_closed ops (by rw [hp, hv]) ha)⟩
      | err k => exact fail (by intro _ h; cases h)
      | panic p => exact fail (by intro _ h; cases h)
      | fuel => exact fail (by intro _ h; cases h)
  | num x => simp only [callFn]; exact fail (by intro _ h; cases h)
  | bool x => simp only [callFn]; exact fail (by intro _ h; cases h)
  | null => simp only [callFn]; exact fail (by intro _ h; cases h)
  | str x => simp only [callFn]; exact fail (by intro _ h; cases h)
  | list x => simp only [callFn]; exact fail (by intro _ h; cases h)
  | record x => simp only [callFn]; exact fail (by intro _ h; cases h)
  | spread x => simp only [callFn]; exact fail (by intro _ h; cases h)

theorem closedL_idxArgs {N : List (Nat × String)} {w : Bool} {x : Value} {st : Nat} (hx : ClosedV N x) :
    ClosedL N (if w then [x, .num (F64.ofNat st)] else [x]) := by
  split <;> simp [ClosedL, hx]

theorem coin_mapCalls {fuel : Nat} (ih : Coin ops tl' fuel) (f : Value) (w : Bool) (xs : List Value)
    (st depth n : Nat) (s : ES) (hS : SOK n tl' s) (hf : ClosedV s.names f) (hx : ClosedL s.names xs) :
    SimC n tl' ClosedL s (mapCalls ops (fuel + 1) f w xs st depth s)
      (mapCalls ops (fuel + 1) f w xs st depth (retail n tl' s)) := by
  cases xs with
  | nil => rw [mapCalls, mapCalls]; exact ⟨rfl, PostC.same hS.cl (by intro v h; cases h; simp)⟩
  | cons x xs =>
    rw [closedL_cons] at hx
    rw [mapCalls, mapCalls]
    obtain ⟨e1, P1⟩ := ih.callFn f f (if w then [x, .num (F64.ofNat st)] else [x]) depth n s hS hf hf
      (closedL_idxArgs hx.1)
    rw [e1]; clear e1
    generalize callFn ops fuel f f _ depth s = p at P1 ⊢
    obtain ⟨r1, s1⟩ := p
    cases r1 with
    | ok v =>
      dsimp only
      obtain ⟨e2, P2⟩ := ih.mapCalls f w xs (st + 1) depth n s1 (hS.nextC P1) (hf.mono P1.names)
        (hx.2.mono P1.names)
      rw [e2]; clear e2
      generalize mapCalls ops fuel f w xs (st + 1) depth s1 = q at P2 ⊢
      obtain ⟨r2, s2⟩ := q
      cases r2 with
      | ok vs =>
        refine ⟨rfl, (P1.trans P2).re ?_⟩
        intro v' hv'
        cases hv'
        exact closedL_cons.mpr ⟨(P1.val v rfl).mono P2.names, P2.val vs rfl⟩
      | err k => exact ⟨rfl, (P1.trans P2).re (by intro _ h; cases h)⟩
      | panic k => exact ⟨rfl, (P1.trans P2).re (by intro _ h; cases h)⟩
      | fuel => exact ⟨rfl, (P1.trans P2).re (by intro _ h; cases h)⟩
    | err k => exact ⟨rfl, P1.re (by intro _ h; cases h)⟩
    | panic k => exact ⟨rfl, P1.re (by intro _ h; cases h)⟩
    | fuel => exact ⟨rfl, P1.re (by intro _ h; cases h)⟩

theorem coin_quantCalls {fuel : Nat} (ih : Coin ops tl' fuel) (f : Value) (w q : Bool) (xs : List Value)
    (st depth n : Nat) (s : ES) (hS : SOK n tl' s) (hf : ClosedV s.names f) (hx : ClosedL s.names xs) :
    SimC n tl' ClosedV s (quantCalls ops (fuel + 1) f w q xs st depth s)
      (quantCalls ops (fuel + 1) f w q xs st depth (retail n tl' s)) := by
  cases xs with
  | nil => rw [quantCalls, quantCalls]; exact ⟨rfl, PostC.same hS.cl (by intro v h; cases h; simp)⟩
  | cons x xs =>
    rw [closedL_cons] at hx
    rw [quantCalls, quantCalls]
    obtain ⟨e1, P1⟩ := ih.callFn f f (if w then [x, .num (F64.ofNat st)] else [x]) depth n s hS hf hf
      (closedL_idxArgs hx.1)
    rw [e1]; clear e1
    generalize callFn ops fuel f f _ depth s = p at P1 ⊢
    obtain ⟨r1, s1⟩ := p
    cases r1 with
    | ok v =>
      cases v with
      | bool b =>
        dsimp only
        split
        · exact ⟨rfl, P1.re (by intro v h; cases h; simp)⟩
        · split
          · exact ⟨rfl, P1.re (by intro v h; cases h; simp)⟩
          · obtain ⟨e2, P2⟩ := ih.quantCalls f w q xs (st + 1) depth n s1 (hS.nextC P1) (hf.mono P1.names)
              (hx.2.mono P1.names)
            rw [e2]
            exact ⟨rfl, P1.trans P2⟩
      | _ => exact ⟨rfl, P1.re (by intro _ h; cases h)⟩
    | _ => exact ⟨rfl, P1.re (by intro _ h; cases h)⟩

theorem closedL_foldArgs {N : List (Nat × String)} {w : Bool} {acc x : Value} {st : Nat} (ha : ClosedV N acc)
    (hx : ClosedV N x) : ClosedL N (if w then [acc, x, .num (F64.ofNat st)] else [acc, x]) := by
  split <;> simp [ClosedL, hx, ha]

theorem coin_foldCalls {fuel : Nat} (ih : Coin ops tl' fuel) (f : Value) (w : Bool) (acc : Value)
    (xs : List Value) (st depth n : Nat) (s : ES) (hS : SOK n tl' s) (hf : ClosedV s.names f)
    (hacc : ClosedV s.names acc) (hx : ClosedL s.names xs) :
    SimC n tl' ClosedV s (foldCalls ops (fuel + 1) f w acc xs st depth s)
      (foldCalls ops (fuel + 1) f w acc xs st depth (retail n tl' s)) := by
  cases xs with
  | nil => rw [foldCalls, foldCalls]; exact ⟨rfl, PostC.same hS.cl (by intro v h; cases h; exact hacc)⟩
  | cons x xs =>
    rw [closedL_cons] at hx
    rw [foldCalls, foldCalls]
    obtain ⟨e1, P1⟩ := ih.callFn f f (if w then [acc, x, .num (F64.ofNat st)] else [acc, x]) depth n s hS hf hf
      (closedL_foldArgs hacc hx.1)
    rw [e1]; clear e1
    generalize callFn ops fuel f f _ depth s = p at P1 ⊢
    obtain ⟨r1, s1⟩ := p
    cases r1 with
    | ok v =>
      dsimp only
      obtain ⟨e2, P2⟩ := ih.foldCalls f w v xs (st + 1) depth n s1 (hS.nextC P1) (hf.mono P1.names)
        (P1.val v rfl) (hx.2.mono P1.names)
      rw [e2]
      exact ⟨rfl, P1.trans P2⟩
    | _ => exact ⟨rfl, P1.re (by intro _ h; cases h)⟩

theorem coin_whereCalls {fuel : Nat} (ih : Coin ops tl' fuel) (f : Value) (w : Bool) (xs : List Value)
    (st depth n : Nat) (s : ES) (hS : SOK n tl' s) (hf : ClosedV s.names f) (hx : ClosedL s.names xs) :
    SimC n tl' ClosedV s (whereCalls ops (fuel + 1) f w xs st depth s)
      (whereCalls ops (fuel + 1) f w xs st depth (retail n tl' s)) := by
  cases xs with
  | nil => rw [whereCalls, whereCalls]; exact ⟨rfl, PostC.same hS.cl (by intro v h; cases h; simp)⟩
  | cons x xs =>
    rw [closedL_cons] at hx
    rw [whereCalls, whereCalls]
    obtain ⟨e1, P1⟩ := ih.callFn f f (if w then [x, .num (F64.ofNat st)] else [x]) depth n s hS hf hf
      (closedL_idxArgs hx.1)
    rw [e1]; clear e1
    generalize callFn ops fuel f f _ depth s = p at P1 ⊢
    obtain ⟨r1, s1⟩ := p
    cases r1 with
    | ok v =>
      cases v with
      | bool b =>
        dsimp only
        obtain ⟨e2, P2⟩ := ih.whereCalls f w xs (st + 1) depth n s1 (hS.nextC P1) (hf.mono P1.names)
          (hx.2.mono P1.names)
        rw [e2]; clear e2
        generalize whereCalls ops fuel f w xs (st + 1) depth s1 = q at P2 ⊢
        obtain ⟨r2, s2⟩ := q
        cases r2 with
        | ok v2 =>
          cases v2 with
          | list vs =>
            refine ⟨rfl, (P1.trans P2).re ?_⟩
            intro v' hv'
            cases hv'
            have hvs := P2.val _ rfl
            simp only [closedV_list] at hvs ⊢
            split
            · exact closedL_cons.mpr ⟨(hx.1.mono P1.names).mono P2.names, hvs⟩
            · exact hvs
          | _ => exact ⟨rfl, P1.trans P2⟩
        | _ => exact ⟨rfl, P1.trans P2⟩
      | _ => exact ⟨rfl, P1.re (by intro _ h; cases h)⟩
    | _ => exact ⟨rfl, P1.re (by intro _ h; cases h)⟩

theorem coin_viaPairs {fuel : Nat} (ih : Coin ops tl' fuel) (la lb : List Value) (depth n : Nat) (s : ES)
    (hS : SOK n tl' s) (ha : ClosedL s.names la) (hb : ClosedL s.names lb) :
    SimC n tl' ClosedV s (viaPairs ops (fuel + 1) la lb depth s)
      (viaPairs ops (fuel + 1) la lb depth (retail n tl' s)) := by
  have base : SimC n tl' ClosedV s (.ok (.list []), s) (.ok (.list []), retail n tl' s) :=
    ⟨rfl, PostC.same hS.cl (by intro v h; cases h; simp)⟩
  cases la with
  | nil => simp only [viaPairs]; exact base
  | cons x xs =>
    cases lb with
    | nil => simp only [viaPairs]; exact base
    | cons f fs =>
      rw [closedL_cons] at ha hb
      simp only [viaPairs]
      split
      · exact ⟨rfl, PostC.same hS.cl (by intro _ h; cases h)⟩
      · obtain ⟨e1, P1⟩ := ih.callFn f f [x] depth n s hS hb.1 hb.1 (by simp [ClosedL, ha.1])
        rw [e1]; clear e1
        generalize callFn ops fuel f f _ depth s = p at P1 ⊢
        obtain ⟨r1, s1⟩ := p
        cases r1 with
        | ok v =>
          dsimp only
          obtain ⟨e2, P2⟩ := ih.viaPairs xs fs depth n s1 (hS.nextC P1) (ha.2.mono P1.names) (hb.2.mono P1.names)
          rw [e2]; clear e2
          generalize viaPairs ops fuel xs fs depth s1 = q at P2 ⊢
          obtain ⟨r2, s2⟩ := q
          cases r2 with
          | ok v2 =>
            cases v2 with
            | list vs =>
              refine ⟨rfl, (P1.trans P2).re ?_⟩
              intro v' hv'
              cases hv'
              have hvs := P2.val _ rfl
              simp only [closedV_list] at hvs ⊢
              exact closedL_cons.mpr ⟨(P1.val v rfl).mono P2.names, hvs⟩
            | _ => exact ⟨rfl, P1.trans P2⟩
          | _ => exact ⟨rfl, P1.trans P2⟩
        | _ => exact ⟨rfl, P1.re (by intro _ h; cases h)⟩

theorem coin_keyCalls {fuel : Nat} (ih : Coin ops tl' fuel) (f : Value) (xs : List Value) (depth n : Nat) (s : ES)
    (hS : SOK n tl' s) (hf : ClosedV s.names f) (hx : ClosedL s.names xs) :
    keyCalls ops (fuel + 1) f xs depth (retail n tl' s) =
      ((keyCalls ops (fuel + 1) f xs depth s).1, retail n tl' (keyCalls ops (fuel + 1) f xs depth s).2) ∧
    (keyCalls ops (fuel + 1) f xs depth s).2.env = s.env ∧
    NamesLe s.names (keyCalls ops (fuel + 1) f xs depth s).2.names ∧
    ClosedE (keyCalls ops (fuel + 1) f xs depth s).2.names (keyCalls ops (fuel + 1) f xs depth s).2.env ∧
    ∀ kr ∈ (keyCalls ops (fuel + 1) f xs depth s).1, kr.1 ∈ xs := by
  cases xs with
  | nil => rw [keyCalls, keyCalls]; exact ⟨rfl, rfl, NamesLe.refl _, hS.cl, by simp⟩
  | cons x xs =>
    rw [closedL_cons] at hx
    rw [keyCalls, keyCalls]
    obtain ⟨e1, P1⟩ := ih.callFn f f [x] depth n s hS hf hf (by simp [ClosedL, hx.1])
    rw [e1]; clear e1
    generalize callFn ops fuel f f _ depth s = p at P1 ⊢
    obtain ⟨r1, s1⟩ := p
    dsimp only
    obtain ⟨e2, h2e, h2n, h2c, h2m⟩ := ih.keyCalls f xs depth n s1 (hS.nextC P1) (hf.mono P1.names)
      (hx.2.mono P1.names)
    rw [e2]; clear e2
    generalize keyCalls ops fuel f xs depth s1 = q at h2e h2n h2c h2m ⊢
    obtain ⟨rest, s2⟩ := q
    refine ⟨rfl, h2e.trans P1.env, P1.names.trans h2n, h2c, ?_⟩
    intro kr hkr
    simp only [List.mem_cons] at hkr ⊢
    rcases hkr with rfl | h
    · exact Or.inl rfl
    · exact Or.inr (h2m kr h)

theorem coin_callHof {fuel : Nat} (ih : Coin ops tl' fuel) (name : String) (args : List Value) (depth n : Nat)
    (s : ES) (hS : SOK n tl' s) (ha : ClosedL s.names args) :
    SimC n tl' ClosedV s (callHof ops (fuel + 1) name args depth s)
      (callHof ops (fuel + 1) name args depth (retail n tl' s)) := by
  have fail : ∀ {r : Outcome Value}, (∀ v, r ≠ .ok v) → SimC n tl' ClosedV s (r, s) (r, retail n tl' s) :=
    fun hr => ⟨rfl, PostC.same hS.cl (fun v hv => absurd hv (hr v))⟩
  rw [callHof, callHof]
  cases h0 : args[0]? with
  | none => exact fail (by intro _ h; cases h)
  | some lv =>
    cases h1 : args[1]? with
    | none => exact fail (by intro _ h; cases h)
    | some f =>
      have hlv := ha.getElem? h0
      have hfc := ha.getElem? h1
      dsimp only
      split
      · -- sort_by
        cases lv with
        | list l =>
          have hl : ClosedL s.names l := by simpa using hlv
          dsimp only
          split
          · exact ⟨rfl, PostC.same hS.cl (by intro v h; cases h; exact hlv)⟩
          · obtain ⟨e1, h1e, h1n, h1c, h1m⟩ := ih.keyCalls f l (depth + 1) n s hS hfc hl
            rw [e1]; clear e1
            generalize keyCalls ops fuel f l (depth + 1) s = q at h1e h1n h1c h1m ⊢
            obtain ⟨keyed, s1⟩ := q
            dsimp only
            split
            · exact ⟨rfl, h1e, h1n, h1c, by intro _ h; cases h⟩
            · refine ⟨rfl, h1e, h1n, h1c, ?_⟩
              intro v hv
              cases hv
              simp only [closedV_list]
              rw [closedL_iff]
              intro x hx
              simp only [List.mem_map] at hx
              obtain ⟨kr, hkr, rfl⟩ := hx
              exact (hl.mem (h1m kr (mem_mergeSortBy' _ kr _ _ hkr))).mono h1n
        | _ => exact fail (by intro _ h; cases h)
      · cases lv with
        | list l =>
          have hl : ClosedL s.names l := by simpa using hlv
          dsimp only
          cases har : arityOf f with
          | none => exact fail (by intro _ h; cases h)
          | some ar =>
            dsimp only
            split
            · -- map
              obtain ⟨e1, P1⟩ := ih.mapCalls f (ar.canAccept 2) l 0 (depth + 1) n s hS hfc hl
              rw [e1]; clear e1
              generalize mapCalls ops fuel f (ar.canAccept 2) l 0 (depth + 1) s = p at P1 ⊢
              obtain ⟨r1, s1⟩ := p
              cases r1 with
              | ok vs => exact ⟨rfl, P1.re (by intro v h; cases h; simpa using P1.val vs rfl)⟩
              | _ => exact ⟨rfl, P1.re (by intro _ h; cases h)⟩
            · exact ih.whereCalls f (ar.canAccept 2) l 0 (depth + 1) n s hS hfc hl
            · exact ih.quantCalls f (ar.canAccept 2) true l 0 (depth + 1) n s hS hfc hl
            · exact ih.quantCalls f (ar.canAccept 2) false l 0 (depth + 1) n s hS hfc hl
            · cases h2 : args[2]? with
              | none => exact fail (by intro _ h; cases h)
              | some init =>
                exact ih.foldCalls f (ar.canAccept 3) init l 0 (depth + 1) n s hS hfc (ha.getElem? h2) hl
            · -- group_by
              obtain ⟨e1, P1⟩ := ih.mapCalls f false l 0 (depth + 1) n s hS hfc hl
              rw [e1]; clear e1
              generalize mapCalls ops fuel f false l 0 (depth + 1) s = p at P1 ⊢
              obtain ⟨r1, s1⟩ := p
              cases r1 with
              | ok ks =>
                dsimp only
                cases hg : groupByKeys l ks with
                | none => exact ⟨rfl, P1.re (by intro _ h; cases h)⟩
                | some r =>
                  refine ⟨rfl, P1.re ?_⟩
                  intro v h; cases h
                  simpa using closedR_groupByKeys (hl.mono P1.names) hg
              | _ => exact ⟨rfl, P1.re (by intro _ h; cases h)⟩
            · -- count_by
              obtain ⟨e1, P1⟩ := ih.mapCalls f false l 0 (depth + 1) n s hS hfc hl
              rw [e1]; clear e1
              generalize mapCalls ops fuel f false l 0 (depth + 1) s = p at P1 ⊢
              obtain ⟨r1, s1⟩ := p
              cases r1 with
              | ok ks =>
                dsimp only
                cases hg : countByKeys ops ks with
                | none => exact ⟨rfl, P1.re (by intro _ h; cases h)⟩
                | some r =>
                  refine ⟨rfl, P1.re ?_⟩
                  intro v h; cases h
                  simpa using closedR_countByKeys hg
              | _ => exact ⟨rfl, P1.re (by intro _ h; cases h)⟩
            · exact fail (by intro _ h; cases h)
        | _ => exact fail (by intro _ h; cases h)

theorem coin_evalBin {fuel : Nat} (ih : Coin ops tl' fuel) (depth : Nat) (op : BinOp) (a b : Value) (n : Nat)
    (s : ES) (hS : SOK n tl' s) (ha : ClosedV s.names a) (hb : ClosedV s.names b) :
    SimC n tl' ClosedV s (evalBin ops (fuel + 1) depth op a b s)
      (evalBin ops (fuel + 1) depth op a b (retail n tl' s)) := by
  have fail : ∀ {r : Outcome Value}, (∀ v, r ≠ .ok v) → SimC n tl' ClosedV s (r, s) (r, retail n tl' s) :=
    fun hr => ⟨rfl, PostC.same hS.cl (fun v hv => absurd hv (hr v))⟩
  have pure : ∀ {r : Outcome Value}, (∀ v, r = .ok v → ClosedV s.names v) →
      SimC n tl' ClosedV s (r, s) (r, retail n tl' s) :=
    fun hr => ⟨rfl, PostC.same hS.cl hr⟩
  have mapc : ∀ (f : Value) (w : Bool) (l : List Value), ClosedV s.names f → ClosedL s.names l →
      SimC n tl' ClosedV s
        (match mapCalls ops fuel f w l 0 depth s with
          | (.ok vs, s1) => (.ok (.list vs), s1)
          | (.err k, s1) => (.err k, s1)
          | (.panic p, s1) => (.panic p, s1)
          | (.fuel, s1) => (.fuel, s1))
        (match mapCalls ops fuel f w l 0 depth (retail n tl' s) with
          | (.ok vs, s1) => (.ok (.list vs), s1)
          | (.err k, s1) => (.err k, s1)
          | (.panic p, s1) => (.panic p, s1)
          | (.fuel, s1) => (.fuel, s1)) := by
    intro f w l hf hl
    obtain ⟨e1, P1⟩ := ih.mapCalls f w l 0 depth n s hS hf hl
    rw [e1]; clear e1
    generalize mapCalls ops fuel f w l 0 depth s = p at P1 ⊢
    obtain ⟨r1, s1⟩ := p
    cases r1 with
    | ok vs => exact ⟨rfl, P1.re (by intro v h; cases h; simpa using P1.val vs rfl)⟩
    | _ => exact ⟨rfl, P1.re (by intro _ h; cases h)⟩
  rw [evalBin.eq_def, evalBin.eq_def]
  dsimp only
  split
  · exact pure (fun v hv => closed_compareOp hv)
  split
  · exact fail (by intro _ h; cases h)
  split
  · -- list, list
    rename_i _ _ _ la lb _
    have hla : ClosedL s.names la := by simpa using ha
    have hlb : ClosedL s.names lb := by simpa using hb
    split
    · exact fail (by intro _ h; cases h)
    · split
      · exact ih.viaPairs la lb depth n s hS hla hlb
      · exact fail (by intro _ h; cases h)
      · exact fail (by intro _ h; cases h)
      · exact pure (fun v hv => closed_zipScalar hla hlb hv)
  · -- list, scalar
    rename_i _ _ _ _ la _
    have hla : ClosedL s.names la := by simpa using ha
    split
    · split
      · exact fail (by intro _ h; cases h)
      · cases har : arityOf b with
        | none => exact fail (by intro _ h; cases h)
        | some ar => exact mapc b (ar.canAccept 2) la hb hla
    · split
      · exact fail (by intro _ h; cases h)
      · exact ih.callFn b b [.list la] depth n s hS hb hb (by simp [ClosedL, hla])
    · split
      · exact fail (by intro _ h; cases h)
      · cases har : arityOf b with
        | none => exact fail (by intro _ h; cases h)
        | some ar => exact ih.whereCalls b (ar.canAccept 2) la 0 depth n s hS hb hla
    · exact pure (fun v hv => closed_mapScalar hb hla hv)
  · -- scalar, list
    rename_i _ _ _ lb _ _
    have hlb : ClosedL s.names lb := by simpa using hb
    split
    · exact fail (by intro _ h; cases h)
    · exact fail (by intro _ h; cases h)
    · exact fail (by intro _ h; cases h)
    · exact pure (fun v hv => closed_mapScalar ha hlb hv)
  · -- scalar, scalar
    split
    · split
      · exact fail (by intro _ h; cases h)
      · exact ih.callFn b b [a] depth n s hS hb hb (by simp [ClosedL, ha])
    · split
      · exact fail (by intro _ h; cases h)
      · exact ih.callFn b b [a] depth n s hS hb hb (by simp [ClosedL, ha])
    · exact fail (by intro _ h; cases h)
    · exact pure (fun v hv => closed_scalarOp ha hb hv)

/-! ### lists of expressions, record entries -/

theorem coin_evalList {fuel : Nat} (ih : Coin ops tl' fuel) (depth : Nat) (es : List Expr) (n : Nat) (s : ES)
    (hd : 0 < depth) (hn : 0 < n) (hS : SOK n tl' s) (hw : noOutputList es = true)
    (hF : FOK n s.env (FreeInList · es)) :
    Sim n tl' ClosedL s (evalList ops (fuel + 1) depth es s) (evalList ops (fuel + 1) depth es (retail n tl' s)) := by
  cases es with
  | nil => rw [evalList, evalList]; exact ⟨rfl, Post.same hS.cl (by intro v h; cases h; simp)⟩
  | cons e es =>
    simp only [noOutputList, Bool.and_eq_true] at hw
    rw [evalList, evalList]
    obtain ⟨e1, P1⟩ := ih.eval depth e n s hd hn hS hw.1 (hF.imp fun x hx => .head hx)
    rw [e1]; clear e1
    generalize eval ops fuel depth e s = p at P1 ⊢
    obtain ⟨r1, s1⟩ := p
    cases r1 with
    | ok v =>
      dsimp only
      obtain ⟨e2, P2⟩ := ih.evalList depth es n s1 hd hn (hS.next hn P1) hw.2
        ((hF.imp fun x hx => .tail hx).step hn (hS.ne hn) P1.keys)
      rw [e2]; clear e2
      generalize evalList ops fuel depth es s1 = q at P2 ⊢
      obtain ⟨r2, s2⟩ := q
      cases r2 with
      | ok vs =>
        refine ⟨rfl, (P1.trans P2).re ?_⟩
        intro v' hv'
        cases hv'
        exact closedL_cons.mpr ⟨(P1.val v rfl).mono P2.names, P2.val vs rfl⟩
      | _ => exact ⟨rfl, (P1.trans P2).re (by intro _ h; cases h)⟩
    | _ => exact ⟨rfl, P1.re (by intro _ h; cases h)⟩

theorem coin_evalItems {fuel : Nat} (ih : Coin ops tl' fuel) (depth : Nat) (is : List Item) (n : Nat) (s : ES)
    (hd : 0 < depth) (hn : 0 < n) (hS : SOK n tl' s) (hw : noOutputItems is = true)
    (hF : FOK n s.env (FreeInItems · is)) :
    Sim n tl' ClosedL s (evalItems ops (fuel + 1) depth is s)
      (evalItems ops (fuel + 1) depth is (retail n tl' s)) := by
  cases is with
  | nil => rw [evalItems, evalItems]; exact ⟨rfl, Post.same hS.cl (by intro v h; cases h; simp)⟩
  | cons i is =>
    obtain ⟨_, e, _⟩ := i
    simp only [noOutputItems, noOutputItem, Bool.and_eq_true] at hw
    rw [evalItems, evalItems]
    obtain ⟨e1, P1⟩ := ih.eval depth e n s hd hn hS hw.1 (hF.imp fun x hx => .head hx)
    rw [e1]; clear e1
    generalize eval ops fuel depth e s = p at P1 ⊢
    obtain ⟨r1, s1⟩ := p
    cases r1 with
    | ok v =>
      dsimp only
      obtain ⟨e2, P2⟩ := ih.evalItems depth is n s1 hd hn (hS.next hn P1) hw.2
        ((hF.imp fun x hx => .tail hx).step hn (hS.ne hn) P1.keys)
      rw [e2]; clear e2
      generalize evalItems ops fuel depth is s1 = q at P2 ⊢
      obtain ⟨r2, s2⟩ := q
      cases r2 with
      | ok vs =>
        refine ⟨rfl, (P1.trans P2).re ?_⟩
        intro v' hv'
        cases hv'
        exact closedL_cons.mpr ⟨(P1.val v rfl).mono P2.names, P2.val vs rfl⟩
      | _ => exact ⟨rfl, (P1.trans P2).re (by intro _ h; cases h)⟩
    | _ => exact ⟨rfl, P1.re (by intro _ h; cases h)⟩

theorem coin_evalEntries {fuel : Nat} (ih : Coin ops tl' fuel) (depth : Nat) (es : List Entry) (acc : Frame)
    (n : Nat) (s : ES) (hd : 0 < depth) (hn : 0 < n) (hS : SOK n tl' s) (hw : noOutputEntries es = true)
    (hF : FOK n s.env (FreeInEntries · es)) (hacc : ClosedR s.names acc) :
    Sim n tl' ClosedR s (evalEntries ops (fuel + 1) depth es acc s)
      (evalEntries ops (fuel + 1) depth es acc (retail n tl' s)) := by
  cases es with
  | nil => rw [evalEntries, evalEntries]; exact ⟨rfl, Post.same hS.cl (by intro v h; cases h; exact hacc)⟩
  | cons en es =>
    obtain ⟨_, key, value, _⟩ := en
    simp only [noOutputEntries, noOutputEntry, Bool.and_eq_true] at hw
    have hFt : FOK n s.env (FreeInEntries · es) := hF.imp fun x hx => .tail hx
    cases key with
    | static kk =>
      rw [evalEntries, evalEntries]
      obtain ⟨e1, P1⟩ := ih.eval depth value n s hd hn hS hw.1.2 (hF.imp fun x hx => .head (.static hx))
      rw [e1]; clear e1
      generalize eval ops fuel depth value s = p at P1 ⊢
      obtain ⟨r1, s1⟩ := p
      cases r1 with
      | ok v =>
        dsimp only
        obtain ⟨e2, P2⟩ := ih.evalEntries depth es (insertAL kk v acc) n s1 hd hn (hS.next hn P1) hw.2
          (hFt.step hn (hS.ne hn) P1.keys) (closedR_insertAL (P1.val v rfl) (hacc.mono P1.names))
        rw [e2]
        exact ⟨rfl, P1.trans P2⟩
      | _ => exact ⟨rfl, P1.re (by intro _ h; cases h)⟩
    | dyn ke =>
      simp only [noOutputKey] at hw
      rw [evalEntries, evalEntries]
      obtain ⟨e1, P1⟩ := ih.eval depth ke n s hd hn hS hw.1.1 (hF.imp fun x hx => .head (.dynK hx))
      rw [e1]; clear e1
      generalize eval ops fuel depth ke s = p at P1 ⊢
      obtain ⟨r1, s1⟩ := p
      cases r1 with
      | ok kv =>
        cases kv with
        | str k =>
          dsimp only
          have hS1 := hS.next hn P1
          obtain ⟨e2, P2⟩ := ih.eval depth value n s1 hd hn hS1 hw.1.2
            ((hF.imp fun x hx => .head (.dynV hx)).step hn (hS.ne hn) P1.keys)
          rw [e2]; clear e2
          generalize eval ops fuel depth value s1 = q at P2 ⊢
          obtain ⟨r2, s2⟩ := q
          cases r2 with
          | ok v =>
            dsimp only
            have P12 := P1.trans P2
            obtain ⟨e3, P3⟩ := ih.evalEntries depth es (insertAL k v acc) n s2 hd hn (hS.next hn P12) hw.2
              (hFt.step hn (hS.ne hn) P12.keys) (closedR_insertAL (P2.val v rfl) (hacc.mono P12.names))
            rw [e3]
            exact ⟨rfl, P12.trans P3⟩
          | _ => exact ⟨rfl, (P1.trans P2).re (by intro _ h; cases h)⟩
        | _ => exact ⟨rfl, P1.re (by intro _ h; cases h)⟩
      | _ => exact ⟨rfl, P1.re (by intro _ h; cases h)⟩
    | short nm =>
      rw [evalEntries, evalEntries]
      have hA : Agree n tl' s.env nm := by
        rcases hF nm (.head .short) with h | h
        · rw [h]; exact hS.inp
        · exact h.agree
      unfold Agree at hA
      simp only [retail, hA]
      cases hg : envGet s.env nm with
      | none => exact ⟨rfl, Post.same hS.cl (by intro _ h; cases h)⟩
      | some v =>
        exact ih.evalEntries depth es (insertAL nm v acc) n s hd hn hS hw.2 hFt
          (closedR_insertAL (closed_envGet hS.cl hg) hacc)
    | spread se =>
      simp only [noOutputKey] at hw
      rw [evalEntries, evalEntries]
      obtain ⟨e1, P1⟩ := ih.eval depth se n s hd hn hS hw.1.1 (hF.imp fun x hx => .head (.spread hx))
      rw [e1]; clear e1
      generalize eval ops fuel depth se s = p at P1 ⊢
      obtain ⟨r1, s1⟩ := p
      cases r1 with
      | ok sv =>
        have hS1 := hS.next hn P1
        have hF1 := hFt.step hn (hS.ne hn) P1.keys
        have hacc1 := hacc.mono P1.names
        cases sv with
        | spread inner =>
          obtain ⟨e2, P2⟩ := ih.evalEntries depth es (spreadIntoRecord acc inner) n s1 hd hn hS1 hw.2 hF1
            (closedR_spreadIntoRecord hacc1 (by simpa using P1.val _ rfl))
          dsimp only
          rw [e2]
          exact ⟨rfl, P1.trans P2⟩
        | _ =>
          obtain ⟨e2, P2⟩ := ih.evalEntries depth es acc n s1 hd hn hS1 hw.2 hF1 hacc1
          dsimp only
          rw [e2]
          exact ⟨rfl, P1.trans P2⟩
      | _ => exact ⟨rfl, P1.re (by intro _ h; cases h)⟩

/-! ### expressions -/

/-- a free name is resolved identically with the replaced lower frames -/
theorem agree_of_fok {n : Nat} {s : ES} {P : String → Prop} (hS : SOK n tl' s) (hF : FOK n s.env P) {x : String}
    (hx : P x) : Agree n tl' s.env x := by
  rcases hF x hx with h | h
  · rw [h]; exact hS.inp
  · exact h.agree

/-- the final state of an assignment -/
theorem post_assign {s s1 : ES} {val : Value} (nm : String) (cv : Value)
    (P1 : Post ClosedV s (Outcome.ok val, s1)) :
    Post ClosedV s (Outcome.ok val,
      { setNameIfLambda s1 nm cv with env := envInsert (setNameIfLambda s1 nm cv).env nm val }) := by
  have hnl := setNameIfLambda_namesLe s1 nm cv
  refine ⟨?_, P1.names.trans hnl, ?_, ?_⟩
  · refine P1.keys.trans ?_
    simp only [setNameIfLambda_env]
    exact KeysExt.insert ..
  · simp only [setNameIfLambda_env]
    exact closedE_envInsert (P1.cl.mono hnl) ((P1.val val rfl).mono hnl)
  · intro v hv
    cases hv
    exact (P1.val val rfl).mono hnl

theorem eq_assign (n : Nat) (s1 : ES) (val : Value) (nm : String) (cv : Value) (hn : 0 < n)
    (hne : s1.env ≠ []) :
    ({ setNameIfLambda (retail n tl' s1) nm cv with
        env := envInsert (setNameIfLambda (retail n tl' s1) nm cv).env nm val } : ES) =
      retail n tl' { setNameIfLambda s1 nm cv with env := envInsert (setNameIfLambda s1 nm cv).env nm val } := by
  rw [setNameIfLambda_retail]
  have hk2 : (setNameIfLambda s1 nm cv).env ≠ [] := by rw [setNameIfLambda_env]; exact hne
  generalize setNameIfLambda s1 nm cv = s2 at hk2
  simp only [retail, retailE_insert n tl' s2.env nm val hn hk2]

theorem coin_eval {fuel : Nat} (ih : Coin ops tl' fuel) (depth : Nat) (e : Expr) (n : Nat) (s : ES)
    (hd : 0 < depth) (hn : 0 < n) (hS : SOK n tl' s) (hw : noOutput e = true) (hF : FOK n s.env (FreeIn · e)) :
    Sim n tl' ClosedV s (eval ops (fuel + 1) depth e s) (eval ops (fuel + 1) depth e (retail n tl' s)) := by
  have hE := hS.ne hn
  cases e with
  | num x => rw [eval, eval]; exact ⟨rfl, Post.same hS.cl (by intro v h; cases h; simp)⟩
  | str x => rw [eval, eval]; exact ⟨rfl, Post.same hS.cl (by intro v h; cases h; simp)⟩
  | bool x => rw [eval, eval]; exact ⟨rfl, Post.same hS.cl (by intro v h; cases h; simp)⟩
  | null => rw [eval, eval]; exact ⟨rfl, Post.same hS.cl (by intro v h; cases h; simp)⟩
  | builtin nm => rw [eval, eval]; exact ⟨rfl, Post.same hS.cl (by intro v h; cases h; simp)⟩
  | output inner => simp [noOutput] at hw
  | ident nm =>
    rw [eval, eval]
    split
    · exact ⟨rfl, Post.same hS.cl (by intro v h; cases h; simp)⟩
    rename_i h1
    split
    · exact ⟨rfl, Post.same hS.cl (by intro v h; cases h; simpa using closedR_constants)⟩
    rename_i h2
    have hns : nm ∉ Gen.specialIdents := by
      simp only [Bool.or_eq_true, beq_iff_eq, not_or] at h1 h2
      simp [Gen.specialIdents, h1.1, h1.2, h2]
    have hA := agree_of_fok hS hF (x := nm) (.ident hns)
    unfold Agree at hA
    simp only [retail, hA]
    cases hg : envGet s.env nm with
    | none => exact ⟨rfl, Post.same hS.cl (by intro _ h; cases h)⟩
    | some v => exact ⟨rfl, Post.same hS.cl (by intro v' h; cases h; exact closed_envGet hS.cl hg)⟩
  | inref field =>
    rw [eval, eval]
    have hA := hS.inp
    unfold Agree at hA
    simp only [retail, hA]
    cases hg : envGet s.env "inputs" with
    | none => exact ⟨rfl, Post.same hS.cl (by intro _ h; cases h)⟩
    | some v =>
      have hv := closed_envGet hS.cl hg
      cases v with
      | record r =>
        exact ⟨rfl, Post.same hS.cl (by intro v' h; cases h; exact closed_lookupAL_getD (by simpa using hv))⟩
      | _ => exact ⟨rfl, Post.same hS.cl (by intro _ h; cases h)⟩
  | un op inner =>
    simp only [noOutput] at hw
    rw [eval, eval]
    obtain ⟨e1, P1⟩ := ih.eval depth inner n s hd hn hS hw (hF.imp fun x hx => .un hx)
    rw [e1]; clear e1
    generalize eval ops fuel depth inner s = p at P1 ⊢
    obtain ⟨r, s1⟩ := p
    cases r with
    | ok v =>
      dsimp only
      split <;> exact ⟨rfl, P1.re (by intro v h; cases h <;> simp)⟩
    | _ => exact ⟨rfl, P1.re (by intro _ h; cases h)⟩
  | fact inner =>
    simp only [noOutput] at hw
    rw [eval, eval]
    obtain ⟨e1, P1⟩ := ih.eval depth inner n s hd hn hS hw (hF.imp fun x hx => .fact hx)
    rw [e1]; clear e1
    generalize eval ops fuel depth inner s = p at P1 ⊢
    obtain ⟨r, s1⟩ := p
    cases r with
    | ok v =>
      cases v with
      | num x =>
        dsimp only
        split <;> exact ⟨rfl, P1.re (by intro v h; cases h <;> simp)⟩
      | _ => exact ⟨rfl, P1.re (by intro _ h; cases h)⟩
    | _ => exact ⟨rfl, P1.re (by intro _ h; cases h)⟩
  | spread inner =>
    simp only [noOutput] at hw
    rw [eval, eval]
    obtain ⟨e1, P1⟩ := ih.eval depth inner n s hd hn hS hw (hF.imp fun x hx => .spread hx)
    rw [e1]; clear e1
    generalize eval ops fuel depth inner s = p at P1 ⊢
    obtain ⟨r, s1⟩ := p
    cases r with
    | ok v =>
      have hv := P1.val v rfl
      cases v with
      | list l => exact ⟨rfl, P1.re (by intro v h; cases h; simpa using hv)⟩
      | str l => exact ⟨rfl, P1.re (by intro v h; cases h; simp)⟩
      | record l => exact ⟨rfl, P1.re (by intro v h; cases h; simpa using hv)⟩
      | _ => exact ⟨rfl, P1.re (by intro _ h; cases h)⟩
    | _ => exact ⟨rfl, P1.re (by intro _ h; cases h)⟩
  | dot inner field =>
    simp only [noOutput] at hw
    rw [eval, eval]
    obtain ⟨e1, P1⟩ := ih.eval depth inner n s hd hn hS hw (hF.imp fun x hx => .dot hx)
    rw [e1]; clear e1
    generalize eval ops fuel depth inner s = p at P1 ⊢
    obtain ⟨r, s1⟩ := p
    cases r with
    | ok v =>
      have hv := P1.val v rfl
      cases v with
      | record l =>
        exact ⟨rfl, P1.re (by intro v h; cases h; exact closed_lookupAL_getD (by simpa using hv))⟩
      | _ => exact ⟨rfl, P1.re (by intro _ h; cases h)⟩
    | _ => exact ⟨rfl, P1.re (by intro _ h; cases h)⟩
  | cond c a b =>
    simp only [noOutput, Bool.and_eq_true] at hw
    rw [eval, eval]
    obtain ⟨e1, P1⟩ := ih.eval depth c n s hd hn hS hw.1.1 (hF.imp fun x hx => .condC hx)
    rw [e1]; clear e1
    generalize eval ops fuel depth c s = p at P1 ⊢
    obtain ⟨r, s1⟩ := p
    cases r with
    | ok v =>
      cases v with
      | bool bv =>
        cases bv
        · obtain ⟨e2, P2⟩ := ih.eval depth b n s1 hd hn (hS.next hn P1) hw.2
            ((hF.imp fun x hx => .condE hx).step hn hE P1.keys)
          dsimp only
          rw [e2]
          exact ⟨rfl, P1.trans P2⟩
        · obtain ⟨e2, P2⟩ := ih.eval depth a n s1 hd hn (hS.next hn P1) hw.1.2
            ((hF.imp fun x hx => .condT hx).step hn hE P1.keys)
          dsimp only
          rw [e2]
          exact ⟨rfl, P1.trans P2⟩
      | _ => exact ⟨rfl, P1.re (by intro _ h; cases h)⟩
    | _ => exact ⟨rfl, P1.re (by intro _ h; cases h)⟩
  | access e i =>
    simp only [noOutput, Bool.and_eq_true] at hw
    rw [eval, eval]
    obtain ⟨e1, P1⟩ := ih.eval depth e n s hd hn hS hw.1 (hF.imp fun x hx => .accessE hx)
    rw [e1]; clear e1
    generalize eval ops fuel depth e s = p at P1 ⊢
    obtain ⟨r1, s1⟩ := p
    cases r1 with
    | ok v =>
      dsimp only
      obtain ⟨e2, P2⟩ := ih.eval depth i n s1 hd hn (hS.next hn P1) hw.2
        ((hF.imp fun x hx => .accessI hx).step hn hE P1.keys)
      rw [e2]; clear e2
      generalize eval ops fuel depth i s1 = q at P2 ⊢
      obtain ⟨r2, s2⟩ := q
      cases r2 with
      | ok iv =>
        have hv := (P1.val v rfl).mono P2.names
        have P12 := P1.trans P2
        dsimp only
        repeat' split
        all_goals (
          refine ⟨rfl, P12.re ?_⟩
          intro _ h
          cases h
          all_goals first
            | (simp; done)
            | exact closed_lookupAL_getD (by simpa using hv)
            | exact closed_listGetD (by simpa using hv) _)
      | _ => exact ⟨rfl, (P1.trans P2).re (by intro _ h; cases h)⟩
    | _ => exact ⟨rfl, P1.re (by intro _ h; cases h)⟩
  | bin op l r =>
    simp only [noOutput, Bool.and_eq_true] at hw
    rw [eval, eval]
    obtain ⟨e1, P1⟩ := ih.eval depth l n s hd hn hS hw.1 (hF.imp fun x hx => .binL hx)
    rw [e1]; clear e1
    generalize eval ops fuel depth l s = p at P1 ⊢
    obtain ⟨r1, s1⟩ := p
    cases r1 with
    | ok a =>
      dsimp only
      have hS1 := hS.next hn P1
      obtain ⟨e2, P2⟩ := ih.eval depth r n s1 hd hn hS1 hw.2
        ((hF.imp fun x hx => .binR hx).step hn hE P1.keys)
      rw [e2]; clear e2
      generalize eval ops fuel depth r s1 = q at P2 ⊢
      obtain ⟨r2, s2⟩ := q
      cases r2 with
      | ok b =>
        dsimp only
        have P12 := P1.trans P2
        obtain ⟨e3, P3⟩ := ih.evalBin depth op a b n s2 (hS.next hn P12) ((P1.val a rfl).mono P2.names)
          (P2.val b rfl)
        rw [e3]
        exact ⟨rfl, P12.trans P3.toPost⟩
      | _ => exact ⟨rfl, (P1.trans P2).re (by intro _ h; cases h)⟩
    | _ => exact ⟨rfl, P1.re (by intro _ h; cases h)⟩
  | list items =>
    simp only [noOutput] at hw
    rw [eval, eval]
    obtain ⟨e1, P1⟩ := ih.evalItems depth items n s hd hn hS hw (hF.imp fun x hx => .list hx)
    rw [e1]; clear e1
    generalize evalItems ops fuel depth items s = p at P1 ⊢
    obtain ⟨r, s1⟩ := p
    cases r with
    | ok vs =>
      exact ⟨rfl, P1.re (by intro v h; cases h; simpa using closedL_flattenSpreads (P1.val vs rfl))⟩
    | _ => exact ⟨rfl, P1.re (by intro _ h; cases h)⟩
  | record es =>
    simp only [noOutput] at hw
    rw [eval, eval]
    obtain ⟨e1, P1⟩ := ih.evalEntries depth es [] n s hd hn hS hw (hF.imp fun x hx => .record hx) (by simp)
    rw [e1]; clear e1
    generalize evalEntries ops fuel depth es [] s = p at P1 ⊢
    obtain ⟨r, s1⟩ := p
    cases r with
    | ok vs => exact ⟨rfl, P1.re (by intro v h; cases h; simpa using P1.val vs rfl)⟩
    | _ => exact ⟨rfl, P1.re (by intro _ h; cases h)⟩
  | assign nm v =>
    simp only [noOutput] at hw
    have hcont : ∀ s : ES, s.env ≠ [] →
        alreadyDefined depth (retail n tl' s).env nm = alreadyDefined depth s.env nm :=
      fun s hs => retailE_alreadyDefined n tl' s.env nm depth hd hn hs
    rw [eval, eval, hcont s hE]
    split
    · exact ⟨rfl, Post.same hS.cl (by intro _ h; cases h)⟩
    split
    · exact ⟨rfl, Post.same hS.cl (by intro _ h; cases h)⟩
    split
    · exact ⟨rfl, Post.same hS.cl (by intro _ h; cases h)⟩
    obtain ⟨e1, P1⟩ := ih.eval depth v n s hd hn hS hw (hF.imp fun x hx => .assign hx)
    rw [e1]; clear e1
    generalize eval ops fuel depth v s = p at P1 ⊢
    obtain ⟨r, s1⟩ := p
    cases r with
    | ok val =>
      dsimp only
      have hne1 : s1.env ≠ [] := (hS.next hn P1).ne hn
      rw [hcont s1 hne1]
      split
      · exact ⟨rfl, P1.re (by intro _ h; cases h)⟩
      · simp only [show (retail n tl' s).nextId = s.nextId from rfl]
        exact ⟨by rw [eq_assign n s1 val nm _ hn hne1], post_assign nm _ P1⟩
    | _ => exact ⟨rfl, P1.re (by intro _ h; cases h)⟩
  | lambda args body =>
    simp only [noOutput] at hw
    rw [eval, eval]
    split
    · exact ⟨rfl, Post.same hS.cl (by intro _ h; cases h)⟩
    have hcap : captureScope (retail n tl' s).env (freeVars (args.map LArg.name) body) =
        captureScope s.env (freeVars (args.map LArg.name) body) := by
      unfold captureScope
      apply captureScope_congr
      intro y hy
      have hfy := (freeVars_iff body _ y hw).mp hy
      exact agree_of_fok hS hF (x := y) (.lambda hfy.1 hfy.2)
    simp only [hcap]
    refine ⟨rfl, KeysExt.refl _, NamesLe.refl _, hS.cl, ?_⟩
    intro v hv
    cases hv
    rw [closedV_lambda]
    refine ⟨?_, hw, closedR_captureScope hS.cl _⟩
    intro x hx
    by_cases hxa : x ∈ args.map LArg.name
    · exact Or.inl hxa
    · rcases hF x (.lambda hx hxa) with h | h
      · exact Or.inr (Or.inr (Or.inr h))
      · refine Or.inr (Or.inl ?_)
        have hfv : x ∈ freeVars (args.map LArg.name) body :=
          (freeVars_iff body _ x hw).mpr ⟨hx, hxa⟩
        show (lookupAL x (captureScope s.env (freeVars (args.map LArg.name) body))).isSome
        rw [captureScope_lookup, if_pos hfv]
        exact h.get
  | doBlock stmts ret =>
    simp only [noOutput, Bool.and_eq_true] at hw
    rw [eval, eval]
    have hS1 : SOK (n + 1) tl' { s with env := [] :: s.env } :=
      ⟨by simp; exact hS.len, hS.inp.push' [], closedE_cons.mpr ⟨by simp, hS.cl⟩⟩
    obtain ⟨e1, P1⟩ := ih.evalDo depth stmts ret (n + 1) { s with env := [] :: s.env } hd (by omega) hS1
      hw.1 hw.2 ((hF.imp fun x hx => .doBlock hx).push [])
    have e0 : ({ retail n tl' s with env := [] :: (retail n tl' s).env } : ES) =
        retail (n + 1) tl' { s with env := [] :: s.env } := rfl
    rw [e0, e1]; clear e1
    have hsb := (evalDo_keys ops fuel depth stmts ret { s with env := [] :: s.env }).below
    have hne : (evalDo ops fuel depth stmts ret { s with env := [] :: s.env }).2.env ≠ [] := by
      have := hsb.length (by simp)
      intro e; rw [e] at this; simp at this
    have hdrop := hsb.drop_push
    generalize evalDo ops fuel depth stmts ret { s with env := [] :: s.env } = p at P1 hne hdrop ⊢
    obtain ⟨r, s1⟩ := p
    refine ⟨by simp only [retail, retailE_drop n tl' s1.env hne], ?_, P1.names, closedE_drop P1.cl 1, P1.val⟩
    show KeysExt s.env (s1.env.drop 1)
    rw [hdrop]
    exact KeysExt.refl _
  | call f args =>
    simp only [noOutput, Bool.and_eq_true] at hw
    rw [eval, eval]
    obtain ⟨e1, P1⟩ := ih.eval depth f n s hd hn hS hw.1 (hF.imp fun x hx => .callF hx)
    rw [e1]; clear e1
    generalize eval ops fuel depth f s = p at P1 ⊢
    obtain ⟨r1, s1⟩ := p
    cases r1 with
    | ok fv =>
      dsimp only
      obtain ⟨e2, P2⟩ := ih.evalList depth args n s1 hd hn (hS.next hn P1) hw.2
        ((hF.imp fun x hx => .callA hx).step hn hE P1.keys)
      rw [e2]; clear e2
      generalize evalList ops fuel depth args s1 = q at P2 ⊢
      obtain ⟨r2, s2⟩ := q
      cases r2 with
      | ok raw =>
        dsimp only
        have P12 := P1.trans P2
        split
        · exact ⟨rfl, P12.re (by intro _ h; cases h)⟩
        · have hfv := (P1.val fv rfl).mono P2.names
          obtain ⟨e3, P3⟩ := ih.callFn fv fv (flattenSpreads raw) depth n s2 (hS.next hn P12) hfv hfv
            (closedL_flattenSpreads (P2.val raw rfl))
          rw [e3]
          exact ⟨rfl, P12.trans P3.toPost⟩
      | _ => exact ⟨rfl, (P1.trans P2).re (by intro _ h; cases h)⟩
    | _ => exact ⟨rfl, P1.re (by intro _ h; cases h)⟩

/-! ### do-blocks -/

theorem coin_evalDoStmt {fuel : Nat} (ih : Coin ops tl' fuel) (depth : Nat) (e : Expr) (n : Nat) (s : ES)
    (hd : 0 < depth) (hn : 0 < n) (hS : SOK n tl' s) (hw : noOutput e = true) (hF : FOK n s.env (FreeIn · e)) :
    Sim n tl' ClosedV s (evalDoStmt ops (fuel + 1) depth e s)
      (evalDoStmt ops (fuel + 1) depth e (retail n tl' s)) := by
  rw [evalDoStmt.eq_def, evalDoStmt.eq_def]
  dsimp only
  cases e with
  | assign nm v =>
    simp only [noOutput] at hw
    dsimp only
    split
    · exact ⟨rfl, Post.same hS.cl (by intro _ h; cases h)⟩
    obtain ⟨e1, P1⟩ := ih.eval depth v n s hd hn hS hw (hF.imp fun x hx => .assign hx)
    rw [e1]; clear e1
    generalize eval ops fuel depth v s = p at P1 ⊢
    obtain ⟨r, s1⟩ := p
    cases r with
    | ok val =>
      dsimp only
      have hne1 : s1.env ≠ [] := (hS.next hn P1).ne hn
      simp only [show (retail n tl' s).nextId = s.nextId from rfl]
      exact ⟨by rw [eq_assign n s1 val nm _ hn hne1], post_assign nm _ P1⟩
    | _ => exact ⟨rfl, P1.re (by intro _ h; cases h)⟩
  | _ => exact ih.eval depth _ n s hd hn hS hw hF

theorem coin_evalDo {fuel : Nat} (ih : Coin ops tl' fuel) (depth : Nat) (stmts : List Item) (ret : Item)
    (n : Nat) (s : ES) (hd : 0 < depth) (hn : 0 < n) (hS : SOK n tl' s) (hw1 : noOutputItems stmts = true)
    (hw2 : noOutputItem ret = true) (hF : FOK n s.env (FreeInDo · stmts ret)) :
    Sim n tl' ClosedV s (evalDo ops (fuel + 1) depth stmts ret s)
      (evalDo ops (fuel + 1) depth stmts ret (retail n tl' s)) := by
  cases stmts with
  | nil =>
    obtain ⟨_, e, _⟩ := ret
    rw [evalDo, evalDo]
    exact ih.evalDoStmt depth e n s hd hn hS hw2 (hF.imp fun x hx => .ret hx)
  | cons i rest =>
    obtain ⟨_, e, _⟩ := i
    simp only [noOutputItems, noOutputItem, Bool.and_eq_true] at hw1
    rw [evalDo, evalDo]
    obtain ⟨e1, P1⟩ := ih.evalDoStmt depth e n s hd hn hS hw1.1 (hF.imp fun x hx => .here hx)
    rw [e1]; clear e1
    have hb : ∀ val s1, evalDoStmt ops fuel depth e s = (.ok val, s1) →
        ∀ x v, e = .assign x v → (lookupAL x (s1.env.headD [])).isSome := by
      intro val s1 h x v he
      subst he
      exact evalDoStmt_assign_binds ops fuel depth x v s s1 val h
    generalize evalDoStmt ops fuel depth e s = p at P1 hb ⊢
    obtain ⟨r, s1⟩ := p
    cases r with
    | ok val =>
      dsimp only
      have hS1 := hS.next hn P1
      obtain ⟨e2, P2⟩ := ih.evalDo depth rest ret n s1 hd hn hS1 hw1.2 hw2 (by
        intro x hx
        by_cases hbx : ∃ v, e = .assign x v
        · obtain ⟨v, hv⟩ := hbx
          have h1 := hb val s1 rfl x v hv
          have hne := hS1.ne hn
          obtain ⟨m, rfl⟩ : ∃ m, n = m + 1 := ⟨n - 1, by omega⟩
          cases hs1 : s1.env with
          | nil => exact absurd hs1 hne
          | cons f1 R =>
            rw [hs1] at h1
            exact Or.inr (InTop.of_top h1)
        · exact (hF x (.later hx (fun v hv => hbx ⟨v, hv⟩))).imp_right
            (InTop.mono hn (hS.ne hn) P1.keys))
      rw [e2]
      exact ⟨rfl, P1.trans P2⟩
    | _ => exact ⟨rfl, P1.re (by intro _ h; cases h)⟩

/-! ### the induction -/

theorem coin_succ {fuel : Nat} (ih : Coin ops tl' fuel) : Coin ops tl' (fuel + 1) :=
  ⟨coin_eval ih, coin_evalList ih, coin_evalItems ih, coin_evalEntries ih, coin_evalDoStmt ih, coin_evalDo ih,
   coin_callFn ih, coin_mapCalls ih, coin_quantCalls ih, coin_foldCalls ih, coin_keyCalls ih, coin_callHof ih,
   coin_evalBin ih, coin_viaPairs ih, coin_whereCalls ih⟩

theorem coin (ops : NumOps) (tl' : List Frame) : ∀ fuel, Coin ops tl' fuel
  | 0 => coin_zero
  | fuel + 1 => coin_succ (coin ops tl' fuel)

end

/-! ### call-site independence -/

/-- a caller with nothing but `inputs` -/
def bareCaller (s : ES) : ES :=
  { s with env := match envGet s.env "inputs" with
                  | some v => [[("inputs", v)]]
                  | none => [] }

theorem envGet_bareCaller (s : ES) : envGet (bareCaller s).env "inputs" = envGet s.env "inputs" := by
  unfold bareCaller
  cases h : envGet s.env "inputs" with
  | none => rfl
  | some v => simp [envGet, lookupAL]

theorem sok_bareCaller (s : ES) (tl' : List Frame) (hin : envGet tl' "inputs" = envGet s.env "inputs")
    (hinC : ∀ v, envGet s.env "inputs" = some v → ClosedV s.names v) : SOK 0 tl' (bareCaller s) := by
  refine ⟨Nat.zero_le _, ?_, ?_⟩
  · unfold Agree
    rw [envGet_bareCaller]
    simpa [retailE] using hin
  · unfold bareCaller
    cases h : envGet s.env "inputs" with
    | none => simp
    | some v =>
      intro f hf
      simp only [List.mem_singleton] at hf
      subst hf
      simp [ClosedR, hinC v h]

/-- a call of a hereditarily closed function value with closed arguments (and a closed value of
    `inputs`) runs identically from the caller `s` and from the caller that has nothing but
    `inputs`: same outcome, same final id counter and display names, caller's environment
    restored -/
theorem callFn_from_bare (ops : NumOps) (fuel : Nat) (fv this : Value) (args : List Value) (depth : Nat) (s : ES)
    (hinC : ∀ v, envGet s.env "inputs" = some v → ClosedV s.names v)
    (hf : ClosedV s.names fv) (ht : ClosedV s.names this) (ha : ClosedL s.names args) :
    callFn ops fuel fv this args depth s =
      ((callFn ops fuel fv this args depth (bareCaller s)).1,
       { (callFn ops fuel fv this args depth (bareCaller s)).2 with env := s.env }) := by
  have h := ((coin ops s.env fuel).callFn fv this args depth 0 (bareCaller s)
    (sok_bareCaller s s.env rfl hinC) hf ht ha).1
  have e : retail 0 s.env (bareCaller s) = s := by cases s; rfl
  rw [e] at h
  rw [h]
  rfl

/-- CALL-SITE INDEPENDENCE through arbitrary nested calls: a hereditarily closed function value
    (`ClosedV`: closed after capture, and so is every function it captured, recursively), called
    with closed arguments from two callers that agree on the id counter, the display names and
    `inputs` (whose value is closed), at the same fuel and call depth: same outcome, and the
    final states differ only in the environment, which is each caller's own.  Nothing is assumed
    of the callers' environments: they may bind the function's captured names, parameters and
    anything else to arbitrary (also non-closed) values. -/
theorem callFn_site_independent (ops : NumOps) (fuel : Nat) (fv this : Value) (args : List Value) (depth : Nat)
    (s s' : ES) (hid : s.nextId = s'.nextId) (hnames : s.names = s'.names)
    (hin : envGet s.env "inputs" = envGet s'.env "inputs")
    (hinC : ∀ v, envGet s.env "inputs" = some v → ClosedV s.names v)
    (hf : ClosedV s.names fv) (ht : ClosedV s.names this) (ha : ClosedL s.names args) :
    callFn ops fuel fv this args depth s' =
      ((callFn ops fuel fv this args depth s).1,
       { (callFn ops fuel fv this args depth s).2 with env := s'.env }) := by
  have hb : bareCaller s' = bareCaller s := by
    unfold bareCaller
    rw [← hin, ← hid, ← hnames]
  rw [callFn_from_bare ops fuel fv this args depth s hinC hf ht ha,
    callFn_from_bare ops fuel fv this args depth s' (by rw [← hin, ← hnames]; exact hinC)
      (by rw [← hnames]; exact hf) (by rw [← hnames]; exact ht) (by rw [← hnames]; exact ha), hb]

/-- "all of whose free names were bound at definition": a function created by evaluating
    `(ps) => body` in an environment whose values are closed is hereditarily closed w.r.t. any
    later display names `N'`, provided each free name of the body that is not a parameter is
    bound at that moment, or is `inputs`, or is the name the function gets (recursion through
    the self name: `f = (n) => … f(n - 1) …`) -/
theorem created_closed (ops : NumOps) (fuel depth : Nat) (ps : List LArg) (body : Expr) (s s1 : ES) (v : Value)
    (N' : List (Nat × String)) (hN : NamesLe s.names N') (hw : noOutput body = true) (hE : ClosedE s.names s.env)
    (hfree : ∀ x, FreeIn x body → x ∉ ps.map LArg.name →
      x = "inputs" ∨ (envGet s.env x).isSome ∨ nameOf N' s.nextId = some x)
    (h : eval ops fuel depth (.lambda ps body) s = (.ok v, s1)) : ClosedV N' v := by
  cases fuel with
  | zero => simp [eval] at h
  | succ fuel =>
    rw [eval] at h
    split at h
    · cases h
    · cases h
      rw [closedV_lambda]
      refine ⟨?_, hw, (closedR_captureScope hE _).mono hN⟩
      intro x hx
      by_cases hxa : x ∈ ps.map LArg.name
      · exact Or.inl hxa
      · rcases hfree x hx hxa with h | h | h
        · exact Or.inr (Or.inr (Or.inr h))
        · refine Or.inr (Or.inl ?_)
          have hfv : x ∈ freeVars (ps.map LArg.name) body :=
            (freeVars_iff body _ x hw).mpr ⟨hx, hxa⟩
          rw [captureScope_lookup, if_pos hfv]
          exact h
        · exact Or.inr (Or.inr (Or.inl h))

/-! ### concrete values for the examples of Props/C04.lean -/

namespace C04Ex

/-- `g = (t) => [t, y]` with `y ↦ 1` captured -/
def exG : Value := .lambda 2 [.req "t"] (.list [it (.ident "t"), it (.ident "y")]) [("y", .num F64.one)]
/-- body `[g(a), y, map([a], g)]`: calls a captured closure directly and through `map` -/
def exBody : Expr :=
  .list [it (.call (.ident "g") [.ident "a"]), it (.ident "y"),
         it (.call (.builtin "map") [.list [it (.ident "a")], .ident "g"])]
/-- `f = (a) => [g(a), y, map([a], g)]` with `g` and `y ↦ true` captured -/
def exF : Value := .lambda 1 [.req "a"] exBody [("g", exG), ("y", .bool true)]

theorem exG_closed : ClosedV [] exG := by
  rw [exG, closedV_lambda]
  exact ⟨closedFn_of_freeVars (by decide) (by decide), by decide, by simp [ClosedR]⟩

theorem exF_closed : ClosedV [] exF := by
  rw [exF, closedV_lambda]
  exact ⟨closedFn_of_freeVars (by decide) (by decide), by decide, by simp [ClosedR, exG_closed]⟩

theorem map_arity : builtinArity "map" = some (.exact 2) := by decide

/-- (D3, fixed) `F = () => (((sqrt) => (() => {sqrt}))(1))()`: no free names; the record
    shorthand reads a variable spelled like a built-in (which `captureScope` did not capture
    before the fix) -/
def d3Body : Expr :=
  .call (.call (.lambda [.req "sqrt"] (.lambda [] (.record [.mk [] (.short "sqrt") .null none]))) [.num F64.one]) []
def d3F : Value := .lambda 1 [] d3Body []

/-- `g = (x) => y` with `y` unbound at definition (late binding), captured by `f = (a) => g(a)` -/
def lateG : Value := .lambda 2 [.req "x"] (.ident "y") []
def lateF : Value := .lambda 1 [.req "a"] (.call (.ident "g") [.ident "a"]) [("g", lateG)]

end C04Ex

end Blots
