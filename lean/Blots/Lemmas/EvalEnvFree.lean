import Blots.Model.Eval
/-
  `collect_free_variables` (model: `freeVars`) against a declarative definition of free
  occurrence (`FreeIn`), C04 item 1.
-/
namespace Blots

/-! ### free occurrence, declaratively -/

mutual
/-- `FreeIn x e`: the name `x` is read by `e` from the enclosing scope.  Binders: the parameters
    of a function (for its body) and a direct assignment statement of a do-block (for the
    statements after it and the `return`).  `inf`, `infinity`, `constants` as identifiers are
    not variables; the record shorthand `{x}` reads the variable `x` (whatever its name). -/
inductive FreeIn : String → Expr → Prop
  | ident {x} : x ∉ Gen.specialIdents → FreeIn x (.ident x)
  | lambda {x args body} : FreeIn x body → x ∉ args.map LArg.name → FreeIn x (.lambda args body)
  | binL {x op l r} : FreeIn x l → FreeIn x (.bin op l r)
  | binR {x op l r} : FreeIn x r → FreeIn x (.bin op l r)
  | un {x op e} : FreeIn x e → FreeIn x (.un op e)
  | fact {x e} : FreeIn x e → FreeIn x (.fact e)
  | spread {x e} : FreeIn x e → FreeIn x (.spread e)
  | callF {x f args} : FreeIn x f → FreeIn x (.call f args)
  | callA {x f args} : FreeInList x args → FreeIn x (.call f args)
  | accessE {x e i} : FreeIn x e → FreeIn x (.access e i)
  | accessI {x e i} : FreeIn x i → FreeIn x (.access e i)
  | dot {x e f} : FreeIn x e → FreeIn x (.dot e f)
  | condC {x c t e} : FreeIn x c → FreeIn x (.cond c t e)
  | condT {x c t e} : FreeIn x t → FreeIn x (.cond c t e)
  | condE {x c t e} : FreeIn x e → FreeIn x (.cond c t e)
  | assign {x n v} : FreeIn x v → FreeIn x (.assign n v)
  | output {x e} : FreeIn x e → FreeIn x (.output e)
  | list {x items} : FreeInItems x items → FreeIn x (.list items)
  | record {x es} : FreeInEntries x es → FreeIn x (.record es)
  | doBlock {x stmts ret} : FreeInDo x stmts ret → FreeIn x (.doBlock stmts ret)
inductive FreeInList : String → List Expr → Prop
  | head {x e es} : FreeIn x e → FreeInList x (e :: es)
  | tail {x e es} : FreeInList x es → FreeInList x (e :: es)
inductive FreeInItems : String → List Item → Prop
  | head {x l e t is} : FreeIn x e → FreeInItems x (.mk l e t :: is)
  | tail {x i is} : FreeInItems x is → FreeInItems x (i :: is)
/-- sequential scoping of a do-block: free in a statement, or free further on and not bound by
    this statement -/
inductive FreeInDo : String → List Item → Item → Prop
  | ret {x l e t} : FreeIn x e → FreeInDo x [] (.mk l e t)
  | here {x l e t rest ret} : FreeIn x e → FreeInDo x (.mk l e t :: rest) ret
  | later {x l e t rest ret} : FreeInDo x rest ret → (∀ v, e ≠ .assign x v) →
      FreeInDo x (.mk l e t :: rest) ret
inductive FreeInEntries : String → List Entry → Prop
  | head {x e es} : FreeInEntry x e → FreeInEntries x (e :: es)
  | tail {x e es} : FreeInEntries x es → FreeInEntries x (e :: es)
inductive FreeInEntry : String → Entry → Prop
  | static {x l k v t} : FreeIn x v → FreeInEntry x (.mk l (.static k) v t)
  | dynK {x l ke v t} : FreeIn x ke → FreeInEntry x (.mk l (.dyn ke) v t)
  | dynV {x l ke v t} : FreeIn x v → FreeInEntry x (.mk l (.dyn ke) v t)
  | short {x l v t} : FreeInEntry x (.mk l (.short x) v t)
  | spread {x l se v t} : FreeIn x se → FreeInEntry x (.mk l (.spread se) v t)
end

/-! ### inversion -/

section inv
variable {x : String}

theorem freeIn_ident {n} : FreeIn x (.ident n) ↔ x = n ∧ n ∉ Gen.specialIdents :=
  ⟨fun h => by cases h; exact ⟨rfl, ‹_›⟩, fun ⟨h1, h2⟩ => by subst h1; exact .ident h2⟩
theorem freeIn_lambda {args body} : FreeIn x (.lambda args body) ↔ FreeIn x body ∧ x ∉ args.map LArg.name :=
  ⟨fun h => by cases h; exact ⟨‹_›, ‹_›⟩, fun ⟨h1, h2⟩ => .lambda h1 h2⟩
theorem freeIn_bin {op l r} : FreeIn x (.bin op l r) ↔ FreeIn x l ∨ FreeIn x r :=
  ⟨fun h => by cases h <;> simp [*], fun h => h.elim .binL .binR⟩
theorem freeIn_un {op e} : FreeIn x (.un op e) ↔ FreeIn x e :=
  ⟨fun h => by cases h; assumption, .un⟩
theorem freeIn_fact {e} : FreeIn x (.fact e) ↔ FreeIn x e :=
  ⟨fun h => by cases h; assumption, .fact⟩
theorem freeIn_spread {e} : FreeIn x (.spread e) ↔ FreeIn x e :=
  ⟨fun h => by cases h; assumption, .spread⟩
theorem freeIn_call {f args} : FreeIn x (.call f args) ↔ FreeIn x f ∨ FreeInList x args :=
  ⟨fun h => by cases h <;> simp [*], fun h => h.elim .callF .callA⟩
theorem freeIn_access {e i} : FreeIn x (.access e i) ↔ FreeIn x e ∨ FreeIn x i :=
  ⟨fun h => by cases h <;> simp [*], fun h => h.elim .accessE .accessI⟩
theorem freeIn_dot {e f} : FreeIn x (.dot e f) ↔ FreeIn x e :=
  ⟨fun h => by cases h; assumption, .dot⟩
theorem freeIn_cond {c t e} : FreeIn x (.cond c t e) ↔ FreeIn x c ∨ FreeIn x t ∨ FreeIn x e :=
  ⟨fun h => by cases h <;> simp [*], fun h => h.elim .condC (fun h => h.elim .condT .condE)⟩
theorem freeIn_assign {n v} : FreeIn x (.assign n v) ↔ FreeIn x v :=
  ⟨fun h => by cases h; assumption, .assign⟩
theorem freeIn_output {e} : FreeIn x (.output e) ↔ FreeIn x e :=
  ⟨fun h => by cases h; assumption, .output⟩
theorem freeIn_list {items} : FreeIn x (.list items) ↔ FreeInItems x items :=
  ⟨fun h => by cases h; assumption, .list⟩
theorem freeIn_record {es} : FreeIn x (.record es) ↔ FreeInEntries x es :=
  ⟨fun h => by cases h; assumption, .record⟩
theorem freeIn_doBlock {stmts ret} : FreeIn x (.doBlock stmts ret) ↔ FreeInDo x stmts ret :=
  ⟨fun h => by cases h; assumption, .doBlock⟩
theorem freeIn_num {a} : ¬ FreeIn x (.num a) := fun h => by cases h
theorem freeIn_str {a} : ¬ FreeIn x (.str a) := fun h => by cases h
theorem freeIn_bool {a} : ¬ FreeIn x (.bool a) := fun h => by cases h
theorem freeIn_null : ¬ FreeIn x .null := fun h => by cases h
theorem freeIn_inref {a} : ¬ FreeIn x (.inref a) := fun h => by cases h
theorem freeIn_builtin {a} : ¬ FreeIn x (.builtin a) := fun h => by cases h

theorem freeInList_nil : ¬ FreeInList x [] := fun h => by cases h
theorem freeInList_cons {e es} : FreeInList x (e :: es) ↔ FreeIn x e ∨ FreeInList x es :=
  ⟨fun h => by cases h <;> simp [*], fun h => h.elim .head .tail⟩
theorem freeInItems_nil : ¬ FreeInItems x [] := fun h => by cases h
theorem freeInItems_cons {l e t is} : FreeInItems x (.mk l e t :: is) ↔ FreeIn x e ∨ FreeInItems x is :=
  ⟨fun h => by cases h <;> simp [*], fun h => h.elim .head .tail⟩
theorem freeInDo_nil {l e t} : FreeInDo x [] (.mk l e t) ↔ FreeIn x e :=
  ⟨fun h => by cases h; assumption, .ret⟩
theorem freeInDo_cons {l e t rest ret} : FreeInDo x (.mk l e t :: rest) ret ↔
    FreeIn x e ∨ (FreeInDo x rest ret ∧ ∀ v, e ≠ .assign x v) :=
  ⟨fun h => by cases h <;> simp [*], fun h => h.elim .here (fun h => .later h.1 h.2)⟩
theorem freeInEntries_nil : ¬ FreeInEntries x [] := fun h => by cases h
theorem freeInEntries_cons {e es} : FreeInEntries x (e :: es) ↔ FreeInEntry x e ∨ FreeInEntries x es :=
  ⟨fun h => by cases h <;> simp [*], fun h => h.elim .head .tail⟩
theorem freeInEntry_static {l k v t} : FreeInEntry x (.mk l (.static k) v t) ↔ FreeIn x v :=
  ⟨fun h => by cases h; assumption, .static⟩
theorem freeInEntry_dyn {l ke v t} : FreeInEntry x (.mk l (.dyn ke) v t) ↔ FreeIn x ke ∨ FreeIn x v :=
  ⟨fun h => by cases h <;> simp [*], fun h => h.elim .dynK .dynV⟩
theorem freeInEntry_short {l n v t} : FreeInEntry x (.mk l (.short n) v t) ↔ x = n :=
  ⟨fun h => by cases h; rfl, fun h => by subst h; exact .short⟩
theorem freeInEntry_spread {l se v t} : FreeInEntry x (.mk l (.spread se) v t) ↔ FreeIn x se :=
  ⟨fun h => by cases h; assumption, .spread⟩
end inv

/-! ### expressions the grammar can produce inside an expression: no `output` -/

mutual
/-- `output` is a statement-level annotation: the grammar (`statement = output_declaration |
    expression`) never nests it inside an expression, and `collect_free_variables` does not
    look inside it -/
def noOutput : Expr → Bool
  | .output _ => false
  | .lambda _ body => noOutput body
  | .bin _ l r => noOutput l && noOutput r
  | .un _ e => noOutput e
  | .fact e => noOutput e
  | .spread e => noOutput e
  | .call f args => noOutput f && noOutputList args
  | .access e i => noOutput e && noOutput i
  | .dot e _ => noOutput e
  | .cond c t e => noOutput c && noOutput t && noOutput e
  | .assign _ v => noOutput v
  | .list items => noOutputItems items
  | .record es => noOutputEntries es
  | .doBlock stmts ret => noOutputItems stmts && noOutputItem ret
  | _ => true
def noOutputList : List Expr → Bool
  | [] => true
  | e :: es => noOutput e && noOutputList es
def noOutputItem : Item → Bool
  | .mk _ e _ => noOutput e
def noOutputItems : List Item → Bool
  | [] => true
  | i :: is => noOutputItem i && noOutputItems is
def noOutputEntry : Entry → Bool
  | .mk _ k v _ => noOutputKey k && noOutput v
def noOutputEntries : List Entry → Bool
  | [] => true
  | e :: es => noOutputEntry e && noOutputEntries es
def noOutputKey : Key → Bool
  | .dyn e => noOutput e
  | .spread e => noOutput e
  | _ => true
end

/-! ### `freeVars` computes `FreeIn` -/

theorem not_mem_boundAfterStmt {x : String} {bound : List String} {l e t} :
    x ∉ boundAfterStmt bound (.mk l e t) ↔ x ∉ bound ∧ ∀ v, e ≠ .assign x v := by
  cases e <;> simp [boundAfterStmt]
  rename_i n v
  constructor
  · rintro ⟨h1, h2⟩; exact ⟨h2, fun h => h1 h.symm⟩
  · rintro ⟨h1, h2⟩; exact ⟨fun h => h2 h.symm, h1⟩

theorem freeVars_doBlock_cons (bound : List String) (i : Item) (rest : List Item) (ret : Item) :
    freeVarsStmts bound (i :: rest) ++ freeVarsItem (boundAfterStmts bound (i :: rest)) ret =
      freeVarsItem bound i ++
        (freeVarsStmts (boundAfterStmt bound i) rest ++
          freeVarsItem (boundAfterStmts (boundAfterStmt bound i) rest) ret) := by
  simp [freeVarsStmts, boundAfterStmts, List.append_assoc]

mutual
theorem freeVars_iff : ∀ (e : Expr) (bound : List String) (x : String), noOutput e = true →
    (x ∈ freeVars bound e ↔ FreeIn x e ∧ x ∉ bound)
  | .num _, bound, x, _ | .str _, bound, x, _ | .bool _, bound, x, _ | .null, bound, x, _
  | .inref _, bound, x, _ | .builtin _, bound, x, _ => by
    simp [freeVars, freeIn_num, freeIn_str, freeIn_bool, freeIn_null, freeIn_inref, freeIn_builtin]
  | .output _, _, _, h => by simp [noOutput] at h
  | .ident n, bound, x, _ => by
    simp only [freeVars, freeIn_ident]
    by_cases h : (bound.contains n || Gen.specialIdents.contains n) = true
    · rw [if_pos h]
      simp only [Bool.or_eq_true, List.contains_eq_mem, decide_eq_true_eq] at h
      simp only [List.not_mem_nil, false_iff]
      rintro ⟨⟨rfl, h2⟩, h3⟩
      exact h.elim h3 h2
    · rw [if_neg h]
      simp only [Bool.or_eq_true, List.contains_eq_mem, decide_eq_true_eq, not_or] at h
      simp only [List.mem_singleton]
      constructor
      · rintro rfl; exact ⟨⟨rfl, h.2⟩, h.1⟩
      · rintro ⟨⟨rfl, _⟩, _⟩; rfl
  | .lambda args body, bound, x, h => by
    simp only [noOutput] at h
    simp only [freeVars, freeIn_lambda, freeVars_iff body _ x h, List.mem_append, not_or]
    constructor
    · rintro ⟨h1, h2, h3⟩; exact ⟨⟨h1, h2⟩, h3⟩
    · rintro ⟨⟨h1, h2⟩, h3⟩; exact ⟨h1, h2, h3⟩
  | .bin _ l r, bound, x, h => by
    simp only [noOutput, Bool.and_eq_true] at h
    simp only [freeVars, freeIn_bin, List.mem_append, freeVars_iff l bound x h.1, freeVars_iff r bound x h.2]
    constructor
    · rintro (⟨h1, h2⟩ | ⟨h1, h2⟩)
      · exact ⟨Or.inl h1, h2⟩
      · exact ⟨Or.inr h1, h2⟩
    · rintro ⟨h1 | h1, h2⟩
      · exact Or.inl ⟨h1, h2⟩
      · exact Or.inr ⟨h1, h2⟩
  | .un _ e, bound, x, h => by
    simp only [noOutput] at h
    simp only [freeVars, freeIn_un, freeVars_iff e bound x h]
  | .fact e, bound, x, h => by
    simp only [noOutput] at h
    simp only [freeVars, freeIn_fact, freeVars_iff e bound x h]
  | .spread e, bound, x, h => by
    simp only [noOutput] at h
    simp only [freeVars, freeIn_spread, freeVars_iff e bound x h]
  | .call f args, bound, x, h => by
    simp only [noOutput, Bool.and_eq_true] at h
    simp only [freeVars, freeIn_call, List.mem_append, freeVars_iff f bound x h.1,
      freeVarsList_iff args bound x h.2]
    constructor
    · rintro (⟨h1, h2⟩ | ⟨h1, h2⟩)
      · exact ⟨Or.inl h1, h2⟩
      · exact ⟨Or.inr h1, h2⟩
    · rintro ⟨h1 | h1, h2⟩
      · exact Or.inl ⟨h1, h2⟩
      · exact Or.inr ⟨h1, h2⟩
  | .access e i, bound, x, h => by
    simp only [noOutput, Bool.and_eq_true] at h
    simp only [freeVars, freeIn_access, List.mem_append, freeVars_iff e bound x h.1, freeVars_iff i bound x h.2]
    constructor
    · rintro (⟨h1, h2⟩ | ⟨h1, h2⟩)
      · exact ⟨Or.inl h1, h2⟩
      · exact ⟨Or.inr h1, h2⟩
    · rintro ⟨h1 | h1, h2⟩
      · exact Or.inl ⟨h1, h2⟩
      · exact Or.inr ⟨h1, h2⟩
  | .dot e _, bound, x, h => by
    simp only [noOutput] at h
    simp only [freeVars, freeIn_dot, freeVars_iff e bound x h]
  | .cond c t e, bound, x, h => by
    simp only [noOutput, Bool.and_eq_true] at h
    simp only [freeVars, freeIn_cond, List.mem_append, freeVars_iff c bound x h.1.1,
      freeVars_iff t bound x h.1.2, freeVars_iff e bound x h.2]
    constructor
    · rintro ((⟨h1, h2⟩ | ⟨h1, h2⟩) | ⟨h1, h2⟩)
      · exact ⟨Or.inl h1, h2⟩
      · exact ⟨Or.inr (Or.inl h1), h2⟩
      · exact ⟨Or.inr (Or.inr h1), h2⟩
    · rintro ⟨h1 | h1 | h1, h2⟩
      · exact Or.inl (Or.inl ⟨h1, h2⟩)
      · exact Or.inl (Or.inr ⟨h1, h2⟩)
      · exact Or.inr ⟨h1, h2⟩
  | .assign _ v, bound, x, h => by
    simp only [noOutput] at h
    simp only [freeVars, freeIn_assign, freeVars_iff v bound x h]
  | .list items, bound, x, h => by
    simp only [noOutput] at h
    simp only [freeVars, freeIn_list, freeVarsItems_iff items bound x h]
  | .record es, bound, x, h => by
    simp only [noOutput] at h
    simp only [freeVars, freeIn_record, freeVarsEntries_iff es bound x h]
  | .doBlock stmts (.mk rl re rt), bound, x, h => by
    simp only [noOutput, noOutputItem, Bool.and_eq_true] at h
    simp only [freeVars, freeIn_doBlock]
    exact freeVarsDo_iff stmts rl re rt bound x h.1 (fun b => freeVars_iff re b x h.2)
theorem freeVarsList_iff : ∀ (es : List Expr) (bound : List String) (x : String), noOutputList es = true →
    (x ∈ freeVarsList bound es ↔ FreeInList x es ∧ x ∉ bound)
  | [], bound, x, _ => by simp [freeVarsList, freeInList_nil]
  | e :: es, bound, x, h => by
    simp only [noOutputList, Bool.and_eq_true] at h
    simp only [freeVarsList, freeInList_cons, List.mem_append, freeVars_iff e bound x h.1,
      freeVarsList_iff es bound x h.2]
    constructor
    · rintro (⟨h1, h2⟩ | ⟨h1, h2⟩)
      · exact ⟨Or.inl h1, h2⟩
      · exact ⟨Or.inr h1, h2⟩
    · rintro ⟨h1 | h1, h2⟩
      · exact Or.inl ⟨h1, h2⟩
      · exact Or.inr ⟨h1, h2⟩
theorem freeVarsItems_iff : ∀ (is : List Item) (bound : List String) (x : String), noOutputItems is = true →
    (x ∈ freeVarsItems bound is ↔ FreeInItems x is ∧ x ∉ bound)
  | [], bound, x, _ => by simp [freeVarsItems, freeInItems_nil]
  | .mk _ e _ :: is, bound, x, h => by
    simp only [noOutputItems, noOutputItem, Bool.and_eq_true] at h
    simp only [freeVarsItems, freeVarsItem, freeInItems_cons, List.mem_append, freeVars_iff e bound x h.1,
      freeVarsItems_iff is bound x h.2]
    constructor
    · rintro (⟨h1, h2⟩ | ⟨h1, h2⟩)
      · exact ⟨Or.inl h1, h2⟩
      · exact ⟨Or.inr h1, h2⟩
    · rintro ⟨h1 | h1, h2⟩
      · exact Or.inl ⟨h1, h2⟩
      · exact Or.inr ⟨h1, h2⟩
theorem freeVarsDo_iff : ∀ (stmts : List Item) (rl : List String) (re : Expr) (rt : Option String)
    (bound : List String) (x : String),
    noOutputItems stmts = true → (∀ b, x ∈ freeVars b re ↔ FreeIn x re ∧ x ∉ b) →
    (x ∈ freeVarsStmts bound stmts ++ freeVarsItem (boundAfterStmts bound stmts) (.mk rl re rt) ↔
      FreeInDo x stmts (.mk rl re rt) ∧ x ∉ bound)
  | [], rl, re, rt, bound, x, _, h2 => by
    simp only [freeVarsStmts, boundAfterStmts, List.foldl_nil, List.nil_append, freeVarsItem, freeInDo_nil,
      h2 bound]
  | .mk l e t :: rest, rl, re, rt, bound, x, h1, h2 => by
    simp only [noOutputItems, noOutputItem, Bool.and_eq_true] at h1
    rw [freeVars_doBlock_cons, List.mem_append, freeVarsDo_iff rest rl re rt _ x h1.2 h2, freeVarsItem,
      freeVars_iff e bound x h1.1, freeInDo_cons, not_mem_boundAfterStmt]
    constructor
    · rintro (⟨a, b⟩ | ⟨a, b, c⟩)
      · exact ⟨Or.inl a, b⟩
      · exact ⟨Or.inr ⟨a, c⟩, b⟩
    · rintro ⟨a | ⟨a, c⟩, b⟩
      · exact Or.inl ⟨a, b⟩
      · exact Or.inr ⟨a, b, c⟩
theorem freeVarsEntries_iff : ∀ (es : List Entry) (bound : List String) (x : String),
    noOutputEntries es = true →
    (x ∈ freeVarsEntries bound es ↔ FreeInEntries x es ∧ x ∉ bound)
  | [], bound, x, _ => by simp [freeVarsEntries, freeInEntries_nil]
  | .mk l k v t :: es, bound, x, h => by
    simp only [noOutputEntries, noOutputEntry, Bool.and_eq_true] at h
    have ih := freeVarsEntries_iff es bound x h.2
    have hv := freeVars_iff v bound x h.1.2
    simp only [freeVarsEntries, freeVarsEntry, freeInEntries_cons, List.mem_append, ih]
    have key : x ∈ freeVarsKey bound k (freeVars bound v) ↔ FreeInEntry x (.mk l k v t) ∧ x ∉ bound := by
      cases k with
      | static k => simp only [freeVarsKey, freeInEntry_static, hv]
      | dyn ke =>
        have hk := freeVars_iff ke bound x (by simpa [noOutputKey] using h.1.1)
        simp only [freeVarsKey, freeInEntry_dyn, List.mem_append, hv, hk]
        constructor
        · rintro (⟨h1, h2⟩ | ⟨h1, h2⟩)
          · exact ⟨Or.inl h1, h2⟩
          · exact ⟨Or.inr h1, h2⟩
        · rintro ⟨h1 | h1, h2⟩
          · exact Or.inl ⟨h1, h2⟩
          · exact Or.inr ⟨h1, h2⟩
      | short n =>
        simp only [freeVarsKey, freeInEntry_short]
        by_cases hb : bound.contains n = true
        · rw [if_pos hb]
          simp only [List.contains_eq_mem, decide_eq_true_eq] at hb
          simp only [List.not_mem_nil, false_iff]
          rintro ⟨rfl, h3⟩; exact h3 hb
        · rw [if_neg hb]
          simp only [List.contains_eq_mem, decide_eq_true_eq] at hb
          simp only [List.mem_singleton]
          constructor
          · rintro rfl; exact ⟨rfl, hb⟩
          · rintro ⟨rfl, _⟩; rfl
      | spread se =>
        have hk := freeVars_iff se bound x (by simpa [noOutputKey] using h.1.1)
        simp only [freeVarsKey, freeInEntry_spread, hk]
    rw [key]
    constructor
    · rintro (⟨h1, h2⟩ | ⟨h1, h2⟩)
      · exact ⟨Or.inl h1, h2⟩
      · exact ⟨Or.inr h1, h2⟩
    · rintro ⟨h1 | h1, h2⟩
      · exact Or.inl ⟨h1, h2⟩
      · exact Or.inr ⟨h1, h2⟩
end

end Blots
