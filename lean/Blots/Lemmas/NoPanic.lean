import Blots.Model.Eval
/-
  Helper lemmas for C01 (no `panic` outcome is reachable once arity was checked):
  `Outcome.noPanic`, the accessors / `bindParams` / every `callPure` built-in never panic
  on argument lists of an accepted length, and the evaluator's mutual block never panics.
-/
namespace Blots

/-- the outcome is not a panic -/
def Outcome.noPanic {α} (o : Outcome α) : Prop := ∀ p, o ≠ .panic p

/-- a `callPure` result (`none` = not a pure built-in) is not a panic -/
def PureNoPanic (o : Option (Outcome Value)) : Prop := ∀ p, o ≠ some (.panic p)

theorem PureNoPanic.some {r : Outcome Value} (h : r.noPanic) : PureNoPanic (some r) := by
  intro p hp; cases hp; exact h p rfl
theorem PureNoPanic.none : PureNoPanic none := by intro p hp; cases hp

namespace Outcome
@[simp] theorem noPanic_ok {α} (a : α) : (Outcome.ok a).noPanic := by intro p h; cases h
@[simp] theorem noPanic_err {α} (k : ErrKind) : (Outcome.err k : Outcome α).noPanic := by
  intro p h; cases h
@[simp] theorem noPanic_fuel {α} : (Outcome.fuel : Outcome α).noPanic := by intro p h; cases h
@[simp] theorem noPanic_panic {α} (s : String) : ¬ (Outcome.panic s : Outcome α).noPanic :=
  fun h => h s rfl
@[simp] theorem noPanic_pure {α} (a : α) : (pure a : Outcome α).noPanic := noPanic_ok a

theorem noPanic_bind {α β} {x : Outcome α} {f : α → Outcome β}
    (hx : x.noPanic) (hf : ∀ a, (f a).noPanic) : (x.bind f).noPanic := by
  cases x with
  | ok a => exact hf a
  | err k => exact noPanic_err k
  | panic s => exact absurd hx (noPanic_panic s)
  | fuel => exact noPanic_fuel

@[simp] theorem noPanic_bind_iff {α β} (x : Outcome α) (f : α → Outcome β) :
    (x.bind f).noPanic ↔ x.noPanic ∧ ∀ a, x = .ok a → (f a).noPanic := by
  cases x <;> simp [Outcome.bind]

@[simp] theorem noPanic_bind_iff' {α β} (x : Outcome α) (f : α → Outcome β) :
    (x >>= f).noPanic ↔ x.noPanic ∧ ∀ a, x = .ok a → (f a).noPanic := noPanic_bind_iff x f

theorem noPanic_mapM' {α β} (f : α → Outcome β) (hf : ∀ a, (f a).noPanic) (xs : List α) :
    (mapM' f xs).noPanic := by
  induction xs with
  | nil => simp [mapM']
  | cons x xs ih =>
    simp only [mapM']
    have := hf x
    split
    · split <;> simp_all
    all_goals simp_all
end Outcome

/-! ### accessors and small helpers -/

@[simp] theorem asNumber_noPanic (v : Value) : (asNumber v).noPanic := by cases v <;> simp [asNumber]
@[simp] theorem asBool_noPanic (v : Value) : (asBool v).noPanic := by cases v <;> simp [asBool]
@[simp] theorem asString_noPanic (v : Value) : (asString v).noPanic := by cases v <;> simp [asString]
@[simp] theorem asList_noPanic (v : Value) : (asList v).noPanic := by cases v <;> simp [asList]
@[simp] theorem asRecord_noPanic (v : Value) : (asRecord v).noPanic := by cases v <;> simp [asRecord]

@[simp] theorem numList_noPanic (xs : List Value) : (numList xs).noPanic :=
  Outcome.noPanic_mapM' asNumber asNumber_noPanic xs

@[simp] theorem aggArgs_noPanic (args : List Value) : (aggArgs args).noPanic := by
  unfold aggArgs; split <;> simp

@[simp] theorem uncheckedCmp_noPanic (name : String) (a b : Value) :
    (uncheckedCmp name a b).noPanic := by
  unfold uncheckedCmp; split <;> simp

@[simp] theorem checkOrdering_noPanic (o : Option Ordering) (e : List Ordering) :
    (checkOrdering o e).noPanic := by
  unfold checkOrdering; split <;> simp

@[simp] theorem compareOp_noPanic (op : BinOp) (a b : Value) : (compareOp op a b).noPanic := by
  unfold compareOp; split <;> (try split) <;> simp

@[simp] theorem logicalOperands_noPanic (a b : Value) : (logicalOperands a b).noPanic := by
  simp [logicalOperands]

@[simp] theorem scalarOp_noPanic (ops : NumOps) (ew : Bool) (op : BinOp) (a b : Value) :
    (scalarOp ops ew op a b).noPanic := by
  unfold scalarOp
  split <;> (try split) <;> (try split) <;> simp

@[simp] theorem elemScalar_noPanic (ops : NumOps) (op : BinOp) (lf : Bool) (v sc : Value) :
    (elemScalar ops op lf v sc).noPanic := by
  unfold elemScalar; split <;> (try split) <;> simp

@[simp] theorem zipScalar_noPanic (ops : NumOps) (op : BinOp) (xs ys : List Value) :
    (zipScalar ops op xs ys).noPanic := by
  induction xs generalizing ys with
  | nil => simp [zipScalar]
  | cons x xs ih =>
    cases ys with
    | nil => simp [zipScalar]
    | cons y ys =>
      simp only [zipScalar]
      have h1 := scalarOp_noPanic ops true op x y
      have h2 := ih ys
      split
      · split <;> simp_all
      · assumption

@[simp] theorem mapScalar_noPanic (ops : NumOps) (op : BinOp) (lf : Bool) (xs : List Value)
    (sc : Value) : (mapScalar ops op lf xs sc).noPanic := by
  induction xs with
  | nil => simp [mapScalar]
  | cons x xs ih =>
    simp only [mapScalar]
    have h1 := elemScalar_noPanic ops op lf x sc
    split
    · split <;> simp_all
    · assumption

/-! ### `bindParams` -/

theorem bindParams_go_noPanic (args : List Value) (ps : List LArg) (idx : Nat) (frame : Frame) :
    (bindParams.go args ps idx frame).noPanic := by
  induction ps generalizing idx frame with
  | nil => simp [bindParams.go]
  | cons p rest ih =>
    cases p with
    | req n =>
      simp only [bindParams.go]
      split
      · exact ih _ _
      · simp
    | opt n => simp only [bindParams.go]; exact ih _ _
    | rest n => simp only [bindParams.go]; exact ih _ _

@[simp] theorem bindParams_noPanic (ps : List LArg) (args : List Value) :
    (bindParams ps args).noPanic :=
  bindParams_go_noPanic args ps 0 []

/-! ### arity -/

theorem checkArity_err {ar : Gen.Arity} {n : Nat} (h : ar.canAccept n = false) :
    checkArity ar n = .err .arity := by simp [checkArity, h]

theorem checkArity_ok_iff {ar : Gen.Arity} {n : Nat} :
    checkArity ar n = .ok () ↔ ar.canAccept n = true := by
  unfold checkArity; split <;> simp_all

theorem checkArity_ok_or_err (ar : Gen.Arity) (n : Nat) :
    checkArity ar n = .ok () ∨ checkArity ar n = .err .arity := by
  unfold checkArity; split <;> simp

theorem args_of_exact0 {args : List Value} (h : (Gen.Arity.exact 0).canAccept args.length = true) :
    args = [] := by
  cases args <;> simp_all [Gen.Arity.canAccept]

theorem args_of_exact1 {args : List Value} (h : (Gen.Arity.exact 1).canAccept args.length = true) :
    ∃ a, args = [a] := by
  simp only [Gen.Arity.canAccept, beq_iff_eq] at h
  exact List.length_eq_one_iff.mp h

theorem args_of_exact2 {args : List Value} (h : (Gen.Arity.exact 2).canAccept args.length = true) :
    ∃ a b, args = [a, b] := by
  simp only [Gen.Arity.canAccept, beq_iff_eq] at h
  match args, h with
  | [a, b], _ => exact ⟨a, b, rfl⟩

theorem args_of_exact3 {args : List Value} (h : (Gen.Arity.exact 3).canAccept args.length = true) :
    ∃ a b c, args = [a, b, c] := by
  simp only [Gen.Arity.canAccept, beq_iff_eq] at h
  match args, h with
  | [a, b, c], _ => exact ⟨a, b, c, rfl⟩

theorem args_of_atLeast1 {args : List Value} {k : Nat}
    (h : (Gen.Arity.atLeast (k + 1)).canAccept args.length = true) : ∃ a t, args = a :: t := by
  cases args with
  | nil => simp [Gen.Arity.canAccept] at h
  | cons a t => exact ⟨a, t, rfl⟩

theorem args_of_between12 {args : List Value}
    (h : (Gen.Arity.between 1 2).canAccept args.length = true) :
    (∃ a, args = [a]) ∨ (∃ a b, args = [a, b]) := by
  simp only [Gen.Arity.canAccept, Bool.and_eq_true, decide_eq_true_eq] at h
  match args, h with
  | [a], _ => exact .inl ⟨a, rfl⟩
  | [a, b], _ => exact .inr ⟨a, b, rfl⟩
  | [], h => simp at h
  | _ :: _ :: _ :: _, h => simp at h

/-! ### the built-ins without callbacks, one lemma per name and accepted argument shape -/

/-- the float-computed index of `percentile` is in range (validated by the harness on the
    native operations; not provable for arbitrary `ops`) -/
def PercentileIndexOk (ops : NumOps) : Prop :=
  ∀ (p : F64) (n : Nat), 0 < n → F64.fle F64.zero p = true → F64.fle p hundred = true →
    (ops.round (ops.mul (ops.div p hundred) (F64.ofNat (n - 1)))).toU64 < n

theorem insertSortedF64_length (le : F64 → F64 → Bool) (x : F64) (l : List F64) :
    (insertSortedF64 le x l).length = l.length + 1 := by
  induction l with
  | nil => rfl
  | cons y ys ih => simp only [insertSortedF64]; split <;> simp [ih]

theorem sortTotal_length_np (xs : List F64) : (sortTotal xs).length = xs.length := by
  induction xs with
  | nil => rfl
  | cons x xs ih =>
    show (insertSortedF64 _ x (sortTotal xs)).length = _
    rw [insertSortedF64_length, ih]; rfl

theorem callPure_dot_go_noPanic (ops : NumOps) (xs ys : List Value) (acc : F64) :
    (callPure.go ops xs ys acc).noPanic := by
  induction xs generalizing ys acc with
  | nil => simp [callPure.go]
  | cons x xs ih =>
    cases ys with
    | nil => simp [callPure.go]
    | cons y ys => simp [callPure.go, ih]

/-- unfold `callPure` on a literal name, then discharge the `noPanic` goal -/
macro "np_auto" : tactic =>
  `(tactic| (refine PureNoPanic.some ?_
             simp (config := {failIfUnchanged := false})
             repeat (intros; split <;> simp_all)))

theorem callPure_sqrt_1 (ops : NumOps) (a : Value) :
    PureNoPanic (callPure ops "sqrt" [a]) := by np_auto
theorem callPure_sin_1 (ops : NumOps) (a : Value) :
    PureNoPanic (callPure ops "sin" [a]) := by np_auto
theorem callPure_cos_1 (ops : NumOps) (a : Value) :
    PureNoPanic (callPure ops "cos" [a]) := by np_auto
theorem callPure_tan_1 (ops : NumOps) (a : Value) :
    PureNoPanic (callPure ops "tan" [a]) := by np_auto
theorem callPure_asin_1 (ops : NumOps) (a : Value) :
    PureNoPanic (callPure ops "asin" [a]) := by np_auto
theorem callPure_acos_1 (ops : NumOps) (a : Value) :
    PureNoPanic (callPure ops "acos" [a]) := by np_auto
theorem callPure_atan_1 (ops : NumOps) (a : Value) :
    PureNoPanic (callPure ops "atan" [a]) := by np_auto
theorem callPure_log_1 (ops : NumOps) (a : Value) :
    PureNoPanic (callPure ops "log" [a]) := by np_auto
theorem callPure_log10_1 (ops : NumOps) (a : Value) :
    PureNoPanic (callPure ops "log10" [a]) := by np_auto
theorem callPure_exp_1 (ops : NumOps) (a : Value) :
    PureNoPanic (callPure ops "exp" [a]) := by np_auto
theorem callPure_abs_1 (ops : NumOps) (a : Value) :
    PureNoPanic (callPure ops "abs" [a]) := by np_auto
theorem callPure_floor_1 (ops : NumOps) (a : Value) :
    PureNoPanic (callPure ops "floor" [a]) := by np_auto
theorem callPure_ceil_1 (ops : NumOps) (a : Value) :
    PureNoPanic (callPure ops "ceil" [a]) := by np_auto
theorem callPure_trunc_1 (ops : NumOps) (a : Value) :
    PureNoPanic (callPure ops "trunc" [a]) := by np_auto
theorem callPure_random_1 (ops : NumOps) (a : Value) :
    PureNoPanic (callPure ops "random" [a]) := by np_auto
theorem callPure_any_1 (ops : NumOps) (a : Value) :
    PureNoPanic (callPure ops "any" [a]) := by np_auto
theorem callPure_all_1 (ops : NumOps) (a : Value) :
    PureNoPanic (callPure ops "all" [a]) := by np_auto
theorem callPure_len_1 (ops : NumOps) (a : Value) :
    PureNoPanic (callPure ops "len" [a]) := by np_auto
theorem callPure_head_1 (ops : NumOps) (a : Value) :
    PureNoPanic (callPure ops "head" [a]) := by np_auto
theorem callPure_tail_1 (ops : NumOps) (a : Value) :
    PureNoPanic (callPure ops "tail" [a]) := by np_auto
theorem callPure_unique_1 (ops : NumOps) (a : Value) :
    PureNoPanic (callPure ops "unique" [a]) := by np_auto
theorem callPure_sort_1 (ops : NumOps) (a : Value) :
    PureNoPanic (callPure ops "sort" [a]) := by np_auto
theorem callPure_reverse_1 (ops : NumOps) (a : Value) :
    PureNoPanic (callPure ops "reverse" [a]) := by np_auto
theorem callPure_trim_1 (ops : NumOps) (a : Value) :
    PureNoPanic (callPure ops "trim" [a]) := by np_auto
theorem callPure_uppercase_1 (ops : NumOps) (a : Value) :
    PureNoPanic (callPure ops "uppercase" [a]) := by np_auto
theorem callPure_lowercase_1 (ops : NumOps) (a : Value) :
    PureNoPanic (callPure ops "lowercase" [a]) := by np_auto
theorem callPure_typeof_1 (ops : NumOps) (a : Value) :
    PureNoPanic (callPure ops "typeof" [a]) := by np_auto
theorem callPure_arity_1 (ops : NumOps) (a : Value) :
    PureNoPanic (callPure ops "arity" [a]) := by np_auto
theorem callPure_keys_1 (ops : NumOps) (a : Value) :
    PureNoPanic (callPure ops "keys" [a]) := by np_auto
theorem callPure_values_1 (ops : NumOps) (a : Value) :
    PureNoPanic (callPure ops "values" [a]) := by np_auto
theorem callPure_entries_1 (ops : NumOps) (a : Value) :
    PureNoPanic (callPure ops "entries" [a]) := by np_auto
theorem callPure_flatten_1 (ops : NumOps) (a : Value) :
    PureNoPanic (callPure ops "flatten" [a]) := by np_auto
theorem callPure_to_string_1 (ops : NumOps) (a : Value) :
    PureNoPanic (callPure ops "to_string" [a]) := by np_auto
theorem callPure_to_number_1 (ops : NumOps) (a : Value) :
    PureNoPanic (callPure ops "to_number" [a]) := by np_auto
theorem callPure_to_bool_1 (ops : NumOps) (a : Value) :
    PureNoPanic (callPure ops "to_bool" [a]) := by np_auto
theorem callPure_round_1 (ops : NumOps) (a : Value) :
    PureNoPanic (callPure ops "round" [a]) := by np_auto
theorem callPure_round_2 (ops : NumOps) (a b : Value) :
    PureNoPanic (callPure ops "round" [a, b]) := by np_auto
theorem callPure_split_2 (ops : NumOps) (a b : Value) :
    PureNoPanic (callPure ops "split" [a, b]) := by np_auto
theorem callPure_join_2 (ops : NumOps) (a b : Value) :
    PureNoPanic (callPure ops "join" [a, b]) := by np_auto
theorem callPure_includes_2 (ops : NumOps) (a b : Value) :
    PureNoPanic (callPure ops "includes" [a, b]) := by np_auto
theorem callPure_chunk_2 (ops : NumOps) (a b : Value) :
    PureNoPanic (callPure ops "chunk" [a, b]) := by np_auto
theorem callPure_ugt_2 (ops : NumOps) (a b : Value) :
    PureNoPanic (callPure ops "ugt" [a, b]) := by np_auto
theorem callPure_ult_2 (ops : NumOps) (a b : Value) :
    PureNoPanic (callPure ops "ult" [a, b]) := by np_auto
theorem callPure_ugte_2 (ops : NumOps) (a b : Value) :
    PureNoPanic (callPure ops "ugte" [a, b]) := by np_auto
theorem callPure_ulte_2 (ops : NumOps) (a b : Value) :
    PureNoPanic (callPure ops "ulte" [a, b]) := by np_auto
theorem callPure_replace_3 (ops : NumOps) (a b c : Value) :
    PureNoPanic (callPure ops "replace" [a, b, c]) := by np_auto
theorem callPure_map_none (ops : NumOps) (args : List Value) :
    callPure ops "map" args = none := rfl
theorem callPure_filter_none (ops : NumOps) (args : List Value) :
    callPure ops "filter" args = none := rfl
theorem callPure_every_none (ops : NumOps) (args : List Value) :
    callPure ops "every" args = none := rfl
theorem callPure_some_none (ops : NumOps) (args : List Value) :
    callPure ops "some" args = none := rfl
theorem callPure_sort_by_none (ops : NumOps) (args : List Value) :
    callPure ops "sort_by" args = none := rfl
theorem callPure_group_by_none (ops : NumOps) (args : List Value) :
    callPure ops "group_by" args = none := rfl
theorem callPure_count_by_none (ops : NumOps) (args : List Value) :
    callPure ops "count_by" args = none := rfl
theorem callPure_reduce_none (ops : NumOps) (args : List Value) :
    callPure ops "reduce" args = none := rfl
theorem callPure_time_now_none (ops : NumOps) (args : List Value) :
    callPure ops "time_now" args = none := rfl
theorem callPure_dot_2 (ops : NumOps) (a b : Value) :
    PureNoPanic (callPure ops "dot" [a, b]) := by
  refine PureNoPanic.some ?_
  simp
  intros; split <;> simp [callPure_dot_go_noPanic]
theorem callPure_slice_3 (ops : NumOps) (a b c : Value) :
    PureNoPanic (callPure ops "slice" [a, b, c]) := by
  refine PureNoPanic.some ?_
  simp
  intros; split <;> (try split) <;> simp
theorem callPure_convert_3 (ops : NumOps) (a b c : Value) :
    PureNoPanic (callPure ops "convert" [a, b, c]) := by
  refine PureNoPanic.some ?_
  simp
  intros; split <;> simp
theorem callPure_format_cons (ops : NumOps) (a : Value) (t : List Value) :
    PureNoPanic (callPure ops "format" (a :: t)) := by np_auto
theorem callPure_print_cons (ops : NumOps) (a : Value) (t : List Value) :
    PureNoPanic (callPure ops "print" (a :: t)) := by
  refine PureNoPanic.some ?_
  simp
  split
  · simp
  · split <;> simp_all
theorem callPure_min_any (ops : NumOps) (args : List Value) :
    PureNoPanic (callPure ops "min" args) := by
  refine PureNoPanic.some ?_
  simp
  intros; repeat' (first | (simp; done) | split)
theorem callPure_max_any (ops : NumOps) (args : List Value) :
    PureNoPanic (callPure ops "max" args) := by
  refine PureNoPanic.some ?_
  simp
  intros; repeat' (first | (simp; done) | split)
theorem callPure_avg_any (ops : NumOps) (args : List Value) :
    PureNoPanic (callPure ops "avg" args) := by
  refine PureNoPanic.some ?_
  simp
  intros; repeat' (first | (simp; done) | split)
theorem callPure_sum_any (ops : NumOps) (args : List Value) :
    PureNoPanic (callPure ops "sum" args) := by
  refine PureNoPanic.some ?_
  simp
  intros; repeat' (first | (simp; done) | split)
theorem callPure_prod_any (ops : NumOps) (args : List Value) :
    PureNoPanic (callPure ops "prod" args) := by
  refine PureNoPanic.some ?_
  simp
  intros; repeat' (first | (simp; done) | split)
theorem callPure_median_any (ops : NumOps) (args : List Value) :
    PureNoPanic (callPure ops "median" args) := by
  refine PureNoPanic.some ?_
  simp
  intros; repeat' (first | (simp; done) | split)
theorem callPure_range_any (ops : NumOps) (args : List Value) :
    PureNoPanic (callPure ops "range" args) := by
  refine PureNoPanic.some ?_
  simp
  refine ⟨by split <;> simp, ?_⟩
  intros; repeat' (first | (simp; done) | split)
theorem callPure_concat_any (ops : NumOps) (args : List Value) :
    PureNoPanic (callPure ops "concat" args) := by np_auto
theorem callPure_zip_any (ops : NumOps) (args : List Value) :
    PureNoPanic (callPure ops "zip" args) := by
  refine PureNoPanic.some ?_
  split
  · simp
  · simp
  · rename_i s heq
    exact absurd heq (Outcome.noPanic_mapM' _ (by intro v; split <;> simp) args s)
  · simp
theorem callPure_percentile_2 (ops : NumOps) (hp : PercentileIndexOk ops) (a b : Value) :
    PureNoPanic (callPure ops "percentile" [a, b]) := by
  refine PureNoPanic.some ?_
  simp
  intro p _ l _
  split
  · simp
  · rename_i hr
    simp
    intro ns _
    split
    · simp
    · rename_i hne
      have hlen : 0 < (sortTotal ns).length := by
        rw [sortTotal_length_np]; exact List.length_pos_iff.mpr hne
      have := hp p _ hlen (by simp_all) (by simp_all)
      split
      · simp
      · rename_i hnone
        simp at hnone
        omega

/-! ### the whole generated table -/

/-- every row of the generated table, every argument list of an accepted length: `callPure`
    is not a panic (`percentile` under the index hypothesis) -/
theorem callPure_noPanic_of_mem' (ops : NumOps) {variant name : String} {ar : Gen.Arity}
    (h : (variant, name, ar) ∈ Gen.builtins) (hp : name = "percentile" → PercentileIndexOk ops)
    (args : List Value) (ha : ar.canAccept args.length = true) :
    PureNoPanic (callPure ops name args) := by
  simp only [Gen.builtins, List.mem_cons, List.not_mem_nil, or_false, Prod.mk.injEq] at h
  rcases h with
    ⟨rfl, rfl, rfl⟩ |
    ⟨rfl, rfl, rfl⟩ |
    ⟨rfl, rfl, rfl⟩ |
    ⟨rfl, rfl, rfl⟩ |
    ⟨rfl, rfl, rfl⟩ |
    ⟨rfl, rfl, rfl⟩ |
    ⟨rfl, rfl, rfl⟩ |
    ⟨rfl, rfl, rfl⟩ |
    ⟨rfl, rfl, rfl⟩ |
    ⟨rfl, rfl, rfl⟩ |
    ⟨rfl, rfl, rfl⟩ |
    ⟨rfl, rfl, rfl⟩ |
    ⟨rfl, rfl, rfl⟩ |
    ⟨rfl, rfl, rfl⟩ |
    ⟨rfl, rfl, rfl⟩ |
    ⟨rfl, rfl, rfl⟩ |
    ⟨rfl, rfl, rfl⟩ |
    ⟨rfl, rfl, rfl⟩ |
    ⟨rfl, rfl, rfl⟩ |
    ⟨rfl, rfl, rfl⟩ |
    ⟨rfl, rfl, rfl⟩ |
    ⟨rfl, rfl, rfl⟩ |
    ⟨rfl, rfl, rfl⟩ |
    ⟨rfl, rfl, rfl⟩ |
    ⟨rfl, rfl, rfl⟩ |
    ⟨rfl, rfl, rfl⟩ |
    ⟨rfl, rfl, rfl⟩ |
    ⟨rfl, rfl, rfl⟩ |
    ⟨rfl, rfl, rfl⟩ |
    ⟨rfl, rfl, rfl⟩ |
    ⟨rfl, rfl, rfl⟩ |
    ⟨rfl, rfl, rfl⟩ |
    ⟨rfl, rfl, rfl⟩ |
    ⟨rfl, rfl, rfl⟩ |
    ⟨rfl, rfl, rfl⟩ |
    ⟨rfl, rfl, rfl⟩ |
    ⟨rfl, rfl, rfl⟩ |
    ⟨rfl, rfl, rfl⟩ |
    ⟨rfl, rfl, rfl⟩ |
    ⟨rfl, rfl, rfl⟩ |
    ⟨rfl, rfl, rfl⟩ |
    ⟨rfl, rfl, rfl⟩ |
    ⟨rfl, rfl, rfl⟩ |
    ⟨rfl, rfl, rfl⟩ |
    ⟨rfl, rfl, rfl⟩ |
    ⟨rfl, rfl, rfl⟩ |
    ⟨rfl, rfl, rfl⟩ |
    ⟨rfl, rfl, rfl⟩ |
    ⟨rfl, rfl, rfl⟩ |
    ⟨rfl, rfl, rfl⟩ |
    ⟨rfl, rfl, rfl⟩ |
    ⟨rfl, rfl, rfl⟩ |
    ⟨rfl, rfl, rfl⟩ |
    ⟨rfl, rfl, rfl⟩ |
    ⟨rfl, rfl, rfl⟩ |
    ⟨rfl, rfl, rfl⟩ |
    ⟨rfl, rfl, rfl⟩ |
    ⟨rfl, rfl, rfl⟩ |
    ⟨rfl, rfl, rfl⟩ |
    ⟨rfl, rfl, rfl⟩ |
    ⟨rfl, rfl, rfl⟩ |
    ⟨rfl, rfl, rfl⟩ |
    ⟨rfl, rfl, rfl⟩ |
    ⟨rfl, rfl, rfl⟩ |
    ⟨rfl, rfl, rfl⟩ |
    ⟨rfl, rfl, rfl⟩ |
    ⟨rfl, rfl, rfl⟩ |
    ⟨rfl, rfl, rfl⟩ |
    ⟨rfl, rfl, rfl⟩
  · obtain ⟨a, rfl⟩ := args_of_exact1 ha; exact callPure_sqrt_1 ops a
  · obtain ⟨a, rfl⟩ := args_of_exact1 ha; exact callPure_sin_1 ops a
  · obtain ⟨a, rfl⟩ := args_of_exact1 ha; exact callPure_cos_1 ops a
  · obtain ⟨a, rfl⟩ := args_of_exact1 ha; exact callPure_tan_1 ops a
  · obtain ⟨a, rfl⟩ := args_of_exact1 ha; exact callPure_asin_1 ops a
  · obtain ⟨a, rfl⟩ := args_of_exact1 ha; exact callPure_acos_1 ops a
  · obtain ⟨a, rfl⟩ := args_of_exact1 ha; exact callPure_atan_1 ops a
  · obtain ⟨a, rfl⟩ := args_of_exact1 ha; exact callPure_log_1 ops a
  · obtain ⟨a, rfl⟩ := args_of_exact1 ha; exact callPure_log10_1 ops a
  · obtain ⟨a, rfl⟩ := args_of_exact1 ha; exact callPure_exp_1 ops a
  · obtain ⟨a, rfl⟩ := args_of_exact1 ha; exact callPure_abs_1 ops a
  · obtain ⟨a, rfl⟩ := args_of_exact1 ha; exact callPure_floor_1 ops a
  · obtain ⟨a, rfl⟩ := args_of_exact1 ha; exact callPure_ceil_1 ops a
  · rcases args_of_between12 ha with ⟨a, rfl⟩ | ⟨a, b, rfl⟩
    · exact callPure_round_1 ops a
    · exact callPure_round_2 ops a b
  · obtain ⟨a, rfl⟩ := args_of_exact1 ha; exact callPure_trunc_1 ops a
  · obtain ⟨a, rfl⟩ := args_of_exact1 ha; exact callPure_random_1 ops a
  · exact callPure_min_any ops args
  · exact callPure_max_any ops args
  · exact callPure_avg_any ops args
  · exact callPure_sum_any ops args
  · exact callPure_prod_any ops args
  · exact callPure_median_any ops args
  · obtain ⟨a, b, rfl⟩ := args_of_exact2 ha; exact callPure_percentile_2 ops (hp rfl) a b
  · exact callPure_range_any ops args
  · obtain ⟨a, rfl⟩ := args_of_exact1 ha; exact callPure_any_1 ops a
  · obtain ⟨a, rfl⟩ := args_of_exact1 ha; exact callPure_all_1 ops a
  · obtain ⟨a, rfl⟩ := args_of_exact1 ha; exact callPure_len_1 ops a
  · obtain ⟨a, rfl⟩ := args_of_exact1 ha; exact callPure_head_1 ops a
  · obtain ⟨a, rfl⟩ := args_of_exact1 ha; exact callPure_tail_1 ops a
  · obtain ⟨a, b, c, rfl⟩ := args_of_exact3 ha; exact callPure_slice_3 ops a b c
  · exact callPure_concat_any ops args
  · obtain ⟨a, b, rfl⟩ := args_of_exact2 ha; exact callPure_dot_2 ops a b
  · obtain ⟨a, rfl⟩ := args_of_exact1 ha; exact callPure_unique_1 ops a
  · obtain ⟨a, rfl⟩ := args_of_exact1 ha; exact callPure_sort_1 ops a
  · rw [callPure_sort_by_none]; exact PureNoPanic.none
  · obtain ⟨a, rfl⟩ := args_of_exact1 ha; exact callPure_reverse_1 ops a
  · rw [callPure_map_none]; exact PureNoPanic.none
  · rw [callPure_reduce_none]; exact PureNoPanic.none
  · rw [callPure_filter_none]; exact PureNoPanic.none
  · rw [callPure_every_none]; exact PureNoPanic.none
  · rw [callPure_some_none]; exact PureNoPanic.none
  · obtain ⟨a, b, rfl⟩ := args_of_exact2 ha; exact callPure_split_2 ops a b
  · obtain ⟨a, b, rfl⟩ := args_of_exact2 ha; exact callPure_join_2 ops a b
  · obtain ⟨a, b, c, rfl⟩ := args_of_exact3 ha; exact callPure_replace_3 ops a b c
  · obtain ⟨a, rfl⟩ := args_of_exact1 ha; exact callPure_trim_1 ops a
  · obtain ⟨a, rfl⟩ := args_of_exact1 ha; exact callPure_uppercase_1 ops a
  · obtain ⟨a, rfl⟩ := args_of_exact1 ha; exact callPure_lowercase_1 ops a
  · obtain ⟨a, b, rfl⟩ := args_of_exact2 ha; exact callPure_includes_2 ops a b
  · obtain ⟨a, t, rfl⟩ := args_of_atLeast1 ha; exact callPure_format_cons ops a t
  · obtain ⟨a, rfl⟩ := args_of_exact1 ha; exact callPure_typeof_1 ops a
  · obtain ⟨a, rfl⟩ := args_of_exact1 ha; exact callPure_arity_1 ops a
  · obtain ⟨a, rfl⟩ := args_of_exact1 ha; exact callPure_keys_1 ops a
  · obtain ⟨a, rfl⟩ := args_of_exact1 ha; exact callPure_values_1 ops a
  · obtain ⟨a, rfl⟩ := args_of_exact1 ha; exact callPure_entries_1 ops a
  · rw [callPure_group_by_none]; exact PureNoPanic.none
  · rw [callPure_count_by_none]; exact PureNoPanic.none
  · obtain ⟨a, rfl⟩ := args_of_exact1 ha; exact callPure_flatten_1 ops a
  · exact callPure_zip_any ops args
  · obtain ⟨a, b, rfl⟩ := args_of_exact2 ha; exact callPure_chunk_2 ops a b
  · obtain ⟨a, rfl⟩ := args_of_exact1 ha; exact callPure_to_string_1 ops a
  · obtain ⟨a, rfl⟩ := args_of_exact1 ha; exact callPure_to_number_1 ops a
  · obtain ⟨a, rfl⟩ := args_of_exact1 ha; exact callPure_to_bool_1 ops a
  · obtain ⟨a, b, c, rfl⟩ := args_of_exact3 ha; exact callPure_convert_3 ops a b c
  · obtain ⟨a, b, rfl⟩ := args_of_exact2 ha; exact callPure_ugt_2 ops a b
  · obtain ⟨a, b, rfl⟩ := args_of_exact2 ha; exact callPure_ult_2 ops a b
  · obtain ⟨a, b, rfl⟩ := args_of_exact2 ha; exact callPure_ugte_2 ops a b
  · obtain ⟨a, b, rfl⟩ := args_of_exact2 ha; exact callPure_ulte_2 ops a b
  · obtain ⟨a, t, rfl⟩ := args_of_atLeast1 ha; exact callPure_print_cons ops a t
  · rw [callPure_time_now_none]; exact PureNoPanic.none

theorem mem_builtins_of_builtinArity {name : String} {ar : Gen.Arity}
    (h : builtinArity name = some ar) : ∃ variant, (variant, name, ar) ∈ Gen.builtins := by
  unfold builtinArity at h
  simp only [Option.map_eq_some_iff] at h
  obtain ⟨⟨v, n, a⟩, hf, rfl⟩ := h
  have h1 := List.find?_some hf
  have h2 := List.mem_of_find?_eq_some hf
  simp only [beq_iff_eq] at h1
  subst h1
  exact ⟨v, h2⟩

theorem builtinArity_of_mem {variant name : String} {ar : Gen.Arity}
    (h : (variant, name, ar) ∈ Gen.builtins) : builtinArity name = some ar := by
  simp only [Gen.builtins, List.mem_cons, List.not_mem_nil, or_false, Prod.mk.injEq] at h
  rcases h with
    ⟨rfl, rfl, rfl⟩ |
    ⟨rfl, rfl, rfl⟩ |
    ⟨rfl, rfl, rfl⟩ |
    ⟨rfl, rfl, rfl⟩ |
    ⟨rfl, rfl, rfl⟩ |
    ⟨rfl, rfl, rfl⟩ |
    ⟨rfl, rfl, rfl⟩ |
    ⟨rfl, rfl, rfl⟩ |
    ⟨rfl, rfl, rfl⟩ |
    ⟨rfl, rfl, rfl⟩ |
    ⟨rfl, rfl, rfl⟩ |
    ⟨rfl, rfl, rfl⟩ |
    ⟨rfl, rfl, rfl⟩ |
    ⟨rfl, rfl, rfl⟩ |
    ⟨rfl, rfl, rfl⟩ |
    ⟨rfl, rfl, rfl⟩ |
    ⟨rfl, rfl, rfl⟩ |
    ⟨rfl, rfl, rfl⟩ |
    ⟨rfl, rfl, rfl⟩ |
    ⟨rfl, rfl, rfl⟩ |
    ⟨rfl, rfl, rfl⟩ |
    ⟨rfl, rfl, rfl⟩ |
    ⟨rfl, rfl, rfl⟩ |
    ⟨rfl, rfl, rfl⟩ |
    ⟨rfl, rfl, rfl⟩ |
    ⟨rfl, rfl, rfl⟩ |
    ⟨rfl, rfl, rfl⟩ |
    ⟨rfl, rfl, rfl⟩ |
    ⟨rfl, rfl, rfl⟩ |
    ⟨rfl, rfl, rfl⟩ |
    ⟨rfl, rfl, rfl⟩ |
    ⟨rfl, rfl, rfl⟩ |
    ⟨rfl, rfl, rfl⟩ |
    ⟨rfl, rfl, rfl⟩ |
    ⟨rfl, rfl, rfl⟩ |
    ⟨rfl, rfl, rfl⟩ |
    ⟨rfl, rfl, rfl⟩ |
    ⟨rfl, rfl, rfl⟩ |
    ⟨rfl, rfl, rfl⟩ |
    ⟨rfl, rfl, rfl⟩ |
    ⟨rfl, rfl, rfl⟩ |
    ⟨rfl, rfl, rfl⟩ |
    ⟨rfl, rfl, rfl⟩ |
    ⟨rfl, rfl, rfl⟩ |
    ⟨rfl, rfl, rfl⟩ |
    ⟨rfl, rfl, rfl⟩ |
    ⟨rfl, rfl, rfl⟩ |
    ⟨rfl, rfl, rfl⟩ |
    ⟨rfl, rfl, rfl⟩ |
    ⟨rfl, rfl, rfl⟩ |
    ⟨rfl, rfl, rfl⟩ |
    ⟨rfl, rfl, rfl⟩ |
    ⟨rfl, rfl, rfl⟩ |
    ⟨rfl, rfl, rfl⟩ |
    ⟨rfl, rfl, rfl⟩ |
    ⟨rfl, rfl, rfl⟩ |
    ⟨rfl, rfl, rfl⟩ |
    ⟨rfl, rfl, rfl⟩ |
    ⟨rfl, rfl, rfl⟩ |
    ⟨rfl, rfl, rfl⟩ |
    ⟨rfl, rfl, rfl⟩ |
    ⟨rfl, rfl, rfl⟩ |
    ⟨rfl, rfl, rfl⟩ |
    ⟨rfl, rfl, rfl⟩ |
    ⟨rfl, rfl, rfl⟩ |
    ⟨rfl, rfl, rfl⟩ |
    ⟨rfl, rfl, rfl⟩ |
    ⟨rfl, rfl, rfl⟩ |
    ⟨rfl, rfl, rfl⟩
  all_goals rfl

/-! ### the evaluator: one step lemma per function of the mutual block -/

@[simp] theorem bindParams_ne_panic (ps : List LArg) (args : List Value) (p : String) :
    bindParams ps args ≠ .panic p := bindParams_noPanic ps args p

@[simp] theorem checkArity_ne_panic (ar : Gen.Arity) (n : Nat) (p : String) :
    checkArity ar n ≠ .panic p := by unfold checkArity; split <;> simp

@[simp] theorem checkArity_ne_fuel (ar : Gen.Arity) (n : Nat) :
    checkArity ar n ≠ .fuel := by unfold checkArity; split <;> simp

theorem R_map_ne_panic {α} (r : R α) (g : ES → ES) (h : ∀ p s', r ≠ (.panic p, s')) (p : String)
    (s' : ES) : (r.1, g r.2) ≠ (.panic p, s') := by
  intro hc; simp only [Prod.mk.injEq] at hc; exact h p r.2 (Prod.ext hc.1 rfl)

/-- "no function of the evaluator's mutual block returns a panic at this fuel" -/
structure NPAll (ops : NumOps) (fuel : Nat) : Prop where
  eval : ∀ depth e s p s', eval ops fuel depth e s ≠ (.panic p, s')
  evalList : ∀ depth es s p s', evalList ops fuel depth es s ≠ (.panic p, s')
  evalItems : ∀ depth es s p s', evalItems ops fuel depth es s ≠ (.panic p, s')
  evalEntries : ∀ depth es acc s p s', evalEntries ops fuel depth es acc s ≠ (.panic p, s')
  evalDoStmt : ∀ depth e s p s', evalDoStmt ops fuel depth e s ≠ (.panic p, s')
  evalDo : ∀ depth stmts ret s p s', evalDo ops fuel depth stmts ret s ≠ (.panic p, s')
  callFn : ∀ fv this args depth s p s', callFn ops fuel fv this args depth s ≠ (.panic p, s')
  mapCalls : ∀ f wi xs start depth s p s', mapCalls ops fuel f wi xs start depth s ≠ (.panic p, s')
  quantCalls : ∀ f wi ie xs start depth s p s',
    quantCalls ops fuel f wi ie xs start depth s ≠ (.panic p, s')
  foldCalls : ∀ f wi acc xs start depth s p s',
    foldCalls ops fuel f wi acc xs start depth s ≠ (.panic p, s')
  keyCalls : ∀ f xs depth s kr, kr ∈ (keyCalls ops fuel f xs depth s).1 → ∀ p, kr.2 ≠ .panic p
  callHof : ∀ name args depth s p s', 2 ≤ args.length → (name = "reduce" → 3 ≤ args.length) →
    callHof ops fuel name args depth s ≠ (.panic p, s')
  evalBin : ∀ depth op a b s p s', evalBin ops fuel depth op a b s ≠ (.panic p, s')
  viaPairs : ∀ la lb depth s p s', viaPairs ops fuel la lb depth s ≠ (.panic p, s')
  whereCalls : ∀ f wi xs start depth s p s',
    whereCalls ops fuel f wi xs start depth s ≠ (.panic p, s')

/-- split every `match` / `if` of the goal and close the leaves with the induction hypotheses
    (`Bool.forall_bool` would split the `∀ withIdx` hypotheses) -/
macro "np_close" : tactic =>
  `(tactic| repeat' (first | (simp_all [-Bool.forall_bool]; done) | split))

theorem eval_npstep (ops : NumOps) (fuel : Nat) (h : NPAll ops fuel) :
    ∀ depth e s p s', eval ops (fuel + 1) depth e s ≠ (.panic p, s') := by
  intro depth e s p s'
  have h1 := h.eval; have h2 := h.evalList; have h3 := h.evalItems; have h4 := h.evalEntries
  have h5 := h.evalDo; have h6 := h.callFn; have h7 := h.evalBin
  cases e
  case doBlock stmts ret =>
    simp only [eval]
    exact R_map_ne_panic _ (fun s1 => { s1 with env := s1.env.drop 1 }) (h5 _ _ _ _) p s'
  all_goals (simp only [eval]; np_close)

theorem evalList_npstep (ops : NumOps) (fuel : Nat) (h : NPAll ops fuel) :
    ∀ depth es s p s', evalList ops (fuel + 1) depth es s ≠ (.panic p, s') := by
  intro depth es s p s'
  have h1 := h.eval; have h2 := h.evalList
  cases es <;> simp only [evalList] <;> np_close

theorem evalItems_npstep (ops : NumOps) (fuel : Nat) (h : NPAll ops fuel) :
    ∀ depth es s p s', evalItems ops (fuel + 1) depth es s ≠ (.panic p, s') := by
  intro depth es s p s'
  have h1 := h.eval; have h2 := h.evalItems
  rcases es with _ | ⟨⟨_, e, _⟩, es⟩ <;> simp only [evalItems] <;> np_close

theorem evalEntries_npstep (ops : NumOps) (fuel : Nat) (h : NPAll ops fuel) :
    ∀ depth es acc s p s', evalEntries ops (fuel + 1) depth es acc s ≠ (.panic p, s') := by
  intro depth es acc s p s'
  have h1 := h.eval; have h2 := h.evalEntries
  rcases es with _ | ⟨⟨_, k, v, _⟩, es⟩
  · simp only [evalEntries]; np_close
  · cases k <;> simp only [evalEntries] <;> np_close

theorem evalDoStmt_npstep (ops : NumOps) (fuel : Nat) (h : NPAll ops fuel) :
    ∀ depth e s p s', evalDoStmt ops (fuel + 1) depth e s ≠ (.panic p, s') := by
  intro depth e s p s'
  have h1 := h.eval
  cases e <;> simp only [evalDoStmt] <;> np_close

theorem evalDo_npstep (ops : NumOps) (fuel : Nat) (h : NPAll ops fuel) :
    ∀ depth stmts ret s p s', evalDo ops (fuel + 1) depth stmts ret s ≠ (.panic p, s') := by
  intro depth stmts ret s p s'
  have h1 := h.evalDoStmt; have h2 := h.evalDo
  rcases ret with ⟨_, e, _⟩
  rcases stmts with _ | ⟨⟨_, e, _⟩, es⟩ <;> simp only [evalDo] <;> np_close

theorem hof_args_length {name : String} {ar : Gen.Arity} {n : Nat} (hh : isHof name = true)
    (ha : builtinArity name = some ar) (hc : ar.canAccept n = true) :
    2 ≤ n ∧ (name = "reduce" → 3 ≤ n) := by
  simp only [isHof, Bool.or_eq_true, beq_iff_eq] at hh
  rcases hh with ((((((rfl | rfl) | rfl) | rfl) | rfl) | rfl) | rfl) | rfl
  all_goals
    first
    | (have ha2 : some (Gen.Arity.exact 2) = some ar := ha
       cases ha2
       simp only [Gen.Arity.canAccept, beq_iff_eq] at hc
       subst hc; exact ⟨Nat.le_refl _, fun h => absurd h (by decide)⟩)
    | (have ha3 : some (Gen.Arity.exact 3) = some ar := ha
       cases ha3
       simp only [Gen.Arity.canAccept, beq_iff_eq] at hc
       subst hc; exact ⟨by omega, fun _ => Nat.le_refl _⟩)

theorem callPure_ne_panic (ops : NumOps) (hp : PercentileIndexOk ops) {name : String}
    {ar : Gen.Arity} (ha : builtinArity name = some ar) (args : List Value)
    (hc : checkArity ar args.length = .ok ()) (p : String) :
    callPure ops name args ≠ some (.panic p) := by
  obtain ⟨v, hm⟩ := mem_builtins_of_builtinArity ha
  exact callPure_noPanic_of_mem' ops hm (fun _ => hp) args (checkArity_ok_iff.mp hc) p

theorem callFn_npstep (ops : NumOps) (hp : PercentileIndexOk ops) (fuel : Nat) (h : NPAll ops fuel) :
    ∀ fv this args depth s p s', callFn ops (fuel + 1) fv this args depth s ≠ (.panic p, s') := by
  intro fv this args depth s p s'
  have h1 := h.eval; have h2 := h.callHof
  cases fv
  case lambda id params body scope =>
    simp only [callFn]
    split
    · split
      · simp
      · split
        · exact R_map_ne_panic _ (fun s1 => { s1 with env := s.env }) (h1 _ _ _) p s'
        all_goals simp_all
    all_goals simp_all
  case builtin name =>
    simp only [callFn]
    split
    · simp
    · rename_i ar har
      split
      · rename_i hc
        split
        · simp
        · split
          · rename_i hh
            have := hof_args_length hh har (checkArity_ok_iff.mp hc)
            exact h2 _ _ _ _ _ _ this.1 this.2
          · have := callPure_ne_panic ops hp har args hc
            split <;> simp_all
      all_goals simp_all
  all_goals (simp only [callFn]; simp)
theorem mapCalls_npstep (ops : NumOps) (fuel : Nat) (h : NPAll ops fuel) :
    ∀ f wi xs start depth s p s', mapCalls ops (fuel + 1) f wi xs start depth s ≠ (.panic p, s') := by
  intro f wi xs start depth s p s'
  have h1 := h.callFn; have h2 := h.mapCalls
  cases xs <;> simp only [mapCalls] <;> np_close

theorem quantCalls_npstep (ops : NumOps) (fuel : Nat) (h : NPAll ops fuel) :
    ∀ f wi ie xs start depth s p s',
      quantCalls ops (fuel + 1) f wi ie xs start depth s ≠ (.panic p, s') := by
  intro f wi ie xs start depth s p s'
  have h1 := h.callFn; have h2 := h.quantCalls
  cases xs <;> simp only [quantCalls] <;> np_close

theorem foldCalls_npstep (ops : NumOps) (fuel : Nat) (h : NPAll ops fuel) :
    ∀ f wi acc xs start depth s p s',
      foldCalls ops (fuel + 1) f wi acc xs start depth s ≠ (.panic p, s') := by
  intro f wi acc xs start depth s p s'
  have h1 := h.callFn; have h2 := h.foldCalls
  cases xs <;> simp only [foldCalls] <;> np_close

theorem keyCalls_npstep (ops : NumOps) (fuel : Nat) (h : NPAll ops fuel) :
    ∀ f xs depth s kr, kr ∈ (keyCalls ops (fuel + 1) f xs depth s).1 → ∀ p, kr.2 ≠ .panic p := by
  intro f xs depth s kr hk p
  have h1 := h.callFn; have h2 := h.keyCalls
  cases xs with
  | nil => simp [keyCalls] at hk
  | cons x xs =>
    simp only [keyCalls, List.mem_cons] at hk
    rcases hk with rfl | hk
    · intro hc
      exact h1 f f [x] depth s p _ (Prod.ext hc rfl)
    · exact h2 _ _ _ _ kr hk p

theorem viaPairs_npstep (ops : NumOps) (fuel : Nat) (h : NPAll ops fuel) :
    ∀ la lb depth s p s', viaPairs ops (fuel + 1) la lb depth s ≠ (.panic p, s') := by
  intro la lb depth s p s'
  have h1 := h.callFn; have h2 := h.viaPairs
  unfold viaPairs; np_close

theorem whereCalls_npstep (ops : NumOps) (fuel : Nat) (h : NPAll ops fuel) :
    ∀ f wi xs start depth s p s',
      whereCalls ops (fuel + 1) f wi xs start depth s ≠ (.panic p, s') := by
  intro f wi xs start depth s p s'
  have h1 := h.callFn; have h2 := h.whereCalls
  cases xs <;> simp only [whereCalls] <;> np_close

@[simp] theorem compareOp_ne_panic (op : BinOp) (a b : Value) (p : String) :
    compareOp op a b ≠ .panic p := compareOp_noPanic op a b p
@[simp] theorem scalarOp_ne_panic (ops : NumOps) (ew : Bool) (op : BinOp) (a b : Value) (p : String) :
    scalarOp ops ew op a b ≠ .panic p := scalarOp_noPanic ops ew op a b p
@[simp] theorem zipScalar_ne_panic (ops : NumOps) (op : BinOp) (xs ys : List Value) (p : String) :
    zipScalar ops op xs ys ≠ .panic p := zipScalar_noPanic ops op xs ys p
@[simp] theorem mapScalar_ne_panic (ops : NumOps) (op : BinOp) (lf : Bool) (xs : List Value)
    (sc : Value) (p : String) : mapScalar ops op lf xs sc ≠ .panic p :=
  mapScalar_noPanic ops op lf xs sc p

theorem evalBin_npstep (ops : NumOps) (fuel : Nat) (h : NPAll ops fuel) :
    ∀ depth op a b s p s', evalBin ops (fuel + 1) depth op a b s ≠ (.panic p, s') := by
  intro depth op a b s p s'
  have h1 := h.callFn; have h2 := h.mapCalls; have h3 := h.viaPairs; have h4 := h.whereCalls
  unfold evalBin; np_close

theorem callHof_npstep (ops : NumOps) (fuel : Nat) (h : NPAll ops fuel) :
    ∀ name args depth s p s', 2 ≤ args.length → (name = "reduce" → 3 ≤ args.length) →
      callHof ops (fuel + 1) name args depth s ≠ (.panic p, s') := by
  intro name args depth s p s' hl hr
  have h1 := h.mapCalls; have h2 := h.quantCalls; have h3 := h.foldCalls; have h4 := h.whereCalls
  match args, hl with
  | a0 :: a1 :: t, _ =>
    unfold callHof
    simp only [List.getElem?_cons_zero, List.getElem?_cons_succ]
    np_close

theorem NPAll_zero (ops : NumOps) : NPAll ops 0 := by
  constructor
  case keyCalls =>
    intro f xs depth s kr hk p
    simp only [keyCalls, List.mem_map] at hk
    obtain ⟨x, _, rfl⟩ := hk
    simp
  all_goals (intros; simp [eval, evalList, evalItems, evalEntries, evalDoStmt, evalDo, callFn,
    mapCalls, quantCalls, foldCalls, callHof, evalBin, viaPairs, whereCalls])

theorem NPAll_succ (ops : NumOps) (hp : PercentileIndexOk ops) (fuel : Nat) (h : NPAll ops fuel) :
    NPAll ops (fuel + 1) :=
  { eval := eval_npstep ops fuel h
    evalList := evalList_npstep ops fuel h
    evalItems := evalItems_npstep ops fuel h
    evalEntries := evalEntries_npstep ops fuel h
    evalDoStmt := evalDoStmt_npstep ops fuel h
    evalDo := evalDo_npstep ops fuel h
    callFn := callFn_npstep ops hp fuel h
    mapCalls := mapCalls_npstep ops fuel h
    quantCalls := quantCalls_npstep ops fuel h
    foldCalls := foldCalls_npstep ops fuel h
    keyCalls := keyCalls_npstep ops fuel h
    callHof := callHof_npstep ops fuel h
    evalBin := evalBin_npstep ops fuel h
    viaPairs := viaPairs_npstep ops fuel h
    whereCalls := whereCalls_npstep ops fuel h }

/-- under the `percentile` index hypothesis no function of the evaluator returns a panic -/
theorem NPAll_all (ops : NumOps) (hp : PercentileIndexOk ops) : ∀ fuel, NPAll ops fuel
  | 0 => NPAll_zero ops
  | fuel + 1 => NPAll_succ ops hp fuel (NPAll_all ops hp fuel)

theorem R_noPanic_of_ne {α} {r : R α} (h : ∀ p s', r ≠ (.panic p, s')) : r.1.noPanic :=
  fun p hc => h p r.2 (Prod.ext hc rfl)
end Blots
