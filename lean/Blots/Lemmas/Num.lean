import Blots.Model.Num
/-
  Order facts about IEEE doubles, proved on bit patterns: on non-NaN patterns `feq` is an
  equivalence, `flt` a strict order, `pcmp` a total comparison that agrees with both.
-/
namespace Blots.F64

theorem feq_refl {a : F64} (h : a.isNaN = false) : feq a a = true := by
  simp [feq, h]

theorem feq_comm (a b : F64) : feq a b = feq b a := by
  simp only [feq]
  cases a.isNaN <;> cases b.isNaN <;> simp [Bool.beq_comm]

theorem feq_trans {a b c : F64} (h1 : feq a b = true) (h2 : feq b c = true) : feq a c = true := by
  simp only [feq, Bool.and_eq_true, Bool.not_eq_true', beq_iff_eq] at *
  obtain ⟨⟨ha, _⟩, hab⟩ := h1
  obtain ⟨⟨_, hc⟩, hbc⟩ := h2
  exact ⟨⟨ha, hc⟩, hab.trans hbc⟩

theorem pcmp_isSome {a b : F64} (ha : a.isNaN = false) (hb : b.isNaN = false) :
    ∃ o, pcmp a b = some o := by
  simp only [pcmp, ha, hb]
  by_cases h1 : a.key < b.key
  · exact ⟨.lt, by simp [h1]⟩
  · by_cases h2 : a.key = b.key
    · exact ⟨.eq, by simp [h2]⟩
    · exact ⟨.gt, by simp [h1, h2]⟩

theorem pcmp_none_iff (a b : F64) : pcmp a b = none ↔ (a.isNaN = true ∨ b.isNaN = true) := by
  simp only [pcmp]
  cases ha : a.isNaN <;> cases hb : b.isNaN <;> simp
  by_cases h1 : a.key < b.key
  · simp [h1]
  · by_cases h2 : a.key = b.key <;> simp [h1, h2]

theorem pcmp_eq_iff_feq (a b : F64) : pcmp a b = some .eq ↔ feq a b = true := by
  simp only [pcmp, feq]
  cases ha : a.isNaN <;> cases hb : b.isNaN <;> simp
  by_cases h1 : a.key < b.key
  · simp [h1]; omega
  · by_cases h2 : a.key = b.key <;> simp [h1, h2]

theorem pcmp_lt_iff (a b : F64) : pcmp a b = some .lt ↔ flt a b = true := by
  by_cases h1 : a.key < b.key
  · cases ha : a.isNaN <;> cases hb : b.isNaN <;> simp [pcmp, flt, ha, hb, h1]
  · by_cases h2 : a.key = b.key
    · cases ha : a.isNaN <;> cases hb : b.isNaN <;> simp [pcmp, flt, ha, hb, h2]
    · cases ha : a.isNaN <;> cases hb : b.isNaN <;> simp [pcmp, flt, ha, hb, h1, h2]

theorem pcmp_gt_iff (a b : F64) : pcmp a b = some .gt ↔ flt b a = true := by
  by_cases h1 : a.key < b.key
  · have h3 : ¬ b.key < a.key := by omega
    cases ha : a.isNaN <;> cases hb : b.isNaN <;> simp [pcmp, flt, ha, hb, h1, h3]
  · by_cases h2 : a.key = b.key
    · cases ha : a.isNaN <;> cases hb : b.isNaN <;> simp [pcmp, flt, ha, hb, h2]
    · have h3 : b.key < a.key := by omega
      cases ha : a.isNaN <;> cases hb : b.isNaN <;> simp [pcmp, flt, ha, hb, h1, h2, h3]

theorem pcmp_swap (a b : F64) : pcmp b a = (pcmp a b).map Ordering.swap := by
  simp only [pcmp]
  cases ha : a.isNaN <;> cases hb : b.isNaN <;> simp
  by_cases h1 : a.key < b.key
  · have : ¬ b.key < a.key := by omega
    have : ¬ b.key = a.key := by omega
    simp [*]
  · by_cases h2 : a.key = b.key
    · simp [h2]
    · have : b.key < a.key := by omega
      simp [*]

theorem pcmp_trans_lt {a b c : F64} (h1 : pcmp a b = some .lt) (h2 : pcmp b c = some .lt) :
    pcmp a c = some .lt := by
  rw [pcmp_lt_iff] at *
  simp only [flt, Bool.and_eq_true, Bool.not_eq_true', decide_eq_true_eq] at *
  obtain ⟨⟨ha, _⟩, hab⟩ := h1
  obtain ⟨⟨_, hc⟩, hbc⟩ := h2
  exact ⟨⟨ha, hc⟩, by omega⟩

/-- equal doubles are interchangeable in comparisons -/
theorem pcmp_congr_right {b c : F64} (h : pcmp b c = some .eq) (a : F64) : pcmp a b = pcmp a c := by
  rw [pcmp_eq_iff_feq] at h
  simp only [feq, Bool.and_eq_true, Bool.not_eq_true', beq_iff_eq] at h
  obtain ⟨⟨hb, hc⟩, hk⟩ := h
  simp only [pcmp, hb, hc, hk]

theorem pcmp_congr_left {b c : F64} (h : pcmp b c = some .eq) (a : F64) : pcmp b a = pcmp c a := by
  rw [pcmp_eq_iff_feq] at h
  simp only [feq, Bool.and_eq_true, Bool.not_eq_true', beq_iff_eq] at h
  obtain ⟨⟨hb, hc⟩, hk⟩ := h
  simp only [pcmp, hb, hc, hk]

end Blots.F64
