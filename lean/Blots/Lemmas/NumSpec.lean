import Blots.Model.Display
import Blots.Model.NumText
/-
  Specification vocabulary for C16 / C20 (no proofs here): what it means for a text to be
  a grouped numeral, which rational a plain decimal text denotes, when a text denotes a
  double.  Everything is decidable and independent of the code model in `Model/Display`.
-/
namespace Blots.NumSpec

open Blots

def isDigit (c : Char) : Bool := F64.isDigit c

/-- remove the thousands separators -/
def stripCommas (s : List Char) : List Char := s.filter (· ≠ ',')

/-- Read from the RIGHT end: groups of exactly three digits, each preceded by a comma,
    until a leftmost group of one to three digits.  (`"1,234,567"`, `"12"`, not `"1234"`,
    `",123"`, `"1,23"`.)  The argument is the reversed text. -/
def groupedRev : List Char → Bool
  | [a] => isDigit a
  | [a, b] => isDigit a && isDigit b
  | [a, b, c] => isDigit a && isDigit b && isDigit c
  | a :: b :: c :: ',' :: d :: rest =>
    isDigit a && isDigit b && isDigit c && groupedRev (d :: rest)
  | _ => false

/-- integer digits grouped in threes by commas -/
def isGrouped (s : List Char) : Bool := groupedRev s.reverse

/-- no leading zero unless the numeral is the single digit 0 -/
def noLeadingZero (s : List Char) : Bool :=
  match s with
  | '0' :: _ :: _ => false
  | _ => true

/-- value of a digit string -/
def digitsVal (cs : List Char) : Nat := F64.digitsVal cs

/-- the rational `(numerator, denominator)` denoted by `digits` or `digits.digits`
    (split at the first '.') -/
def decValue (s : List Char) : Nat × Nat :=
  let ip := s.takeWhile (· ≠ '.')
  let fp := (s.dropWhile (· ≠ '.')).drop 1
  (digitsVal (ip ++ fp), 10 ^ fp.length)

/-- equality of two fractions with positive denominators -/
def ratEq (a b : Nat × Nat) : Prop := a.1 * b.2 = b.1 * a.2

instance (a b : Nat × Nat) : Decidable (ratEq a b) := by unfold ratEq; infer_instance

/-- the unsigned grouped text `body` (commas allowed, optional fraction) denotes exactly
    the magnitude of the finite double `x` -/
def denotesMagnitude (body : List Char) (x : F64) : Prop :=
  ratEq (decValue (stripCommas body)) x.ratio

/-- the display text `text` denotes the finite double `x` exactly: a minus sign in front
    iff the sign bit is set, no other minus sign, and the rest denotes the magnitude -/
def denotesExactly (text : List Char) (x : F64) : Prop :=
  ∃ body, text = (if x.neg then ['-'] else []) ++ body ∧ '-' ∉ body ∧ denotesMagnitude body x

/-- the exact integer value of a digit string in the given radix (independent of the
    model's `digitsRadix`): most significant digit first -/
def radixValue (radix : Nat) (ds : List Nat) : Nat := ds.foldl (fun a d => a * radix + d) 0

end Blots.NumSpec
