import Blots.Model.Num
/-
  Facts about `F64.ofRatio`, the round-to-nearest-even specification of Model/Num.lean:

  * `ofRatio_eq`            : `ofRatio` split into three named stages (exponent estimate
                              `ofRatioExp`, scaling `ofRatioScaled`, rounding `roundHalfEven`,
                              packing `ofRatioPack`);
  * `ofRatio_scale_two_pow` : (B) numerator and denominator may be multiplied by the same
                              power of two;
  * `ofRatio_normal_nonneg`, `ofRatio_normal_neg`, `ofRatio_subnormal` : the "encoder"
                              lemmas: an exactly representable ratio is packed into the
                              expected bit pattern;
  * `ofRatio_ratio`         : (A) every finite double is the rounding of its own exact value;
  * `ofRatio_integral`      : (C) the integer value of an integral double converts back to
                              the same double.
-/
namespace Blots.F64

/-! ### `ofRatio` in stages -/

/-- the local function `scaled` of `ofRatio` -/
def ofRatioScaled (num den : Nat) (e : Int) : Nat × Nat :=
  if e ≥ 0 then (num, den * 2 ^ e.toNat) else (num * 2 ^ (-e).toNat, den)

/-- the clamped exponent `e2` of `ofRatio` -/
def ofRatioExp (num den : Nat) : Int :=
  let lb : Int := Int.ofNat num.log2 - Int.ofNat den.log2
  let e0 : Int := lb - 52
  let q0 := (ofRatioScaled num den e0).1 / (ofRatioScaled num den e0).2
  let e1 : Int := if q0 ≥ 2 ^ 53 then e0 + 1 else if q0 < 2 ^ 52 then e0 - 1 else e0
  if e1 < -1074 then -1074 else e1

/-- the tail of `ofRatio`: renormalise the rounded quotient `q'` and pack the fields -/
def ofRatioPack (signBit : Nat) (e2 : Int) (q' : Nat) : F64 :=
  let p : Nat × Int := if q' ≥ 2 ^ 53 then (q' / 2, e2 + 1) else (q', e2)
  if p.1 < 2 ^ 52 then ofNatBits (signBit + p.1)
  else
    let biased : Int := p.2 + 1075
    if biased ≥ 2047 then ofNatBits (signBit + 0x7FF0000000000000)
    else ofNatBits (signBit + biased.toNat * 2 ^ 52 + (p.1 - 2 ^ 52))

theorem ofRatio_eq (s : Bool) (num den : Nat) (hn : num ≠ 0) (hd : den ≠ 0) :
    ofRatio s num den =
      ofRatioPack (if s then 2 ^ 63 else 0) (ofRatioExp num den)
        (roundHalfEven (ofRatioScaled num den (ofRatioExp num den)).1 (ofRatioScaled num den (ofRatioExp num den)).2) := by
  have h : ¬ ((num = 0 || den = 0) = true) := by simp [hn, hd]
  unfold ofRatio
  simp -zeta only [if_neg h]
  unfold ofRatioPack roundHalfEven ofRatioExp ofRatioScaled
  rfl

/-! ### scaling by a power of two -/

theorem ofRatio_zero (s : Bool) (d : Nat) :
    ofRatio s 0 d = ofNatBits (if s then 2 ^ 63 else 0) := by
  simp [ofRatio]

theorem log2_mul_two_pow (n j : Nat) (hn : n ≠ 0) : (n * 2 ^ j).log2 = n.log2 + j := by
  have hp : 0 < 2 ^ j := Nat.two_pow_pos j
  have hne : n * 2 ^ j ≠ 0 := Nat.mul_ne_zero hn (Nat.ne_of_gt hp)
  rw [Nat.log2_eq_iff hne]
  have h1 := Nat.log2_self_le hn
  have h2 := @Nat.lt_log2_self n
  constructor
  · rw [Nat.pow_add]; exact Nat.mul_le_mul_right _ h1
  · rw [show n.log2 + j + 1 = (n.log2 + 1) + j by omega, Nat.pow_add]
    exact Nat.mul_lt_mul_of_pos_right h2 hp

theorem ofRatioScaled_mul (n d c : Nat) (e : Int) :
    ofRatioScaled (n * c) (d * c) e = ((ofRatioScaled n d e).1 * c, (ofRatioScaled n d e).2 * c) := by
  unfold ofRatioScaled
  split
  · simp only [Nat.mul_right_comm d c]
  · simp only [Nat.mul_right_comm n c]

theorem roundHalfEven_mul (n d c : Nat) (hc : 0 < c) :
    roundHalfEven (n * c) (d * c) = roundHalfEven n d := by
  simp only [roundHalfEven]
  rw [Nat.mul_div_mul_right _ _ hc, Nat.mul_mod_mul_right]
  have h1 : (2 * (n % d * c) > d * c) = (2 * (n % d) > d) := by
    rw [← Nat.mul_assoc]; exact propext (Nat.mul_lt_mul_right hc)
  have h2 : (2 * (n % d * c) = d * c) = (2 * (n % d) = d) := by
    rw [← Nat.mul_assoc]; exact propext (Nat.mul_left_inj (Nat.ne_of_gt hc))
  simp only [h1, h2]

theorem roundHalfEven_exact (q d : Nat) (hd : 0 < d) : roundHalfEven (q * d) d = q := by
  simp only [roundHalfEven]
  rw [Nat.mul_div_cancel _ hd, Nat.mul_mod_left]
  have h1 : ¬ (2 * 0 > d) := by omega
  have h2 : ¬ (2 * 0 = d) := by omega
  simp [h1, h2]

theorem ofRatioExp_mul (n d j : Nat) (hn : n ≠ 0) (hd : d ≠ 0) :
    ofRatioExp (n * 2 ^ j) (d * 2 ^ j) = ofRatioExp n d := by
  have hl : Int.ofNat (n.log2 + j) - Int.ofNat (d.log2 + j) = Int.ofNat n.log2 - Int.ofNat d.log2 := by
    simp only [Int.ofNat_eq_natCast]; omega
  simp only [ofRatioExp, log2_mul_two_pow n j hn, log2_mul_two_pow d j hd, hl, ofRatioScaled_mul,
    Nat.mul_div_mul_right _ _ (Nat.two_pow_pos j)]

/-- (B) `ofRatio` only depends on the quotient: a common power of two cancels. -/
theorem ofRatio_scale_two_pow (s : Bool) (n d j : Nat) (hd : 0 < d) :
    ofRatio s (n * 2 ^ j) (d * 2 ^ j) = ofRatio s n d := by
  have hp : 0 < 2 ^ j := Nat.two_pow_pos j
  by_cases hn : n = 0
  · subst hn; rw [Nat.zero_mul, ofRatio_zero, ofRatio_zero]
  · have hd' : d ≠ 0 := Nat.ne_of_gt hd
    rw [ofRatio_eq s _ _ (Nat.mul_ne_zero hn (Nat.ne_of_gt hp)) (Nat.mul_ne_zero hd' (Nat.ne_of_gt hp)),
      ofRatio_eq s n d hn hd', ofRatioExp_mul n d j hn hd', ofRatioScaled_mul, roundHalfEven_mul _ _ _ hp]

/-! ### exactly representable ratios ("encoder" lemmas, no `F64` argument) -/

theorem ofRatioPack_subnormal (sb : Nat) (e : Int) (q : Nat) (hq : q < 2 ^ 52) :
    ofRatioPack sb e q = ofNatBits (sb + q) := by
  have h1 : ¬ (q ≥ 2 ^ 53) := by omega
  simp only [ofRatioPack, if_neg h1, if_pos hq]

theorem ofRatioPack_normal (sb : Nat) (e : Int) (q : Nat) (hq1 : 2 ^ 52 ≤ q) (hq2 : q < 2 ^ 53)
    (he : e + 1075 < 2047) :
    ofRatioPack sb e q = ofNatBits (sb + (e + 1075).toNat * 2 ^ 52 + (q - 2 ^ 52)) := by
  have h1 : ¬ (q ≥ 2 ^ 53) := by omega
  have h2 : ¬ (q < 2 ^ 52) := by omega
  have h3 : ¬ (e + 1075 ≥ 2047) := by omega
  simp only [ofRatioPack, if_neg h1, if_neg h2, if_neg h3]

theorem log2_of_bounds {m L : Nat} (h1 : 2 ^ L ≤ m) (h2 : m < 2 ^ (L + 1)) : m.log2 = L := by
  have hm : m ≠ 0 := by
    have := Nat.two_pow_pos L; omega
  exact (Nat.log2_eq_iff hm).2 ⟨h1, h2⟩

theorem ofRatioExp_normal_nonneg (m e : Nat) (hm1 : 2 ^ 52 ≤ m) (hm2 : m < 2 ^ 53) :
    ofRatioExp (m * 2 ^ e) 1 = (e : Int) := by
  have hm : m ≠ 0 := by omega
  have hl : m.log2 = 52 := log2_of_bounds hm1 hm2
  have h1 : Nat.log2 1 = 0 := @Nat.log2_two_pow 0
  have h0 : Int.ofNat (52 + e) - Int.ofNat 0 - 52 = (e : Int) := by
    simp only [Int.ofNat_eq_natCast]; omega
  have hge : (e : Int) ≥ 0 := by omega
  have hq : m * 2 ^ e / (1 * 2 ^ e) = m := by
    rw [Nat.one_mul]; exact Nat.mul_div_cancel _ (Nat.two_pow_pos e)
  have h2 : ¬ (m ≥ 2 ^ 53) := by omega
  have h3 : ¬ (m < 2 ^ 52) := by omega
  have h4 : ¬ ((e : Int) < -1074) := by omega
  simp only [ofRatioExp, log2_mul_two_pow m e hm, hl, h1, h0, ofRatioScaled, if_pos hge, Int.toNat_natCast, hq,
    if_neg h2, if_neg h3, if_neg h4]

theorem ofRatio_normal_nonneg (s : Bool) (m e : Nat) (hm1 : 2 ^ 52 ≤ m) (hm2 : m < 2 ^ 53)
    (he : e ≤ 971) :
    ofRatio s (m * 2 ^ e) 1 =
      ofNatBits ((if s then 2 ^ 63 else 0) + (e + 1075) * 2 ^ 52 + (m - 2 ^ 52)) := by
  have hp : 0 < 2 ^ e := Nat.two_pow_pos e
  have hn : m * 2 ^ e ≠ 0 := Nat.mul_ne_zero (by omega) (Nat.ne_of_gt hp)
  have hge : (e : Int) ≥ 0 := by omega
  rw [ofRatio_eq s _ _ hn (by decide), ofRatioExp_normal_nonneg m e hm1 hm2]
  simp only [ofRatioScaled, if_pos hge, Int.toNat_natCast]
  rw [Nat.one_mul, roundHalfEven_exact _ _ hp, ofRatioPack_normal _ _ _ hm1 hm2 (by omega)]
  have h : ((e : Int) + 1075).toNat = e + 1075 := by omega
  rw [h]

theorem ofRatioExp_normal_neg (m k : Nat) (hm1 : 2 ^ 52 ≤ m) (hm2 : m < 2 ^ 53) (hk1 : 1 ≤ k)
    (hk2 : k ≤ 1074) : ofRatioExp m (2 ^ k) = -(k : Int) := by
  have hl : m.log2 = 52 := log2_of_bounds hm1 hm2
  have h0 : Int.ofNat 52 - Int.ofNat k - 52 = -(k : Int) := by
    simp only [Int.ofNat_eq_natCast]; omega
  have hge : ¬ (-(k : Int) ≥ 0) := by omega
  have ht : (- -(k : Int)).toNat = k := by omega
  have hq : m * 2 ^ k / 2 ^ k = m := Nat.mul_div_cancel _ (Nat.two_pow_pos k)
  have h2 : ¬ (m ≥ 2 ^ 53) := by omega
  have h3 : ¬ (m < 2 ^ 52) := by omega
  have h4 : ¬ (-(k : Int) < -1074) := by omega
  simp only [ofRatioExp, hl, Nat.log2_two_pow, h0, ofRatioScaled, if_neg hge, ht, hq,
    if_neg h2, if_neg h3, if_neg h4]

theorem ofRatio_normal_neg (s : Bool) (m k : Nat) (hm1 : 2 ^ 52 ≤ m) (hm2 : m < 2 ^ 53)
    (hk1 : 1 ≤ k) (hk2 : k ≤ 1074) :
    ofRatio s m (2 ^ k) =
      ofNatBits ((if s then 2 ^ 63 else 0) + (1075 - k) * 2 ^ 52 + (m - 2 ^ 52)) := by
  have hp : 0 < 2 ^ k := Nat.two_pow_pos k
  have hge : ¬ (-(k : Int) ≥ 0) := by omega
  have ht : (- -(k : Int)).toNat = k := by omega
  rw [ofRatio_eq s _ _ (by omega) (Nat.ne_of_gt hp), ofRatioExp_normal_neg m k hm1 hm2 hk1 hk2]
  simp only [ofRatioScaled, if_neg hge, ht]
  rw [roundHalfEven_exact _ _ hp, ofRatioPack_normal _ _ _ hm1 hm2 (by omega)]
  have h : (-(k : Int) + 1075).toNat = 1075 - k := by omega
  rw [h]

theorem ofRatioExp_subnormal (f : Nat) (hf0 : f ≠ 0) (hf : f < 2 ^ 52) :
    ofRatioExp f (2 ^ 1074) = -1074 := by
  have hL : f.log2 < 52 := (Nat.log2_lt hf0).2 hf
  have hlo := Nat.log2_self_le hf0
  have hhi := @Nat.lt_log2_self f
  unfold ofRatioExp
  generalize f.log2 = L at hL hlo hhi
  have hge : ¬ (Int.ofNat L - Int.ofNat 1074 - 52 ≥ 0) := by
    simp only [Int.ofNat_eq_natCast]; omega
  have ht : (-(Int.ofNat L - Int.ofNat 1074 - 52)).toNat = (52 - L) + 1074 := by
    simp only [Int.ofNat_eq_natCast]; omega
  have hq : f * 2 ^ (52 - L + 1074) / 2 ^ 1074 = f * 2 ^ (52 - L) := by
    rw [Nat.pow_add, ← Nat.mul_assoc]; exact Nat.mul_div_cancel _ (Nat.two_pow_pos 1074)
  have hpw : 2 ^ L * 2 ^ (52 - L) = 2 ^ 52 := by
    rw [← Nat.pow_add]; congr 1; omega
  have hpw' : 2 ^ (L + 1) * 2 ^ (52 - L) = 2 ^ 53 := by
    rw [← Nat.pow_add]; congr 1; omega
  have h2 : ¬ (f * 2 ^ (52 - L) ≥ 2 ^ 53) := by
    have := Nat.mul_lt_mul_of_pos_right hhi (Nat.two_pow_pos (52 - L))
    omega
  have h3 : ¬ (f * 2 ^ (52 - L) < 2 ^ 52) := by
    have := Nat.mul_le_mul_right (2 ^ (52 - L)) hlo
    omega
  have h4 : Int.ofNat L - Int.ofNat 1074 - 52 < -1074 := by
    simp only [Int.ofNat_eq_natCast]; omega
  simp only [Nat.log2_two_pow, ofRatioScaled, if_neg hge, ht, hq, if_neg h2, if_neg h3, if_pos h4]

theorem ofRatio_subnormal (s : Bool) (f : Nat) (hf : f < 2 ^ 52) :
    ofRatio s f (2 ^ 1074) = ofNatBits ((if s then 2 ^ 63 else 0) + f) := by
  by_cases hf0 : f = 0
  · subst hf0; rw [ofRatio_zero, Nat.add_zero]
  · have hp : 0 < 2 ^ 1074 := Nat.two_pow_pos 1074
    have hge : ¬ ((-1074 : Int) ≥ 0) := by omega
    have ht : (- (-1074 : Int)).toNat = 1074 := by omega
    rw [ofRatio_eq s _ _ hf0 (Nat.ne_of_gt hp), ofRatioExp_subnormal f hf0 hf]
    simp only [ofRatioScaled, if_neg hge, ht]
    rw [roundHalfEven_exact _ _ hp, ofRatioPack_subnormal _ _ _ hf]

/-! ### a finite double is rebuilt from its fields -/

theorem eq_ofNatBits_nbits (x : F64) : x = ofNatBits x.nbits := by
  cases x with
  | mk b => simp only [ofNatBits, nbits, UInt64.ofNat_toNat]

theorem nbits_lt (x : F64) : x.nbits < 2 ^ 64 := UInt64.toNat_lt _

theorem nbits_eq_fields (x : F64) :
    x.nbits = (if x.neg then 2 ^ 63 else 0) + x.expField * 2 ^ 52 + x.frac := by
  have hlt := nbits_lt x
  unfold neg expField frac
  generalize x.nbits = N at *
  split
  · next h => simp only [decide_eq_true_eq] at h; omega
  · next h => simp only [decide_eq_true_eq] at h; omega

theorem frac_lt (x : F64) : x.frac < 2 ^ 52 := Nat.mod_lt _ (Nat.two_pow_pos 52)

theorem expField_lt_of_isFinite (x : F64) (h : x.isFinite = true) : x.expField < 2047 := by
  have h1 : x.expField < 2048 := Nat.mod_lt _ (by decide)
  have h2 : x.expField ≠ 2047 := by simpa [isFinite] using h
  omega

theorem ratio_subnormal (x : F64) (h : x.expField = 0) : x.ratio = (x.frac, 2 ^ 1074) := by
  unfold ratio decode
  have h1 : ¬ ((-1074 : Int) ≥ 0) := by decide
  have h2 : (-(-1074 : Int)).toNat = 1074 := by decide
  rw [if_pos h]
  simp only [if_neg h1, h2]

theorem ratio_normal_nonneg (x : F64) (h : 1075 ≤ x.expField) :
    x.ratio = ((x.frac + 2 ^ 52) * 2 ^ (x.expField - 1075), 1) := by
  have h0 : ¬ (x.expField = 0) := by omega
  have h1 : Int.ofNat x.expField - 1075 ≥ 0 := by simp only [Int.ofNat_eq_natCast]; omega
  have h2 : (Int.ofNat x.expField - 1075).toNat = x.expField - 1075 := by
    simp only [Int.ofNat_eq_natCast]; omega
  unfold ratio decode
  rw [if_neg h0]
  simp only [if_pos h1, h2]

theorem ratio_normal_neg (x : F64) (h1 : 1 ≤ x.expField) (h2 : x.expField < 1075) :
    x.ratio = (x.frac + 2 ^ 52, 2 ^ (1075 - x.expField)) := by
  have h0 : ¬ (x.expField = 0) := by omega
  have h1 : ¬ (Int.ofNat x.expField - 1075 ≥ 0) := by simp only [Int.ofNat_eq_natCast]; omega
  have h2 : (-(Int.ofNat x.expField - 1075)).toNat = 1075 - x.expField := by
    simp only [Int.ofNat_eq_natCast]; omega
  unfold ratio decode
  rw [if_neg h0]
  simp only [if_neg h1, h2]

/-- (A) round trip: a finite double is the correctly rounded image of its exact value. -/
theorem ofRatio_ratio (x : F64) (h : x.isFinite = true) :
    ofRatio x.neg x.ratio.1 x.ratio.2 = x := by
  have hE := expField_lt_of_isFinite x h
  have hf := frac_lt x
  have hN := nbits_eq_fields x
  have hx : ofNatBits x.nbits = x := (eq_ofNatBits_nbits x).symm
  by_cases h0 : x.expField = 0
  · rw [ratio_subnormal x h0, ofRatio_subnormal _ _ hf]
    generalize (if x.neg = true then 2 ^ 63 else 0) = sb at hN ⊢
    have : sb + x.frac = x.nbits := by omega
    rw [this, hx]
  · by_cases h1 : 1075 ≤ x.expField
    · rw [ratio_normal_nonneg x h1,
        ofRatio_normal_nonneg _ _ _ (by omega) (by omega) (by omega)]
      generalize (if x.neg = true then 2 ^ 63 else 0) = sb at hN ⊢
      have : sb + (x.expField - 1075 + 1075) * 2 ^ 52 + (x.frac + 2 ^ 52 - 2 ^ 52) = x.nbits := by
        omega
      rw [this, hx]
    · rw [ratio_normal_neg x (by omega) (by omega),
        ofRatio_normal_neg _ _ _ (by omega) (by omega) (by omega) (by omega)]
      generalize (if x.neg = true then 2 ^ 63 else 0) = sb at hN ⊢
      have : sb + (1075 - (1075 - x.expField)) * 2 ^ 52 + (x.frac + 2 ^ 52 - 2 ^ 52) = x.nbits := by
        omega
      rw [this, hx]

theorem ratio_snd_two_pow (x : F64) : ∃ k, x.ratio.2 = 2 ^ k := by
  by_cases h0 : x.expField = 0
  · exact ⟨1074, by rw [ratio_subnormal x h0]⟩
  · by_cases h1 : 1075 ≤ x.expField
    · exact ⟨0, by rw [ratio_normal_nonneg x h1]⟩
    · exact ⟨1075 - x.expField, by rw [ratio_normal_neg x (by omega) (by omega)]⟩

/-- (C) the exact integer value of an integral double converts back to the same double. -/
theorem ofRatio_integral (x : F64) (h : x.isFinite = true) (hint : x.ratio.1 % x.ratio.2 = 0) :
    ofRatio x.neg (x.ratio.1 / x.ratio.2) 1 = x := by
  obtain ⟨k, hk⟩ := ratio_snd_two_pow x
  have hdvd : x.ratio.1 / x.ratio.2 * x.ratio.2 = x.ratio.1 :=
    Nat.div_mul_cancel (Nat.dvd_of_mod_eq_zero hint)
  have h1 := ofRatio_scale_two_pow x.neg (x.ratio.1 / x.ratio.2) 1 k (by decide)
  rw [Nat.one_mul, ← hk, hdvd] at h1
  rw [← h1, ofRatio_ratio x h]
/-! ### sanity checks on concrete values -/

example : ofRatio false 1 1 = F64.one := by decide
example : ofRatio true 3 2 = ofNatBits 0xBFF8000000000000 := by decide          -- -1.5
example : ofRatio false 1 3 = ofNatBits 0x3FD5555555555555 := by decide         -- 1/3 rounds
example : ofRatio false 1 10 = ofNatBits 0x3FB999999999999A := by decide        -- 0.1 rounds up
-- (B) on a non-trivial instance
example : ofRatio false (3 * 2 ^ 5) (10 * 2 ^ 5) = ofRatio false 3 10 :=
  ofRatio_scale_two_pow false 3 10 5 (by decide)
-- encoder lemmas: 3·2^51 = 0x4338…, 0.75 = 0x3FE8…, smallest subnormal, largest subnormal
example : ofRatio false (3 * 2 ^ 51 * 2 ^ 0) 1 = ofNatBits 0x4338000000000000 :=
  (ofRatio_normal_nonneg false (3 * 2 ^ 51) 0 (by decide) (by decide) (by decide)).trans (by decide)
example : ofRatio false (3 * 2 ^ 51) (2 ^ 53) = ofNatBits 0x3FE8000000000000 :=
  (ofRatio_normal_neg false (3 * 2 ^ 51) 53 (by decide) (by decide) (by decide) (by decide)).trans
    (by decide)
example : ofRatio true 1 (2 ^ 1074) = ofNatBits (2 ^ 63 + 1) :=
  (ofRatio_subnormal true 1 (by decide)).trans (by decide)
example : ofRatio false (2 ^ 52 - 1) (2 ^ 1074) = ofNatBits 0x000FFFFFFFFFFFFF :=
  (ofRatio_subnormal false (2 ^ 52 - 1) (by decide)).trans (by decide)
-- hypotheses of (A) and (C) are met by 3.0 (finite, integral, denominator 2^k with k > 0)
example : (ofNatBits 0x4008000000000000).isFinite = true ∧
    (ofNatBits 0x4008000000000000).ratio = (3 * 2 ^ 51, 2 ^ 51) ∧
    (ofNatBits 0x4008000000000000).ratio.1 % (ofNatBits 0x4008000000000000).ratio.2 = 0 := by
  decide
example : ofRatio false 3 1 = ofNatBits 0x4008000000000000 := by
  have h := ofRatio_integral (ofNatBits 0x4008000000000000) (by decide) (by decide)
  have h1 : (ofNatBits 0x4008000000000000).neg = false := by decide
  have h2 : (ofNatBits 0x4008000000000000).ratio.1 / (ofNatBits 0x4008000000000000).ratio.2 = 3 := by
    decide
  rw [h1, h2] at h
  exact h
-- (A) also covers -0.0, subnormals and the largest finite double
example : (ofNatBits 0x7FEFFFFFFFFFFFFF).isFinite = true := by decide
example : negZero.isFinite = true := by decide

end Blots.F64
