import Blots.Lemmas.Shortest
import Blots.Lemmas.NumText
/-
  Emitted-source number text (`srcNumber`), `to_string` text: character sets and read-back.
-/
open Blots Blots.F64 Blots.NumText

namespace Blots.NumText

theorem radixSplit_none_of_not_mem (m : Char) (cs : List Char) (h : m ∉ cs) : radixSplit m cs = none := by
  unfold radixSplit
  split
  · rename_i c r
    have : c ≠ m := fun hc => h (by subst hc; simp)
    simp [this]
  · rename_i c r
    have : c ≠ m := fun hc => h (by subst hc; simp)
    simp [this]
  · rename_i c r
    have : c ≠ m := fun hc => h (by subst hc; simp)
    simp [this]
  · rfl

/-- a text made only of digits, '.', '-' is converted by plain `str::parse` -/
theorem literalValue_plain (cs : List Char) (h : ∀ c ∈ cs, isDigit c = true ∨ c = '.' ∨ c = '-') :
    literalValue (String.ofList cs) = F64.parseDec (String.ofList cs) := by
  have hb : 'b' ∉ cs := fun hm => by rcases h _ hm with h | h | h <;> revert h <;> decide
  have hx : 'x' ∉ cs := fun hm => by rcases h _ hm with h | h | h <;> revert h <;> decide
  have hu : removeUnderscores cs = cs := by
    unfold removeUnderscores
    rw [List.filter_eq_self]
    intro c hc
    have : c ≠ '_' := fun he => by subst he; rcases h _ hc with h | h | h <;> revert h <;> decide
    simp [this]
  rw [literalValue_decimal cs (radixSplit_none_of_not_mem _ _ hb) (radixSplit_none_of_not_mem _ _ hx), hu]

theorem positional_chars (ds : String) (e : Int) (h : ∀ c ∈ ds.toList, isDigit c = true) :
    ∀ c ∈ (positional ds e).toList, isDigit c = true ∨ c = '.' := by
  intro c hc
  unfold positional at hc
  split at hc
  · simp only [String.toList_append, zeros_toList, List.mem_append, List.mem_replicate] at hc
    rcases hc with hc | hc
    · exact Or.inl (h c hc)
    · left; rw [hc.2]; decide
  · simp only [] at hc
    split at hc
    · simp only [String.toList_append, String.toList_ofList, List.mem_append] at hc
      rcases hc with (hc | hc) | hc
      · exact Or.inl (h c (List.mem_of_mem_take hc))
      · right; simpa using hc
      · exact Or.inl (h c (List.mem_of_mem_drop hc))
    · simp only [String.toList_append, zeros_toList, List.mem_append, List.mem_replicate] at hc
      rcases hc with (hc | hc) | hc
      · have : c = '0' ∨ c = '.' := by simpa using hc
        rcases this with h0 | h0
        · left; rw [h0]; decide
        · right; exact h0
      · left; rw [hc.2]; decide
      · exact Or.inl (h c hc)


theorem sign_chars (neg : Bool) : ∀ c ∈ (if neg then "-" else "").toList, c = '-' := by
  intro c hc
  cases neg <;> simp at hc
  exact hc

theorem toDisplay_chars (x : F64) (hf : x.isFinite = true) :
    ∀ c ∈ (toDisplay x).toList, isDigit c = true ∨ c = '.' ∨ c = '-' := by
  intro c hc
  rw [toDisplay_finite x hf, String.toList_append, List.mem_append] at hc
  rcases hc with hc | hc
  · exact Or.inr (Or.inr (sign_chars _ c hc))
  · split at hc
    · have : c = '0' := by simpa using hc
      left; rw [this]; decide
    · rcases positional_chars _ _ (natDigits_all_isDigit _) c hc with h | h
      · exact Or.inl h
      · exact Or.inr (Or.inl h)

theorem toFixed_zero_chars (x : F64) (hf : x.isFinite = true) (hi : x.isIntegral = true) :
    ∀ c ∈ (toFixed x 0).toList, isDigit c = true ∨ c = '.' ∨ c = '-' := by
  intro c hc
  rw [toFixed_zero_of_integral x hf (ratio_integral_of_isIntegral x hi), String.toList_append,
    List.mem_append] at hc
  rcases hc with hc | hc
  · exact Or.inr (Or.inr (sign_chars _ c hc))
  · exact Or.inl (natDigits_all_isDigit _ c hc)

/-- the emitted-source text of a finite number is made of digits, '.', '-' only -/
theorem srcNumber_chars (x : F64) (hf : x.isFinite = true) :
    ∀ c ∈ (srcNumber x).toList, isDigit c = true ∨ c = '.' ∨ c = '-' := by
  unfold srcNumber
  split
  · rename_i h
    simp only [Bool.and_eq_true] at h
    exact toFixed_zero_chars x hf h.1
  · exact toDisplay_chars x hf

/-- `str::parse` reads the emitted-source text back as the identical double -/
theorem parseDec_srcNumber (x : F64) (hf : x.isFinite = true)
    (h : x.isZero = true ∨ ShortestFound true x) : parseDec (srcNumber x) = some x := by
  unfold srcNumber
  split
  · rename_i hc
    simp only [Bool.and_eq_true] at hc
    exact parseDec_toFixed_zero x hf hc.1
  · exact parseDec_toDisplay x hf h

/-- … and so does the literal conversion of the parser (the text has no radix marker and no
    underscore, so it is converted by `str::parse`) -/
theorem literalValue_srcNumber (x : F64) (hf : x.isFinite = true)
    (h : x.isZero = true ∨ ShortestFound true x) : literalValue (srcNumber x) = some x := by
  have hs : srcNumber x = String.ofList (srcNumber x).toList := (String.ofList_toList).symm
  rw [hs, literalValue_plain _ (srcNumber_chars x hf), ← hs]
  exact parseDec_srcNumber x hf h

/-- a negative number is its magnitude under the negation operator (how `-5` is re-read) -/
theorem negate_abs (x : F64) (h : x.neg = true) : x.abs.negate = x := by
  have hm := mag_lt x
  have hn : x.abs.nbits = x.mag := by
    simp [F64.abs, F64.ofNatBits, F64.nbits, Nat.mod_eq_of_lt (show x.mag < 2 ^ 64 by omega)]
  have hneg : x.abs.neg = false := by
    simp only [F64.neg, hn]
    have : x.mag / 2 ^ 63 % 2 = 0 := by omega
    simp [this]
  have hmag : x.abs.mag = x.mag := by
    simp only [F64.mag, hn]
    exact Nat.mod_eq_of_lt hm
  have hx := eq_ofNatBits_sign_mag x
  rw [h] at hx
  simp only [↓reduceIte] at hx
  unfold F64.negate
  rw [hneg, hmag]
  simp only [Bool.false_eq_true, ↓reduceIte]
  rw [Nat.add_comm]
  exact hx.symm

end Blots.NumText
