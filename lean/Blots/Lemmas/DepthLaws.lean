import Blots.Model.Eval
/-
  Helper lemmas for C18 (runaway recursion ends in a call-depth error).

  * the guard of `callFn` (`FunctionDef::call`): arity first, then `depth > MAX_DEPTH`;
  * where the depth counter is incremented: lambda body +1, built-in +1, callbacks of the
    higher-order built-ins +1 again; `via` / `where` / `into` call back at their own depth;
  * above the limit nothing is evaluated (`callFn_above_limit`, the `*_above_limit` lemmas for
    the callback loops) and the counter is irrelevant (`depth_saturates`, by induction on fuel
    over the whole mutual block);
  * the two runaway programs `f = n => f(n + 1)` and `g = n => h(n); h = n => g(n)`:
    for every `ops` and every fuel the outcome is `fuel` or `err depth`, with exact/sufficient
    fuel thresholds for `err depth`.
-/
namespace Blots.DepthL

/-! ### 1. the guard -/


theorem callFn_lambda_depth_guard (ops : NumOps) (fuel id : Nat) (ps : List LArg) (body : Expr)
    (sc : Frame) (this : Value) (args : List Value) (depth : Nat) (s : ES)
    (ha : (lambdaArity ps).canAccept args.length = true) (hd : depth > MAX_DEPTH) :
    callFn ops (fuel + 1) (.lambda id ps body sc) this args depth s = (.err .depth, s) := by
  simp only [callFn, checkArity, ha, hd, if_true]

theorem callFn_builtin_depth_guard (ops : NumOps) (fuel : Nat) (name : String) (ar : Gen.Arity)
    (this : Value) (args : List Value) (depth : Nat) (s : ES)
    (hb : builtinArity name = some ar)
    (ha : ar.canAccept args.length = true) (hd : depth > MAX_DEPTH) :
    callFn ops (fuel + 1) (.builtin name) this args depth s = (.err .depth, s) := by
  simp only [callFn, checkArity, hb, ha, hd, if_true]

theorem callFn_lambda_arity_first (ops : NumOps) (fuel id : Nat) (ps : List LArg) (body : Expr)
    (sc : Frame) (this : Value) (args : List Value) (depth : Nat) (s : ES)
    (ha : (lambdaArity ps).canAccept args.length = false) :
    callFn ops (fuel + 1) (.lambda id ps body sc) this args depth s = (.err .arity, s) := by
  simp [callFn, checkArity, ha]

theorem callFn_builtin_arity_first (ops : NumOps) (fuel : Nat) (name : String) (ar : Gen.Arity)
    (this : Value) (args : List Value) (depth : Nat) (s : ES)
    (hb : builtinArity name = some ar)
    (ha : ar.canAccept args.length = false) :
    callFn ops (fuel + 1) (.builtin name) this args depth s = (.err .arity, s) := by
  simp [callFn, checkArity, hb, ha]

/-! ### 2. where the counter is incremented

#### (a) a lambda body runs one deeper than the call -/
/-- the callee's frame exactly as `callFn` builds it -/
def callFrame (s : ES) (id : Nat) (scope : Frame) (this : Value) (pf : Frame) : Frame :=
  let name := nameOf s.names id
  let f0 : Frame :=
    match name with
    | some n => if (lookupAL n scope).isSome then [] else [(n, this)]
    | none => []
  let f1 : Frame :=
    match envGet s.env "inputs" with
    | some v => insertAL "inputs" v f0
    | none => f0
  pf.foldl (fun f kv => insertAL kv.1 kv.2 f) f1

def callParent (s : ES) (scope : Frame) : List Frame :=
  if scope.isEmpty then s.env else scope :: s.env

theorem callFn_lambda_body (ops : NumOps) (fuel id : Nat) (ps : List LArg) (body : Expr)
    (sc : Frame) (this : Value) (args : List Value) (d : Nat) (s : ES) (pf : Frame)
    (ha : (lambdaArity ps).canAccept args.length = true) (hd : d ≤ MAX_DEPTH)
    (hb : bindParams ps args = .ok pf) :
    callFn ops (fuel + 1) (.lambda id ps body sc) this args d s =
      ((eval ops fuel (d + 1) body { s with env := callFrame s id sc this pf :: callParent s sc }).1,
       { (eval ops fuel (d + 1) body { s with env := callFrame s id sc this pf :: callParent s sc }).2
           with env := s.env }) := by
  have hd' : ¬ d > MAX_DEPTH := by omega
  simp only [callFn, checkArity, ha, hd', if_true, if_false, hb]
  rfl

/-! #### (b) built-ins run one deeper, their callbacks one deeper again -/

theorem callFn_builtin_hof (ops : NumOps) (fuel : Nat) (name : String) (ar : Gen.Arity)
    (this : Value) (args : List Value) (d : Nat) (s : ES)
    (hb : builtinArity name = some ar) (ha : ar.canAccept args.length = true)
    (hh : isHof name = true) (hd : d ≤ MAX_DEPTH) :
    callFn ops (fuel + 1) (.builtin name) this args d s = callHof ops fuel name args (d + 1) s := by
  have hd' : ¬ d > MAX_DEPTH := by omega
  simp only [callFn, checkArity, hb, ha, hd', hh, if_true, if_false]

theorem callFn_builtin_pure (ops : NumOps) (fuel : Nat) (name : String) (ar : Gen.Arity)
    (this : Value) (args : List Value) (d : Nat) (s : ES)
    (hb : builtinArity name = some ar) (ha : ar.canAccept args.length = true)
    (hh : isHof name = false) (hd : d ≤ MAX_DEPTH) :
    callFn ops (fuel + 1) (.builtin name) this args d s =
      (match callPure ops name args with
       | some r => (r, s)
       | none => (.err .other, s)) := by
  have hd' : ¬ d > MAX_DEPTH := by omega
  simp [callFn, checkArity, hb, ha, hd', hh]
  rfl

/-- wrap a list result -/
def wrapList : R (List Value) → R Value
  | (.ok vs, s1) => (.ok (.list vs), s1)
  | (.err k, s1) => (.err k, s1)
  | (.panic p, s1) => (.panic p, s1)
  | (.fuel, s1) => (.fuel, s1)

theorem callHof_map (ops : NumOps) (fuel : Nat) (l : List Value) (f : Value) (rest : List Value)
    (ar : Gen.Arity) (depth : Nat) (s : ES) (hf : arityOf f = some ar) :
    callHof ops (fuel + 1) "map" (.list l :: f :: rest) depth s =
      wrapList (mapCalls ops fuel f (ar.canAccept 2) l 0 (depth + 1) s) := by
  simp [callHof, hf]
  rfl

theorem callHof_filter (ops : NumOps) (fuel : Nat) (l : List Value) (f : Value) (rest : List Value)
    (ar : Gen.Arity) (depth : Nat) (s : ES) (hf : arityOf f = some ar) :
    callHof ops (fuel + 1) "filter" (.list l :: f :: rest) depth s =
      whereCalls ops fuel f (ar.canAccept 2) l 0 (depth + 1) s := by
  simp [callHof, hf]

theorem callHof_every (ops : NumOps) (fuel : Nat) (l : List Value) (f : Value) (rest : List Value)
    (ar : Gen.Arity) (depth : Nat) (s : ES) (hf : arityOf f = some ar) :
    callHof ops (fuel + 1) "every" (.list l :: f :: rest) depth s =
      quantCalls ops fuel f (ar.canAccept 2) true l 0 (depth + 1) s := by
  simp [callHof, hf]

theorem callHof_some (ops : NumOps) (fuel : Nat) (l : List Value) (f : Value) (rest : List Value)
    (ar : Gen.Arity) (depth : Nat) (s : ES) (hf : arityOf f = some ar) :
    callHof ops (fuel + 1) "some" (.list l :: f :: rest) depth s =
      quantCalls ops fuel f (ar.canAccept 2) false l 0 (depth + 1) s := by
  simp [callHof, hf]

theorem callHof_reduce (ops : NumOps) (fuel : Nat) (l : List Value) (f init : Value) (rest : List Value)
    (ar : Gen.Arity) (depth : Nat) (s : ES) (hf : arityOf f = some ar) :
    callHof ops (fuel + 1) "reduce" (.list l :: f :: init :: rest) depth s =
      foldCalls ops fuel f (ar.canAccept 3) init l 0 (depth + 1) s := by
  simp [callHof, hf]

theorem callHof_group_by (ops : NumOps) (fuel : Nat) (l : List Value) (f : Value) (rest : List Value)
    (ar : Gen.Arity) (depth : Nat) (s : ES) (hf : arityOf f = some ar) :
    callHof ops (fuel + 1) "group_by" (.list l :: f :: rest) depth s =
      (match mapCalls ops fuel f false l 0 (depth + 1) s with
       | (.ok ks, s1) =>
         (match groupByKeys l ks with
          | some r => (.ok (.record r), s1)
          | none => (.err .type_, s1))
       | (.err k, s1) => (.err k, s1)
       | (.panic p, s1) => (.panic p, s1)
       | (.fuel, s1) => (.fuel, s1)) := by
  simp [callHof, hf]
  rfl

theorem callHof_count_by (ops : NumOps) (fuel : Nat) (l : List Value) (f : Value) (rest : List Value)
    (ar : Gen.Arity) (depth : Nat) (s : ES) (hf : arityOf f = some ar) :
    callHof ops (fuel + 1) "count_by" (.list l :: f :: rest) depth s =
      (match mapCalls ops fuel f false l 0 (depth + 1) s with
       | (.ok ks, s1) =>
         (match countByKeys ops ks with
          | some r => (.ok (.record r), s1)
          | none => (.err .type_, s1))
       | (.err k, s1) => (.err k, s1)
       | (.panic p, s1) => (.panic p, s1)
       | (.fuel, s1) => (.fuel, s1)) := by
  simp [callHof, hf]
  rfl

theorem callHof_sort_by (ops : NumOps) (fuel : Nat) (l : List Value) (f : Value) (rest : List Value)
    (depth : Nat) (s : ES) (hf : f.isCallable = true) :
    callHof ops (fuel + 1) "sort_by" (.list l :: f :: rest) depth s =
      (let keyed := (keyCalls ops fuel f l (depth + 1) s).1
       let s1 := (keyCalls ops fuel f l (depth + 1) s).2
       if keyed.any (fun kr => match kr.2 with | .fuel => true | _ => false) then (.fuel, s1)
       else (.ok (.list ((mergeSortBy sortByLt keyed.length keyed).map (·.1))), s1)) := by
  simp [callHof, hf]
  rfl

/-- the argument list a list callback gets: the element, and its index when the callee takes two -/
def cbArgs (withIdx : Bool) (x : Value) (start : Nat) : List Value :=
  if withIdx then [x, .num (F64.ofNat start)] else [x]


theorem mapCalls_cons (ops : NumOps) (fuel : Nat) (f : Value) (w : Bool) (x : Value)
    (xs : List Value) (start depth : Nat) (s : ES) :
    mapCalls ops (fuel + 1) f w (x :: xs) start depth s =
      (match callFn ops fuel f f (cbArgs w x start) depth s with
       | (.ok v, s1) =>
         (match mapCalls ops fuel f w xs (start + 1) depth s1 with
          | (.ok vs, s2) => (.ok (v :: vs), s2)
          | r => r)
       | (.err k, s1) => (.err k, s1)
       | (.panic p, s1) => (.panic p, s1)
       | (.fuel, s1) => (.fuel, s1)) := by
  simp only [mapCalls, cbArgs]
  rfl

theorem quantCalls_cons (ops : NumOps) (fuel : Nat) (f : Value) (w e : Bool) (x : Value)
    (xs : List Value) (start depth : Nat) (s : ES) :
    quantCalls ops (fuel + 1) f w e (x :: xs) start depth s =
      (match callFn ops fuel f f (cbArgs w x start) depth s with
       | (.ok (.bool b), s1) =>
         if e && !b then (.ok (.bool false), s1)
         else if !e && b then (.ok (.bool true), s1)
         else quantCalls ops fuel f w e xs (start + 1) depth s1
       | (.ok _, s1) => (.err .type_, s1)
       | r => r) := by
  simp only [quantCalls, cbArgs]
  rfl

theorem foldCalls_cons (ops : NumOps) (fuel : Nat) (f : Value) (w : Bool) (acc x : Value)
    (xs : List Value) (start depth : Nat) (s : ES) :
    foldCalls ops (fuel + 1) f w acc (x :: xs) start depth s =
      (match callFn ops fuel f f (if w then [acc, x, .num (F64.ofNat start)] else [acc, x]) depth s with
       | (.ok v, s1) => foldCalls ops fuel f w v xs (start + 1) depth s1
       | r => r) := by
  simp only [foldCalls]
  rfl

theorem whereCalls_cons (ops : NumOps) (fuel : Nat) (f : Value) (w : Bool) (x : Value)
    (xs : List Value) (start depth : Nat) (s : ES) :
    whereCalls ops (fuel + 1) f w (x :: xs) start depth s =
      (match callFn ops fuel f f (cbArgs w x start) depth s with
       | (.ok (.bool b), s1) =>
         (match whereCalls ops fuel f w xs (start + 1) depth s1 with
          | (.ok (.list vs), s2) => (.ok (.list (if b then x :: vs else vs)), s2)
          | r => r)
       | (.ok _, s1) => (.err .type_, s1)
       | r => r) := by
  simp only [whereCalls, cbArgs]
  rfl

theorem keyCalls_cons (ops : NumOps) (fuel : Nat) (f x : Value) (xs : List Value) (depth : Nat) (s : ES) :
    keyCalls ops (fuel + 1) f (x :: xs) depth s =
      ((x, (callFn ops fuel f f [x] depth s).1) ::
         (keyCalls ops fuel f xs depth (callFn ops fuel f f [x] depth s).2).1,
       (keyCalls ops fuel f xs depth (callFn ops fuel f f [x] depth s).2).2) := by
  simp only [keyCalls]

theorem viaPairs_cons (ops : NumOps) (fuel : Nat) (x f : Value) (xs fs : List Value) (depth : Nat)
    (s : ES) (hf : f.isCallable = true) :
    viaPairs ops (fuel + 1) (x :: xs) (f :: fs) depth s =
      (match callFn ops fuel f f [x] depth s with
       | (.ok v, s1) =>
         (match viaPairs ops fuel xs fs depth s1 with
          | (.ok (.list vs), s2) => (.ok (.list (v :: vs)), s2)
          | r => r)
       | r => r) := by
  simp only [viaPairs, hf]
  rfl

/-! #### (c) `via` / `where` / `into` call back at the operator's own depth -/

theorem evalBin_via_list (ops : NumOps) (fuel depth : Nat) (la : List Value) (f : Value)
    (ar : Gen.Arity) (s : ES) (hc : f.isCallable = true) (hf : arityOf f = some ar) :
    evalBin ops (fuel + 1) depth .via (.list la) f s =
      wrapList (mapCalls ops fuel f (ar.canAccept 2) la 0 depth s) := by
  cases f <;> simp [Value.isCallable] at hc <;>
    simp [evalBin, isDot, Value.isCallable, hf, wrapList] <;> rfl

theorem evalBin_where_list (ops : NumOps) (fuel depth : Nat) (la : List Value) (f : Value)
    (ar : Gen.Arity) (s : ES) (hc : f.isCallable = true) (hf : arityOf f = some ar) :
    evalBin ops (fuel + 1) depth .where_ (.list la) f s =
      whereCalls ops fuel f (ar.canAccept 2) la 0 depth s := by
  cases f <;> simp [Value.isCallable] at hc <;>
    simp [evalBin, isDot, Value.isCallable, hf]

theorem evalBin_into_list (ops : NumOps) (fuel depth : Nat) (la : List Value) (f : Value)
    (s : ES) (hc : f.isCallable = true) :
    evalBin ops (fuel + 1) depth .into (.list la) f s = callFn ops fuel f f [.list la] depth s := by
  cases f <;> simp [Value.isCallable] at hc <;>
    simp [evalBin, isDot, Value.isCallable, isListV]

theorem evalBin_into_scalar (ops : NumOps) (fuel depth : Nat) (x f : Value)
    (s : ES) (hx : isListV x = false) (hc : f.isCallable = true) :
    evalBin ops (fuel + 1) depth .into x f s = callFn ops fuel f f [x] depth s := by
  cases f <;> simp [Value.isCallable] at hc <;>
    cases x <;> simp [isListV] at hx <;>
    simp [evalBin, isDot, Value.isCallable, isListV]

theorem evalBin_via_scalar (ops : NumOps) (fuel depth : Nat) (x f : Value)
    (s : ES) (hx : isListV x = false) (hc : f.isCallable = true) :
    evalBin ops (fuel + 1) depth .via x f s = callFn ops fuel f f [x] depth s := by
  cases f <;> simp [Value.isCallable] at hc <;>
    cases x <;> simp [isListV] at hx <;>
    simp [evalBin, isDot, Value.isCallable, isListV]

theorem evalBin_via_lists (ops : NumOps) (fuel depth : Nat) (la lb : List Value)
    (s : ES) (hl : la.length = lb.length) :
    evalBin ops (fuel + 1) depth .via (.list la) (.list lb) s = viaPairs ops fuel la lb depth s := by
  simp [evalBin, isDot, hl]

/-! ### 3. above the limit nothing is evaluated -/


/-- the outcomes `callFn` can have above the limit -/
def AboveLimitOutcome (fuel : Nat) (r : Outcome Value) : Prop :=
  (fuel = 0 ∧ r = .fuel) ∨
  (fuel ≠ 0 ∧ (r = .err .arity ∨ r = .err .depth ∨ r = .err .other ∨ r = .err .notCallable))

theorem callFn_above_limit (ops : NumOps) (fuel : Nat) (fv this : Value) (args : List Value)
    (depth : Nat) (s : ES) (hd : depth > MAX_DEPTH) :
    (callFn ops fuel fv this args depth s).2 = s ∧
    AboveLimitOutcome fuel (callFn ops fuel fv this args depth s).1 := by
  cases fuel with
  | zero => simp [callFn, AboveLimitOutcome]
  | succ fuel =>
    cases fv with
    | lambda id ps body sc =>
      cases ha : (lambdaArity ps).canAccept args.length <;>
        simp [callFn, checkArity, ha, hd, AboveLimitOutcome]
    | builtin name =>
      cases hb : builtinArity name with
      | none => simp [callFn, hb, AboveLimitOutcome]
      | some ar =>
        cases ha : ar.canAccept args.length <;>
          simp [callFn, checkArity, hb, ha, hd, AboveLimitOutcome]
    | _ => simp [callFn, AboveLimitOutcome]

/-- the guard stated through `arityOf` -/
theorem callFn_depth_guard (ops : NumOps) (fuel : Nat) (fv this : Value) (args : List Value)
    (ar : Gen.Arity) (depth : Nat) (s : ES) (hf : arityOf fv = some ar)
    (ha : ar.canAccept args.length = true) (hd : depth > MAX_DEPTH) :
    callFn ops (fuel + 1) fv this args depth s = (.err .depth, s) := by
  cases fv with
  | lambda id ps body sc =>
    simp only [arityOf, Option.some.injEq] at hf
    subst hf
    simp only [callFn, checkArity, ha, hd, if_true]
  | builtin name =>
    simp only [arityOf] at hf
    simp only [callFn, checkArity, hf, ha, hd, if_true]
  | _ => simp [arityOf] at hf

theorem cbArgs_length (w : Bool) (x : Value) (st : Nat) : (cbArgs w x st).length = if w then 2 else 1 := by
  cases w <;> rfl

theorem mapCalls_above_limit (ops : NumOps) (fuel : Nat) (f : Value) (w : Bool) (x : Value)
    (xs : List Value) (ar : Gen.Arity) (start depth : Nat) (s : ES) (hf : arityOf f = some ar)
    (ha : ar.canAccept (if w then 2 else 1) = true) (hd : depth > MAX_DEPTH) :
    mapCalls ops (fuel + 2) f w (x :: xs) start depth s = (.err .depth, s) := by
  have h := callFn_depth_guard ops fuel f f (cbArgs w x start) ar depth s hf
    (by rw [cbArgs_length]; exact ha) hd
  simp only [cbArgs] at h
  simp only [mapCalls, h]

theorem whereCalls_above_limit (ops : NumOps) (fuel : Nat) (f : Value) (w : Bool) (x : Value)
    (xs : List Value) (ar : Gen.Arity) (start depth : Nat) (s : ES) (hf : arityOf f = some ar)
    (ha : ar.canAccept (if w then 2 else 1) = true) (hd : depth > MAX_DEPTH) :
    whereCalls ops (fuel + 2) f w (x :: xs) start depth s = (.err .depth, s) := by
  have h := callFn_depth_guard ops fuel f f (cbArgs w x start) ar depth s hf
    (by rw [cbArgs_length]; exact ha) hd
  simp only [cbArgs] at h
  simp only [whereCalls, h]

theorem quantCalls_above_limit (ops : NumOps) (fuel : Nat) (f : Value) (w e : Bool) (x : Value)
    (xs : List Value) (ar : Gen.Arity) (start depth : Nat) (s : ES) (hf : arityOf f = some ar)
    (ha : ar.canAccept (if w then 2 else 1) = true) (hd : depth > MAX_DEPTH) :
    quantCalls ops (fuel + 2) f w e (x :: xs) start depth s = (.err .depth, s) := by
  have h := callFn_depth_guard ops fuel f f (cbArgs w x start) ar depth s hf
    (by rw [cbArgs_length]; exact ha) hd
  simp only [cbArgs] at h
  simp only [quantCalls, h]

theorem foldCalls_above_limit (ops : NumOps) (fuel : Nat) (f : Value) (w : Bool) (acc x : Value)
    (xs : List Value) (ar : Gen.Arity) (start depth : Nat) (s : ES) (hf : arityOf f = some ar)
    (ha : ar.canAccept (if w then 3 else 2) = true) (hd : depth > MAX_DEPTH) :
    foldCalls ops (fuel + 2) f w acc (x :: xs) start depth s = (.err .depth, s) := by
  have h := callFn_depth_guard ops fuel f f (if w then [acc, x, .num (F64.ofNat start)] else [acc, x])
    ar depth s hf (by cases w <;> exact ha) hd
  simp only [foldCalls, h]

theorem viaPairs_above_limit (ops : NumOps) (fuel : Nat) (x f : Value) (xs fs : List Value)
    (ar : Gen.Arity) (depth : Nat) (s : ES) (hc : f.isCallable = true) (hf : arityOf f = some ar)
    (ha : ar.canAccept 1 = true) (hd : depth > MAX_DEPTH) :
    viaPairs ops (fuel + 2) (x :: xs) (f :: fs) depth s = (.err .depth, s) := by
  have h := callFn_depth_guard ops fuel f f [x] ar depth s hf ha hd
  simp [viaPairs, h, hc]

/-- `sort_by` keeps failures as keys: every key is the depth error and the state is untouched -/
theorem keyCalls_above_limit (ops : NumOps) (f : Value) (ar : Gen.Arity) (depth : Nat)
    (hf : arityOf f = some ar) (ha : ar.canAccept 1 = true) (hd : depth > MAX_DEPTH) :
    ∀ (xs : List Value) (fuel : Nat) (s : ES), xs.length < fuel →
      keyCalls ops (fuel + 1) f xs depth s = (xs.map fun x => (x, .err .depth), s)
  | [], fuel, s, _ => by simp [keyCalls]
  | x :: xs, fuel + 1, s, h => by
    have h1 := callFn_depth_guard ops fuel f f [x] ar depth s hf ha hd
    have h2 := keyCalls_above_limit ops f ar depth hf ha hd xs fuel s (by simpa using h)
    simp only [keyCalls, h1, h2, List.map_cons]

/-- a call that returns a value (or panics) was made at a depth within the limit -/
theorem callFn_ok_depth_le (ops : NumOps) (fuel : Nat) (fv this : Value) (args : List Value)
    (depth : Nat) (s : ES) (v : Value) (h : (callFn ops fuel fv this args depth s).1 = .ok v) :
    depth ≤ MAX_DEPTH := by
  apply Nat.le_of_not_gt
  intro hd
  have := (callFn_above_limit ops fuel fv this args depth s hd).2
  simp only [AboveLimitOutcome, h] at this
  rcases this with ⟨_, h'⟩ | ⟨_, h' | h' | h' | h'⟩ <;> cases h'

theorem callFn_panic_depth_le (ops : NumOps) (fuel : Nat) (fv this : Value) (args : List Value)
    (depth : Nat) (s : ES) (p : String) (h : (callFn ops fuel fv this args depth s).1 = .panic p) :
    depth ≤ MAX_DEPTH := by
  apply Nat.le_of_not_gt
  intro hd
  have := (callFn_above_limit ops fuel fv this args depth s hd).2
  simp only [AboveLimitOutcome, h] at this
  rcases this with ⟨_, h'⟩ | ⟨_, h' | h' | h' | h'⟩ <;> cases h'

/-! ### 3b. above the limit the counter is irrelevant -/

/-- inside a call the immutability check of an assignment does not depend on how deep -/
theorem alreadyDefined_of_pos (d : Nat) (env : List Frame) (k : String) (h : d > 0) :
    alreadyDefined d env k = alreadyDefined 1 env k := by
  simp only [alreadyDefined, h, if_true, show (1 : Nat) > 0 from Nat.one_pos]

/-- a name bound nowhere is "not yet defined" at every depth -/
theorem alreadyDefined_of_not_contains (d : Nat) (env : List Frame) (k : String)
    (h : envContains env k = false) : alreadyDefined d env k = false := by
  unfold alreadyDefined
  split
  · cases env with
    | nil => rfl
    | cons f rest =>
      simp only [envContains, envGet] at h
      cases hl : lookupAL k f with
      | none => simp [hl]
      | some v => simp [hl] at h
  · exact h

/-- every function of the evaluator gives the same result at the depths `d` and `d'` -/
structure DepthIrrelevant (ops : NumOps) (fuel d d' : Nat) : Prop where
  eval : ∀ e s, eval ops fuel d e s = eval ops fuel d' e s
  evalList : ∀ es s, evalList ops fuel d es s = evalList ops fuel d' es s
  evalItems : ∀ es s, evalItems ops fuel d es s = evalItems ops fuel d' es s
  evalEntries : ∀ es acc s, evalEntries ops fuel d es acc s = evalEntries ops fuel d' es acc s
  evalDoStmt : ∀ e s, evalDoStmt ops fuel d e s = evalDoStmt ops fuel d' e s
  evalDo : ∀ st r s, evalDo ops fuel d st r s = evalDo ops fuel d' st r s
  callFn : ∀ fv this args s, callFn ops fuel fv this args d s = callFn ops fuel fv this args d' s
  mapCalls : ∀ f w xs st s, mapCalls ops fuel f w xs st d s = mapCalls ops fuel f w xs st d' s
  quantCalls : ∀ f w e xs st s,
    quantCalls ops fuel f w e xs st d s = quantCalls ops fuel f w e xs st d' s
  foldCalls : ∀ f w a xs st s, foldCalls ops fuel f w a xs st d s = foldCalls ops fuel f w a xs st d' s
  keyCalls : ∀ f xs s, keyCalls ops fuel f xs d s = keyCalls ops fuel f xs d' s
  callHof : ∀ n args s, callHof ops fuel n args d s = callHof ops fuel n args d' s
  evalBin : ∀ op a b s, evalBin ops fuel d op a b s = evalBin ops fuel d' op a b s
  viaPairs : ∀ la lb s, viaPairs ops fuel la lb d s = viaPairs ops fuel la lb d' s
  whereCalls : ∀ f w xs st s, whereCalls ops fuel f w xs st d s = whereCalls ops fuel f w xs st d' s

theorem depth_saturates (ops : NumOps) : ∀ (fuel d d' : Nat), d > MAX_DEPTH → d' > MAX_DEPTH →
    DepthIrrelevant ops fuel d d' := by
  intro fuel
  induction fuel with
  | zero =>
    intro d d' _ _
    constructor <;> intros <;> simp only [eval, evalList, evalItems, evalEntries, evalDoStmt, evalDo, callFn,
      mapCalls, quantCalls, foldCalls, keyCalls, callHof, evalBin, viaPairs, whereCalls]
  | succ fuel ih =>
    intro d d' hd hd'
    have h0 := ih d d' hd hd'
    have h1 := ih (d + 1) (d' + 1) (by omega) (by omega)
    have hA : ∀ env k, alreadyDefined d env k = alreadyDefined d' env k := fun env k => by
      rw [alreadyDefined_of_pos d env k (by omega), alreadyDefined_of_pos d' env k (by omega)]
    constructor
    · intro e s
      cases e <;> simp only [eval, hA, h0.eval, h0.evalItems, h0.evalEntries, h0.evalDo, h0.evalList, h0.callFn, h0.evalBin]
    · intro es s
      cases es <;> simp only [evalList, h0.eval, h0.evalList]
    · intro es s
      cases es with
      | nil => simp only [evalItems]
      | cons i rest => cases i; simp only [evalItems, h0.eval, h0.evalItems]
    · intro es acc s
      cases es with
      | nil => simp only [evalEntries]
      | cons i rest =>
        cases i with
        | mk l k v t => cases k <;> simp only [evalEntries, h0.eval, h0.evalEntries]
    · intro e s
      cases e <;> simp only [evalDoStmt, h0.eval]
    · intro st r s
      cases r
      cases st with
      | nil => simp only [evalDo, h0.evalDoStmt]
      | cons i rest => cases i; simp only [evalDo, h0.evalDoStmt, h0.evalDo]
    · intro fv this args s
      cases fv <;> simp only [callFn, hd, hd', if_true]
    · intro f w xs st s
      cases xs <;> simp only [mapCalls, h0.callFn, h0.mapCalls]
    · intro f w e xs st s
      cases xs <;> simp only [quantCalls, h0.callFn, h0.quantCalls]
    · intro f w a xs st s
      cases xs <;> simp only [foldCalls, h0.callFn, h0.foldCalls]
    · intro f xs s
      cases xs <;> simp only [keyCalls, h0.callFn, h0.keyCalls]
    · intro n args s
      rw [callHof.eq_def, callHof.eq_def]
      simp only [h1.keyCalls, h1.mapCalls, h1.whereCalls, h1.quantCalls, h1.foldCalls]
    · intro op a b s
      rw [evalBin.eq_def, evalBin.eq_def]
      simp only [h0.viaPairs, h0.mapCalls, h0.callFn, h0.whereCalls]
    · intro la lb s
      rw [viaPairs.eq_def, viaPairs.eq_def]
      simp only [h0.callFn, h0.viaPairs]
    · intro f w xs st s
      cases xs <;> simp only [whereCalls, h0.callFn, h0.whereCalls]

/-- the evaluator behaves as if its counter were clamped to `0 … MAX_DEPTH + 1` -/
theorem eval_depth_clamped (ops : NumOps) (fuel d : Nat) (e : Expr) (s : ES) :
    eval ops fuel d e s = eval ops fuel (min d (MAX_DEPTH + 1)) e s := by
  by_cases h : d ≤ MAX_DEPTH + 1
  · rw [Nat.min_eq_left h]
  · rw [Nat.min_eq_right (by omega)]
    exact (depth_saturates ops fuel d (MAX_DEPTH + 1) (by omega) (by omega)).eval e s

theorem callFn_depth_clamped (ops : NumOps) (fuel d : Nat) (fv this : Value) (args : List Value)
    (s : ES) :
    callFn ops fuel fv this args d s = callFn ops fuel fv this args (min d (MAX_DEPTH + 1)) s := by
  by_cases h : d ≤ MAX_DEPTH + 1
  · rw [Nat.min_eq_left h]
  · rw [Nat.min_eq_right (by omega)]
    exact (depth_saturates ops fuel d (MAX_DEPTH + 1) (by omega) (by omega)).callFn fv this args s

/-- `map` called within two levels of the limit on a non-empty list: its first callback is
    refused (the built-in and its callback each add one level) -/
theorem callFn_map_near_limit (ops : NumOps) (fuel : Nat) (this x f : Value) (xs : List Value)
    (arM ar : Gen.Arity) (d : Nat) (s : ES)
    (hb : builtinArity "map" = some arM) (hm : arM.canAccept 2 = true)
    (hf : arityOf f = some ar) (ha : ar.canAccept 2 = true ∨ ar.canAccept 1 = true)
    (hd : d ≤ MAX_DEPTH) (hd2 : d + 2 > MAX_DEPTH) :
    callFn ops (fuel + 4) (.builtin "map") this [.list (x :: xs), f] d s = (.err .depth, s) := by
  rw [callFn_builtin_hof ops (fuel + 3) "map" arM this [.list (x :: xs), f] d s hb hm (by decide) hd,
    callHof_map ops (fuel + 2) (x :: xs) f [] ar (d + 1) s hf,
    mapCalls_above_limit ops fuel f (ar.canAccept 2) x xs ar 0 (d + 1 + 1) s hf
      (by cases h2 : ar.canAccept 2 <;> simp_all) (by omega)]
  rfl

/-! ### 4. runaway programs -/

theorem lookupAL_insertAL_self {α} (k : String) (v : α) : ∀ (f : List (String × α)),
    lookupAL k (insertAL k v f) = some v
  | [] => by simp [insertAL, lookupAL]
  | (k', v') :: rest => by
    by_cases h : k' = k
    · simp [insertAL, lookupAL, h]
    · simp [insertAL, lookupAL, h, lookupAL_insertAL_self k v rest]

theorem lookupAL_insertAL_ne {α} (k k2 : String) (v : α) (h : k2 ≠ k) : ∀ (f : List (String × α)),
    lookupAL k (insertAL k2 v f) = lookupAL k f
  | [] => by simp [insertAL, lookupAL, h]
  | (k', v') :: rest => by
    by_cases h2 : k' = k2
    · subst h2; simp [insertAL, lookupAL, h]
    · by_cases h3 : k' = k
      · subst h3; simp [insertAL, lookupAL, h2]
      · simp [insertAL, lookupAL, h2, h3, lookupAL_insertAL_ne k k2 v h rest]

theorem envGet_envInsert_self (env : List Frame) (k : String) (v : Value) :
    envGet (envInsert env k v) k = some v := by
  cases env with
  | nil => simp [envInsert, envGet, lookupAL]
  | cons f rest => simp [envInsert, envGet, lookupAL_insertAL_self]

/-- `f(n + 1)` -/
def selfBody : Expr := .call (.ident "f") [.bin .add (.ident "n") (.num F64.one)]
/-- `n => f(n + 1)` -/
def selfLamExpr : Expr := .lambda [.req "n"] selfBody
/-- `f = n => f(n + 1)` -/
def selfDef : Expr := .assign "f" selfLamExpr
/-- `f(0)` -/
def selfCall : Expr := .call (.ident "f") [.num F64.zero]
/-- the value of `n => f(n + 1)` when `f` is not yet bound: nothing is captured -/
def selfLam (id : Nat) : Value := .lambda id [.req "n"] selfBody []

theorem eval_selfBody_big (ops : NumOps) (k dd id : Nat) (x : F64) (s : ES)
    (hf : envGet s.env "f" = some (selfLam id)) (hn : envGet s.env "n" = some (.num x)) :
    eval ops (k + 4) dd selfBody s =
      callFn ops (k + 3) (selfLam id) (selfLam id) [.num (ops.add x F64.one)] dd s := by
  simp [selfBody, eval, evalList, evalBin, hf, hn, isDot, scalarOp, asNumber, flattenSpreads,
    selfLam, Value.isCallable, Bind.bind, Outcome.bind, Pure.pure]

theorem eval_selfBody_small (ops : NumOps) (fuel dd id : Nat) (s : ES) (hk : fuel < 4)
    (hf : envGet s.env "f" = some (selfLam id)) :
    eval ops fuel dd selfBody s = (.fuel, s) := by
  match fuel, hk with
  | 0, _ => simp [selfBody, eval]
  | 1, _ => simp [selfBody, eval]
  | 2, _ => simp [selfBody, eval, evalList, hf]
  | 3, _ => simp [selfBody, eval, evalList, hf]

/-- the state in which `callFn` evaluates the body of `selfLam id` applied to `x` -/
def selfCallee (s : ES) (id : Nat) (x : Value) : ES :=
  { s with env :=
      (insertAL "n" x
        (match envGet s.env "inputs" with
         | some v => insertAL "inputs" v [("f", selfLam id)]
         | none => [("f", selfLam id)])) :: s.env }

theorem selfCallee_f (s : ES) (id : Nat) (x : Value) :
    envGet (selfCallee s id x).env "f" = some (selfLam id) := by
  have h : lookupAL "f" (match envGet s.env "inputs" with
        | some v => insertAL "inputs" v [("f", selfLam id)]
        | none => [("f", selfLam id)]) = some (selfLam id) := by
    cases envGet s.env "inputs" with
    | none => simp [lookupAL]
    | some v =>
      simp only []
      rw [lookupAL_insertAL_ne _ _ _ (by decide)]
      simp [lookupAL]
  simp only [selfCallee, envGet]
  rw [lookupAL_insertAL_ne _ _ _ (by decide), h]

theorem selfCallee_n (s : ES) (id : Nat) (x : Value) :
    envGet (selfCallee s id x).env "n" = some x := by
  simp only [selfCallee, envGet, lookupAL_insertAL_self]

theorem callFn_selfLam_step (ops : NumOps) (fuel id : Nat) (x : F64) (d : Nat) (s : ES)
    (hn : nameOf s.names id = some "f") (hd : d ≤ MAX_DEPTH) :
    callFn ops (fuel + 1) (selfLam id) (selfLam id) [.num x] d s =
      ((eval ops fuel (d + 1) selfBody (selfCallee s id (.num x))).1,
       { (eval ops fuel (d + 1) selfBody (selfCallee s id (.num x))).2 with env := s.env }) := by
  have hd' : ¬ d > MAX_DEPTH := by omega
  simp [selfLam, callFn, checkArity, lambdaArity, Gen.Arity.canAccept, hd', hn, lookupAL,
    bindParams, bindParams.go, selfCallee, show insertAL "n" (Value.num x) [] = [("n", .num x)] from rfl]
  exact ⟨rfl, rfl, rfl⟩

/-- never `ok`, never another error, never a panic; and the caller's state is intact -/
theorem callFn_selfLam_dichotomy (ops : NumOps) (id : Nat) :
    ∀ (fuel : Nat) (x : F64) (d : Nat) (s : ES), nameOf s.names id = some "f" →
      callFn ops fuel (selfLam id) (selfLam id) [.num x] d s = (.fuel, s) ∨
      callFn ops fuel (selfLam id) (selfLam id) [.num x] d s = (.err .depth, s) := by
  intro fuel
  induction fuel using Nat.strongRecOn with
  | _ fuel ih =>
    intro x d s hn
    match fuel, ih with
    | 0, _ => left; simp [callFn]
    | fuel + 1, ih =>
      by_cases hd : d > MAX_DEPTH
      · right
        simp [selfLam, callFn, checkArity, lambdaArity, Gen.Arity.canAccept, hd]
      · rw [callFn_selfLam_step ops fuel id x d s hn (by omega)]
        by_cases hk : fuel < 4
        · left
          rw [eval_selfBody_small ops fuel (d + 1) id _ hk (selfCallee_f s id _)]
          rfl
        · obtain ⟨k, rfl⟩ : ∃ k, fuel = k + 4 := ⟨fuel - 4, by omega⟩
          rw [eval_selfBody_big ops k (d + 1) id x _ (selfCallee_f s id _) (selfCallee_n s id _)]
          have hn' : nameOf (selfCallee s id (.num x)).names id = some "f" := hn
          rcases ih (k + 3) (by omega) (ops.add x F64.one) (d + 1) _ hn' with h | h
          · left; rw [h]; rfl
          · right; rw [h]; rfl


/-- with enough fuel the runaway is cut exactly by the guard: `k` = remaining levels -/
theorem callFn_selfLam_hits_limit (ops : NumOps) (id : Nat) :
    ∀ (k d : Nat), d + k = MAX_DEPTH + 1 → ∀ (fuel : Nat) (x : F64) (s : ES),
      nameOf s.names id = some "f" → fuel ≥ 2 * k + 3 →
      callFn ops fuel (selfLam id) (selfLam id) [.num x] d s = (.err .depth, s)
  | 0, d, hk, fuel, x, s, _, hf => by
    obtain ⟨j, rfl⟩ : ∃ j, fuel = j + 1 := ⟨fuel - 1, by omega⟩
    have hd : d > MAX_DEPTH := by omega
    simp [selfLam, callFn, checkArity, lambdaArity, Gen.Arity.canAccept, hd]
  | k + 1, d, hk, fuel, x, s, hn, hf => by
    obtain ⟨j, rfl⟩ : ∃ j, fuel = j + 5 := ⟨fuel - 5, by omega⟩
    have hn' : nameOf (selfCallee s id (.num x)).names id = some "f" := hn
    rw [callFn_selfLam_step ops (j + 4) id x d s hn (by omega),
      eval_selfBody_big ops j (d + 1) id x _ (selfCallee_f s id _) (selfCallee_n s id _),
      callFn_selfLam_hits_limit ops id k (d + 1) (by omega) (j + 3) _ _ hn' (by omega)]
    rfl

/-- … and with less fuel than that the model gives up before the guard is reached -/
theorem callFn_selfLam_below_threshold (ops : NumOps) (id : Nat) :
    ∀ (k d : Nat), d + (k + 1) = MAX_DEPTH + 1 → ∀ (fuel : Nat) (x : F64) (s : ES),
      nameOf s.names id = some "f" → fuel < 2 * (k + 1) + 3 →
      callFn ops fuel (selfLam id) (selfLam id) [.num x] d s = (.fuel, s) := by
  intro k
  induction k with
  | zero =>
    intro d hk fuel x s hn hf
    match fuel, hf with
    | 0, _ => simp [callFn]
    | j + 1, hf =>
      rw [callFn_selfLam_step ops j id x d s hn (by omega),
        eval_selfBody_small ops j (d + 1) id _ (by omega) (selfCallee_f s id _)]
      rfl
  | succ k ih =>
    intro d hk fuel x s hn hf
    match fuel, hf with
    | 0, _ => simp [callFn]
    | j + 1, hf =>
      rw [callFn_selfLam_step ops j id x d s hn (by omega)]
      by_cases hj : j < 4
      · rw [eval_selfBody_small ops j (d + 1) id _ hj (selfCallee_f s id _)]
        rfl
      · obtain ⟨i, rfl⟩ : ∃ i, j = i + 4 := ⟨j - 4, by omega⟩
        have hn' : nameOf (selfCallee s id (.num x)).names id = some "f" := hn
        rw [eval_selfBody_big ops i (d + 1) id x _ (selfCallee_f s id _) (selfCallee_n s id _),
          ih (d + 1) (by omega) (i + 3) _ _ hn' (by omega)]
        rfl

/-- the state after `f = n => f(n + 1)` -/
def afterSelfDef (s : ES) : ES :=
  { env := envInsert s.env "f" (selfLam s.nextId), nextId := s.nextId + 1,
    names := (s.nextId, "f") :: s.names }

theorem eval_selfDef (ops : NumOps) (fuel depth : Nat) (s : ES) (h : envContains s.env "f" = false)
    (hfr : nameOf s.names s.nextId = none) :
    eval ops (fuel + 2) depth selfDef s = (.ok (selfLam s.nextId), afterSelfDef s) := by
  have h' : envGet s.env "f" = none := by simpa [envContains] using h
  have hb : isBuiltinIdent "f" = false := by decide
  have hk : ¬ "f" ∈ Gen.assignKeywords := by decide
  have hv : freeVars ["n"] selfBody = ["f"] := by decide
  have hA := alreadyDefined_of_not_contains depth s.env "f" h
  simp [selfDef, selfLamExpr, eval, hb, hk, hA, hv, captureScope, h', setNameIfLambda, LArg.name,
    afterSelfDef, selfLam, hfr, createdSince]

theorem afterSelfDef_f (s : ES) : envGet (afterSelfDef s).env "f" = some (selfLam s.nextId) :=
  envGet_envInsert_self _ _ _

theorem afterSelfDef_name (s : ES) : nameOf (afterSelfDef s).names s.nextId = some "f" := by
  simp [afterSelfDef, nameOf]

theorem eval_selfCall_big (ops : NumOps) (j depth id : Nat) (s : ES)
    (hf : envGet s.env "f" = some (selfLam id)) :
    eval ops (j + 3) depth selfCall s =
      callFn ops (j + 2) (selfLam id) (selfLam id) [.num F64.zero] depth s := by
  simp [selfCall, eval, evalList, hf, flattenSpreads, selfLam, Value.isCallable]

theorem eval_selfCall_small (ops : NumOps) (fuel depth id : Nat) (s : ES) (hk : fuel < 3)
    (hf : envGet s.env "f" = some (selfLam id)) :
    eval ops fuel depth selfCall s = (.fuel, s) := by
  match fuel, hk with
  | 0, _ => simp [selfCall, eval]
  | 1, _ => simp [selfCall, eval]
  | 2, _ => simp [selfCall, eval, evalList, hf]


theorem envGet_envInsert_ne (env : List Frame) (k k2 : String) (v : Value) (h : k2 ≠ k) :
    envGet (envInsert env k2 v) k = envGet env k := by
  cases env with
  | nil => simp [envInsert, envGet, lookupAL, h]
  | cons f rest => simp [envInsert, envGet, lookupAL_insertAL_ne _ _ _ h]

/-! ### the mutual pair `g = n => h(n)`, `h = n => g(n)` -/

def pairGBody : Expr := .call (.ident "h") [.ident "n"]
def pairHBody : Expr := .call (.ident "g") [.ident "n"]
def pairGDef : Expr := .assign "g" (.lambda [.req "n"] pairGBody)
def pairHDef : Expr := .assign "h" (.lambda [.req "n"] pairHBody)
def pairCall : Expr := .call (.ident "g") [.num F64.zero]
/-- `g`: created while `h` is unbound, captures nothing -/
def pairG (idg : Nat) : Value := .lambda idg [.req "n"] pairGBody []
/-- `h`: created after `g`, captures it -/
def pairH (idg idh : Nat) : Value := .lambda idh [.req "n"] pairHBody [("g", pairG idg)]

def pairGCallee (s : ES) (idg : Nat) (x : Value) : ES :=
  { s with env :=
      (insertAL "n" x
        (match envGet s.env "inputs" with
         | some v => insertAL "inputs" v [("g", pairG idg)]
         | none => [("g", pairG idg)])) :: s.env }

def pairHCallee (s : ES) (idg idh : Nat) (x : Value) : ES :=
  { s with env :=
      (insertAL "n" x
        (match envGet s.env "inputs" with
         | some v => insertAL "inputs" v [("h", pairH idg idh)]
         | none => [("h", pairH idg idh)])) :: [("g", pairG idg)] :: s.env }

theorem pairGCallee_h (s : ES) (idg : Nat) (x v : Value) (h : envGet s.env "h" = some v) :
    envGet (pairGCallee s idg x).env "h" = some v := by
  have h1 : lookupAL "h" (match envGet s.env "inputs" with
        | some v => insertAL "inputs" v [("g", pairG idg)]
        | none => [("g", pairG idg)]) = none := by
    cases envGet s.env "inputs" with
    | none => simp [lookupAL]
    | some v =>
      simp only []
      rw [lookupAL_insertAL_ne _ _ _ (by decide)]
      simp [lookupAL]
  simp only [pairGCallee, envGet]
  rw [lookupAL_insertAL_ne _ _ _ (by decide), h1]
  exact h

theorem pairGCallee_n (s : ES) (idg : Nat) (x : Value) :
    envGet (pairGCallee s idg x).env "n" = some x := by
  simp only [pairGCallee, envGet, lookupAL_insertAL_self]

theorem pairHCallee_h (s : ES) (idg idh : Nat) (x : Value) :
    envGet (pairHCallee s idg idh x).env "h" = some (pairH idg idh) := by
  have h1 : lookupAL "h" (match envGet s.env "inputs" with
        | some v => insertAL "inputs" v [("h", pairH idg idh)]
        | none => [("h", pairH idg idh)]) = some (pairH idg idh) := by
    cases envGet s.env "inputs" with
    | none => simp [lookupAL]
    | some v =>
      simp only []
      rw [lookupAL_insertAL_ne _ _ _ (by decide)]
      simp [lookupAL]
  simp only [pairHCallee, envGet]
  rw [lookupAL_insertAL_ne _ _ _ (by decide), h1]

theorem pairHCallee_g (s : ES) (idg idh : Nat) (x : Value) :
    envGet (pairHCallee s idg idh x).env "g" = some (pairG idg) := by
  have h1 : lookupAL "g" (match envGet s.env "inputs" with
        | some v => insertAL "inputs" v [("h", pairH idg idh)]
        | none => [("h", pairH idg idh)]) = none := by
    cases envGet s.env "inputs" with
    | none => simp [lookupAL]
    | some v =>
      simp only []
      rw [lookupAL_insertAL_ne _ _ _ (by decide)]
      simp [lookupAL]
  simp only [pairHCallee, envGet]
  rw [lookupAL_insertAL_ne _ _ _ (by decide), h1]
  simp [lookupAL]

theorem pairHCallee_n (s : ES) (idg idh : Nat) (x : Value) :
    envGet (pairHCallee s idg idh x).env "n" = some x := by
  simp only [pairHCallee, envGet, lookupAL_insertAL_self]

theorem callFn_pairG_step (ops : NumOps) (fuel idg : Nat) (x : Value) (d : Nat) (s : ES)
    (hn : nameOf s.names idg = some "g") (hd : d ≤ MAX_DEPTH) :
    callFn ops (fuel + 1) (pairG idg) (pairG idg) [x] d s =
      ((eval ops fuel (d + 1) pairGBody (pairGCallee s idg x)).1,
       { (eval ops fuel (d + 1) pairGBody (pairGCallee s idg x)).2 with env := s.env }) := by
  have hd' : ¬ d > MAX_DEPTH := by omega
  simp [pairG, callFn, checkArity, lambdaArity, Gen.Arity.canAccept, hd', hn, lookupAL,
    bindParams, bindParams.go, pairGCallee, show insertAL "n" x [] = [("n", x)] from rfl]
  exact ⟨rfl, rfl, rfl⟩

theorem callFn_pairH_step (ops : NumOps) (fuel idg idh : Nat) (x : Value) (d : Nat) (s : ES)
    (hn : nameOf s.names idh = some "h") (hd : d ≤ MAX_DEPTH) :
    callFn ops (fuel + 1) (pairH idg idh) (pairH idg idh) [x] d s =
      ((eval ops fuel (d + 1) pairHBody (pairHCallee s idg idh x)).1,
       { (eval ops fuel (d + 1) pairHBody (pairHCallee s idg idh x)).2 with env := s.env }) := by
  have hd' : ¬ d > MAX_DEPTH := by omega
  simp [pairH, callFn, checkArity, lambdaArity, Gen.Arity.canAccept, hd', hn, lookupAL,
    bindParams, bindParams.go, pairHCallee, show insertAL "n" x [] = [("n", x)] from rfl]
  exact ⟨rfl, rfl, rfl⟩

theorem eval_pairGBody_big (ops : NumOps) (k dd idg idh : Nat) (x : F64) (s : ES)
    (hh : envGet s.env "h" = some (pairH idg idh)) (hn : envGet s.env "n" = some (.num x)) :
    eval ops (k + 3) dd pairGBody s =
      callFn ops (k + 2) (pairH idg idh) (pairH idg idh) [.num x] dd s := by
  simp [pairGBody, eval, evalList, hh, hn, flattenSpreads, pairH, Value.isCallable]

theorem eval_pairGBody_small (ops : NumOps) (fuel dd idg idh : Nat) (s : ES) (hk : fuel < 3)
    (hh : envGet s.env "h" = some (pairH idg idh)) :
    eval ops fuel dd pairGBody s = (.fuel, s) := by
  match fuel, hk with
  | 0, _ => simp [pairGBody, eval]
  | 1, _ => simp [pairGBody, eval]
  | 2, _ => simp [pairGBody, eval, evalList, hh]

theorem eval_pairHBody_big (ops : NumOps) (k dd idg : Nat) (x : F64) (s : ES)
    (hg : envGet s.env "g" = some (pairG idg)) (hn : envGet s.env "n" = some (.num x)) :
    eval ops (k + 3) dd pairHBody s =
      callFn ops (k + 2) (pairG idg) (pairG idg) [.num x] dd s := by
  simp [pairHBody, eval, evalList, hg, hn, flattenSpreads, pairG, Value.isCallable]

theorem eval_pairHBody_small (ops : NumOps) (fuel dd idg : Nat) (s : ES) (hk : fuel < 3)
    (hg : envGet s.env "g" = some (pairG idg)) :
    eval ops fuel dd pairHBody s = (.fuel, s) := by
  match fuel, hk with
  | 0, _ => simp [pairHBody, eval]
  | 1, _ => simp [pairHBody, eval]
  | 2, _ => simp [pairHBody, eval, evalList, hg]

/-- neither function of the pair ever returns, errs otherwise, or panics -/
theorem callFn_pair_dichotomy (ops : NumOps) (idg idh : Nat) :
    ∀ (fuel : Nat) (x : F64) (d : Nat) (s : ES),
      nameOf s.names idg = some "g" → nameOf s.names idh = some "h" →
      (envGet s.env "h" = some (pairH idg idh) →
        callFn ops fuel (pairG idg) (pairG idg) [.num x] d s = (.fuel, s) ∨
        callFn ops fuel (pairG idg) (pairG idg) [.num x] d s = (.err .depth, s)) ∧
      (callFn ops fuel (pairH idg idh) (pairH idg idh) [.num x] d s = (.fuel, s) ∨
       callFn ops fuel (pairH idg idh) (pairH idg idh) [.num x] d s = (.err .depth, s)) := by
  intro fuel
  induction fuel using Nat.strongRecOn with
  | _ fuel ih =>
    intro x d s hng hnh
    match fuel, ih with
    | 0, _ => simp [callFn]
    | fuel + 1, ih =>
      by_cases hd : d > MAX_DEPTH
      · constructor
        · intro _; right
          simp [pairG, callFn, checkArity, lambdaArity, Gen.Arity.canAccept, hd]
        · right
          simp [pairH, callFn, checkArity, lambdaArity, Gen.Arity.canAccept, hd]
      · constructor
        · intro hh
          rw [callFn_pairG_step ops fuel idg (.num x) d s hng (by omega)]
          have hh' := pairGCallee_h s idg (.num x) _ hh
          by_cases hk : fuel < 3
          · left
            rw [eval_pairGBody_small ops fuel (d + 1) idg idh _ hk hh']
            rfl
          · obtain ⟨k, rfl⟩ : ∃ k, fuel = k + 3 := ⟨fuel - 3, by omega⟩
            rw [eval_pairGBody_big ops k (d + 1) idg idh x _ hh' (pairGCallee_n s idg _)]
            have hng' : nameOf (pairGCallee s idg (.num x)).names idg = some "g" := hng
            have hnh' : nameOf (pairGCallee s idg (.num x)).names idh = some "h" := hnh
            rcases (ih (k + 2) (by omega) x (d + 1) _ hng' hnh').2 with h | h
            · left; rw [h]; rfl
            · right; rw [h]; rfl
        · rw [callFn_pairH_step ops fuel idg idh (.num x) d s hnh (by omega)]
          by_cases hk : fuel < 3
          · left
            rw [eval_pairHBody_small ops fuel (d + 1) idg _ hk (pairHCallee_g s idg idh _)]
            rfl
          · obtain ⟨k, rfl⟩ : ∃ k, fuel = k + 3 := ⟨fuel - 3, by omega⟩
            rw [eval_pairHBody_big ops k (d + 1) idg x _ (pairHCallee_g s idg idh _)
              (pairHCallee_n s idg idh _)]
            have hng' : nameOf (pairHCallee s idg idh (.num x)).names idg = some "g" := hng
            have hnh' : nameOf (pairHCallee s idg idh (.num x)).names idh = some "h" := hnh
            rcases (ih (k + 2) (by omega) x (d + 1) _ hng' hnh').1
              (pairHCallee_h s idg idh _) with h | h
            · left; rw [h]; rfl
            · right; rw [h]; rfl

/-- with enough fuel the guard is what stops the pair -/
theorem callFn_pair_hits_limit (ops : NumOps) (idg idh : Nat) :
    ∀ (k d : Nat), d + k = MAX_DEPTH + 1 → ∀ (fuel : Nat) (x : F64) (s : ES),
      nameOf s.names idg = some "g" → nameOf s.names idh = some "h" → fuel ≥ 2 * k + 2 →
      (envGet s.env "h" = some (pairH idg idh) →
        callFn ops fuel (pairG idg) (pairG idg) [.num x] d s = (.err .depth, s)) ∧
      callFn ops fuel (pairH idg idh) (pairH idg idh) [.num x] d s = (.err .depth, s)
  | 0, d, hk, fuel, x, s, _, _, hf => by
    obtain ⟨j, rfl⟩ : ∃ j, fuel = j + 1 := ⟨fuel - 1, by omega⟩
    have hd : d > MAX_DEPTH := by omega
    constructor
    · intro _
      simp [pairG, callFn, checkArity, lambdaArity, Gen.Arity.canAccept, hd]
    · simp [pairH, callFn, checkArity, lambdaArity, Gen.Arity.canAccept, hd]
  | k + 1, d, hk, fuel, x, s, hng, hnh, hf => by
    obtain ⟨j, rfl⟩ : ∃ j, fuel = j + 4 := ⟨fuel - 4, by omega⟩
    constructor
    · intro hh
      have hh' := pairGCallee_h s idg (.num x) _ hh
      have hng' : nameOf (pairGCallee s idg (.num x)).names idg = some "g" := hng
      have hnh' : nameOf (pairGCallee s idg (.num x)).names idh = some "h" := hnh
      rw [callFn_pairG_step ops (j + 3) idg (.num x) d s hng (by omega),
        eval_pairGBody_big ops j (d + 1) idg idh x _ hh' (pairGCallee_n s idg _),
        (callFn_pair_hits_limit ops idg idh k (d + 1) (by omega) (j + 2) x _ hng' hnh'
          (by omega)).2]
      rfl
    · have hng' : nameOf (pairHCallee s idg idh (.num x)).names idg = some "g" := hng
      have hnh' : nameOf (pairHCallee s idg idh (.num x)).names idh = some "h" := hnh
      rw [callFn_pairH_step ops (j + 3) idg idh (.num x) d s hnh (by omega),
        eval_pairHBody_big ops j (d + 1) idg x _ (pairHCallee_g s idg idh _)
          (pairHCallee_n s idg idh _),
        (callFn_pair_hits_limit ops idg idh k (d + 1) (by omega) (j + 2) x _ hng' hnh'
          (by omega)).1 (pairHCallee_h s idg idh _)]
      rfl

/-- the state after `g = n => h(n)` and `h = n => g(n)` -/
def afterPairDefs (s : ES) : ES :=
  { env := envInsert (envInsert s.env "g" (pairG s.nextId)) "h" (pairH s.nextId (s.nextId + 1)),
    nextId := s.nextId + 2,
    names := (s.nextId + 1, "h") :: (s.nextId, "g") :: s.names }

theorem eval_pairDefs (ops : NumOps) (fuel1 fuel2 depth : Nat) (s : ES)
    (hg : envContains s.env "g" = false) (hh : envContains s.env "h" = false)
    (hfr : nameOf s.names s.nextId = none) (hfr2 : nameOf s.names (s.nextId + 1) = none) :
    (eval ops (fuel1 + 2) depth pairGDef s).1 = .ok (pairG s.nextId) ∧
    eval ops (fuel2 + 2) depth pairHDef (eval ops (fuel1 + 2) depth pairGDef s).2 =
      (.ok (pairH s.nextId (s.nextId + 1)), afterPairDefs s) := by
  have hg' : envGet s.env "g" = none := by simpa [envContains] using hg
  have hh' : envGet s.env "h" = none := by simpa [envContains] using hh
  have hb : isBuiltinIdent "g" = false := by decide
  have hb2 : isBuiltinIdent "h" = false := by decide
  have hk : ¬ "g" ∈ Gen.assignKeywords := by decide
  have hk2 : ¬ "h" ∈ Gen.assignKeywords := by decide
  have hv : freeVars ["n"] pairGBody = ["h"] := by decide
  have hv2 : freeVars ["n"] pairHBody = ["g"] := by decide
  have e1 : eval ops (fuel1 + 2) depth pairGDef s =
      (.ok (pairG s.nextId),
        { env := envInsert s.env "g" (pairG s.nextId),
          nextId := s.nextId + 1,
          names := (s.nextId, "g") :: s.names }) := by
    have hA := alreadyDefined_of_not_contains depth s.env "g" hg
    simp [pairGDef, eval, hb, hk, hA, hv, captureScope, hh', setNameIfLambda, LArg.name, pairG, hfr, createdSince]
  rw [e1]
  refine ⟨rfl, ?_⟩
  have hh2 : envContains (envInsert s.env "g" (pairG s.nextId)) "h" = false := by
    simp [envContains, envGet_envInsert_ne _ _ _ _ (show "g" ≠ "h" by decide), hh']
  have hA2 := alreadyDefined_of_not_contains depth _ "h" hh2
  have hfr2' : nameOf ((s.nextId, "g") :: s.names) (s.nextId + 1) = none := by
    have hne : (s.nextId == s.nextId + 1) = false := by simp
    simpa [nameOf, List.find?, hne] using hfr2
  simp [pairHDef, eval, hb2, hk2, hA2, hv2, captureScope, envGet_envInsert_self, hb,
    setNameIfLambda, LArg.name, pairH, afterPairDefs, insertAL, hfr2', createdSince]

theorem afterPairDefs_g (s : ES) : envGet (afterPairDefs s).env "g" = some (pairG s.nextId) := by
  simp only [afterPairDefs]
  rw [envGet_envInsert_ne _ _ _ _ (by decide), envGet_envInsert_self]

theorem afterPairDefs_h (s : ES) :
    envGet (afterPairDefs s).env "h" = some (pairH s.nextId (s.nextId + 1)) := by
  simp only [afterPairDefs, envGet_envInsert_self]

theorem afterPairDefs_names (s : ES) :
    nameOf (afterPairDefs s).names s.nextId = some "g" ∧
    nameOf (afterPairDefs s).names (s.nextId + 1) = some "h" := by
  simp [afterPairDefs, nameOf, List.find?]

theorem eval_pairCall_big (ops : NumOps) (j depth idg : Nat) (s : ES)
    (hf : envGet s.env "g" = some (pairG idg)) :
    eval ops (j + 3) depth pairCall s =
      callFn ops (j + 2) (pairG idg) (pairG idg) [.num F64.zero] depth s := by
  simp [pairCall, eval, evalList, hf, flattenSpreads, pairG, Value.isCallable]

theorem eval_pairCall_small (ops : NumOps) (fuel depth idg : Nat) (s : ES) (hk : fuel < 3)
    (hf : envGet s.env "g" = some (pairG idg)) :
    eval ops fuel depth pairCall s = (.fuel, s) := by
  match fuel, hk with
  | 0, _ => simp [pairCall, eval]
  | 1, _ => simp [pairCall, eval]
  | 2, _ => simp [pairCall, eval, evalList, hf]


end Blots.DepthL
