import Blots.Lemmas.PrintLemmas
import Blots.Model.Json
import Blots.Lemmas.EvalFuel
import Blots.Lemmas.EvalEnvFree
import Blots.Lemmas.ToyOps
/-
  C05 — helpers for "emitted function source reloads to an equivalent function".

  The emitter (`exprSrc sc`, mirror of `expr_to_source_with_scope`) works on TEXT: it prints
  the body of a function and replaces every identifier found in the captured scope by the
  literal text of the captured value (`svToSource`).  The parser is not modelled at character
  level, so the argument is organised at the AST level with a small explicit interface to text:

  * `svToExpr pb v`      the expression the literal text `svToSource v` denotes
                         (`pb : String → Option Expr` reads the body text of a captured
                         function, exactly as `ParseBody` in Model/Json.lean);
  * `substExpr pb sc e`  inlining at the AST level, with the scope bookkeeping of `exprSrc`
                         (parameters and do-block assignments remove their name);
  * `emit_text_eq`       `exprSrc sc e = exprSrc [] (substExpr sc e)` for scopes whose literals
                         are printed without `svToSource`'s own protective parentheses
                         (`SV.bare`); with a negative number / NaN / two-quote string /
                         function in the scope the two texts differ by redundant parentheses
                         (and, for NaN, blanks: `(0/0)` against `0 / 0`);
  * `lit_eval`           the literal evaluates to the captured value, in every state;
  * `subst_eval`         evaluating `e` with the captured values in the environment =
                         evaluating `substExpr sc e` without them, for the fragment `frag`.
-/
namespace Blots
namespace Emit
open PrintL

/-! ### (A) the expression a literal denotes -/

/-- `(0/0)`, `(-a)`, or the number itself (`+inf` is the literal `1e999`, which the number
    parser reads as `+inf`) -/
def numToExpr (x : F64) : Expr :=
  if x.isNaN then .bin .div (.num F64.zero) (.num F64.zero)
  else if x.neg then .un .negate (.num x.negate)
  else .num x

/-- `p0 + p1 + … + pn`, left nested -/
def strChain : List (List Char) → Expr
  | [] => .str ""
  | p :: ps => ps.foldl (fun acc q => .bin .add acc (.str (String.ofList q))) (.str (String.ofList p))

def bothQuotes (s : String) : Bool := s.toList.contains '"' && s.toList.contains '\''

/-- one literal when one quote kind suffices, else the concatenation of the pieces -/
def strToExpr (s : String) : Expr :=
  if bothQuotes s then strChain (pieces s.toList) else .str s

/-- `format_record_key` read back: a bare or quoted key is a static key, a key with both quote
    kinds (never a valid identifier) is the computed key `[ … ]` -/
def keyToKey (k : String) : Key :=
  if bothQuotes k then .dyn (strToExpr k) else .static k

mutual
/-- the expression the text `svToSource v` denotes.  A captured function is text only
    (`SV.lambda args bodyText`): its body is what `pb` reads from that text (`null` when the
    text is not readable: junk, excluded by hypothesis where it matters). -/
def svToExpr (pb : String → Option Expr) : SV → Expr
  | .num x => numToExpr x
  | .bool b => .bool b
  | .null => .null
  | .str s => strToExpr s
  | .list xs => .list (svToItems pb xs)
  | .record kvs => .record (svToEntries pb kvs)
  | .lambda args body => .lambda args ((pb body).getD .null)
  | .builtin n => .builtin n
def svToItems (pb : String → Option Expr) : List SV → List Item
  | [] => []
  | x :: xs => Item.plain (svToExpr pb x) :: svToItems pb xs
def svToEntries (pb : String → Option Expr) : List (String × SV) → List Entry
  | [] => []
  | (k, v) :: r => Entry.mk [] (keyToKey k) (svToExpr pb v) none :: svToEntries pb r
end

/-- removal of the parameters of a lambda from the inlining scope -/
def scopeMinusArgs (sc : Scope) (args : List LArg) : Scope :=
  args.foldl (fun s a => scopeRemove s a.name) sc

mutual
/-- inlining of the captured scope at the AST level, mirroring `exprSrc` -/
def substExpr (pb : String → Option Expr) (sc : Scope) : Expr → Expr
  | .ident n =>
    (match lookupAL n sc with
     | some v => svToExpr pb v
     | none => .ident n)
  | .list items => .list (substItems pb sc items)
  | .record es => .record (substEntries pb sc es)
  | .lambda args body => .lambda args (substExpr pb (scopeMinusArgs sc args) body)
  | .cond c t e => .cond (substExpr pb sc c) (substExpr pb sc t) (substExpr pb sc e)
  | .doBlock stmts ret => .doBlock (substStmts pb sc stmts) (substItem pb (scopeAfterStmts sc stmts) ret)
  | .assign n v => .assign n (substExpr pb sc v)
  | .output e => .output (substExpr pb sc e)
  | .call f args => .call (substExpr pb sc f) (substExprs pb sc args)
  | .access e i => .access (substExpr pb sc e) (substExpr pb sc i)
  | .dot e f => .dot (substExpr pb sc e) f
  | .bin op l r => .bin op (substExpr pb sc l) (substExpr pb sc r)
  | .un op e => .un op (substExpr pb sc e)
  | .fact e => .fact (substExpr pb sc e)
  | .spread e => .spread (substExpr pb sc e)
  | e => e
def substExprs (pb : String → Option Expr) (sc : Scope) : List Expr → List Expr
  | [] => []
  | e :: es => substExpr pb sc e :: substExprs pb sc es
def substItem (pb : String → Option Expr) (sc : Scope) : Item → Item
  | .mk l e t => .mk l (substExpr pb sc e) t
def substItems (pb : String → Option Expr) (sc : Scope) : List Item → List Item
  | [] => []
  | i :: is => substItem pb sc i :: substItems pb sc is
/-- do-block statements in order: a direct assignment removes its name for what follows -/
def substStmts (pb : String → Option Expr) (sc : Scope) : List Item → List Item
  | [] => []
  | i :: rest => substItem pb sc i :: substStmts pb (scopeAfterStmt sc i) rest
def substEntry (pb : String → Option Expr) (sc : Scope) : Entry → Entry
  | .mk l k v t => substKeyed pb sc l k (substExpr pb sc v) t
def substEntries (pb : String → Option Expr) (sc : Scope) : List Entry → List Entry
  | [] => []
  | e :: es => substEntry pb sc e :: substEntries pb sc es
/-- a record entry, given its substituted value: the shorthand `{x}` with `x` in the scope
    becomes `x: value` -/
def substKeyed (pb : String → Option Expr) (sc : Scope) (l : List String) : Key → Expr → Option String → Entry
  | .static k, v, t => .mk l (.static k) v t
  | .dyn ke, v, t => .mk l (.dyn (substExpr pb sc ke)) v t
  | .short n, v, t =>
    (match lookupAL n sc with
     | some sv => .mk l (.static n) (svToExpr pb sv) t
     | none => .mk l (.short n) v t)
  | .spread e, v, t => .mk l (.spread (substExpr pb sc e)) v t
end

/-! ### (C) scope bookkeeping -/

theorem lookupAL_filter_key {α} (p : String → Bool) (k : String) : ∀ (l : List (String × α)),
    lookupAL k (l.filter fun kv => p kv.1) = if p k then lookupAL k l else none
  | [] => by simp [lookupAL]
  | (k', v) :: rest => by
    have ih := lookupAL_filter_key p k rest
    by_cases hp : p k' = true
    · simp only [List.filter_cons, hp, if_true, lookupAL, ih]
      by_cases hk : k' = k
      · subst hk; simp [hp]
      · simp [hk]
    · simp only [List.filter_cons, hp, Bool.false_eq_true, if_false, lookupAL, ih]
      by_cases hk : k' = k
      · subst hk; simp [hp]
      · simp [hk]

/-- a removed name is not found any more -/
theorem lookupAL_scopeRemove_self (sc : Scope) (n : String) : lookupAL n (scopeRemove sc n) = none := by
  unfold scopeRemove
  rw [lookupAL_filter_key (fun k => k != n)]
  simp

/-- every other binding is kept -/
theorem lookupAL_scopeRemove_ne (sc : Scope) (n m : String) (h : m ≠ n) :
    lookupAL m (scopeRemove sc n) = lookupAL m sc := by
  unfold scopeRemove
  rw [lookupAL_filter_key (fun k => k != n)]
  simp [h]

theorem lookupAL_scopeRemove (sc : Scope) (n m : String) :
    lookupAL m (scopeRemove sc n) = if m = n then none else lookupAL m sc := by
  by_cases h : m = n
  · subst h; simp [lookupAL_scopeRemove_self]
  · simp [h, lookupAL_scopeRemove_ne sc n m h]

theorem lookupAL_scopeMinusArgs (m : String) : ∀ (args : List LArg) (sc : Scope),
    lookupAL m (scopeMinusArgs sc args) = if m ∈ args.map LArg.name then none else lookupAL m sc
  | [], sc => by simp [scopeMinusArgs]
  | a :: as, sc => by
    have ih := lookupAL_scopeMinusArgs m as (scopeRemove sc a.name)
    simp only [scopeMinusArgs, List.foldl_cons] at ih ⊢
    rw [ih, lookupAL_scopeRemove]
    by_cases h1 : m ∈ as.map LArg.name
    · simp [h1]
    · by_cases h2 : m = a.name <;> simp [h1, h2]

theorem lookupAL_scopeAfterStmt (m : String) (sc : Scope) (i : Item) :
    lookupAL m (scopeAfterStmt sc i) =
      if m ∈ boundAfterStmt [] i then none else lookupAL m sc := by
  obtain ⟨l, e, t⟩ := i
  cases e <;> simp [scopeAfterStmt, boundAfterStmt, lookupAL_scopeRemove]

theorem boundAfterStmt_mem (m : String) (bound : List String) (i : Item) :
    m ∈ boundAfterStmt bound i ↔ m ∈ boundAfterStmt [] i ∨ m ∈ bound := by
  obtain ⟨l, e, t⟩ := i
  cases e <;> simp [boundAfterStmt]

theorem boundAfterStmts_mem (m : String) : ∀ (stmts : List Item) (bound : List String),
    m ∈ boundAfterStmts bound stmts ↔ m ∈ boundAfterStmts [] stmts ∨ m ∈ bound
  | [], bound => by simp [boundAfterStmts]
  | i :: rest, bound => by
    have h1 := boundAfterStmts_mem m rest (boundAfterStmt bound i)
    have h2 := boundAfterStmts_mem m rest (boundAfterStmt [] i)
    simp only [boundAfterStmts, List.foldl_cons] at h1 h2 ⊢
    rw [h1, h2, boundAfterStmt_mem m bound i]
    simp only [or_assoc]

/-- after the statements of a do-block the names they assign are gone, the rest is kept -/
theorem lookupAL_scopeAfterStmts (m : String) : ∀ (stmts : List Item) (sc : Scope),
    lookupAL m (scopeAfterStmts sc stmts) =
      if m ∈ boundAfterStmts [] stmts then none else lookupAL m sc
  | [], sc => by simp [scopeAfterStmts, boundAfterStmts]
  | i :: rest, sc => by
    have ih := lookupAL_scopeAfterStmts m rest (scopeAfterStmt sc i)
    have hb := boundAfterStmts_mem m rest (boundAfterStmt [] i)
    simp only [scopeAfterStmts, boundAfterStmts, List.foldl_cons] at ih hb ⊢
    rw [ih, lookupAL_scopeAfterStmt]
    by_cases h1 : m ∈ List.foldl boundAfterStmt [] rest
    · simp [h1, hb]
    · by_cases h2 : m ∈ boundAfterStmt [] i <;> simp [h1, h2, hb]

/-- nothing to inline: the substitution is the identity on identifiers -/
theorem substExpr_ident_none (pb : String → Option Expr) (sc : Scope) (n : String)
    (h : lookupAL n sc = none) : substExpr pb sc (.ident n) = .ident n := by
  simp [substExpr, h]

/-! ### (B) bits: `-(|x|)` is `x` for every pattern with the sign bit, `-0.0` and `-inf` included -/

theorem F64.negate_negate_of_neg (x : F64) (h : x.neg = true) : x.negate.negate = x := by
  have hb : x.nbits < 2 ^ 64 := by unfold F64.nbits; exact x.bits.toNat_lt
  have hs : x.nbits / 2 ^ 63 % 2 = 1 := by simpa [F64.neg] using h
  have hmag : x.mag + 2 ^ 63 = x.nbits := by unfold F64.mag; omega
  have hm : x.mag < 2 ^ 63 := by unfold F64.mag; omega
  have e1 : x.negate = F64.ofNatBits x.mag := by simp [F64.negate, h]
  have hn1 : (F64.ofNatBits x.mag).nbits = x.mag := by
    simp only [F64.ofNatBits, F64.nbits, UInt64.toNat_ofNat']
    omega
  have hneg1 : (F64.ofNatBits x.mag).neg = false := by
    simp only [F64.neg, hn1, decide_eq_false_iff_not]
    omega
  have hmag1 : (F64.ofNatBits x.mag).mag = x.mag := by
    show (F64.ofNatBits x.mag).nbits % 2 ^ 63 = x.mag
    rw [hn1]; omega
  rw [e1]
  simp only [F64.negate, hneg1, hmag1, Bool.false_eq_true, if_false, hmag]
  unfold F64.ofNatBits F64.nbits
  cases x with | mk b => simp

/-- what the operand of the unary minus of a negative literal is: the magnitude, sign cleared -/
theorem F64.negate_of_neg_not_neg (x : F64) (h : x.neg = true) : x.negate.neg = false := by
  have hm : x.mag < 2 ^ 63 := by unfold F64.mag; omega
  have e1 : x.negate = F64.ofNatBits x.mag := by simp [F64.negate, h]
  have hn1 : (F64.ofNatBits x.mag).nbits = x.mag := by
    simp only [F64.ofNatBits, F64.nbits, UInt64.toNat_ofNat']
    omega
  rw [e1]
  simp only [F64.neg, hn1, decide_eq_false_iff_not]
  omega

/-! ### (B) a literal evaluates to the captured value -/

mutual
/-- the value a literal denotes; `q` is what `0/0` evaluates to (some NaN) -/
def svToValueN (q : F64) : SV → Value
  | .num x => .num (if x.isNaN then q else x)
  | .bool b => .bool b
  | .null => .null
  | .str s => .str s
  | .list xs => .list (svListToValueN q xs)
  | .record kvs => .record (svRecToValueN q kvs [])
  | .lambda _ _ => .null
  | .builtin n => .builtin n
def svListToValueN (q : F64) : List SV → List Value
  | [] => []
  | x :: xs => svToValueN q x :: svListToValueN q xs
/-- entries inserted in order into an IndexMap (a repeated key keeps its first position and
    takes the last value) -/
def svRecToValueN (q : F64) : List (String × SV) → Frame → Frame
  | [], acc => acc
  | (k, v) :: r, acc => svRecToValueN q r (insertAL k (svToValueN q v) acc)
end

mutual
/-- no function value anywhere (built-in names are fine: they are literals) -/
def noLambda : SV → Bool
  | .lambda _ _ => false
  | .list xs => noLambdaList xs
  | .record kvs => noLambdaRec kvs
  | _ => true
def noLambdaList : List SV → Bool
  | [] => true
  | x :: xs => noLambda x && noLambdaList xs
def noLambdaRec : List (String × SV) → Bool
  | [] => true
  | (_, v) :: r => noLambda v && noLambdaRec r
end

def keyFuel (k : String) : Nat := 1 + (pieces k.toList).length

mutual
/-- fuel that suffices to evaluate the literal (a bound on its size) -/
def litFuel : SV → Nat
  | .num _ => 2
  | .str s => keyFuel s
  | .list xs => 1 + litFuelList xs
  | .record kvs => 1 + litFuelRec kvs
  | _ => 1
def litFuelList : List SV → Nat
  | [] => 1
  | x :: xs => 1 + litFuel x + litFuelList xs
def litFuelRec : List (String × SV) → Nat
  | [] => 1
  | (k, v) :: r => 1 + keyFuel k + litFuel v + litFuelRec r
end

theorem eval_str (ops : NumOps) (fuel d : Nat) (x : String) (st : ES) :
    eval ops (fuel+1) d (.str x) st = (.ok (.str x), st) := by rw [eval]
theorem eval_num (ops : NumOps) (fuel d : Nat) (x : F64) (st : ES) :
    eval ops (fuel+1) d (.num x) st = (.ok (.num x), st) := by rw [eval]

theorem eval_add_str (ops : NumOps) (l : Expr) (a b : String) (n : Nat) (hn : 1 ≤ n)
    (hl : ∀ f, n ≤ f → ∀ d st, eval ops f d l st = (.ok (.str a), st)) :
    ∀ f, n + 1 ≤ f → ∀ d st, eval ops f d (.bin .add l (.str b)) st = (.ok (.str (a ++ b)), st) := by
  intro f hf d st
  obtain ⟨f', rfl⟩ : ∃ f', f = f' + 1 := ⟨f - 1, by omega⟩
  obtain ⟨f'', rfl⟩ : ∃ f'', f' = f'' + 1 := ⟨f' - 1, by omega⟩
  rw [eval, hl (f''+1) (by omega)]
  dsimp only
  rw [eval_str]
  dsimp only
  rw [evalBin_bcast _ _ _ _ _ _ _ (by simp [bcast]), binPure_scalar_scalar _ _ _ _ rfl rfl]
  rfl

theorem eval_chain (ops : NumOps) : ∀ (ps : List (List Char)) (acc : Expr) (a : String) (n : Nat), 1 ≤ n →
    (∀ f, n ≤ f → ∀ d st, eval ops f d acc st = (.ok (.str a), st)) →
    ∀ f, n + ps.length ≤ f → ∀ d st,
      eval ops f d (ps.foldl (fun acc q => .bin .add acc (.str (String.ofList q))) acc) st =
        (.ok (.str (a ++ String.ofList ps.flatten)), st)
  | [], acc, a, n, _, h => by
    intro f hf d st
    simp only [List.foldl_nil, List.flatten_nil]
    rw [h f (by simpa using hf)]
    simp
  | p :: ps, acc, a, n, hn, h => by
    intro f hf d st
    simp only [List.foldl_cons, List.flatten_cons]
    have h1 := eval_add_str ops acc a (String.ofList p) n hn h
    have := eval_chain ops ps _ _ (n + 1) (by omega) h1 f (by simp at hf; omega) d st
    rw [this]
    simp [String.append_assoc, String.ofList_append]

/-- the `+` chain of the pieces evaluates to the string -/
theorem eval_strToExpr (ops : NumOps) (s : String) (f : Nat) (hf : keyFuel s ≤ f) (d : Nat) (st : ES) :
    eval ops f d (strToExpr s) st = (.ok (.str s), st) := by
  unfold strToExpr
  unfold keyFuel at hf
  split
  · cases hp : pieces s.toList with
    | nil =>
      have := pieces_flatten s.toList
      rw [hp] at this
      simp only [List.flatten_nil] at this
      simp only [strChain]
      obtain ⟨f', rfl⟩ : ∃ f', f = f' + 1 := ⟨f - 1, by omega⟩
      rw [eval_str]
      have : s = "" := by apply String.toList_inj.mp; simp [← this]
      rw [this]
    | cons p ps =>
      simp only [strChain]
      rw [hp] at hf
      have h0 : ∀ f, 1 ≤ f → ∀ d st, eval ops f d (.str (String.ofList p)) st = (.ok (.str (String.ofList p)), st) := by
        intro f hf d st
        obtain ⟨f', rfl⟩ : ∃ f', f = f' + 1 := ⟨f - 1, by omega⟩
        rw [eval_str]
      rw [eval_chain ops ps _ _ 1 (by omega) h0 f (by simp at hf; omega) d st]
      have := pieces_flatten s.toList
      rw [hp] at this
      simp only [List.flatten_cons] at this
      have e : String.ofList p ++ String.ofList ps.flatten = s := by
        apply String.toList_inj.mp; simp [this]
      rw [e]
  · obtain ⟨f', rfl⟩ : ∃ f', f = f' + 1 := ⟨f - 1, by omega⟩
    rw [eval_str]

theorem eval_numToExpr (ops : NumOps) (x : F64) (f : Nat) (hf : 2 ≤ f) (d : Nat) (st : ES) :
    eval ops f d (numToExpr x) st =
      (.ok (.num (if x.isNaN then ops.div F64.zero F64.zero else x)), st) := by
  obtain ⟨f', rfl⟩ : ∃ f', f = f' + 1 + 1 := ⟨f - 2, by omega⟩
  unfold numToExpr
  by_cases hn : x.isNaN = true
  · simp only [hn, if_true]
    rw [eval, eval_num]
    dsimp only
    rw [eval_num]
    dsimp only
    rw [evalBin_bcast _ _ _ _ _ _ _ (by simp [bcast]), binPure_scalar_scalar _ _ _ _ rfl rfl]
    rfl
  · simp only [hn, Bool.false_eq_true, if_false]
    by_cases hs : x.neg = true
    · simp only [hs, if_true]
      rw [eval, eval_num]
      dsimp only
      rw [F64.negate_negate_of_neg x hs]
    · simp only [hs, Bool.false_eq_true, if_false]
      rw [eval_num]

def isSpreadV : Value → Bool | .spread _ => true | _ => false

theorem flattenSpreads_of_noSpread : ∀ (vs : List Value), (∀ v ∈ vs, isSpreadV v = false) →
    flattenSpreads vs = vs
  | [], _ => rfl
  | v :: vs, h => by
    have ih := flattenSpreads_of_noSpread vs (fun w hw => h w (List.mem_cons_of_mem _ hw))
    have hv := h v List.mem_cons_self
    unfold flattenSpreads at ih ⊢
    rw [List.flatMap_cons, ih]
    cases v <;> simp_all [isSpreadV]

theorem svToValueN_noSpread (q : F64) (v : SV) : isSpreadV (svToValueN q v) = false := by
  cases v <;> simp [svToValueN, isSpreadV]

theorem svListToValueN_noSpread (q : F64) : ∀ (xs : List SV), ∀ v ∈ svListToValueN q xs, isSpreadV v = false
  | [], v, h => by simp [svListToValueN] at h
  | x :: xs, v, h => by
    simp only [svListToValueN, List.mem_cons] at h
    rcases h with h | h
    · rw [h]; exact svToValueN_noSpread q x
    · exact svListToValueN_noSpread q xs v h

theorem eval_keyToKey (ops : NumOps) (k : String) : bothQuotes k = true →
    ∀ f, keyFuel k ≤ f → ∀ d st, eval ops f d (strToExpr k) st = (.ok (.str k), st) :=
  fun _ f hf d st => eval_strToExpr ops k f hf d st

mutual
/-- the literal of a captured value evaluates, in every state and at every depth, to that
    value (NaN payloads: to whatever NaN `0/0` gives), and leaves the state alone -/
theorem lit_eval (ops : NumOps) (pb : String → Option Expr) : ∀ (v : SV), noLambda v = true →
    ∀ f, litFuel v ≤ f → ∀ d st,
      eval ops f d (svToExpr pb v) st = (.ok (svToValueN (ops.div F64.zero F64.zero) v), st)
  | .num x, _, f, hf, d, st => by
    simp only [litFuel] at hf
    simp only [svToExpr, svToValueN]
    exact eval_numToExpr ops x f hf d st
  | .bool b, _, f, hf, d, st => by
    simp only [litFuel] at hf
    obtain ⟨f', rfl⟩ : ∃ f', f = f' + 1 := ⟨f - 1, by omega⟩
    simp only [svToExpr, svToValueN]; rw [eval]
  | .null, _, f, hf, d, st => by
    simp only [litFuel] at hf
    obtain ⟨f', rfl⟩ : ∃ f', f = f' + 1 := ⟨f - 1, by omega⟩
    simp only [svToExpr, svToValueN]; rw [eval]
  | .builtin n, _, f, hf, d, st => by
    simp only [litFuel] at hf
    obtain ⟨f', rfl⟩ : ∃ f', f = f' + 1 := ⟨f - 1, by omega⟩
    simp only [svToExpr, svToValueN]; rw [eval]
  | .str s, _, f, hf, d, st => by
    simp only [litFuel] at hf
    simp only [svToExpr, svToValueN]
    exact eval_strToExpr ops s f hf d st
  | .lambda _ _, h, _, _, _, _ => by simp [noLambda] at h
  | .list xs, h, f, hf, d, st => by
    simp only [litFuel] at hf
    simp only [noLambda] at h
    obtain ⟨f', rfl⟩ : ∃ f', f = f' + 1 := ⟨f - 1, by omega⟩
    simp only [svToExpr, svToValueN]
    rw [eval, lit_evalItems ops pb xs h f' (by omega) d st]
    dsimp only
    rw [flattenSpreads_of_noSpread _ (svListToValueN_noSpread _ xs)]
  | .record kvs, h, f, hf, d, st => by
    simp only [litFuel] at hf
    simp only [noLambda] at h
    obtain ⟨f', rfl⟩ : ∃ f', f = f' + 1 := ⟨f - 1, by omega⟩
    simp only [svToExpr, svToValueN]
    rw [eval, lit_evalEntries ops pb kvs h f' (by omega) d [] st]
theorem lit_evalItems (ops : NumOps) (pb : String → Option Expr) : ∀ (xs : List SV), noLambdaList xs = true →
    ∀ f, litFuelList xs ≤ f → ∀ d st,
      evalItems ops f d (svToItems pb xs) st =
        (.ok (svListToValueN (ops.div F64.zero F64.zero) xs), st)
  | [], _, f, hf, d, st => by
    simp only [litFuelList] at hf
    obtain ⟨f', rfl⟩ : ∃ f', f = f' + 1 := ⟨f - 1, by omega⟩
    simp only [svToItems, svListToValueN]; rw [evalItems]
  | x :: xs, h, f, hf, d, st => by
    simp only [litFuelList] at hf
    simp only [noLambdaList, Bool.and_eq_true] at h
    obtain ⟨f', rfl⟩ : ∃ f', f = f' + 1 := ⟨f - 1, by omega⟩
    simp only [svToItems, svListToValueN, Item.plain]
    rw [evalItems, lit_eval ops pb x h.1 f' (by omega) d st]
    dsimp only
    rw [lit_evalItems ops pb xs h.2 f' (by omega) d st]
theorem lit_evalEntries (ops : NumOps) (pb : String → Option Expr) : ∀ (kvs : List (String × SV)),
    noLambdaRec kvs = true → ∀ f, litFuelRec kvs ≤ f → ∀ d acc st,
      evalEntries ops f d (svToEntries pb kvs) acc st =
        (.ok (svRecToValueN (ops.div F64.zero F64.zero) kvs acc), st)
  | [], _, f, hf, d, acc, st => by
    simp only [litFuelRec] at hf
    obtain ⟨f', rfl⟩ : ∃ f', f = f' + 1 := ⟨f - 1, by omega⟩
    simp only [svToEntries, svRecToValueN]; rw [evalEntries]
  | (k, v) :: r, h, f, hf, d, acc, st => by
    simp only [litFuelRec] at hf
    simp only [noLambdaRec, Bool.and_eq_true] at h
    obtain ⟨f', rfl⟩ : ∃ f', f = f' + 1 := ⟨f - 1, by omega⟩
    simp only [svToEntries, svRecToValueN, keyToKey]
    by_cases hq : bothQuotes k = true
    · simp only [hq, if_true]
      rw [evalEntries]
      rw [eval_strToExpr ops k f' (by omega) d st]
      dsimp only
      rw [lit_eval ops pb v h.1 f' (by omega) d st]
      dsimp only
      rw [lit_evalEntries ops pb r h.2 f' (by omega) d _ st]
    · simp only [hq, Bool.false_eq_true, if_false]
      rw [evalEntries]
      rw [lit_eval ops pb v h.1 f' (by omega) d st]
      dsimp only
      rw [lit_evalEntries ops pb r h.2 f' (by omega) d _ st]
end

mutual
/-- the captured value itself, as a tree (records in their order); junk on functions -/
def svToValue : SV → Value
  | .num x => .num x
  | .bool b => .bool b
  | .null => .null
  | .str s => .str s
  | .list xs => .list (svListToValue xs)
  | .record kvs => .record (svRecToValue kvs)
  | .lambda _ _ => .null
  | .builtin n => .builtin n
def svListToValue : List SV → List Value
  | [] => []
  | x :: xs => svToValue x :: svListToValue xs
def svRecToValue : List (String × SV) → List (String × Value)
  | [] => []
  | (k, v) :: r => (k, svToValue v) :: svRecToValue r
end

def keysDistinct {α} : List (String × α) → Bool
  | [] => true
  | (k, _) :: r => r.all (fun kv => kv.1 != k) && keysDistinct r

mutual
/-- data as an evaluation can have produced it: no NaN (a NaN literal evaluates to SOME NaN,
    see `lit_eval`), no function, record keys distinct (as in an IndexMap) -/
def isLit : SV → Bool
  | .num x => !x.isNaN
  | .lambda _ _ => false
  | .list xs => isLitList xs
  | .record kvs => keysDistinct kvs && isLitRec kvs
  | _ => true
def isLitList : List SV → Bool
  | [] => true
  | x :: xs => isLit x && isLitList xs
def isLitRec : List (String × SV) → Bool
  | [] => true
  | (_, v) :: r => isLit v && isLitRec r
end

theorem insertAL_fresh {α} (k : String) (v : α) : ∀ (acc : List (String × α)),
    (∀ kv ∈ acc, kv.1 ≠ k) → insertAL k v acc = acc ++ [(k, v)]
  | [], _ => rfl
  | (k', v') :: rest, h => by
    have h1 : k' ≠ k := h (k', v') List.mem_cons_self
    simp only [insertAL, h1, if_false, List.cons_append]
    rw [insertAL_fresh k v rest (fun kv hkv => h kv (List.mem_cons_of_mem _ hkv))]

theorem svRecToValue_keys : ∀ (r : List (String × SV)) (kv : String × Value), kv ∈ svRecToValue r →
    ∃ kv' ∈ r, kv'.1 = kv.1
  | [], kv, h => by simp [svRecToValue] at h
  | (k, v) :: r, kv, h => by
    simp only [svRecToValue, List.mem_cons] at h
    rcases h with h | h
    · exact ⟨(k, v), List.mem_cons_self, by rw [h]⟩
    · obtain ⟨kv', h1, h2⟩ := svRecToValue_keys r kv h
      exact ⟨kv', List.mem_cons_of_mem _ h1, h2⟩

mutual
theorem svToValueN_lit (q : F64) : ∀ (v : SV), isLit v = true → svToValueN q v = svToValue v
  | .num x, h => by
    simp only [isLit, Bool.not_eq_true'] at h
    simp [svToValueN, svToValue, h]
  | .bool _, _ | .null, _ | .str _, _ | .builtin _, _ => by simp [svToValueN, svToValue]
  | .lambda _ _, h => by simp [isLit] at h
  | .list xs, h => by
    simp only [isLit] at h
    simp only [svToValueN, svToValue, svListToValueN_lit q xs h]
  | .record kvs, h => by
    simp only [isLit, Bool.and_eq_true] at h
    simp only [svToValueN, svToValue]
    rw [svRecToValueN_lit q kvs h.1 h.2 [] (by simp)]
    simp
theorem svListToValueN_lit (q : F64) : ∀ (xs : List SV), isLitList xs = true →
    svListToValueN q xs = svListToValue xs
  | [], _ => rfl
  | x :: xs, h => by
    simp only [isLitList, Bool.and_eq_true] at h
    simp only [svListToValueN, svListToValue, svToValueN_lit q x h.1, svListToValueN_lit q xs h.2]
theorem svRecToValueN_lit (q : F64) : ∀ (kvs : List (String × SV)), keysDistinct kvs = true →
    isLitRec kvs = true → ∀ (acc : Frame), (∀ a ∈ acc, ∀ kv ∈ kvs, a.1 ≠ kv.1) →
    svRecToValueN q kvs acc = acc ++ svRecToValue kvs
  | [], _, _, acc, _ => by simp [svRecToValueN, svRecToValue]
  | (k, v) :: r, hd, hl, acc, hacc => by
    simp only [keysDistinct, Bool.and_eq_true, List.all_eq_true, bne_iff_ne] at hd
    simp only [isLitRec, Bool.and_eq_true] at hl
    simp only [svRecToValueN, svRecToValue]
    rw [insertAL_fresh k _ acc (fun a ha => hacc a ha (k, v) List.mem_cons_self),
      svToValueN_lit q v hl.1, svRecToValueN_lit q r hd.2 hl.2]
    · simp
    · intro a ha kv hkv
      rcases List.mem_append.mp ha with ha | ha
      · exact hacc a ha kv (List.mem_cons_of_mem _ hkv)
      · simp only [List.mem_singleton] at ha
        rw [ha]
        exact fun e => hd.1 kv hkv e.symm
end

/-! ### (A) the emitted text is the print of the substituted tree -/

mutual
/-- the literal is printed by `svToSource` without protective parentheses of its own, at every
    level: no NaN, no number with the sign bit, no string or record key with both quote
    kinds, no function -/
def bare : SV → Bool
  | .num x => !x.isNaN && !x.neg
  | .str s => !bothQuotes s
  | .list xs => bareList xs
  | .record kvs => bareRec kvs
  | .lambda _ _ => false
  | _ => true
def bareList : List SV → Bool
  | [] => true
  | x :: xs => bare x && bareList xs
def bareRec : List (String × SV) → Bool
  | [] => true
  | (k, v) :: r => !bothQuotes k && bare v && bareRec r
end

/-- every captured value is `bare` and every captured name prints as itself as a record key
    (it is an identifier: `isValidIdentifier`) -/
def ScopeBare (sc : Scope) : Prop := ∀ kv ∈ sc, bare kv.2 = true ∧ formatRecordKey kv.1 = kv.1

theorem ScopeBare.nil : ScopeBare [] := fun _ h => by cases h

theorem ScopeBare.remove {sc : Scope} (h : ScopeBare sc) (n : String) : ScopeBare (scopeRemove sc n) :=
  fun kv hkv => h kv (List.mem_filter.mp hkv).1

theorem ScopeBare.minusArgs {sc : Scope} (h : ScopeBare sc) : ∀ (args : List LArg), ScopeBare (scopeMinusArgs sc args) := by
  intro args
  induction args generalizing sc with
  | nil => exact h
  | cons a as ih => exact ih (h.remove a.name)

theorem ScopeBare.afterStmt {sc : Scope} (h : ScopeBare sc) (i : Item) : ScopeBare (scopeAfterStmt sc i) := by
  obtain ⟨l, e, t⟩ := i
  cases e <;> first | exact h | exact h.remove _

theorem ScopeBare.afterStmts {sc : Scope} (h : ScopeBare sc) : ∀ (stmts : List Item), ScopeBare (scopeAfterStmts sc stmts) := by
  intro stmts
  induction stmts generalizing sc with
  | nil => exact h
  | cons i rest ih => exact ih (h.afterStmt i)

theorem ScopeBare.lookup {sc : Scope} (h : ScopeBare sc) {n : String} {v : SV} (hl : lookupAL n sc = some v) :
    bare v = true ∧ formatRecordKey n = n := h (n, v) (lookupAL_mem hl)

theorem scopeAfterStmt_nil (i : Item) : scopeAfterStmt [] i = [] := by
  obtain ⟨l, e, t⟩ := i
  cases e <;> rfl

theorem scopeAfterStmts_nil : ∀ (stmts : List Item), scopeAfterStmts [] stmts = []
  | [] => rfl
  | i :: rest => by
    have := scopeAfterStmts_nil rest
    simp only [scopeAfterStmts, List.foldl_cons, scopeAfterStmt_nil] at this ⊢
    exact this

mutual
theorem svToSource_bare (pb : String → Option Expr) : ∀ (v : SV), bare v = true →
    svToSource v = exprSrc [] (svToExpr pb v)
  | .num x, h => by
    simp only [bare, Bool.and_eq_true, Bool.not_eq_true'] at h
    simp [svToSource, svToExpr, numToExpr, h.1, h.2, exprSrc]
  | .bool b, _ => by simp [svToSource, svToExpr, exprSrc]
  | .null, _ => by simp [svToSource, svToExpr, exprSrc]
  | .builtin n, _ => by simp [svToSource, svToExpr, exprSrc]
  | .str s, h => by
    simp only [bare, Bool.not_eq_true'] at h
    simp [svToSource, svToExpr, strToExpr, h, exprSrc]
  | .lambda _ _, h => by simp [bare] at h
  | .list xs, h => by
    simp only [bare] at h
    simp only [svToSource, svToExpr, exprSrc, svListToSource_bare pb xs h]
  | .record kvs, h => by
    simp only [bare] at h
    simp only [svToSource, svToExpr, exprSrc, svRecToSource_bare pb kvs h]
theorem svListToSource_bare (pb : String → Option Expr) : ∀ (xs : List SV), bareList xs = true →
    svListToSource xs = itemsSrc [] (svToItems pb xs)
  | [], _ => rfl
  | x :: xs, h => by
    simp only [bareList, Bool.and_eq_true] at h
    simp only [svListToSource, svToItems, itemsSrc, itemSrc, Item.plain, svToSource_bare pb x h.1,
      svListToSource_bare pb xs h.2]
theorem svRecToSource_bare (pb : String → Option Expr) : ∀ (kvs : List (String × SV)), bareRec kvs = true →
    svRecToSource kvs = entriesSrc [] (svToEntries pb kvs)
  | [], _ => rfl
  | (k, v) :: r, h => by
    simp only [bareRec, Bool.and_eq_true, Bool.not_eq_true'] at h
    simp only [svRecToSource, svToEntries, entriesSrc, entrySrc, keyToKey, h.1.1, Bool.false_eq_true,
      if_false, keyedSrc, svToSource_bare pb v h.1.2, svRecToSource_bare pb r h.2]
end

/-- literal heads: no operator, no open-ended form -/
def atomHead : Expr → Bool
  | .num _ | .str _ | .bool _ | .null | .list _ | .record _ | .builtin _ => true
  | _ => false

theorem atomHead_shape (e : Expr) (h : atomHead e = true) :
    (∀ pos, needsParens e pos = false) ∧ endsOpen e = false ∧ lambdaBodyNeedsParens e = false := by
  cases e <;> simp only [atomHead, Bool.false_eq_true] at h <;>
    (refine ⟨fun pos => ?_, by simp [endsOpen], by simp [lambdaBodyNeedsParens]⟩
     unfold needsParens
     cases pos <;> simp [endsOpen])

/-- the head of a bare literal is never an operator or an open-ended form -/
theorem bare_atomHead (pb : String → Option Expr) (v : SV) (h : bare v = true) :
    atomHead (svToExpr pb v) = true := by
  cases v with
  | num x =>
    simp only [bare, Bool.and_eq_true, Bool.not_eq_true'] at h
    simp [svToExpr, numToExpr, h.1, h.2, atomHead]
  | str s =>
    simp only [bare, Bool.not_eq_true'] at h
    simp [svToExpr, strToExpr, h, atomHead]
  | lambda _ _ => simp [bare] at h
  | bool _ | null | list _ | record _ | builtin _ => simp [svToExpr, atomHead]

theorem endsOpen_subst (pb : String → Option Expr) : ∀ (e : Expr) (sc : Scope), ScopeBare sc →
    endsOpen (substExpr pb sc e) = endsOpen e
  | .ident n, sc, h => by
    simp only [substExpr]
    split
    · rename_i v hv
      rw [(atomHead_shape _ (bare_atomHead pb v (h.lookup hv).1)).2.1]; rfl
    · rfl
  | .bin op l r, sc, h => by simp only [substExpr, endsOpen]; exact endsOpen_subst pb r sc h
  | .un op e, sc, h => by simp only [substExpr, endsOpen]; exact endsOpen_subst pb e sc h
  | .num _, _, _ | .str _, _, _ | .bool _, _, _ | .null, _, _ | .inref _, _, _ | .builtin _, _, _
  | .list _, _, _ | .record _, _, _ | .lambda _ _, _, _ | .cond _ _ _, _, _ | .doBlock _ _, _, _
  | .assign _ _, _, _ | .output _, _, _ | .call _ _, _, _ | .access _ _, _, _ | .dot _ _, _, _
  | .fact _, _, _ | .spread _, _, _ => by simp [substExpr, endsOpen]

theorem lbnp_subst (pb : String → Option Expr) : ∀ (e : Expr) (sc : Scope), ScopeBare sc →
    lambdaBodyNeedsParens (substExpr pb sc e) = lambdaBodyNeedsParens e
  | .ident n, sc, h => by
    simp only [substExpr]
    split
    · rename_i v hv
      rw [(atomHead_shape _ (bare_atomHead pb v (h.lookup hv).1)).2.2]; rfl
    · rfl
  | .bin op l r, sc, h => by
    simp only [substExpr, lambdaBodyNeedsParens_bin, lbnp_subst pb l sc h]
  | .num _, _, _ | .str _, _, _ | .bool _, _, _ | .null, _, _ | .inref _, _, _ | .builtin _, _, _
  | .list _, _, _ | .record _, _, _ | .lambda _ _, _, _ | .cond _ _ _, _, _ | .doBlock _ _, _, _
  | .assign _ _, _, _ | .output _, _, _ | .call _ _, _, _ | .access _ _, _, _ | .dot _ _, _, _
  | .un _ _, _, _ | .fact _, _, _ | .spread _, _, _ => by simp [substExpr, lambdaBodyNeedsParens]

theorem needsParens_subst (pb : String → Option Expr) (e : Expr) (sc : Scope) (h : ScopeBare sc)
    (pos : Pos) : needsParens (substExpr pb sc e) pos = needsParens e pos := by
  cases e with
  | ident n =>
    simp only [substExpr]
    split
    · rename_i v hv
      rw [(atomHead_shape _ (bare_atomHead pb v (h.lookup hv).1)).1 pos]
      unfold needsParens; cases pos <;> simp [endsOpen]
    · rfl
  | bin op l r =>
    have := endsOpen_subst pb (.bin op l r) sc h
    simp only [substExpr] at this ⊢
    unfold needsParens
    rw [this]
  | un op e =>
    have := endsOpen_subst pb (.un op e) sc h
    simp only [substExpr] at this ⊢
    unfold needsParens
    rw [this]
  | lambda _ _ | cond _ _ _ | assign _ _ | output _ =>
    simp only [substExpr]; unfold needsParens; simp [endsOpen]
  | num _ | str _ | bool _ | null | inref _ | builtin _ | list _ | record _ | doBlock _ _
  | call _ _ | access _ _ | dot _ _ | fact _ | spread _ =>
    simp only [substExpr] <;> (unfold needsParens; simp [endsOpen])

mutual
/-- the emitted text is the plain print of the substituted tree -/
theorem emit_expr (pb : String → Option Expr) : ∀ (e : Expr) (sc : Scope), ScopeBare sc →
    exprSrc sc e = exprSrc [] (substExpr pb sc e)
  | .ident n, sc, h => by
    simp only [substExpr, exprSrc]
    cases hv : lookupAL n sc with
    | some v => exact svToSource_bare pb v (h.lookup hv).1
    | none => simp [exprSrc, lookupAL]
  | .num _, _, _ | .str _, _, _ | .bool _, _, _ | .null, _, _ | .inref _, _, _ | .builtin _, _, _ => by
    simp [substExpr, exprSrc]
  | .list items, sc, h => by
    simp only [substExpr, exprSrc, emit_items pb items sc h]
  | .record es, sc, h => by
    simp only [substExpr, exprSrc, emit_entries pb es sc h]
  | .lambda args body, sc, h => by
    have hb := emit_expr pb body (scopeMinusArgs sc args) (h.minusArgs args)
    have hp := lbnp_subst pb body (scopeMinusArgs sc args) (h.minusArgs args)
    have e0 : ∀ (a : List LArg), scopeMinusArgs [] a = [] := by
      intro a; induction a with
      | nil => rfl
      | cons x xs ih => simpa [scopeMinusArgs, scopeRemove] using ih
    simp only [substExpr, exprSrc]
    rw [show List.foldl (fun s a => scopeRemove s a.name) [] args = scopeMinusArgs [] args from rfl,
      show List.foldl (fun s a => scopeRemove s a.name) sc args = scopeMinusArgs sc args from rfl,
      e0, hp, hb]
  | .cond c t e, sc, h => by
    simp only [substExpr, exprSrc, emit_expr pb c sc h, emit_expr pb t sc h, emit_expr pb e sc h]
  | .doBlock stmts (.mk l e t), sc, h => by
    simp only [substExpr, substItem, exprSrc, retSrc, scopeAfterStmts_nil,
      emit_stmts pb stmts sc h, emit_expr pb e (scopeAfterStmts sc stmts) (h.afterStmts stmts)]
  | .assign n v, sc, h => by simp only [substExpr, exprSrc, emit_expr pb v sc h]
  | .output e, sc, h => by simp only [substExpr, exprSrc, emit_expr pb e sc h]
  | .call f args, sc, h => by
    simp only [substExpr, exprSrc, emit_expr pb f sc h, emit_exprs pb args sc h,
      needsParens_subst pb f sc h]
  | .access e i, sc, h => by
    simp only [substExpr, exprSrc, emit_expr pb e sc h, emit_expr pb i sc h, needsParens_subst pb e sc h]
  | .dot e f, sc, h => by
    simp only [substExpr, exprSrc, emit_expr pb e sc h, needsParens_subst pb e sc h]
  | .bin op l r, sc, h => by
    simp only [substExpr, exprSrc, emit_expr pb l sc h, emit_expr pb r sc h,
      needsParens_subst pb l sc h, needsParens_subst pb r sc h]
  | .un op e, sc, h => by
    simp only [substExpr, exprSrc, emit_expr pb e sc h, needsParens_subst pb e sc h]
  | .fact e, sc, h => by
    simp only [substExpr, exprSrc, emit_expr pb e sc h, needsParens_subst pb e sc h]
  | .spread e, sc, h => by simp only [substExpr, exprSrc, emit_expr pb e sc h]
theorem emit_exprs (pb : String → Option Expr) : ∀ (es : List Expr) (sc : Scope), ScopeBare sc →
    exprsSrc sc es = exprsSrc [] (substExprs pb sc es)
  | [], _, _ => rfl
  | e :: es, sc, h => by
    simp only [substExprs, exprsSrc, emit_expr pb e sc h, emit_exprs pb es sc h]
theorem emit_items (pb : String → Option Expr) : ∀ (is : List Item) (sc : Scope), ScopeBare sc →
    itemsSrc sc is = itemsSrc [] (substItems pb sc is)
  | [], _, _ => rfl
  | .mk l e t :: is, sc, h => by
    simp only [substItems, substItem, itemsSrc, itemSrc, emit_expr pb e sc h, emit_items pb is sc h]
theorem emit_stmts (pb : String → Option Expr) : ∀ (stmts : List Item) (sc : Scope), ScopeBare sc →
    doStmtsSrc sc stmts = doStmtsSrc [] (substStmts pb sc stmts)
  | [], _, _ => rfl
  | .mk l e t :: rest, sc, h => by
    simp only [substStmts, substItem, doStmtsSrc, stmtSrc, scopeAfterStmt_nil, emit_expr pb e sc h,
      emit_stmts pb rest (scopeAfterStmt sc (.mk l e t)) (h.afterStmt _)]
theorem emit_entries (pb : String → Option Expr) : ∀ (es : List Entry) (sc : Scope), ScopeBare sc →
    entriesSrc sc es = entriesSrc [] (substEntries pb sc es)
  | [], _, _ => rfl
  | .mk l (.static k) v t :: es, sc, h => by
    simp only [substEntries, substEntry, substKeyed, entriesSrc, entrySrc, keyedSrc,
      emit_expr pb v sc h, emit_entries pb es sc h]
  | .mk l (.dyn ke) v t :: es, sc, h => by
    simp only [substEntries, substEntry, substKeyed, entriesSrc, entrySrc, keyedSrc,
      emit_expr pb v sc h, emit_expr pb ke sc h, emit_entries pb es sc h]
  | .mk l (.spread se) v t :: es, sc, h => by
    simp only [substEntries, substEntry, substKeyed, entriesSrc, entrySrc, keyedSrc,
      emit_expr pb se sc h, emit_entries pb es sc h]
  | .mk l (.short n) v t :: es, sc, h => by
    simp only [substEntries, substEntry, substKeyed, entriesSrc, entrySrc, keyedSrc,
      emit_entries pb es sc h]
    cases hv : lookupAL n sc with
    | none => simp [entrySrc, keyedSrc, lookupAL]
    | some sv =>
      have := h.lookup hv
      simp [entrySrc, keyedSrc, this.2, svToSource_bare pb sv this.1]
end

/-! ### (D) the substitution lemma on a fragment -/

mutual
/-- the covered fragment: literals, identifiers, `#field`, built-in names, lists, records
    (all four key forms), conditionals, index and field access, unary operators, factorial,
    spread, every binary operator except `via` / `into` / `where`, and do-blocks whose direct
    statements are such expressions or assignments of such expressions.  NOT covered: calls
    (and the three calling operators), lambda expressions, `output`, and assignments that are
    not direct do-block statements. -/
def frag : Expr → Bool
  | .num _ | .str _ | .bool _ | .null | .ident _ | .builtin _ | .inref _ => true
  | .list items => fragItems items
  | .record es => fragEntries es
  | .cond c t e => frag c && frag t && frag e
  | .access e i => frag e && frag i
  | .dot e _ => frag e
  | .bin op l r => op != .via && op != .into && op != .where_ && frag l && frag r
  | .un _ e => frag e
  | .fact e => frag e
  | .spread e => frag e
  | .doBlock stmts ret => fragStmts stmts && fragStmt ret
  | _ => false
def fragItems : List Item → Bool
  | [] => true
  | .mk _ e _ :: is => frag e && fragItems is
def fragEntries : List Entry → Bool
  | [] => true
  | .mk _ k v _ :: es => fragKey k && frag v && fragEntries es
def fragKey : Key → Bool
  | .static _ => true
  | .short _ => true
  | .dyn e => frag e
  | .spread e => frag e
def fragStmt : Item → Bool
  | .mk _ (.assign _ v) _ => frag v
  | .mk _ e _ => frag e
def fragStmts : List Item → Bool
  | [] => true
  | i :: is => fragStmt i && fragStmts is
end

theorem envGet_push_nil (A : List Frame) (n : String) : envGet ([] :: A) n = envGet A n := by
  simp [envGet, lookupAL]

theorem lookupAL_insertAL {α} (x : String) (v : α) (n : String) : ∀ (f : List (String × α)),
    lookupAL n (insertAL x v f) = if n = x then some v else lookupAL n f
  | [] => by
    by_cases h : n = x
    · subst h; simp [insertAL, lookupAL]
    · have : ¬ x = n := fun e => h e.symm
      simp [insertAL, lookupAL, h, this]
  | (k, w) :: rest => by
    have ih := lookupAL_insertAL x v n rest
    by_cases hk : k = x
    · subst hk
      by_cases h : n = k
      · subst h; simp [insertAL, lookupAL]
      · have : ¬ k = n := fun e => h e.symm
        simp [insertAL, lookupAL, h, this]
    · simp only [insertAL, hk, if_false, lookupAL, ih]
      by_cases h : n = x
      · subst h; simp [hk]
      · simp [h]

theorem envGet_insert (x : String) (v : Value) (f : Frame) (e : List Frame) (n : String) :
    envGet (insertAL x v f :: e) n = if n = x then some v else envGet (f :: e) n := by
  simp only [envGet, lookupAL_insertAL]
  by_cases h : n = x <;> simp [h]

/-- the two environments: `A` has the captured values (bound to the names of `sc`), `B` need
    not; every other name is resolved alike.  `q` is the NaN that `0/0` gives, `K` bounds the
    fuel the literals need. -/
structure Rel (q : F64) (K : Nat) (N : String → Prop) (sc : Scope) (A B : List Frame) : Prop where
  inl : ∀ n sv, lookupAL n sc = some sv →
    noLambda sv = true ∧ litFuel sv ≤ K ∧ envGet A n = some (svToValueN q sv) ∧ n ∉ Gen.specialIdents
  out : ∀ n, N n → lookupAL n sc = none → envGet A n = envGet B n
  inputs : lookupAL "inputs" sc = none ∧ envGet A "inputs" = envGet B "inputs"

theorem Rel.push {q K N sc A B} (h : Rel q K N sc A B) : Rel q K N sc ([] :: A) ([] :: B) :=
  ⟨fun n sv hn => by rw [envGet_push_nil]; exact h.inl n sv hn,
   fun n hN hn => by rw [envGet_push_nil, envGet_push_nil]; exact h.out n hN hn,
   ⟨h.inputs.1, by rw [envGet_push_nil, envGet_push_nil]; exact h.inputs.2⟩⟩

theorem Rel.assign {q K N sc fa ea fb eb} (h : Rel q K N sc (fa :: ea) (fb :: eb)) (x : String) (v : Value) :
    Rel q K (fun m => N m ∨ m = x) (scopeRemove sc x) (insertAL x v fa :: ea) (insertAL x v fb :: eb) := by
  refine ⟨fun n sv hn => ?_, fun n hN hn => ?_, ?_, ?_⟩
  · rw [lookupAL_scopeRemove] at hn
    by_cases hnx : n = x
    · simp [hnx] at hn
    · simp only [hnx, if_false] at hn
      have := h.inl n sv hn
      rw [envGet_insert]; simpa [hnx] using this
  · rw [lookupAL_scopeRemove] at hn
    rw [envGet_insert, envGet_insert]
    by_cases hnx : n = x
    · simp [hnx]
    · simp only [hnx, if_false] at hn ⊢
      exact h.out n (hN.resolve_right hnx) hn
  · rw [lookupAL_scopeRemove]; simp [h.inputs.1]
  · rw [envGet_insert, envGet_insert]
    by_cases hi : "inputs" = x
    · simp [hi]
    · simp only [hi, if_false]; exact h.inputs.2

/-- outcome `pA` of the original against `pB` of the substituted expression: the original
    leaves the environment alone, and unless it ran out of fuel the substituted one gives the
    same result and leaves its environment alone too -/
def SimE {α} (pA : R α) (sA : ES) (pB : R α) (sB : ES) : Prop :=
  pA.2.env = sA.env ∧ (pA.1 = .fuel ∨ (pB.1 = pA.1 ∧ pB.2.env = sB.env))

/-- the same for a do-block statement / a do-block body, which write the innermost frame -/
def SimD (post : List Frame → List Frame → Prop) (pA : R Value) (ea : List Frame) (pB : R Value)
    (eb : List Frame) : Prop :=
  (∃ fa', pA.2.env = fa' :: ea) ∧
  (pA.1 = .fuel ∨ (pB.1 = pA.1 ∧ (∃ fb', pB.2.env = fb' :: eb) ∧
     (pA.1.isOk = true → post pA.2.env pB.2.env)))

theorem Rel.mono {q K sc A B} {N N' : String → Prop} (h : Rel q K N sc A B) (hs : ∀ n, N' n → N n) :
    Rel q K N' sc A B := ⟨h.inl, fun n hn => h.out n (hs n hn), h.inputs⟩

theorem evalBin_nocall (ops : NumOps) (d : Nat) (op : BinOp) (a b : Value)
    (h : (op != .via && op != .into && op != .where_) = true) :
    ∃ g : Outcome Value, ∀ f s, evalBin ops (f+1) d op a b s = (g, s) := by
  rcases binOp_trichotomy op with h1 | h1 | h1
  · exact ⟨_, fun f s => evalBin_bcast ops f d op a b s h1⟩
  · exact ⟨_, fun f s => evalBin_dot ops f d op a b s h1⟩
  · exfalso; revert h; simp only [callOps, List.mem_cons, List.not_mem_nil, or_false] at h1
    rcases h1 with rfl | rfl | rfl <;> decide

/-- the simulation at one fuel, for the five functions the fragment reaches -/
structure SimStep (ops : NumOps) (pb : String → Option Expr) (K f : Nat) : Prop where
  eval : ∀ (N : String → Prop) d e sc (sA sB : ES), frag e = true → (∀ n, FreeIn n e → N n) →
    Rel (ops.div F64.zero F64.zero) K N sc sA.env sB.env →
    SimE (eval ops f d e sA) sA (eval ops (f + K) d (substExpr pb sc e) sB) sB
  items : ∀ (N : String → Prop) d is sc (sA sB : ES), fragItems is = true → (∀ n, FreeInItems n is → N n) →
    Rel (ops.div F64.zero F64.zero) K N sc sA.env sB.env →
    SimE (evalItems ops f d is sA) sA (evalItems ops (f + K) d (substItems pb sc is) sB) sB
  entries : ∀ (N : String → Prop) d es acc sc (sA sB : ES), fragEntries es = true →
    (∀ n, FreeInEntries n es → N n) →
    Rel (ops.div F64.zero F64.zero) K N sc sA.env sB.env →
    SimE (evalEntries ops f d es acc sA) sA (evalEntries ops (f + K) d (substEntries pb sc es) acc sB) sB
  stmt : ∀ (N : String → Prop) d l e t sc (sA sB : ES) fa ea fb eb, fragStmt (.mk l e t) = true →
    (∀ n, FreeIn n e → N n) →
    sA.env = fa :: ea → sB.env = fb :: eb →
    Rel (ops.div F64.zero F64.zero) K N sc sA.env sB.env →
    SimD (Rel (ops.div F64.zero F64.zero) K (fun m => N m ∨ ∃ v, e = .assign m v) (scopeAfterStmt sc (.mk l e t)))
      (evalDoStmt ops f d e sA) ea (evalDoStmt ops (f + K) d (substExpr pb sc e) sB) eb
  doo : ∀ (N : String → Prop) d stmts ret sc (sA sB : ES) fa ea fb eb, fragStmts stmts = true → fragStmt ret = true →
    (∀ n, FreeInDo n stmts ret → N n) →
    sA.env = fa :: ea → sB.env = fb :: eb →
    Rel (ops.div F64.zero F64.zero) K N sc sA.env sB.env →
    SimD (fun _ _ => True)
      (evalDo ops f d stmts ret sA) ea
      (evalDo ops (f + K) d (substStmts pb sc stmts) (substItem pb (scopeAfterStmts sc stmts) ret) sB) eb

theorem simStep_zero (ops : NumOps) (pb : String → Option Expr) (K : Nat) : SimStep ops pb K 0 := by
  refine ⟨?_, ?_, ?_, ?_, ?_⟩
  · intro N d e sc sA sB _ _ _; rw [eval]; exact ⟨rfl, Or.inl rfl⟩
  · intro N d is sc sA sB _ _ _; rw [evalItems]; exact ⟨rfl, Or.inl rfl⟩
  · intro N d es acc sc sA sB _ _ _; rw [evalEntries]; exact ⟨rfl, Or.inl rfl⟩
  · intro N d l e t sc sA sB fa ea fb eb _ _ hA _ _; rw [evalDoStmt]; exact ⟨⟨fa, hA⟩, Or.inl rfl⟩
  · intro N d stmts ret sc sA sB fa ea fb eb _ _ _ hA _ _; rw [evalDo]; exact ⟨⟨fa, hA⟩, Or.inl rfl⟩

theorem SimE.same {α} {r : Outcome α} {s1 t1 sA sB : ES} (hA : s1.env = sA.env) (hB : t1.env = sB.env) :
    SimE (r, s1) sA (r, t1) sB := ⟨hA, Or.inr ⟨rfl, hB⟩⟩

def isAssign : Expr → Bool
  | .assign _ _ => true
  | _ => false

theorem strChain_not_assign (ps : List (List Char)) : isAssign (strChain ps) = false := by
  cases ps with
  | nil => rfl
  | cons p ps =>
    simp only [strChain]
    have : ∀ (qs : List (List Char)) (acc : Expr), isAssign acc = false →
        isAssign (qs.foldl (fun acc q => Expr.bin .add acc (.str (String.ofList q))) acc) = false := by
      intro qs
      induction qs with
      | nil => intro acc h; exact h
      | cons q qs ih => intro acc _; exact ih _ rfl
    exact this ps _ rfl

theorem svToExpr_not_assign (pb : String → Option Expr) (v : SV) : isAssign (svToExpr pb v) = false := by
  cases v with
  | num x => simp only [svToExpr, numToExpr]; split <;> (try split) <;> rfl
  | str s => simp only [svToExpr, strToExpr]; split; exact strChain_not_assign _; rfl
  | _ => rfl

theorem substExpr_isAssign (pb : String → Option Expr) (sc : Scope) (e : Expr) :
    isAssign (substExpr pb sc e) = isAssign e := by
  cases e with
  | ident n =>
    simp only [substExpr]
    cases lookupAL n sc with
    | none => rfl
    | some v => exact svToExpr_not_assign pb v
  | _ => simp [substExpr, isAssign]

theorem evalDoStmt_nonassign (ops : NumOps) (f d : Nat) (e : Expr) (s : ES) (h : isAssign e = false) :
    evalDoStmt ops (f+1) d e s = eval ops f d e s := by
  rw [evalDoStmt.eq_def]
  dsimp only
  split
  · simp [isAssign] at h
  · rfl

theorem scopeAfterStmt_nonassign (sc : Scope) (l : List String) (e : Expr) (t : Option String)
    (h : isAssign e = false) : scopeAfterStmt sc (.mk l e t) = sc := by
  cases e <;> first | rfl | simp [isAssign] at h

theorem setNameIfLambda_env' (s : ES) (n : String) (v : Value) : (setNameIfLambda s n v).env = s.env := by
  unfold setNameIfLambda
  split
  · split <;> rfl
  · rfl

theorem fragStmt_nonassign (l : List String) (e : Expr) (t : Option String) (h : isAssign e = false) :
    fragStmt (.mk l e t) = frag e := by
  cases e <;> first | rfl | simp [isAssign] at h

section step
variable {ops : NumOps} {pb : String → Option Expr} {K f : Nat} {N : String → Prop}

theorem eval_un_step (ih : SimStep ops pb K f) (d : Nat) (op : UnOp) (e : Expr) (sc : Scope) (sA sB : ES)
    (he : frag e = true) (hN : ∀ n, FreeIn n (.un op e) → N n) (hrel : Rel (ops.div F64.zero F64.zero) K N sc sA.env sB.env) :
    SimE (eval ops (f+1) d (.un op e) sA) sA
      (eval ops (f + 1 + K) d (substExpr pb sc (.un op e)) sB) sB := by
  obtain ⟨hA, h1⟩ := ih.eval N d e sc sA sB he (fun n h => hN n (.un h)) hrel
  rw [show f + 1 + K = (f + K) + 1 by omega]
  simp only [substExpr]
  rw [eval, eval]
  rcases hpa : eval ops f d e sA with ⟨ra, s1⟩
  rcases hpb : eval ops (f + K) d (substExpr pb sc e) sB with ⟨rb, t1⟩
  simp only [hpa, hpb] at hA h1 ⊢
  rcases h1 with rfl | ⟨rfl, hB⟩
  · exact ⟨hA, Or.inl rfl⟩
  · cases rb with
    | ok v => cases op <;> cases v <;> exact SimE.same hA hB
    | _ => exact SimE.same hA hB

theorem SimE.via {α} {pA pB : R α} {s1 t1 sA sB : ES} (h : SimE pA s1 pB t1)
    (hA : s1.env = sA.env) (hB : t1.env = sB.env) : SimE pA sA pB sB :=
  ⟨h.1.trans hA, h.2.imp id (fun x => ⟨x.1, x.2.trans hB⟩)⟩

theorem eval_fact_step (ih : SimStep ops pb K f) (d : Nat) (e : Expr) (sc : Scope) (sA sB : ES)
    (he : frag e = true) (hN : ∀ n, FreeIn n (.fact e) → N n) (hrel : Rel (ops.div F64.zero F64.zero) K N sc sA.env sB.env) :
    SimE (eval ops (f+1) d (.fact e) sA) sA
      (eval ops (f + 1 + K) d (substExpr pb sc (.fact e)) sB) sB := by
  obtain ⟨hA, h1⟩ := ih.eval N d e sc sA sB he (fun n h => hN n (.fact h)) hrel
  rw [show f + 1 + K = (f + K) + 1 by omega]
  simp only [substExpr]
  rw [eval, eval]
  rcases hpa : eval ops f d e sA with ⟨ra, s1⟩
  rcases hpb : eval ops (f + K) d (substExpr pb sc e) sB with ⟨rb, t1⟩
  simp only [hpa, hpb] at hA h1 ⊢
  rcases h1 with rfl | ⟨rfl, hB⟩
  · exact ⟨hA, Or.inl rfl⟩
  · cases rb with
    | ok v =>
      cases v <;> try exact SimE.same hA hB
      dsimp only
      split <;> exact SimE.same hA hB
    | _ => exact SimE.same hA hB

theorem eval_spread_step (ih : SimStep ops pb K f) (d : Nat) (e : Expr) (sc : Scope) (sA sB : ES)
    (he : frag e = true) (hN : ∀ n, FreeIn n (.spread e) → N n) (hrel : Rel (ops.div F64.zero F64.zero) K N sc sA.env sB.env) :
    SimE (eval ops (f+1) d (.spread e) sA) sA
      (eval ops (f + 1 + K) d (substExpr pb sc (.spread e)) sB) sB := by
  obtain ⟨hA, h1⟩ := ih.eval N d e sc sA sB he (fun n h => hN n (.spread h)) hrel
  rw [show f + 1 + K = (f + K) + 1 by omega]
  simp only [substExpr]
  rw [eval, eval]
  rcases hpa : eval ops f d e sA with ⟨ra, s1⟩
  rcases hpb : eval ops (f + K) d (substExpr pb sc e) sB with ⟨rb, t1⟩
  simp only [hpa, hpb] at hA h1 ⊢
  rcases h1 with rfl | ⟨rfl, hB⟩
  · exact ⟨hA, Or.inl rfl⟩
  · cases rb with
    | ok v => cases v <;> exact SimE.same hA hB
    | _ => exact SimE.same hA hB

theorem eval_dot_step (ih : SimStep ops pb K f) (d : Nat) (e : Expr) (fld : String) (sc : Scope) (sA sB : ES)
    (he : frag e = true) (hN : ∀ n, FreeIn n (.dot e fld) → N n) (hrel : Rel (ops.div F64.zero F64.zero) K N sc sA.env sB.env) :
    SimE (eval ops (f+1) d (.dot e fld) sA) sA
      (eval ops (f + 1 + K) d (substExpr pb sc (.dot e fld)) sB) sB := by
  obtain ⟨hA, h1⟩ := ih.eval N d e sc sA sB he (fun n h => hN n (.dot h)) hrel
  rw [show f + 1 + K = (f + K) + 1 by omega]
  simp only [substExpr]
  rw [eval, eval]
  rcases hpa : eval ops f d e sA with ⟨ra, s1⟩
  rcases hpb : eval ops (f + K) d (substExpr pb sc e) sB with ⟨rb, t1⟩
  simp only [hpa, hpb] at hA h1 ⊢
  rcases h1 with rfl | ⟨rfl, hB⟩
  · exact ⟨hA, Or.inl rfl⟩
  · cases rb with
    | ok v => cases v <;> exact SimE.same hA hB
    | _ => exact SimE.same hA hB

theorem eval_cond_step (ih : SimStep ops pb K f) (d : Nat) (c t e : Expr) (sc : Scope) (sA sB : ES)
    (hc : frag c = true) (ht : frag t = true) (he : frag e = true)
    (hN : ∀ n, FreeIn n (.cond c t e) → N n)
    (hrel : Rel (ops.div F64.zero F64.zero) K N sc sA.env sB.env) :
    SimE (eval ops (f+1) d (.cond c t e) sA) sA
      (eval ops (f + 1 + K) d (substExpr pb sc (.cond c t e)) sB) sB := by
  obtain ⟨hA, h1⟩ := ih.eval N d c sc sA sB hc (fun n h => hN n (.condC h)) hrel
  rw [show f + 1 + K = (f + K) + 1 by omega]
  simp only [substExpr]
  rw [eval, eval]
  rcases hpa : eval ops f d c sA with ⟨ra, s1⟩
  rcases hpb : eval ops (f + K) d (substExpr pb sc c) sB with ⟨rb, t1⟩
  simp only [hpa, hpb] at hA h1 ⊢
  rcases h1 with rfl | ⟨rfl, hB⟩
  · exact ⟨hA, Or.inl rfl⟩
  · have hrel' : Rel (ops.div F64.zero F64.zero) K N sc s1.env t1.env := by rw [hA, hB]; exact hrel
    cases rb with
    | ok v =>
      cases v <;> try exact SimE.same hA hB
      rename_i b
      cases b
      · exact (ih.eval N d e sc s1 t1 he (fun n h => hN n (.condE h)) hrel').via hA hB
      · exact (ih.eval N d t sc s1 t1 ht (fun n h => hN n (.condT h)) hrel').via hA hB
    | _ => exact SimE.same hA hB

theorem eval_access_step (ih : SimStep ops pb K f) (d : Nat) (e i : Expr) (sc : Scope) (sA sB : ES)
    (he : frag e = true) (hi : frag i = true)
    (hN : ∀ n, FreeIn n (.access e i) → N n)
    (hrel : Rel (ops.div F64.zero F64.zero) K N sc sA.env sB.env) :
    SimE (eval ops (f+1) d (.access e i) sA) sA
      (eval ops (f + 1 + K) d (substExpr pb sc (.access e i)) sB) sB := by
  obtain ⟨hA, h1⟩ := ih.eval N d e sc sA sB he (fun n h => hN n (.accessE h)) hrel
  rw [show f + 1 + K = (f + K) + 1 by omega]
  simp only [substExpr]
  rw [eval, eval]
  rcases hpa : eval ops f d e sA with ⟨ra, s1⟩
  rcases hpb : eval ops (f + K) d (substExpr pb sc e) sB with ⟨rb, t1⟩
  simp only [hpa, hpb] at hA h1 ⊢
  rcases h1 with rfl | ⟨rfl, hB⟩
  · exact ⟨hA, Or.inl rfl⟩
  · have hrel' : Rel (ops.div F64.zero F64.zero) K N sc s1.env t1.env := by rw [hA, hB]; exact hrel
    cases rb with
    | ok v =>
      dsimp only
      obtain ⟨hA2, h2⟩ := ih.eval N d i sc s1 t1 hi (fun n h => hN n (.accessI h)) hrel'
      rcases hpa2 : eval ops f d i s1 with ⟨ra2, s2⟩
      rcases hpb2 : eval ops (f + K) d (substExpr pb sc i) t1 with ⟨rb2, t2⟩
      simp only [hpa2, hpb2] at hA2 h2 ⊢
      rcases h2 with rfl | ⟨rfl, hB2⟩
      · exact ⟨hA2.trans hA, Or.inl rfl⟩
      · cases rb2 with
        | ok iv => cases v <;> cases iv <;> exact SimE.same (hA2.trans hA) (hB2.trans hB)
        | _ => exact SimE.same (hA2.trans hA) (hB2.trans hB)
    | _ => exact SimE.same hA hB

theorem eval_bin_step (ih : SimStep ops pb K f) (d : Nat) (op : BinOp) (l r : Expr) (sc : Scope) (sA sB : ES)
    (hop : (op != .via && op != .into && op != .where_) = true)
    (hl : frag l = true) (hr : frag r = true)
    (hN : ∀ n, FreeIn n (.bin op l r) → N n)
    (hrel : Rel (ops.div F64.zero F64.zero) K N sc sA.env sB.env) :
    SimE (eval ops (f+1) d (.bin op l r) sA) sA
      (eval ops (f + 1 + K) d (substExpr pb sc (.bin op l r)) sB) sB := by
  obtain ⟨hA, h1⟩ := ih.eval N d l sc sA sB hl (fun n h => hN n (.binL h)) hrel
  rw [show f + 1 + K = (f + K) + 1 by omega]
  simp only [substExpr]
  rw [eval, eval]
  rcases hpa : eval ops f d l sA with ⟨ra, s1⟩
  rcases hpb : eval ops (f + K) d (substExpr pb sc l) sB with ⟨rb, t1⟩
  simp only [hpa, hpb] at hA h1 ⊢
  rcases h1 with rfl | ⟨rfl, hB⟩
  · exact ⟨hA, Or.inl rfl⟩
  · have hrel' : Rel (ops.div F64.zero F64.zero) K N sc s1.env t1.env := by rw [hA, hB]; exact hrel
    cases rb with
    | ok a =>
      dsimp only
      obtain ⟨hA2, h2⟩ := ih.eval N d r sc s1 t1 hr (fun n h => hN n (.binR h)) hrel'
      rcases hpa2 : eval ops f d r s1 with ⟨ra2, s2⟩
      rcases hpb2 : eval ops (f + K) d (substExpr pb sc r) t1 with ⟨rb2, t2⟩
      simp only [hpa2, hpb2] at hA2 h2 ⊢
      rcases h2 with rfl | ⟨rfl, hB2⟩
      · exact ⟨hA2.trans hA, Or.inl rfl⟩
      · cases rb2 with
        | ok b =>
          dsimp only
          obtain ⟨g, hg⟩ := evalBin_nocall ops d op a b hop
          cases f with
          | zero => rw [evalBin]; exact ⟨hA2.trans hA, Or.inl rfl⟩
          | succ f' =>
            rw [hg f' s2, show f' + 1 + K = (f' + K) + 1 by omega, hg (f' + K) t2]
            exact SimE.same (hA2.trans hA) (hB2.trans hB)
        | _ => exact SimE.same (hA2.trans hA) (hB2.trans hB)
    | _ => exact SimE.same hA hB

theorem eval_ident_step (d : Nat) (n : String) (sc : Scope) (sA sB : ES)
    (hN : ∀ m, FreeIn m (.ident n) → N m)
    (hrel : Rel (ops.div F64.zero F64.zero) K N sc sA.env sB.env) :
    SimE (eval ops (f+1) d (.ident n) sA) sA
      (eval ops (f + 1 + K) d (substExpr pb sc (.ident n)) sB) sB := by
  simp only [substExpr]
  cases hn : lookupAL n sc with
  | some sv =>
    obtain ⟨h1, h2, h3, h4⟩ := hrel.inl n sv hn
    dsimp only
    rw [lit_eval ops pb sv h1 (f + 1 + K) (by omega) d sB, eval]
    have e1 : (n == "infinity" || n == "inf") = false := by
      simp only [Gen.specialIdents, List.mem_cons, List.not_mem_nil, or_false, not_or] at h4
      simp [h4.1, h4.2.1]
    have e2 : (n == "constants") = false := by
      simp only [Gen.specialIdents, List.mem_cons, List.not_mem_nil, or_false, not_or] at h4
      simp [h4.2.2]
    simp only [e1, e2, Bool.false_eq_true, if_false, h3]
    exact SimE.same rfl rfl
  | none =>
    dsimp only
    rw [show f + 1 + K = (f + K) + 1 by omega, eval, eval]
    by_cases h1 : (n == "infinity" || n == "inf") = true
    · simp only [h1, if_true]; exact SimE.same rfl rfl
    · by_cases h2 : (n == "constants") = true
      · simp only [h1, h2, Bool.false_eq_true, if_false, if_true]; exact SimE.same rfl rfl
      · have hs : n ∉ Gen.specialIdents := by
          simp only [Bool.or_eq_true, beq_iff_eq, not_or] at h1 h2
          simp [Gen.specialIdents, h1.1, h1.2, h2]
        simp only [h1, h2, Bool.false_eq_true, if_false]
        rw [hrel.out n (hN n (.ident hs)) hn]
        cases envGet sB.env n <;> exact SimE.same rfl rfl

theorem eval_inref_step (d : Nat) (fld : String) (sc : Scope) (sA sB : ES)
    (hrel : Rel (ops.div F64.zero F64.zero) K N sc sA.env sB.env) :
    SimE (eval ops (f+1) d (.inref fld) sA) sA
      (eval ops (f + 1 + K) d (substExpr pb sc (.inref fld)) sB) sB := by
  simp only [substExpr]
  rw [show f + 1 + K = (f + K) + 1 by omega, eval, eval, hrel.inputs.2]
  cases envGet sB.env "inputs" with
  | none => exact SimE.same rfl rfl
  | some v => cases v <;> exact SimE.same rfl rfl

theorem eval_list_step (ih : SimStep ops pb K f) (d : Nat) (items : List Item) (sc : Scope) (sA sB : ES)
    (he : fragItems items = true) (hN : ∀ n, FreeIn n (.list items) → N n) (hrel : Rel (ops.div F64.zero F64.zero) K N sc sA.env sB.env) :
    SimE (eval ops (f+1) d (.list items) sA) sA
      (eval ops (f + 1 + K) d (substExpr pb sc (.list items)) sB) sB := by
  obtain ⟨hA, h1⟩ := ih.items N d items sc sA sB he (fun n h => hN n (.list h)) hrel
  rw [show f + 1 + K = (f + K) + 1 by omega]
  simp only [substExpr]
  rw [eval, eval]
  rcases hpa : evalItems ops f d items sA with ⟨ra, s1⟩
  rcases hpb : evalItems ops (f + K) d (substItems pb sc items) sB with ⟨rb, t1⟩
  simp only [hpa, hpb] at hA h1 ⊢
  rcases h1 with rfl | ⟨rfl, hB⟩
  · exact ⟨hA, Or.inl rfl⟩
  · cases rb <;> exact SimE.same hA hB

theorem eval_record_step (ih : SimStep ops pb K f) (d : Nat) (es : List Entry) (sc : Scope) (sA sB : ES)
    (he : fragEntries es = true) (hN : ∀ n, FreeIn n (.record es) → N n) (hrel : Rel (ops.div F64.zero F64.zero) K N sc sA.env sB.env) :
    SimE (eval ops (f+1) d (.record es) sA) sA
      (eval ops (f + 1 + K) d (substExpr pb sc (.record es)) sB) sB := by
  obtain ⟨hA, h1⟩ := ih.entries N d es [] sc sA sB he (fun n h => hN n (.record h)) hrel
  rw [show f + 1 + K = (f + K) + 1 by omega]
  simp only [substExpr]
  rw [eval, eval]
  rcases hpa : evalEntries ops f d es [] sA with ⟨ra, s1⟩
  rcases hpb : evalEntries ops (f + K) d (substEntries pb sc es) [] sB with ⟨rb, t1⟩
  simp only [hpa, hpb] at hA h1 ⊢
  rcases h1 with rfl | ⟨rfl, hB⟩
  · exact ⟨hA, Or.inl rfl⟩
  · cases rb <;> exact SimE.same hA hB

theorem eval_do_step (ih : SimStep ops pb K f) (d : Nat) (stmts : List Item) (ret : Item) (sc : Scope)
    (sA sB : ES) (hs : fragStmts stmts = true) (hr : fragStmt ret = true)
    (hN : ∀ n, FreeIn n (.doBlock stmts ret) → N n)
    (hrel : Rel (ops.div F64.zero F64.zero) K N sc sA.env sB.env) :
    SimE (eval ops (f+1) d (.doBlock stmts ret) sA) sA
      (eval ops (f + 1 + K) d (substExpr pb sc (.doBlock stmts ret)) sB) sB := by
  obtain ⟨⟨fa', hA⟩, h1⟩ := ih.doo N d stmts ret sc { sA with env := [] :: sA.env } { sB with env := [] :: sB.env }
    [] sA.env [] sB.env hs hr (fun n h => hN n (.doBlock h)) rfl rfl hrel.push
  rw [show f + 1 + K = (f + K) + 1 by omega]
  simp only [substExpr]
  rw [eval, eval]
  rcases hpa : evalDo ops f d stmts ret { sA with env := [] :: sA.env } with ⟨ra, s1⟩
  rcases hpb : evalDo ops (f + K) d (substStmts pb sc stmts) (substItem pb (scopeAfterStmts sc stmts) ret)
    { sB with env := [] :: sB.env } with ⟨rb, t1⟩
  simp only [hpa, hpb] at hA h1 ⊢
  rcases h1 with rfl | ⟨rfl, ⟨fb', hB⟩, _⟩
  · exact ⟨by simp [hA], Or.inl rfl⟩
  · exact ⟨by simp [hA], Or.inr ⟨rfl, by simp [hB]⟩⟩

theorem items_step (ih : SimStep ops pb K f) (d : Nat) (is : List Item) (sc : Scope) (sA sB : ES)
    (he : fragItems is = true) (hN : ∀ n, FreeInItems n is → N n) (hrel : Rel (ops.div F64.zero F64.zero) K N sc sA.env sB.env) :
    SimE (evalItems ops (f+1) d is sA) sA
      (evalItems ops (f + 1 + K) d (substItems pb sc is) sB) sB := by
  rw [show f + 1 + K = (f + K) + 1 by omega]
  cases is with
  | nil => simp only [substItems]; rw [evalItems, evalItems]; exact SimE.same rfl rfl
  | cons i rest =>
    obtain ⟨l, e, t⟩ := i
    simp only [fragItems, Bool.and_eq_true] at he
    simp only [substItems, substItem]
    rw [evalItems, evalItems]
    obtain ⟨hA, h1⟩ := ih.eval N d e sc sA sB he.1 (fun n h => hN n (.head h)) hrel
    rcases hpa : eval ops f d e sA with ⟨ra, s1⟩
    rcases hpb : eval ops (f + K) d (substExpr pb sc e) sB with ⟨rb, t1⟩
    simp only [hpa, hpb] at hA h1 ⊢
    rcases h1 with rfl | ⟨rfl, hB⟩
    · exact ⟨hA, Or.inl rfl⟩
    · have hrel' : Rel (ops.div F64.zero F64.zero) K N sc s1.env t1.env := by rw [hA, hB]; exact hrel
      cases rb with
      | ok v =>
        dsimp only
        obtain ⟨hA2, h2⟩ := ih.items N d rest sc s1 t1 he.2 (fun n h => hN n (.tail h)) hrel'
        rcases hpa2 : evalItems ops f d rest s1 with ⟨ra2, s2⟩
        rcases hpb2 : evalItems ops (f + K) d (substItems pb sc rest) t1 with ⟨rb2, t2⟩
        simp only [hpa2, hpb2] at hA2 h2 ⊢
        rcases h2 with rfl | ⟨rfl, hB2⟩
        · exact ⟨hA2.trans hA, Or.inl rfl⟩
        · cases rb2 <;> exact SimE.same (hA2.trans hA) (hB2.trans hB)
      | _ => exact SimE.same hA hB

theorem entries_step (ih : SimStep ops pb K f) (d : Nat) (es : List Entry) (acc : Frame) (sc : Scope)
    (sA sB : ES) (he : fragEntries es = true) (hN : ∀ n, FreeInEntries n es → N n)
    (hrel : Rel (ops.div F64.zero F64.zero) K N sc sA.env sB.env) :
    SimE (evalEntries ops (f+1) d es acc sA) sA
      (evalEntries ops (f + 1 + K) d (substEntries pb sc es) acc sB) sB := by
  rw [show f + 1 + K = (f + K) + 1 by omega]
  cases es with
  | nil => simp only [substEntries]; rw [evalEntries, evalEntries]; exact SimE.same rfl rfl
  | cons en rest =>
    obtain ⟨l, k, v, t⟩ := en
    simp only [fragEntries, Bool.and_eq_true] at he
    obtain ⟨⟨hk, hv⟩, hrest⟩ := he
    simp only [substEntries, substEntry]
    cases k with
    | static k =>
      simp only [substKeyed]
      rw [evalEntries, evalEntries]
      obtain ⟨hA, h1⟩ := ih.eval N d v sc sA sB hv (fun n h => hN n (.head (.static h))) hrel
      rcases hpa : eval ops f d v sA with ⟨ra, s1⟩
      rcases hpb : eval ops (f + K) d (substExpr pb sc v) sB with ⟨rb, t1⟩
      simp only [hpa, hpb] at hA h1 ⊢
      rcases h1 with rfl | ⟨rfl, hB⟩
      · exact ⟨hA, Or.inl rfl⟩
      · have hrel' : Rel (ops.div F64.zero F64.zero) K N sc s1.env t1.env := by rw [hA, hB]; exact hrel
        cases rb with
        | ok w => exact (ih.entries N d rest _ sc s1 t1 hrest (fun n h => hN n (.tail h)) hrel').via hA hB
        | _ => exact SimE.same hA hB
    | dyn ke =>
      simp only [fragKey] at hk
      simp only [substKeyed]
      rw [evalEntries, evalEntries]
      obtain ⟨hA, h1⟩ := ih.eval N d ke sc sA sB hk (fun n h => hN n (.head (.dynK h))) hrel
      rcases hpa : eval ops f d ke sA with ⟨ra, s1⟩
      rcases hpb : eval ops (f + K) d (substExpr pb sc ke) sB with ⟨rb, t1⟩
      simp only [hpa, hpb] at hA h1 ⊢
      rcases h1 with rfl | ⟨rfl, hB⟩
      · exact ⟨hA, Or.inl rfl⟩
      · have hrel' : Rel (ops.div F64.zero F64.zero) K N sc s1.env t1.env := by rw [hA, hB]; exact hrel
        cases rb with
        | ok kv =>
          cases kv <;> try exact SimE.same hA hB
          dsimp only
          obtain ⟨hA2, h2⟩ := ih.eval N d v sc s1 t1 hv (fun n h => hN n (.head (.dynV h))) hrel'
          rcases hpa2 : eval ops f d v s1 with ⟨ra2, s2⟩
          rcases hpb2 : eval ops (f + K) d (substExpr pb sc v) t1 with ⟨rb2, t2⟩
          simp only [hpa2, hpb2] at hA2 h2 ⊢
          rcases h2 with rfl | ⟨rfl, hB2⟩
          · exact ⟨hA2.trans hA, Or.inl rfl⟩
          · have hrel2 : Rel (ops.div F64.zero F64.zero) K N sc s2.env t2.env := by
              rw [hA2, hB2]; exact hrel'
            cases rb2 with
            | ok w => exact (ih.entries N d rest _ sc s2 t2 hrest (fun n h => hN n (.tail h)) hrel2).via (hA2.trans hA) (hB2.trans hB)
            | _ => exact SimE.same (hA2.trans hA) (hB2.trans hB)
        | _ => exact SimE.same hA hB
    | spread se =>
      simp only [fragKey] at hk
      simp only [substKeyed]
      rw [evalEntries, evalEntries]
      obtain ⟨hA, h1⟩ := ih.eval N d se sc sA sB hk (fun n h => hN n (.head (.spread h))) hrel
      rcases hpa : eval ops f d se sA with ⟨ra, s1⟩
      rcases hpb : eval ops (f + K) d (substExpr pb sc se) sB with ⟨rb, t1⟩
      simp only [hpa, hpb] at hA h1 ⊢
      rcases h1 with rfl | ⟨rfl, hB⟩
      · exact ⟨hA, Or.inl rfl⟩
      · have hrel' : Rel (ops.div F64.zero F64.zero) K N sc s1.env t1.env := by rw [hA, hB]; exact hrel
        cases rb with
        | ok w =>
          cases w <;> exact (ih.entries N d rest _ sc s1 t1 hrest (fun n h => hN n (.tail h)) hrel').via hA hB
        | _ => exact SimE.same hA hB
    | short n =>
      simp only [substKeyed]
      cases hn : lookupAL n sc with
      | some sv =>
        obtain ⟨h1, h2, h3, h4⟩ := hrel.inl n sv hn
        dsimp only
        rw [evalEntries, evalEntries, h3, lit_eval ops pb sv h1 (f + K) (by omega) d sB]
        exact ih.entries N d rest _ sc sA sB hrest (fun n h => hN n (.tail h)) hrel
      | none =>
        dsimp only
        rw [evalEntries, evalEntries, hrel.out n (hN n (.head .short)) hn]
        cases envGet sB.env n with
        | none => exact SimE.same rfl rfl
        | some w => exact ih.entries N d rest _ sc sA sB hrest (fun n h => hN n (.tail h)) hrel

theorem stmt_step (ih : SimStep ops pb K f) (d : Nat) (l : List String) (e : Expr) (t : Option String)
    (sc : Scope) (sA sB : ES) (fa : Frame) (ea : List Frame) (fb : Frame) (eb : List Frame)
    (he : fragStmt (.mk l e t) = true) (hN : ∀ n, FreeIn n e → N n) (hEA : sA.env = fa :: ea) (hEB : sB.env = fb :: eb)
    (hrel : Rel (ops.div F64.zero F64.zero) K N sc sA.env sB.env) :
    SimD (Rel (ops.div F64.zero F64.zero) K (fun m => N m ∨ ∃ v, e = .assign m v) (scopeAfterStmt sc (.mk l e t)))
      (evalDoStmt ops (f+1) d e sA) ea (evalDoStmt ops (f + 1 + K) d (substExpr pb sc e) sB) eb := by
  rw [show f + 1 + K = (f + K) + 1 by omega]
  by_cases ha : isAssign e = true
  · cases e <;> simp only [isAssign, Bool.false_eq_true] at ha
    rename_i n v
    simp only [fragStmt] at he
    simp only [substExpr, scopeAfterStmt]
    rw [evalDoStmt, evalDoStmt]
    by_cases hk : Gen.doAssignKeywords.contains n = true
    · simp only [hk, if_true]
      exact ⟨⟨fa, hEA⟩, Or.inr ⟨rfl, ⟨fb, hEB⟩, fun h => by simp [Outcome.isOk] at h⟩⟩
    · simp only [hk, Bool.false_eq_true, if_false]
      obtain ⟨hA, h1⟩ := ih.eval N d v sc sA sB he (fun m h => hN m (.assign h)) hrel
      rcases hpa : eval ops f d v sA with ⟨ra, s1⟩
      rcases hpb : eval ops (f + K) d (substExpr pb sc v) sB with ⟨rb, t1⟩
      simp only [hpa, hpb] at hA h1 ⊢
      rcases h1 with rfl | ⟨rfl, hB⟩
      · exact ⟨⟨fa, hA.trans hEA⟩, Or.inl rfl⟩
      · cases rb with
        | ok val =>
          dsimp only
          have e1 : envInsert (setNameIfLambda s1 n (createdSince sA.nextId val)).env n val =
              insertAL n val fa :: ea := by
            rw [setNameIfLambda_env', hA, hEA]; rfl
          have e2 : envInsert (setNameIfLambda t1 n (createdSince sB.nextId val)).env n val =
              insertAL n val fb :: eb := by
            rw [setNameIfLambda_env', hB, hEB]; rfl
          refine ⟨⟨_, e1⟩, Or.inr ⟨rfl, ⟨_, e2⟩, fun _ => ?_⟩⟩
          show Rel _ K _ (scopeRemove sc n)
            (envInsert (setNameIfLambda s1 n (createdSince sA.nextId val)).env n val)
            (envInsert (setNameIfLambda t1 n (createdSince sB.nextId val)).env n val)
          rw [e1, e2]
          rw [hEA, hEB] at hrel
          refine (hrel.assign n val).mono fun m hm => hm.imp id ?_
          rintro ⟨w, hw⟩
          injection hw with hw1 _
          exact hw1.symm
        | err k =>
          exact ⟨⟨fa, hA.trans hEA⟩, Or.inr ⟨rfl, ⟨fb, hB.trans hEB⟩, fun h => by simp [Outcome.isOk] at h⟩⟩
        | panic p =>
          exact ⟨⟨fa, hA.trans hEA⟩, Or.inr ⟨rfl, ⟨fb, hB.trans hEB⟩, fun h => by simp [Outcome.isOk] at h⟩⟩
        | fuel => exact ⟨⟨fa, hA.trans hEA⟩, Or.inl rfl⟩
  · have ha' : isAssign e = false := by simpa using ha
    rw [fragStmt_nonassign l e t ha'] at he
    rw [scopeAfterStmt_nonassign sc l e t ha', evalDoStmt_nonassign ops f d e sA ha',
      evalDoStmt_nonassign ops (f + K) d _ sB (by rw [substExpr_isAssign]; exact ha')]
    obtain ⟨hA, h1⟩ := ih.eval N d e sc sA sB he hN hrel
    refine ⟨⟨fa, hA.trans hEA⟩, h1.imp id fun ⟨h2, hB⟩ => ⟨h2, ⟨fb, hB.trans hEB⟩, fun _ => ?_⟩⟩
    rw [hA, hB]
    refine hrel.mono fun m hm => hm.resolve_right ?_
    rintro ⟨w, hw⟩
    rw [hw] at ha'
    simp [isAssign] at ha'

theorem do_step (ih : SimStep ops pb K f) (d : Nat) (stmts : List Item) (ret : Item)
    (sc : Scope) (sA sB : ES) (fa : Frame) (ea : List Frame) (fb : Frame) (eb : List Frame)
    (hs : fragStmts stmts = true) (hr : fragStmt ret = true)
    (hN : ∀ n, FreeInDo n stmts ret → N n)
    (hEA : sA.env = fa :: ea) (hEB : sB.env = fb :: eb)
    (hrel : Rel (ops.div F64.zero F64.zero) K N sc sA.env sB.env) :
    SimD (fun _ _ => True)
      (evalDo ops (f+1) d stmts ret sA) ea
      (evalDo ops (f + 1 + K) d (substStmts pb sc stmts) (substItem pb (scopeAfterStmts sc stmts) ret) sB) eb := by
  rw [show f + 1 + K = (f + K) + 1 by omega]
  cases stmts with
  | nil =>
    obtain ⟨l, e, t⟩ := ret
    simp only [substStmts, substItem]
    rw [evalDo, evalDo]
    obtain ⟨h1, h2⟩ := ih.stmt N d l e t sc sA sB fa ea fb eb hr (fun n h => hN n (.ret h)) hEA hEB hrel
    exact ⟨h1, h2.imp id fun ⟨a, b, _⟩ => ⟨a, b, fun _ => trivial⟩⟩
  | cons i rest =>
    obtain ⟨l, e, t⟩ := i
    simp only [fragStmts, Bool.and_eq_true] at hs
    simp only [substStmts, substItem]
    rw [evalDo, evalDo]
    obtain ⟨⟨fa', hA⟩, h1⟩ := ih.stmt N d l e t sc sA sB fa ea fb eb hs.1 (fun n h => hN n (.here h)) hEA hEB hrel
    rcases hpa : evalDoStmt ops f d e sA with ⟨ra, s1⟩
    rcases hpb : evalDoStmt ops (f + K) d (substExpr pb sc e) sB with ⟨rb, t1⟩
    simp only [hpa, hpb] at hA h1 ⊢
    rcases h1 with rfl | ⟨rfl, ⟨fb', hB⟩, hR⟩
    · exact ⟨⟨fa', hA⟩, Or.inl rfl⟩
    · cases rb with
      | ok val =>
        refine ih.doo _ d rest ret (scopeAfterStmt sc (.mk l e t)) s1 t1 fa' ea fb' eb hs.2 hr ?_ hA hB (hR rfl)
        intro n hn
        by_cases hx : ∃ v, e = .assign n v
        · exact Or.inr hx
        · exact Or.inl (hN n (.later hn (fun v hv => hx ⟨v, hv⟩)))
      | err k => exact ⟨⟨fa', hA⟩, Or.inr ⟨rfl, ⟨fb', hB⟩, fun h => by simp [Outcome.isOk] at h⟩⟩
      | panic p => exact ⟨⟨fa', hA⟩, Or.inr ⟨rfl, ⟨fb', hB⟩, fun h => by simp [Outcome.isOk] at h⟩⟩
      | fuel => exact ⟨⟨fa', hA⟩, Or.inl rfl⟩
end step

theorem simStep_succ {ops : NumOps} {pb : String → Option Expr} {K f : Nat} (ih : SimStep ops pb K f) :
    SimStep ops pb K (f + 1) := by
  refine ⟨?_, fun N d is sc sA sB h hN hr => items_step ih d is sc sA sB h hN hr,
    fun N d es acc sc sA sB h hN hr => entries_step ih d es acc sc sA sB h hN hr,
    fun N d l e t sc sA sB fa ea fb eb h hN h1 h2 hr => stmt_step ih d l e t sc sA sB fa ea fb eb h hN h1 h2 hr,
    fun N d stmts ret sc sA sB fa ea fb eb h h0 hN h1 h2 hr =>
      do_step ih d stmts ret sc sA sB fa ea fb eb h h0 hN h1 h2 hr⟩
  intro N d e sc sA sB he hN hrel
  cases e with
  | num x => simp only [substExpr]; rw [show f + 1 + K = (f + K) + 1 by omega, eval, eval]; exact SimE.same rfl rfl
  | str x => simp only [substExpr]; rw [show f + 1 + K = (f + K) + 1 by omega, eval, eval]; exact SimE.same rfl rfl
  | bool x => simp only [substExpr]; rw [show f + 1 + K = (f + K) + 1 by omega, eval, eval]; exact SimE.same rfl rfl
  | null => simp only [substExpr]; rw [show f + 1 + K = (f + K) + 1 by omega, eval, eval]; exact SimE.same rfl rfl
  | builtin x => simp only [substExpr]; rw [show f + 1 + K = (f + K) + 1 by omega, eval, eval]; exact SimE.same rfl rfl
  | ident n => exact eval_ident_step d n sc sA sB hN hrel
  | inref x => exact eval_inref_step d x sc sA sB hrel
  | list items => simp only [frag] at he; exact eval_list_step ih d items sc sA sB he hN hrel
  | record es => simp only [frag] at he; exact eval_record_step ih d es sc sA sB he hN hrel
  | cond c t e =>
    simp only [frag, Bool.and_eq_true] at he
    exact eval_cond_step ih d c t e sc sA sB he.1.1 he.1.2 he.2 hN hrel
  | access e i =>
    simp only [frag, Bool.and_eq_true] at he
    exact eval_access_step ih d e i sc sA sB he.1 he.2 hN hrel
  | dot e fld => simp only [frag] at he; exact eval_dot_step ih d e fld sc sA sB he hN hrel
  | bin op l r =>
    simp only [frag, Bool.and_eq_true] at he
    exact eval_bin_step ih d op l r sc sA sB (by simp only [Bool.and_eq_true]; exact he.1.1) he.1.2 he.2 hN hrel
  | un op e => simp only [frag] at he; exact eval_un_step ih d op e sc sA sB he hN hrel
  | fact e => simp only [frag] at he; exact eval_fact_step ih d e sc sA sB he hN hrel
  | spread e => simp only [frag] at he; exact eval_spread_step ih d e sc sA sB he hN hrel
  | doBlock stmts ret =>
    simp only [frag, Bool.and_eq_true] at he
    exact eval_do_step ih d stmts ret sc sA sB he.1 he.2 hN hrel
  | lambda _ _ | assign _ _ | output _ | call _ _ => simp [frag] at he

theorem simStep (ops : NumOps) (pb : String → Option Expr) (K : Nat) : ∀ f, SimStep ops pb K f
  | 0 => simStep_zero ops pb K
  | f + 1 => simStep_succ (simStep ops pb K f)

/-- THE SUBSTITUTION LEMMA on the fragment: if the original expression, evaluated with the
    captured values bound to their names, gives an answer with fuel `f`, the substituted
    expression evaluated WITHOUT those bindings gives the same answer with fuel `f + K`.
    `N` is any set of names containing the names free in `e`: only those (and `inputs`) have
    to be resolved alike by the two environments. -/
theorem subst_eval (ops : NumOps) (pb : String → Option Expr) (K f d : Nat) (e : Expr) (sc : Scope)
    (N : String → Prop) (sA sB : ES) (he : frag e = true) (hN : ∀ n, FreeIn n e → N n)
    (hrel : Rel (ops.div F64.zero F64.zero) K N sc sA.env sB.env)
    (hf : (eval ops f d e sA).1 ≠ .fuel) :
    (eval ops (f + K) d (substExpr pb sc e) sB).1 = (eval ops f d e sA).1 := by
  rcases ((simStep ops pb K f).eval N d e sc sA sB he hN hrel).2 with h | h
  · exact absurd h hf
  · exact h.1

/-! ### (E) calls: the environment a function body runs in -/

/-- the environment `callFn` builds for the body: parameters over the self-reference frame
    (the function's display name, unless captured) and `inputs`, on top of the captured scope
    (when not empty) and the caller's frames -/
def callEnvOf (s : ES) (id : Nat) (scope : Frame) (this : Value) (pf : Frame) : List Frame :=
  let f0 : Frame :=
    match nameOf s.names id with
    | some n => if (lookupAL n scope).isSome then [] else [(n, this)]
    | none => []
  let f1 : Frame :=
    match envGet s.env "inputs" with
    | some v => insertAL "inputs" v f0
    | none => f0
  pf.foldl (fun f kv => insertAL kv.1 kv.2 f) f1 :: (if scope.isEmpty then s.env else scope :: s.env)

/-- `callFn` on a function value whose arity check, depth check and parameter binding succeed -/
theorem callFn_lambda_ok (ops : NumOps) (f id : Nat) (ps : List LArg) (body : Expr) (scope : Frame)
    (this : Value) (args : List Value) (depth : Nat) (s : ES) (pf : Frame)
    (ha : checkArity (lambdaArity ps) args.length = .ok ()) (hd : ¬ depth > MAX_DEPTH)
    (hb : bindParams ps args = .ok pf) :
    callFn ops (f + 1) (.lambda id ps body scope) this args depth s =
      ((eval ops f (depth + 1) body { s with env := callEnvOf s id scope this pf }).1,
       { (eval ops f (depth + 1) body { s with env := callEnvOf s id scope this pf }).2 with env := s.env }) := by
  rw [callFn, ha]
  simp only [hd, if_false, hb]
  rfl

/-- when one of the three fails the answer does not depend on body, scope or identity -/
theorem callFn_lambda_fail (ops : NumOps) (f id id' : Nat) (ps : List LArg) (body body' : Expr)
    (scope scope' : Frame) (this this' : Value) (args : List Value) (depth : Nat) (s s' : ES)
    (h : checkArity (lambdaArity ps) args.length ≠ .ok () ∨ depth > MAX_DEPTH ∨
      ∀ pf, bindParams ps args ≠ .ok pf) (f' : Nat) :
    (callFn ops (f + 1) (.lambda id ps body scope) this args depth s).1 =
      (callFn ops (f' + 1) (.lambda id' ps body' scope') this' args depth s').1 := by
  rw [callFn, callFn]
  cases ha : checkArity (lambdaArity ps) args.length with
  | ok u =>
    dsimp only
    by_cases hd : depth > MAX_DEPTH
    · simp [hd]
    · simp only [hd, if_false]
      cases hb : bindParams ps args with
      | ok pf =>
        rcases h with h | h | h
        · exact absurd (by rw [ha]) h
        · exact absurd h hd
        · exact absurd hb (h pf)
      | _ => rfl
  | _ => rfl

/-- CALLS AGREE on the fragment: the original function (captured scope `scope`, SV image `sc`)
    and the reloaded one (empty scope, substituted body) return the same outcome on the same
    arguments, whenever the two body environments are related as in `Rel` -/
theorem reload_call (ops : NumOps) (pb : String → Option Expr) (K f idA idB : Nat) (ps : List LArg)
    (body : Expr) (scope : Frame) (sc : Scope) (thisA thisB : Value) (args : List Value) (depth : Nat)
    (sA sB : ES) (hfrag : frag body = true)
    (hrel : ∀ pf, bindParams ps args = .ok pf →
      Rel (ops.div F64.zero F64.zero) K (fun n => FreeIn n body) sc
        (callEnvOf sA idA scope thisA pf) (callEnvOf sB idB [] thisB pf))
    (hf : (callFn ops (f + 1) (.lambda idA ps body scope) thisA args depth sA).1 ≠ .fuel) :
    (callFn ops (f + K + 1) (.lambda idB ps (substExpr pb sc body) []) thisB args depth sB).1 =
      (callFn ops (f + 1) (.lambda idA ps body scope) thisA args depth sA).1 := by
  by_cases ha : checkArity (lambdaArity ps) args.length = .ok ()
  · by_cases hd : depth > MAX_DEPTH
    · exact (callFn_lambda_fail ops f idA idB ps body _ scope [] thisA thisB args depth sA sB
        (Or.inr (Or.inl hd)) (f + K)).symm
    · cases hb : bindParams ps args with
      | ok pf =>
        rw [callFn_lambda_ok ops f idA ps body scope thisA args depth sA pf ha hd hb] at hf ⊢
        rw [callFn_lambda_ok ops (f + K) idB ps _ [] thisB args depth sB pf ha hd hb]
        exact subst_eval ops pb K f (depth + 1) body sc (fun n => FreeIn n body) _ _ hfrag
          (fun _ h => h) (hrel pf hb) hf
      | err k =>
        exact (callFn_lambda_fail ops f idA idB ps body _ scope [] thisA thisB args depth sA sB
          (Or.inr (Or.inr (fun pf h => by rw [hb] at h; cases h))) (f + K)).symm
      | panic k =>
        exact (callFn_lambda_fail ops f idA idB ps body _ scope [] thisA thisB args depth sA sB
          (Or.inr (Or.inr (fun pf h => by rw [hb] at h; cases h))) (f + K)).symm
      | fuel =>
        exact (callFn_lambda_fail ops f idA idB ps body _ scope [] thisA thisB args depth sA sB
          (Or.inr (Or.inr (fun pf h => by rw [hb] at h; cases h))) (f + K)).symm
  · exact (callFn_lambda_fail ops f idA idB ps body _ scope [] thisA thisB args depth sA sB
      (Or.inl ha) (f + K)).symm

/-! #### the relation `Rel` from closedness -/

theorem lookupAL_foldl_insert_congr (n : String) : ∀ (kvs : List (String × Value)) (FA FB : Frame),
    (lookupAL n FA = lookupAL n FB ∨ n ∈ kvs.map Prod.fst) →
    lookupAL n (kvs.foldl (fun f kv => insertAL kv.1 kv.2 f) FA) =
      lookupAL n (kvs.foldl (fun f kv => insertAL kv.1 kv.2 f) FB)
  | [], FA, FB, h => by
    rcases h with h | h
    · exact h
    · cases h
  | (k, v) :: r, FA, FB, h => by
    simp only [List.foldl_cons]
    apply lookupAL_foldl_insert_congr n r
    by_cases hk : n = k
    · left; rw [lookupAL_insertAL, lookupAL_insertAL]; simp [hk]
    · rcases h with h | h
      · left; rw [lookupAL_insertAL, lookupAL_insertAL]; simp [hk, h]
      · right
        simp only [List.map_cons, List.mem_cons] at h
        exact h.resolve_left hk

theorem lookupAL_foldl_insert_not_mem (n : String) : ∀ (kvs : List (String × Value)) (F : Frame),
    n ∉ kvs.map Prod.fst → lookupAL n (kvs.foldl (fun f kv => insertAL kv.1 kv.2 f) F) = lookupAL n F
  | [], _, _ => rfl
  | (k, v) :: r, F, h => by
    simp only [List.map_cons, List.mem_cons, not_or] at h
    simp only [List.foldl_cons]
    rw [lookupAL_foldl_insert_not_mem n r _ h.2, lookupAL_insertAL]
    simp [h.1]

theorem lookupAL_ne_none_mem {α} (n : String) : ∀ (F : List (String × α)), lookupAL n F ≠ none → n ∈ F.map Prod.fst
  | [], h => by simp [lookupAL] at h
  | (k, v) :: r, h => by
    by_cases hk : k = n
    · simp [hk]
    · simp only [lookupAL, hk, if_false] at h
      simp [lookupAL_ne_none_mem n r h]

theorem mem_lookupAL_ne_none {α} (n : String) : ∀ (F : List (String × α)), n ∈ F.map Prod.fst → lookupAL n F ≠ none
  | [], h => by simp at h
  | (k, v) :: r, h => by
    by_cases hk : k = n
    · simp [lookupAL, hk]
    · simp only [List.map_cons, List.mem_cons] at h
      simp only [lookupAL, hk, if_false]
      exact mem_lookupAL_ne_none n r (h.resolve_left (fun e => hk e.symm))

theorem bindParams_go_keys (args : List Value) (n : String) : ∀ (ps : List LArg) (i : Nat) (frame pf : Frame),
    bindParams.go args ps i frame = .ok pf → lookupAL n pf ≠ none →
    n ∈ ps.map LArg.name ∨ lookupAL n frame ≠ none
  | [], i, frame, pf, h, hn => by
    simp only [bindParams.go, Outcome.ok.injEq] at h
    subst h; exact Or.inr hn
  | p :: rest, i, frame, pf, h, hn => by
    cases p with
    | req m =>
      simp only [bindParams.go] at h
      cases ha : args[i]? with
      | none => simp [ha] at h
      | some v =>
        simp only [ha] at h
        rcases bindParams_go_keys args n rest (i + 1) _ pf h hn with h1 | h1
        · exact Or.inl (by simp [h1])
        · rw [lookupAL_insertAL] at h1
          by_cases hm : n = m
          · exact Or.inl (by simp [hm, LArg.name])
          · simp only [hm, if_false] at h1; exact Or.inr h1
    | opt m =>
      simp only [bindParams.go] at h
      rcases bindParams_go_keys args n rest (i + 1) _ pf h hn with h1 | h1
      · exact Or.inl (by simp [h1])
      · rw [lookupAL_insertAL] at h1
        by_cases hm : n = m
        · exact Or.inl (by simp [hm, LArg.name])
        · simp only [hm, if_false] at h1; exact Or.inr h1
    | rest m =>
      simp only [bindParams.go] at h
      rcases bindParams_go_keys args n rest (i + 1) _ pf h hn with h1 | h1
      · exact Or.inl (by simp [h1])
      · rw [lookupAL_insertAL] at h1
        by_cases hm : n = m
        · exact Or.inl (by simp [hm, LArg.name])
        · simp only [hm, if_false] at h1; exact Or.inr h1

/-- the parameter frame binds parameter names only -/
theorem bindParams_keys (ps : List LArg) (args : List Value) (pf : Frame) (n : String)
    (h : bindParams ps args = .ok pf) (hn : n ∈ pf.map Prod.fst) : n ∈ ps.map LArg.name := by
  rcases bindParams_go_keys args n ps 0 [] pf h (mem_lookupAL_ne_none n pf hn) with h1 | h1
  · exact h1
  · simp [lookupAL] at h1

/-- the captured scope `scope` (values) and its serialised image `sc`: same names; every
    captured value is data (or a built-in) whose literal needs at most `K` fuel and denotes
    it; captured names are not special identifiers, parameters or `inputs` -/
structure ScopeImage (q : F64) (K : Nat) (ps : List LArg) (sc : Scope) (scope : Frame) : Prop where
  img : ∀ n sv, lookupAL n sc = some sv →
    noLambda sv = true ∧ litFuel sv ≤ K ∧ lookupAL n scope = some (svToValueN q sv) ∧
    n ∉ Gen.specialIdents ∧ n ∉ ps.map LArg.name ∧ n ≠ "inputs"
  dom : ∀ n, lookupAL n sc = none → lookupAL n scope = none

theorem envGet_cons' (F : Frame) (E : List Frame) (n : String) :
    envGet (F :: E) n = match lookupAL n F with | some v => some v | none => envGet E n := rfl

theorem lookupAL_foldl_insert_mem (n : String) : ∀ (kvs : List (String × Value)) (F : Frame),
    n ∈ kvs.map Prod.fst → lookupAL n (kvs.foldl (fun f kv => insertAL kv.1 kv.2 f) F) ≠ none
  | [], F, h => by simp at h
  | kv :: r, F, h => by
    simp only [List.foldl_cons]
    by_cases hk : n ∈ r.map Prod.fst
    · exact lookupAL_foldl_insert_mem n r _ hk
    · simp only [List.map_cons, List.mem_cons] at h
      have hnk : n = kv.1 := h.resolve_right hk
      rw [lookupAL_foldl_insert_not_mem n r _ hk, lookupAL_insertAL]
      simp [hnk]

theorem bindParams_go_binds (args : List Value) (n : String) : ∀ (ps : List LArg) (i : Nat) (frame pf : Frame),
    bindParams.go args ps i frame = .ok pf → (n ∈ ps.map LArg.name ∨ lookupAL n frame ≠ none) →
    lookupAL n pf ≠ none
  | [], i, frame, pf, h, hn => by
    simp only [bindParams.go, Outcome.ok.injEq] at h
    subst h
    rcases hn with hn | hn
    · simp at hn
    · exact hn
  | p :: rest, i, frame, pf, h, hn => by
    have key : ∀ (m : String) (v : Value), p.name = m →
        bindParams.go args rest (i + 1) (insertAL m v frame) = .ok pf → lookupAL n pf ≠ none := by
      intro m v hm h'
      apply bindParams_go_binds args n rest (i + 1) _ pf h'
      rw [lookupAL_insertAL]
      by_cases hnm : n = m
      · right; simp [hnm]
      · simp only [hnm, if_false]
        rcases hn with hn | hn
        · simp only [List.map_cons, List.mem_cons] at hn
          rcases hn with hn | hn
          · exact absurd (hn.trans hm) hnm
          · exact Or.inl hn
        · exact Or.inr hn
    cases p with
    | req m =>
      simp only [bindParams.go] at h
      cases ha : args[i]? with
      | none => simp [ha] at h
      | some v => simp only [ha] at h; exact key m v rfl h
    | opt m => simp only [bindParams.go] at h; exact key m _ rfl h
    | rest m => simp only [bindParams.go] at h; exact key m _ rfl h

/-- … and binds every parameter name -/
theorem bindParams_binds (ps : List LArg) (args : List Value) (pf : Frame) (n : String)
    (h : bindParams ps args = .ok pf) (hn : n ∈ ps.map LArg.name) : n ∈ pf.map Prod.fst :=
  lookupAL_ne_none_mem n pf (bindParams_go_binds args n ps 0 [] pf h (Or.inl hn))

/-- a parameter is resolved in the innermost frame, alike for both functions -/
theorem envGet_callEnv_param (sA sB : ES) (idA idB : Nat) (scope scope' : Frame) (thisA thisB : Value)
    (pf : Frame) (n : String) (hp : n ∈ pf.map Prod.fst) :
    envGet (callEnvOf sA idA scope thisA pf) n = envGet (callEnvOf sB idB scope' thisB pf) n := by
  simp only [callEnvOf]
  rw [envGet_cons', envGet_cons', lookupAL_foldl_insert_congr n pf _ _ (Or.inr hp)]
  cases hl : lookupAL n (List.foldl (fun f kv => insertAL kv.1 kv.2 f) _ pf) with
  | some v => rfl
  | none => exact absurd hl (lookupAL_foldl_insert_mem n pf _ hp)

theorem lookupAL_selfFrame_none (s : ES) (id : Nat) (scp : Frame) (this : Value) (n : String)
    (hne : nameOf s.names id ≠ some n) :
    lookupAL n (match nameOf s.names id with
      | some m => if (lookupAL m scp).isSome then [] else [(m, this)]
      | none => ([] : Frame)) = none := by
  cases hm : nameOf s.names id with
  | none => rfl
  | some m =>
    dsimp only
    split
    · rfl
    · have : m ≠ n := fun e => hne (by rw [hm, e])
      simp [lookupAL, this]

/-- a name that is neither a parameter, nor captured, nor a display name is resolved by the
    callers (and `inputs` by the copy in the call frame) -/
theorem envGet_callEnv_other (sA sB : ES) (idA idB : Nat) (scope : Frame) (thisA thisB : Value)
    (pf : Frame) (n : String) (hp : n ∉ pf.map Prod.fst)
    (hnA : nameOf sA.names idA ≠ some n) (hnB : nameOf sB.names idB ≠ some n)
    (hin : envGet sA.env "inputs" = envGet sB.env "inputs")
    (hsc : lookupAL n scope = none) (henv : envGet sA.env n = envGet sB.env n) :
    envGet (callEnvOf sA idA scope thisA pf) n = envGet (callEnvOf sB idB [] thisB pf) n := by
  simp only [callEnvOf]
  rw [envGet_cons', envGet_cons', lookupAL_foldl_insert_not_mem n pf _ hp,
    lookupAL_foldl_insert_not_mem n pf _ hp, ← hin]
  have hA := lookupAL_selfFrame_none sA idA scope thisA n hnA
  have hB := lookupAL_selfFrame_none sB idB [] thisB n hnB
  have hpar : envGet (if scope.isEmpty then sA.env else scope :: sA.env) n =
      envGet (if ([] : Frame).isEmpty then sB.env else [] :: sB.env) n := by
    cases scope with
    | nil => simpa using henv
    | cons kv r =>
      simp only [List.isEmpty_cons, Bool.false_eq_true, if_false, List.isEmpty_nil, if_true]
      rw [envGet_cons', hsc]; exact henv
  cases hi : envGet sA.env "inputs" with
  | none => dsimp only; rw [hA, hB]; exact hpar
  | some v =>
    dsimp only
    rw [lookupAL_insertAL, lookupAL_insertAL, hA, hB]
    by_cases h : n = "inputs"
    · simp [h]
    · simp only [h, if_false]; exact hpar

/-- CLOSED AFTER CAPTURE ⇒ `Rel`: every name free in the body is a parameter, a captured
    name, or resolved alike by the two callers (built-ins, typically) and not the display
    name of either function; `inputs` is the same for both callers -/
theorem rel_of_closed (q : F64) (K : Nat) (ps : List LArg) (body : Expr) (sc : Scope) (scope : Frame)
    (idA idB : Nat) (thisA thisB : Value) (args : List Value) (pf : Frame) (sA sB : ES)
    (himg : ScopeImage q K ps sc scope)
    (hfree : ∀ n, FreeIn n body → n ∉ ps.map LArg.name → lookupAL n sc = none →
      envGet sA.env n = envGet sB.env n ∧ nameOf sA.names idA ≠ some n ∧ nameOf sB.names idB ≠ some n)
    (hin : envGet sA.env "inputs" = envGet sB.env "inputs" ∧
      nameOf sA.names idA ≠ some "inputs" ∧ nameOf sB.names idB ≠ some "inputs")
    (hb : bindParams ps args = .ok pf) :
    Rel q K (fun n => FreeIn n body) sc (callEnvOf sA idA scope thisA pf) (callEnvOf sB idB [] thisB pf) := by
  have hinsc : lookupAL "inputs" sc = none := by
    cases h : lookupAL "inputs" sc with
    | none => rfl
    | some sv => exact absurd rfl (himg.img _ sv h).2.2.2.2.2
  refine ⟨fun n sv hn => ?_, fun n hN hn => ?_, hinsc, ?_⟩
  · obtain ⟨h1, h2, h3, h4, h5, h6⟩ := himg.img n sv hn
    refine ⟨h1, h2, ?_, h4⟩
    have hnpf : n ∉ pf.map Prod.fst := fun hm => h5 (bindParams_keys ps args pf n hb hm)
    have hne : scope.isEmpty = false := by
      cases scope with
      | nil => simp [lookupAL] at h3
      | cons _ _ => rfl
    have hself : lookupAL n (match nameOf sA.names idA with
        | some m => if (lookupAL m scope).isSome then [] else [(m, thisA)]
        | none => ([] : Frame)) = none := by
      cases hm : nameOf sA.names idA with
      | none => rfl
      | some m =>
        dsimp only
        split
        · rfl
        · rename_i hms
          have : m ≠ n := fun e => hms (by rw [e, h3]; rfl)
          simp [lookupAL, this]
    simp only [callEnvOf, hne, Bool.false_eq_true, if_false]
    rw [envGet_cons', lookupAL_foldl_insert_not_mem n pf _ hnpf]
    cases envGet sA.env "inputs" with
    | none => dsimp only; rw [hself]; simp only [envGet_cons', h3]
    | some v =>
      dsimp only
      rw [lookupAL_insertAL]
      simp only [h6, if_false, hself, envGet_cons', h3]
  · by_cases hp : n ∈ pf.map Prod.fst
    · exact envGet_callEnv_param sA sB idA idB scope [] thisA thisB pf n hp
    · have hnp : n ∉ ps.map LArg.name := fun h => hp (bindParams_binds ps args pf n hb h)
      obtain ⟨h1, h2, h3⟩ := hfree n hN hnp hn
      exact envGet_callEnv_other sA sB idA idB scope thisA thisB pf n hp h2 h3 hin.1 (himg.dom n hn) h1
  · by_cases hp : "inputs" ∈ pf.map Prod.fst
    · exact envGet_callEnv_param sA sB idA idB scope [] thisA thisB pf _ hp
    · exact envGet_callEnv_other sA sB idA idB scope thisA thisB pf _ hp hin.2.1 hin.2.2 hin.1
        (himg.dom _ hinsc) hin.1

/-! #### the serialised image of a captured scope (`valueToSV` = `SerializableValue::from_value`) -/

mutual
theorem isLit_noLambda : ∀ (v : SV), isLit v = true → noLambda v = true
  | .num _, _ | .bool _, _ | .null, _ | .str _, _ | .builtin _, _ => rfl
  | .lambda _ _, h => by simp [isLit] at h
  | .list xs, h => by simp only [isLit] at h; simp only [noLambda]; exact isLitList_noLambda xs h
  | .record kvs, h => by
    simp only [isLit, Bool.and_eq_true] at h; simp only [noLambda]; exact isLitRec_noLambda kvs h.2
theorem isLitList_noLambda : ∀ (xs : List SV), isLitList xs = true → noLambdaList xs = true
  | [], _ => rfl
  | x :: xs, h => by
    simp only [isLitList, Bool.and_eq_true] at h
    simp only [noLambdaList, Bool.and_eq_true]
    exact ⟨isLit_noLambda x h.1, isLitList_noLambda xs h.2⟩
theorem isLitRec_noLambda : ∀ (kvs : List (String × SV)), isLitRec kvs = true → noLambdaRec kvs = true
  | [], _ => rfl
  | (k, v) :: r, h => by
    simp only [isLitRec, Bool.and_eq_true] at h
    simp only [noLambdaRec, Bool.and_eq_true]
    exact ⟨isLit_noLambda v h.1, isLitRec_noLambda r h.2⟩
end

mutual
/-- `from_captured_value` is injective on data: a function-free image determines the value -/
theorem capturedToSV_inv : ∀ (v : Value) (sv : SV), capturedToSV v = some sv → noLambda sv = true →
    v = svToValue sv
  | .num x, sv, h, _ => by simp only [capturedToSV, Option.some.injEq] at h; subst h; rfl
  | .bool x, sv, h, _ => by simp only [capturedToSV, Option.some.injEq] at h; subst h; rfl
  | .null, sv, h, _ => by simp only [capturedToSV, Option.some.injEq] at h; subst h; rfl
  | .str x, sv, h, _ => by simp only [capturedToSV, Option.some.injEq] at h; subst h; rfl
  | .builtin x, sv, h, _ => by simp only [capturedToSV, Option.some.injEq] at h; subst h; rfl
  | .spread x, sv, h, _ => by simp [capturedToSV] at h
  | .lambda _ _ _ sc, sv, h, hn => by
    simp only [capturedToSV] at h
    split at h
    · simp only [Option.some.injEq] at h; subst h; simp [noLambda] at hn
    · cases h
  | .list xs, sv, h, hn => by
    simp only [capturedToSV] at h
    cases hr : capturedsToSV xs with
    | none => simp [hr] at h
    | some l =>
      simp only [hr, Option.map_some, Option.some.injEq] at h; subst h
      simp only [noLambda] at hn
      simp only [svToValue, capturedsToSV_inv xs l hr hn]
  | .record r, sv, h, hn => by
    simp only [capturedToSV] at h
    cases hr : capturedRecToSV r with
    | none => simp [hr] at h
    | some l =>
      simp only [hr, Option.map_some, Option.some.injEq] at h; subst h
      simp only [noLambda] at hn
      simp only [svToValue, capturedRecToSV_inv r l hr hn]
theorem capturedsToSV_inv : ∀ (xs : List Value) (l : List SV), capturedsToSV xs = some l →
    noLambdaList l = true → xs = svListToValue l
  | [], l, h, _ => by simp only [capturedsToSV, Option.some.injEq] at h; subst h; rfl
  | x :: xs, l, h, hn => by
    simp only [capturedsToSV] at h
    cases h1 : capturedToSV x with
    | none => simp [h1] at h
    | some y =>
      cases h2 : capturedsToSV xs with
      | none => simp [h1, h2] at h
      | some ys =>
        simp only [h1, h2, Option.some.injEq] at h; subst h
        simp only [noLambdaList, Bool.and_eq_true] at hn
        simp only [svListToValue, capturedToSV_inv x y h1 hn.1, capturedsToSV_inv xs ys h2 hn.2]
theorem capturedRecToSV_inv : ∀ (r : List (String × Value)) (l : List (String × SV)), capturedRecToSV r = some l →
    noLambdaRec l = true → r = svRecToValue l
  | [], l, h, _ => by simp only [capturedRecToSV, Option.some.injEq] at h; subst h; rfl
  | (k, x) :: r, l, h, hn => by
    simp only [capturedRecToSV] at h
    cases h1 : capturedToSV x with
    | none => simp [h1] at h
    | some y =>
      cases h2 : capturedRecToSV r with
      | none => simp [h1, h2] at h
      | some ys =>
        simp only [h1, h2, Option.some.injEq] at h; subst h
        simp only [noLambdaRec, Bool.and_eq_true] at hn
        simp only [svRecToValue, capturedToSV_inv x y h1 hn.1, capturedRecToSV_inv r ys h2 hn.2]
end

/-- lookups in a captured scope and in its image correspond -/
theorem capturedRecToSV_lookup (n : String) : ∀ (r : List (String × Value)) (l : List (String × SV)),
    capturedRecToSV r = some l →
    (lookupAL n r = none ∧ lookupAL n l = none) ∨
    (∃ v sv, lookupAL n r = some v ∧ lookupAL n l = some sv ∧ capturedToSV v = some sv)
  | [], l, h => by simp only [capturedRecToSV, Option.some.injEq] at h; subst h; exact Or.inl ⟨rfl, rfl⟩
  | (k, x) :: r, l, h => by
    simp only [capturedRecToSV] at h
    cases h1 : capturedToSV x with
    | none => simp [h1] at h
    | some y =>
      cases h2 : capturedRecToSV r with
      | none => simp [h1, h2] at h
      | some ys =>
        simp only [h1, h2, Option.some.injEq] at h; subst h
        by_cases hk : k = n
        · exact Or.inr ⟨x, y, by simp [lookupAL, hk], by simp [lookupAL, hk], h1⟩
        · simp only [lookupAL, hk, if_false]
          exact capturedRecToSV_lookup n r ys h2

/-- the image `from_captured_value` computes of a captured scope of data values is a `ScopeImage` -/
theorem scopeImage_of_captured (q : F64) (K : Nat) (ps : List LArg) (sc : Scope) (scope : Frame)
    (h : capturedRecToSV scope = some sc)
    (hv : ∀ n sv, lookupAL n sc = some sv →
      isLit sv = true ∧ litFuel sv ≤ K ∧ n ∉ Gen.specialIdents ∧ n ∉ ps.map LArg.name ∧ n ≠ "inputs") :
    ScopeImage q K ps sc scope := by
  refine ⟨fun n sv hn => ?_, fun n hn => ?_⟩
  · obtain ⟨h1, h2, h3, h4, h5⟩ := hv n sv hn
    refine ⟨isLit_noLambda sv h1, h2, ?_, h3, h4, h5⟩
    rcases capturedRecToSV_lookup n scope sc h with ⟨_, hl⟩ | ⟨v, sv', hr, hl, hvs⟩
    · rw [hn] at hl; cases hl
    · rw [hn] at hl
      cases hl
      rw [hr, capturedToSV_inv v sv hvs (isLit_noLambda sv h1), svToValueN_lit q sv h1]
  · rcases capturedRecToSV_lookup n scope sc h with ⟨hr, _⟩ | ⟨v, sv', _, hl, _⟩
    · exact hr
    · rw [hn] at hl; cases hl

/-! ### (E) the reload side: `extend_lambda_body` -/

/-- the tree the parser builds for the text `(args) => <flat text of b>`: a lambda body is
    parsed without `via` / `into` / `where` (and what follows them at that level), so the
    lambda ends up as the leftmost operand of the left spine as far as
    `lambdaBodyNeedsParens` says the body is exposed -/
def graftChain (args : List LArg) : Expr → Expr
  | .bin op l r =>
    if lambdaBodyNeedsParens (.bin op l r) then .bin op (graftChain args l) r
    else .lambda args (.bin op l r)
  | e => .lambda args e

/-- the lambda pushed all the way down the left spine of binary operators -/
def graft (args : List LArg) : Expr → Expr
  | .bin op l r => .bin op (graft args l) r
  | e => .lambda args e

theorem extendLambdaBody_graft (args : List LArg) : ∀ (b : Expr),
    extendLambdaBody (graft args b) = .lambda args b
  | .bin op l r => by
    simp only [graft, extendLambdaBody, extendLambdaBody_graft args l]
  | .num _ | .str _ | .bool _ | .null | .ident _ | .inref _ | .builtin _ | .list _ | .record _
  | .lambda _ _ | .cond _ _ _ | .doBlock _ _ | .assign _ _ | .output _ | .call _ _
  | .access _ _ | .dot _ _ | .un _ _ | .fact _ | .spread _ => by
    simp [graft, extendLambdaBody]

theorem extendLambdaBody_graftChain (args : List LArg) : ∀ (b : Expr),
    extendLambdaBody (graftChain args b) = .lambda args b
  | .bin op l r => by
    simp only [graftChain]
    split
    · simp only [extendLambdaBody, extendLambdaBody_graftChain args l]
    · simp [extendLambdaBody]
  | .num _ | .str _ | .bool _ | .null | .ident _ | .inref _ | .builtin _ | .list _ | .record _
  | .lambda _ _ | .cond _ _ _ | .doBlock _ _ | .assign _ _ | .output _ | .call _ _
  | .access _ _ | .dot _ _ | .un _ _ | .fact _ | .spread _ => by
    simp [graftChain, extendLambdaBody]

theorem parseFunctionSource_graft (args : List LArg) (b : Expr) (rest : List Expr) :
    parseFunctionSource (graft args b :: rest) = some (args, exprToSource b) := by
  simp only [parseFunctionSource, extendLambdaBody_graft]

theorem parseFunctionSource_graftChain (args : List LArg) (b : Expr) (rest : List Expr) :
    parseFunctionSource (graftChain args b :: rest) = some (args, exprToSource b) := by
  simp only [parseFunctionSource, extendLambdaBody_graftChain]

/-- no built-in name starts with `(` (whole generated table) -/
theorem fromIdent_no_paren : ∀ k ∈ Gen.fromIdent.map Prod.fst, k.toList.head? ≠ some '(' := by
  decide +kernel

/-- the source text of a function is never mistaken for a built-in name by `from_json` -/
theorem lambdaSource_not_builtin (args : List LArg) (t : String) :
    isBuiltinName (lambdaSource args t) = false := by
  unfold isBuiltinName
  cases h : lookupAL (lambdaSource args t) Gen.fromIdent with
  | none => rfl
  | some v =>
    have hm := lookupAL_ne_none_mem _ Gen.fromIdent (by rw [h]; simp)
    have := fromIdent_no_paren _ hm
    simp [lambdaSource] at this

/-! ### the full statements (not proved) -/

mutual
/-- no assignment except as a direct statement of a do-block (hereditarily, also inside
    nested function bodies).  An assignment elsewhere in a function body binds its name in
    the call frame at run time, which the emitter does not see: `nested_assignment_breaks_reload`
    in Props/C05.lean. -/
def noNestedAssign : Expr → Bool
  | .assign _ _ => false
  | .lambda _ body => noNestedAssign body
  | .bin _ l r => noNestedAssign l && noNestedAssign r
  | .un _ e => noNestedAssign e
  | .fact e => noNestedAssign e
  | .spread e => noNestedAssign e
  | .output e => noNestedAssign e
  | .call f args => noNestedAssign f && nnaList args
  | .access e i => noNestedAssign e && noNestedAssign i
  | .dot e _ => noNestedAssign e
  | .cond c a b => noNestedAssign c && noNestedAssign a && noNestedAssign b
  | .list items => nnaItems items
  | .record es => nnaEntries es
  | .doBlock stmts ret => nnaStmts stmts && nnaStmt ret
  | _ => true
def nnaList : List Expr → Bool
  | [] => true
  | e :: es => noNestedAssign e && nnaList es
def nnaItems : List Item → Bool
  | [] => true
  | .mk _ e _ :: is => noNestedAssign e && nnaItems is
def nnaStmt : Item → Bool
  | .mk _ (.assign _ v) _ => noNestedAssign v
  | .mk _ e _ => noNestedAssign e
def nnaStmts : List Item → Bool
  | [] => true
  | i :: is => nnaStmt i && nnaStmts is
def nnaEntries : List Entry → Bool
  | [] => true
  | .mk _ k v _ :: es => nnaKey k && noNestedAssign v && nnaEntries es
def nnaKey : Key → Bool
  | .dyn e => noNestedAssign e
  | .spread e => noNestedAssign e
  | _ => true
end

end Emit
end Blots
