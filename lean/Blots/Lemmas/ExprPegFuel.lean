import Blots.Model.ExprPeg
import Blots.Lemmas.IdentLemmas
/-
  Fuel lemmas for the PEG recogniser of `Blots/Model/ExprPeg.lean` (C10, operator fragment):
    * the result of `exprR` / `tailR` / `operandR` does not depend on the fuel once the fuel is
      enough (`*_mono`),
    * every successful step consumes input (`*_length`),
    * the fuel `fuelFor cs = 2 * cs.length + 2` the driver passes is always enough
      (`fuel_suffices`, `exprR_fuel_suffices`, `exprItems_of_exprR`).
-/
namespace Blots.ExprPeg
open Blots.Ident

/-! ### leaf recognisers consume input -/

theorem lit_length {s cs r : List Char} (h : lit s cs = some r) :
    r.length + s.length = cs.length := by
  rw [lit_eq_some.mp h, List.length_append]; omega

theorem firstRule_some {L : List (String × List Char)} {cs : List Char} {rule : String}
    {r : List Char} (h : firstRule L cs = some (rule, r)) : ∃ s, (rule, s) ∈ L ∧ cs = s ++ r := by
  induction L with
  | nil => simp [firstRule] at h
  | cons a L ih =>
    obtain ⟨rl, s⟩ := a
    simp only [firstRule] at h
    cases hl : lit s cs with
    | some r' =>
      rw [hl] at h
      simp only [Option.some.injEq, Prod.mk.injEq] at h
      obtain ⟨rfl, rfl⟩ := h
      exact ⟨s, List.mem_cons_self, lit_eq_some.mp hl⟩
    | none =>
      rw [hl] at h
      obtain ⟨s', hs', he⟩ := ih h
      exact ⟨s', List.mem_cons_of_mem _ hs', he⟩

/-- every literal of the table is nonempty -/
def litsNonempty (L : List (String × List Char)) : Bool := L.all fun x => !x.2.isEmpty

theorem firstRule_length {L : List (String × List Char)} (hL : litsNonempty L = true)
    {cs : List Char} {rule : String} {r : List Char} (h : firstRule L cs = some (rule, r)) :
    r.length < cs.length := by
  obtain ⟨s, hs, he⟩ := firstRule_some h
  simp only [litsNonempty, List.all_eq_true] at hL
  have := hL _ hs
  cases s with
  | nil => simp at this
  | cons a s => rw [he]; simp only [List.cons_append, List.length_cons, List.length_append]; omega

theorem infixLits_nonempty : litsNonempty infixLits = true := by decide +kernel
theorem naturalLits_nonempty : litsNonempty naturalLits = true := by decide +kernel
theorem prefixLits_nonempty : litsNonempty prefixLits = true := by decide +kernel
theorem naturalPrefixLits_nonempty : litsNonempty naturalPrefixLits = true := by decide +kernel
theorem postfixLits_nonempty : litsNonempty postfixLits = true := by decide +kernel

theorem star_length {e : List Char → Option (List Char)}
    (he : ∀ cs r, e cs = some r → r.length ≤ cs.length) (n : Nat) (cs : List Char) :
    (star e n cs).length ≤ cs.length := by
  induction n generalizing cs with
  | zero => simp [star]
  | succ n ih =>
    simp only [star]
    cases h : e cs with
    | none => exact Nat.le_refl _
    | some r => exact Nat.le_trans (ih r) (he cs r h)

theorem plus_length {p : Char → Bool} {cs r : List Char} (h : plus p cs = some r) :
    r.length < cs.length := by
  cases cs with
  | nil => simp [plus] at h
  | cons c cs =>
    simp only [plus] at h
    split at h
    · simp only [Option.some.injEq] at h
      subst h
      have := dropWhile_length_le p cs
      simp only [List.length_cons]; omega
    · cases h

theorem orElse_length_lt {a b : List Char → Option (List Char)}
    (ha : ∀ cs r, a cs = some r → r.length < cs.length)
    (hb : ∀ cs r, b cs = some r → r.length < cs.length) {cs r : List Char}
    (h : orElse a b cs = some r) : r.length < cs.length := by
  simp only [orElse] at h
  cases hac : a cs with
  | some r' => rw [hac] at h; simp only [Option.some.injEq] at h; subst h; exact ha _ _ hac
  | none => rw [hac] at h; exact hb _ _ h

theorem whitespace_length {cs r : List Char} (h : whitespace cs = some r) :
    r.length < cs.length := by
  cases cs with
  | nil => simp [whitespace] at h
  | cons c cs =>
    simp only [whitespace] at h
    split at h
    · simp only [Option.some.injEq] at h; subst h; simp
    · cases h

theorem plainNewline_length {cs r : List Char} (h : plainNewline cs = some r) :
    r.length < cs.length := by
  refine orElse_length_lt ?_ ?_ h
  · intro cs r h; have := lit_length h; simp only [List.length_cons, List.length_nil] at this; omega
  · intro cs r h; have := lit_length h; simp only [List.length_cons, List.length_nil] at this; omega

theorem commentBody_length (cs : List Char) : (commentBody cs).length ≤ cs.length := by
  induction cs with
  | nil => simp [commentBody]
  | cons c r ih =>
    simp only [commentBody]
    split
    · exact Nat.le_refl _
    · simp only [List.length_cons]; omega

theorem newline_length {cs r : List Char} (h : newline cs = some r) : r.length < cs.length := by
  simp only [newline, inlineComment] at h
  cases hl : lit ['/', '/'] cs with
  | none =>
    rw [hl] at h
    exact plainNewline_length h
  | some r0 =>
    rw [hl] at h
    simp only [Option.map_some] at h
    have h1 := plainNewline_length h
    have h2 := commentBody_length r0
    have h3 := lit_length hl
    omega

theorem layoutAtom_length {cs r : List Char} (h : layoutAtom cs = some r) :
    r.length < cs.length :=
  orElse_length_lt (fun _ _ => whitespace_length) (fun _ _ => newline_length) h

theorem layoutStar_length (cs : List Char) : (layoutStar cs).length ≤ cs.length :=
  star_length (fun _ _ h => Nat.le_of_lt (layoutAtom_length h)) _ _

theorem layoutPlus_length {cs r : List Char} (h : layoutPlus cs = some r) :
    r.length < cs.length := by
  simp only [layoutPlus] at h
  cases ha : layoutAtom cs with
  | none => rw [ha] at h; cases h
  | some r0 =>
    rw [ha] at h
    simp only [Option.map_some, Option.some.injEq] at h
    subst h
    exact Nat.lt_of_le_of_lt (layoutStar_length r0) (layoutAtom_length ha)

theorem wsPlus_length {cs r : List Char} (h : wsPlus cs = some r) : r.length < cs.length :=
  plus_length h

/-! ### operators -/

theorem infixUsage_length {cs : List Char} {rule : String} {r : List Char}
    (h : infixUsage cs = some (rule, r)) : r.length < cs.length := by
  simp only [infixUsage] at h
  split at h
  · -- first alternative
    rename_i x hx
    simp only [Option.some.injEq] at h
    subst h
    split at hx
    · rename_i r0 hr0
      split at hx
      · rename_i rule1 r1 hr1
        cases hw : wsPlus r1 with
        | none => rw [hw] at hx; cases hx
        | some r2 =>
          rw [hw] at hx
          simp only [Option.map_some, Option.some.injEq, Prod.mk.injEq] at hx
          obtain ⟨_, rfl⟩ := hx
          have h1 := layoutPlus_length hr0
          have h2 := firstRule_length naturalLits_nonempty hr1
          have h3 := wsPlus_length hw
          omega
      · cases hx
    · cases hx
  · split at h
    · rename_i rule1 r1 hr1
      simp only [Option.some.injEq, Prod.mk.injEq] at h
      obtain ⟨_, rfl⟩ := h
      have h1 := firstRule_length infixLits_nonempty hr1
      have h2 := layoutStar_length cs
      have h3 := layoutStar_length r1
      omega
    · cases h

theorem prefixUsage_length {cs : List Char} {it : PItem} {r : List Char}
    (h : prefixUsage cs = some (it, r)) : r.length < cs.length := by
  simp only [prefixUsage] at h
  split at h
  · rename_i rule1 r1 hx
    simp only [Option.some.injEq, Prod.mk.injEq] at h
    obtain ⟨_, rfl⟩ := h
    split at hx
    · rename_i rule2 r2 hr2
      cases hw : wsPlus r2 with
      | none => rw [hw] at hx; cases hx
      | some r3 =>
        rw [hw] at hx
        simp only [Option.map_some, Option.some.injEq, Prod.mk.injEq] at hx
        obtain ⟨_, rfl⟩ := hx
        have h2 := firstRule_length naturalPrefixLits_nonempty hr2
        have h3 := wsPlus_length hw
        omega
    · cases hx
  · cases hf : firstRule prefixLits cs with
    | none => rw [hf] at h; cases h
    | some x =>
      obtain ⟨rule1, r1⟩ := x
      rw [hf] at h
      simp only [Option.map_some, Option.some.injEq, Prod.mk.injEq] at h
      obtain ⟨_, rfl⟩ := h
      exact firstRule_length prefixLits_nonempty hf

theorem postfixOp_length {cs : List Char} {it : PItem} {r : List Char}
    (h : postfixOp cs = some (it, r)) : r.length < cs.length := by
  simp only [postfixOp] at h
  cases hf : firstRule postfixLits cs with
  | none => rw [hf] at h; cases h
  | some x =>
    obtain ⟨rule1, r1⟩ := x
    rw [hf] at h
    simp only [Option.map_some, Option.some.injEq, Prod.mk.injEq] at h
    obtain ⟨_, rfl⟩ := h
    exact firstRule_length postfixLits_nonempty hf

theorem starItems_length {e : List Char → Option (PItem × List Char)}
    (he : ∀ cs it r, e cs = some (it, r) → r.length ≤ cs.length) (n : Nat) (cs : List Char) :
    (starItems e n cs).2.length ≤ cs.length := by
  induction n generalizing cs with
  | zero => simp [starItems]
  | succ n ih =>
    simp only [starItems]
    cases h : e cs with
    | none => exact Nat.le_refl _
    | some x =>
      obtain ⟨it, r⟩ := x
      exact Nat.le_trans (ih r) (he cs it r h)

theorem prefixStar_length (cs : List Char) : (prefixStar cs).2.length ≤ cs.length :=
  starItems_length (fun _ _ _ h => Nat.le_of_lt (prefixUsage_length h)) _ _

theorem postfixStar_length (cs : List Char) : (postfixStar cs).2.length ≤ cs.length :=
  starItems_length (fun _ _ _ h => Nat.le_of_lt (postfixOp_length h)) _ _

/-! ### terms -/

theorem keyword_length {L : List (List Char)} (hL : ∀ s ∈ L, s ≠ []) {cs s r : List Char}
    (h : keyword L cs = some (s, r)) : r.length < cs.length := by
  simp only [keyword] at h
  split at h
  · rename_i s1 r1 hf
    split at h
    · simp only [Option.some.injEq, Prod.mk.injEq] at h
      obtain ⟨rfl, rfl⟩ := h
      obtain ⟨hs, he⟩ := firstLit_some hf
      have := hL _ hs
      cases s1 with
      | nil => exact absurd rfl this
      | cons a s1 =>
        rw [he]; simp only [List.cons_append, List.length_cons, List.length_append]; omega
    · cases h
  · cases h

theorem boolRule_length {cs : List Char} {b : Bool} {r : List Char}
    (h : boolRule cs = some (b, r)) : r.length < cs.length := by
  simp only [boolRule] at h
  cases hk : keyword [trueLit, falseLit] cs with
  | none => rw [hk] at h; cases h
  | some x =>
    obtain ⟨s, r1⟩ := x
    rw [hk] at h
    simp only [Option.map_some, Option.some.injEq, Prod.mk.injEq] at h
    obtain ⟨_, rfl⟩ := h
    exact keyword_length (by decide) hk

theorem nullRule_length {cs r : List Char} (h : nullRule cs = some r) : r.length < cs.length := by
  simp only [nullRule] at h
  cases hk : keyword [nullLit] cs with
  | none => rw [hk] at h; cases h
  | some x =>
    obtain ⟨s, r1⟩ := x
    rw [hk] at h
    simp only [Option.map_some, Option.some.injEq] at h
    subst h
    exact keyword_length (by decide) hk

theorem identRest_length {cs r : List Char} (h : identRest cs = some r) : r.length < cs.length :=
  orElse_length_lt (fun _ _ => plus_length)
    (fun _ _ => orElse_length_lt (fun _ _ => plus_length) (fun _ _ => plus_length)) h

theorem nameBody_length {cs r : List Char} (h : nameBody cs = some r) : r.length < cs.length := by
  simp only [nameBody] at h
  split at h
  · rename_i r0 hp
    simp only [Option.some.injEq] at h
    subst h
    exact Nat.lt_of_le_of_lt
      (star_length (fun _ _ h => Nat.le_of_lt (identRest_length h)) _ _) (plus_length hp)
  · cases h

theorem identifier_length {cs r : List Char} (h : identifier cs = some r) :
    r.length < cs.length := by
  simp only [identifier] at h
  split at h
  · cases h
  · exact nameBody_length h

theorem termAtom_length {cs : List Char} {e : Expr} {r : List Char}
    (h : termAtom cs = some (e, r)) : r.length < cs.length := by
  simp only [termAtom] at h
  split at h
  · rename_i b r1 hb
    simp only [Option.some.injEq, Prod.mk.injEq] at h
    obtain ⟨_, rfl⟩ := h
    exact boolRule_length hb
  · split at h
    · rename_i r1 hn
      simp only [Option.some.injEq, Prod.mk.injEq] at h
      obtain ⟨_, rfl⟩ := h
      exact nullRule_length hn
    · split at h
      · rename_i r1 hi
        simp only [Option.some.injEq, Prod.mk.injEq] at h
        obtain ⟨_, rfl⟩ := h
        exact identifier_length hi
      · split at h
        · rename_i r1 hd
          cases hv : NumText.literalValue (String.ofList (consumed cs r1)) with
          | none => rw [hv] at h; cases h
          | some v =>
            rw [hv] at h
            simp only [Option.map_some, Option.some.injEq, Prod.mk.injEq] at h
            obtain ⟨_, rfl⟩ := h
            exact plus_length hd
        · cases h

/-! ### one-step unfoldings -/

theorem exprR_succ (f : Nat) (cs : List Char) : exprR (f + 1) cs =
    match operandR f cs with
    | .ok (its, r) =>
      (match tailR f r with
       | .ok (more, r') => .ok (its ++ more, r')
       | .fail => .fail
       | .out => .out)
    | .fail => .fail
    | .out => .out := by
  rw [exprR]; rfl

theorem tailR_succ (f : Nat) (cs : List Char) : tailR (f + 1) cs =
    match infixUsage cs with
    | none => .ok ([], cs)
    | some (rule, r) =>
      match operandR f r with
      | .ok (its, r') =>
        (match tailR f r' with
         | .ok (more, r'') => .ok (.inf rule :: (its ++ more), r'')
         | .fail => .fail
         | .out => .out)
      | .fail => .ok ([], cs)
      | .out => .out := by
  rw [tailR]; rfl

theorem operandR_succ (f : Nat) (cs : List Char) : operandR (f + 1) cs =
    match termAtom (prefixStar cs).2 with
    | some (e, r1) =>
      .ok ((prefixStar cs).1 ++ .prim e :: (postfixStar r1).1, (postfixStar r1).2)
    | none =>
      match (prefixStar cs).2 with
      | '(' :: r1 =>
        (match exprR f (layoutStar r1) with
         | .ok (its, r2) =>
           (match layoutStar r2 with
            | ')' :: r3 =>
              (match prattParse its with
               | some e =>
                 .ok ((prefixStar cs).1 ++ .prim e :: (postfixStar r3).1, (postfixStar r3).2)
               | none => .fail)
            | _ => .fail)
         | .fail => .fail
         | .out => .out)
      | _ => .fail := by
  rw [operandR]; rfl

theorem exprR_zero (cs : List Char) : exprR 0 cs = .out := by rw [exprR]
theorem tailR_zero (cs : List Char) : tailR 0 cs = .out := by rw [tailR]
theorem operandR_zero (cs : List Char) : operandR 0 cs = .out := by rw [operandR]

/-! ### fuel monotonicity -/

/-- a result other than "fuel ran out" is the result with one more unit of fuel -/
theorem step (f : Nat) :
    (∀ cs, exprR f cs ≠ .out → exprR (f + 1) cs = exprR f cs) ∧
    (∀ cs, tailR f cs ≠ .out → tailR (f + 1) cs = tailR f cs) ∧
    (∀ cs, operandR f cs ≠ .out → operandR (f + 1) cs = operandR f cs) := by
  induction f with
  | zero =>
    refine ⟨?_, ?_, ?_⟩
    · intro cs h; exact absurd (exprR_zero cs) h
    · intro cs h; exact absurd (tailR_zero cs) h
    · intro cs h; exact absurd (operandR_zero cs) h
  | succ f ih =>
    obtain ⟨ihE, ihT, ihO⟩ := ih
    refine ⟨?_, ?_, ?_⟩
    · intro cs h
      rw [exprR_succ f] at h
      rw [exprR_succ (f + 1), exprR_succ f]
      cases hop : operandR f cs with
      | out => rw [hop] at h; exact absurd rfl h
      | fail => rw [ihO cs (by rw [hop]; exact fun h => nomatch h), hop]
      | ok x =>
        obtain ⟨its, r⟩ := x
        rw [ihO cs (by rw [hop]; exact fun h => nomatch h), hop]
        rw [hop] at h
        simp only at h ⊢
        cases ht : tailR f r with
        | out => rw [ht] at h; exact absurd rfl h
        | fail => rw [ihT r (by rw [ht]; exact fun h => nomatch h), ht]
        | ok y => rw [ihT r (by rw [ht]; exact fun h => nomatch h), ht]
    · intro cs h
      rw [tailR_succ f] at h
      rw [tailR_succ (f + 1), tailR_succ f]
      cases hi : infixUsage cs with
      | none => rfl
      | some x =>
        obtain ⟨rule, r0⟩ := x
        rw [hi] at h
        simp only at h ⊢
        cases hop : operandR f r0 with
        | out => rw [hop] at h; exact absurd rfl h
        | fail => rw [ihO r0 (by rw [hop]; exact fun h => nomatch h), hop]
        | ok x =>
          obtain ⟨its, r⟩ := x
          rw [ihO r0 (by rw [hop]; exact fun h => nomatch h), hop]
          rw [hop] at h
          simp only at h ⊢
          cases ht : tailR f r with
          | out => rw [ht] at h; exact absurd rfl h
          | fail => rw [ihT r (by rw [ht]; exact fun h => nomatch h), ht]
          | ok y => rw [ihT r (by rw [ht]; exact fun h => nomatch h), ht]
    · intro cs h
      rw [operandR_succ f] at h
      rw [operandR_succ (f + 1), operandR_succ f]
      split
      · rfl
      · split
        · rename_i r1 hp
          rw [hp] at h
          simp only at h
          cases he : exprR f (layoutStar r1) with
          | out => rw [he] at h; exact absurd rfl h
          | fail => rw [ihE _ (by rw [he]; exact fun h => nomatch h), he]
          | ok y => rw [ihE _ (by rw [he]; exact fun h => nomatch h), he]
        · rfl

theorem exprR_add {f : Nat} {cs : List Char} (h : exprR f cs ≠ .out) (k : Nat) :
    exprR (f + k) cs = exprR f cs := by
  induction k with
  | zero => rfl
  | succ k ih => rw [← Nat.add_assoc, (step (f + k)).1 cs (by rw [ih]; exact h), ih]

theorem tailR_add {f : Nat} {cs : List Char} (h : tailR f cs ≠ .out) (k : Nat) :
    tailR (f + k) cs = tailR f cs := by
  induction k with
  | zero => rfl
  | succ k ih => rw [← Nat.add_assoc, (step (f + k)).2.1 cs (by rw [ih]; exact h), ih]

theorem operandR_add {f : Nat} {cs : List Char} (h : operandR f cs ≠ .out) (k : Nat) :
    operandR (f + k) cs = operandR f cs := by
  induction k with
  | zero => rfl
  | succ k ih => rw [← Nat.add_assoc, (step (f + k)).2.2 cs (by rw [ih]; exact h), ih]

theorem exprR_mono {f f' : Nat} {cs : List Char} {x} (h : f ≤ f') (hx : exprR f cs = .ok x) :
    exprR f' cs = .ok x := by
  obtain ⟨k, rfl⟩ := Nat.exists_eq_add_of_le h
  rw [exprR_add (by rw [hx]; exact fun h => nomatch h), hx]

theorem tailR_mono {f f' : Nat} {cs : List Char} {x} (h : f ≤ f') (hx : tailR f cs = .ok x) :
    tailR f' cs = .ok x := by
  obtain ⟨k, rfl⟩ := Nat.exists_eq_add_of_le h
  rw [tailR_add (by rw [hx]; exact fun h => nomatch h), hx]

theorem operandR_mono {f f' : Nat} {cs : List Char} {x} (h : f ≤ f')
    (hx : operandR f cs = .ok x) : operandR f' cs = .ok x := by
  obtain ⟨k, rfl⟩ := Nat.exists_eq_add_of_le h
  rw [operandR_add (by rw [hx]; exact fun h => nomatch h), hx]

/-! ### progress -/

theorem lengths (f : Nat) :
    (∀ cs its r, exprR f cs = .ok (its, r) → r.length < cs.length) ∧
    (∀ cs its r, tailR f cs = .ok (its, r) → r.length ≤ cs.length) ∧
    (∀ cs its r, operandR f cs = .ok (its, r) → r.length < cs.length) := by
  induction f with
  | zero =>
    refine ⟨?_, ?_, ?_⟩
    · intro cs its r h; rw [exprR_zero] at h; cases h
    · intro cs its r h; rw [tailR_zero] at h; cases h
    · intro cs its r h; rw [operandR_zero] at h; cases h
  | succ f ih =>
    obtain ⟨ihE, ihT, ihO⟩ := ih
    refine ⟨?_, ?_, ?_⟩
    · intro cs its r h
      rw [exprR_succ] at h
      cases hop : operandR f cs with
      | out => rw [hop] at h; cases h
      | fail => rw [hop] at h; cases h
      | ok x =>
        obtain ⟨its1, r1⟩ := x
        rw [hop] at h
        simp only at h
        cases ht : tailR f r1 with
        | out => rw [ht] at h; cases h
        | fail => rw [ht] at h; cases h
        | ok y =>
          obtain ⟨its2, r2⟩ := y
          rw [ht] at h
          simp only [Res.ok.injEq, Prod.mk.injEq] at h
          obtain ⟨_, rfl⟩ := h
          have h1 := ihO _ _ _ hop
          have h2 := ihT _ _ _ ht
          omega
    · intro cs its r h
      rw [tailR_succ] at h
      cases hi : infixUsage cs with
      | none =>
        rw [hi] at h
        simp only [Res.ok.injEq, Prod.mk.injEq] at h
        obtain ⟨_, rfl⟩ := h
        exact Nat.le_refl _
      | some x =>
        obtain ⟨rule, r0⟩ := x
        rw [hi] at h
        simp only at h
        cases hop : operandR f r0 with
        | out => rw [hop] at h; cases h
        | fail =>
          rw [hop] at h
          simp only [Res.ok.injEq, Prod.mk.injEq] at h
          obtain ⟨_, rfl⟩ := h
          exact Nat.le_refl _
        | ok x =>
          obtain ⟨its1, r1⟩ := x
          rw [hop] at h
          simp only at h
          cases ht : tailR f r1 with
          | out => rw [ht] at h; cases h
          | fail => rw [ht] at h; cases h
          | ok y =>
            obtain ⟨its2, r2⟩ := y
            rw [ht] at h
            simp only [Res.ok.injEq, Prod.mk.injEq] at h
            obtain ⟨_, rfl⟩ := h
            have h0 := infixUsage_length hi
            have h1 := ihO _ _ _ hop
            have h2 := ihT _ _ _ ht
            omega
    · intro cs its r h
      rw [operandR_succ] at h
      have hpre := prefixStar_length cs
      split at h
      · rename_i e r1 hta
        simp only [Res.ok.injEq, Prod.mk.injEq] at h
        obtain ⟨_, rfl⟩ := h
        have h1 := termAtom_length hta
        have h2 := postfixStar_length r1
        omega
      · split at h
        · rename_i r1 hp
          rw [hp] at hpre
          simp only [List.length_cons] at hpre
          cases he : exprR f (layoutStar r1) with
          | out => rw [he] at h; cases h
          | fail => rw [he] at h; cases h
          | ok y =>
            obtain ⟨its2, r2⟩ := y
            rw [he] at h
            simp only at h
            split at h
            · rename_i r3 hl
              split at h
              · simp only [Res.ok.injEq, Prod.mk.injEq] at h
                obtain ⟨_, rfl⟩ := h
                have h1 := ihE _ _ _ he
                have h2 := layoutStar_length r1
                have h3 := layoutStar_length r2
                rw [hl] at h3
                simp only [List.length_cons] at h3
                have h4 := postfixStar_length r3
                omega
              · cases h
            · cases h
        · cases h

theorem operandR_length {f cs its r} (h : operandR f cs = .ok (its, r)) :
    r.length < cs.length := (lengths f).2.2 cs its r h

theorem tailR_length {f cs its r} (h : tailR f cs = .ok (its, r)) :
    r.length ≤ cs.length := (lengths f).2.1 cs its r h

theorem exprR_length {f cs its r} (h : exprR f cs = .ok (its, r)) :
    r.length < cs.length := (lengths f).1 cs its r h

/-! ### the driver's fuel suffices -/

theorem fuel_suffices (f : Nat) (cs : List Char) :
    (2 * cs.length + 2 ≤ f → exprR f cs ≠ .out) ∧
    (2 * cs.length + 1 ≤ f → operandR f cs ≠ .out) ∧
    (2 * cs.length + 1 ≤ f → tailR f cs ≠ .out) := by
  induction f generalizing cs with
  | zero =>
    refine ⟨?_, ?_, ?_⟩ <;> intro h <;> omega
  | succ f ih =>
    refine ⟨?_, ?_, ?_⟩
    · intro hf
      rw [exprR_succ]
      cases hop : operandR f cs with
      | out => exact absurd hop ((ih cs).2.1 (by omega))
      | fail => exact fun h => nomatch h
      | ok x =>
        obtain ⟨its, r⟩ := x
        simp only
        have hl := operandR_length hop
        cases ht : tailR f r with
        | out => exact absurd ht ((ih r).2.2 (by omega))
        | fail => exact fun h => nomatch h
        | ok y => exact fun h => nomatch h
    · intro hf
      rw [operandR_succ]
      have hpre := prefixStar_length cs
      split
      · exact fun h => nomatch h
      · split
        · rename_i r1 hp
          rw [hp] at hpre
          simp only [List.length_cons] at hpre
          have hl := layoutStar_length r1
          cases he : exprR f (layoutStar r1) with
          | out => exact absurd he ((ih _).1 (by omega))
          | fail => exact fun h => nomatch h
          | ok y =>
            obtain ⟨its2, r2⟩ := y
            simp only
            split
            · split
              · exact fun h => nomatch h
              · exact fun h => nomatch h
            · exact fun h => nomatch h
        · exact fun h => nomatch h
    · intro hf
      rw [tailR_succ]
      cases hi : infixUsage cs with
      | none => exact fun h => nomatch h
      | some x =>
        obtain ⟨rule, r0⟩ := x
        simp only
        have h0 := infixUsage_length hi
        cases hop : operandR f r0 with
        | out => exact absurd hop ((ih r0).2.1 (by omega))
        | fail => exact fun h => nomatch h
        | ok x =>
          obtain ⟨its, r⟩ := x
          simp only
          have hl := operandR_length hop
          cases ht : tailR f r with
          | out => exact absurd ht ((ih r).2.2 (by omega))
          | fail => exact fun h => nomatch h
          | ok y => exact fun h => nomatch h

theorem exprR_fuel_suffices {f : Nat} {cs : List Char} {x} (hx : exprR f cs = .ok x) :
    ∀ f', fuelFor cs ≤ f' → exprR f' cs = .ok x := by
  intro f' hf'
  have hne : exprR f' cs ≠ .out := (fuel_suffices f' cs).1 hf'
  rcases Nat.le_total f f' with hle | hle
  · exact exprR_mono hle hx
  · obtain ⟨k, rfl⟩ := Nat.exists_eq_add_of_le hle
    rw [exprR_add hne k] at hx
    exact hx

theorem exprItems_of_exprR {f : Nat} {cs : List Char} {x} (hx : exprR f cs = .ok x) :
    ∀ f', fuelFor cs ≤ f' → exprItems f' cs = some x := by
  intro f' hf'
  simp only [exprItems, exprR_fuel_suffices hx f' hf']

end Blots.ExprPeg
