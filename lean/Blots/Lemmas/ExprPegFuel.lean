import Blots.Model.ExprPeg
import Blots.Lemmas.IdentLemmas
/-
  Fuel lemmas for the PEG recogniser of `Blots/Model/ExprPeg.lean` (C10):
    * the result of `exprR` / `tailR` / `operandR` does not depend on the fuel once the fuel is
      enough (`*_mono`),
    * every successful step consumes input (`*_length`),
    * the fuel `fuelFor cs = 8 * cs.length + 8` the driver passes is always enough
      (`fuel_suffices`, `exprR_fuel_suffices`, `exprItems_of_exprR`).
-/
namespace Blots.ExprPeg
open Blots.Ident

/-! ### leaf recognisers consume input -/

theorem lit_length {s cs r : List Char} (h : lit s cs = some r) :
    r.length + s.length = cs.length := by
  rw [lit_eq_some.mp h, List.length_append]; omega

theorem firstRule_some {L : List (String × List Char)} {cs : List Char} {rule : String}
    {r : List Char} (h : firstRule L cs = some (rule, r)) : ∃ s, (rule, s) ∈ L ∧ cs = s ++ r := by
  induction L with
  | nil => simp [firstRule] at h
  | cons a L ih =>
    obtain ⟨rl, s⟩ := a
    simp only [firstRule] at h
    cases hl : lit s cs with
    | some r' =>
      rw [hl] at h
      simp only [Option.some.injEq, Prod.mk.injEq] at h
      obtain ⟨rfl, rfl⟩ := h
      exact ⟨s, List.mem_cons_self, lit_eq_some.mp hl⟩
    | none =>
      rw [hl] at h
      obtain ⟨s', hs', he⟩ := ih h
      exact ⟨s', List.mem_cons_of_mem _ hs', he⟩

/-- every literal of the table is nonempty -/
def litsNonempty (L : List (String × List Char)) : Bool := L.all fun x => !x.2.isEmpty

theorem firstRule_length {L : List (String × List Char)} (hL : litsNonempty L = true)
    {cs : List Char} {rule : String} {r : List Char} (h : firstRule L cs = some (rule, r)) :
    r.length < cs.length := by
  obtain ⟨s, hs, he⟩ := firstRule_some h
  simp only [litsNonempty, List.all_eq_true] at hL
  have := hL _ hs
  cases s with
  | nil => simp at this
  | cons a s => rw [he]; simp only [List.cons_append, List.length_cons, List.length_append]; omega

theorem infixLits_nonempty : litsNonempty infixLits = true := by decide +kernel
theorem naturalLits_nonempty : litsNonempty naturalLits = true := by decide +kernel
theorem prefixLits_nonempty : litsNonempty prefixLits = true := by decide +kernel
theorem naturalPrefixLits_nonempty : litsNonempty naturalPrefixLits = true := by decide +kernel
theorem postfixLits_nonempty : litsNonempty postfixLits = true := by decide +kernel

theorem star_length {e : List Char → Option (List Char)}
    (he : ∀ cs r, e cs = some r → r.length ≤ cs.length) (n : Nat) (cs : List Char) :
    (star e n cs).length ≤ cs.length := by
  induction n generalizing cs with
  | zero => simp [star]
  | succ n ih =>
    simp only [star]
    cases h : e cs with
    | none => exact Nat.le_refl _
    | some r => exact Nat.le_trans (ih r) (he cs r h)

theorem plus_length {p : Char → Bool} {cs r : List Char} (h : plus p cs = some r) :
    r.length < cs.length := by
  cases cs with
  | nil => simp [plus] at h
  | cons c cs =>
    simp only [plus] at h
    split at h
    · simp only [Option.some.injEq] at h
      subst h
      have := dropWhile_length_le p cs
      simp only [List.length_cons]; omega
    · cases h

theorem orElse_length_lt {a b : List Char → Option (List Char)}
    (ha : ∀ cs r, a cs = some r → r.length < cs.length)
    (hb : ∀ cs r, b cs = some r → r.length < cs.length) {cs r : List Char}
    (h : orElse a b cs = some r) : r.length < cs.length := by
  simp only [orElse] at h
  cases hac : a cs with
  | some r' => rw [hac] at h; simp only [Option.some.injEq] at h; subst h; exact ha _ _ hac
  | none => rw [hac] at h; exact hb _ _ h

theorem whitespace_length {cs r : List Char} (h : whitespace cs = some r) :
    r.length < cs.length := by
  cases cs with
  | nil => simp [whitespace] at h
  | cons c cs =>
    simp only [whitespace] at h
    split at h
    · simp only [Option.some.injEq] at h; subst h; simp
    · cases h

theorem plainNewline_length {cs r : List Char} (h : plainNewline cs = some r) :
    r.length < cs.length := by
  refine orElse_length_lt ?_ ?_ h
  · intro cs r h; have := lit_length h; simp only [List.length_cons, List.length_nil] at this; omega
  · intro cs r h; have := lit_length h; simp only [List.length_cons, List.length_nil] at this; omega

theorem commentBody_length (cs : List Char) : (commentBody cs).length ≤ cs.length := by
  induction cs with
  | nil => simp [commentBody]
  | cons c r ih =>
    simp only [commentBody]
    split
    · exact Nat.le_refl _
    · simp only [List.length_cons]; omega

theorem newline_length {cs r : List Char} (h : newline cs = some r) : r.length < cs.length := by
  simp only [newline, inlineComment] at h
  cases hl : lit ['/', '/'] cs with
  | none =>
    rw [hl] at h
    exact plainNewline_length h
  | some r0 =>
    rw [hl] at h
    simp only [Option.map_some] at h
    have h1 := plainNewline_length h
    have h2 := commentBody_length r0
    have h3 := lit_length hl
    omega

theorem layoutAtom_length {cs r : List Char} (h : layoutAtom cs = some r) :
    r.length < cs.length :=
  orElse_length_lt (fun _ _ => whitespace_length) (fun _ _ => newline_length) h

theorem layoutStar_length (cs : List Char) : (layoutStar cs).length ≤ cs.length :=
  star_length (fun _ _ h => Nat.le_of_lt (layoutAtom_length h)) _ _

theorem layoutPlus_length {cs r : List Char} (h : layoutPlus cs = some r) :
    r.length < cs.length := by
  simp only [layoutPlus] at h
  cases ha : layoutAtom cs with
  | none => rw [ha] at h; cases h
  | some r0 =>
    rw [ha] at h
    simp only [Option.map_some, Option.some.injEq] at h
    subst h
    exact Nat.lt_of_le_of_lt (layoutStar_length r0) (layoutAtom_length ha)

theorem wsPlus_length {cs r : List Char} (h : wsPlus cs = some r) : r.length < cs.length :=
  plus_length h

/-! ### operators -/

theorem lamNaturalLits_nonempty : litsNonempty lamNaturalLits = true := by decide +kernel

theorem infixUsage_length {lam : Bool} {cs : List Char} {rule : String} {r : List Char}
    (h : infixUsage lam cs = some (rule, r)) : r.length < cs.length := by
  simp only [infixUsage] at h
  split at h
  · -- first alternative
    rename_i x hx
    simp only [Option.some.injEq] at h
    subst h
    split at hx
    · rename_i r0 hr0
      split at hx
      · rename_i rule1 r1 hr1
        cases hw : wsPlus r1 with
        | none => rw [hw] at hx; cases hx
        | some r2 =>
          rw [hw] at hx
          simp only [Option.map_some, Option.some.injEq, Prod.mk.injEq] at hx
          obtain ⟨_, rfl⟩ := hx
          have h1 := layoutPlus_length hr0
          have h2 : r1.length < r0.length := by
            cases lam
            · exact firstRule_length naturalLits_nonempty hr1
            · exact firstRule_length lamNaturalLits_nonempty hr1
          have h3 := wsPlus_length hw
          omega
      · cases hx
    · cases hx
  · split at h
    · rename_i rule1 r1 hr1
      simp only [Option.some.injEq, Prod.mk.injEq] at h
      obtain ⟨_, rfl⟩ := h
      have h1 := firstRule_length infixLits_nonempty hr1
      have h2 := layoutStar_length cs
      have h3 := layoutStar_length r1
      omega
    · cases h

theorem prefixUsage_length {cs : List Char} {it : PItem} {r : List Char}
    (h : prefixUsage cs = some (it, r)) : r.length < cs.length := by
  simp only [prefixUsage] at h
  split at h
  · rename_i rule1 r1 hx
    simp only [Option.some.injEq, Prod.mk.injEq] at h
    obtain ⟨_, rfl⟩ := h
    split at hx
    · rename_i rule2 r2 hr2
      cases hw : wsPlus r2 with
      | none => rw [hw] at hx; cases hx
      | some r3 =>
        rw [hw] at hx
        simp only [Option.map_some, Option.some.injEq, Prod.mk.injEq] at hx
        obtain ⟨_, rfl⟩ := hx
        have h2 := firstRule_length naturalPrefixLits_nonempty hr2
        have h3 := wsPlus_length hw
        omega
    · cases hx
  · cases hf : firstRule prefixLits cs with
    | none => rw [hf] at h; cases h
    | some x =>
      obtain ⟨rule1, r1⟩ := x
      rw [hf] at h
      simp only [Option.map_some, Option.some.injEq, Prod.mk.injEq] at h
      obtain ⟨_, rfl⟩ := h
      exact firstRule_length prefixLits_nonempty hf

theorem starItems_length {e : List Char → Option (PItem × List Char)}
    (he : ∀ cs it r, e cs = some (it, r) → r.length ≤ cs.length) (n : Nat) (cs : List Char) :
    (starItems e n cs).2.length ≤ cs.length := by
  induction n generalizing cs with
  | zero => simp [starItems]
  | succ n ih =>
    simp only [starItems]
    cases h : e cs with
    | none => exact Nat.le_refl _
    | some x =>
      obtain ⟨it, r⟩ := x
      exact Nat.le_trans (ih r) (he cs it r h)

theorem prefixStar_length (cs : List Char) : (prefixStar cs).2.length ≤ cs.length :=
  starItems_length (fun _ _ _ h => Nat.le_of_lt (prefixUsage_length h)) _ _

/-! ### terms -/

theorem keyword_length {L : List (List Char)} (hL : ∀ s ∈ L, s ≠ []) {cs s r : List Char}
    (h : keyword L cs = some (s, r)) : r.length < cs.length := by
  simp only [keyword] at h
  split at h
  · rename_i s1 r1 hf
    split at h
    · simp only [Option.some.injEq, Prod.mk.injEq] at h
      obtain ⟨rfl, rfl⟩ := h
      obtain ⟨hs, he⟩ := firstLit_some hf
      have := hL _ hs
      cases s1 with
      | nil => exact absurd rfl this
      | cons a s1 =>
        rw [he]; simp only [List.cons_append, List.length_cons, List.length_append]; omega
    · cases h
  · cases h

theorem boolRule_length {cs : List Char} {b : Bool} {r : List Char}
    (h : boolRule cs = some (b, r)) : r.length < cs.length := by
  simp only [boolRule] at h
  cases hk : keyword [trueLit, falseLit] cs with
  | none => rw [hk] at h; cases h
  | some x =>
    obtain ⟨s, r1⟩ := x
    rw [hk] at h
    simp only [Option.map_some, Option.some.injEq, Prod.mk.injEq] at h
    obtain ⟨_, rfl⟩ := h
    exact keyword_length (by decide) hk

theorem nullRule_length {cs r : List Char} (h : nullRule cs = some r) : r.length < cs.length := by
  simp only [nullRule] at h
  cases hk : keyword [nullLit] cs with
  | none => rw [hk] at h; cases h
  | some x =>
    obtain ⟨s, r1⟩ := x
    rw [hk] at h
    simp only [Option.map_some, Option.some.injEq] at h
    subst h
    exact keyword_length (by decide) hk

theorem identRest_length {cs r : List Char} (h : identRest cs = some r) : r.length < cs.length :=
  orElse_length_lt (fun _ _ => plus_length)
    (fun _ _ => orElse_length_lt (fun _ _ => plus_length) (fun _ _ => plus_length)) h

theorem nameBody_length {cs r : List Char} (h : nameBody cs = some r) : r.length < cs.length := by
  simp only [nameBody] at h
  split at h
  · rename_i r0 hp
    simp only [Option.some.injEq] at h
    subst h
    exact Nat.lt_of_le_of_lt
      (star_length (fun _ _ h => Nat.le_of_lt (identRest_length h)) _ _) (plus_length hp)
  · cases h

theorem identifier_length {cs r : List Char} (h : identifier cs = some r) :
    r.length < cs.length := by
  simp only [identifier] at h
  split at h
  · cases h
  · exact nameBody_length h

theorem stringRule_length {cs s r : List Char} (h : stringRule cs = some (s, r)) :
    r.length < cs.length := by
  cases cs with
  | nil => simp [stringRule] at h
  | cons q cs =>
    simp only [stringRule] at h
    split at h
    · split at h
      · cases h
      · rename_i d rest hd
        simp only [Option.some.injEq, Prod.mk.injEq] at h
        obtain ⟨_, rfl⟩ := h
        have := dropWhile_length_le (· != q) cs
        rw [hd] at this
        simp only [List.length_cons] at this ⊢
        omega
    · cases h

theorem termAtom_length {cs : List Char} {e : Expr} {r : List Char}
    (h : termAtom cs = some (e, r)) : r.length < cs.length := by
  simp only [termAtom] at h
  split at h
  · rename_i b r1 hb
    simp only [Option.some.injEq, Prod.mk.injEq] at h
    obtain ⟨_, rfl⟩ := h
    exact boolRule_length hb
  · split at h
    · rename_i s r1 hs
      simp only [Option.some.injEq, Prod.mk.injEq] at h
      obtain ⟨_, rfl⟩ := h
      exact stringRule_length hs
    · split at h
      · rename_i r1 hn
        simp only [Option.some.injEq, Prod.mk.injEq] at h
        obtain ⟨_, rfl⟩ := h
        exact nullRule_length hn
      · split at h
        · rename_i r1 hi
          simp only [Option.some.injEq, Prod.mk.injEq] at h
          obtain ⟨_, rfl⟩ := h
          exact identifier_length hi
        · split at h
          · rename_i r1 hd
            cases hv : NumText.literalValue (String.ofList (consumed cs r1)) with
            | none => rw [hv] at h; cases h
            | some v =>
              rw [hv] at h
              simp only [Option.map_some, Option.some.injEq, Prod.mk.injEq] at h
              obtain ⟨_, rfl⟩ := h
              exact plus_length hd
          · cases h

/-! ### layout helpers of `access` / `call_list` -/

theorem skipWs_length (cs : List Char) : (skipWs cs).length ≤ cs.length :=
  dropWhile_length_le isWs cs

theorem nlStar_length (cs : List Char) : (nlStar cs).length ≤ cs.length :=
  star_length (fun _ _ h => Nat.le_of_lt (newline_length h)) _ _

theorem trailComma_length (cs : List Char) : (trailComma cs).length ≤ cs.length := by
  unfold trailComma
  split
  · rename_i r0
    split
    · rename_i r1 hn
      have := newline_length hn
      have := skipWs_length r0
      simp only [List.length_cons]; omega
    · exact Nat.le_refl _
  · exact Nat.le_refl _

theorem callClose_length {cs r : List Char} (h : callClose cs = some r) : r.length < cs.length := by
  simp only [callClose] at h
  split at h
  · rename_i r' hl
    simp only [Option.some.injEq] at h
    subst h
    have h1 := skipWs_length cs
    have h2 := layoutStar_length (trailComma (skipWs cs))
    have h3 := trailComma_length (skipWs cs)
    rw [hl] at h2
    simp only [List.length_cons] at h2
    omega
  · cases h

/-! ### layout helpers of `list` -/

theorem wnAtom_length {cs r : List Char} (h : wnAtom cs = some r) : r.length < cs.length :=
  orElse_length_lt (fun _ _ => whitespace_length) (fun _ _ => plainNewline_length) h

theorem wnStar_length (cs : List Char) : (wnStar cs).length ≤ cs.length :=
  star_length (fun _ _ h => Nat.le_of_lt (wnAtom_length h)) _ _

theorem inlineComment_length {cs r : List Char} (h : inlineComment cs = some r) :
    r.length < cs.length := by
  simp only [inlineComment] at h
  cases hl : lit ['/', '/'] cs with
  | none => rw [hl] at h; cases h
  | some r0 =>
    rw [hl] at h
    simp only [Option.map_some, Option.some.injEq] at h
    subst h
    have h2 := commentBody_length r0
    have h3 := lit_length hl
    simp only [List.length_cons, List.length_nil] at h3
    omega

theorem gAtom_length {cs r : List Char} (h : gAtom cs = some r) : r.length < cs.length := by
  simp only [gAtom] at h
  split at h
  · rename_i r0 hc
    have := inlineComment_length hc
    have := wnAtom_length h
    omega
  · exact wnAtom_length h

theorem hAtom_length {cs r : List Char} (h : hAtom cs = some r) : r.length < cs.length := by
  simp only [hAtom] at h
  split at h
  · rename_i r0 hc
    simp only [Option.some.injEq] at h
    subst h
    exact inlineComment_length hc
  · exact wnAtom_length h

theorem gapG_length (cs : List Char) : (gapG cs).length ≤ cs.length :=
  star_length (fun _ _ h => Nat.le_of_lt (gAtom_length h)) _ _

theorem gapH_length (cs : List Char) : (gapH cs).length ≤ cs.length :=
  star_length (fun _ _ h => Nat.le_of_lt (hAtom_length h)) _ _

theorem itemTrail_length (cs : List Char) : (itemTrail cs).length ≤ cs.length := by
  unfold itemTrail
  have := skipWs_length cs
  split
  · rename_i r hc
    have := inlineComment_length hc
    omega
  · exact this

/-- what `listClose` skips in front of the closing layout: an optional comma and the blanks /
    line breaks behind it -/
def listComma (cs : List Char) : List Char :=
  match skipWs cs with
  | ',' :: r => wnStar r
  | c1 => c1

theorem listClose_eq (cs : List Char) :
    listClose cs = match gapH (listComma cs) with | ']' :: r => some r | _ => none := rfl

theorem listComma_length (cs : List Char) : (listComma cs).length ≤ cs.length := by
  unfold listComma
  have h1 := skipWs_length cs
  split
  · rename_i r hs
    have := wnStar_length r
    rw [hs] at h1
    simp only [List.length_cons] at h1
    omega
  · exact h1

theorem listClose_length {cs r : List Char} (h : listClose cs = some r) : r.length < cs.length := by
  rw [listClose_eq] at h
  split at h
  · rename_i r' hl
    simp only [Option.some.injEq] at h
    subst h
    have h2 := gapH_length (listComma cs)
    have h3 := listComma_length cs
    rw [hl] at h2
    simp only [List.length_cons] at h2
    omega
  · cases h

/-! ### layout helpers of `record` -/

theorem recordClose_eq (cs : List Char) :
    recordClose cs = match gapH (listComma cs) with | '}' :: r => some r | _ => none := rfl

theorem recordClose_length {cs r : List Char} (h : recordClose cs = some r) : r.length < cs.length := by
  rw [recordClose_eq] at h
  split at h
  · rename_i r' hl
    simp only [Option.some.injEq] at h
    subst h
    have h2 := gapH_length (listComma cs)
    have h3 := listComma_length cs
    rw [hl] at h2
    simp only [List.length_cons] at h2
    omega
  · cases h

/-! ### the head of a lambda -/

theorem argumentR_length {cs : List Char} {a : LArg} {r : List Char}
    (h : argumentR cs = some (a, r)) : r.length < cs.length := by
  simp only [argumentR] at h
  split at h
  · rename_i r0 hid
    have h0 := identifier_length hid
    have h1 := skipWs_length r0
    split at h
    · rename_i r' hs
      simp only [Option.some.injEq, Prod.mk.injEq] at h
      obtain ⟨_, rfl⟩ := h
      rw [hs] at h1
      simp only [List.length_cons] at h1
      omega
    · simp only [Option.some.injEq, Prod.mk.injEq] at h
      obtain ⟨_, rfl⟩ := h
      exact h0
  · split at h
    · rename_i r0 hl
      have h0 := lit_length hl
      have h1 := skipWs_length r0
      split at h
      · rename_i r' hid
        simp only [Option.some.injEq, Prod.mk.injEq] at h
        obtain ⟨_, rfl⟩ := h
        have := identifier_length hid
        omega
      · cases h
    · cases h

theorem argumentsTail_length (n : Nat) (cs : List Char) :
    (argumentsTail n cs).2.length ≤ cs.length := by
  induction n generalizing cs with
  | zero => simp [argumentsTail]
  | succ n ih =>
    simp only [argumentsTail]
    split
    · rename_i r hs
      have h1 := skipWs_length cs
      rw [hs] at h1
      simp only [List.length_cons] at h1
      have h2 := layoutStar_length r
      split
      · rename_i a r1 ha
        have := argumentR_length ha
        have := ih r1
        simp only
        omega
      · exact Nat.le_refl _
    · exact Nat.le_refl _

theorem argumentTailClose_length {a : LArg} {r2 : List Char} {as : List LArg} {r : List Char}
    (h : argumentTailClose a r2 = some (as, r)) : r.length < r2.length := by
  simp only [argumentTailClose] at h
  have h3 := argumentsTail_length (r2.length + 1) r2
  cases hc : callClose (argumentsTail (r2.length + 1) r2).2 with
  | none => rw [hc] at h; cases h
  | some r4 =>
    rw [hc] at h
    simp only [Option.map_some, Option.some.injEq, Prod.mk.injEq] at h
    obtain ⟨_, rfl⟩ := h
    have := callClose_length hc
    omega

theorem argumentListParen_length {r1 : List Char} {as : List LArg} {r : List Char}
    (h : argumentListParen r1 = some (as, r)) : r.length < r1.length := by
  simp only [argumentListParen] at h
  have h1 := layoutStar_length r1
  split at h
  · rename_i a r2 ha
    have h2 := argumentR_length ha
    have := argumentTailClose_length h
    omega
  · cases hc : callClose (layoutStar r1) with
    | none => rw [hc] at h; cases h
    | some r4 =>
      rw [hc] at h
      simp only [Option.map_some, Option.some.injEq, Prod.mk.injEq] at h
      obtain ⟨_, rfl⟩ := h
      have := callClose_length hc
      omega

theorem argumentList_length {cs : List Char} {as : List LArg} {r : List Char}
    (h : argumentList cs = some (as, r)) : r.length < cs.length := by
  simp only [argumentList] at h
  split at h
  · rename_i a r0 ha
    simp only [Option.some.injEq, Prod.mk.injEq] at h
    obtain ⟨_, rfl⟩ := h
    exact argumentR_length ha
  · split at h
    · rename_i r1 _
      have := argumentListParen_length h
      simp only [List.length_cons]
      omega
    · cases h

theorem asgHead_length {cs : List Char} {n : String} {r : List Char}
    (h : asgHead cs = some (n, r)) : r.length < cs.length := by
  simp only [asgHead] at h
  split at h
  · rename_i r0 hi
    have h0 := identifier_length hi
    split at h
    · rename_i r1 hs
      simp only [Option.some.injEq, Prod.mk.injEq] at h
      obtain ⟨_, rfl⟩ := h
      have h1 := skipWs_length r0
      have h2 := skipWs_length r1
      rw [hs] at h1
      simp only [List.length_cons] at h1
      omega
    · cases h
  · cases h

theorem lambdaHead_length {cs : List Char} {as : List LArg} {r : List Char}
    (h : lambdaHead cs = some (as, r)) : r.length < cs.length := by
  simp only [lambdaHead] at h
  split at h
  · rename_i args r0 ha
    have h0 := argumentList_length ha
    cases hl : lit ['=', '>'] (skipWs r0) with
    | none => rw [hl] at h; cases h
    | some r1 =>
      rw [hl] at h
      simp only [Option.map_some, Option.some.injEq, Prod.mk.injEq] at h
      obtain ⟨_, rfl⟩ := h
      have := lit_length hl
      have := skipWs_length r0
      have := layoutStar_length r1
      omega
  · cases h

/-! ### the keywords of a conditional -/

theorem ifHead_length {cs r : List Char} (h : ifHead cs = some r) : r.length < cs.length := by
  simp only [ifHead] at h
  split at h
  · rename_i r0 hl
    have := lit_length hl
    have := wsPlus_length h
    omega
  · cases h

theorem kwGap_length {kw cs r : List Char} (h : kwGap kw cs = some r) : r.length < cs.length := by
  simp only [kwGap] at h
  split at h
  · rename_i r0 hp
    have h0 := layoutPlus_length hp
    split at h
    · rename_i r1 hl
      have := lit_length hl
      have := layoutPlus_length h
      omega
    · cases h
  · cases h

/-! ### the fixed parts of a do-block -/

theorem wnPlus_length {cs r : List Char} (h : wnPlus cs = some r) : r.length < cs.length := by
  simp only [wnPlus] at h
  cases ha : wnAtom cs with
  | none => rw [ha] at h; cases h
  | some r0 =>
    rw [ha] at h
    simp only [Option.map_some, Option.some.injEq] at h
    subst h
    exact Nat.lt_of_le_of_lt (wnStar_length r0) (wnAtom_length ha)

theorem doHead_length {cs r : List Char} (h : doHead cs = some r) : r.length < cs.length := by
  simp only [doHead] at h
  split at h
  · rename_i r0 hl
    have h0 := lit_length hl
    split at h
    · rename_i r' hw
      simp only [Option.some.injEq] at h
      subst h
      have h1 := wnPlus_length hw
      have h2 := gapG_length r'
      simp only [List.length_cons] at h1
      omega
    · cases h
  · cases h

theorem stmtSep_length {cs r : List Char} (h : stmtSep cs = some r) : r.length < cs.length := by
  simp only [stmtSep] at h
  split at h
  · rename_i r0 hp
    simp only [Option.some.injEq] at h
    subst h
    have h1 := plainNewline_length hp
    have h2 := star_length (e := plainNewline) (fun _ _ h => Nat.le_of_lt (plainNewline_length h))
      (r0.length + 1) r0
    omega
  · split at h
    · simp only [Option.some.injEq] at h
      subst h
      simp
    · cases h

theorem retHead_length {cs r : List Char} (h : retHead cs = some r) : r.length < cs.length := by
  simp only [retHead] at h
  split at h
  · rename_i r0 hl
    have h0 := lit_length hl
    have h1 := skipWs_length cs
    have h2 := wsPlus_length h
    omega
  · cases h

/-! ### one-step unfoldings -/

theorem exprR_succ (lam : Bool) (f : Nat) (cs : List Char) : exprR lam (f + 1) cs =
    match operandR lam f cs with
    | .ok (its, r) =>
      (match tailR lam f r with
       | .ok (more, r') => .ok (its ++ more, r')
       | .fail => .fail
       | .out => .out)
    | .fail => .fail
    | .out => .out := by
  rw [exprR]; rfl

theorem tailR_succ (lam : Bool) (f : Nat) (cs : List Char) : tailR lam (f + 1) cs =
    match infixUsage lam cs with
    | none => .ok ([], cs)
    | some (rule, r) =>
      match operandR lam f r with
      | .ok (its, r') =>
        (match tailR lam f r' with
         | .ok (more, r'') => .ok (.inf rule :: (its ++ more), r'')
         | .fail => .fail
         | .out => .out)
      | .fail => .ok ([], cs)
      | .out => .out := by
  rw [tailR]; rfl

theorem operandR_succ (lam : Bool) (f : Nat) (cs : List Char) : operandR lam (f + 1) cs =
    match termR f (prefixStar cs).2 with
    | .ok (e, r1) =>
      (match postR f r1 with
       | .ok (post, r2) => .ok ((prefixStar cs).1 ++ .prim e :: post, r2)
       | .fail => .fail
       | .out => .out)
    | .fail => .fail
    | .out => .out := by
  rw [operandR]; rfl

theorem termR_succ (f : Nat) (cs : List Char) : termR (f + 1) cs =
    match condR f cs with
    | .ok x => .ok x
    | .fail =>
      (match doR f cs with
       | .ok x => .ok x
       | .fail =>
         (match lamR f cs with
          | .ok x => .ok x
          | .fail =>
            (match asgR f cs with
             | .ok x => .ok x
             | .fail => term2R f cs
             | .out => .out)
          | .out => .out)
       | .out => .out)
    | .out => .out := by
  rw [termR]; rfl

theorem doR_succ (f : Nat) (cs : List Char) : doR (f + 1) cs =
    match doHead cs with
    | some r1 =>
      (match doStmtsR f r1 with
       | .ok (stmts, r2) =>
         (match retHead (gapH r2) with
          | some r3 =>
            (match exprR false f r3 with
             | .ok (its, r4) =>
               (match wnStar r4 with
                | '}' :: r5 =>
                  (match prattParse its with
                   | some e => .ok (.doBlock stmts (.mk [] e none), r5)
                   | none => .fail)
                | _ => .fail)
             | .fail => .fail
             | .out => .out)
          | none => .fail)
       | .fail => .fail
       | .out => .out)
    | none => .fail := by
  rw [doR.eq_def]; rfl

theorem doStmtsR_succ (f : Nat) (cs : List Char) : doStmtsR (f + 1) cs =
    match doStmtR f (skipWs cs) with
    | .ok (oe, r1) =>
      (match stmtSep (skipWs r1) with
       | some r2 =>
         (match doStmtsR f (gapG r2) with
          | .ok (more, r3) => .ok (consStmt oe more, r3)
          | .fail => .fail
          | .out => .out)
       | none => .ok ([], cs))
    | .fail => .ok ([], cs)
    | .out => .out := by
  rw [doStmtsR.eq_def]; rfl

theorem doStmtR_succ (f : Nat) (cs : List Char) : doStmtR (f + 1) cs =
    match exprR false f cs with
    | .ok (its, r) =>
      (match prattParse its with
       | some e => .ok (some e, itemTrail r)
       | none => .fail)
    | .fail =>
      (match inlineComment cs with
       | some r => .ok (none, itemTrail r)
       | none => .fail)
    | .out => .out := by
  rw [doStmtR.eq_def]; rfl

theorem condR_succ (f : Nat) (cs : List Char) : condR (f + 1) cs =
    match ifHead cs with
    | some r1 =>
      (match exprR false f r1 with
       | .ok (its1, r2) =>
         (match kwGap thenLit r2 with
          | some r3 =>
            (match exprR false f r3 with
             | .ok (its2, r4) =>
               (match kwGap elseLit r4 with
                | some r5 =>
                  (match exprR false f r5 with
                   | .ok (its3, r6) =>
                     (match prattParse its1, prattParse its2, prattParse its3 with
                      | some c, some t, some e => .ok (.cond c t e, r6)
                      | _, _, _ => .fail)
                   | .fail => .fail
                   | .out => .out)
                | none => .fail)
             | .fail => .fail
             | .out => .out)
          | none => .fail)
       | .fail => .fail
       | .out => .out)
    | none => .fail := by
  rw [condR]; rfl

theorem lamR_succ (f : Nat) (cs : List Char) : lamR (f + 1) cs =
    match lambdaHead cs with
    | some (args, r) =>
      (match exprR true f r with
       | .ok (its, r') =>
         (match prattParse its with
          | some e => .ok (.lambda args e, r')
          | none => .fail)
       | .fail => .fail
       | .out => .out)
    | none => .fail := by
  rw [lamR]; rfl

theorem asgR_succ (f : Nat) (cs : List Char) : asgR (f + 1) cs =
    match asgHead cs with
    | some (n, r) =>
      (match exprR false f r with
       | .ok (its, r') =>
         (match prattParse its with
          | some e => .ok (.assign n e, r')
          | none => .fail)
       | .fail => .fail
       | .out => .out)
    | none => .fail := by
  rw [asgR]; rfl

theorem term2R_succ (f : Nat) (cs : List Char) : term2R (f + 1) cs =
    match termAtom cs with
    | some (e, r) => .ok (e, r)
    | none =>
      match cs with
      | '(' :: r1 =>
        (match exprR false f (layoutStar r1) with
         | .ok (its, r2) =>
           (match layoutStar r2 with
            | ')' :: r3 =>
              (match prattParse its with
               | some e => .ok (e, r3)
               | none => .fail)
            | _ => .fail)
         | .fail => .fail
         | .out => .out)
      | '[' :: r1 =>
        (match argR true f (gapG r1) with
         | .ok (a, r2) =>
           (match argsTailR true f r2 with
            | .ok (more, r3) =>
              (match listClose r3 with
               | some r4 => .ok (.list (mkItems (a :: more)), r4)
               | none => .fail)
            | .fail => .fail
            | .out => .out)
         | .fail =>
           (match listClose (gapG r1) with
            | some r4 => .ok (.list [], r4)
            | none => .fail)
         | .out => .out)
      | '{' :: r1 =>
        (match recItemR f (gapG r1) with
         | .ok (e, r2) =>
           (match recTailR f r2 with
            | .ok (more, r3) =>
              (match recordClose r3 with
               | some r4 => .ok (.record (e :: more), r4)
               | none => .fail)
            | .fail => .fail
            | .out => .out)
         | .fail =>
           (match recordClose (gapG r1) with
            | some r4 => .ok (.record [], r4)
            | none => .fail)
         | .out => .out)
      | _ => .fail := by
  rw [term2R.eq_def]; rfl

theorem recKeyR_succ (f : Nat) (cs : List Char) : recKeyR (f + 1) cs =
    match identifier cs with
    | some r => .ok (.static (String.ofList (consumed cs r)), r)
    | none =>
      match stringRule cs with
      | some (s, r) => .ok (.static (String.ofList s), r)
      | none =>
        match cs with
        | '[' :: r1 =>
          (match exprR false f (skipWs r1) with
           | .ok (its, r2) =>
             (match skipWs r2 with
              | ']' :: r3 =>
                (match prattParse its with
                 | some e => .ok (.dyn e, r3)
                 | none => .fail)
              | _ => .fail)
           | .fail => .fail
           | .out => .out)
        | _ => .fail := by
  rw [recKeyR.eq_def]; rfl

theorem recPairR_succ (f : Nat) (cs : List Char) : recPairR (f + 1) cs =
    match recKeyR f cs with
    | .ok (k, r1) =>
      (match skipWs r1 with
       | ':' :: r2 =>
         (match exprR false f (layoutStar r2) with
          | .ok (its, r3) =>
            (match prattParse its with
             | some v => .ok (.mk [] k v none, r3)
             | none => .fail)
          | .fail => .fail
          | .out => .out)
       | _ => .fail)
    | .fail => .fail
    | .out => .out := by
  rw [recPairR.eq_def]; rfl

theorem recItemR_succ (f : Nat) (cs : List Char) : recItemR (f + 1) cs =
    match recPairR f cs with
    | .ok (e, r) => .ok (e, itemTrail r)
    | .out => .out
    | .fail =>
      match identifier cs with
      | some r => .ok (.mk [] (.short (String.ofList (consumed cs r))) .null none, itemTrail r)
      | none =>
        match lit spreadLit cs with
        | some r1 =>
          (match exprR false f r1 with
           | .ok (its, r2) =>
             (match prattParse its with
              | some e => .ok (.mk [] (.spread (.spread e)) .null none, itemTrail r2)
              | none => .fail)
           | .fail => .fail
           | .out => .out)
        | none => .fail := by
  rw [recItemR.eq_def]; rfl

theorem recTailR_succ (f : Nat) (cs : List Char) : recTailR (f + 1) cs =
    match skipWs cs with
    | ',' :: r =>
      (match recItemR f (gapG r) with
       | .ok (e, r1) =>
         (match recTailR f r1 with
          | .ok (more, r2) => .ok (e :: more, r2)
          | .fail => .fail
          | .out => .out)
       | .fail => .ok ([], cs)
       | .out => .out)
    | _ => .ok ([], cs) := by
  rw [recTailR.eq_def]; rfl

theorem postR_succ (f : Nat) (cs : List Char) : postR (f + 1) cs =
    match postOpR f cs with
    | .ok (it, r) =>
      (match postR f r with
       | .ok (more, r') => .ok (it :: more, r')
       | .fail => .fail
       | .out => .out)
    | .fail => .ok ([], cs)
    | .out => .out := by
  rw [postR]; rfl

theorem postOpR_succ (f : Nat) (cs : List Char) : postOpR (f + 1) cs =
    match firstRule postfixLits cs with
    | some (_, r) => .ok (.postFact, r)
    | none =>
      match cs with
      | '[' :: r1 =>
        (match exprR false f (nlStar r1) with
         | .ok (its, r2) =>
           (match nlStar r2 with
            | ']' :: r3 =>
              (match prattParse its with
               | some e => .ok (.postAccess e, r3)
               | none => .fail)
            | _ => .fail)
         | .fail => .fail
         | .out => .out)
      | '(' :: r1 =>
        (match argR false f (layoutStar r1) with
         | .ok (a, r2) =>
           (match argsTailR false f r2 with
            | .ok (more, r3) =>
              (match callClose r3 with
               | some r4 => .ok (.postCall (a :: more), r4)
               | none => .fail)
            | .fail => .fail
            | .out => .out)
         | .fail =>
           (match callClose (layoutStar r1) with
            | some r4 => .ok (.postCall [], r4)
            | none => .fail)
         | .out => .out)
      | '.' :: r1 =>
        (match identifier r1 with
         | some r2 => .ok (.postDot (String.ofList (consumed r1 r2)), r2)
         | none => .fail)
      | _ => .fail := by
  rw [postOpR.eq_def]; rfl

theorem argR_succ (lst : Bool) (f : Nat) (cs : List Char) : argR lst (f + 1) cs =
    match lit spreadLit cs with
    | some r1 =>
      (match exprR false f r1 with
       | .ok (its, r2) =>
         (match prattParse its with
          | some e => .ok (.spread e, if lst then itemTrail r2 else r2)
          | none => .fail)
       | .fail => .fail
       | .out => .out)
    | none =>
      (match exprR false f cs with
       | .ok (its, r2) =>
         (match prattParse its with
          | some e => .ok (e, if lst then itemTrail r2 else r2)
          | none => .fail)
       | .fail => .fail
       | .out => .out) := by
  rw [argR]; rfl

theorem argsTailR_succ (lst : Bool) (f : Nat) (cs : List Char) : argsTailR lst (f + 1) cs =
    match skipWs cs with
    | ',' :: r =>
      (match argR lst f (if lst then gapG r else layoutStar r) with
       | .ok (a, r1) =>
         (match argsTailR lst f r1 with
          | .ok (more, r2) => .ok (a :: more, r2)
          | .fail => .fail
          | .out => .out)
       | .fail => .ok ([], cs)
       | .out => .out)
    | _ => .ok ([], cs) := by
  rw [argsTailR.eq_def]; rfl

theorem exprR_zero (lam : Bool) (cs : List Char) : exprR lam 0 cs = .out := by rw [exprR]
theorem tailR_zero (lam : Bool) (cs : List Char) : tailR lam 0 cs = .out := by rw [tailR]
theorem operandR_zero (lam : Bool) (cs : List Char) : operandR lam 0 cs = .out := by rw [operandR]
theorem termR_zero (cs : List Char) : termR 0 cs = .out := by rw [termR]
theorem lamR_zero (cs : List Char) : lamR 0 cs = .out := by rw [lamR]
theorem asgR_zero (cs : List Char) : asgR 0 cs = .out := by rw [asgR]
theorem condR_zero (cs : List Char) : condR 0 cs = .out := by rw [condR]
theorem term2R_zero (cs : List Char) : term2R 0 cs = .out := by rw [term2R]
theorem postR_zero (cs : List Char) : postR 0 cs = .out := by rw [postR]
theorem postOpR_zero (cs : List Char) : postOpR 0 cs = .out := by rw [postOpR]
theorem argR_zero (lst : Bool) (cs : List Char) : argR lst 0 cs = .out := by rw [argR]
theorem argsTailR_zero (lst : Bool) (cs : List Char) : argsTailR lst 0 cs = .out := by rw [argsTailR]
theorem recKeyR_zero (cs : List Char) : recKeyR 0 cs = .out := by rw [recKeyR]
theorem recPairR_zero (cs : List Char) : recPairR 0 cs = .out := by rw [recPairR]
theorem recItemR_zero (cs : List Char) : recItemR 0 cs = .out := by rw [recItemR]
theorem recTailR_zero (cs : List Char) : recTailR 0 cs = .out := by rw [recTailR]
theorem doR_zero (cs : List Char) : doR 0 cs = .out := by rw [doR]
theorem doStmtsR_zero (cs : List Char) : doStmtsR 0 cs = .out := by rw [doStmtsR]
theorem doStmtR_zero (cs : List Char) : doStmtR 0 cs = .out := by rw [doStmtR]

/-! ### fuel monotonicity -/

theorem Res.ok_ne_out {α} {x : α} : (Res.ok x : Res α) ≠ .out := fun h => nomatch h
theorem Res.fail_ne_out {α} : (Res.fail : Res α) ≠ .out := fun h => nomatch h

/-- one call site of `step`: split on the result of the recursive call `t` (at fuel `f`);
    "out" contradicts `h`, otherwise the call at fuel `f + 1` is rewritten by the induction
    hypothesis `ih`; the goal that remains is the `ok` case -/
macro "step_site " hn:ident " : " t:term " , " ih:term " , " h:ident : tactic => `(tactic|
  (cases $hn:ident : $t
   case out => (rw [$hn:ident] at $h:ident; exact absurd rfl $h)
   case fail => (rw [$ih _ (by rw [$hn:ident]; exact Res.fail_ne_out), $hn:ident])
   rw [$ih _ (by rw [$hn:ident]; exact Res.ok_ne_out), $hn:ident]
   first
     | done
     | (rw [$hn:ident] at $h:ident
        simp only at $h:ident ⊢)))

/-- a result other than "fuel ran out" is the result with one more unit of fuel -/
structure StepAll (f : Nat) : Prop where
  e : ∀ lam cs, exprR lam f cs ≠ .out → exprR lam (f + 1) cs = exprR lam f cs
  t : ∀ lam cs, tailR lam f cs ≠ .out → tailR lam (f + 1) cs = tailR lam f cs
  o : ∀ lam cs, operandR lam f cs ≠ .out → operandR lam (f + 1) cs = operandR lam f cs
  m : ∀ cs, termR f cs ≠ .out → termR (f + 1) cs = termR f cs
  l : ∀ cs, lamR f cs ≠ .out → lamR (f + 1) cs = lamR f cs
  c : ∀ cs, condR f cs ≠ .out → condR (f + 1) cs = condR f cs
  m2 : ∀ cs, term2R f cs ≠ .out → term2R (f + 1) cs = term2R f cs
  p : ∀ cs, postR f cs ≠ .out → postR (f + 1) cs = postR f cs
  q : ∀ cs, postOpR f cs ≠ .out → postOpR (f + 1) cs = postOpR f cs
  a : ∀ lst cs, argR lst f cs ≠ .out → argR lst (f + 1) cs = argR lst f cs
  s : ∀ lst cs, argsTailR lst f cs ≠ .out → argsTailR lst (f + 1) cs = argsTailR lst f cs
  k : ∀ cs, recKeyR f cs ≠ .out → recKeyR (f + 1) cs = recKeyR f cs
  rp : ∀ cs, recPairR f cs ≠ .out → recPairR (f + 1) cs = recPairR f cs
  ri : ∀ cs, recItemR f cs ≠ .out → recItemR (f + 1) cs = recItemR f cs
  rt : ∀ cs, recTailR f cs ≠ .out → recTailR (f + 1) cs = recTailR f cs
  d : ∀ cs, doR f cs ≠ .out → doR (f + 1) cs = doR f cs
  ds : ∀ cs, doStmtsR f cs ≠ .out → doStmtsR (f + 1) cs = doStmtsR f cs
  d1 : ∀ cs, doStmtR f cs ≠ .out → doStmtR (f + 1) cs = doStmtR f cs
  g : ∀ cs, asgR f cs ≠ .out → asgR (f + 1) cs = asgR f cs

theorem step (f : Nat) : StepAll f := by
  induction f with
  | zero =>
    refine ⟨?_, ?_, ?_, ?_, ?_, ?_, ?_, ?_, ?_, ?_, ?_, ?_, ?_, ?_, ?_, ?_, ?_, ?_, ?_⟩
    · intro lam cs h; exact absurd (exprR_zero lam cs) h
    · intro lam cs h; exact absurd (tailR_zero lam cs) h
    · intro lam cs h; exact absurd (operandR_zero lam cs) h
    · intro cs h; exact absurd (termR_zero cs) h
    · intro cs h; exact absurd (lamR_zero cs) h
    · intro cs h; exact absurd (condR_zero cs) h
    · intro cs h; exact absurd (term2R_zero cs) h
    · intro cs h; exact absurd (postR_zero cs) h
    · intro cs h; exact absurd (postOpR_zero cs) h
    · intro lst cs h; exact absurd (argR_zero lst cs) h
    · intro lst cs h; exact absurd (argsTailR_zero lst cs) h
    · intro cs h; exact absurd (recKeyR_zero cs) h
    · intro cs h; exact absurd (recPairR_zero cs) h
    · intro cs h; exact absurd (recItemR_zero cs) h
    · intro cs h; exact absurd (recTailR_zero cs) h
    · intro cs h; exact absurd (doR_zero cs) h
    · intro cs h; exact absurd (doStmtsR_zero cs) h
    · intro cs h; exact absurd (doStmtR_zero cs) h
    · intro cs h; exact absurd (asgR_zero cs) h
  | succ f ih =>
    refine ⟨?_, ?_, ?_, ?_, ?_, ?_, ?_, ?_, ?_, ?_, ?_, ?_, ?_, ?_, ?_, ?_, ?_, ?_, ?_⟩
    · intro lam cs h
      rw [exprR_succ lam f] at h
      rw [exprR_succ lam (f + 1), exprR_succ lam f]
      step_site h1 : operandR lam f cs, ih.o lam, h
      rename_i x; obtain ⟨its, r⟩ := x
      simp only at h ⊢
      step_site h2 : tailR lam f r, ih.t lam, h
    · intro lam cs h
      rw [tailR_succ lam f] at h
      rw [tailR_succ lam (f + 1), tailR_succ lam f]
      cases hi : infixUsage lam cs with
      | none => rfl
      | some x =>
        obtain ⟨rule, r0⟩ := x
        rw [hi] at h
        simp only at h ⊢
        step_site h1 : operandR lam f r0, ih.o lam, h
        rename_i x; obtain ⟨its, r⟩ := x
        simp only at h ⊢
        step_site h2 : tailR lam f r, ih.t lam, h
    · intro lam cs h
      rw [operandR_succ lam f] at h
      rw [operandR_succ lam (f + 1), operandR_succ lam f]
      step_site h1 : termR f (prefixStar cs).2, ih.m, h
      rename_i x; obtain ⟨e, r⟩ := x
      simp only at h ⊢
      step_site h2 : postR f r, ih.p, h
    · intro cs h
      rw [termR_succ f] at h
      rw [termR_succ (f + 1), termR_succ f]
      cases h0 : condR f cs with
      | out => rw [h0] at h; exact absurd rfl h
      | ok x => rw [ih.c cs (by rw [h0]; exact Res.ok_ne_out), h0]
      | fail =>
        rw [ih.c cs (by rw [h0]; exact Res.fail_ne_out), h0]
        rw [h0] at h
        simp only at h ⊢
        cases hd : doR f cs with
        | out => rw [hd] at h; exact absurd rfl h
        | ok x => rw [ih.d cs (by rw [hd]; exact Res.ok_ne_out), hd]
        | fail =>
          rw [ih.d cs (by rw [hd]; exact Res.fail_ne_out), hd]
          rw [hd] at h
          simp only at h ⊢
          cases h1 : lamR f cs with
          | out => rw [h1] at h; exact absurd rfl h
          | ok x => rw [ih.l cs (by rw [h1]; exact Res.ok_ne_out), h1]
          | fail =>
            rw [ih.l cs (by rw [h1]; exact Res.fail_ne_out), h1]
            rw [h1] at h
            simp only at h ⊢
            cases hg : asgR f cs with
            | out => rw [hg] at h; exact absurd rfl h
            | ok x => rw [ih.g cs (by rw [hg]; exact Res.ok_ne_out), hg]
            | fail =>
              rw [ih.g cs (by rw [hg]; exact Res.fail_ne_out), hg]
              rw [hg] at h
              simp only at h ⊢
              exact ih.m2 cs h
    · intro cs h
      rw [lamR_succ f] at h
      rw [lamR_succ (f + 1), lamR_succ f]
      cases hh : lambdaHead cs with
      | none => rfl
      | some x =>
        obtain ⟨args, r⟩ := x
        rw [hh] at h
        simp only at h ⊢
        step_site h1 : exprR true f r, ih.e true, h
    · intro cs h
      rw [condR_succ f] at h
      rw [condR_succ (f + 1), condR_succ f]
      cases hh : ifHead cs with
      | none => rfl
      | some r1 =>
        rw [hh] at h
        simp only at h ⊢
        step_site h1 : exprR false f r1, ih.e false, h
        rename_i x; obtain ⟨its1, r2⟩ := x
        simp only at h ⊢
        cases hk1 : kwGap thenLit r2 with
        | none => rfl
        | some r3 =>
          rw [hk1] at h
          simp only at h ⊢
          step_site h2 : exprR false f r3, ih.e false, h
          rename_i y; obtain ⟨its2, r4⟩ := y
          simp only at h ⊢
          cases hk2 : kwGap elseLit r4 with
          | none => rfl
          | some r5 =>
            rw [hk2] at h
            simp only at h ⊢
            step_site h3 : exprR false f r5, ih.e false, h
    · intro cs h
      rw [term2R_succ f] at h
      rw [term2R_succ (f + 1), term2R_succ f]
      cases ha : termAtom cs with
      | some x => rfl
      | none =>
        rw [ha] at h
        simp only at h ⊢
        split
        · rename_i r1
          simp only at h
          step_site h1 : exprR false f (layoutStar r1), ih.e false, h
        · rename_i r1
          simp only at h
          step_site h1 : argR true f (gapG r1), ih.a true, h
          rename_i x; obtain ⟨a, r2⟩ := x
          simp only at h ⊢
          step_site h2 : argsTailR true f r2, ih.s true, h
        · rename_i r1
          simp only at h
          step_site h1 : recItemR f (gapG r1), ih.ri, h
          rename_i x; obtain ⟨a, r2⟩ := x
          simp only at h ⊢
          step_site h2 : recTailR f r2, ih.rt, h
        · rfl
    · intro cs h
      rw [postR_succ f] at h
      rw [postR_succ (f + 1), postR_succ f]
      step_site h1 : postOpR f cs, ih.q, h
      rename_i x; obtain ⟨it, r⟩ := x
      simp only at h ⊢
      step_site h2 : postR f r, ih.p, h
    · intro cs h
      rw [postOpR_succ f] at h
      rw [postOpR_succ (f + 1), postOpR_succ f]
      cases ha : firstRule postfixLits cs with
      | some x => rfl
      | none =>
        rw [ha] at h
        simp only at h ⊢
        split
        · rename_i r1
          simp only at h
          step_site h1 : exprR false f (nlStar r1), ih.e false, h
        · rename_i r1
          simp only at h
          step_site h1 : argR false f (layoutStar r1), ih.a false, h
          rename_i x; obtain ⟨a, r2⟩ := x
          simp only at h ⊢
          step_site h2 : argsTailR false f r2, ih.s false, h
        · rfl
        · rfl
    · intro lst cs h
      rw [argR_succ lst f] at h
      rw [argR_succ lst (f + 1), argR_succ lst f]
      cases hl : lit spreadLit cs with
      | some r1 =>
        rw [hl] at h
        simp only at h ⊢
        step_site h1 : exprR false f r1, ih.e false, h
      | none =>
        rw [hl] at h
        simp only at h ⊢
        step_site h1 : exprR false f cs, ih.e false, h
    · intro lst cs h
      rw [argsTailR_succ lst f] at h
      rw [argsTailR_succ lst (f + 1), argsTailR_succ lst f]
      split
      · rename_i r hs
        rw [hs] at h
        simp only at h
        step_site h1 : argR lst f (if lst then gapG r else layoutStar r), ih.a lst, h
        rename_i x; obtain ⟨a, r1⟩ := x
        simp only at h ⊢
        step_site h2 : argsTailR lst f r1, ih.s lst, h
      · rfl
    · intro cs h
      rw [recKeyR_succ f] at h
      rw [recKeyR_succ (f + 1), recKeyR_succ f]
      cases hi : identifier cs with
      | some r => rfl
      | none =>
        rw [hi] at h
        simp only at h ⊢
        cases hs : stringRule cs with
        | some x => rfl
        | none =>
          rw [hs] at h
          simp only at h ⊢
          split
          · rename_i r1
            simp only at h
            step_site h1 : exprR false f (skipWs r1), ih.e false, h
          · rfl
    · intro cs h
      rw [recPairR_succ f] at h
      rw [recPairR_succ (f + 1), recPairR_succ f]
      step_site h1 : recKeyR f cs, ih.k, h
      rename_i x; obtain ⟨k, r1⟩ := x
      simp only at h ⊢
      split
      · rename_i r2 hs
        rw [hs] at h
        simp only at h
        step_site h2 : exprR false f (layoutStar r2), ih.e false, h
      · rfl
    · intro cs h
      rw [recItemR_succ f] at h
      rw [recItemR_succ (f + 1), recItemR_succ f]
      cases h0 : recPairR f cs with
      | out => rw [h0] at h; exact absurd rfl h
      | ok x => rw [ih.rp cs (by rw [h0]; exact Res.ok_ne_out), h0]
      | fail =>
        rw [ih.rp cs (by rw [h0]; exact Res.fail_ne_out), h0]
        rw [h0] at h
        simp only at h ⊢
        cases hi : identifier cs with
        | some r => rfl
        | none =>
          rw [hi] at h
          simp only at h ⊢
          cases hl : lit spreadLit cs with
          | none => rfl
          | some r1 =>
            rw [hl] at h
            simp only at h ⊢
            step_site h1 : exprR false f r1, ih.e false, h
    · intro cs h
      rw [recTailR_succ f] at h
      rw [recTailR_succ (f + 1), recTailR_succ f]
      split
      · rename_i r hs
        rw [hs] at h
        simp only at h
        step_site h1 : recItemR f (gapG r), ih.ri, h
        rename_i x; obtain ⟨a, r1⟩ := x
        simp only at h ⊢
        step_site h2 : recTailR f r1, ih.rt, h
      · rfl
    · intro cs h
      rw [doR_succ f] at h
      rw [doR_succ (f + 1), doR_succ f]
      cases hh : doHead cs with
      | none => rfl
      | some r1 =>
        rw [hh] at h
        simp only at h ⊢
        step_site h1 : doStmtsR f r1, ih.ds, h
        rename_i x; obtain ⟨stmts, r2⟩ := x
        simp only at h ⊢
        cases hr : retHead (gapH r2) with
        | none => rfl
        | some r3 =>
          rw [hr] at h
          simp only at h ⊢
          step_site h2 : exprR false f r3, ih.e false, h
    · intro cs h
      rw [doStmtsR_succ f] at h
      rw [doStmtsR_succ (f + 1), doStmtsR_succ f]
      step_site h1 : doStmtR f (skipWs cs), ih.d1, h
      rename_i x; obtain ⟨oe, r1⟩ := x
      simp only at h ⊢
      cases hs : stmtSep (skipWs r1) with
      | none => rfl
      | some r2 =>
        rw [hs] at h
        simp only at h ⊢
        step_site h2 : doStmtsR f (gapG r2), ih.ds, h
    · intro cs h
      rw [doStmtR_succ f] at h
      rw [doStmtR_succ (f + 1), doStmtR_succ f]
      step_site h1 : exprR false f cs, ih.e false, h
    · intro cs h
      rw [asgR_succ f] at h
      rw [asgR_succ (f + 1), asgR_succ f]
      cases hh : asgHead cs with
      | none => rfl
      | some x =>
        obtain ⟨n, r⟩ := x
        rw [hh] at h
        simp only at h ⊢
        step_site h1 : exprR false f r, ih.e false, h

theorem exprR_add {lam : Bool} {f : Nat} {cs : List Char} (h : exprR lam f cs ≠ .out) (k : Nat) :
    exprR lam (f + k) cs = exprR lam f cs := by
  induction k with
  | zero => rfl
  | succ k ih => rw [← Nat.add_assoc, (step (f + k)).e lam cs (by rw [ih]; exact h), ih]

theorem exprR_mono {lam : Bool} {f f' : Nat} {cs : List Char} {x} (h : f ≤ f')
    (hx : exprR lam f cs = .ok x) : exprR lam f' cs = .ok x := by
  obtain ⟨k, rfl⟩ := Nat.exists_eq_add_of_le h
  rw [exprR_add (by rw [hx]; exact Res.ok_ne_out), hx]

theorem tailR_add {lam : Bool} {f : Nat} {cs : List Char} (h : tailR lam f cs ≠ .out) (k : Nat) :
    tailR lam (f + k) cs = tailR lam f cs := by
  induction k with
  | zero => rfl
  | succ k ih => rw [← Nat.add_assoc, (step (f + k)).t lam cs (by rw [ih]; exact h), ih]

theorem tailR_mono {lam : Bool} {f f' : Nat} {cs : List Char} {x} (h : f ≤ f')
    (hx : tailR lam f cs = .ok x) : tailR lam f' cs = .ok x := by
  obtain ⟨k, rfl⟩ := Nat.exists_eq_add_of_le h
  rw [tailR_add (by rw [hx]; exact Res.ok_ne_out), hx]

theorem operandR_add {lam : Bool} {f : Nat} {cs : List Char} (h : operandR lam f cs ≠ .out) (k : Nat) :
    operandR lam (f + k) cs = operandR lam f cs := by
  induction k with
  | zero => rfl
  | succ k ih => rw [← Nat.add_assoc, (step (f + k)).o lam cs (by rw [ih]; exact h), ih]

theorem operandR_mono {lam : Bool} {f f' : Nat} {cs : List Char} {x} (h : f ≤ f')
    (hx : operandR lam f cs = .ok x) : operandR lam f' cs = .ok x := by
  obtain ⟨k, rfl⟩ := Nat.exists_eq_add_of_le h
  rw [operandR_add (by rw [hx]; exact Res.ok_ne_out), hx]

theorem termR_add {f : Nat} {cs : List Char} (h : termR f cs ≠ .out) (k : Nat) :
    termR (f + k) cs = termR f cs := by
  induction k with
  | zero => rfl
  | succ k ih => rw [← Nat.add_assoc, (step (f + k)).m cs (by rw [ih]; exact h), ih]

theorem termR_mono {f f' : Nat} {cs : List Char} {x} (h : f ≤ f')
    (hx : termR f cs = .ok x) : termR f' cs = .ok x := by
  obtain ⟨k, rfl⟩ := Nat.exists_eq_add_of_le h
  rw [termR_add (by rw [hx]; exact Res.ok_ne_out), hx]

theorem lamR_add {f : Nat} {cs : List Char} (h : lamR f cs ≠ .out) (k : Nat) :
    lamR (f + k) cs = lamR f cs := by
  induction k with
  | zero => rfl
  | succ k ih => rw [← Nat.add_assoc, (step (f + k)).l cs (by rw [ih]; exact h), ih]

theorem lamR_mono {f f' : Nat} {cs : List Char} {x} (h : f ≤ f')
    (hx : lamR f cs = .ok x) : lamR f' cs = .ok x := by
  obtain ⟨k, rfl⟩ := Nat.exists_eq_add_of_le h
  rw [lamR_add (by rw [hx]; exact Res.ok_ne_out), hx]

theorem asgR_add {f : Nat} {cs : List Char} (h : asgR f cs ≠ .out) (k : Nat) :
    asgR (f + k) cs = asgR f cs := by
  induction k with
  | zero => rfl
  | succ k ih => rw [← Nat.add_assoc, (step (f + k)).g cs (by rw [ih]; exact h), ih]

theorem asgR_mono {f f' : Nat} {cs : List Char} {x} (h : f ≤ f')
    (hx : asgR f cs = .ok x) : asgR f' cs = .ok x := by
  obtain ⟨k, rfl⟩ := Nat.exists_eq_add_of_le h
  rw [asgR_add (by rw [hx]; exact Res.ok_ne_out), hx]

theorem condR_add {f : Nat} {cs : List Char} (h : condR f cs ≠ .out) (k : Nat) :
    condR (f + k) cs = condR f cs := by
  induction k with
  | zero => rfl
  | succ k ih => rw [← Nat.add_assoc, (step (f + k)).c cs (by rw [ih]; exact h), ih]

theorem condR_mono {f f' : Nat} {cs : List Char} {x} (h : f ≤ f')
    (hx : condR f cs = .ok x) : condR f' cs = .ok x := by
  obtain ⟨k, rfl⟩ := Nat.exists_eq_add_of_le h
  rw [condR_add (by rw [hx]; exact Res.ok_ne_out), hx]

theorem term2R_add {f : Nat} {cs : List Char} (h : term2R f cs ≠ .out) (k : Nat) :
    term2R (f + k) cs = term2R f cs := by
  induction k with
  | zero => rfl
  | succ k ih => rw [← Nat.add_assoc, (step (f + k)).m2 cs (by rw [ih]; exact h), ih]

theorem term2R_mono {f f' : Nat} {cs : List Char} {x} (h : f ≤ f')
    (hx : term2R f cs = .ok x) : term2R f' cs = .ok x := by
  obtain ⟨k, rfl⟩ := Nat.exists_eq_add_of_le h
  rw [term2R_add (by rw [hx]; exact Res.ok_ne_out), hx]

theorem postR_add {f : Nat} {cs : List Char} (h : postR f cs ≠ .out) (k : Nat) :
    postR (f + k) cs = postR f cs := by
  induction k with
  | zero => rfl
  | succ k ih => rw [← Nat.add_assoc, (step (f + k)).p cs (by rw [ih]; exact h), ih]

theorem postR_mono {f f' : Nat} {cs : List Char} {x} (h : f ≤ f')
    (hx : postR f cs = .ok x) : postR f' cs = .ok x := by
  obtain ⟨k, rfl⟩ := Nat.exists_eq_add_of_le h
  rw [postR_add (by rw [hx]; exact Res.ok_ne_out), hx]

theorem postOpR_add {f : Nat} {cs : List Char} (h : postOpR f cs ≠ .out) (k : Nat) :
    postOpR (f + k) cs = postOpR f cs := by
  induction k with
  | zero => rfl
  | succ k ih => rw [← Nat.add_assoc, (step (f + k)).q cs (by rw [ih]; exact h), ih]

theorem postOpR_mono {f f' : Nat} {cs : List Char} {x} (h : f ≤ f')
    (hx : postOpR f cs = .ok x) : postOpR f' cs = .ok x := by
  obtain ⟨k, rfl⟩ := Nat.exists_eq_add_of_le h
  rw [postOpR_add (by rw [hx]; exact Res.ok_ne_out), hx]

theorem argR_add {lst : Bool} {f : Nat} {cs : List Char} (h : argR lst f cs ≠ .out) (k : Nat) :
    argR lst (f + k) cs = argR lst f cs := by
  induction k with
  | zero => rfl
  | succ k ih => rw [← Nat.add_assoc, (step (f + k)).a lst cs (by rw [ih]; exact h), ih]

theorem argR_mono {lst : Bool} {f f' : Nat} {cs : List Char} {x} (h : f ≤ f')
    (hx : argR lst f cs = .ok x) : argR lst f' cs = .ok x := by
  obtain ⟨k, rfl⟩ := Nat.exists_eq_add_of_le h
  rw [argR_add (by rw [hx]; exact Res.ok_ne_out), hx]

theorem argsTailR_add {lst : Bool} {f : Nat} {cs : List Char} (h : argsTailR lst f cs ≠ .out) (k : Nat) :
    argsTailR lst (f + k) cs = argsTailR lst f cs := by
  induction k with
  | zero => rfl
  | succ k ih => rw [← Nat.add_assoc, (step (f + k)).s lst cs (by rw [ih]; exact h), ih]

theorem argsTailR_mono {lst : Bool} {f f' : Nat} {cs : List Char} {x} (h : f ≤ f')
    (hx : argsTailR lst f cs = .ok x) : argsTailR lst f' cs = .ok x := by
  obtain ⟨k, rfl⟩ := Nat.exists_eq_add_of_le h
  rw [argsTailR_add (by rw [hx]; exact Res.ok_ne_out), hx]

theorem recKeyR_add {f : Nat} {cs : List Char} (h : recKeyR f cs ≠ .out) (k : Nat) :
    recKeyR (f + k) cs = recKeyR f cs := by
  induction k with
  | zero => rfl
  | succ k ih => rw [← Nat.add_assoc, (step (f + k)).k cs (by rw [ih]; exact h), ih]

theorem recKeyR_mono {f f' : Nat} {cs : List Char} {x} (h : f ≤ f')
    (hx : recKeyR f cs = .ok x) : recKeyR f' cs = .ok x := by
  obtain ⟨k, rfl⟩ := Nat.exists_eq_add_of_le h
  rw [recKeyR_add (by rw [hx]; exact Res.ok_ne_out), hx]

theorem recPairR_add {f : Nat} {cs : List Char} (h : recPairR f cs ≠ .out) (k : Nat) :
    recPairR (f + k) cs = recPairR f cs := by
  induction k with
  | zero => rfl
  | succ k ih => rw [← Nat.add_assoc, (step (f + k)).rp cs (by rw [ih]; exact h), ih]

theorem recPairR_mono {f f' : Nat} {cs : List Char} {x} (h : f ≤ f')
    (hx : recPairR f cs = .ok x) : recPairR f' cs = .ok x := by
  obtain ⟨k, rfl⟩ := Nat.exists_eq_add_of_le h
  rw [recPairR_add (by rw [hx]; exact Res.ok_ne_out), hx]

theorem recItemR_add {f : Nat} {cs : List Char} (h : recItemR f cs ≠ .out) (k : Nat) :
    recItemR (f + k) cs = recItemR f cs := by
  induction k with
  | zero => rfl
  | succ k ih => rw [← Nat.add_assoc, (step (f + k)).ri cs (by rw [ih]; exact h), ih]

theorem recItemR_mono {f f' : Nat} {cs : List Char} {x} (h : f ≤ f')
    (hx : recItemR f cs = .ok x) : recItemR f' cs = .ok x := by
  obtain ⟨k, rfl⟩ := Nat.exists_eq_add_of_le h
  rw [recItemR_add (by rw [hx]; exact Res.ok_ne_out), hx]

theorem recTailR_add {f : Nat} {cs : List Char} (h : recTailR f cs ≠ .out) (k : Nat) :
    recTailR (f + k) cs = recTailR f cs := by
  induction k with
  | zero => rfl
  | succ k ih => rw [← Nat.add_assoc, (step (f + k)).rt cs (by rw [ih]; exact h), ih]

theorem recTailR_mono {f f' : Nat} {cs : List Char} {x} (h : f ≤ f')
    (hx : recTailR f cs = .ok x) : recTailR f' cs = .ok x := by
  obtain ⟨k, rfl⟩ := Nat.exists_eq_add_of_le h
  rw [recTailR_add (by rw [hx]; exact Res.ok_ne_out), hx]

theorem doR_add {f : Nat} {cs : List Char} (h : doR f cs ≠ .out) (k : Nat) :
    doR (f + k) cs = doR f cs := by
  induction k with
  | zero => rfl
  | succ k ih => rw [← Nat.add_assoc, (step (f + k)).d cs (by rw [ih]; exact h), ih]

theorem doR_mono {f f' : Nat} {cs : List Char} {x} (h : f ≤ f')
    (hx : doR f cs = .ok x) : doR f' cs = .ok x := by
  obtain ⟨k, rfl⟩ := Nat.exists_eq_add_of_le h
  rw [doR_add (by rw [hx]; exact Res.ok_ne_out), hx]

theorem doStmtsR_add {f : Nat} {cs : List Char} (h : doStmtsR f cs ≠ .out) (k : Nat) :
    doStmtsR (f + k) cs = doStmtsR f cs := by
  induction k with
  | zero => rfl
  | succ k ih => rw [← Nat.add_assoc, (step (f + k)).ds cs (by rw [ih]; exact h), ih]

theorem doStmtsR_mono {f f' : Nat} {cs : List Char} {x} (h : f ≤ f')
    (hx : doStmtsR f cs = .ok x) : doStmtsR f' cs = .ok x := by
  obtain ⟨k, rfl⟩ := Nat.exists_eq_add_of_le h
  rw [doStmtsR_add (by rw [hx]; exact Res.ok_ne_out), hx]

theorem doStmtR_add {f : Nat} {cs : List Char} (h : doStmtR f cs ≠ .out) (k : Nat) :
    doStmtR (f + k) cs = doStmtR f cs := by
  induction k with
  | zero => rfl
  | succ k ih => rw [← Nat.add_assoc, (step (f + k)).d1 cs (by rw [ih]; exact h), ih]

theorem doStmtR_mono {f f' : Nat} {cs : List Char} {x} (h : f ≤ f')
    (hx : doStmtR f cs = .ok x) : doStmtR f' cs = .ok x := by
  obtain ⟨k, rfl⟩ := Nat.exists_eq_add_of_le h
  rw [doStmtR_add (by rw [hx]; exact Res.ok_ne_out), hx]

/-! ### progress -/

/-- one call site of `lengths`: "out" and "fail" contradict `h`; the goal that remains is the
    `ok` case, with `h` reduced -/
macro "len_site " hn:ident " : " t:term " , " h:ident : tactic => `(tactic|
  (cases $hn:ident : $t
   case out => (rw [$hn:ident] at $h:ident; cases $h:ident)
   case fail => (rw [$hn:ident] at $h:ident; cases $h:ident)
   rw [$hn:ident] at $h:ident
   simp only at $h:ident))

structure LenAll (f : Nat) : Prop where
  e : ∀ lam cs its r, exprR lam f cs = .ok (its, r) → r.length < cs.length
  t : ∀ lam cs its r, tailR lam f cs = .ok (its, r) → r.length ≤ cs.length
  o : ∀ lam cs its r, operandR lam f cs = .ok (its, r) → r.length < cs.length
  m : ∀ cs e r, termR f cs = .ok (e, r) → r.length < cs.length
  l : ∀ cs e r, lamR f cs = .ok (e, r) → r.length < cs.length
  c : ∀ cs e r, condR f cs = .ok (e, r) → r.length < cs.length
  m2 : ∀ cs e r, term2R f cs = .ok (e, r) → r.length < cs.length
  p : ∀ cs its r, postR f cs = .ok (its, r) → r.length ≤ cs.length
  q : ∀ cs it r, postOpR f cs = .ok (it, r) → r.length < cs.length
  a : ∀ lst cs e r, argR lst f cs = .ok (e, r) → r.length < cs.length
  s : ∀ lst cs es r, argsTailR lst f cs = .ok (es, r) → r.length ≤ cs.length
  k : ∀ cs k r, recKeyR f cs = .ok (k, r) → r.length < cs.length
  rp : ∀ cs e r, recPairR f cs = .ok (e, r) → r.length < cs.length
  ri : ∀ cs e r, recItemR f cs = .ok (e, r) → r.length < cs.length
  rt : ∀ cs es r, recTailR f cs = .ok (es, r) → r.length ≤ cs.length
  d : ∀ cs e r, doR f cs = .ok (e, r) → r.length < cs.length
  ds : ∀ cs ss r, doStmtsR f cs = .ok (ss, r) → r.length ≤ cs.length
  d1 : ∀ cs oe r, doStmtR f cs = .ok (oe, r) → r.length < cs.length
  g : ∀ cs e r, asgR f cs = .ok (e, r) → r.length < cs.length

theorem lengths (f : Nat) : LenAll f := by
  induction f with
  | zero =>
    refine ⟨?_, ?_, ?_, ?_, ?_, ?_, ?_, ?_, ?_, ?_, ?_, ?_, ?_, ?_, ?_, ?_, ?_, ?_, ?_⟩
    · intro lam cs its r h; rw [exprR_zero] at h; cases h
    · intro lam cs its r h; rw [tailR_zero] at h; cases h
    · intro lam cs its r h; rw [operandR_zero] at h; cases h
    · intro cs its r h; rw [termR_zero] at h; cases h
    · intro cs its r h; rw [lamR_zero] at h; cases h
    · intro cs its r h; rw [condR_zero] at h; cases h
    · intro cs its r h; rw [term2R_zero] at h; cases h
    · intro cs its r h; rw [postR_zero] at h; cases h
    · intro cs its r h; rw [postOpR_zero] at h; cases h
    · intro lst cs its r h; rw [argR_zero] at h; cases h
    · intro lst cs its r h; rw [argsTailR_zero] at h; cases h
    · intro cs its r h; rw [recKeyR_zero] at h; cases h
    · intro cs its r h; rw [recPairR_zero] at h; cases h
    · intro cs its r h; rw [recItemR_zero] at h; cases h
    · intro cs its r h; rw [recTailR_zero] at h; cases h
    · intro cs its r h; rw [doR_zero] at h; cases h
    · intro cs its r h; rw [doStmtsR_zero] at h; cases h
    · intro cs its r h; rw [doStmtR_zero] at h; cases h
    · intro cs its r h; rw [asgR_zero] at h; cases h
  | succ f ih =>
    refine ⟨?_, ?_, ?_, ?_, ?_, ?_, ?_, ?_, ?_, ?_, ?_, ?_, ?_, ?_, ?_, ?_, ?_, ?_, ?_⟩
    · intro lam cs its r h
      rw [exprR_succ] at h
      len_site h1 : operandR lam f cs, h
      rename_i x; obtain ⟨its1, r1⟩ := x
      simp only at h
      len_site h2 : tailR lam f r1, h
      rename_i y; obtain ⟨its2, r2⟩ := y
      simp only [Res.ok.injEq, Prod.mk.injEq] at h
      obtain ⟨_, rfl⟩ := h
      have := ih.o _ _ _ _ h1
      have := ih.t _ _ _ _ h2
      omega
    · intro lam cs its r h
      rw [tailR_succ] at h
      cases hi : infixUsage lam cs with
      | none =>
        rw [hi] at h
        simp only [Res.ok.injEq, Prod.mk.injEq] at h
        obtain ⟨_, rfl⟩ := h
        exact Nat.le_refl _
      | some x =>
        obtain ⟨rule, r0⟩ := x
        rw [hi] at h
        simp only at h
        have h0 := infixUsage_length hi
        cases h1 : operandR lam f r0 with
        | out => rw [h1] at h; cases h
        | fail =>
          rw [h1] at h
          simp only [Res.ok.injEq, Prod.mk.injEq] at h
          obtain ⟨_, rfl⟩ := h
          exact Nat.le_refl _
        | ok x =>
          obtain ⟨its1, r1⟩ := x
          rw [h1] at h
          simp only at h
          len_site h2 : tailR lam f r1, h
          rename_i y; obtain ⟨its2, r2⟩ := y
          simp only [Res.ok.injEq, Prod.mk.injEq] at h
          obtain ⟨_, rfl⟩ := h
          have := ih.o _ _ _ _ h1
          have := ih.t _ _ _ _ h2
          omega
    · intro lam cs its r h
      rw [operandR_succ] at h
      have hpre := prefixStar_length cs
      len_site h1 : termR f (prefixStar cs).2, h
      rename_i x; obtain ⟨e, r1⟩ := x
      simp only at h
      len_site h2 : postR f r1, h
      rename_i y; obtain ⟨post, r2⟩ := y
      simp only [Res.ok.injEq, Prod.mk.injEq] at h
      obtain ⟨_, rfl⟩ := h
      have := ih.m _ _ _ h1
      have := ih.p _ _ _ h2
      omega
    · intro cs e r h
      rw [termR_succ] at h
      cases h0 : condR f cs with
      | out => rw [h0] at h; cases h
      | ok x =>
        obtain ⟨e', r'⟩ := x
        rw [h0] at h
        simp only [Res.ok.injEq, Prod.mk.injEq] at h
        obtain ⟨_, rfl⟩ := h
        exact ih.c _ _ _ h0
      | fail =>
        rw [h0] at h
        simp only at h
        cases hd : doR f cs with
        | out => rw [hd] at h; cases h
        | ok x =>
          obtain ⟨e', r'⟩ := x
          rw [hd] at h
          simp only [Res.ok.injEq, Prod.mk.injEq] at h
          obtain ⟨_, rfl⟩ := h
          exact ih.d _ _ _ hd
        | fail =>
          rw [hd] at h
          simp only at h
          cases h1 : lamR f cs with
          | out => rw [h1] at h; cases h
          | ok x =>
            obtain ⟨e', r'⟩ := x
            rw [h1] at h
            simp only [Res.ok.injEq, Prod.mk.injEq] at h
            obtain ⟨_, rfl⟩ := h
            exact ih.l _ _ _ h1
          | fail =>
            rw [h1] at h
            simp only at h
            cases hg : asgR f cs with
            | out => rw [hg] at h; cases h
            | ok x =>
              obtain ⟨e', r'⟩ := x
              rw [hg] at h
              simp only [Res.ok.injEq, Prod.mk.injEq] at h
              obtain ⟨_, rfl⟩ := h
              exact ih.g _ _ _ hg
            | fail =>
              rw [hg] at h
              exact ih.m2 _ _ _ h
    · intro cs e r h
      rw [lamR_succ] at h
      split at h
      · rename_i args r0 hh
        have h0 := lambdaHead_length hh
        len_site h1 : exprR true f r0, h
        rename_i x; obtain ⟨its, r2⟩ := x
        simp only at h
        split at h
        · simp only [Res.ok.injEq, Prod.mk.injEq] at h
          obtain ⟨_, rfl⟩ := h
          have := ih.e _ _ _ _ h1
          omega
        · cases h
      · cases h
    · intro cs e r h
      rw [condR_succ] at h
      split at h
      · rename_i r1 hh
        have h0 := ifHead_length hh
        len_site h1 : exprR false f r1, h
        rename_i x; obtain ⟨its1, r2⟩ := x
        simp only at h
        split at h
        · rename_i r3 hk1
          have := kwGap_length hk1
          len_site h2 : exprR false f r3, h
          rename_i y; obtain ⟨its2, r4⟩ := y
          simp only at h
          split at h
          · rename_i r5 hk2
            have := kwGap_length hk2
            len_site h3 : exprR false f r5, h
            rename_i z; obtain ⟨its3, r6⟩ := z
            simp only at h
            split at h
            · simp only [Res.ok.injEq, Prod.mk.injEq] at h
              obtain ⟨_, rfl⟩ := h
              have := ih.e _ _ _ _ h1
              have := ih.e _ _ _ _ h2
              have := ih.e _ _ _ _ h3
              omega
            · cases h
          · cases h
        · cases h
      · cases h
    · intro cs e r h
      rw [term2R_succ] at h
      split at h
      · rename_i e' r' hta
        simp only [Res.ok.injEq, Prod.mk.injEq] at h
        obtain ⟨_, rfl⟩ := h
        exact termAtom_length hta
      · split at h
        · rename_i r1 _
          len_site h1 : exprR false f (layoutStar r1), h
          rename_i x; obtain ⟨its, r2⟩ := x
          simp only at h
          split at h
          · rename_i r3 hl
            split at h
            · simp only [Res.ok.injEq, Prod.mk.injEq] at h
              obtain ⟨_, rfl⟩ := h
              have := ih.e _ _ _ _ h1
              have := layoutStar_length r1
              have h3 := layoutStar_length r2
              rw [hl] at h3
              simp only [List.length_cons] at h3 ⊢
              omega
            · cases h
          · cases h
        · rename_i r1 _
          have hls := gapG_length r1
          cases h1 : argR true f (gapG r1) with
          | out => rw [h1] at h; cases h
          | fail =>
            rw [h1] at h
            simp only at h
            split at h
            · rename_i r4 hc
              simp only [Res.ok.injEq, Prod.mk.injEq] at h
              obtain ⟨_, rfl⟩ := h
              have := listClose_length hc
              simp only [List.length_cons]
              omega
            · cases h
          | ok x =>
            obtain ⟨a, r2⟩ := x
            rw [h1] at h
            simp only at h
            len_site h2 : argsTailR true f r2, h
            rename_i y; obtain ⟨more, r3⟩ := y
            simp only at h
            split at h
            · rename_i r4 hc
              simp only [Res.ok.injEq, Prod.mk.injEq] at h
              obtain ⟨_, rfl⟩ := h
              have := listClose_length hc
              have := ih.a _ _ _ _ h1
              have := ih.s _ _ _ _ h2
              simp only [List.length_cons]
              omega
            · cases h
        · rename_i r1 _
          have hls := gapG_length r1
          cases h1 : recItemR f (gapG r1) with
          | out => rw [h1] at h; cases h
          | fail =>
            rw [h1] at h
            simp only at h
            split at h
            · rename_i r4 hc
              simp only [Res.ok.injEq, Prod.mk.injEq] at h
              obtain ⟨_, rfl⟩ := h
              have := recordClose_length hc
              simp only [List.length_cons]
              omega
            · cases h
          | ok x =>
            obtain ⟨a, r2⟩ := x
            rw [h1] at h
            simp only at h
            len_site h2 : recTailR f r2, h
            rename_i y; obtain ⟨more, r3⟩ := y
            simp only at h
            split at h
            · rename_i r4 hc
              simp only [Res.ok.injEq, Prod.mk.injEq] at h
              obtain ⟨_, rfl⟩ := h
              have := recordClose_length hc
              have := ih.ri _ _ _ h1
              have := ih.rt _ _ _ h2
              simp only [List.length_cons]
              omega
            · cases h
        · cases h
    · intro cs its r h
      rw [postR_succ] at h
      cases h1 : postOpR f cs with
      | out => rw [h1] at h; cases h
      | fail =>
        rw [h1] at h
        simp only [Res.ok.injEq, Prod.mk.injEq] at h
        obtain ⟨_, rfl⟩ := h
        exact Nat.le_refl _
      | ok x =>
        obtain ⟨it, r1⟩ := x
        rw [h1] at h
        simp only at h
        len_site h2 : postR f r1, h
        rename_i y; obtain ⟨more, r2⟩ := y
        simp only [Res.ok.injEq, Prod.mk.injEq] at h
        obtain ⟨_, rfl⟩ := h
        have := ih.q _ _ _ h1
        have := ih.p _ _ _ h2
        omega
    · intro cs it r h
      rw [postOpR_succ] at h
      split at h
      · rename_i rl r' hf
        simp only [Res.ok.injEq, Prod.mk.injEq] at h
        obtain ⟨_, rfl⟩ := h
        exact firstRule_length postfixLits_nonempty hf
      · split at h
        · rename_i r1 _
          len_site h1 : exprR false f (nlStar r1), h
          rename_i x; obtain ⟨its, r2⟩ := x
          simp only at h
          split at h
          · rename_i r3 hl
            split at h
            · simp only [Res.ok.injEq, Prod.mk.injEq] at h
              obtain ⟨_, rfl⟩ := h
              have := ih.e _ _ _ _ h1
              have := nlStar_length r1
              have h3 := nlStar_length r2
              rw [hl] at h3
              simp only [List.length_cons] at h3 ⊢
              omega
            · cases h
          · cases h
        · rename_i r1 _
          have hls := layoutStar_length r1
          cases h1 : argR false f (layoutStar r1) with
          | out => rw [h1] at h; cases h
          | fail =>
            rw [h1] at h
            simp only at h
            split at h
            · rename_i r4 hc
              simp only [Res.ok.injEq, Prod.mk.injEq] at h
              obtain ⟨_, rfl⟩ := h
              have := callClose_length hc
              simp only [List.length_cons]
              omega
            · cases h
          | ok x =>
            obtain ⟨a, r2⟩ := x
            rw [h1] at h
            simp only at h
            len_site h2 : argsTailR false f r2, h
            rename_i y; obtain ⟨more, r3⟩ := y
            simp only at h
            split at h
            · rename_i r4 hc
              simp only [Res.ok.injEq, Prod.mk.injEq] at h
              obtain ⟨_, rfl⟩ := h
              have := callClose_length hc
              have := ih.a _ _ _ _ h1
              have := ih.s _ _ _ _ h2
              simp only [List.length_cons]
              omega
            · cases h
        · rename_i r1 _
          split at h
          · rename_i r2 hid
            simp only [Res.ok.injEq, Prod.mk.injEq] at h
            obtain ⟨_, rfl⟩ := h
            have := identifier_length hid
            simp only [List.length_cons]
            omega
          · cases h
        · cases h
    · intro lst cs e r h
      rw [argR_succ] at h
      split at h
      · rename_i r1 hl
        have hll := lit_length hl
        len_site h1 : exprR false f r1, h
        rename_i x; obtain ⟨its, r2⟩ := x
        simp only at h
        split at h
        · simp only [Res.ok.injEq, Prod.mk.injEq] at h
          obtain ⟨_, rfl⟩ := h
          have := ih.e _ _ _ _ h1
          have := itemTrail_length r2
          split <;> omega
        · cases h
      · len_site h1 : exprR false f cs, h
        rename_i x; obtain ⟨its, r2⟩ := x
        simp only at h
        split at h
        · simp only [Res.ok.injEq, Prod.mk.injEq] at h
          obtain ⟨_, rfl⟩ := h
          have := ih.e _ _ _ _ h1
          have := itemTrail_length r2
          split <;> omega
        · cases h
    · intro lst cs es r h
      rw [argsTailR_succ] at h
      split at h
      · rename_i r0 hs
        have hsk := skipWs_length cs
        rw [hs] at hsk
        simp only [List.length_cons] at hsk
        have hls : (if lst then gapG r0 else layoutStar r0).length ≤ r0.length := by
          split
          · exact gapG_length r0
          · exact layoutStar_length r0
        cases h1 : argR lst f (if lst then gapG r0 else layoutStar r0) with
        | out => rw [h1] at h; cases h
        | fail =>
          rw [h1] at h
          simp only [Res.ok.injEq, Prod.mk.injEq] at h
          obtain ⟨_, rfl⟩ := h
          exact Nat.le_refl _
        | ok x =>
          obtain ⟨a, r1⟩ := x
          rw [h1] at h
          simp only at h
          len_site h2 : argsTailR lst f r1, h
          rename_i y; obtain ⟨more, r2⟩ := y
          simp only [Res.ok.injEq, Prod.mk.injEq] at h
          obtain ⟨_, rfl⟩ := h
          have := ih.a _ _ _ _ h1
          have := ih.s _ _ _ _ h2
          omega
      · simp only [Res.ok.injEq, Prod.mk.injEq] at h
        obtain ⟨_, rfl⟩ := h
        exact Nat.le_refl _
    · intro cs k r h
      rw [recKeyR_succ] at h
      split at h
      · rename_i r0 hid
        simp only [Res.ok.injEq, Prod.mk.injEq] at h
        obtain ⟨_, rfl⟩ := h
        exact identifier_length hid
      · split at h
        · rename_i s0 r0 hs
          simp only [Res.ok.injEq, Prod.mk.injEq] at h
          obtain ⟨_, rfl⟩ := h
          exact stringRule_length hs
        · split at h
          · rename_i r1 _ _
            len_site h1 : exprR false f (skipWs r1), h
            rename_i x; obtain ⟨its, r2⟩ := x
            simp only at h
            split at h
            · rename_i r3 hl
              split at h
              · simp only [Res.ok.injEq, Prod.mk.injEq] at h
                obtain ⟨_, rfl⟩ := h
                have := ih.e _ _ _ _ h1
                have := skipWs_length r1
                have h3 := skipWs_length r2
                rw [hl] at h3
                simp only [List.length_cons] at h3 ⊢
                omega
              · cases h
            · cases h
          · cases h
    · intro cs e r h
      rw [recPairR_succ] at h
      len_site h1 : recKeyR f cs, h
      rename_i x; obtain ⟨k, r1⟩ := x
      simp only at h
      split at h
      · rename_i r2 hs
        len_site h2 : exprR false f (layoutStar r2), h
        rename_i y; obtain ⟨its, r3⟩ := y
        simp only at h
        split at h
        · simp only [Res.ok.injEq, Prod.mk.injEq] at h
          obtain ⟨_, rfl⟩ := h
          have := ih.k _ _ _ h1
          have := ih.e _ _ _ _ h2
          have h3 := skipWs_length r1
          rw [hs] at h3
          have := layoutStar_length r2
          simp only [List.length_cons] at h3
          omega
        · cases h
      · cases h
    · intro cs e r h
      rw [recItemR_succ] at h
      cases h0 : recPairR f cs with
      | out => rw [h0] at h; cases h
      | ok x =>
        obtain ⟨e', r'⟩ := x
        rw [h0] at h
        simp only [Res.ok.injEq, Prod.mk.injEq] at h
        obtain ⟨_, rfl⟩ := h
        have := ih.rp _ _ _ h0
        have := itemTrail_length r'
        omega
      | fail =>
        rw [h0] at h
        simp only at h
        split at h
        · rename_i r0 hid
          simp only [Res.ok.injEq, Prod.mk.injEq] at h
          obtain ⟨_, rfl⟩ := h
          have := identifier_length hid
          have := itemTrail_length r0
          omega
        · split at h
          · rename_i r1 hl
            have hll := lit_length hl
            len_site h1 : exprR false f r1, h
            rename_i x; obtain ⟨its, r2⟩ := x
            simp only at h
            split at h
            · simp only [Res.ok.injEq, Prod.mk.injEq] at h
              obtain ⟨_, rfl⟩ := h
              have := ih.e _ _ _ _ h1
              have := itemTrail_length r2
              omega
            · cases h
          · cases h
    · intro cs es r h
      rw [recTailR_succ] at h
      split at h
      · rename_i r0 hs
        have hsk := skipWs_length cs
        rw [hs] at hsk
        simp only [List.length_cons] at hsk
        have hls := gapG_length r0
        cases h1 : recItemR f (gapG r0) with
        | out => rw [h1] at h; cases h
        | fail =>
          rw [h1] at h
          simp only [Res.ok.injEq, Prod.mk.injEq] at h
          obtain ⟨_, rfl⟩ := h
          exact Nat.le_refl _
        | ok x =>
          obtain ⟨a, r1⟩ := x
          rw [h1] at h
          simp only at h
          len_site h2 : recTailR f r1, h
          rename_i y; obtain ⟨more, r2⟩ := y
          simp only [Res.ok.injEq, Prod.mk.injEq] at h
          obtain ⟨_, rfl⟩ := h
          have := ih.ri _ _ _ h1
          have := ih.rt _ _ _ h2
          omega
      · simp only [Res.ok.injEq, Prod.mk.injEq] at h
        obtain ⟨_, rfl⟩ := h
        exact Nat.le_refl _
    · intro cs e r h
      rw [doR_succ] at h
      split at h
      · rename_i r1 hh
        have h0 := doHead_length hh
        len_site h1 : doStmtsR f r1, h
        rename_i x; obtain ⟨stmts, r2⟩ := x
        simp only at h
        split at h
        · rename_i r3 hr
          have hr3 := retHead_length hr
          have hg := gapH_length r2
          len_site h2 : exprR false f r3, h
          rename_i y; obtain ⟨its, r4⟩ := y
          simp only at h
          split at h
          · rename_i r5 hw
            split at h
            · simp only [Res.ok.injEq, Prod.mk.injEq] at h
              obtain ⟨_, rfl⟩ := h
              have := ih.ds _ _ _ h1
              have := ih.e _ _ _ _ h2
              have h5 := wnStar_length r4
              rw [hw] at h5
              simp only [List.length_cons] at h5
              omega
            · cases h
          · cases h
        · cases h
      · cases h
    · intro cs ss r h
      rw [doStmtsR_succ] at h
      have hsk := skipWs_length cs
      cases h1 : doStmtR f (skipWs cs) with
      | out => rw [h1] at h; cases h
      | fail =>
        rw [h1] at h
        simp only [Res.ok.injEq, Prod.mk.injEq] at h
        obtain ⟨_, rfl⟩ := h
        exact Nat.le_refl _
      | ok x =>
        obtain ⟨oe, r1⟩ := x
        rw [h1] at h
        simp only at h
        split at h
        · rename_i r2 hs
          have hs2 := stmtSep_length hs
          have := skipWs_length r1
          have := gapG_length r2
          len_site h2 : doStmtsR f (gapG r2), h
          rename_i y; obtain ⟨more, r3⟩ := y
          simp only [Res.ok.injEq, Prod.mk.injEq] at h
          obtain ⟨_, rfl⟩ := h
          have := ih.d1 _ _ _ h1
          have := ih.ds _ _ _ h2
          omega
        · simp only [Res.ok.injEq, Prod.mk.injEq] at h
          obtain ⟨_, rfl⟩ := h
          exact Nat.le_refl _
    · intro cs oe r h
      rw [doStmtR_succ] at h
      cases h1 : exprR false f cs with
      | out => rw [h1] at h; cases h
      | ok x =>
        obtain ⟨its, r1⟩ := x
        rw [h1] at h
        simp only at h
        split at h
        · simp only [Res.ok.injEq, Prod.mk.injEq] at h
          obtain ⟨_, rfl⟩ := h
          have := ih.e _ _ _ _ h1
          have := itemTrail_length r1
          omega
        · cases h
      | fail =>
        rw [h1] at h
        simp only at h
        split at h
        · rename_i r1 hc
          simp only [Res.ok.injEq, Prod.mk.injEq] at h
          obtain ⟨_, rfl⟩ := h
          have := inlineComment_length hc
          have := itemTrail_length r1
          omega
        · cases h
    · intro cs e r h
      rw [asgR_succ] at h
      split at h
      · rename_i n r0 hh
        have h0 := asgHead_length hh
        len_site h1 : exprR false f r0, h
        rename_i x; obtain ⟨its, r2⟩ := x
        simp only at h
        split at h
        · simp only [Res.ok.injEq, Prod.mk.injEq] at h
          obtain ⟨_, rfl⟩ := h
          have := ih.e _ _ _ _ h1
          omega
        · cases h
      · cases h

theorem exprR_length {lam f cs its r} (h : exprR lam f cs = .ok (its, r)) :
    r.length < cs.length := (lengths f).e lam cs its r h
theorem tailR_length {lam f cs its r} (h : tailR lam f cs = .ok (its, r)) :
    r.length ≤ cs.length := (lengths f).t lam cs its r h
theorem operandR_length {lam f cs its r} (h : operandR lam f cs = .ok (its, r)) :
    r.length < cs.length := (lengths f).o lam cs its r h
theorem termR_length {f cs e r} (h : termR f cs = .ok (e, r)) :
    r.length < cs.length := (lengths f).m cs e r h
theorem lamR_length {f cs e r} (h : lamR f cs = .ok (e, r)) :
    r.length < cs.length := (lengths f).l cs e r h
theorem asgR_length {f cs e r} (h : asgR f cs = .ok (e, r)) :
    r.length < cs.length := (lengths f).g cs e r h
theorem condR_length {f cs e r} (h : condR f cs = .ok (e, r)) :
    r.length < cs.length := (lengths f).c cs e r h
theorem term2R_length {f cs e r} (h : term2R f cs = .ok (e, r)) :
    r.length < cs.length := (lengths f).m2 cs e r h
theorem postR_length {f cs its r} (h : postR f cs = .ok (its, r)) :
    r.length ≤ cs.length := (lengths f).p cs its r h
theorem postOpR_length {f cs it r} (h : postOpR f cs = .ok (it, r)) :
    r.length < cs.length := (lengths f).q cs it r h
theorem argR_length {lst f cs e r} (h : argR lst f cs = .ok (e, r)) :
    r.length < cs.length := (lengths f).a lst cs e r h
theorem argsTailR_length {lst f cs es r} (h : argsTailR lst f cs = .ok (es, r)) :
    r.length ≤ cs.length := (lengths f).s lst cs es r h
theorem recKeyR_length {f cs k r} (h : recKeyR f cs = .ok (k, r)) :
    r.length < cs.length := (lengths f).k cs k r h
theorem recPairR_length {f cs e r} (h : recPairR f cs = .ok (e, r)) :
    r.length < cs.length := (lengths f).rp cs e r h
theorem recItemR_length {f cs e r} (h : recItemR f cs = .ok (e, r)) :
    r.length < cs.length := (lengths f).ri cs e r h
theorem recTailR_length {f cs es r} (h : recTailR f cs = .ok (es, r)) :
    r.length ≤ cs.length := (lengths f).rt cs es r h
theorem doR_length {f cs e r} (h : doR f cs = .ok (e, r)) :
    r.length < cs.length := (lengths f).d cs e r h
theorem doStmtsR_length {f cs ss r} (h : doStmtsR f cs = .ok (ss, r)) :
    r.length ≤ cs.length := (lengths f).ds cs ss r h
theorem doStmtR_length {f cs oe r} (h : doStmtR f cs = .ok (oe, r)) :
    r.length < cs.length := (lengths f).d1 cs oe r h

/-! ### the driver's fuel suffices -/

/-- one call site of `fuel_suffices`: the recursive call does not run out (`pf`); "fail"
    closes the goal where the caller fails too; the goal that remains is the `ok` case -/
macro "fs_site " hn:ident " : " t:term " , " pf:term : tactic => `(tactic|
  (cases $hn:ident : $t
   case out => exact absurd $hn $pf
   case fail => (first | exact Res.fail_ne_out | exact Res.ok_ne_out)
   simp only))

/-- ranks (`recItemR` 6 > `recPairR` 2 > `recKeyR` 1): a call on the SAME input goes to a function of smaller rank (`argR` 5 > `exprR` 4 >
    `operandR` 3 > `termR` 2 > `condR`, `lamR`, `term2R` 1; `postR` 2 > `postOpR` 1), every other call
    is on a shorter input -/
structure FuelAll (f : Nat) (cs : List Char) : Prop where
  e : ∀ lam, 8 * cs.length + 5 ≤ f → exprR lam f cs ≠ .out
  t : ∀ lam, 8 * cs.length + 1 ≤ f → tailR lam f cs ≠ .out
  o : ∀ lam, 8 * cs.length + 4 ≤ f → operandR lam f cs ≠ .out
  m : 8 * cs.length + 3 ≤ f → termR f cs ≠ .out
  l : 8 * cs.length + 2 ≤ f → lamR f cs ≠ .out
  c : 8 * cs.length + 2 ≤ f → condR f cs ≠ .out
  m2 : 8 * cs.length + 2 ≤ f → term2R f cs ≠ .out
  p : 8 * cs.length + 2 ≤ f → postR f cs ≠ .out
  q : 8 * cs.length + 1 ≤ f → postOpR f cs ≠ .out
  a : ∀ lst, 8 * cs.length + 6 ≤ f → argR lst f cs ≠ .out
  s : ∀ lst, 8 * cs.length + 1 ≤ f → argsTailR lst f cs ≠ .out
  k : 8 * cs.length + 1 ≤ f → recKeyR f cs ≠ .out
  rp : 8 * cs.length + 2 ≤ f → recPairR f cs ≠ .out
  ri : 8 * cs.length + 6 ≤ f → recItemR f cs ≠ .out
  rt : 8 * cs.length + 1 ≤ f → recTailR f cs ≠ .out
  d : 8 * cs.length + 2 ≤ f → doR f cs ≠ .out
  ds : 8 * cs.length + 7 ≤ f → doStmtsR f cs ≠ .out
  d1 : 8 * cs.length + 6 ≤ f → doStmtR f cs ≠ .out
  g : 8 * cs.length + 2 ≤ f → asgR f cs ≠ .out

theorem fuel_suffices (f : Nat) (cs : List Char) : FuelAll f cs := by
  induction f generalizing cs with
  | zero =>
    refine ⟨?_, ?_, ?_, ?_, ?_, ?_, ?_, ?_, ?_, ?_, ?_, ?_, ?_, ?_, ?_, ?_, ?_, ?_, ?_⟩ <;> intros <;> omega
  | succ f ih =>
    refine ⟨?_, ?_, ?_, ?_, ?_, ?_, ?_, ?_, ?_, ?_, ?_, ?_, ?_, ?_, ?_, ?_, ?_, ?_, ?_⟩
    · intro lam hf
      rw [exprR_succ]
      fs_site h1 : operandR lam f cs, ((ih cs).o lam (by omega))
      rename_i x; obtain ⟨its, r⟩ := x
      have := operandR_length h1
      simp only
      fs_site h2 : tailR lam f r, ((ih r).t lam (by omega))
      exact Res.ok_ne_out
    · intro lam hf
      rw [tailR_succ]
      cases hi : infixUsage lam cs with
      | none => exact Res.ok_ne_out
      | some x =>
        obtain ⟨rule, r0⟩ := x
        simp only
        have h0 := infixUsage_length hi
        fs_site h1 : operandR lam f r0, ((ih r0).o lam (by omega))
        rename_i x; obtain ⟨its, r⟩ := x
        have := operandR_length h1
        simp only
        fs_site h2 : tailR lam f r, ((ih r).t lam (by omega))
        exact Res.ok_ne_out
    · intro lam hf
      rw [operandR_succ]
      have hpre := prefixStar_length cs
      fs_site h1 : termR f (prefixStar cs).2, ((ih _).m (by omega))
      rename_i x; obtain ⟨e, r⟩ := x
      have := termR_length h1
      simp only
      fs_site h2 : postR f r, ((ih r).p (by omega))
      exact Res.ok_ne_out
    · intro hf
      rw [termR_succ]
      cases h0 : condR f cs with
      | out => exact absurd h0 ((ih cs).c (by omega))
      | ok x => exact Res.ok_ne_out
      | fail =>
        simp only
        cases hd : doR f cs with
        | out => exact absurd hd ((ih cs).d (by omega))
        | ok x => exact Res.ok_ne_out
        | fail =>
          simp only
          cases h1 : lamR f cs with
          | out => exact absurd h1 ((ih cs).l (by omega))
          | ok x => exact Res.ok_ne_out
          | fail =>
            simp only
            cases hg : asgR f cs with
            | out => exact absurd hg ((ih cs).g (by omega))
            | ok x => exact Res.ok_ne_out
            | fail => exact (ih cs).m2 (by omega)
    · intro hf
      rw [lamR_succ]
      split
      · rename_i args r0 hh
        have := lambdaHead_length hh
        fs_site h1 : exprR true f r0, ((ih r0).e true (by omega))
        split
        · exact Res.ok_ne_out
        · exact Res.fail_ne_out
      · exact Res.fail_ne_out
    · intro hf
      rw [condR_succ]
      split
      · rename_i r1 hh
        have := ifHead_length hh
        fs_site h1 : exprR false f r1, ((ih r1).e false (by omega))
        rename_i x; obtain ⟨its1, r2⟩ := x
        have := exprR_length h1
        simp only
        split
        · rename_i r3 hk1
          have := kwGap_length hk1
          fs_site h2 : exprR false f r3, ((ih r3).e false (by omega))
          rename_i y; obtain ⟨its2, r4⟩ := y
          have := exprR_length h2
          simp only
          split
          · rename_i r5 hk2
            have := kwGap_length hk2
            fs_site h3 : exprR false f r5, ((ih r5).e false (by omega))
            split
            · exact Res.ok_ne_out
            · exact Res.fail_ne_out
          · exact Res.fail_ne_out
        · exact Res.fail_ne_out
      · exact Res.fail_ne_out
    · intro hf
      rw [term2R_succ]
      split
      · exact Res.ok_ne_out
      · split
        · rename_i r1 _
          have := layoutStar_length r1
          simp only [List.length_cons] at hf
          fs_site h1 : exprR false f (layoutStar r1), ((ih _).e false (by omega))
          split
          · split
            · exact Res.ok_ne_out
            · exact Res.fail_ne_out
          · exact Res.fail_ne_out
        · rename_i r1 _
          have := gapG_length r1
          simp only [List.length_cons] at hf
          cases h1 : argR true f (gapG r1) with
          | out => exact absurd h1 ((ih _).a true (by omega))
          | fail =>
            simp only
            split
            · exact Res.ok_ne_out
            · exact Res.fail_ne_out
          | ok x =>
            obtain ⟨a, r2⟩ := x
            have := argR_length h1
            simp only
            fs_site h2 : argsTailR true f r2, ((ih r2).s true (by omega))
            split
            · exact Res.ok_ne_out
            · exact Res.fail_ne_out
        · rename_i r1 _
          have := gapG_length r1
          simp only [List.length_cons] at hf
          cases h1 : recItemR f (gapG r1) with
          | out => exact absurd h1 ((ih _).ri (by omega))
          | fail =>
            simp only
            split
            · exact Res.ok_ne_out
            · exact Res.fail_ne_out
          | ok x =>
            obtain ⟨a, r2⟩ := x
            have := recItemR_length h1
            simp only
            fs_site h2 : recTailR f r2, ((ih r2).rt (by omega))
            split
            · exact Res.ok_ne_out
            · exact Res.fail_ne_out
        · exact Res.fail_ne_out
    · intro hf
      rw [postR_succ]
      fs_site h1 : postOpR f cs, ((ih cs).q (by omega))
      rename_i x; obtain ⟨it, r⟩ := x
      have := postOpR_length h1
      simp only
      fs_site h2 : postR f r, ((ih r).p (by omega))
      exact Res.ok_ne_out
    · intro hf
      rw [postOpR_succ]
      split
      · exact Res.ok_ne_out
      · split
        · rename_i r1 _
          have := nlStar_length r1
          simp only [List.length_cons] at hf
          fs_site h1 : exprR false f (nlStar r1), ((ih _).e false (by omega))
          split
          · split
            · exact Res.ok_ne_out
            · exact Res.fail_ne_out
          · exact Res.fail_ne_out
        · rename_i r1 _
          have := layoutStar_length r1
          simp only [List.length_cons] at hf
          cases h1 : argR false f (layoutStar r1) with
          | out => exact absurd h1 ((ih _).a false (by omega))
          | fail =>
            simp only
            split
            · exact Res.ok_ne_out
            · exact Res.fail_ne_out
          | ok x =>
            obtain ⟨a, r2⟩ := x
            have := argR_length h1
            simp only
            fs_site h2 : argsTailR false f r2, ((ih r2).s false (by omega))
            split
            · exact Res.ok_ne_out
            · exact Res.fail_ne_out
        · split
          · exact Res.ok_ne_out
          · exact Res.fail_ne_out
        · exact Res.fail_ne_out
    · intro lst hf
      rw [argR_succ]
      split
      · rename_i r1 hl
        have := lit_length hl
        fs_site h1 : exprR false f r1, ((ih r1).e false (by omega))
        split
        · exact Res.ok_ne_out
        · exact Res.fail_ne_out
      · fs_site h1 : exprR false f cs, ((ih cs).e false (by omega))
        split
        · exact Res.ok_ne_out
        · exact Res.fail_ne_out
    · intro lst hf
      rw [argsTailR_succ]
      split
      · rename_i r0 hs
        have hsk := skipWs_length cs
        rw [hs] at hsk
        simp only [List.length_cons] at hsk
        have hls : (if lst then gapG r0 else layoutStar r0).length ≤ r0.length := by
          split
          · exact gapG_length r0
          · exact layoutStar_length r0
        fs_site h1 : argR lst f (if lst then gapG r0 else layoutStar r0),
          ((ih _).a lst (by omega))
        rename_i x; obtain ⟨a, r1⟩ := x
        have := argR_length h1
        simp only
        fs_site h2 : argsTailR lst f r1, ((ih r1).s lst (by omega))
        exact Res.ok_ne_out
      · exact Res.ok_ne_out
    · intro hf
      rw [recKeyR_succ]
      split
      · exact Res.ok_ne_out
      · split
        · exact Res.ok_ne_out
        · split
          · rename_i r1 _ _
            have := skipWs_length r1
            simp only [List.length_cons] at hf
            fs_site h1 : exprR false f (skipWs r1), ((ih _).e false (by omega))
            split
            · split
              · exact Res.ok_ne_out
              · exact Res.fail_ne_out
            · exact Res.fail_ne_out
          · exact Res.fail_ne_out
    · intro hf
      rw [recPairR_succ]
      fs_site h1 : recKeyR f cs, ((ih cs).k (by omega))
      rename_i x; obtain ⟨k, r1⟩ := x
      have := recKeyR_length h1
      simp only
      split
      · rename_i r2 hs
        have h3 := skipWs_length r1
        rw [hs] at h3
        simp only [List.length_cons] at h3
        have := layoutStar_length r2
        fs_site h2 : exprR false f (layoutStar r2), ((ih _).e false (by omega))
        split
        · exact Res.ok_ne_out
        · exact Res.fail_ne_out
      · exact Res.fail_ne_out
    · intro hf
      rw [recItemR_succ]
      cases h0 : recPairR f cs with
      | out => exact absurd h0 ((ih cs).rp (by omega))
      | ok x => exact Res.ok_ne_out
      | fail =>
        simp only
        split
        · exact Res.ok_ne_out
        · split
          · rename_i r1 hl
            have := lit_length hl
            fs_site h1 : exprR false f r1, ((ih r1).e false (by omega))
            split
            · exact Res.ok_ne_out
            · exact Res.fail_ne_out
          · exact Res.fail_ne_out
    · intro hf
      rw [recTailR_succ]
      split
      · rename_i r0 hs
        have hsk := skipWs_length cs
        rw [hs] at hsk
        simp only [List.length_cons] at hsk
        have hls := gapG_length r0
        fs_site h1 : recItemR f (gapG r0), ((ih _).ri (by omega))
        rename_i x; obtain ⟨a, r1⟩ := x
        have := recItemR_length h1
        simp only
        fs_site h2 : recTailR f r1, ((ih r1).rt (by omega))
        exact Res.ok_ne_out
      · exact Res.ok_ne_out
    · intro hf
      rw [doR_succ]
      split
      · rename_i r1 hh
        have := doHead_length hh
        fs_site h1 : doStmtsR f r1, ((ih r1).ds (by omega))
        rename_i x; obtain ⟨stmts, r2⟩ := x
        have := doStmtsR_length h1
        simp only
        split
        · rename_i r3 hr
          have := retHead_length hr
          have := gapH_length r2
          fs_site h2 : exprR false f r3, ((ih r3).e false (by omega))
          split
          · split
            · exact Res.ok_ne_out
            · exact Res.fail_ne_out
          · exact Res.fail_ne_out
        · exact Res.fail_ne_out
      · exact Res.fail_ne_out
    · intro hf
      rw [doStmtsR_succ]
      have hsk := skipWs_length cs
      cases h1 : doStmtR f (skipWs cs) with
      | out => exact absurd h1 ((ih _).d1 (by omega))
      | fail => exact Res.ok_ne_out
      | ok x =>
        obtain ⟨oe, r1⟩ := x
        have := doStmtR_length h1
        simp only
        split
        · rename_i r2 hs
          have := stmtSep_length hs
          have := skipWs_length r1
          have := gapG_length r2
          fs_site h2 : doStmtsR f (gapG r2), ((ih _).ds (by omega))
          exact Res.ok_ne_out
        · exact Res.ok_ne_out
    · intro hf
      rw [doStmtR_succ]
      cases h1 : exprR false f cs with
      | out => exact absurd h1 ((ih cs).e false (by omega))
      | ok x =>
        simp only
        split
        · exact Res.ok_ne_out
        · exact Res.fail_ne_out
      | fail =>
        simp only
        split
        · exact Res.ok_ne_out
        · exact Res.fail_ne_out
    · intro hf
      rw [asgR_succ]
      split
      · rename_i n r0 hh
        have := asgHead_length hh
        fs_site h1 : exprR false f r0, ((ih r0).e false (by omega))
        split
        · exact Res.ok_ne_out
        · exact Res.fail_ne_out
      · exact Res.fail_ne_out

theorem exprR_fuel_suffices {lam : Bool} {f : Nat} {cs : List Char} {x}
    (hx : exprR lam f cs = .ok x) : ∀ f', fuelFor cs ≤ f' → exprR lam f' cs = .ok x := by
  intro f' hf'
  have hne : exprR lam f' cs ≠ .out := (fuel_suffices f' cs).e lam (by unfold fuelFor at hf'; omega)
  rcases Nat.le_total f f' with hle | hle
  · exact exprR_mono hle hx
  · obtain ⟨k, rfl⟩ := Nat.exists_eq_add_of_le hle
    rw [exprR_add hne k] at hx
    exact hx

theorem exprItems_of_exprR {f : Nat} {cs : List Char} {x} (hx : exprR false f cs = .ok x) :
    ∀ f', fuelFor cs ≤ f' → exprItems f' cs = some x := by
  intro f' hf'
  simp only [exprItems, exprR_fuel_suffices hx f' hf']

end Blots.ExprPeg
