import Blots.Lemmas.Separators
import Blots.Lemmas.DisplayInt
import Blots.Lemmas.ParseDec
/-
  The integer path of `format_display_number` writes exactly the integer it was given.
-/
open Blots Blots.Display Blots.NumSpec

namespace Blots.Display

/-- the integer path: the text is the sign, then the grouped digits of the exact integer -/
theorem integer_path_text (ops : NumOps) (x : F64) (h : path x = .integer) :
    formatDisplayNumber ops x =
      (if x.neg then ['-'] else []) ++ withCommas (F64.natDigits (x.ratio.1 / x.ratio.2)).toList ∧
    x.ratio.1 % x.ratio.2 = 0 ∧ 0 < x.ratio.1 / x.ratio.2 ∧ x.ratio.1 / x.ratio.2 < 2 ^ 53 := by
  obtain ⟨hn, hi, hz, hint, hlt⟩ := path_integer_facts x h
  have hmod : x.ratio.1 % x.ratio.2 = 0 := F64.ratio_integral_of_isIntegral x hint
  have hq53 := intPart_lt_of_mag_lt x (mag_lt_of_flt_twoPow53 x hlt)
  have hpos := intPart_pos x hz hn hmod
  refine ⟨?_, hmod, hpos, hq53⟩
  rw [formatDisplayNumber_integer ops x h, formatIntegerWithSeparators_eq,
    toI64_eq_truncInt x hn hi (by omega), truncInt_eq]
  generalize x.ratio.1 / x.ratio.2 = q at *
  cases x.neg
  · simp
  · simp [hpos]

theorem integer_path_exact (ops : NumOps) (x : F64) (h : path x = .integer) :
    denotesExactly (formatDisplayNumber ops x) x := by
  obtain ⟨htext, hmod, _, _⟩ := integer_path_text ops x h
  refine ⟨withCommas (F64.natDigits (x.ratio.1 / x.ratio.2)).toList, htext, ?_, ?_⟩
  · apply withCommas_no_minus
    intro hmem
    have := natDigits_isDigit _ _ hmem
    revert this
    decide
  · unfold denotesMagnitude
    rw [withCommas_strip _ (not_comma_of_isDigit _ (natDigits_isDigit _)),
      decValue_no_dot _ (fun hmem => absurd (natDigits_isDigit _ _ hmem) (by decide))]
    unfold ratEq NumSpec.digitsVal
    rw [F64.digitsVal_natDigits]
    simp only [Nat.mul_one]
    have := Nat.div_add_mod x.ratio.1 x.ratio.2
    rw [hmod] at this
    rw [Nat.mul_comm]
    omega

/-- every integral double below 2^53 that is not sent to scientific notation (and is not a
    zero) takes the integer path -/
theorem integral_takes_integer_path (x : F64) (hn : x.isNaN = false) (hi : x.isInf = false)
    (hz : F64.feq x F64.zero = false) (hint : x.isIntegral = true)
    (hlt : F64.flt x.abs twoPow53 = true) (hstd : path x ≠ .scientific) : path x = .integer := by
  unfold path at *
  simp only [hn, hi, hz, Bool.false_eq_true, ↓reduceIte] at *
  split
  · rename_i h; simp [h] at hstd
  · simp [hint, hlt]

theorem toDigits_head_ne_zero : ∀ (q : Nat), 0 < q → (Nat.toDigits 10 q).head? ≠ some '0' := by
  intro q
  induction q using Nat.strongRecOn with
  | _ q ih =>
    intro hq
    by_cases h10 : q < 10
    · rw [Nat.toDigits_of_lt_base h10]
      have : q = 1 ∨ q = 2 ∨ q = 3 ∨ q = 4 ∨ q = 5 ∨ q = 6 ∨ q = 7 ∨ q = 8 ∨ q = 9 := by omega
      rcases this with h | h | h | h | h | h | h | h | h <;> subst h <;> decide
    · have hn : 0 < q / 10 := by omega
      have hd : q % 10 < 10 := Nat.mod_lt _ (by decide)
      have hsplit := Nat.toDigits_append_toDigits (b := 10) (n := q / 10) (d := q % 10) (by decide) hn hd
      have hq' : 10 * (q / 10) + q % 10 = q := Nat.div_add_mod q 10
      rw [hq'] at hsplit
      rw [← hsplit]
      have hne : Nat.toDigits 10 (q / 10) ≠ [] := Nat.toDigits_ne_nil
      have := ih (q / 10) (by omega) hn
      cases hl : Nat.toDigits 10 (q / 10) with
      | nil => exact absurd hl hne
      | cons a t => rw [hl] at this; simpa using this

theorem natDigits_noLeadingZero (q : Nat) (hq : 0 < q) : noLeadingZero (F64.natDigits q).toList = true := by
  rw [F64.natDigits_toList]
  have := toDigits_head_ne_zero q hq
  unfold noLeadingZero
  split
  · rename_i heq; rw [heq] at this; simp at this
  · rfl

end Blots.Display
