import Blots.Lemmas.EvalFuel
/-
  Helpers for C13: the operator forms (`via`, `where`, `into`) and the built-in forms
  (`map`, `filter`, `every`, `some`, `reduce`, application) unfolded to the shared workers
  (`mapCalls`, `whereCalls`, `quantCalls`, `foldCalls`, `callFn`), and the workers
  characterised as left-to-right passes over the list with a callback (`seqMap`, `seqWhere`,
  `seqQuant`, `seqFold`): element and 0-based index, state threaded, first failure wins.
-/
namespace Blots

/-- `NF x`: the call `x` did not run out of fuel (plain syntax for `x.1 ≠ .fuel`) -/
scoped macro "NF " x:term:max : term => `(Prod.fst $x ≠ Outcome.fuel)
/-- `ND x`: the call `x` did not end in the depth error -/
scoped macro "ND " x:term:max : term => `(Prod.fst $x ≠ Outcome.err ErrKind.depth)

/-- `(ok vs, s) ↦ (ok (list vs), s)`, failures unchanged -/
def wrapList : R (List Value) → R Value
  | (.ok vs, s) => (.ok (.list vs), s)
  | (.err k, s) => (.err k, s)
  | (.panic p, s) => (.panic p, s)
  | (.fuel, s) => (.fuel, s)

@[simp] theorem wrapList_fst_ne_fuel (x : R (List Value)) :
    (wrapList x).1 ≠ Outcome.fuel ↔ x.1 ≠ Outcome.fuel := by
  obtain ⟨r, s⟩ := x; cases r <;> simp [wrapList]

theorem wrapList_eq_ok_iff (x : R (List Value)) (v : Value) (s' : ES) :
    wrapList x = (.ok v, s') ↔ ∃ vs, x = (.ok vs, s') ∧ v = .list vs := by
  obtain ⟨r, s⟩ := x
  cases r <;> simp only [wrapList, Prod.mk.injEq, Outcome.ok.injEq, reduceCtorEq, false_and,
    exists_false]
  constructor
  · rintro ⟨rfl, rfl⟩; exact ⟨_, ⟨rfl, rfl⟩, rfl⟩
  · rintro ⟨vs, ⟨rfl, rfl⟩, rfl⟩; exact ⟨rfl, rfl⟩

/-- the arguments of a map / filter / every / some / via / where callback -/
def idxArgs (withIdx : Bool) (x : Value) (i : Nat) : List Value :=
  if withIdx then [x, .num (F64.ofNat i)] else [x]

/-- the arguments of a reduce callback -/
def foldArgs (withIdx : Bool) (acc x : Value) (i : Nat) : List Value :=
  if withIdx then [acc, x, .num (F64.ofNat i)] else [acc, x]

/-! ### the forms unfolded to the shared workers -/

theorem callFn_builtin_succ (ops : NumOps) (fuel : Nat) (name : String) (this : Value)
    (args : List Value) (depth : Nat) (s : ES) :
    callFn ops (fuel+1) (.builtin name) this args depth s =
      (match builtinArity name with
       | none => (.err .other, s)
       | some ar =>
         (match checkArity ar args.length with
          | .ok _ =>
            if depth > MAX_DEPTH then (.err .depth, s)
            else if isHof name then callHof ops fuel name args (depth + 1) s
            else
              (match callPure ops name args with
               | some r => (r, s)
               | none => (.err .other, s))
          | .err k => (.err k, s)
          | .panic p => (.panic p, s)
          | .fuel => (.fuel, s))) := by
  rw [callFn.eq_def]; rfl

theorem callHof_map (ops : NumOps) (fuel : Nat) (L : List Value) (f : Value) (depth : Nat) (s : ES)
    (ar : Gen.Arity) (h : arityOf f = some ar) :
    callHof ops (fuel+1) "map" [.list L, f] depth s =
      wrapList (mapCalls ops fuel f (ar.canAccept 2) L 0 (depth + 1) s) := by
  rw [callHof.eq_def]; simp [h]; rfl

theorem callHof_filter (ops : NumOps) (fuel : Nat) (L : List Value) (f : Value) (depth : Nat) (s : ES)
    (ar : Gen.Arity) (h : arityOf f = some ar) :
    callHof ops (fuel+1) "filter" [.list L, f] depth s =
      whereCalls ops fuel f (ar.canAccept 2) L 0 (depth + 1) s := by
  rw [callHof.eq_def]; simp [h]

theorem callHof_every (ops : NumOps) (fuel : Nat) (L : List Value) (f : Value) (depth : Nat) (s : ES)
    (ar : Gen.Arity) (h : arityOf f = some ar) :
    callHof ops (fuel+1) "every" [.list L, f] depth s =
      quantCalls ops fuel f (ar.canAccept 2) true L 0 (depth + 1) s := by
  rw [callHof.eq_def]; simp [h]

theorem callHof_some (ops : NumOps) (fuel : Nat) (L : List Value) (f : Value) (depth : Nat) (s : ES)
    (ar : Gen.Arity) (h : arityOf f = some ar) :
    callHof ops (fuel+1) "some" [.list L, f] depth s =
      quantCalls ops fuel f (ar.canAccept 2) false L 0 (depth + 1) s := by
  rw [callHof.eq_def]; simp [h]

theorem callHof_reduce (ops : NumOps) (fuel : Nat) (L : List Value) (f init : Value) (depth : Nat)
    (s : ES) (ar : Gen.Arity) (h : arityOf f = some ar) :
    callHof ops (fuel+1) "reduce" [.list L, f, init] depth s =
      foldCalls ops fuel f (ar.canAccept 3) init L 0 (depth + 1) s := by
  rw [callHof.eq_def]; simp [h]

theorem hof_arities :
    builtinArity "map" = some (.exact 2) ∧ builtinArity "filter" = some (.exact 2) ∧
    builtinArity "every" = some (.exact 2) ∧ builtinArity "some" = some (.exact 2) ∧
    builtinArity "reduce" = some (.exact 3) := by decide +kernel

/-- calling a two-argument higher-order built-in: arity and depth checks, then `callHof` one
    level deeper -/
theorem callFn_hof2 (ops : NumOps) (fuel : Nat) (name : String) (this a b : Value) (depth : Nat) (s : ES)
    (har : builtinArity name = some (.exact 2)) (hh : isHof name = true) :
    callFn ops (fuel+1) (.builtin name) this [a, b] depth s =
      if depth > MAX_DEPTH then (.err .depth, s) else callHof ops fuel name [a, b] (depth + 1) s := by
  rw [callFn_builtin_succ, har]
  simp [checkArity, Gen.Arity.canAccept, hh]

theorem callFn_reduce (ops : NumOps) (fuel : Nat) (this a b c : Value) (depth : Nat) (s : ES) :
    callFn ops (fuel+1) (.builtin "reduce") this [a, b, c] depth s =
      if depth > MAX_DEPTH then (.err .depth, s) else callHof ops fuel "reduce" [a, b, c] (depth + 1) s := by
  rw [callFn_builtin_succ, hof_arities.2.2.2.2]
  simp [checkArity, Gen.Arity.canAccept, isHof]

/-- a callable value has an arity unless it is a built-in with an unknown name -/
theorem arityOf_lambda (id : Nat) (ps : List LArg) (body : Expr) (sc : List (String × Value)) :
    arityOf (.lambda id ps body sc) = some (lambdaArity ps) := rfl

theorem isCallable_of_arityOf {f : Value} {ar : Gen.Arity} (h : arityOf f = some ar) :
    f.isCallable = true := by
  cases f <;> simp_all [arityOf, Value.isCallable]

theorem not_isListV_of_callable {f : Value} (h : f.isCallable = true) : isListV f = false := by
  cases f <;> simp_all [Value.isCallable, isListV]

/-- `L via f` -/
theorem evalBin_via_list (ops : NumOps) (fuel depth : Nat) (L : List Value) (f : Value) (s : ES)
    (ar : Gen.Arity) (h : arityOf f = some ar) :
    evalBin ops (fuel+1) depth .via (.list L) f s =
      wrapList (mapCalls ops fuel f (ar.canAccept 2) L 0 depth s) := by
  have hc := isCallable_of_arityOf h
  rw [evalBin_succ]
  cases f <;> simp_all [isDot, isListV, Value.isCallable] <;> rfl

/-- `L where p` -/
theorem evalBin_where_list (ops : NumOps) (fuel depth : Nat) (L : List Value) (f : Value) (s : ES)
    (ar : Gen.Arity) (h : arityOf f = some ar) :
    evalBin ops (fuel+1) depth .where_ (.list L) f s =
      whereCalls ops fuel f (ar.canAccept 2) L 0 depth s := by
  have hc := isCallable_of_arityOf h
  rw [evalBin_succ]
  cases f <;> simp_all [isDot, isListV, Value.isCallable]

/-- `x into f`, for every `x` (a list is passed whole) and callable `f` -/
theorem evalBin_into (ops : NumOps) (fuel depth : Nat) (x f : Value) (s : ES)
    (hc : f.isCallable = true) :
    evalBin ops (fuel+1) depth .into x f s = callFn ops fuel f f [x] depth s := by
  rw [evalBin_succ]
  cases f <;> simp_all [isDot, isListV, Value.isCallable] <;> cases x <;> simp

/-- `x into f` when `f` is not callable: an error (a type error when `f` is a list) -/
theorem evalBin_into_not_callable (ops : NumOps) (fuel depth : Nat) (x f : Value) (s : ES)
    (hc : f.isCallable = false) :
    evalBin ops (fuel+1) depth .into x f s =
      (.err (if isListV f then .type_ else .notCallable), s) := by
  rw [evalBin_succ]
  cases f <;> simp_all [isDot, isListV, Value.isCallable] <;> cases x <;> simp

/-- `x via f` on a non-list `x` is the application as well -/
theorem evalBin_via_scalar (ops : NumOps) (fuel depth : Nat) (x f : Value) (s : ES)
    (hx : isListV x = false) (hc : f.isCallable = true) :
    evalBin ops (fuel+1) depth .via x f s = callFn ops fuel f f [x] depth s := by
  rw [evalBin_succ]
  cases f <;> simp_all [isDot, Value.isCallable] <;> cases x <;> simp_all [isListV]

/-! ### the workers as left-to-right passes with a callback -/

/-- map: results in order, state threaded, first failure wins -/
def seqMap (call : List Value → ES → R Value) (w : Bool) : List Value → Nat → ES → R (List Value)
  | [], _, s => (.ok [], s)
  | x :: xs, i, s =>
    match call (idxArgs w x i) s with
    | (.ok v, s1) =>
      (match seqMap call w xs (i + 1) s1 with
       | (.ok vs, s2) => (.ok (v :: vs), s2)
       | r => r)
    | (.err k, s1) => (.err k, s1)
    | (.panic p, s1) => (.panic p, s1)
    | (.fuel, s1) => (.fuel, s1)

/-- filter: keep the elements whose callback result is `true`; a non-boolean is a type error -/
def seqWhere (call : List Value → ES → R Value) (w : Bool) : List Value → Nat → ES → R Value
  | [], _, s => (.ok (.list []), s)
  | x :: xs, i, s =>
    match call (idxArgs w x i) s with
    | (.ok (.bool b), s1) =>
      (match seqWhere call w xs (i + 1) s1 with
       | (.ok (.list vs), s2) => (.ok (.list (if b then x :: vs else vs)), s2)
       | r => r)
    | (.ok _, s1) => (.err .type_, s1)
    | r => r

/-- every / some: stop at the first deciding element -/
def seqQuant (call : List Value → ES → R Value) (w isEvery : Bool) : List Value → Nat → ES → R Value
  | [], _, s => (.ok (.bool isEvery), s)
  | x :: xs, i, s =>
    match call (idxArgs w x i) s with
    | (.ok (.bool b), s1) =>
      if isEvery && !b then (.ok (.bool false), s1)
      else if !isEvery && b then (.ok (.bool true), s1)
      else seqQuant call w isEvery xs (i + 1) s1
    | (.ok _, s1) => (.err .type_, s1)
    | r => r

/-- reduce: the left fold from the initial value -/
def seqFold (call : List Value → ES → R Value) (w : Bool) : Value → List Value → Nat → ES → R Value
  | acc, [], _, s => (.ok acc, s)
  | acc, x :: xs, i, s =>
    match call (foldArgs w acc x i) s with
    | (.ok v, s1) => seqFold call w v xs (i + 1) s1
    | r => r

section workers
variable (ops : NumOps)

/-- a `mapCalls` run that does not run out of fuel is the left-to-right pass with `callFn` at
    any fuel at least as large -/
theorem mapCalls_eq_seqMap (f : Value) (w : Bool) (d : Nat) : ∀ (n : Nat) (L : List Value) (i : Nat) (s : ES),
    NF (mapCalls ops n f w L i d s) → ∀ N, n ≤ N →
      seqMap (fun a st => callFn ops N f f a d st) w L i s = mapCalls ops n f w L i d s
  | 0, _, _, _, h, _, _ => by simp [mapCalls] at h
  | n + 1, [], i, s, _, _, _ => by simp [mapCalls, seqMap]
  | n + 1, x :: xs, i, s, h, N, hN => by
    rw [mapCalls.eq_3] at h ⊢
    rw [seqMap, idxArgs]
    cases hc : callFn ops n f f (if w = true then [x, Value.num (F64.ofNat i)] else [x]) d s with
    | mk r s1 =>
      rw [hc] at h
      have hcN : callFn ops N f f (if w = true then [x, Value.num (F64.ofNat i)] else [x]) d s = (r, s1) := by
        cases r with
        | fuel => simp at h
        | _ => rw [callFn_fuel_mono ops (n := n) (m := N) (by omega) (by rw [hc]; simp), hc]
      rw [hcN]
      cases r with
      | ok v =>
        simp only [] at h ⊢
        have hrest : NF (mapCalls ops n f w xs (i + 1) d s1) := by
          intro hf
          cases hm : mapCalls ops n f w xs (i + 1) d s1 with
          | mk r2 s2 => rw [hm] at hf h; simp at hf; subst hf; simp at h
        rw [mapCalls_eq_seqMap f w d n xs (i + 1) s1 hrest N (by omega)]
        rfl
      | err k => rfl
      | panic p => rfl
      | fuel => simp at h

/-- conversely: if the pass with `callFn` at fuel `N` does not run out of fuel, `mapCalls` with
    fuel `N + L.length + 1` is that pass -/
theorem seqMap_eq_mapCalls (f : Value) (w : Bool) (d N : Nat) : ∀ (L : List Value) (i : Nat) (s : ES),
    NF (seqMap (fun a st => callFn ops N f f a d st) w L i s) →
      mapCalls ops (N + L.length + 1) f w L i d s = seqMap (fun a st => callFn ops N f f a d st) w L i s
  | [], i, s, _ => by simp [mapCalls, seqMap]
  | x :: xs, i, s, h => by
    rw [show N + (x :: xs).length + 1 = (N + xs.length + 1) + 1 by simp; omega, mapCalls.eq_3]
    rw [seqMap, idxArgs] at h ⊢
    cases hc : callFn ops N f f (if w = true then [x, Value.num (F64.ofNat i)] else [x]) d s with
    | mk r s1 =>
      rw [hc] at h
      have hcN : callFn ops (N + xs.length + 1) f f (if w = true then [x, Value.num (F64.ofNat i)] else [x]) d s
          = (r, s1) := by
        cases r with
        | fuel => simp at h
        | _ => rw [callFn_fuel_mono ops (n := N) (m := N + xs.length + 1) (by omega) (by rw [hc]; simp), hc]
      rw [hcN]
      cases r with
      | ok v =>
        simp only [] at h ⊢
        have hrest : NF (seqMap (fun a st => callFn ops N f f a d st) w xs (i + 1) s1) := by
          intro hf
          cases hm : seqMap (fun a st => callFn ops N f f a d st) w xs (i + 1) s1 with
          | mk r2 s2 => rw [hm] at hf h; simp at hf; subst hf; simp at h
        rw [seqMap_eq_mapCalls f w d N xs (i + 1) s1 hrest]
        rfl
      | err k => rfl
      | panic p => rfl
      | fuel => simp at h

/- `replay`: split the hypothesis along the run, then rewrite with the facts in the context -/
set_option hygiene false in
local macro "replay" : tactic => `(tactic|
  ((repeat' split at h) <;> (try simp at h) <;> (try simp [*]) <;> (try (split <;> simp_all))))

theorem whereCalls_eq_seqWhere (f : Value) (w : Bool) (d : Nat) : ∀ (n : Nat) (L : List Value) (i : Nat) (s : ES),
    NF (whereCalls ops n f w L i d s) → ∀ N, n ≤ N →
      seqWhere (fun a st => callFn ops N f f a d st) w L i s = whereCalls ops n f w L i d s
  | 0, _, _, _, h, _, _ => by simp [whereCalls] at h
  | n + 1, [], i, s, _, _, _ => by simp [whereCalls, seqWhere]
  | n + 1, x :: xs, i, s, h, N, hN => by
    have e1 := fun a st h => callFn_fuel_mono ops (n := n) (m := N) (by omega) (fv := f) (this := f)
      (args := a) (d := d) (s := st) h
    have ih := fun i s h => whereCalls_eq_seqWhere f w d n xs i s h N (by omega)
    rw [whereCalls.eq_3] at h ⊢
    rw [seqWhere, idxArgs]
    replay

theorem seqWhere_eq_whereCalls (f : Value) (w : Bool) (d N : Nat) : ∀ (L : List Value) (i : Nat) (s : ES),
    NF (seqWhere (fun a st => callFn ops N f f a d st) w L i s) →
      whereCalls ops (N + L.length + 1) f w L i d s = seqWhere (fun a st => callFn ops N f f a d st) w L i s
  | [], i, s, _ => by simp [whereCalls, seqWhere]
  | x :: xs, i, s, h => by
    have e1 := fun a st h => callFn_fuel_mono ops (n := N) (m := N + xs.length + 1) (by omega) (fv := f)
      (this := f) (args := a) (d := d) (s := st) h
    have ih := seqWhere_eq_whereCalls f w d N xs
    rw [show N + (x :: xs).length + 1 = (N + xs.length + 1) + 1 by simp; omega, whereCalls.eq_3]
    rw [seqWhere, idxArgs] at h ⊢
    replay

theorem quantCalls_eq_seqQuant (f : Value) (w q : Bool) (d : Nat) : ∀ (n : Nat) (L : List Value) (i : Nat) (s : ES),
    NF (quantCalls ops n f w q L i d s) → ∀ N, n ≤ N →
      seqQuant (fun a st => callFn ops N f f a d st) w q L i s = quantCalls ops n f w q L i d s
  | 0, _, _, _, h, _, _ => by simp [quantCalls] at h
  | n + 1, [], i, s, _, _, _ => by simp [quantCalls, seqQuant]
  | n + 1, x :: xs, i, s, h, N, hN => by
    have e1 := fun a st h => callFn_fuel_mono ops (n := n) (m := N) (by omega) (fv := f) (this := f)
      (args := a) (d := d) (s := st) h
    have ih := fun i s h => quantCalls_eq_seqQuant f w q d n xs i s h N (by omega)
    rw [quantCalls.eq_3] at h ⊢
    rw [seqQuant, idxArgs]
    replay

theorem seqQuant_eq_quantCalls (f : Value) (w q : Bool) (d N : Nat) : ∀ (L : List Value) (i : Nat) (s : ES),
    NF (seqQuant (fun a st => callFn ops N f f a d st) w q L i s) →
      quantCalls ops (N + L.length + 1) f w q L i d s =
        seqQuant (fun a st => callFn ops N f f a d st) w q L i s
  | [], i, s, _ => by simp [quantCalls, seqQuant]
  | x :: xs, i, s, h => by
    have e1 := fun a st h => callFn_fuel_mono ops (n := N) (m := N + xs.length + 1) (by omega) (fv := f)
      (this := f) (args := a) (d := d) (s := st) h
    have ih := seqQuant_eq_quantCalls f w q d N xs
    rw [show N + (x :: xs).length + 1 = (N + xs.length + 1) + 1 by simp; omega, quantCalls.eq_3]
    rw [seqQuant, idxArgs] at h ⊢
    replay

theorem foldCalls_eq_seqFold (f : Value) (w : Bool) (d : Nat) : ∀ (n : Nat) (acc : Value) (L : List Value)
    (i : Nat) (s : ES), NF (foldCalls ops n f w acc L i d s) → ∀ N, n ≤ N →
      seqFold (fun a st => callFn ops N f f a d st) w acc L i s = foldCalls ops n f w acc L i d s
  | 0, _, _, _, _, h, _, _ => by simp [foldCalls] at h
  | n + 1, acc, [], i, s, _, _, _ => by simp [foldCalls, seqFold]
  | n + 1, acc, x :: xs, i, s, h, N, hN => by
    have e1 := fun a st h => callFn_fuel_mono ops (n := n) (m := N) (by omega) (fv := f) (this := f)
      (args := a) (d := d) (s := st) h
    have ih := fun acc i s h => foldCalls_eq_seqFold f w d n acc xs i s h N (by omega)
    rw [foldCalls.eq_3] at h ⊢
    rw [seqFold, foldArgs]
    replay

theorem seqFold_eq_foldCalls (f : Value) (w : Bool) (d N : Nat) : ∀ (acc : Value) (L : List Value) (i : Nat)
    (s : ES), NF (seqFold (fun a st => callFn ops N f f a d st) w acc L i s) →
      foldCalls ops (N + L.length + 1) f w acc L i d s =
        seqFold (fun a st => callFn ops N f f a d st) w acc L i s
  | acc, [], i, s, _ => by simp [foldCalls, seqFold]
  | acc, x :: xs, i, s, h => by
    have e1 := fun a st h => callFn_fuel_mono ops (n := N) (m := N + xs.length + 1) (by omega) (fv := f)
      (this := f) (args := a) (d := d) (s := st) h
    have ih := fun acc => seqFold_eq_foldCalls f w d N acc xs
    rw [show N + (x :: xs).length + 1 = (N + xs.length + 1) + 1 by simp; omega, foldCalls.eq_3]
    rw [seqFold, foldArgs] at h ⊢
    replay

/-- the truth value of a callback result -/
def isTrueV : Value → Bool
  | .bool true => true
  | _ => false

/-- every / some against map, same arguments and same fuel: if the predicate succeeds with a
    boolean on ALL elements, `every` is the conjunction and `some` the disjunction of the results
    (outcome component; `every`/`some` may stop early, so fewer callbacks may have run) -/
theorem quantCalls_of_mapCalls (f : Value) (w : Bool) (d : Nat) : ∀ (n : Nat) (L : List Value) (i : Nat)
    (s : ES) (bs : List Value) (s' : ES), mapCalls ops n f w L i d s = (.ok bs, s') →
    (∀ b ∈ bs, ∃ p, b = Value.bool p) →
      (quantCalls ops n f w true L i d s).1 = .ok (.bool (bs.all isTrueV)) ∧
      (quantCalls ops n f w false L i d s).1 = .ok (.bool (bs.any isTrueV))
  | 0, _, _, _, _, _, h, _ => by simp [mapCalls] at h
  | n + 1, [], i, s, bs, s', h, _ => by
    simp [mapCalls] at h
    obtain ⟨rfl, rfl⟩ := h
    simp [quantCalls]
  | n + 1, x :: xs, i, s, bs, s', h, hb => by
    rw [mapCalls.eq_3] at h
    rw [quantCalls.eq_3, quantCalls.eq_3]
    split at h
    · rename_i v s1 hc
      split at h
      · rename_i vs s2 hm
        simp only [Prod.mk.injEq, Outcome.ok.injEq] at h
        obtain ⟨rfl, rfl⟩ := h
        obtain ⟨p, rfl⟩ := hb v (by simp)
        have ih := quantCalls_of_mapCalls f w d n xs (i + 1) s1 vs s2 hm
          (fun b hb' => hb b (by simp [hb']))
        rw [hc]
        cases p <;> simp [isTrueV, ih]
      · rename_i hne
        exact absurd h (hne _ _)
    · simp at h
    · simp at h
    · simp at h

/-- … and when no element decides early (all `true` for every, all `false` for some) the final
    state is the same as well -/
theorem quantCalls_of_mapCalls_state (f : Value) (w q : Bool) (d : Nat) : ∀ (n : Nat) (L : List Value)
    (i : Nat) (s : ES) (bs : List Value) (s' : ES), mapCalls ops n f w L i d s = (.ok bs, s') →
    (∀ b ∈ bs, b = Value.bool q) → quantCalls ops n f w q L i d s = (.ok (.bool q), s')
  | 0, _, _, _, _, _, h, _ => by simp [mapCalls] at h
  | n + 1, [], i, s, bs, s', h, _ => by
    simp [mapCalls] at h
    obtain ⟨rfl, rfl⟩ := h
    simp [quantCalls]
  | n + 1, x :: xs, i, s, bs, s', h, hb => by
    rw [mapCalls.eq_3] at h
    rw [quantCalls.eq_3]
    split at h
    · rename_i v s1 hc
      split at h
      · rename_i vs s2 hm
        simp only [Prod.mk.injEq, Outcome.ok.injEq] at h
        obtain ⟨rfl, rfl⟩ := h
        have hv := hb v (by simp)
        subst hv
        have ih := quantCalls_of_mapCalls_state f w q d n xs (i + 1) s1 vs s2 hm
          (fun b hb' => hb b (by simp [hb']))
        rw [hc]
        cases q <;> simp [ih]
      · rename_i hne
        exact absurd h (hne _ _)
    · simp at h
    · simp at h
    · simp at h

/-! ### a callback without effects: the passes are `map` and `foldl` over the indexed list -/

theorem seqMap_pure (call : List Value → ES → R Value) (w : Bool) (g : Value → Nat → Value)
    (hpure : ∀ x i s, call (idxArgs w x i) s = (.ok (g x i), s)) : ∀ (L : List Value) (i : Nat) (s : ES),
    seqMap call w L i s = (.ok ((L.zipIdx i).map fun p => g p.1 p.2), s)
  | [], _, _ => rfl
  | x :: xs, i, s => by
    rw [seqMap, hpure]
    simp only []
    rw [seqMap_pure call w g hpure xs (i + 1) s]
    simp [List.zipIdx_cons]

theorem seqFold_pure (call : List Value → ES → R Value) (w : Bool) (g : Value → Value → Nat → Value)
    (hpure : ∀ acc x i s, call (foldArgs w acc x i) s = (.ok (g acc x i), s)) :
    ∀ (acc : Value) (L : List Value) (i : Nat) (s : ES),
    seqFold call w acc L i s = (.ok ((L.zipIdx i).foldl (fun a p => g a p.1 p.2) acc), s)
  | _, [], _, _ => rfl
  | acc, x :: xs, i, s => by
    rw [seqFold, hpure]
    simp only []
    rw [seqFold_pure call w g hpure (g acc x i) xs (i + 1) s]
    simp [List.zipIdx_cons]

end workers

/-! ### a named recursive function, to run examples -/

/-- `f = b => if b then f(false) else "done"` as a closure with heap cell 7 -/
def recBody : Expr := .cond (.ident "b") (.call (.ident "f") [.bool false]) (.str "done")
def recFn : Value := .lambda 7 [.req "b"] recBody []
/-- a state in which cell 7 is named `f` (so the body's `f` is the function itself, bound as
    `this` by `callFn`), and `f` is NOT otherwise in scope -/
def recState : ES := { env := [[("y", .null)]], nextId := 8, names := [(7, "f")] }

end Blots
