import Blots.Lemmas.OfRatio
/-
  `F64.ofRatio` depends only on the rational value `num / den`:

  * `ofRatio_scale` : numerator and denominator may be multiplied by an arbitrary common
                      positive factor;
  * `ofRatio_congr` : equal fractions (`n * d' = n' * d`) convert to the same double.

  `ofRatioScaled_mul` and `roundHalfEven_mul` (Lemmas/OfRatio.lean) already hold for any
  factor; the missing piece is the exponent estimate `ofRatioExp`, which goes through
  `Nat.log2` of numerator and denominator separately.  It is characterised here without
  logarithms: the un-clamped exponent is the unique `e` whose quotient lies in the window
  `[2^52, 2^53)` (`InWindow`, stated multiplicatively), and the window is scale invariant.
-/
namespace Blots.F64

/-! ### comparing `n * 2^x` with `m * 2^y`: only the difference `y - x` matters -/

theorem le_shift {n m x y x' y' : Nat} (h : y + x' ≤ y' + x) (H : n * 2 ^ x ≤ m * 2 ^ y) :
    n * 2 ^ x' ≤ m * 2 ^ y' := by
  have hx : 0 < 2 ^ x := Nat.two_pow_pos x
  apply Nat.le_of_mul_le_mul_right _ hx
  calc n * 2 ^ x' * 2 ^ x = n * 2 ^ x * 2 ^ x' := Nat.mul_right_comm _ _ _
    _ ≤ m * 2 ^ y * 2 ^ x' := Nat.mul_le_mul_right _ H
    _ = m * 2 ^ (y + x') := by rw [Nat.mul_assoc, ← Nat.pow_add]
    _ ≤ m * 2 ^ (y' + x) := Nat.mul_le_mul_left _ (Nat.pow_le_pow_right (by decide) h)
    _ = m * 2 ^ y' * 2 ^ x := by rw [Nat.mul_assoc, ← Nat.pow_add]

theorem lt_shift {n m x y x' y' : Nat} (h : y + x' ≤ y' + x) (H : n * 2 ^ x < m * 2 ^ y) :
    n * 2 ^ x' < m * 2 ^ y' := by
  have hx : 0 < 2 ^ x := Nat.two_pow_pos x
  have hx' : 0 < 2 ^ x' := Nat.two_pow_pos x'
  apply Nat.lt_of_mul_lt_mul_right (a := 2 ^ x)
  calc n * 2 ^ x' * 2 ^ x = n * 2 ^ x * 2 ^ x' := Nat.mul_right_comm _ _ _
    _ < m * 2 ^ y * 2 ^ x' := Nat.mul_lt_mul_of_pos_right H hx'
    _ = m * 2 ^ (y + x') := by rw [Nat.mul_assoc, ← Nat.pow_add]
    _ ≤ m * 2 ^ (y' + x) := Nat.mul_le_mul_left _ (Nat.pow_le_pow_right (by decide) h)
    _ = m * 2 ^ y' * 2 ^ x := by rw [Nat.mul_assoc, ← Nat.pow_add]

/-! ### the quotient window -/

/-- `ofRatioScaled` without the case split: one of the two exponents is `0`. -/
theorem ofRatioScaled_eq (n d : Nat) (e : Int) :
    ofRatioScaled n d e = (n * 2 ^ (-e).toNat, d * 2 ^ e.toNat) := by
  unfold ofRatioScaled
  split
  · have h : (-e).toNat = 0 := by omega
    rw [h, Nat.pow_zero, Nat.mul_one]
  · have h : e.toNat = 0 := by omega
    rw [h, Nat.pow_zero, Nat.mul_one]

/-- `2^52 ≤ ⌊n / (d * 2^e)⌋ < 2^53`, written with multiplications only
    (`d * 2^(e+52) ≤ n < d * 2^(e+53)` with negative powers moved to the other side). -/
def InWindow (n d : Nat) (e : Int) : Prop :=
  d * 2 ^ (e.toNat + 52) ≤ n * 2 ^ (-e).toNat ∧ n * 2 ^ (-e).toNat < d * 2 ^ (e.toNat + 53)

theorem le_div_scaled (x d k m : Nat) (hd : 0 < d) :
    2 ^ m ≤ x / (d * 2 ^ k) ↔ d * 2 ^ (k + m) ≤ x := by
  have hp : 0 < d * 2 ^ k := Nat.mul_pos hd (Nat.two_pow_pos k)
  rw [Nat.le_div_iff_mul_le hp, Nat.mul_comm (2 ^ m), Nat.mul_assoc, ← Nat.pow_add]

theorem div_scaled_lt (x d k m : Nat) (hd : 0 < d) :
    x / (d * 2 ^ k) < 2 ^ m ↔ x < d * 2 ^ (k + m) := by
  have hp : 0 < d * 2 ^ k := Nat.mul_pos hd (Nat.two_pow_pos k)
  rw [Nat.div_lt_iff_lt_mul hp, Nat.mul_comm (2 ^ m), Nat.mul_assoc, ← Nat.pow_add]

/-- the window really is the statement about the quotient computed by `ofRatio` -/
theorem inWindow_iff (n d : Nat) (e : Int) (hd : 0 < d) :
    InWindow n d e ↔
      2 ^ 52 ≤ (ofRatioScaled n d e).1 / (ofRatioScaled n d e).2 ∧
      (ofRatioScaled n d e).1 / (ofRatioScaled n d e).2 < 2 ^ 53 := by
  rw [ofRatioScaled_eq]
  simp only [InWindow, le_div_scaled _ _ _ _ hd, div_scaled_lt _ _ _ _ hd]

/-- at most one exponent puts the quotient in the window -/
theorem inWindow_not_lt {n d : Nat} {e e' : Int} (h : InWindow n d e) (h' : InWindow n d e')
    (hlt : e < e') : False := by
  have h1 : d * 2 ^ (e.toNat + 53) ≤ n * 2 ^ (-e).toNat := le_shift (by omega) h'.1
  exact Nat.lt_irrefl _ (Nat.lt_of_lt_of_le h.2 h1)

theorem inWindow_unique {n d : Nat} {e e' : Int} (h : InWindow n d e) (h' : InWindow n d e') :
    e = e' := by
  by_cases h1 : e < e'
  · exact (inWindow_not_lt h h' h1).elim
  · by_cases h2 : e' < e
    · exact (inWindow_not_lt h' h h2).elim
    · omega

/-- the window does not see a common factor -/
theorem inWindow_mul (n d c : Nat) (e : Int) (hc : 0 < c) :
    InWindow (n * c) (d * c) e ↔ InWindow n d e := by
  simp only [InWindow, Nat.mul_right_comm _ c, Nat.mul_le_mul_right_iff hc, Nat.mul_lt_mul_right hc]

/-! ### `ofRatioExp` finds the window -/

/-- SPEC of the exponent estimate: the un-clamped exponent of `ofRatioExp` puts the quotient
    in `[2^52, 2^53)`. -/
theorem ofRatioExp_spec (n d : Nat) (hn : n ≠ 0) (hd : d ≠ 0) :
    ∃ e : Int, InWindow n d e ∧ ofRatioExp n d = if e < -1074 then -1074 else e := by
  have ha1 := Nat.log2_self_le hn
  have ha2 := @Nat.lt_log2_self n
  have hb1 := Nat.log2_self_le hd
  have hb2 := @Nat.lt_log2_self d
  have hdp : 0 < d := Nat.pos_of_ne_zero hd
  unfold ofRatioExp
  simp only [ofRatioScaled_eq, Int.ofNat_eq_natCast]
  generalize n.log2 = a at ha1 ha2
  generalize d.log2 = b at hb1 hb2
  -- n / d lies strictly between 2^(a-b-1) and 2^(a-b+1)
  have hi : n * 2 ^ b < d * 2 ^ (a + 1) :=
    calc n * 2 ^ b < 2 ^ (a + 1) * 2 ^ b := Nat.mul_lt_mul_of_pos_right ha2 (Nat.two_pow_pos b)
      _ = 2 ^ b * 2 ^ (a + 1) := Nat.mul_comm _ _
      _ ≤ d * 2 ^ (a + 1) := Nat.mul_le_mul_right _ hb1
  have hii : d * 2 ^ a < n * 2 ^ (b + 1) :=
    calc d * 2 ^ a < 2 ^ (b + 1) * 2 ^ a := Nat.mul_lt_mul_of_pos_right hb2 (Nat.two_pow_pos a)
      _ = 2 ^ a * 2 ^ (b + 1) := Nat.mul_comm _ _
      _ ≤ n * 2 ^ (b + 1) := Nat.mul_le_mul_right _ ha1
  generalize he0 : (a : Int) - (b : Int) - 52 = e0
  by_cases h1 : n * 2 ^ (-e0).toNat / (d * 2 ^ e0.toNat) ≥ 2 ^ 53
  · rw [if_pos h1]
    refine ⟨e0 + 1, ⟨?_, ?_⟩, rfl⟩
    · exact le_shift (by omega) ((le_div_scaled _ _ _ _ hdp).1 h1)
    · exact lt_shift (by omega) hi
  · rw [if_neg h1]
    by_cases h2 : n * 2 ^ (-e0).toNat / (d * 2 ^ e0.toNat) < 2 ^ 52
    · rw [if_pos h2]
      refine ⟨e0 - 1, ⟨?_, ?_⟩, rfl⟩
      · exact Nat.le_of_lt (lt_shift (by omega) hii)
      · exact lt_shift (by omega) ((div_scaled_lt _ _ _ _ hdp).1 h2)
    · rw [if_neg h2]
      refine ⟨e0, ⟨?_, ?_⟩, rfl⟩
      · exact (le_div_scaled _ _ _ _ hdp).1 (Nat.le_of_not_lt h2)
      · exact (div_scaled_lt _ _ _ _ hdp).1 (Nat.lt_of_not_le h1)

/-- the exponent estimate is invariant under an arbitrary common positive factor -/
theorem ofRatioExp_scale (n d c : Nat) (hn : n ≠ 0) (hd : d ≠ 0) (hc : 0 < c) :
    ofRatioExp (n * c) (d * c) = ofRatioExp n d := by
  have hc' : c ≠ 0 := Nat.ne_of_gt hc
  obtain ⟨e, hw, he⟩ := ofRatioExp_spec (n * c) (d * c) (Nat.mul_ne_zero hn hc') (Nat.mul_ne_zero hd hc')
  obtain ⟨e', hw', he'⟩ := ofRatioExp_spec n d hn hd
  have := inWindow_unique ((inWindow_mul n d c e hc).1 hw) hw'
  rw [he, he', this]

/-! ### main results -/

/-- `ofRatio` only depends on the quotient: an arbitrary common positive factor cancels. -/
theorem ofRatio_scale (s : Bool) (n d c : Nat) (hd : 0 < d) (hc : 0 < c) :
    ofRatio s (n * c) (d * c) = ofRatio s n d := by
  have hc' : c ≠ 0 := Nat.ne_of_gt hc
  by_cases hn : n = 0
  · subst hn; rw [Nat.zero_mul, ofRatio_zero, ofRatio_zero]
  · have hd' : d ≠ 0 := Nat.ne_of_gt hd
    rw [ofRatio_eq s _ _ (Nat.mul_ne_zero hn hc') (Nat.mul_ne_zero hd' hc'),
      ofRatio_eq s n d hn hd', ofRatioExp_scale n d c hn hd' hc, ofRatioScaled_mul,
      roundHalfEven_mul _ _ _ hc]

/-- equal fractions convert to the same double -/
theorem ofRatio_congr (s : Bool) (n d n' d' : Nat) (hd : 0 < d) (hd' : 0 < d')
    (h : n * d' = n' * d) : ofRatio s n d = ofRatio s n' d' := by
  rw [← ofRatio_scale s n d d' hd hd', ← ofRatio_scale s n' d' d hd' hd, h, Nat.mul_comm d d']

/-! ### sanity checks on concrete values -/

example : ofRatio false 30 100 = ofRatio false 3 10 :=
  ofRatio_scale false 3 10 10 (by decide) (by decide)
example : ofRatio true (1 * 7) (3 * 7) = ofRatio true 1 3 :=
  ofRatio_scale true 1 3 7 (by decide) (by decide)
-- hypotheses of `ofRatio_congr` are met by 6/4 = 9/6 (neither pair is a multiple of the other)
example : ofRatio false 6 4 = ofRatio false 9 6 :=
  ofRatio_congr false 6 4 9 6 (by decide) (by decide) (by decide)
-- the window characterisation on 1/3: 2^52 ≤ ⌊2^54 / 3⌋ < 2^53, so the exponent is -54
example : InWindow 1 3 (-54) := by unfold InWindow; decide
example : ofRatioExp 1 3 = -54 := by decide

end Blots.F64
