import Blots.Model.Num
/-
  A total toy instance of `NumOps` (integer arithmetic through the saturating casts).  It is
  used ONLY in `example`s that show the hypotheses of theorems are satisfiable and to run
  `callPure` / `eval` on concrete inputs under `decide`/`rfl`; every theorem quantifies over
  all `ops`.
-/
namespace Blots

def intOps : NumOps where
  add a b := F64.ofInt (a.toI64 + b.toI64)
  sub a b := F64.ofInt (a.toI64 - b.toI64)
  mul a b := F64.ofInt (a.toI64 * b.toI64)
  div a b := if b.toI64 = 0 then F64.nan else F64.ofInt (a.toI64 / b.toI64)
  rem a b := if b.toI64 = 0 then F64.nan else F64.ofInt (a.toI64 % b.toI64)
  powf a _ := a
  sqrt a := a
  sin a := a
  cos a := a
  tan a := a
  asin a := a
  acos a := a
  atan a := a
  ln a := a
  log10 a := a
  exp a := a
  floor a := a
  ceil a := a
  round a := a
  trunc a := a

/-- small integers as doubles, by bit pattern (so that examples reduce without `ofRatio`) -/
def int0 : F64 := F64.zero
def int1 : F64 := F64.one
def int2 : F64 := F64.ofNatBits 0x4000000000000000
def int3 : F64 := F64.ofNatBits 0x4008000000000000

end Blots
